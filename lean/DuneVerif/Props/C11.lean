import DuneVerif.Model.C11
import DuneVerif.Proofs.C11.ArrayList
import DuneVerif.Proofs.C11.SLList
import DuneVerif.Proofs.C11.ReservedVector
import DuneVerif.Proofs.C11.BitSetVector
import DuneVerif.Proofs.C11.Lru
import DuneVerif.Proofs.C11.GenTie
/-!
# C11 — containers behave as their abstract sequence / map under every operation history

Property theorems only (helper lemmas live in `Proofs/C11/*.lean`, the executable models in `Model/C11/*.lean`).
All statements hold for every chunk size / capacity / block size, every element type and every history; each is
followed by an `example` exhibiting a concrete non-trivial input that satisfies its hypotheses.
Core Lean only — no Mathlib import.
-/
namespace DV.C11

/-! ## ArrayList<T,N>  (`Model/C11/ArrayList.lean`)

`AL.Inv N s` : `capacity_ = N·|chunks_|`, `start_+size_ ≤ capacity_`, every chunk from `start_/N` on is allocated
with `N` slots, every chunk in front of it has been `reset()`.
`AL.abs N s` : what `begin() … end()` shows. -/
section ArrayList
variable {α : Type} {N : Nat}

/-- `push_back` appends, keeps the invariant -/
theorem al_push_back_refines (hN : 0 < N) (d : α) {s : AL.State α} (h : AL.Inv N s) (x : α) :
    AL.abs N (AL.push N d s x) = AL.abs N s ++ [x] ∧ AL.Inv N (AL.push N d s x) :=
  ⟨AL.abs_push hN d h x, AL.inv_push hN d h x⟩

/-- `eraseToHere` on an iterator at absolute position `p` inside the window drops the first `p+1-start_` elements -/
theorem al_erase_refines (hN : 0 < N) {s : AL.State α} (h : AL.Inv N s) {p : Nat} (hp : s.start ≤ p)
    (hp2 : p < s.start + s.size) :
    AL.abs N (AL.eraseToHere N s p) = (AL.abs N s).drop (p + 1 - s.start) ∧ AL.Inv N (AL.eraseToHere N s p) :=
  ⟨AL.abs_erase hN h hp, AL.inv_erase hN h hp hp2⟩

/-- `purge` (as repaired by fixes/C11_arraylist_purge.patch) changes nothing observable and keeps the invariant -/
theorem al_purge_refines (hN : 0 < N) {s : AL.State α} (h : AL.Inv N s) :
    AL.abs N (AL.purge N s) = AL.abs N s ∧ AL.Inv N (AL.purge N s) ∧ (AL.purge N s).start < N :=
  ⟨AL.abs_purge hN h, AL.inv_purge hN h, by rw [AL.purge_start]; exact Nat.mod_lt _ hN⟩

theorem al_clear_refines (s : AL.State α) : AL.abs N (AL.clear s) = [] ∧ AL.Inv N (AL.clear s) :=
  ⟨AL.abs_clear N s, AL.inv_clear N s⟩

/-- writing through `operator[]` -/
theorem al_set_refines (hN : 0 < N) {s : AL.State α} (h : AL.Inv N s) {k : Nat} (hk : k < s.size) (x : α) :
    AL.abs N (AL.set N s k x) = (AL.abs N s).set k x ∧ AL.Inv N (AL.set N s k x) :=
  ⟨AL.abs_set hN h hk x, AL.inv_set h k x⟩

/-- random access and `size()` agree with the abstract sequence (so no element of the window is ever missing) -/
theorem al_get_refines (hN : 0 < N) {s : AL.State α} (h : AL.Inv N s) :
    (AL.abs N s).length = s.size ∧ ∀ i, i < s.size → AL.get N s i = (AL.abs N s)[i]? ∧ (AL.get N s i).isSome :=
  ⟨AL.abs_length hN h, fun i hi =>
    ⟨AL.get_eq_abs hN h hi, h.elementAt_isSome hN (by omega) (by have := h.le; omega)⟩⟩

/-- the iterator-validity promise: an iterator is an absolute position; after `push_back` every position of the
    old window still denotes the same element, and the old `end()` denotes the new element -/
theorem al_iter_stable_under_push (hN : 0 < N) (d : α) {s : AL.State α} (h : AL.Inv N s) (x : α) :
    (∀ p, s.start ≤ p → p < AL.endPos s → AL.elementAt N (AL.push N d s x) p = AL.elementAt N s p ∧
        (AL.elementAt N s p).isSome) ∧
      AL.elementAt N (AL.push N d s x) (AL.endPos s) = some x ∧
      AL.beginPos (AL.push N d s x) = AL.beginPos s ∧ AL.endPos (AL.push N d s x) = AL.endPos s + 1 :=
  ⟨fun p h1 h2 => ⟨AL.elementAt_push_lt hN d h x h2, h.elementAt_isSome hN h1 (by have := h.le; simp [AL.endPos] at h2; omega)⟩,
    AL.elementAt_push_end hN d h x,
    AL.push_start N d s x,
    by simp [AL.endPos, AL.push_start, AL.push_size]; omega⟩

/-- iterators positioned behind the one `eraseToHere` was called on stay valid -/
theorem al_iter_stable_under_erase {s : AL.State α} {p j : Nat} (hp : s.start ≤ p) (hj : p < j) :
    AL.elementAt N (AL.eraseToHere N s p) j = AL.elementAt N s j :=
  AL.elementAt_erase s hp hj

/-- `eraseToHere`'s chunk-count formula frees exactly the chunks between the old and the new start chunk -/
theorem al_freed_count_formula {start pos : Nat} (h : start ≤ pos) :
    (pos - start + start % N) / N = pos / N - start / N :=
  AL.freed_count h

/-- **all histories**: after any sequence of push_back / eraseToHere / purge / clear / operator[]= (operations
    outside their precondition skipped), the list shows exactly what the same history gives on a plain sequence -/
theorem al_runs_refine (hN : 0 < N) (d : α) (ops : List (AL.Op α)) :
    AL.Inv N (AL.run N d AL.empty ops) ∧ AL.abs N (AL.run N d AL.empty ops) = AL.specRun [] ops := by
  have := AL.run_refines hN d ops (AL.inv_empty N (α := α))
  have h0 : AL.abs N (AL.empty : AL.State α) = [] := rfl
  rw [h0] at this
  exact this

/-- the iterator-validity promise over any number of appends: every position of the window keeps denoting the same
    (present) element after `push_back` of an arbitrary list of values, `begin()` does not move and `end()` advances
    by the number of appended values -/
theorem al_iter_stable_under_pushes (hN : 0 < N) (d : α) {s : AL.State α} (h : AL.Inv N s) (xs : List α) :
    (∀ p, s.start ≤ p → p < AL.endPos s →
        AL.elementAt N (AL.pushAll N d s xs) p = AL.elementAt N s p ∧ (AL.elementAt N s p).isSome) ∧
      AL.beginPos (AL.pushAll N d s xs) = AL.beginPos s ∧
      AL.endPos (AL.pushAll N d s xs) = AL.endPos s + xs.length ∧
      AL.abs N (AL.pushAll N d s xs) = AL.abs N s ++ xs := by
  obtain ⟨_, h2, h3, h4⟩ := AL.pushAll_stable hN d xs h
  refine ⟨fun p h1 hp => ⟨h4 p hp, h.elementAt_isSome hN h1 (by have := h.le; simp [AL.endPos] at hp; omega)⟩,
    h2, by simp [AL.endPos, h2, h3]; omega, ?_⟩
  have := AL.run_refines hN d (xs.map AL.Op.push) h
  have e1 : AL.run N d s (xs.map AL.Op.push) = AL.pushAll N d s xs := by
    simp only [AL.run, AL.pushAll, List.foldl_map]
    congr 1
  have e2 : ∀ (ys : List α) (l : List α), AL.specRun l (ys.map AL.Op.push) = l ++ ys := by
    intro ys
    induction ys with
    | nil => intro l; simp [AL.specRun]
    | cons x t ih =>
      intro l
      have := ih (l ++ [x])
      simp only [AL.specRun, List.map_cons, List.foldl_cons, AL.specStep] at this ⊢
      rw [this]; simp
  rw [e1, e2] at this
  exact this.2

/-- copy construction / assignment (fixes/C11_arraylist_copy.patch) yields a list in a valid state showing the same
    sequence; self-assignment changes nothing.  (Independence of copy and original holds in the model by
    construction — value semantics — and is decided for the real class by the harness.) -/
theorem al_copy_assign_refines {s o : AL.State α} (ho : AL.Inv N o) :
    (AL.Inv N (AL.copy o) ∧ AL.abs N (AL.copy o) = AL.abs N o) ∧
      (AL.Inv N (AL.assign s (some o)) ∧ AL.abs N (AL.assign s (some o)) = AL.abs N o) ∧
      AL.assign s none = s := by
  refine ⟨?_, ?_, rfl⟩ <;> simp [AL.assign, AL.copy_eq, ho]

/-- **all histories over two lists**: any interleaving of operations on two lists, copy construction / assignment in
    either direction and self-assignment keeps both invariants, and each list shows what the same history gives on
    two plain sequences (so operating on one list never changes the other) -/
theorem al_runs2_refine (hN : 0 < N) (d : α) (ops : List (AL.Op2 α)) :
    AL.Inv N (AL.run2 N d ⟨AL.empty, AL.empty⟩ ops).a ∧ AL.Inv N (AL.run2 N d ⟨AL.empty, AL.empty⟩ ops).b ∧
      (AL.abs N (AL.run2 N d ⟨AL.empty, AL.empty⟩ ops).a, AL.abs N (AL.run2 N d ⟨AL.empty, AL.empty⟩ ops).b) =
        AL.specRun2 ([], []) ops := by
  have := AL.run2_refines hN d ops (w := ⟨AL.empty, AL.empty⟩) (AL.inv_empty N) (AL.inv_empty N)
  have h0 : AL.abs N (AL.empty : AL.State α) = [] := rfl
  simp only [h0] at this
  exact this

/-- non-vacuity: the history of DESIGN.md section 6 #4 (erase across a chunk boundary, purge, append) -/
example : AL.abs 2 (AL.run 2 (0 : Int) AL.empty [.push 0, .push 1, .push 2, .push 3, .push 4, .push 5, .erase 1, .purge, .push 99])
    = [2, 3, 4, 5, 99] := by decide
example : ∃ s : AL.State Int, AL.Inv 2 s ∧ 0 < s.start / 2 ∧ s.size = 3 ∧ s.start % 2 + s.size = 3 :=
  ⟨AL.run 2 0 AL.empty [.push 0, .push 1, .push 2, .push 3, .push 4, .erase 1],
    (AL.run_refines (by decide) 0 _ (AL.inv_empty 2)).1, by decide, by decide, by decide⟩
example : (7 - 3 + 3 % 2) / 2 = 7 / 2 - 3 / 2 := by decide
/-- two lists: copy in the middle of a chunk, then diverging appends/writes/erases on both sides -/
example : (fun w : AL.World Int => (AL.abs 2 w.a, AL.abs 2 w.b)) (AL.run2 2 (0 : Int) ⟨AL.empty, AL.empty⟩
      [.on .a (.push 1), .on .a (.push 2), .on .a (.push 3), .on .a (.erase 0), .copyFrom .b, .on .b (.set 0 9),
       .on .a (.push 4), .on .b (.push 77), .selfAssign .a, .on .b (.purge), .on .b (.push 5)])
    = ([2, 3, 4], [9, 3, 77, 5]) := by decide
example : AL.abs 3 (AL.pushAll 3 (0 : Int) (AL.run 3 0 AL.empty [.push 1, .push 2, .erase 0]) [5, 6, 7, 8]) = [2, 5, 6, 7, 8] := by
  decide

end ArrayList

/-! ## lru<Key,Tp>  (`Model/C11/Lru.lean`)

`LRU.Inv s` : node ids distinct, keys distinct (`NoDupKeys`), the index maps exactly the stored keys to their
nodes, allocator counter above all ids.  `LRU.abs s` : the recency-ordered `(key, value)` list. -/
section Lru
variable {κ ν : Type} [DecidableEq κ]

/-- **all histories**: no key is ever stored twice, and the container shows what the same history gives on a
    recency-ordered association list (`insert` of a present key = replace and move to front) -/
theorem lru_runs_refine (ops : List (LRU.Op κ ν)) :
    LRU.Inv (LRU.run LRU.empty ops) ∧ LRU.NoDupKeys (LRU.run LRU.empty ops) ∧
      LRU.abs (LRU.run LRU.empty ops) = LRU.specRun [] ops := by
  have := LRU.run_refines ops (LRU.inv_empty (κ := κ) (ν := ν))
  exact ⟨this.1, this.1.keys, by simpa [LRU.abs, LRU.empty] using this.2⟩

theorem lru_insert_refines {s : LRU.State κ ν} (h : LRU.Inv s) (k : κ) (v : ν) :
    LRU.Inv (LRU.insert s k v) ∧ LRU.abs (LRU.insert s k v) = (k, v) :: (LRU.abs s).filter (fun e => !(e.1 == k)) :=
  LRU.insert_refines h k v

/-- inserting an absent key adds a most-recent entry -/
theorem lru_insert_new {s : LRU.State κ ν} (h : LRU.Inv s) (k : κ) (v : ν) (hk : ∀ e ∈ LRU.abs s, e.1 ≠ k) :
    LRU.abs (LRU.insert s k v) = (k, v) :: LRU.abs s ∧ LRU.size (LRU.insert s k v) = LRU.size s + 1 := by
  have h1 := (LRU.insert_refines h k v).2
  have h2 : (LRU.abs s).filter (fun e => !(e.1 == k)) = LRU.abs s := by
    rw [List.filter_eq_self]; intro e he; simp [hk e he]
  rw [LRU.specInsert, h2] at h1
  exact ⟨h1, by rw [LRU.size_eq, LRU.size_eq, h1]; simp⟩

/-- the documented behaviour (fixes/C11_lru_insert_existing.patch): inserting a present key keeps the size,
    replaces the value, makes the entry the most recent one, and `find` yields the new value -/
theorem lru_insert_existing_replaces {s : LRU.State κ ν} (h : LRU.Inv s) (k : κ) (v : ν) {v₀ : ν}
    (hk : (k, v₀) ∈ LRU.abs s) :
    LRU.size (LRU.insert s k v) = LRU.size s ∧ (LRU.abs (LRU.insert s k v)).head? = some (k, v) ∧
      LRU.find (LRU.insert s k v) k = some (k, v) ∧ LRU.front (LRU.insert s k v) = some v ∧
      LRU.NoDupKeys (LRU.insert s k v) := by
  obtain ⟨hi, ha⟩ := LRU.insert_refines h k v
  have hkeys : ((LRU.abs s).map (·.1)).Nodup := by
    have := h.keys
    unfold LRU.NoDupKeys at this
    unfold LRU.abs
    rw [List.map_map]
    exact this
  have hlen := LRU.length_filter_ne (·.1) hkeys hk
  refine ⟨?_, by rw [ha]; rfl, ?_, ?_, hi.keys⟩
  · rw [LRU.size_eq, LRU.size_eq, ha]
    simp only [LRU.specInsert, List.length_cons]
    exact hlen
  · rw [LRU.find_refines hi, ha]; simp [LRU.specFind, LRU.specInsert]
  · have : (LRU.abs (LRU.insert s k v)).head? = some (k, v) := by rw [ha]; rfl
    simp only [LRU.abs, List.head?_map] at this
    simp only [LRU.front]
    cases hd : (LRU.insert s k v).data.head? with
    | none => rw [hd] at this; simp at this
    | some nd => rw [hd] at this; simp at this; simp [this]

/-- `touch` of a present key moves its entry to the front, returns its value, changes nothing else -/
theorem lru_touch_moves_front {s : LRU.State κ ν} (h : LRU.Inv s) (k : κ) {e : κ × ν}
    (hk : (LRU.abs s).find? (fun e => e.1 == k) = some e) :
    ∃ s', LRU.touch s k = some (s', some e.2) ∧ LRU.Inv s' ∧
      LRU.abs s' = e :: (LRU.abs s).filter (fun e => !(e.1 == k)) := by
  have := LRU.touch_refines h k
  cases ht : LRU.touch s k with
  | none => rw [ht] at this; simp [LRU.specTouch, hk] at this
  | some r =>
    obtain ⟨s', rv⟩ := r
    rw [ht] at this
    obtain ⟨h1, h2, h3⟩ := this
    refine ⟨s', ?_, h1, ?_⟩
    · rw [h3, hk]; rfl
    · simp [LRU.specTouch, hk] at h2; exact h2.symm

/-- `touch` of an absent key is reported (`Dune::RangeError`) -/
theorem lru_touch_absent_error {s : LRU.State κ ν} (h : LRU.Inv s) (k : κ) (hk : ∀ e ∈ LRU.abs s, e.1 ≠ k) :
    LRU.touch s k = none := by
  have := LRU.touch_refines h k
  cases ht : LRU.touch s k with
  | none => rfl
  | some r =>
    rw [ht] at this
    obtain ⟨_, h2, _⟩ := this
    have : (LRU.abs s).find? (fun e => e.1 == k) = none := by
      rw [List.find?_eq_none]; intro x hx; simpa using hk x hx
    simp [LRU.specTouch, this] at h2

/-- `size()`, `front()`, `back()` read the recency list -/
theorem lru_observers (s : LRU.State κ ν) :
    LRU.size s = (LRU.abs s).length ∧ LRU.front s = (LRU.abs s).head?.map (·.2) ∧
      LRU.back s = (LRU.abs s).getLast?.map (·.2) := by
  refine ⟨LRU.size_eq s, ?_, ?_⟩
  · simp only [LRU.front, LRU.abs, List.head?_map, Option.map_map]; rfl
  · simp only [LRU.back, LRU.abs, List.getLast?_map, Option.map_map]; rfl

/-- `find` yields the entry of the key, `end()` iff the key is absent -/
theorem lru_find_spec {s : LRU.State κ ν} (h : LRU.Inv s) (k : κ) :
    LRU.find s k = (LRU.abs s).find? (fun e => e.1 == k) := LRU.find_refines h k

theorem lru_pop_refines {s : LRU.State κ ν} (h : LRU.Inv s) :
    (LRU.Inv (LRU.popFront s) ∧ LRU.abs (LRU.popFront s) = (LRU.abs s).tail) ∧
      (LRU.Inv (LRU.popBack s) ∧ LRU.abs (LRU.popBack s) = (LRU.abs s).dropLast) :=
  ⟨LRU.popFront_refines h, LRU.popBack_refines h⟩

theorem lru_resize_clear_refines {s : LRU.State κ ν} (h : LRU.Inv s) (n : Nat) :
    (LRU.Inv (LRU.resize s n) ∧ LRU.abs (LRU.resize s n) = (LRU.abs s).take n) ∧
      (LRU.Inv (LRU.clear s) ∧ LRU.abs (LRU.clear s) = []) :=
  ⟨LRU.resize_refines h n, LRU.clear_refines s h⟩

/-- copy construction / assignment (fixes/C11_lru_copy.patch): the copy is in a valid state — its rebuilt index maps
    exactly its own keys to its own nodes — and shows the same recency list; self-assignment changes nothing -/
theorem lru_copy_assign_refines {s o : LRU.State κ ν} (ho : LRU.Inv o) :
    (LRU.Inv (LRU.copy o) ∧ LRU.abs (LRU.copy o) = LRU.abs o) ∧
      (LRU.Inv (LRU.assign s (some o)) ∧ LRU.abs (LRU.assign s (some o)) = LRU.abs o) ∧
      LRU.assign s none = s ∧
      (∀ k, LRU.find (LRU.copy o) k = LRU.find o k) := by
  have hc := LRU.copy_refines ho
  refine ⟨hc, hc, rfl, fun k => ?_⟩
  rw [LRU.find_refines hc.1, LRU.find_refines ho, hc.2]

/-- **all histories over two caches**: operations on either cache interleaved with copies in either direction and
    self-assignment keep both invariants (no duplicate keys, index exact) and each cache shows what the same history
    gives on two independent recency-ordered association lists -/
theorem lru_runs2_refine (ops : List (LRU.Op2 κ ν)) :
    LRU.Inv (LRU.run2 ⟨LRU.empty, LRU.empty⟩ ops).a ∧ LRU.Inv (LRU.run2 ⟨LRU.empty, LRU.empty⟩ ops).b ∧
      (LRU.abs (LRU.run2 ⟨LRU.empty, LRU.empty⟩ ops).a, LRU.abs (LRU.run2 ⟨LRU.empty, LRU.empty⟩ ops).b) =
        LRU.specRun2 ([], []) ops := by
  have := LRU.run2_refines ops (w := ⟨LRU.empty, LRU.empty⟩) (LRU.inv_empty (κ := κ) (ν := ν)) LRU.inv_empty
  simpa [LRU.abs, LRU.empty] using this

/-- non-vacuity: the history of DESIGN.md section 6 #6 on the repaired model … -/
example : LRU.abs (LRU.run (LRU.empty : LRU.State Int Int) [.insert 1 1, .insert 2 2, .insert 1 3]) = [(1, 3), (2, 2)] := by decide
example : ∃ s : LRU.State Int Int, LRU.Inv s ∧ ((1 : Int), (1 : Int)) ∈ LRU.abs s ∧ LRU.size s = 2 :=
  ⟨LRU.run LRU.empty [.insert 1 1, .insert 2 2], (LRU.run_refines _ LRU.inv_empty).1, by decide, by decide⟩
example : ∃ s : LRU.State Int Int, LRU.Inv s ∧ (LRU.abs s).find? (fun e => e.1 == 1) = some (1, 1) ∧ ∀ e ∈ LRU.abs s, e.1 ≠ 7 :=
  ⟨LRU.run LRU.empty [.insert 1 1, .insert 2 2], (LRU.run_refines _ LRU.inv_empty).1, by decide, by decide⟩
/-- … and the defect of the unrepaired `insert`: the same history stores key 1 twice and `find` yields the old value -/
example :
    let s := LRU.insertOld (LRU.insertOld (LRU.insertOld (LRU.empty : LRU.State Int Int) 1 1) 2 2) 1 3
    LRU.abs s = [(1, 3), (2, 2), (1, 1)] ∧ LRU.find s 1 = some (1, 1) := by decide

/-- two caches: copy, then touch / re-insert through the copy (the history that corrupted both caches before the fix) -/
example : (fun w : LRU.World Int Int => (LRU.abs w.a, LRU.abs w.b)) (LRU.run2 ⟨LRU.empty, LRU.empty⟩
      [.on .a (.insert 1 1), .on .a (.insert 2 2), .copyFrom .b, .on .b (.touch 1), .on .b (.insert 1 9), .on .a .popBack])
    = ([(2, 2)], [(1, 9), (2, 2)]) := by decide

end Lru

/-! ## ReservedVector<T,n>  (`Model/C11/ReservedVector.lean`)

`RV.Inv n s` : the array has `n` slots and `size_ ≤ n`.  `RV.abs s` : the first `size_` slots. -/
section ReservedVector
variable {α : Type} {n : Nat}

theorem rv_push_back_refines {s : RV.State α} (h : RV.Inv n s) (hs : s.size < n) (x : α) :
    RV.Inv n (RV.pushBack s x) ∧ RV.abs (RV.pushBack s x) = RV.abs s ++ [x] := RV.pushBack_refines h hs x

/-- `pop_back` drops the last element; on an empty vector it does nothing (as coded) -/
theorem rv_pop_back_refines {s : RV.State α} (h : RV.Inv n s) :
    RV.Inv n (RV.popBack s) ∧ RV.abs (RV.popBack s) = (RV.abs s).dropLast := RV.popBack_refines h

theorem rv_clear_refines {s : RV.State α} (h : RV.Inv n s) : RV.Inv n (RV.clear s) ∧ RV.abs (RV.clear s) = [] :=
  RV.clear_refines h

/-- `resize(k)` gives length `k` and keeps the common prefix (slots uncovered by growing are not initialised) -/
theorem rv_resize_refines {s : RV.State α} (h : RV.Inv n s) {k : Nat} (hk : k ≤ n) :
    RV.Inv n (RV.resize s k) ∧ (RV.abs (RV.resize s k)).length = k ∧
      (RV.abs (RV.resize s k)).take s.size = (RV.abs s).take k := RV.resize_refines h hk

theorem rv_set_fill_refines {s : RV.State α} (h : RV.Inv n s) (i : Nat) (x : α) :
    (RV.Inv n (RV.set s i x) ∧ RV.abs (RV.set s i x) = (RV.abs s).set i x) ∧
      (RV.Inv n (RV.fill s x) ∧ RV.abs (RV.fill s x) = List.replicate s.size x) :=
  ⟨RV.set_refines h i x, RV.fill_refines h x⟩

/-- `size()`, `at(i)` (with its range check), `operator[]`, `front()`, `back()` read the abstract vector -/
theorem rv_access_refines {s : RV.State α} (h : RV.Inv n s) :
    (RV.abs s).length = s.size ∧ s.size ≤ n ∧ (∀ i, RV.at? s i = (RV.abs s)[i]?) ∧
      (∀ i, i < s.size → RV.get s i = (RV.abs s)[i]?) ∧
      (0 < s.size → RV.front s = (RV.abs s).head? ∧ RV.back s = (RV.abs s).getLast?) :=
  ⟨RV.abs_length h, h.le, RV.at?_eq s, fun _ hi => RV.get_eq hi, fun hs => ⟨RV.front_eq hs, RV.back_eq h hs⟩⟩

/-- the constructors -/
theorem rv_ctor_refines (d : α) :
    (RV.Inv n (RV.empty n d) ∧ RV.abs (RV.empty n d) = []) ∧
      (∀ count v, count ≤ n → RV.Inv n (RV.ofCountValue n d count v) ∧ RV.abs (RV.ofCountValue n d count v) = List.replicate count v) ∧
      (∀ l : List α, l.length ≤ n → RV.Inv n (RV.ofList n d l) ∧ RV.abs (RV.ofList n d l) = l) :=
  ⟨⟨RV.inv_empty n d, RV.abs_empty n d⟩, fun _ v hc => RV.ofCountValue_refines d hc v, fun _ hl => RV.ofList_refines d hl⟩

/-- `operator==` is equality of the abstract vectors -/
theorem rv_eq_iff [BEq α] [LawfulBEq α] {a b : RV.State α} (ha : RV.Inv n a) (hb : RV.Inv n b) :
    (RV.eq a b = true ↔ RV.abs a = RV.abs b) ∧ RV.ne a b = !(RV.eq a b) := ⟨RV.eq_iff ha hb, rfl⟩

/-- `operator<` is the lexicographic order of the abstract vectors (for an irreflexive, trichotomous `<`);
    `>`, `<=`, `>=` are defined from it as in the code -/
theorem rv_lt_iff [LT α] [DecidableRel (α := α) (· < ·)]
    (irrefl : ∀ x : α, ¬ x < x) (tri : ∀ x y : α, ¬ x < y → ¬ y < x → x = y)
    {a b : RV.State α} (ha : RV.Inv n a) (hb : RV.Inv n b) :
    (RV.lt a b = true ↔ RV.abs a < RV.abs b) ∧ RV.gt a b = RV.lt b a ∧
      RV.le a b = !(RV.lt b a) ∧ RV.ge a b = !(RV.lt a b) :=
  ⟨RV.lt_iff irrefl tri ha hb, rfl, rfl, rfl⟩

/-- **all histories**: the capacity limit is respected (and the storage never changes its size) -/
theorem rv_runs_capacity (d : α) (ops : List (RV.Op α)) :
    RV.Inv n (RV.run n (RV.empty n d) ops) ∧ (RV.abs (RV.run n (RV.empty n d) ops)).length ≤ n := by
  have h := RV.run_inv ops (RV.inv_empty n d)
  exact ⟨h, by rw [RV.abs_length h]; exact h.le⟩

/-- **all histories**: every history (operations outside their precondition skipped, assignments from any valid
    vector included) is a run of the specification "vector with capacity limit `n`" (`RV.SpecStep`: plain list
    operations; only the elements uncovered by a growing `resize` are unspecified), and such runs never exceed `n` -/
theorem rv_runs_refine (d : α) (ops : List (RV.Op α)) :
    RV.SpecRuns n [] ops (RV.abs (RV.run n (RV.empty n d) ops)) ∧
      (∀ (l l' : List α) (o : RV.Op α), RV.SpecStep n l o l' → l.length ≤ n → l'.length ≤ n) := by
  have := RV.run_spec ops (RV.inv_empty n d)
  rw [RV.abs_empty] at this
  exact ⟨this, fun _ _ _ h hl => h.length_le hl⟩

/-- the specification is deterministic except for a growing `resize`: every other step has exactly one outcome
    (so `rv_runs_refine` pins the contents down completely on histories without a growing `resize`) -/
theorem rv_spec_deterministic {l l₁ l₂ : List α} {o : RV.Op α} (hl : l.length ≤ n)
    (h₁ : RV.SpecStep n l o l₁) (h₂ : RV.SpecStep n l o l₂)
    (hng : ∀ k, o = .resize k → k ≤ l.length ∨ ¬ k ≤ n) : l₁ = l₂ := by
  cases h₁ with
  | push h => cases h₂ with
    | push _ => rfl
    | pushFull h' => exact absurd h h'
  | pushFull h => cases h₂ with
    | push h' => exact absurd h' h
    | pushFull _ => rfl
  | pop => cases h₂; rfl
  | clear => cases h₂; rfl
  | shrink h => cases h₂ with
    | shrink _ => rfl
    | grow h' _ _ => omega
    | resizeBeyond h' => omega
  | grow h a b => rcases hng _ rfl with h' | h' <;> omega
  | resizeBeyond h => cases h₂ with
    | shrink h' => omega
    | grow _ h' _ => exact absurd h' h
    | resizeBeyond _ => rfl
  | set => cases h₂; rfl
  | fill => cases h₂; rfl
  | assignFrom h => cases h₂ with
    | assignFrom _ => rfl
    | assignInvalid h' => exact absurd h h'
  | assignInvalid h => cases h₂ with
    | assignFrom h' => exact absurd h' h
    | assignInvalid _ => rfl

example : RV.SpecRuns 4 ([] : List Int) [.push 5, .resize 3, .set 1 7, .assignFrom ⟨[1, 2, 3, 4], 2⟩, .push 9, .resize 9] [1, 2, 9] :=
  .cons (.push (by decide)) (.cons (.grow (g := [0, 0]) (by decide) (by decide) rfl) (.cons .set
    (.cons (.assignFrom ⟨rfl, by decide⟩) (.cons (.push (by decide)) (.cons (.resizeBeyond (by decide)) .nil)))))

example : RV.abs (RV.run 4 (RV.empty 4 (0 : Int)) [.push 5, .push 6, .pop, .pop, .pop, .push 7, .push 8, .set 0 1, .push 9, .push 10, .push 11])
    = [1, 8, 9, 10] := by decide
example : ∃ s : RV.State Int, RV.Inv 4 s ∧ s.size = 2 ∧ s.size < 4 :=
  ⟨RV.run 4 (RV.empty 4 0) [.push 5, .push 6], RV.run_inv _ (RV.inv_empty 4 0), by decide, by decide⟩
example : (∀ x : Int, ¬ x < x) ∧ (∀ x y : Int, ¬ x < y → ¬ y < x → x = y) :=
  ⟨fun x => Int.lt_irrefl x, fun x y h1 h2 => by omega⟩

end ReservedVector

/-! ## BitSetVector<B>  (`Model/C11/BitSetVector.lean`)

`BV.Inv B v` : the underlying `vector<bool>` holds whole blocks.  `BV.abs B v` : the list of blocks, each a
`std::bitset<B>` (list of `B` booleans, index = bit position). -/
section BitSetVector
variable {B : Nat}

/-- **all histories**: resize / clear / setAll / unsetAll and every proxy operation (`set`, `reset`, `flip`, single-bit
    `set/reset/flip`, `= bool`, `= bitset`, `= otherBlock`, `&= |= ^= <<= >>=`) act as the corresponding `std::bitset`
    operation on the addressed block and leave every other block unchanged (`List.modify`) -/
theorem bv_runs_refine (hB : 0 < B) (ops : List BV.Op) :
    BV.Inv B (BV.run B [] ops) ∧ BV.abs B (BV.run B [] ops) = BV.specRun B [] ops := by
  have h0 : BV.Inv B ([] : BV.Bits) := by simp [BV.Inv]
  have := BV.run_refines hB ops h0
  simpa [BV.abs, BV.size] using this

/-- `block_op_spec` + `frame` for the assignment all compound operators go through -/
theorem bv_block_op_spec {v : BV.Bits} (h : BV.Inv B v) {i : Nat} (hi : i < BV.size B v) {x : BV.Bits} (hx : x.length = B) :
    BV.getRepr B (BV.assignBits B v i x) i = x ∧
      (∀ i', i ≠ i' → BV.getRepr B (BV.assignBits B v i x) i' = BV.getRepr B v i') ∧
      BV.size B (BV.assignBits B v i x) = BV.size B v := by
  have := BV.assignBits_refines h hi hx
  refine ⟨this.2.2.1, this.2.2.2, ?_⟩
  have hl := congrArg List.length this.2.1
  rw [BV.abs_length, List.length_modify, BV.abs_length] at hl
  exact hl

/-- the proxy queries `count/any/none/all` and `==` are the `std::bitset` queries on the block -/
theorem bv_query_spec (v : BV.Bits) (i : Nat) {bs : BV.Bits} (hb : bs.length = B) :
    BV.countBlock B v i = (BV.getRepr B v i).countP (fun b => b) ∧
      BV.anyBlock B v i = (BV.countBlock B v i != 0) ∧ BV.noneBlock B v i = !(BV.anyBlock B v i) ∧
      BV.allBlock B v i = (BV.getRepr B v i).all (fun b => b) ∧
      (BV.equalsBits B v i bs = true ↔ BV.getRepr B v i = bs) :=
  ⟨BV.countBlock_eq B v i, rfl, rfl, BV.allBlock_eq B v i, BV.equalsBits_iff v i hb⟩

/-- block `i` is the slice `[i·B, (i+1)·B)` of the base vector, `B` bits wide -/
theorem bv_block_is_slice {v : BV.Bits} {i : Nat} (hi : i < BV.size B v) :
    BV.getRepr B v i = (v.drop (i * B)).take B ∧ (BV.getRepr B v i).length = B :=
  ⟨BV.getRepr_eq_slice hi, BV.length_getRepr B v i⟩

/-- the constructor from a `std::vector<bool>`: `Dune::RangeError` exactly when the length is not a multiple of the
    block size; otherwise the blocks are the consecutive slices and every later history refines as in `bv_runs_refine` -/
theorem bv_ofVector_spec (hB : 0 < B) (bits : BV.Bits) :
    (BV.ofVector B bits = none ↔ bits.length % B ≠ 0) ∧
      (∀ v, BV.ofVector B bits = some v → v = bits ∧ BV.Inv B v ∧ BV.size B v * B = bits.length ∧
        ∀ ops, BV.Inv B (BV.run B v ops) ∧ BV.abs B (BV.run B v ops) = BV.specRun B (BV.abs B v) ops) := by
  unfold BV.ofVector
  by_cases h : bits.length % B = 0
  · simp only [h, bne_self_eq_false, Bool.false_eq_true, if_false, reduceCtorEq, ne_eq, not_true_eq_false,
      Option.some.injEq, false_iff, not_false_eq_true, true_and]
    intro v hv
    subst hv
    exact ⟨rfl, h, BV.size_mul h, fun ops => BV.run_refines hB ops h⟩
  · have hb : (bits.length % B != 0) = true := by simpa using h
    simp [hb, h]

/-- `count()` and `countmasked(j)` of the whole vector -/
theorem bv_count_spec {v : BV.Bits} (h : BV.Inv B v) :
    BV.count v = ((BV.abs B v).map (List.countP (fun b => b))).sum ∧
      (∀ j, j < B → BV.countmasked B v j = (BV.abs B v).countP (fun blk => blk.getD j false)) ∧
      (BV.abs B v).flatten = v :=
  ⟨BV.count_eq h, fun _ hj => BV.countmasked_eq v hj, BV.abs_flatten h⟩

/-- "`std::bitset` semantics": the block operations the model uses (`bShl`, `bShr`, `bNot`, `bAnd`, `bOr`, `bXor`) are
    the machine operations on the number the block stands for (`BV.toNat`, bit `j` has weight `2^j`): shifts are
    multiplication modulo `2^B` / division by `2^n`, `~` is the `B`-bit complement, `& | ^` are bitwise; the number
    determines the block -/
theorem bv_bitset_semantics {a b : BV.Bits} (hl : a.length = b.length) (n : Nat) :
    BV.toNat a < 2 ^ a.length ∧
      BV.toNat (BV.bShl a n) = (BV.toNat a * 2 ^ n) % 2 ^ a.length ∧
      BV.toNat (BV.bShr a n) = BV.toNat a / 2 ^ n ∧
      BV.toNat (BV.bNot a) = 2 ^ a.length - 1 - BV.toNat a ∧
      BV.toNat (BV.bAnd a b) = BV.toNat a &&& BV.toNat b ∧
      BV.toNat (BV.bOr a b) = BV.toNat a ||| BV.toNat b ∧
      BV.toNat (BV.bXor a b) = BV.toNat a ^^^ BV.toNat b ∧
      (BV.toNat a = BV.toNat b → a = b) :=
  ⟨BV.toNat_lt a, BV.toNat_bShl a n, BV.toNat_bShr a n, BV.toNat_bNot a, (BV.toNat_bitwise hl).1, (BV.toNat_bitwise hl).2.1,
    (BV.toNat_bitwise hl).2.2, BV.toNat_inj hl⟩

/-- (round 3) the conversion of a block to `std::bitset<B>` (`getRepr`, behind `operator bitset()`, `~ << >>` of a block
    and all compound assignments) is exact for **every** block size: the block rebuilt from the number it stands for is
    the block itself, and only the low `B` bits of a number reach a block.  A conversion passing through a `W`-bit
    machine word (`BV.viaWord`: `to_ullong()` / `bitset(unsigned long long)`, `W = 64`) keeps exactly the bits below
    `W`; it is exact for all blocks of width `B` iff `B ≤ W` — block sizes up to the word size cannot tell the two
    apart, every larger one can (hence the block sizes 32|33, 64|65, 128|129 of the differential run). -/
theorem bv_conversion_exact (v : BV.Bits) (i W n : Nat) :
    BV.ofNat B (BV.toNat (BV.getRepr B v i)) = BV.getRepr B v i ∧
      BV.toNat (BV.ofNat B n) = n % 2 ^ B ∧
      (∀ (a : BV.Bits) (j : Nat), (BV.viaWord W a).getD j false = (decide (j < W) && a.getD j false)) ∧
      ((∀ a : BV.Bits, a.length = B → BV.viaWord W a = a) ↔ B ≤ W) := by
  refine ⟨?_, BV.toNat_ofNat B n, BV.getD_viaWord W, BV.viaWord_exact_iff W B⟩
  have := BV.ofNat_toNat (BV.getRepr B v i)
  rw [BV.length_getRepr] at this
  exact this

/-- `getBit_addr_inj`: distinct (block, bit) pairs are distinct bits -/
theorem bv_getBit_addr_inj {i j i' j' : Nat} (hj : j < B) (hj' : j' < B) (h : i * B + j = i' * B + j') : i = i' ∧ j = j' :=
  BV.addr_inj hj hj' h

example : BV.abs 3 (BV.run 3 [] [.resize 2 false, .setOne 0 1 true, .assignBits 1 [true, true, false], .shl 1 1, .xorBits 0 [true, true, true], .assignRef 1 0])
    = [[true, false, true], [true, false, true]] := by decide
example : ∃ v : BV.Bits, BV.Inv 3 v ∧ 1 < BV.size 3 v := ⟨BV.mk 3 2, by unfold BV.Inv; decide, by decide⟩
example : BV.toNat [true, false, true] = 5 ∧ BV.toNat (BV.bShl [true, false, true] 1) = 2 ∧ BV.toNat (BV.bShr [true, false, true] 2) = 1 := by
  decide
example : BV.viaWord 2 [true, false, true] = [true, false, false] ∧ BV.viaWord 3 [true, false, true] = [true, false, true] ∧
    BV.ofNat 3 13 = [true, false, true] := by decide
example : BV.ofVector 3 [true, false, true, true] = none ∧
    (BV.ofVector 3 [true, false, true, true, true, false]).map (BV.abs 3) = some [[true, false, true], [true, true, false]] := by
  decide

end BitSetVector

/-! ## SLList<T>  (`Model/C11/SLList.lean`)

`SL.Inv s` : element identities distinct, `tail_` names the last element (the sentinel iff empty), `size_` is the
chain length.  `SL.items s` : what `begin() … end()` shows.  Pointer structure abstracted to ids (partial: the
allocator is not modelled). -/
section SLList
variable {α : Type}

theorem sl_push_refines {s : SL.State α} (h : SL.Inv s) (x : α) :
    (SL.Inv (SL.pushBack s x) ∧ SL.items (SL.pushBack s x) = SL.items s ++ [x]) ∧
      (SL.Inv (SL.pushFront s x) ∧ SL.items (SL.pushFront s x) = x :: SL.items s) :=
  ⟨SL.pushBack_refines h x, SL.pushFront_refines h x⟩

theorem sl_pop_front_refines {s : SL.State α} (h : SL.Inv s) (hne : SL.items s ≠ []) :
    SL.Inv (SL.popFront s) ∧ SL.items (SL.popFront s) = (SL.items s).tail := by
  apply SL.popFront_refines h
  cases hn : s.nodes with
  | nil => simp [SL.items, hn] at hne
  | cons _ _ => simp

/-- `(begin()+k).insertAfter(x)` and `(begin()+k).deleteNext()` through plain iterators -/
theorem sl_iterator_insert_delete_refines {s : SL.State α} (h : SL.Inv s) (k : Nat) (x : α) :
    (k < (SL.items s).length →
        SL.Inv (SL.insertAfter s (SL.ptrAt s k) x) ∧
        SL.items (SL.insertAfter s (SL.ptrAt s k) x) = (SL.items s).take (k + 1) ++ x :: (SL.items s).drop (k + 1)) ∧
      (k + 1 < (SL.items s).length →
        SL.Inv (SL.deleteNext true s (SL.ptrAt s k)) ∧
        SL.items (SL.deleteNext true s (SL.ptrAt s k)) = (SL.items s).take (k + 1) ++ (SL.items s).drop (k + 2)) := by
  have hl : (SL.items s).length = s.nodes.length := by simp [SL.items]
  rw [SL.ptrAt_eq h.ids]
  constructor
  · intro hk
    have := SL.insertAfter_refines h (j := k + 1) (by omega) x
    exact ⟨this.1, this.2.1⟩
  · intro hk
    have := SL.deleteNext_refines h (j := k + 1) (by omega)
    exact ⟨this.1, this.2.1⟩

theorem sl_clear_copy_assign_refines {s : SL.State α} (h : SL.Inv s) (o : SL.State α) :
    (SL.Inv (SL.clear s) ∧ SL.items (SL.clear s) = []) ∧
      (SL.Inv (SL.copy o) ∧ SL.items (SL.copy o) = SL.items o) ∧
      (SL.Inv (SL.assign s (some o)) ∧ SL.items (SL.assign s (some o)) = SL.items o) :=
  ⟨SL.clear_refines h, SL.copy_refines o, SL.assign_refines h o⟩

/-- the converting copy constructor `SLList<T>(const SLList<T1>&)` (fixes/C11_sllist_converting_ctor.patch) yields a
    valid list holding the converted elements in order -/
theorem sl_converting_copy_refines {β : Type} (f : β → α) (o : SL.State β) :
    SL.Inv (SL.copyConv f o) ∧ SL.items (SL.copyConv f o) = (SL.items o).map f := SL.copyConv_refines f o

/-- self-assignment is the identity (fixes/C11_sllist_selfassign.patch); the unrepaired code emptied the list -/
theorem sl_assign_self (s : SL.State α) : SL.assign s none = s := rfl

theorem sl_assignUnguarded_self_empties {s : SL.State α} (h : SL.Inv s) : SL.items (SL.assignUnguarded s none) = [] :=
  SL.assignUnguarded_self h

/-- `size()`, `empty()`, `operator==`, `operator!=` read the abstract sequence -/
theorem sl_observers {a b : SL.State α} [BEq α] [LawfulBEq α] (ha : SL.Inv a) (hb : SL.Inv b) :
    a.size = ((SL.items a).length : Int) ∧ (SL.isEmpty a = true ↔ SL.items a = []) ∧
      (SL.eq a b = true ↔ SL.items a = SL.items b) ∧ SL.ne a b = !(SL.eq a b) :=
  ⟨by rw [ha.size]; simp [SL.items], SL.isEmpty_iff ha, SL.eq_iff ha hb, SL.ne_eq_not_eq a b⟩

/-- modify iterators: `beginModify/endModify` stand at positions `0`/`length`; `insert` puts the value in front of
    the position and stays behind it, `remove` deletes the element at the position, `*` reads it -/
theorem sl_modify_iterator_refines {s : SL.State α} (h : SL.Inv s) {m : SL.MIt} {j : Nat} (hm : SL.ModInv s m j) (x : α) :
    SL.ModInv s (SL.beginModify s) 0 ∧ SL.ModInv s (SL.endModify s) (SL.items s).length ∧
      SL.mDeref s m = (SL.items s)[j]? ∧
      (SL.Inv (SL.mInsert s m x).1 ∧ SL.items (SL.mInsert s m x).1 = (SL.items s).take j ++ x :: (SL.items s).drop j ∧
        SL.ModInv (SL.mInsert s m x).1 (SL.mInsert s m x).2 (j + 1)) ∧
      (j < (SL.items s).length →
        SL.ModInv s (SL.mIncrement s m) (j + 1) ∧
        SL.Inv (SL.mRemove s m).1 ∧ SL.items (SL.mRemove s m).1 = (SL.items s).take j ++ (SL.items s).drop (j + 1) ∧
        SL.ModInv (SL.mRemove s m).1 (SL.mRemove s m).2 j) := by
  have hl : (SL.items s).length = s.nodes.length := by simp [SL.items]
  refine ⟨SL.beginModify_inv h, by rw [hl]; exact SL.endModify_inv h, SL.mDeref_eq h hm, SL.mInsert_refines h hm x, ?_⟩
  intro hj
  exact ⟨SL.mIncrement_inv h hm (by omega), SL.mRemove_refines h hm (by omega)⟩

/-- **all histories** (push_back/push_front/pop_front/clear, insertAfter/deleteNext through iterators, self- and
    cross-assignment, and a modify iterator being created, advanced, inserted and removed through): the invariant
    (in particular the tail pointer) holds and the list shows the abstract sequence with the abstract cursor -/
theorem sl_runs_refine (ops : List (SL.Op α)) :
    SL.Rel (SL.run ⟨SL.empty, none⟩ ops) (SL.specRun ⟨[], none⟩ ops) :=
  SL.run_refines ops SL.rel_empty

/-- the same, spelled out in observable terms: after every history the iteration shows the abstract sequence,
    `size()` is its length, `empty()` holds iff it is empty, and a live modify iterator reads the element at the
    abstract cursor (`none` = `end()`) -/
theorem sl_runs_observable (ops : List (SL.Op α)) :
    let w := SL.run ⟨SL.empty, none⟩ ops
    let sp := SL.specRun ⟨[], none⟩ ops
    SL.Inv w.s ∧ SL.items w.s = sp.l ∧ w.s.size = (sp.l.length : Int) ∧ (SL.isEmpty w.s = true ↔ sp.l = []) ∧
      (w.m.isSome ↔ sp.pos.isSome) ∧ (∀ m j, w.m = some m → sp.pos = some j → SL.mDeref w.s m = sp.l[j]?) := by
  intro w sp
  have h : SL.Rel w sp := SL.run_refines ops SL.rel_empty
  refine ⟨h.inv, h.items, ?_, ?_, ?_, ?_⟩
  · rw [h.inv.size, h.len]
  · rw [SL.isEmpty_iff h.inv, h.items]
  · have := h.it
    cases hm : w.m <;> cases hp : sp.pos <;> simp [hm, hp, SL.ItRel] at this ⊢
  · intro m j hm hp
    have := h.it
    rw [hm, hp] at this
    rw [SL.mDeref_eq h.inv this, h.items]

example : SL.items (SL.run (⟨SL.empty, none⟩ : SL.World Int)
    [.pushBack 1, .pushBack 2, .pushFront 0, .mBegin, .mInc, .mIns 7, .mRem, .mIns 8, .assignSelf, .mEnd, .mIns 9, .delNext 0, .pushBack 5]).s
    = [0, 8, 2, 9, 5] := by decide
example : ∃ (s : SL.State Int) (m : SL.MIt), SL.Inv s ∧ SL.ModInv s m 1 ∧ 1 < (SL.items s).length :=
  ⟨(SL.run ⟨SL.empty, none⟩ [.pushBack 1, .pushBack 2, .mBegin, .mInc]).s, SL.mIncrement _ (SL.beginModify _),
    (SL.run_refines (α := Int) [.pushBack 1, .pushBack 2] SL.rel_empty).inv,
    SL.mIncrement_inv (SL.run_refines (α := Int) [.pushBack 1, .pushBack 2] SL.rel_empty).inv
      (SL.beginModify_inv (SL.run_refines (α := Int) [.pushBack 1, .pushBack 2] SL.rel_empty).inv) (by decide),
    by decide⟩

example : SL.items (SL.copyConv (fun x : Int => x * 2) (SL.run ⟨SL.empty, none⟩ [.pushBack 1, .pushFront 0, .pushBack 5]).s) = [0, 2, 10] := by
  decide

end SLList

/-! ## Round four: the theorems re-stated through `Gen/C11.lean`

`DV.C11.Gen.*` is regenerated from dune/common/arraylist.hh and dune/common/bitsetvector.hh on every run
(tools/translators/tr_c11.py: the index formulas, conditions, loop bounds and member updates of the straight-line
member functions, obtained by symbolic execution of their statements in source order).  The theorems below say that
each model operation *is* the state transformer the current source spells out, and re-derive the central refinement
facts for the generated formulas - so they are re-checked against what the code says now. -/
section Generated
variable {α : Type} {N : Nat}

/-- the model's `chunkSize_`, absolute-index, begin/end and size formulas are the ones in the source (both constnesses) -/
theorem gen_al_access_tied (n : Int) (s : AL.State α) (i : Nat) :
    Gen.chunkSize n = AL.chunkSize n ∧
      AL.get N s i = GenTie.readVia s.chunks
        (Gen.alElemChunk N (Gen.alIndexArg N s.start s.size s.capacity i))
        (Gen.alElemOffset N (Gen.alIndexArg N s.start s.size s.capacity i)) ∧
      AL.get N s i = GenTie.readVia s.chunks
        (Gen.alElemChunkC N (Gen.alIndexArgC N s.start s.size s.capacity i))
        (Gen.alElemOffsetC N (Gen.alIndexArgC N s.start s.size s.capacity i)) ∧
      AL.beginPos s = Gen.alBegin N s.start s.size s.capacity ∧ AL.beginPos s = Gen.alBeginC N s.start s.size s.capacity ∧
      AL.endPos s = Gen.alEnd N s.start s.size s.capacity ∧ AL.endPos s = Gen.alEndC N s.start s.size s.capacity ∧
      s.size = Gen.alSize N s.start s.size s.capacity := by
  simp only [GenTie.chunkSize, GenTie.alElemChunk, GenTie.alElemOffset, GenTie.alElemChunkC, GenTie.alElemOffsetC,
    GenTie.alIndexArg, GenTie.alIndexArgC, GenTie.alBegin, GenTie.alBeginC, GenTie.alEnd, GenTie.alEndC, GenTie.alSize]
  all_goals repeat' apply And.intro
  all_goals first | rfl | trivial

/-- random access as the source spells it (`chunks_[(start_+i)/chunkSize_]->operator[]((start_+i)%chunkSize_)`, read
    through the generated formulas, mutable and const overload) returns the `i`-th element of the abstract sequence,
    and `size()` is its length -/
theorem gen_al_get_refines (hN : 0 < N) {s : AL.State α} (h : AL.Inv N s) :
    Gen.alSize N s.start s.size s.capacity = (AL.abs N s).length ∧
    ∀ i, i < s.size →
      GenTie.readVia s.chunks (Gen.alElemChunk N (Gen.alIndexArg N s.start s.size s.capacity i))
        (Gen.alElemOffset N (Gen.alIndexArg N s.start s.size s.capacity i)) = (AL.abs N s)[i]? ∧
      GenTie.readVia s.chunks (Gen.alElemChunkC N (Gen.alIndexArgC N s.start s.size s.capacity i))
        (Gen.alElemOffsetC N (Gen.alIndexArgC N s.start s.size s.capacity i)) = (AL.abs N s)[i]? ∧
      ((AL.abs N s)[i]?).isSome := by
  have hg := al_get_refines hN h
  refine ⟨by rw [GenTie.alSize]; exact hg.1.symm, fun i hi => ?_⟩
  have h1 := (gen_al_access_tied (N := N) 0 s i).2.1
  have h2 := (gen_al_access_tied (N := N) 0 s i).2.2.1
  have h3 := hg.2 i hi
  exact ⟨by rw [← h1]; exact h3.1, by rw [← h2]; exact h3.1, by rw [← h3.1]; exact h3.2⟩

/-- iterators: `it[i]` / `*it` of an iterator `begin()+k` (both iterator classes, as generated) read the elements
    `k+i` / `k` of the abstract sequence; `distanceTo`, `advance`, `++`, `--`, `equals` are position arithmetic -/
theorem gen_al_iterator_refines (hN : 0 < N) {s : AL.State α} (h : AL.Inv N s) (k i : Nat) (hki : k + i < s.size) :
    AL.elementAt N s (Gen.itElemArg N (Gen.alBegin N s.start s.size s.capacity + k) i) = (AL.abs N s)[k + i]? ∧
      AL.elementAt N s (Gen.itElemArgC N (Gen.alBeginC N s.start s.size s.capacity + k) i) = (AL.abs N s)[k + i]? ∧
      AL.elementAt N s (Gen.itDerefArg N (Gen.alBegin N s.start s.size s.capacity + (k + i))) = (AL.abs N s)[k + i]? ∧
      AL.elementAt N s (Gen.itDerefArgC N (Gen.alBeginC N s.start s.size s.capacity + (k + i))) = (AL.abs N s)[k + i]? ∧
      Gen.itDistanceTo (Gen.alBegin N s.start s.size s.capacity) (Gen.alEnd N s.start s.size s.capacity) = (AL.abs N s).length ∧
      Gen.itDistanceToC (Gen.alBeginC N s.start s.size s.capacity) (Gen.alEndC N s.start s.size s.capacity) = (AL.abs N s).length := by
  have hg := (al_get_refines hN h).2 (k + i) hki
  have hl := (al_get_refines hN h).1
  simp only [GenTie.itElemArg, GenTie.itElemArgC, GenTie.itDerefArg, GenTie.itDerefArgC, GenTie.alBegin, GenTie.alBeginC,
    GenTie.alEnd, GenTie.alEndC, GenTie.itDistanceTo, GenTie.itDistanceToC, hl]
  have e : AL.elementAt N s (s.start + k + i) = (AL.abs N s)[k + i]? := by
    have := hg.1
    unfold AL.get at this
    rw [← Nat.add_assoc] at this
    exact this
  have e' : AL.elementAt N s (s.start + (k + i)) = (AL.abs N s)[k + i]? := by rw [← Nat.add_assoc]; exact e
  refine ⟨e, e, e', e', ?_, ?_⟩ <;> omega

theorem gen_al_iterator_moves (p o n : Int) (a b : Nat) :
    Gen.itAdvance p n = p + n ∧ Gen.itAdvanceC p n = p + n ∧ Gen.itIncrement p = p + 1 ∧ Gen.itIncrementC p = p + 1 ∧
      Gen.itDecrement p = p - 1 ∧ Gen.itDecrementC p = p - 1 ∧
      Gen.itDistanceTo p o = o - p ∧ Gen.itDistanceToC p o = o - p ∧
      (Gen.itEquals a b = true ↔ a = b) ∧ (Gen.itEqualsM a b = true ↔ a = b) ∧ (Gen.itEqualsC a b = true ↔ a = b) :=
  ⟨GenTie.itAdvance p n, GenTie.itAdvanceC p n, GenTie.itIncrement p, GenTie.itIncrementC p, GenTie.itDecrement p,
    GenTie.itDecrementC p, GenTie.itDistanceTo p o, GenTie.itDistanceToC p o, GenTie.itEquals a b, GenTie.itEqualsM a b,
    GenTie.itEqualsC a b⟩

/-- `push_back` of the model is the statement sequence of the source: grow iff the generated condition holds (by the
    generated capacity increment), write at the generated index, generated new `size_`; hence (with
    `al_push_back_refines`) the source's formulas append to the abstract sequence -/
theorem gen_al_push_tied (d : α) (s : AL.State α) (x : α) :
    AL.push N d s x =
      (let s1 : AL.State α :=
        if Gen.pushGrow N s.start s.size s.capacity = true then
          { s with chunks := s.chunks ++ [some (List.replicate N d)],
                   capacity := Gen.pushGrownCapacity N s.start s.size s.capacity }
        else s
       { chunks := AL.writeAt N s1.chunks (Gen.pushWriteIndex N s.start s.size s1.capacity) x,
         capacity := s1.capacity,
         size := Gen.pushSize N s.start s.size s1.capacity,
         start := Gen.pushStart N s.start s.size s1.capacity }) := by
  simp only [GenTie.pushGrow, GenTie.pushGrownCapacity, GenTie.pushWriteIndex, GenTie.pushSize, GenTie.pushStart]
  unfold AL.push
  by_cases hc : s.start + s.size = s.capacity <;> simp [hc]

/-- `purge` of the model is the source's statement sequence (generated condition, copy range, resize count and member
    updates); the copied range has exactly the length that is kept -/
theorem gen_al_purge_tied (s : AL.State α) :
    AL.purge N s =
      (if Gen.purgeCond N s.start s.size s.capacity = true then
        { chunks := (s.chunks.drop (Gen.purgeCopyFrom N s.start s.size s.capacity)).take (Gen.purgeResize N s.start s.size s.capacity),
          capacity := Gen.purgeCapacity N s.start s.size s.capacity,
          size := Gen.purgeSize N s.start s.size s.capacity,
          start := Gen.purgeStart N s.start s.size s.capacity }
      else s) ∧
    Gen.purgeCopyTo N s.start s.size s.capacity =
      Gen.purgeCopyFrom N s.start s.size s.capacity + Gen.purgeResize N s.start s.size s.capacity := by
  simp only [GenTie.purgeCond, GenTie.purgeCopyFrom, GenTie.purgeResize, GenTie.purgeCapacity, GenTie.purgeSize,
    GenTie.purgeStart, GenTie.purgeCopyTo]
  all_goals repeat' apply And.intro
  all_goals first | rfl | trivial

/-- `eraseToHere` of the model is the source's statement sequence; for an iterator inside the window the generated
    loop count frees exactly the chunks between the old and the new first chunk, and the generated new size is the
    number of elements behind the iterator -/
theorem gen_al_erase_tied (s : AL.State α) (p : Nat) :
    AL.eraseToHere N s p =
      { chunks := AL.freeLoop s.chunks (Gen.eraseLoopFirst N s.start s.size s.capacity p) (Gen.eraseLoopCount N s.start s.size s.capacity p),
        capacity := Gen.eraseCapacity N s.start s.size s.capacity p,
        size := Gen.eraseSize N s.start s.size s.capacity p,
        start := Gen.eraseStart N s.start s.size s.capacity p } ∧
    Gen.erasePos N s.start s.size s.capacity p = p + 1 ∧
    (s.start ≤ p → p < s.start + s.size →
      Gen.eraseLoopCount N s.start s.size s.capacity p = Gen.eraseLoopFirst N s.start s.size s.capacity p - s.start / N ∧
      Gen.eraseSize N s.start s.size s.capacity p + (p + 1 - s.start) = s.size ∧
      Gen.eraseStart N s.start s.size s.capacity p + Gen.eraseSize N s.start s.size s.capacity p = s.start + s.size) := by
  simp only [GenTie.eraseLoopFirst, GenTie.eraseLoopCount, GenTie.eraseCapacity, GenTie.eraseSize, GenTie.eraseStart,
    GenTie.erasePos]
  refine ⟨rfl, trivial, fun h1 h2 => ⟨AL.freed_count (by omega), by omega, by omega⟩⟩

theorem gen_al_clear_tied (s : AL.State α) :
    AL.clear s = ⟨[], Gen.clearCapacity N s.start s.size s.capacity, Gen.clearSize N s.start s.size s.capacity,
      Gen.clearStart N s.start s.size s.capacity⟩ := by
  simp only [GenTie.clearCapacity, GenTie.clearSize, GenTie.clearStart]
  all_goals first | rfl | trivial

/-- BitSetVector: bit `(i,j)` lives at the generated address (both `getBit` overloads), distinct (block, bit) pairs
    have distinct generated addresses, the constructors / `resize` allocate the generated number of bits, `size()` and
    the `vector<bool>` constructor's rejection test are the generated ones -/
theorem gen_bv_tied {B : Nat} (v : BV.Bits) (i j n : Nat) (b : Bool) :
    BV.getBit B v i j = v.getD (Gen.bvAddr B i j) false ∧ BV.getBit B v i j = v.getD (Gen.bvAddrC B i j) false ∧
      BV.setBit B v i j b = v.set (Gen.bvAddr B i j) b ∧
      (∀ i' j', j < B → j' < B → Gen.bvAddr B i j = Gen.bvAddr B i' j' → i = i' ∧ j = j') ∧
      (∀ i' j', j < B → j' < B → Gen.bvAddrC B i j = Gen.bvAddrC B i' j' → i = i' ∧ j = j') ∧
      BV.mk B n = List.replicate (Gen.bvCtorLen B n) false ∧ BV.mk B n b = List.replicate (Gen.bvCtorLenV B n) b ∧
      (BV.resize B v n b).length = Gen.bvResizeLen B n ∧
      BV.size B v = Gen.bvSize B v.length ∧
      BV.ofVector B v = (if Gen.bvCtorReject B v.length = true then none else some v) := by
  simp only [GenTie.bvAddr, GenTie.bvAddrC, GenTie.bvCtorLen, GenTie.bvCtorLenV, GenTie.bvResizeLen, GenTie.bvSize,
    GenTie.bvCtorReject]
  refine ⟨rfl, rfl, rfl, fun i' j' h1 h2 h3 => bv_getBit_addr_inj h1 h2 h3, fun i' j' h1 h2 h3 => bv_getBit_addr_inj h1 h2 h3,
    rfl, rfl, ?_, rfl, ?_⟩
  · unfold BV.resize
    split
    · rw [List.length_take]; omega
    · rw [List.length_append, List.length_replicate]; omega
  · unfold BV.ofVector
    by_cases h : v.length % B = 0 <;> simp [h]

/-- non-vacuity: the generated formulas on the state of DESIGN.md section 6 #4 (two freed chunks, start inside a chunk) -/
example : let s := AL.run 2 (0 : Int) AL.empty [.push 0, .push 1, .push 2, .push 3, .push 4, .push 5, .erase 2]
    GenTie.readVia s.chunks (Gen.alElemChunk 2 (Gen.alIndexArg 2 s.start s.size s.capacity 1))
      (Gen.alElemOffset 2 (Gen.alIndexArg 2 s.start s.size s.capacity 1)) = some 4 ∧
    Gen.purgeCond 2 s.start s.size s.capacity = true ∧ Gen.purgeResize 2 s.start s.size s.capacity = 2 ∧
    Gen.eraseLoopCount 2 0 6 6 2 = 1 ∧ Gen.eraseLoopFirst 2 0 6 6 2 = 1 ∧ Gen.pushGrow 2 s.start s.size s.capacity = true := by decide
example : Gen.bvAddr 3 2 1 = 7 ∧ Gen.bvCtorReject 3 4 = true ∧ Gen.bvCtorReject 3 6 = false ∧ Gen.bvSize 3 7 = 2 ∧
    Gen.itDistanceTo 3 7 = 4 ∧ Gen.itEqualsM 3 3 = true ∧ Gen.itEqualsM 3 4 = false ∧ Gen.chunkSize 0 = 1 ∧ Gen.chunkSize 7 = 7 := by decide

/-- ReservedVector: every accessor reads the generated slot, every mutator writes the generated slot and sets the
    generated size, all iterator ranges (`begin/end`, `cbegin/cend`, reversed) and the hashed range cover exactly the
    slots `[0, size_)` of the abstract vector, and each `CHECKSIZE` asserts exactly the documented precondition -/
theorem gen_rv_tied {n : Nat} (s : RV.State α) (i : Nat) (x : α) :
    (RV.get s i = s.storage[Gen.rvIndex n s.size i]? ∧ RV.get s i = s.storage[Gen.rvIndexC n s.size i]? ∧
      RV.front s = s.storage[Gen.rvFront n s.size]? ∧ RV.front s = s.storage[Gen.rvFrontC n s.size]? ∧
      RV.back s = s.storage[Gen.rvBack n s.size]? ∧ RV.back s = s.storage[Gen.rvBackC n s.size]? ∧
      RV.at? s i = (if Gen.rvAtThrow n s.size i = true then none else s.storage[Gen.rvAtIndex n s.size i]?) ∧
      RV.at? s i = (if Gen.rvAtThrowC n s.size i = true then none else s.storage[Gen.rvAtIndexC n s.size i]?)) ∧
    (RV.pushBack s x = ⟨s.storage.set (Gen.rvPushIndex n s.size) x, Gen.rvPushSize n s.size⟩ ∧
      RV.pushBack s x = ⟨s.storage.set (Gen.rvPushRIndex n s.size) x, Gen.rvPushRSize n s.size⟩ ∧
      RV.pushBack s x = ⟨s.storage.set (Gen.rvEmplaceIndex n s.size) x, Gen.rvEmplaceSize n s.size⟩ ∧
      RV.popBack s = (if Gen.rvPopCond n s.size = true then ⟨s.storage, Gen.rvPopSize n s.size⟩ else s) ∧
      RV.clear s = ⟨s.storage, Gen.rvClearSize n s.size⟩ ∧
      RV.resize s i = ⟨s.storage, Gen.rvResizeSize n s.size i⟩ ∧
      RV.set s i x = ⟨s.storage.set (Gen.rvIndex n s.size i) x, s.size⟩ ∧
      RV.fill s x = ⟨RV.fillLoop s.storage x (Gen.rvFillBound n s.size), s.size⟩ ∧ Gen.rvFillIndex n s.size i = i) ∧
    (RV.abs s = (s.storage.drop (Gen.rvBeginOff n s.size)).take (Gen.rvEndOff n s.size - Gen.rvBeginOff n s.size) ∧
      RV.abs s = (s.storage.drop (Gen.rvBeginOffC n s.size)).take (Gen.rvEndOffC n s.size - Gen.rvBeginOffC n s.size) ∧
      RV.abs s = (s.storage.drop (Gen.rvCbeginOff n s.size)).take (Gen.rvCendOff n s.size - Gen.rvCbeginOff n s.size) ∧
      RV.abs s = (s.storage.drop (Gen.rvRendOff n s.size)).take (Gen.rvRbeginOff n s.size - Gen.rvRendOff n s.size) ∧
      RV.abs s = (s.storage.drop (Gen.rvRendOffC n s.size)).take (Gen.rvRbeginOffC n s.size - Gen.rvRendOffC n s.size) ∧
      RV.abs s = (s.storage.drop (Gen.rvCrendOff n s.size)).take (Gen.rvCrbeginOff n s.size - Gen.rvCrendOff n s.size) ∧
      RV.abs s = s.storage.take (Gen.rvHashEnd n s.size) ∧
      Gen.rvSize n s.size = s.size ∧ (Gen.rvEmpty n s.size = true ↔ s.size = 0) ∧
      Gen.rvCapacity n s.size = n ∧ Gen.rvMaxSize n s.size = n) ∧
    ((Gen.rvIndexCheck n s.size i = true ↔ i < s.size) ∧ (Gen.rvIndexCheckC n s.size i = true ↔ i < s.size) ∧
      (Gen.rvFrontCheck n s.size = true ↔ 0 < s.size) ∧ (Gen.rvFrontCheckC n s.size = true ↔ 0 < s.size) ∧
      (Gen.rvBackCheck n s.size = true ↔ 0 < s.size) ∧ (Gen.rvBackCheckC n s.size = true ↔ 0 < s.size) ∧
      (Gen.rvPushCheck n s.size = true ↔ s.size < n) ∧ (Gen.rvPushRCheck n s.size = true ↔ s.size < n) ∧
      (Gen.rvEmplaceCheck n s.size = true ↔ s.size < n) ∧ (Gen.rvResizeCheck n s.size i = true ↔ i ≤ n)) := by
  refine ⟨?_, ?_, ?_, ?_⟩
  · simp only [GenTie.rvIndex, GenTie.rvIndexC, GenTie.rvFront, GenTie.rvFrontC, GenTie.rvBack, GenTie.rvBackC,
      GenTie.rvAtThrow, GenTie.rvAtThrowC, GenTie.rvAtIndex, GenTie.rvAtIndexC]
    refine ⟨rfl, rfl, rfl, rfl, rfl, rfl, ?_, ?_⟩ <;> (unfold RV.at?; by_cases h : i < s.size <;> simp [h])
  · simp only [GenTie.rvPushIndex, GenTie.rvPushSize, GenTie.rvPushRIndex, GenTie.rvPushRSize, GenTie.rvEmplaceIndex,
      GenTie.rvEmplaceSize, GenTie.rvPopCond, GenTie.rvPopSize, GenTie.rvClearSize, GenTie.rvResizeSize, GenTie.rvIndex,
      GenTie.rvFillBound, GenTie.rvFillIndex]
    refine ⟨rfl, rfl, rfl, ?_, rfl, rfl, rfl, rfl, trivial⟩
    unfold RV.popBack
    by_cases h : s.size = 0 <;> simp [h]
  · simp only [GenTie.rvBeginOff, GenTie.rvBeginOffC, GenTie.rvCbeginOff, GenTie.rvEndOff, GenTie.rvEndOffC, GenTie.rvCendOff,
      GenTie.rvRbeginOff, GenTie.rvRbeginOffC, GenTie.rvCrbeginOff, GenTie.rvRendOff, GenTie.rvRendOffC, GenTie.rvCrendOff,
      GenTie.rvHashEnd, GenTie.rvSize, GenTie.rvEmpty, GenTie.rvCapacity, GenTie.rvMaxSize, List.drop_zero, Nat.sub_zero]
    all_goals repeat' apply And.intro
    all_goals first | rfl | trivial
  · exact ⟨GenTie.rvIndexCheck n s.size i, GenTie.rvIndexCheckC n s.size i, GenTie.rvFrontCheck n s.size,
      GenTie.rvFrontCheckC n s.size, GenTie.rvBackCheck n s.size, GenTie.rvBackCheckC n s.size, GenTie.rvPushCheck n s.size,
      GenTie.rvPushRCheck n s.size, GenTie.rvEmplaceCheck n s.size, GenTie.rvResizeCheck n s.size i⟩

/-- with `rv_runs_refine`: along every history the generated end offset never exceeds the generated capacity -/
theorem gen_rv_runs_capacity {n : Nat} (d : α) (ops : List (RV.Op α)) :
    Gen.rvEndOff n (RV.run n (RV.empty n d) ops).size ≤ Gen.rvCapacity n (RV.run n (RV.empty n d) ops).size := by
  rw [GenTie.rvEndOff, GenTie.rvCapacity]
  exact (rv_runs_capacity (n := n) d ops).1.le

example : Gen.rvBack 4 3 = 2 ∧ Gen.rvAtThrow 4 3 3 = true ∧ Gen.rvAtThrow 4 3 2 = false ∧ Gen.rvPushIndex 4 3 = 3 ∧
    Gen.rvPushSize 4 3 = 4 ∧ Gen.rvPopCond 4 0 = false ∧ Gen.rvPopCond 4 1 = true ∧ Gen.rvEndOff 4 3 = 3 ∧ Gen.rvPushCheck 4 4 = false := by
  decide

/-- the operators of `RandomAccessIteratorFacade` (as generated from iteratorfacades.hh, both branches of every free
    operator) composed with the generated primitives of both ArrayList iterator classes are position arithmetic:
    `< <= > >=` and `-` compare / subtract positions, `== !=` decide equality of positions, `+= -= + -` move by `±n`,
    `it[n]` hands `n` on, `++it`/`--it` forward to `increment`/`decrement`, and `it++`/`it--` (also of
    `ForwardIteratorFacade`, the base of the SLList iterators) return the copy taken *before* the step -/
theorem gen_facade_refines (a b n : Int) (p q : Nat) :
    (∀ dist, (dist = Gen.itDistanceTo ∨ dist = Gen.itDistanceToC) →
      (Gen.facLt1 dist a b = true ↔ a < b) ∧ (Gen.facLt2 dist a b = true ↔ a < b) ∧
      (Gen.facLe1 dist a b = true ↔ a ≤ b) ∧ (Gen.facLe2 dist a b = true ↔ a ≤ b) ∧
      (Gen.facGt1 dist a b = true ↔ a > b) ∧ (Gen.facGt2 dist a b = true ↔ a > b) ∧
      (Gen.facGe1 dist a b = true ↔ a ≥ b) ∧ (Gen.facGe2 dist a b = true ↔ a ≥ b) ∧
      Gen.facDiff1 dist a b = a - b ∧ Gen.facDiff2 dist a b = a - b) ∧
    (∀ eq, (eq = Gen.itEquals ∨ eq = Gen.itEqualsM ∨ eq = Gen.itEqualsC) →
      (Gen.facEq1 eq p q = true ↔ p = q) ∧ (Gen.facEq2 eq p q = true ↔ p = q) ∧
      (Gen.facNe1 eq p q = true ↔ p ≠ q) ∧ (Gen.facNe2 eq p q = true ↔ p ≠ q)) ∧
    (Gen.itAdvance a (Gen.facPlusEqArg n) = a + n ∧ Gen.itAdvance a (Gen.facMinusEqArg n) = a - n ∧
      Gen.itAdvance a (Gen.facPlusArg n) = a + n ∧ Gen.itAdvance a (Gen.facMinusArg n) = a - n ∧
      Gen.itAdvanceC a (Gen.facPlusEqArg n) = a + n ∧ Gen.itAdvanceC a (Gen.facMinusEqArg n) = a - n ∧
      Gen.itAdvanceC a (Gen.facPlusArg n) = a + n ∧ Gen.itAdvanceC a (Gen.facMinusArg n) = a - n ∧
      Gen.facIndexArg n = n) ∧
    (Gen.facPreInc = .increment ∧ Gen.facPreDec = .decrement ∧ Gen.fwdPreInc = .increment ∧
      Gen.facPostIncReturnsOld = true ∧ Gen.facPostDecReturnsOld = true ∧ Gen.fwdPostIncReturnsOld = true) := by
  refine ⟨?_, ?_, ?_, ?_⟩
  · intro dist h
    have hd : ∀ x y, dist x y = y - x := by
      intro x y
      rcases h with rfl | rfl
      · exact GenTie.itDistanceTo x y
      · exact GenTie.itDistanceToC x y
    simp only [Gen.facLt1, Gen.facLt2, Gen.facLe1, Gen.facLe2, Gen.facGt1, Gen.facGt2, Gen.facGe1, Gen.facGe2, Gen.facDiff1,
      Gen.facDiff2, hd, decide_eq_true_eq]
    refine ⟨?_, ?_, ?_, ?_, ?_, ?_, ?_, ?_, ?_, ?_⟩ <;> first | trivial | omega
  · intro eq h
    have he : ∀ x y, eq x y = true ↔ x = y := by
      intro x y
      rcases h with rfl | rfl | rfl
      · exact GenTie.itEquals x y
      · exact GenTie.itEqualsM x y
      · exact GenTie.itEqualsC x y
    have he' : ∀ x y, eq x y = false ↔ x ≠ y := by
      intro x y
      have := he x y
      cases hq : eq x y <;> simp_all
    simp only [Gen.facEq1, Gen.facEq2, Gen.facNe1, Gen.facNe2, Bool.not_eq_true', he, he']
    refine ⟨?_, ?_, ?_, ?_⟩ <;> first | trivial | exact Iff.rfl | (constructor <;> intro h <;> omega)
  · simp only [GenTie.itAdvance, GenTie.itAdvanceC, Gen.facPlusEqArg, Gen.facMinusEqArg, Gen.facPlusArg, Gen.facMinusArg,
      Gen.facIndexArg]
    refine ⟨?_, ?_, ?_, ?_, ?_, ?_, ?_, ?_, ?_⟩ <;> first | trivial | omega
  · decide

example : Gen.facLt1 Gen.itDistanceTo 2 5 = true ∧ Gen.facGe2 Gen.itDistanceToC 2 5 = false ∧ Gen.facDiff1 Gen.itDistanceTo 7 3 = 4 ∧
    Gen.itAdvance 5 (Gen.facMinusEqArg 2) = 3 ∧ Gen.facNe2 Gen.itEqualsM 3 3 = false := by decide

end Generated

end DV.C11
