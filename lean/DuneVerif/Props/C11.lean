import DuneVerif.Model.C11
namespace DV.C11
theorem placeholder : True := trivial
end DV.C11
