/-
C18 — property theorems (path.cc, path.hh, stringutility.hh).  Statements only; lemmas live in Proofs/C18/.

All theorems are about the character-level functions the driver runs (`processPathC`, `prettyPath`,
`pathIndicatesDirectory`, `concatPaths`, `relativePath`, `hasPrefix`, `hasSuffix`, `formatString`) and hold
for ALL strings (`Str = List Char`), of any length.
-/
import DuneVerif.Proofs.C18.Extras

namespace DV.C18

/-! ## processPath -/

/-- refinement: the pass-by-pass transcription of `processPath` computes the component-level specification
    (split at '/', drop empty and "." components, resolve ".." with a stack clamped at the root, render). -/
theorem processC_eq_S (p : Str) : processPathC p = processPathS p := processPathC_eq_S p

example : processPathC ['a', '/', '.', '.', '/', '.', '.', '/', '/', 'b', '/', '.', '/', 'c'] = ['.', '.', '/', 'b', '/', 'c', '/'] := by decide
example : processPathS ['a', '/', '.', '.', '/', '.', '.', '/', '/', 'b', '/', '.', '/', 'c'] = ['.', '.', '/', 'b', '/', 'c', '/'] := by decide

/-- the result is in the documented normal form: optional root, ".." components only leading and only in a
    relative path, then proper names (non-empty, no '/', not "." or ".."), each component followed by one '/'. -/
theorem normal_form (p : Str) : NormalForm (processPathC p) := by
  rw [processC_eq_S]; exact normalForm_processPathS p

example : NormalForm ['.', '.', '/', 'b', '/'] :=
  ⟨⟨false, 1, [['b']]⟩, ⟨by simp, by intro n hn; simp at hn; subst hn; unfold IsName dot dotdot; decide⟩, by decide⟩
example : ¬ NormalForm ['a', '/', '.', '.', '/'] := by
  intro h
  have := processPathS_of_normalForm h
  revert this; decide

/-- the result denotes the same location as the input -/
theorem denote_preserved (p : Str) : denote (processPathC p) = denote p := by
  rw [processC_eq_S]; exact denote_processPathS p

example : denote ['/', 'a', '/', '.', '.', '/', '.', '.', '/', 'b'] = ⟨true, 0, [['b']]⟩ := by decide

/-- sanitising twice is sanitising once -/
theorem idempotent (p : Str) : processPathC (processPathC p) = processPathC p := by
  rw [processC_eq_S (processPathC p), processC_eq_S p]
  exact processPathS_of_normalForm (normalForm_processPathS p)

/-- the normal forms are exactly the fixed points -/
theorem normalForm_iff_fixed (s : Str) : NormalForm s ↔ processPathC s = s := by
  constructor
  · intro h; rw [processC_eq_S]; exact processPathS_of_normalForm h
  · intro h; rw [← h]; exact normal_form s

/-- an absolute path stays absolute and its result has no ".." component: it never escapes the root -/
theorem abs_never_escapes_root (p : Str) (h : p.head? = some '/') :
    (processPathC p).head? = some '/' ∧ dotdot ∉ splitSlash (processPathC p) ∧ (denote p).ups = 0 := by
  have habs : (denote p).abs = true := by rw [denote_abs]; simp [isAbs, h]
  have hv := denote_valid p
  have hu : (denote p).ups = 0 := hv.1 habs
  rw [processC_eq_S]
  unfold processPathS render
  rw [habs, hu]
  simp only [↓reduceIte, List.replicate_zero, List.nil_append, List.cons_append, List.head?_cons, true_and, and_true]
  rw [splitSlash_cons_slash, splitSlash_joinSlash _ (fun c hc => (hv.2 c hc).2.1)]
  intro hm
  simp only [List.mem_cons, List.mem_append, List.not_mem_nil, or_false] at hm
  rcases hm with hm | hm | hm
  · exact absurd hm (by decide)
  · exact (hv.2 _ hm).2.2.2 rfl
  · exact absurd hm (by decide)

example : processPathC ['/', '.', '.', '/', '.', '.', '/', 'a'] = ['/', 'a', '/'] := by decide

/-! ## prettyPath, pathIndicatesDirectory, concatPaths -/

/-- prettyPath follows the documented table (`prettySpec`, read off the denoted location) for every input -/
theorem pretty_table (p : Str) (isDirectory : Bool) : prettyPath p isDirectory = prettySpec (denote p) isDirectory :=
  prettyWith_render (denote p) (denote_valid p) isDirectory processPathC p (processC_eq_S p)

/-- the one-argument form decides `isDirectory` with pathIndicatesDirectory -/
theorem pretty_auto (p : Str) : prettyPathAuto p = prettySpec (denote p) (pathIndicatesDirectory p) :=
  pretty_table p _

example : prettyPath ['a', '/', '/', '/', 'b'] false = ['a', '/', 'b'] := by decide
example : prettyPath ['a', '/', '.', '.'] true = ['.'] := by decide
example : prettyPath ['.', '.', '/', 'a', '/', '.', '.'] true = ['.', '.'] := by decide
example : prettyPathAuto ['/', '.', '.', '/', 'a', '/'] = ['/', 'a', '/'] := by decide

/-- a path indicates a directory iff its last piece (after the last '/') is empty, "." or ".." -/
theorem indicatesDirectory_spec (p : Str) : pathIndicatesDirectory p = true ↔
    ∃ c, (splitSlash p).getLast? = some c ∧ (c = [] ∨ c = dot ∨ c = dotdot) :=
  indicatesDirectory_lastPiece p

example : pathIndicatesDirectory ['a', '/', '.', '.'] = true := by decide
example : pathIndicatesDirectory ['a', '/', '.', '.', '.'] = false := by decide

/-- concatPaths follows its table: an absolute `p` wins; an empty operand yields the other one; otherwise the
    two are joined with exactly one '/' between them unless `base` already ends in one -/
theorem concat_spec (base p : Str) :
    concatPaths base p =
      if p = [] then base
      else if p.head? = some '/' then p
      else if base = [] then p
      else if base.getLast? = some '/' then base ++ p
      else base ++ '/' :: p := by
  unfold concatPaths
  by_cases h : hasSuffix base ['/'] = true
  · have := (hasSuffix_slash_iff base).1 h
    simp [h, this]
  · have h' : ¬ base.getLast? = some '/' := fun e => h ((hasSuffix_slash_iff base).2 e)
    simp [h, h']

/-- what the table means: an absolute `p` is returned as is, a relative `p` is walked from where `base` leads -/
theorem concat_denote (base p : Str) :
    denote (concatPaths base p) = if isAbs p then denote p else (comps p).foldl Loc.walk (denote base) := by
  cases h : isAbs p with
  | true => simp [denote_concat_abs base p h]
  | false => simpa using denote_concat_rel base p h

/-- the remark in path.hh: if both operands are sanitised and `p` has no leading "../", the result is sanitised -/
theorem concat_sanitized (base p : Str) (hb : NormalForm base) (hp : NormalForm p)
    (hup : hasPrefix p ['.', '.', '/'] = false) : NormalForm (concatPaths base p) :=
  concat_normalForm base p hb hp hup

example : concatPaths ['a'] ['b', '/'] = ['a', '/', 'b', '/'] := by decide
example : concatPaths ['a', '/'] ['b'] = ['a', '/', 'b'] := by decide
example : concatPaths ['a'] ['/', 'b'] = ['/', 'b'] := by decide

/-! ## relativePath -/

/-- whenever a relative path is reported to exist, concatenating it back onto the base denotes the target -/
theorem relative_roundtrip (newbase p r : Str) (h : relativePath newbase p = .ok r) :
    denote (concatPaths newbase r) = denote p := by
  have hfun : processPathC = processPathS := funext processC_eq_S
  have h' : relativePathS newbase p = .ok r := by
    unfold relativePath at h; unfold relativePathS; rw [← hfun]; exact h
  obtain ⟨h1, h2⟩ := relative_core newbase p r h'
  rw [denote_concat_rel newbase r h1, h2]

/-- the reported relative path is itself relative and sanitised -/
theorem relative_result_relative (newbase p r : Str) (h : relativePath newbase p = .ok r) : isAbs r = false := by
  have hfun : processPathC = processPathS := funext processC_eq_S
  have h' : relativePathS newbase p = .ok r := by
    unfold relativePath at h; unfold relativePathS; rw [← hfun]; exact h
  exact (relative_core newbase p r h').1

/-- a relative path is reported exactly under the documented conditions: both paths absolute or both relative,
    and the sanitised base has no more leading ".." components than the sanitised target -/
theorem relative_defined_iff (newbase p : Str) :
    (∃ r, relativePath newbase p = .ok r) ↔ (isAbs newbase = isAbs p ∧ (denote newbase).ups ≤ (denote p).ups) := by
  have hfun : processPathC = processPathS := funext processC_eq_S
  have : relativePath newbase p = relativePathS newbase p := by
    unfold relativePath relativePathS; rw [hfun]
  rw [this]; exact relative_defined newbase p

example : relativePath ['a', '/', 'b'] ['a', '/', 'c', '/', 'd'] = .ok ['.', '.', '/', 'c', '/', 'd', '/'] := by decide
example : relativePath ['/', 'a'] ['/'] = .ok ['.', '.', '/'] := by decide
example : relativePath ['.', '.'] ['a'] = .notImplemented := by decide
example : relativePath ['/', 'a'] ['a'] = .notImplemented := by decide

/-! ## stringutility.hh -/

/-- hasPrefix agrees with its plain definition for operands of any length -/
theorem hasPrefix_iff (c pre : Str) : hasPrefix c pre = true ↔ ∃ t, c = pre ++ t := by
  rw [hasPrefix_iff_isPrefix]
  exact ⟨fun ⟨t, ht⟩ => ⟨t, ht.symm⟩, fun ⟨t, ht⟩ => ⟨t, ht.symm⟩⟩

/-- hasSuffix agrees with its plain definition for operands of any length -/
theorem hasSuffix_iff (c suf : Str) : hasSuffix c suf = true ↔ ∃ t, c = t ++ suf := by
  rw [hasSuffix_iff_isSuffix]
  exact ⟨fun ⟨t, ht⟩ => ⟨t, ht.symm⟩, fun ⟨t, ht⟩ => ⟨t, ht.symm⟩⟩

example : hasPrefix ['a', 'b', 'c'] ['a', 'b'] = true ∧ hasPrefix ['a', 'b'] ['a', 'b', 'c'] = false := by decide
example : hasSuffix ['a', 'b', 'c'] ['b', 'c'] = true ∧ hasSuffix ['c'] ['b', 'c'] = false := by decide

/-- formatString returns the complete formatted text whatever its length: below the 1000-byte stack buffer,
    exactly at it (999, 1000, 1001) or far beyond -/
theorem formatString_any_length (ideal : Str) : formatString ideal = ideal := formatString_eq ideal

/-- the first `snprintf` really truncates at the buffer size, so the heap branch is needed (non-vacuity) -/
example (ideal : Str) (h : 1000 ≤ ideal.length) : (snprintfM bufferSize ideal).1 ≠ ideal := by
  intro e
  have := congrArg List.length e
  simp [snprintfM, bufferSize] at this
  omega
example : formatString (List.replicate 1000 'a') = List.replicate 1000 'a' := formatString_any_length _

end DV.C18
