import DuneVerif.Model.C18
namespace DV.C18
theorem placeholder : True := trivial
end DV.C18
