/-
C18 — property theorems (path.cc, path.hh, stringutility.hh).  Statements only; lemmas live in Proofs/C18/.

All theorems are about the character-level functions the driver runs (`processPathC`, `prettyPath`,
`pathIndicatesDirectory`, `concatPaths`, `relativePath`, `hasPrefix`, `hasSuffix`, `formatString`) and hold
for ALL strings (`Str = List Char`), of any length.  `pathIndicatesDirectory`, `concatPaths`, both bodies of `prettyPath`
(`prettyPathWith`, `prettyPathAutoWith`), `bufferSize`, `fmtFitsStack`, `fmtDynamicSize`, `hasPrefix`, `hasSuffix` and the `docTable*` lists are
regenerated from the source tree on every run (Gen/C18.lean).
-/
import DuneVerif.Proofs.C18.Round4

namespace DV.C18

/-! ## processPath -/

/-- termination: the `while(true)` loop that removes "<component>/../" leaves through its `break` within
    |text|+1 iterations for every input (the model's fuel is never exhausted), so `processPathC` is the value the
    loop computes and never the out-of-fuel marker -/
theorem processPath_terminates (p : Str) :
    (∃ r, processPathC? p = some r ∧ processPathC p = r) ∧ processPathC p ≠ fuelExhausted := by
  have h := processPathC?_eq_some p
  refine ⟨⟨processPathS p, h, processPathC_eq_S p⟩, ?_⟩
  rw [processPathC_eq_S]
  intro e
  rcases render_nil_or_slash (denote p) with h0 | ⟨y, hy⟩
  · unfold processPathS at e; rw [h0] at e; cases e
  · unfold processPathS at e; rw [hy] at e
    have := congrArg List.getLast? e
    simp [fuelExhausted] at this

example : processPathC? ['a', '/', 'b', '/', '.', '.', '/', '.', '.', '/', '.', '.'] = some ['.', '.', '/'] := by decide

/-- refinement: the pass-by-pass transcription of `processPath` computes the component-level specification
    (split at '/', drop empty and "." components, resolve ".." with a stack clamped at the root, render). -/
theorem processC_eq_S (p : Str) : processPathC p = processPathS p := processPathC_eq_S p

example : processPathC ['a', '/', '.', '.', '/', '.', '.', '/', '/', 'b', '/', '.', '/', 'c'] = ['.', '.', '/', 'b', '/', 'c', '/'] := by decide
example : processPathS ['a', '/', '.', '.', '/', '.', '.', '/', '/', 'b', '/', '.', '/', 'c'] = ['.', '.', '/', 'b', '/', 'c', '/'] := by decide

/-- the result is in the documented normal form: optional root, ".." components only leading and only in a
    relative path, then proper names (non-empty, no '/', not "." or ".."), each component followed by one '/'. -/
theorem normal_form (p : Str) : NormalForm (processPathC p) := by
  rw [processC_eq_S]; exact normalForm_processPathS p

example : NormalForm ['.', '.', '/', 'b', '/'] :=
  ⟨⟨false, 1, [['b']]⟩, ⟨by simp, by intro n hn; simp at hn; subst hn; unfold IsName dot dotdot; decide⟩, by decide⟩

/-- the result denotes the same location as the input -/
theorem denote_preserved (p : Str) : denote (processPathC p) = denote p := by
  rw [processC_eq_S]; exact denote_processPathS p

example : denote ['/', 'a', '/', '.', '.', '/', '.', '.', '/', 'b'] = ⟨true, 0, [['b']]⟩ := by decide

/-- sanitising twice is sanitising once -/
theorem idempotent (p : Str) : processPathC (processPathC p) = processPathC p := by
  rw [processC_eq_S (processPathC p), processC_eq_S p]
  exact processPathS_of_normalForm (normalForm_processPathS p)

/-- the normal forms are exactly the fixed points -/
theorem normalForm_iff_fixed (s : Str) : NormalForm s ↔ processPathC s = s := by
  constructor
  · intro h; rw [processC_eq_S]; exact processPathS_of_normalForm h
  · intro h; rw [← h]; exact normal_form s

/-- `NormalForm` is not too permissive: each kind of defect the documentation excludes is rejected
    (missing trailing '/', empty component, "." component, ".." after a name, ".." in an absolute path) -/
example : ¬ NormalForm ['a'] := by rw [normalForm_iff_fixed]; decide
example : ¬ NormalForm ['a', '/', '/'] := by rw [normalForm_iff_fixed]; decide
example : ¬ NormalForm ['.', '/'] := by rw [normalForm_iff_fixed]; decide
example : ¬ NormalForm ['a', '/', '.', '/'] := by rw [normalForm_iff_fixed]; decide
example : ¬ NormalForm ['a', '/', '.', '.', '/'] := by rw [normalForm_iff_fixed]; decide
example : ¬ NormalForm ['/', '.', '.', '/'] := by rw [normalForm_iff_fixed]; decide
example : ¬ NormalForm ['/', '/'] := by rw [normalForm_iff_fixed]; decide

/-- an absolute path stays absolute and its result has no ".." component: it never escapes the root -/
theorem abs_never_escapes_root (p : Str) (h : p.head? = some '/') :
    (processPathC p).head? = some '/' ∧ dotdot ∉ splitSlash (processPathC p) ∧ (denote p).ups = 0 := by
  have habs : (denote p).abs = true := by rw [denote_abs]; simp [isAbs, h]
  have hv := denote_valid p
  have hu : (denote p).ups = 0 := hv.1 habs
  rw [processC_eq_S]
  unfold processPathS render
  rw [habs, hu]
  simp only [↓reduceIte, List.replicate_zero, List.nil_append, List.cons_append, List.head?_cons, true_and, and_true]
  rw [splitSlash_cons_slash, splitSlash_joinSlash _ (fun c hc => (hv.2 c hc).2.1)]
  intro hm
  simp only [List.mem_cons, List.mem_append, List.not_mem_nil, or_false] at hm
  rcases hm with hm | hm | hm
  · exact absurd hm (by decide)
  · exact (hv.2 _ hm).2.2.2 rfl
  · exact absurd hm (by decide)

example : processPathC ['/', '.', '.', '/', '.', '.', '/', 'a'] = ['/', 'a', '/'] := by decide

/-- every row of the example table in the documentation of processPath (re-read from path.hh on every run) -/
theorem doc_table_processPath : ∀ row ∈ docTableProcessPath, processPathC row.1 = row.2 := by decide

example : docTableProcessPath.length ≥ 16 := by decide

/-! ## prettyPath, pathIndicatesDirectory, concatPaths -/

/-- prettyPath follows the documented table (`prettySpec`, read off the denoted location) for every input -/
theorem pretty_table (p : Str) (isDirectory : Bool) : prettyPath p isDirectory = prettySpec (denote p) isDirectory :=
  prettyWith_render (denote p) (denote_valid p) isDirectory processPathC p (processC_eq_S p)

/-- the one-argument form decides `isDirectory` with pathIndicatesDirectory -/
theorem pretty_auto (p : Str) : prettyPathAuto p = prettySpec (denote p) (pathIndicatesDirectory p) := by
  unfold prettyPathAuto
  rw [prettyPathAutoWith_eq]
  exact pretty_table p _

/-- pretty-printing never changes the location a path denotes -/
theorem pretty_denote_preserved (p : Str) (isDirectory : Bool) : denote (prettyPath p isDirectory) = denote p := by
  rw [pretty_table]; exact denote_prettySpec (denote_valid p) isDirectory

example : prettyPath ['a', '/', '/', '/', 'b'] false = ['a', '/', 'b'] := by decide
example : prettyPath ['a', '/', '.', '.'] true = ['.'] := by decide
example : prettyPath ['.', '.', '/', 'a', '/', '.', '.'] true = ['.', '.'] := by decide
example : prettyPathAuto ['/', '.', '.', '/', 'a', '/'] = ['/', 'a', '/'] := by decide

/-- TIE (round four): the body of `prettyPath(p, isDirectory)` that the translator regenerates from path.cc on every
    run — and that the driver executes — is the canonical transcription the other theorems reason about.  A change of a
    test, a literal, the `resize` amount or the statement order in the source that changes the meaning breaks this
    obligation (and the run then searches for a failing input); reordering independent tests or respelling them
    (`empty()`, `pop_back()`, `"/"` for `'/'`) does not. -/
theorem prettyPath_regenerated (proc : Str → Str) (p : Str) (isDirectory : Bool) :
    prettyPathWith proc p isDirectory = prettyCanonWith proc p isDirectory ∧
    prettyPathAutoWith (prettyPathWith proc) p = prettyCanonWith proc p (pathIndicatesDirectory p) := by
  refine ⟨prettyPathWith_eq_canon proc p isDirectory, ?_⟩
  rw [prettyPathAutoWith_eq, prettyPathWith_eq_canon]

example : prettyPathWith processPathC ['a', '/', '.', '.', '/', 'b'] true = ['b', '/'] := by decide
example : prettyCanonWith processPathC ['.', '.', '/', 'b', '/', '.', '.'] true = ['.', '.'] := by decide

/-- pretty-printing is idempotent (for the same directory flag) -/
theorem pretty_idempotent (p : Str) (isDirectory : Bool) :
    prettyPath (prettyPath p isDirectory) isDirectory = prettyPath p isDirectory := by
  rw [pretty_table (prettyPath p isDirectory), pretty_denote_preserved, pretty_table]

example : prettyPath (prettyPath ['a', '/', '/', 'b', '/', '.'] false) false = ['a', '/', 'b'] := by decide

/-- a pretty-printed path carries its directory flag: the one-argument overload applied to the output of the
    two-argument one changes nothing (so `prettyPath(prettyPath(p, d))` = `prettyPath(p, d)`, and in particular the
    one-argument overload is idempotent) -/
theorem pretty_auto_stable (p : Str) (isDirectory : Bool) :
    prettyPathAuto (prettyPath p isDirectory) = prettyPath p isDirectory := by
  rw [pretty_auto, pretty_denote_preserved, pretty_table]
  by_cases hn : (denote p).names = []
  · unfold prettySpec; simp [hn]
  · rw [indicates_prettySpec (denote_valid p) isDirectory hn]

theorem pretty_auto_idempotent (p : Str) : prettyPathAuto (prettyPathAuto p) = prettyPathAuto p := by
  have h : prettyPathAuto p = prettyPath p (pathIndicatesDirectory p) := by
    unfold prettyPathAuto; rw [prettyPathAutoWith_eq]
  rw [h]; exact pretty_auto_stable p _

example : prettyPathAuto (prettyPath ['a', '/', '/', 'b'] true) = ['a', '/', 'b', '/'] := by decide
example : prettyPathAuto (prettyPath ['a', '/', '/', 'b'] false) = ['a', '/', 'b'] := by decide
example : prettyPathAuto (prettyPathAuto ['a', '/', '.', '/', 'b', '/', '.']) = ['a', '/', 'b', '/'] := by decide

/-- sanitising a pretty-printed path gives the sanitised original -/
theorem process_pretty (p : Str) (isDirectory : Bool) :
    processPathC (prettyPath p isDirectory) = processPathC p := by
  rw [processC_eq_S, processC_eq_S]
  unfold processPathS
  rw [pretty_denote_preserved]

example : processPathC (prettyPath ['/', 'a', '/', '/', 'b'] false) = ['/', 'a', '/', 'b', '/'] := by decide

/-- every row of the example table in the documentation of prettyPath (re-read from path.hh on every run),
    for the model and for the specification `prettySpec` the theorem `pretty_table` is stated with -/
theorem doc_table_prettyPath : ∀ row ∈ docTablePrettyPath,
    prettyPath row.1 row.2.1 = row.2.2 ∧ prettySpec (denote row.1) row.2.1 = row.2.2 := by decide

example : docTablePrettyPath.length ≥ 32 := by decide

/-- a path indicates a directory iff its last piece (after the last '/') is empty, "." or ".." -/
theorem indicatesDirectory_spec (p : Str) : pathIndicatesDirectory p = true ↔
    ∃ c, (splitSlash p).getLast? = some c ∧ (c = [] ∨ c = dot ∨ c = dotdot) :=
  indicatesDirectory_lastPiece p

example : pathIndicatesDirectory ['a', '/', '.', '.'] = true := by decide
example : pathIndicatesDirectory ['a', '/', '.', '.', '.'] = false := by decide

/-- concatPaths (the decision list regenerated from path.cc) follows its table: an absolute `p` wins; an empty
    operand yields the other one; otherwise the two are joined with exactly one '/' between them unless `base`
    already ends in one -/
theorem concat_spec (base p : Str) :
    concatPaths base p =
      if p = [] then base
      else if p.head? = some '/' then p
      else if base = [] then p
      else if base.getLast? = some '/' then base ++ p
      else base ++ '/' :: p :=
  concatPaths_eq_spec base p

/-- what the table means: an absolute `p` is returned as is, a relative `p` is walked from where `base` leads -/
theorem concat_denote (base p : Str) :
    denote (concatPaths base p) = if isAbs p then denote p else (comps p).foldl Loc.walk (denote base) := by
  cases h : isAbs p with
  | true => simp [denote_concat_abs base p h]
  | false => simpa using denote_concat_rel base p h

/-- the remark in path.hh: if both operands are sanitised and `p` has no leading "../", the result is sanitised -/
theorem concat_sanitized (base p : Str) (hb : NormalForm base) (hp : NormalForm p)
    (hup : hasPrefix p ['.', '.', '/'] = false) : NormalForm (concatPaths base p) :=
  concat_normalForm base p hb hp hup

/-- the hypotheses are satisfiable (and the conclusion is not trivial): "../a/" ++ "b/c/" -/
example : NormalForm (concatPaths ['.', '.', '/', 'a', '/'] ['b', '/', 'c', '/']) :=
  concat_sanitized _ _ ((normalForm_iff_fixed _).2 (by decide)) ((normalForm_iff_fixed _).2 (by decide)) (by decide)
/-- the side condition is needed: "a/" ++ "../" is not sanitised -/
example : ¬ NormalForm (concatPaths ['a', '/'] ['.', '.', '/']) := by rw [normalForm_iff_fixed]; decide

example : concatPaths ['a'] ['b', '/'] = ['a', '/', 'b', '/'] := by decide
example : concatPaths ['a', '/'] ['b'] = ['a', '/', 'b'] := by decide
example : concatPaths ['a'] ['/', 'b'] = ['/', 'b'] := by decide

/-- concatenation is associative on the strings themselves (a two-step history: joining three paths gives the same
    text whichever pair is joined first) -/
theorem concat_assoc (a b c : Str) : concatPaths (concatPaths a b) c = concatPaths a (concatPaths b c) := by
  simp only [concatPaths_eq_spec]
  exact concatSpec_assoc a b c

example : concatPaths (concatPaths ['a'] ['b', '/']) ['c'] = ['a', '/', 'b', '/', 'c'] := by decide
example : concatPaths ['a'] (concatPaths ['/', 'b'] ['c']) = ['/', 'b', '/', 'c'] := by decide

/-- every row of the example table in the documentation of concatPaths (re-read from path.hh on every run) -/
theorem doc_table_concatPaths : ∀ row ∈ docTableConcatPaths, concatPaths row.1 row.2.1 = row.2.2 := by decide

example : docTableConcatPaths.length ≥ 12 := by decide

/-! ## relativePath -/

/-- whenever a relative path is reported to exist, concatenating it back onto the base denotes the target -/
theorem relative_roundtrip (newbase p r : Str) (h : relativePath newbase p = .ok r) :
    denote (concatPaths newbase r) = denote p := by
  have hfun : processPathC = processPathS := funext processC_eq_S
  have h' : relativePathS newbase p = .ok r := by
    unfold relativePath at h; unfold relativePathS; rw [← hfun]; exact h
  obtain ⟨h1, h2⟩ := relative_core newbase p r h'
  rw [denote_concat_rel newbase r h1, h2]

/-- relativePath is exactly the documented function of the two denoted locations: an error iff one path is
    absolute and the other relative or the sanitised base has more leading ".." than the sanitised target;
    otherwise the longest common list of leading components is removed, and the result goes up once per remaining
    base component and then down the remaining target components -/
theorem relative_exact (newbase p : Str) : relativePath newbase p = relativeSpec (denote newbase) (denote p) := by
  have hfun : processPathC = processPathS := funext processC_eq_S
  have : relativePath newbase p = relativePathS newbase p := by
    unfold relativePath relativePathS; rw [hfun]
  rw [this]; exact relativeS_eq_spec newbase p

/-- the reported relative path is itself relative and sanitised ("has the form of something sanitized by
    processPath()") -/
theorem relative_result_sanitized (newbase p r : Str) (h : relativePath newbase p = .ok r) :
    NormalForm r ∧ isAbs r = false := by
  rw [relative_exact] at h
  exact relativeSpec_normalForm (denote_valid p) h

/-- the reported relative path is relative (kept under its round-one name) -/
theorem relative_result_relative (newbase p r : Str) (h : relativePath newbase p = .ok r) : isAbs r = false :=
  (relative_result_sanitized newbase p r h).2

/-- a relative path is reported exactly under the documented conditions: both paths absolute or both relative,
    and the sanitised base has no more leading ".." components than the sanitised target -/
theorem relative_defined_iff (newbase p : Str) :
    (∃ r, relativePath newbase p = .ok r) ↔ (isAbs newbase = isAbs p ∧ (denote newbase).ups ≤ (denote p).ups) := by
  have hfun : processPathC = processPathS := funext processC_eq_S
  have : relativePath newbase p = relativePathS newbase p := by
    unfold relativePath relativePathS; rw [hfun]
  rw [this]; exact relative_defined newbase p

/-- the relative path from a location to itself is the empty path, whatever the spelling -/
theorem relative_self (b p : Str) (h : denote b = denote p) : relativePath b p = .ok [] := by
  rw [relative_exact, h]
  unfold relativeSpec
  simp [splitCommon_self, joinSlash]

example : relativePath ['a', '/', '.', '/', 'b'] ['a', '/', 'c', '/', '.', '.', '/', 'b', '/'] = .ok [] := by decide

/-- string-level round trip: when a relative path is reported, concatenating it onto the base and sanitising gives
    exactly the sanitised target -/
theorem relative_roundtrip_sanitized (newbase p r : Str) (h : relativePath newbase p = .ok r) :
    processPathC (concatPaths newbase r) = processPathC p := by
  rw [processC_eq_S, processC_eq_S]
  unfold processPathS
  rw [relative_roundtrip newbase p r h]

example : processPathC (concatPaths ['a', '/', 'b'] ['.', '.', '/', 'c', '/', 'd', '/']) = processPathC ['a', '/', 'c', '/', 'd'] := by
  decide

example : relativePath ['a', '/', 'b'] ['a', '/', 'c', '/', 'd'] = .ok ['.', '.', '/', 'c', '/', 'd', '/'] := by decide
example : relativePath ['/', 'a'] ['/'] = .ok ['.', '.', '/'] := by decide
example : relativePath ['.', '.'] ['a'] = .notImplemented := by decide
example : relativePath ['/', 'a'] ['a'] = .notImplemented := by decide
-- a component that is a proper prefix of the other one is not "common": lib vs lib64
example : relativePath ['u', '/', 'l', 'i', 'b', '6'] ['u', '/', 'l', 'i', 'b', '/', 'd'] =
    .ok ['.', '.', '/', 'l', 'i', 'b', '/', 'd', '/'] := by decide
example : relativeSpec (denote ['u', '/', 'l', 'i', 'b', '6']) (denote ['u', '/', 'l', 'i', 'b', '/', 'd']) =
    .ok ['.', '.', '/', 'l', 'i', 'b', '/', 'd', '/'] := by decide

/-! ## stringutility.hh -/

/-- TIE (round four): the bodies of `hasPrefix` and `hasSuffix` that the translator regenerates from stringutility.hh on
    every run (strlen, the size test in whatever spelling, `std::advance`, `std::equal`) — and that the driver and the
    model of path.cc execute — are the canonical transcriptions -/
theorem hasPrefixSuffix_regenerated (c pat : Str) :
    hasPrefix c pat = hasPrefixCanon c pat ∧ hasSuffix c pat = hasSuffixCanon c pat :=
  ⟨hasPrefix_eq_canon c pat, hasSuffix_eq_canon c pat⟩

example : hasPrefixCanon ['a', 'b'] ['a'] = true ∧ hasSuffixCanon ['a', 'b'] ['a'] = false := by decide

/-- hasPrefix agrees with its plain definition for operands of any length -/
theorem hasPrefix_iff (c pre : Str) : hasPrefix c pre = true ↔ ∃ t, c = pre ++ t := by
  rw [hasPrefix_iff_isPrefix]
  exact ⟨fun ⟨t, ht⟩ => ⟨t, ht.symm⟩, fun ⟨t, ht⟩ => ⟨t, ht.symm⟩⟩

/-- hasSuffix agrees with its plain definition for operands of any length -/
theorem hasSuffix_iff (c suf : Str) : hasSuffix c suf = true ↔ ∃ t, c = t ++ suf := by
  rw [hasSuffix_iff_isSuffix]
  exact ⟨fun ⟨t, ht⟩ => ⟨t, ht.symm⟩, fun ⟨t, ht⟩ => ⟨t, ht.symm⟩⟩

example : hasPrefix ['a', 'b', 'c'] ['a', 'b'] = true ∧ hasPrefix ['a', 'b'] ['a', 'b', 'c'] = false := by decide
example : hasSuffix ['a', 'b', 'c'] ['b', 'c'] = true ∧ hasSuffix ['c'] ['b', 'c'] = false := by decide

/-- what a `const char*` pattern sees of a `std::string` (the driver hands `cstr y` to hasPrefix/hasSuffix): the
    longest NUL-free prefix — all of it if it contains no NUL, otherwise the part before the first NUL -/
theorem cstr_spec (s : Str) :
    Char.ofNat 0 ∉ cstr s ∧ (cstr s = s ∨ ∃ t, s = cstr s ++ Char.ofNat 0 :: t) :=
  ⟨cstr_no_nul s, cstr_decomp s⟩

example : cstr ['a', Char.ofNat 0, 'b'] = ['a'] := by decide
example : hasSuffix ['x', 'a'] (cstr ['a', Char.ofNat 0, 'b']) = true := by decide

/-- TIE (round four): the two pieces of formatString's control flow that the translator regenerates from
    stringutility.hh on every run are sound for every return value and every capacity: the test "the stack buffer was
    large enough" implies that the text and its NUL fit (`r < cap`), and the heap buffer has room for the text and its
    NUL.  (`r <= bufferSize`, `make_unique<char[]>(r)` break this obligation; `r+1 <= bufferSize` or `r+2` do not.) -/
theorem formatString_skeleton_sound (r cap : Nat) :
    (fmtFitsStack r cap = true → r < cap) ∧ r < fmtDynamicSize r :=
  ⟨fmtFitsStack_sound r cap, fmtDynamicSize_sound r⟩

/-- the hypothesis is satisfiable (stated so that it survives harmless changes of the comparison or of the slack) -/
example : (∃ r cap, fmtFitsStack r cap = true) ∧ fmtFitsStack 1000 1000 = false ∧ fmtDynamicSize 1000 > 1000 :=
  ⟨⟨0, 1000, by decide⟩, by decide, by decide⟩

/-- the printf subset of the model: a conversion padded to the field width `w` has exactly `max w (digits + sign)`
    characters, whatever the flags — the link between the width in a format and the result length the `f` cases sweep -/
theorem padTo_length (w : Nat) (left zero : Bool) (body sign : Str) :
    (padTo w left zero body sign).length = max w (body.length + sign.length) := by
  unfold padTo
  simp only []
  split
  · simp only [List.length_append]; omega
  · split
    · simp only [List.length_append, List.length_replicate]; omega
    · split <;> simp only [List.length_append, List.length_replicate] <;> omega

example : padTo 6 false true ['4', '2'] ['-'] = ['-', '0', '0', '0', '4', '2'] := by decide

/-- formatString returns the complete formatted text whatever its length — below the stack buffer, exactly at it
    (bufferSize-1, bufferSize, bufferSize+1) or far beyond — as long as the length is representable in the `int`
    that snprintf returns; longer texts make snprintf fail and formatString throw.  Holds for the buffer size the
    source has now (`bufferSize`, regenerated). -/
theorem formatString_spec (t : Str) :
    formatString (some t) = if t.length ≤ intMax then .ok t else .exception :=
  formatStringWith_text bufferSize t

/-- the same for ANY size of the stack buffer (so the claim survives a change of the constant) -/
theorem formatString_any_buffer (cap : Nat) (t : Str) :
    formatStringWith cap (some t) = if t.length ≤ intMax then .ok t else .exception :=
  formatStringWith_text cap t

/-- round-one name: every text of representable length comes back unchanged -/
theorem formatString_any_length (t : Str) (h : t.length ≤ intMax) : formatString (some t) = .ok t := by
  rw [formatString_spec, if_pos h]

/-- a conversion error of snprintf (negative return value) makes formatString throw -/
theorem formatString_conversion_error : formatString none = .exception :=
  formatStringWith_convError bufferSize

/-- the outcome class the driver prints for results too long to build (`F` ops) is that of formatString -/
theorem formatString_outcome (t : Str) : (∃ s, formatString (some t) = .ok s) ↔ formatReturns t.length = true := by
  rw [formatString_spec]
  unfold formatReturns
  by_cases h : t.length ≤ intMax <;> simp [h]

/-- the first `snprintf` really truncates at the buffer size, so the heap branch is needed (non-vacuity) -/
example (cap : Nat) (t : Str) (hc : 0 < cap) (h : cap ≤ t.length) (h2 : t.length ≤ intMax) :
    ∃ b, snprintfM cap (some t) = some (b, t.length) ∧ b.length = cap - 1 ∧ b ≠ t := by
  have h3 : ¬ t.length > intMax := by omega
  have h4 : cap ≠ 0 := by omega
  refine ⟨t.take (cap - 1), by simp [snprintfM, h3, h4], by rw [List.length_take]; omega, ?_⟩
  intro e
  have := congrArg List.length e
  rw [List.length_take] at this
  omega
example : formatString (some (List.replicate 1000 'a')) = .ok (List.replicate 1000 'a') :=
  formatString_any_length _ (by rw [List.length_replicate]; unfold intMax; omega)
example : formatString (some (List.replicate 2147483648 'a')) = .exception := by
  rw [formatString_spec, List.length_replicate]; rfl

end DV.C18
