import DuneVerif.Model.C15
namespace DV.C15
theorem placeholder : True := trivial
end DV.C15
