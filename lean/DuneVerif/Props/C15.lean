/-
C15 — Allocators hand out aligned, disjoint, usable blocks for any request history: the property theorems.

All theorems are about the executable model `DuneVerif/Model/C15.lean` (the definitions the driver runs against the real
allocators) and about the formulas regenerated from the headers in `DuneVerif/Gen/C15.lean` (Pool slot geometry,
request validation of Malloc/AlignedAllocator, page arithmetic of the DebugAllocator).  They hold for every element size
`sz = sizeof(T)`, every alignment `al = alignof(T) > 0` (powers of two are a special case), every pool size `s`, every
request count `n`, every page size and every (valid) allocate/deallocate history; the base addresses the operating
system / `operator new` / `mmap` return are universally quantified.  Sizes are natural numbers: the `int`/`size_t`
range of the C++ constants is an assumption of the reading (`s < 2^31`), except where `wrap` models `size_t` overflow
explicitly.  Lemmas live in `DuneVerif/Proofs/C15*.lean`; every `example` shows that the hypotheses of the theorem above
it are satisfied by a concrete non-trivial input.
-/
import DuneVerif.Proofs.C15Pool
import DuneVerif.Proofs.C15Intr
import DuneVerif.Proofs.C15Raw
import DuneVerif.Proofs.C15Keep
import DuneVerif.Proofs.C15Grow

namespace DV.C15
open DV.C15.Gen

/-! ## Pool<T,s>: slot geometry (formulas generated from poolallocator.hh) -/

/-- every static_assert of `Pool::Pool()` and more, for all sizes, alignments and pool sizes: a chunk holds at least
    one slot, the slots fit into the chunk, a slot can hold a `T` and the free-list pointer, slot size and chunk size
    are multiples of the slot alignment, which is a multiple of `alignof(T)` and of the pointer alignment -/
theorem geometry_sound (sz al s : Nat) (hal : 0 < al) :
    elements sz al s ≥ 1 ∧
    elements sz al s * alignedSize sz al s ≤ chunkSize sz al s ∧
    alignedSize sz al s ≥ sz ∧ alignedSize sz al s ≥ refSize ∧
    alignment sz al s ∣ alignedSize sz al s ∧ alignment sz al s ∣ chunkSize sz al s ∧
    al ∣ alignment sz al s ∧ refAlign ∣ alignment sz al s := by
  have hA := alignment_pos sz s hal
  refine ⟨?_, ?_, ?_, ?_, roundUp_dvd _ _, roundUp_dvd _ _, Nat.dvd_lcm_left _ _, Nat.dvd_lcm_right _ _⟩
  · rw [elements_eq]; exact Nat.div_pos (alignedSize_le_chunkSize sz s hal) (alignedSize_pos sz s hal)
  · rw [elements_eq]; exact Nat.div_mul_le_self _ _
  · exact Nat.le_trans (le_unionSize sz al s).1 (by rw [alignedSize_eq]; exact le_roundUp _ hA)
  · exact Nat.le_trans (le_unionSize sz al s).2 (by rw [alignedSize_eq]; exact le_roundUp _ hA)

-- sizeof 12, alignof 4, pool size 100: slots of 16 bytes aligned to 8, chunk of 104 bytes, 6 slots
example : unionSize 12 4 100 = 12 ∧ size 12 4 100 = 100 ∧ alignment 12 4 100 = 8 ∧ alignedSize 12 4 100 = 16 ∧
    chunkSize 12 4 100 = 104 ∧ elements 12 4 100 = 6 := by decide
-- a pool too small for one object still holds one: sizeof 24, alignof 16, pool size 1
example : alignedSize 24 16 1 = 32 ∧ chunkSize 24 16 1 = 32 ∧ elements 24 16 1 = 1 := by decide

/-- the slot size is the least multiple of the alignment that holds the object and the pointer: no space is wasted -/
theorem alignedSize_tight (sz al s : Nat) (hal : 0 < al) :
    alignedSize sz al s < max sz refSize + alignment sz al s := by
  rw [alignedSize_eq]
  have := roundUp_lt (unionSize sz al s) (alignment_pos sz s hal)
  have hu : unionSize sz al s = max sz refSize := by unfold unionSize; split <;> omega
  omega

/-- for power-of-two alignments the slot alignment is the larger of `alignof(T)` and the pointer alignment -/
theorem alignment_pow2_max (sz k s : Nat) : alignment sz (2 ^ k) s = max (2 ^ k) refAlign := alignment_pow2 sz k s

example : alignment 3 (2 ^ 0) 7 = 8 ∧ alignment 128 (2 ^ 6) 7 = 64 := by decide

/-- the geometry of every `Pool<T,s>` satisfies what the state machine needs -/
theorem geoOK_generated (sz al s : Nat) (hal : 0 < al) : GeoOK (geoOf sz al s) :=
  ⟨alignedSize_pos sz s hal, (geometry_sound sz al s hal).1, (geometry_sound sz al s hal).2.1⟩

/-- slots are disjoint, aligned and inside their chunk — for every assignment of base addresses to chunks that
    `operator new` may produce (bases aligned to `A`, chunk byte ranges disjoint) -/
theorem slots_disjoint_aligned (g : Geo) (A : Nat) (base : Nat → Nat)
    (hA : A ∣ g.alignedSize) (hfit : g.elements * g.alignedSize ≤ g.chunkSize)
    (hbase : ∀ c, A ∣ base c)
    (hsep : ∀ c c', c ≠ c' → base c + g.chunkSize ≤ base c' ∨ base c' + g.chunkSize ≤ base c)
    {b b' : Block} (hb : b.2 < g.elements) (hb' : b'.2 < g.elements) (hne : b ≠ b') :
    A ∣ addr g base b ∧ base b.1 ≤ addr g base b ∧ addr g base b + g.alignedSize ≤ base b.1 + g.chunkSize ∧
    (addr g base b + g.alignedSize ≤ addr g base b' ∨ addr g base b' + g.alignedSize ≤ addr g base b) := by
  have h1 := slot_inside hfit hb
  have h2 := slot_inside hfit hb'
  refine ⟨Nat.dvd_add (hbase _) (Nat.dvd_trans hA (Nat.dvd_mul_left _ _)), Nat.le_add_right _ _, by unfold addr; omega, ?_⟩
  unfold addr
  by_cases hc : b.1 = b'.1
  · have hi : b.2 ≠ b'.2 := fun h => hne (Prod.ext hc h)
    rw [hc]
    rcases Nat.lt_or_gt_of_ne hi with h | h
    · have := slots_apart (a := g.alignedSize) h; omega
    · have := slots_apart (a := g.alignedSize) h; omega
  · rcases hsep _ _ hc with h | h <;> omega

/-! ## Pool<T,s>: all histories -/

/-- the invariant `free list ⊎ live set = all slots of all chunks, each exactly once` holds after every valid history
    (only live blocks are given back), starting from the empty pool -/
theorem pool_invariant {g : Geo} (hg : GeoOK g) (ops : List Op) (hv : Valid g Pool.empty ops) :
    let p := (run g Pool.empty ops).1
    (p.free ++ p.live).Nodup ∧
    (∀ b, b ∈ p.free ++ p.live ↔ (b.1 < p.chunks.length ∧ b.2 < g.elements)) ∧
    p.free.length + p.live.length = p.chunks.length * g.elements := by
  have hi := inv_run hg ops _ (inv_empty _) hv
  exact ⟨hi.nodup, hi.mem, hi.count⟩

/-- in every reachable state `allocate` returns a block that is not live (never a block somebody still owns), that is
    a slot of one of the pool's chunks, and that is live and off the free list afterwards -/
theorem allocate_fresh {g : Geo} (hg : GeoOK g) (ops : List Op) (hv : Valid g Pool.empty ops) :
    let p := (run g Pool.empty ops).1
    let r := allocate g.elements p
    r.1 ∉ p.live ∧ r.1.1 < r.2.chunks.length ∧ r.1.2 < g.elements ∧ r.1 ∈ r.2.live ∧ r.1 ∉ r.2.free :=
  allocate_fresh' hg.el_pos (inv_run hg ops _ (inv_empty _) hv)

/-- reuse only after release: if two allocations of a valid history return the same block, the block was given back
    in between -/
theorem reuse_only_after_free {g : Geo} (hg : GeoOK g) (ops : List Op) (hv : Valid g Pool.empty ops)
    (i j : Nat) (b : Block) (hij : i < j)
    (hi : (run g Pool.empty ops).2[i]? = some (Ev.ret b)) (hj : (run g Pool.empty ops).2[j]? = some (Ev.ret b)) :
    ∃ k, i < k ∧ k < j ∧ (run g Pool.empty ops).2[k]? = some (Ev.freed (.blk b)) :=
  reuse_after_free hg ops _ (inv_empty _) hv i j hij hi hj

/-- in a valid history the only requests that are refused (bad_alloc) are the ones the pool refuses by design:
    `PoolAllocator::allocate(n)` with `n ≠ 1`, allocation while `operator new` fails, `free(nullptr)` and `free` of an
    address outside every chunk.  Every `allocate()`, `allocate(1)` and every release of a live block succeeds. -/
theorem only_bad_requests_refused {g : Geo} (hg : GeoOK g) (ops : List Op) (hv : Valid g Pool.empty ops) (i : Nat)
    (h : (run g Pool.empty ops).2[i]? = some Ev.refused) : ∃ o, ops[i]? = some o ∧ o.isBad = true :=
  refused_only_bad hg ops _ (inv_empty _) hv i h

/-- giving back a live block is never refused -/
theorem valid_free_accepted {g : Geo} (hg : GeoOK g) (ops : List Op) (hv : Valid g Pool.empty ops) (i : Nat) (b : Block)
    (ho : ops[i]? = some (.free (.blk b))) : (run g Pool.empty ops).2[i]? ≠ some Ev.refused := by
  intro h
  obtain ⟨o, h1, h2⟩ := only_bad_requests_refused hg ops hv i h
  rw [ho] at h1
  simp only [Option.some.injEq] at h1
  rw [← h1] at h2
  simp [Op.isBad] at h2

/-- a refused request leaves the pool exactly as it was (in every state, whatever the history) -/
theorem refused_leaves_pool_unchanged (g : Geo) (p : Pool) (o : Op) (h : (step g p o).2 = .refused) :
    (step g p o).1 = p := refused_unchanged g p o h

/-- memory exhaustion: when `operator new` fails, `allocate` is refused with bad_alloc iff the free list is empty (the
    pool is not touched: `new Chunk` is the first thing `grow()` does); with a free slot it is an ordinary allocation
    that obtains no memory.  When `operator new` succeeds `allocate` never fails. -/
theorem oom_refused_or_served_from_free_list (E : Nat) (p : Pool) :
    (p.free = [] → allocateOS E false p = .error .alloc) ∧
    (p.free ≠ [] → allocateOS E false p = .ok (allocate E p) ∧ (allocate E p).2.chunks = p.chunks) ∧
    allocateOS E true p = .ok (allocate E p) :=
  ⟨(allocateOS_false E p).1, (allocateOS_false E p).2, allocateOS_true E p⟩

/-- destroying the pool deletes every chunk it ever obtained exactly once, whatever is still live; and a chunk is
    obtained only when no free slot exists -/
theorem destroy_releases_all {g : Geo} (hg : GeoOK g) (ops : List Op) (hv : Valid g Pool.empty ops) :
    (destroy (run g Pool.empty ops).1).Perm (List.range (run g Pool.empty ops).1.chunks.length) ∧
    ∀ p, (allocate g.elements p).2.chunks.length = p.chunks.length + (if p.free = [] then 1 else 0) :=
  ⟨destroy_perm (inv_run hg ops _ (inv_empty _) hv), allocate_chunks _⟩

-- a history over 3-slot chunks that fills a chunk, is refused three times (allocate(2), free(nullptr), out of memory
-- with an empty free list), frees the middle block, reuses it although memory is exhausted, and grows a second chunk
example : Valid ⟨16, 48, 3⟩ Pool.empty
      [.alloc, .allocN 1, .alloc, .allocN 2, .free .null, .allocOom, .free (.blk (0, 1)), .allocOom, .alloc, .free .foreign] ∧
    (run ⟨16, 48, 3⟩ Pool.empty
      [.alloc, .allocN 1, .alloc, .allocN 2, .free .null, .allocOom, .free (.blk (0, 1)), .allocOom, .alloc, .free .foreign]).2 =
      [.ret (0, 0), .ret (0, 1), .ret (0, 2), .refused, .refused, .refused, .freed (.blk (0, 1)), .ret (0, 1), .ret (1, 0),
       .refused] ∧
    destroy (run ⟨16, 48, 3⟩ Pool.empty
      [.alloc, .allocN 1, .alloc, .allocN 2, .free .null, .allocOom, .free (.blk (0, 1)), .allocOom, .alloc, .free .foreign]).1 =
      [1, 0] ∧
    GeoOK ⟨16, 48, 3⟩ := by
  refine ⟨by decide, by decide, by decide, ⟨by decide, by decide, by decide⟩⟩

-- giving back a block twice is NOT a valid history (the second release is of a block that is not live)
example : ¬ Valid ⟨16, 48, 3⟩ Pool.empty [.alloc, .free (.blk (0, 0)), .free (.blk (0, 0))] := by decide

/-! ## Pool<T,s>: the intrusive free list -/

/-- the pool as the C++ stores it — `head_` plus the `next_` word inside every free slot (`IPool`, a transcription of
    `grow`/`allocate`/`free`) — behaves exactly like the list model in every valid history, whatever the owners write
    into their live blocks in between: it never uses a word it has not written itself (`irun … ≠ none`: no undefined
    behaviour), it refuses the same requests and returns the same blocks, and afterwards `head_` and the `next_` words
    spell the model's free list (`Sim`), with the same chunk list and live set.  Hence every theorem above about `run`
    is a theorem about the intrusive pool, and live blocks are writable over their whole extent without damaging
    the allocator. -/
theorem intrusive_pool_refines {g : Geo} (hg : GeoOK g) (iops : List IOp) (hv : IValid g Pool.empty iops) :
    Valid g Pool.empty (eraseWrites iops) ∧
    ∃ ip, irun g IPool.empty iops = some (ip, (run g Pool.empty (eraseWrites iops)).2) ∧
      Sim ip (run g Pool.empty (eraseWrites iops)).1 :=
  ⟨valid_erase iops _ hv, sim_run hg iops _ _ sim_empty (inv_empty _) hv⟩

-- owners scribble over their blocks (also over the word that was `next_`), one block is released and reused
example : IValid ⟨16, 48, 3⟩ Pool.empty
      [.op .alloc, .write (0, 0) (some (7, 7)), .op .alloc, .op (.free (.blk (0, 0))), .write (0, 1) none, .op .alloc,
       .op .alloc, .op .alloc] ∧
    (irun ⟨16, 48, 3⟩ IPool.empty
      [.op .alloc, .write (0, 0) (some (7, 7)), .op .alloc, .op (.free (.blk (0, 0))), .write (0, 1) none, .op .alloc,
       .op .alloc, .op .alloc]).map (·.2) =
      some [.ret (0, 0), .ret (0, 1), .freed (.blk (0, 0)), .ret (0, 0), .ret (0, 2), .ret (1, 0)] := by
  refine ⟨?_, by decide⟩
  simp only [IValid, okOp]
  decide

-- the hypothesis is needed: a write into a block that has been given back (use after free) redirects the free list,
-- and the pool then follows a word it never wrote — undefined behaviour (`none`)
example : irun ⟨16, 48, 3⟩ IPool.empty
    [.op .alloc, .op (.free (.blk (0, 0))), .write (0, 0) (some (9, 9)), .op .alloc, .op .alloc] = none := by decide

/-- end to end for the generated geometry of `Pool<T,s>`: after every valid history, for every placement of the chunks
    that `operator new` may choose, every live block is aligned for `T`, lies inside its chunk with room for a `T`,
    and is disjoint from every other live block -/
theorem pool_live_blocks_disjoint_aligned (sz al s : Nat) (hal : 0 < al) (ops : List Op)
    (hv : Valid (geoOf sz al s) Pool.empty ops) (base : Nat → Nat)
    (hbase : ∀ c, alignment sz al s ∣ base c)
    (hsep : ∀ c c', c ≠ c' → base c + (geoOf sz al s).chunkSize ≤ base c' ∨ base c' + (geoOf sz al s).chunkSize ≤ base c) :
    ∀ b ∈ (run (geoOf sz al s) Pool.empty ops).1.live,
      (al ∣ addr (geoOf sz al s) base b ∧ base b.1 ≤ addr (geoOf sz al s) base b ∧
        addr (geoOf sz al s) base b + sz ≤ base b.1 + (geoOf sz al s).chunkSize) ∧
      ∀ b' ∈ (run (geoOf sz al s) Pool.empty ops).1.live, b ≠ b' →
        addr (geoOf sz al s) base b + sz ≤ addr (geoOf sz al s) base b' ∨
        addr (geoOf sz al s) base b' + sz ≤ addr (geoOf sz al s) base b := by
  have hgs := geometry_sound sz al s hal
  have hg := geoOK_generated sz al s hal
  have hi := inv_run hg ops _ (inv_empty _) hv
  have hsz : sz ≤ (geoOf sz al s).alignedSize := hgs.2.2.1
  have hdA : alignment sz al s ∣ (geoOf sz al s).alignedSize := hgs.2.2.2.2.1
  have hal' : al ∣ alignment sz al s := hgs.2.2.2.2.2.2.1
  generalize geoOf sz al s = g at hv hsep hg hi hsz hdA ⊢
  intro b hb
  have hslot : ∀ x ∈ (run g Pool.empty ops).1.live, x.2 < g.elements :=
    fun x hx => ((hi.mem x).1 (List.mem_append.2 (Or.inr hx))).2
  refine ⟨?_, fun b' hb' hne => ?_⟩
  · have h1 := slot_inside hg.fit (hslot b hb)
    refine ⟨Nat.dvd_trans hal' (Nat.dvd_add (hbase _) (Nat.dvd_trans hdA (Nat.dvd_mul_left _ _))),
      Nat.le_add_right _ _, ?_⟩
    unfold addr
    omega
  · have := (slots_disjoint_aligned g (alignment sz al s) base hdA hg.fit hbase hsep
      (hslot b hb) (hslot b' hb') hne).2.2.2
    omega

-- the element type of the first example (sizeof 12, alignof 4, pool size 100): two chunks 104 bytes apart
example : Valid (geoOf 12 4 100) Pool.empty [.alloc, .alloc, .free (.blk (0, 0)), .alloc] ∧
    (run (geoOf 12 4 100) Pool.empty [.alloc, .alloc, .free (.blk (0, 0)), .alloc]).1.live = [(0, 1), (0, 0)] := by
  decide

-- … and the hypotheses about the placement of the chunks are satisfiable: chunks placed back to back from address 8000
-- (104 = 13·8 bytes each) are aligned to the slot alignment 8 and separated, so the theorem applies to this history
example : ∀ b ∈ (run (geoOf 12 4 100) Pool.empty [.alloc, .alloc, .free (.blk (0, 0)), .alloc]).1.live,
    4 ∣ addr (geoOf 12 4 100) (fun c => 8000 + c * 104) b := by
  intro b hb
  have ha : alignment 12 4 100 = 8 := by decide
  have hc : (geoOf 12 4 100).chunkSize = 104 := by decide
  have := pool_live_blocks_disjoint_aligned 12 4 100 (by decide) [.alloc, .alloc, .free (.blk (0, 0)), .alloc] (by decide)
    (fun c => 8000 + c * 104) (fun c => by rw [ha]; exact ⟨1000 + c * 13, by omega⟩)
    (fun c c' h => by rw [hc]; omega) b hb
  exact this.1.1

-- `slots_disjoint_aligned` for the same placement: slots 0 and 5 of chunks 0 and 1 (16-byte slots aligned to 8)
example : 8 ∣ addr (geoOf 12 4 100) (fun c => 8000 + c * 104) (0, 5) ∧
    (addr (geoOf 12 4 100) (fun c => 8000 + c * 104) (0, 5) + 16 ≤ addr (geoOf 12 4 100) (fun c => 8000 + c * 104) (1, 0) ∨
     addr (geoOf 12 4 100) (fun c => 8000 + c * 104) (1, 0) + 16 ≤ addr (geoOf 12 4 100) (fun c => 8000 + c * 104) (0, 5)) := by
  have hc : (geoOf 12 4 100).chunkSize = 104 := by decide
  have hs : (geoOf 12 4 100).alignedSize = 16 := by decide
  have := slots_disjoint_aligned (geoOf 12 4 100) 8 (fun c => 8000 + c * 104) (by decide) (by decide)
    (fun c => ⟨1000 + c * 13, by omega⟩) (fun c c' h => by rw [hc]; omega) (b := (0, 5)) (b' := (1, 0))
    (by decide) (by decide) (by decide)
  rw [hs] at this
  exact ⟨this.1, this.2.2.2⟩

/-! ## PoolAllocator<T,s> -/

/-- `allocate(n)` with `n ≠ 1` is refused with bad_alloc (a pool block holds one object) and leaves the pool unchanged
    (the model returns no new state); `allocate(1)` is the pool's allocate -/
theorem n_ne_one_refused (E n : Nat) (p : Pool) :
    (n ≠ 1 → paAllocate E n p = .error .alloc) ∧ (n = 1 → paAllocate E n p = .ok (allocate E p)) := by
  constructor
  · intro h; simp [paAllocate, paAccepts, h]
  · intro h; simp [paAllocate, paAccepts, h]

example : paAllocate 3 0 Pool.empty = .error .alloc ∧ paAllocate 3 2 Pool.empty = .error .alloc ∧
    paAllocate 3 (2 ^ 64 - 1) Pool.empty = .error .alloc ∧
    paAllocate 3 1 Pool.empty = .ok ((0, 0), ⟨[0], [(0, 1), (0, 2)], [(0, 0)]⟩) := ⟨rfl, rfl, rfl, rfl⟩

/-- `max_size()` tells the truth: the accepted counts are exactly `1 ≤ n ≤ max_size()` -/
theorem pa_accepts_iff_max_size (n : Nat) : paAccepts n = true ↔ (1 ≤ n ∧ n ≤ paMaxSize) := by
  unfold paAccepts paMaxSize
  simp only [decide_eq_true_eq]
  omega

/-- `deallocate(p, 1)` is the pool's `free`, `deallocate(p, 0)` does nothing -/
theorem pa_deallocate (g : Geo) (p : Pool) (q : Ptr) :
    paDeallocate g p q 1 = some (free g p q) ∧ paDeallocate g p q 0 = some (.ok p) := ⟨rfl, rfl⟩

/-- the pool of `PoolAllocator<T,s>` is `Pool<T, s*sizeof(T)>` -/
theorem pa_pool_size (sz s : Nat) : paPoolSize sz s = s * sz := rfl

/-! ## MallocAllocator<T>, AlignedAllocator<T,A> -/

/-- a request whose byte size does not fit into `size_t` is refused with bad_alloc whatever the C library would do
    (the product `n * sizeof(T)` is never formed) -/
theorem malloc_overflow_refused (sz al n : Nat) (h : sizeMax < n * sz) (os : Nat → Bool) :
    mallocAllocate sz al n os = .error .alloc := malloc_refused' al h os

/-- a served request got exactly `n * sizeof(T)` bytes (no wrap-around) from a successful call of the C library, made
    with an alignment guarantee `a` (malloc: `alignof(max_align_t)`; over-aligned `T`: `aligned_alloc(alignof(T), …)`)
    that suffices for `T` whenever `alignof(T)` is a power of two -/
theorem malloc_served_exact (sz al n a bytes : Nat) (hsz : 0 < sz) (os : Nat → Bool)
    (h : mallocAllocate sz al n os = .ok (a, bytes)) :
    bytes = n * sz ∧ os bytes = true ∧ n * sz ≤ sizeMax ∧ a = mallocAlignment al ∧
    ∀ k, al = 2 ^ k → ∀ p, a ∣ p → al ∣ p := by
  obtain ⟨h1, h2, h3, h4⟩ := malloc_served' hsz h
  refine ⟨h2, h3, h4, h1, fun k hk p hp => ?_⟩
  rw [h1, hk] at hp
  rw [hk]
  exact Nat.dvd_trans (mallocAlignment_dvd k) hp

/-- the alignment of the blocks `MallocAllocator<T>` obtains is a multiple of `alignof(T)` for every power-of-two
    alignment — also beyond `alignof(max_align_t)` (false for the unrepaired allocator, which always called malloc) -/
theorem malloc_block_aligned (k : Nat) : 2 ^ k ∣ mallocAlignment (2 ^ k) := mallocAlignment_dvd k

-- 2^61+1 doubles wrap around to 8 bytes: refused; 3 doubles: 24 bytes from malloc (16-aligned);
-- one 64-byte object aligned to 64: 64 bytes from aligned_alloc(64, 64)
example : sizeMax < (2 ^ 61 + 1) * 8 ∧ mallocAllocate 8 8 (2 ^ 61 + 1) (fun _ => true) = .error .alloc ∧
    mallocAllocate 8 8 3 (fun _ => true) = .ok (16, 24) ∧ mallocAllocate 8 8 3 (fun _ => false) = .error .alloc ∧
    mallocAllocate 64 64 1 (fun _ => true) = .ok (64, 64) ∧ mallocAlignment (2 ^ 5) = 32 ∧ mallocAlignment (2 ^ 2) = 16 :=
  ⟨by decide, rfl, rfl, rfl, rfl, by decide, by decide⟩

theorem aligned_overflow_refused (sz al A n : Nat) (h : sizeMax < n * sz) (os : Nat → Bool) :
    alignedAllocate sz al A n os = .error .alloc := aligned_refused' al A h os

/-- a served request got exactly `n * sizeof(T)` bytes from `aligned_alloc` called with the promised alignment:
    `alignof(T)` by default (`A = 0` encodes `Alignment = -1`), else `A`; a block aligned to it is aligned for `T`
    whenever `alignof(T)` divides `A` -/
theorem aligned_served_exact (sz al A n a bytes : Nat) (hsz : 0 < sz) (os : Nat → Bool)
    (h : alignedAllocate sz al A n os = .ok (a, bytes)) :
    a = (if A = 0 then al else A) ∧ bytes = n * sz ∧ os bytes = true ∧ n * sz ≤ sizeMax ∧
    ∀ p, a ∣ p → (A = 0 ∨ al ∣ A) → al ∣ p := by
  obtain ⟨h1, h2, h3, h4⟩ := aligned_served' hsz h
  refine ⟨h1, h2, h3, h4, fun p hp hA => ?_⟩
  rw [h1] at hp
  by_cases h0 : A = 0
  · rw [if_pos h0] at hp; exact hp
  · rw [if_neg h0] at hp
    rcases hA with hA | hA
    · exact absurd hA h0
    · exact Nat.dvd_trans hA hp

example : alignedAllocate 12 4 64 5 (fun _ => true) = .ok (64, 60) ∧
    alignedAllocate 12 4 0 5 (fun _ => true) = .ok (4, 60) ∧
    alignedAllocate 12 4 64 (2 ^ 63) (fun _ => true) = .error .alloc := ⟨rfl, rfl, rfl⟩

/-! ## DebugAllocator (AllocationManager): page arithmetic and bookkeeping -/

/-- requests whose byte size plus the two extra pages is not representable are refused with bad_alloc -/
theorem debug_overflow_refused (sz page n : Nat) (hp2 : 2 * page ≤ sizeMax) (h : sizeMax < n * sz + 2 * page)
    (mmap : Nat → Option Nat) (l : List AInfo) : dbgAllocate sz page n mmap l = .error .alloc :=
  dbg_refused' hp2 h mmap l

/-- an accepted request: the block has exactly `n*sizeof(T)` bytes, starts inside the first page of its mapping, ends
    exactly where the inaccessible guard page begins, the guard page is the last page of the mapping, and nothing
    wrapped around; the block is recorded at the end of the allocation list -/
theorem debug_block_ends_at_guard (sz page n : Nat) (hsz : 0 < sz) (hp : 0 < page) (hp2 : 2 * page ≤ sizeMax)
    (mmap : Nat → Option Nat) (l l' : List AInfo) (ai : AInfo)
    (h : dbgAllocate sz page n mmap l = .ok (ai, l')) :
    ai.cap = n * sz ∧ ai.pagePtr ≤ ai.ptr ∧ ai.ptr - ai.pagePtr < page ∧
    ai.ptr + ai.cap = ai.pagePtr + dbgGuardOff ai.cap page ∧
    dbgGuardOff ai.cap page + page = dbgMapLen ai.cap page ∧
    mmap (dbgMapLen ai.cap page) = some ai.pagePtr ∧ dbgMapLen ai.cap page = ai.pages * page ∧
    ai.pages * page ≤ sizeMax ∧ l' = l ++ [ai] := by
  obtain ⟨hf, hl, hm, _⟩ := dbg_facts hsz hp hp2 h
  exact ⟨hf.cap_eq, hf.ptr_ge, hf.ptr_off_lt, hf.ends_at_guard, by rw [hf.maplen]; exact hf.guard_last, hm, hf.maplen,
    hf.no_wrap, hl⟩

-- 512 doubles = exactly one page (the case the unrepaired code could not deallocate): mapping of 2 pages at 0x10000,
-- block = first page, guard = second page;  100 doubles: block ends at the guard, starts 800 bytes before it
example : dbgAllocate 8 4096 512 (fun len => if len = 8192 then some 0x10000 else none) [] =
      .ok (⟨0x10000, 0x10000, 2, 4096, 512⟩, [⟨0x10000, 0x10000, 2, 4096, 512⟩]) ∧
    dbgGuardOff 4096 4096 = 4096 ∧
    dbgAllocate 8 4096 100 (fun _ => some 0x20000) [] =
      .ok (⟨0x20000, 0x20000 + 4096 - 800, 2, 800, 100⟩, [⟨0x20000, 0x20000 + 4096 - 800, 2, 800, 100⟩]) :=
  ⟨rfl, rfl, rfl⟩

/-- the block is aligned for `T` (when `alignof(T)` divides `sizeof(T)` and the page size, and `mmap` returns
    page-aligned addresses) -/
theorem debug_ptr_aligned (sz page n al : Nat) (hsz : 0 < sz) (hp : 0 < page) (hp2 : 2 * page ≤ sizeMax)
    (mmap : Nat → Option Nat) (l l' : List AInfo) (ai : AInfo)
    (h : dbgAllocate sz page n mmap l = .ok (ai, l')) (h1 : al ∣ sz) (h2 : al ∣ page) (h3 : page ∣ ai.pagePtr) :
    al ∣ ai.ptr :=
  dbg_ptr_aligned' hsz hp hp2 h h1 h2 (Nat.dvd_trans h2 h3)

-- 100 doubles at a page-aligned mapping: 8 ∣ 8, 8 ∣ 4096, 4096 ∣ 0x20000, so the block address is a multiple of 8
example : 8 ∣ 0x20000 + 4096 - 800 :=
  debug_ptr_aligned 8 4096 100 8 (by decide) (by decide) (by decide) (fun _ => some 0x20000) [] _ _ rfl
    (by decide) (by decide) (by decide : 4096 ∣ 0x20000)

/-- `deallocate(ptr, n)` finds the block: in every list satisfying the invariant `DInv` (established for all valid
    histories by `debug_history_never_aborts`), deallocating the pointer of any recorded block with its size — or with
    `n = 0`, which skips the size test — removes exactly that block and reports it for unmapping -/
theorem debug_dealloc_finds_block (page : Nat) (l : List AInfo) (hi : DInv page l) (it : AInfo) (hit : it ∈ l)
    (n : Nat) (hn : n = 0 ∨ n = it.size) :
    dbgDeallocate page l it.ptr n = some (it, l.erase it) := dbgDeallocate_finds separates_ne hi it hit n hn

/-- for every history in which `mmap` returns page-aligned addresses of mappings not in use and only pointers of live
    blocks are given back (with their size or with 0), the manager never reaches `allocation_error`, `DInv` holds
    afterwards, and the OS calls balance: what was mapped is exactly what was unmapped plus the mappings of the
    blocks still recorded (same start address, same length) -/
theorem debug_history_never_aborts (sz page : Nat) (hsz : 0 < sz) (hp : 0 < page) (hp2 : 2 * page ≤ sizeMax)
    (ops : List DOp) (hv : DValid sz page [] ops) :
    ∃ l evs, dbgRun sz page [] ops = some (l, evs) ∧ DInv page l ∧
      (maps evs).Perm (unmaps evs ++ l.map (AInfo.rng page)) := by
  obtain ⟨st, h1, h2, h3⟩ := dbgRun_ok separates_ne hsz hp hp2 ops [] (dinv_nil _ _) hv
  exact ⟨st.1, st.2, h1, h2, by simpa using h3⟩

/-- all memory is returned: after any valid history, the unmap calls made so far together with those of the destructor
    `~AllocationManager` are a permutation of the map calls (same addresses, same lengths); in particular, when every
    block has been given back, everything is already unmapped and the destructor finds nothing in use -/
theorem debug_returns_all_memory (sz page : Nat) (hsz : 0 < sz) (hp : 0 < page) (hp2 : 2 * page ≤ sizeMax)
    (ops : List DOp) (hv : DValid sz page [] ops) :
    ∃ l evs, dbgRun sz page [] ops = some (l, evs) ∧
      (maps evs).Perm (unmaps (evs ++ (dbgDestroy page l).1)) ∧
      (l = [] → (maps evs).Perm (unmaps evs) ∧ dbgDestroy page l = ([], true)) := by
  obtain ⟨l, evs, h1, h2, h3⟩ := debug_history_never_aborts sz page hsz hp hp2 ops hv
  refine ⟨l, evs, h1, ?_, ?_⟩
  · rw [unmaps_append]
    have : unmaps (dbgDestroy page l).1 = l.map (AInfo.rng page) := by
      have he := h2.entry
      clear h1 h2 h3 hv
      induction l with
      | nil => rfl
      | cons x xs ih =>
        have hx := dbgDtorUnmapLen_eq (he x (by simp))
        have := ih (fun it hit => he it (List.mem_cons_of_mem _ hit))
        simp only [dbgDestroy, List.map_cons, unmaps, AInfo.rng, hx] at this ⊢
        rw [this]
    rw [this]; exact h3
  · intro hl
    subst hl
    exact ⟨by simpa using h3, rfl⟩

/-- live blocks are disjoint and usable: when `mmap` returns address ranges disjoint from the mappings in use, then
    after every valid history any two recorded blocks do not overlap, no block reaches into any guard page (its own or
    another block's), and every block lies inside its own mapping -/
theorem debug_live_blocks_disjoint (sz page : Nat) (hsz : 0 < sz) (hp : 0 < page) (hp2 : 2 * page ≤ sizeMax)
    (ops : List DOp) (hv : DValidD sz page [] ops) :
    ∃ l evs, dbgRun sz page [] ops = some (l, evs) ∧
      l.Pairwise (fun a b =>
        (a.ptr + a.cap ≤ b.ptr ∨ b.ptr + b.cap ≤ a.ptr) ∧
        (a.ptr + a.cap ≤ b.pagePtr + (b.pages - 1) * page ∨ b.pagePtr + b.pages * page ≤ a.ptr) ∧
        (b.ptr + b.cap ≤ a.pagePtr + (a.pages - 1) * page ∨ a.pagePtr + a.pages * page ≤ b.ptr)) ∧
      ∀ it ∈ l, it.pagePtr ≤ it.ptr ∧ it.ptr + it.cap = it.pagePtr + (it.pages - 1) * page ∧ 1 ≤ it.pages := by
  obtain ⟨st, h1, h2, _⟩ := dbgRun_ok (separates_apart hp) hsz hp hp2 ops [] (dinv_nil _ _) hv
  refine ⟨st.1, st.2, h1, ?_, fun it hit => ?_⟩
  · have he := h2.entry
    refine List.Pairwise.imp_of_mem (fun {a b} ha hb hab => ?_) h2.rel
    have hab' : apart page b a := by unfold apart at hab ⊢; omega
    exact ⟨(blocks_apart (he a ha) (he b hb) hab).1, (blocks_apart (he a ha) (he b hb) hab).2,
      (blocks_apart (he b hb) (he a ha) hab').2⟩
  · have e := h2.entry it hit
    have h3 := e.ends
    have h4 := e.pages_pos
    have hsub : (it.pages - 1) * page + page = it.pages * page := by
      have : it.pages - 1 + 1 = it.pages := by omega
      rw [← this, Nat.add_mul, Nat.one_mul]; simp
    exact ⟨e.ptr_ge, by omega, h4⟩

-- allocate one page, then 100 bytes, give the first (page-multiple) block back with n = 0, then the second with its size:
-- nothing left, two maps and two unmaps of the same ranges
example : dbgRun 1 4096 [] [.alloc 4096 (some 0x10000), .alloc 100 (some 0x30000), .free 0x10000 0,
    .free (0x30000 + 4096 - 100) 100] =
      some ([], [.map 0x10000 8192, .map 0x30000 8192, .unmap 0x10000 8192, .unmap 0x30000 8192]) ∧
    DValidD 1 4096 [] [.alloc 4096 (some 0x10000), .alloc 100 (some 0x30000), .free 0x10000 0,
      .free (0x30000 + 4096 - 100) 100] := by
  refine ⟨by decide, ?_⟩
  refine dvalid_alloc_ok (ai := ⟨0x10000, 0x10000, 2, 4096, 4096⟩) (l' := [⟨0x10000, 0x10000, 2, 4096, 4096⟩])
    rfl (by decide) (by decide) ?_
  refine dvalid_alloc_ok (ai := ⟨0x30000, 0x30000 + 4096 - 100, 2, 100, 100⟩)
    (l' := [⟨0x10000, 0x10000, 2, 4096, 4096⟩, ⟨0x30000, 0x30000 + 4096 - 100, 2, 100, 100⟩]) rfl (by decide) (by decide) ?_
  refine dvalid_free (it := ⟨0x10000, 0x10000, 2, 4096, 4096⟩) (l' := [⟨0x30000, 0x30000 + 4096 - 100, 2, 100, 100⟩])
    (by decide) (by decide) rfl (Or.inl rfl) ?_
  refine dvalid_free (it := ⟨0x30000, 0x30000 + 4096 - 100, 2, 100, 100⟩) (l' := []) (by decide) (by decide) rfl
    (Or.inr rfl) ?_
  exact trivial

-- the list after the two allocations of this history satisfies `DInv`, and `deallocate` finds its second block
example : DInv 4096 [⟨0x10000, 0x10000, 2, 4096, 4096⟩, ⟨0x30000, 0x30000 + 4096 - 100, 2, 100, 100⟩] ∧
    dbgDeallocate 4096 [⟨0x10000, 0x10000, 2, 4096, 4096⟩, ⟨0x30000, 0x30000 + 4096 - 100, 2, 100, 100⟩]
      (0x30000 + 4096 - 100) 100 = some (⟨0x30000, 0x30000 + 4096 - 100, 2, 100, 100⟩, [⟨0x10000, 0x10000, 2, 4096, 4096⟩]) := by
  refine ⟨⟨fun it hit => ?_, by decide⟩, by decide⟩
  simp only [List.mem_cons, List.mem_nil_iff, or_false] at hit
  rcases hit with rfl | rfl <;> exact ⟨by decide, by decide, by decide, by decide, by decide⟩

-- deallocating with a wrong size aborts (`none`)
example : dbgRun 1 4096 [] [.alloc 100 (some 0x30000), .free (0x30000 + 4096 - 100) 99] = none := by decide

/-! ## Pool::grow: the loop bounds (regenerated from the source) -/

/-- for all sizes, alignments and pool sizes: the loop of `Pool::grow` — `for (e = growFirst; e < growEnd; e += growStep)`
    with the three bounds regenerated from the source — visits exactly the byte offsets of the slots `1 … elements-1`
    (slot `i` at `i * alignedSize`), each once and in increasing order: the list `List.range' 1 (elements - 1)` the models
    `igrow`/`growTail` thread onto the free list behind slot 0.  No slot is skipped, none lies beyond the last whole
    slot of the chunk -/
theorem grow_threads_exactly_the_slots (sz al s : Nat) (hal : 0 < al) :
    growLoopOffsets (growFirst sz al s) (growStep sz al s) (growEnd sz al s) =
      (List.range' 1 (elements sz al s - 1)).map (fun i => i * alignedSize sz al s) := by
  obtain ⟨hE, _, _, hA, _⟩ := geometry_sound sz al s hal
  have ha : 0 < alignedSize sz al s := by
    have : refSize = 8 := rfl
    omega
  unfold growFirst growStep growEnd
  exact growLoop_canonical _ _ ha hE

example : growLoopOffsets (growFirst 24 8 100) (growStep 24 8 100) (growEnd 24 8 100) = [24, 48, 72] ∧
    elements 24 8 100 = 4 ∧ growLoopOffsets (growFirst 100 4 1) (growStep 100 4 1) (growEnd 100 4 1) = [] := by decide

/-! ## Pool::free: the range test (regenerated from the source) -/

/-- the search of `Pool::free` (without `NDEBUG`) stops at a chunk exactly when the address lies inside the chunk's
    storage `[base, base + chunkSize)` — for all addresses and sizes -/
theorem free_range_test_exact (base b chunkSize : Nat) :
    poolFreeInRange base b chunkSize = true ↔ (base ≤ b ∧ b < base + chunkSize) := by
  unfold poolFreeInRange
  rw [decide_eq_true_eq]   -- `x > b` is `b < x`: what remains is closed by `rfl`

/-- the model's test on block names is this test at the block's address: for a slot `(c, i)` of a chunk placed at
    `base`, the generated condition is `i * alignedSize < chunkSize`, what `inSomeChunk`/`ifree` evaluate; the
    addresses just behind the storage (`fe`) and just in front of it (`fb`) are outside -/
theorem free_range_test_slot (g : Geo) (base i : Nat) :
    poolFreeInRange base (base + i * g.alignedSize) g.chunkSize = decide (i * g.alignedSize < g.chunkSize) ∧
    poolFreeInRange base (base + g.chunkSize) g.chunkSize = false ∧
    (0 < base → poolFreeInRange base (base - 1) g.chunkSize = false) := by
  unfold poolFreeInRange
  refine ⟨?_, ?_, ?_⟩
  · by_cases h : i * g.alignedSize < g.chunkSize <;> simp [h] <;> omega
  · simp
  · intro hb; simp; omega

example : poolFreeInRange 4096 4096 48 = true ∧ poolFreeInRange 4096 4143 48 = true ∧ poolFreeInRange 4096 4144 48 = false ∧
    poolFreeInRange 4096 4095 48 = false := by decide

/-! ## DebugAllocator, compile-time configuration `DEBUG_ALLOCATOR_KEEP`

`deallocate` keeps the entry of a released block and keeps its mapping (inaccessible); only the destructor gives memory
back.  The hypothesis on `mmap` therefore ranges over **all** recorded entries, released ones included — it is justified
exactly because the KEEP branch does not unmap (`keepUnmaps_eq`, regenerated from the source): a mapping that still
exists cannot be handed out again. -/

/-- all valid histories in the KEEP configuration (any number of allocate / release / allocate-again rounds): the
    manager never aborts — every `deallocate` of a block in use finds its own entry although released entries stay in
    the list —, nothing is unmapped before destruction, and the recorded entries are exactly the mappings obtained,
    in order -/
theorem keep_history_never_aborts (sz page : Nat) (hsz : 0 < sz) (hp : 0 < page) (hp2 : 2 * page ≤ sizeMax)
    (ops : List DOp) (hv : KValid sz page [] ops) :
    ∃ l evs, kRun sz page [] ops = some (l, evs) ∧ KInvG page (fun it ai => it.pagePtr ≠ ai.pagePtr) l ∧
      unmaps evs = [] ∧ (infos l).map (AInfo.rng page) = maps evs := by
  obtain ⟨st, h1, h2, h3, h4⟩ := kRun_ok separates_ne hsz hp hp2 ops [] (kinv_nil _ _) hv
  exact ⟨st.1, st.2, h1, h2, h3, by simpa [infos] using h4⟩

/-- destroying the manager returns all memory it obtained, KEEP configuration: the destructor's `munmap` calls are
    exactly the `mmap` calls of the history (same address, same length, same order, each once), whatever was released
    before; and it reports "lost allocations" iff some block is still in use -/
theorem keep_destroy_returns_all_memory (sz page : Nat) (hsz : 0 < sz) (hp : 0 < page) (hp2 : 2 * page ≤ sizeMax)
    (ops : List DOp) (hv : KValid sz page [] ops) :
    ∃ l evs, kRun sz page [] ops = some (l, evs) ∧
      unmaps (evs ++ (kDestroy page l).1) = maps evs ∧
      ((kDestroy page l).2 = true ↔ ∀ it ∈ l, it.notFree = false) := by
  obtain ⟨l, evs, h1, h2, h3, h4⟩ := keep_history_never_aborts sz page hsz hp hp2 ops hv
  refine ⟨l, evs, h1, ?_, ?_⟩
  · rw [unmaps_append, h3, List.nil_append, unmaps_kDestroy h2.entry, h4]
  · simp [kDestroy, List.all_eq_true]

/-- released blocks are not reused while the manager lives, and blocks in use are disjoint (KEEP configuration): when
    `mmap` returns ranges disjoint from the mappings that still exist, any two recorded blocks — released or in use —
    do not overlap and no block reaches into a guard page -/
theorem keep_blocks_never_reused (sz page : Nat) (hsz : 0 < sz) (hp : 0 < page) (hp2 : 2 * page ≤ sizeMax)
    (ops : List DOp) (hv : KValidD sz page [] ops) :
    ∃ l evs, kRun sz page [] ops = some (l, evs) ∧
      (infos l).Pairwise (fun a b =>
        (a.ptr + a.cap ≤ b.ptr ∨ b.ptr + b.cap ≤ a.ptr) ∧
        (a.ptr + a.cap ≤ b.pagePtr + (b.pages - 1) * page ∨ b.pagePtr + b.pages * page ≤ a.ptr) ∧
        (b.ptr + b.cap ≤ a.pagePtr + (a.pages - 1) * page ∨ a.pagePtr + a.pages * page ≤ b.ptr)) := by
  obtain ⟨st, h1, h2, _, _⟩ := kRun_ok (separates_apart hp) hsz hp hp2 ops [] (kinv_nil _ _) hv
  refine ⟨st.1, st.2, h1, ?_⟩
  have he := h2.entry
  refine List.Pairwise.imp_of_mem (fun {a b} ha hb hab => ?_) h2.rel
  have hab' : apart page b a := by unfold apart at hab ⊢; omega
  exact ⟨(blocks_apart (he a ha) (he b hb) hab).1, (blocks_apart (he a ha) (he b hb) hab).2,
    (blocks_apart (he b hb) (he a ha) hab').2⟩

/-- requests that cannot be served are refused in the KEEP configuration as well (`allocate` is the same code): the
    list is untouched and nothing is mapped -/
theorem keep_overflow_refused (sz page n : Nat) (hp2 : 2 * page ≤ sizeMax) (h : sizeMax < n * sz + 2 * page)
    (mm : Option Nat) (l : List KInfo) :
    kAllocate sz page n (fun _ => mm) l = .error .alloc ∧ kStep sz page l (.alloc n mm) = some (l, []) := by
  have h1 : kAllocate sz page n (fun _ => mm) l = .error .alloc := by
    unfold kAllocate; rw [dbg_refused' hp2 h]
  exact ⟨h1, by simp [kStep, h1]⟩

example : kStep 8 4096 [] (.alloc 2305843009213693953 (some 0x10000)) = some ([], []) := by
  have := (keep_overflow_refused 8 4096 2305843009213693953 (by decide) (by decide) (some 0x10000) []).2
  exact this

/-- why the mapping must be kept together with the entry: if a released entry's range were handed out again (possible
    only once it is unmapped), the stale entry is found first and the legal `deallocate` of the new block aborts -/
theorem keep_stale_entry_aborts (page : Nat) (stale : KInfo) (rest : List KInfo) (ptr n : Nat)
    (hkey : stale.info.pagePtr = dbgLookupKey ptr page) (hfree : stale.notFree = false) :
    kDeallocate page (stale :: rest) ptr n = none :=
  kDeallocate_stale_aborts stale rest ptr n hkey hfree

-- second use in the KEEP configuration: allocate 7 bytes, release, allocate 7 bytes again (a fresh mapping, since the
-- first still exists), release: no abort, nothing unmapped, the destructor unmaps both mappings and finds nothing in use
example : kRun 1 4096 [] [.alloc 7 (some 0x10000), .free (0x10000 + 4096 - 7) 7, .alloc 7 (some 0x30000),
      .free (0x30000 + 4096 - 7) 0] =
      some ([⟨⟨0x10000, 0x10000 + 4096 - 7, 2, 7, 7⟩, false⟩, ⟨⟨0x30000, 0x30000 + 4096 - 7, 2, 7, 7⟩, false⟩],
        [.map 0x10000 8192, .map 0x30000 8192]) ∧
    kDestroy 4096 [⟨⟨0x10000, 0x10000 + 4096 - 7, 2, 7, 7⟩, false⟩, ⟨⟨0x30000, 0x30000 + 4096 - 7, 2, 7, 7⟩, false⟩] =
      ([.unmap 0x10000 8192, .unmap 0x30000 8192], true) ∧
    KValidD 1 4096 [] [.alloc 7 (some 0x10000), .free (0x10000 + 4096 - 7) 7, .alloc 7 (some 0x30000),
      .free (0x30000 + 4096 - 7) 0] := by
  refine ⟨by decide, by decide, ?_⟩
  refine kvalid_alloc_ok (ai := ⟨0x10000, 0x10000 + 4096 - 7, 2, 7, 7⟩)
    (l' := [⟨⟨0x10000, 0x10000 + 4096 - 7, 2, 7, 7⟩, true⟩]) rfl (by decide) (by decide) ?_
  refine kvalid_free (it := ⟨⟨0x10000, 0x10000 + 4096 - 7, 2, 7, 7⟩, true⟩) (a := ⟨0x10000, 0x10000 + 4096 - 7, 2, 7, 7⟩)
    (l' := [⟨⟨0x10000, 0x10000 + 4096 - 7, 2, 7, 7⟩, false⟩]) (by decide) (by decide) rfl rfl (Or.inr rfl) ?_
  refine kvalid_alloc_ok (ai := ⟨0x30000, 0x30000 + 4096 - 7, 2, 7, 7⟩)
    (l' := [⟨⟨0x10000, 0x10000 + 4096 - 7, 2, 7, 7⟩, false⟩, ⟨⟨0x30000, 0x30000 + 4096 - 7, 2, 7, 7⟩, true⟩]) rfl
    (by decide) (by decide) ?_
  refine kvalid_free (it := ⟨⟨0x30000, 0x30000 + 4096 - 7, 2, 7, 7⟩, true⟩) (a := ⟨0x30000, 0x30000 + 4096 - 7, 2, 7, 7⟩)
    (l' := [⟨⟨0x10000, 0x10000 + 4096 - 7, 2, 7, 7⟩, false⟩, ⟨⟨0x30000, 0x30000 + 4096 - 7, 2, 7, 7⟩, false⟩])
    (by decide) (by decide) rfl rfl (Or.inl rfl) ?_
  exact trivial

-- the same history with `mmap` handing the first range out again (not `KValid`: the first mapping still exists) aborts
-- at the second release: the stale entry is found first
example : kRun 1 4096 [] [.alloc 7 (some 0x10000), .free (0x10000 + 4096 - 7) 7, .alloc 7 (some 0x10000),
      .free (0x10000 + 4096 - 7) 7] = none ∧
    kDeallocate 4096 [⟨⟨0x10000, 0x10000 + 4096 - 7, 2, 7, 7⟩, false⟩, ⟨⟨0x10000, 0x10000 + 4096 - 7, 2, 7, 7⟩, true⟩]
      (0x10000 + 4096 - 7) 7 = none := by
  refine ⟨by decide, keep_stale_entry_aborts 4096 _ _ _ _ (by decide) rfl⟩

-- a double free in the KEEP configuration aborts (`none`), a block still in use at destruction is reported
example : kRun 1 4096 [] [.alloc 7 (some 0x10000), .free (0x10000 + 4096 - 7) 7, .free (0x10000 + 4096 - 7) 7] = none ∧
    (kDestroy 4096 [⟨⟨0x10000, 0x10000 + 4096 - 7, 2, 7, 7⟩, true⟩]).2 = false := by decide

/-! ## rebind: the allocator a container obtains for another element type -/

/-- every allocator class has its own member `rebind<U>::other` naming the same template with the same non-type
    parameters (regenerated from the four headers): a container that rebinds `AlignedAllocator<T,A>` gets
    `AlignedAllocator<U,A>` — to which theorem `aligned_served_exact` applies with `sizeof(U)`, the same `A` — and not
    the `MallocAllocator<U>` of the base class; `PoolAllocator<T,s>` rebinds to `PoolAllocator<U,s>`.  The theorems of
    this file hold for every element size, hence for the rebound allocators -/
theorem rebind_stays_in_family :
    mallocRebindInFamily = true ∧ alignedRebindKeepsAlignment = true ∧ debugRebindInFamily = true ∧
    paRebindKeepsPoolSize = true := ⟨rfl, rfl, rfl, rfl⟩

-- the rebound AlignedAllocator<U,64> for a U of 16 bytes asks aligned_alloc for alignment 64 again
example : alignedAllocate 16 8 64 3 osServes = .ok (64, 48) := rfl

/-! ## debugalign.hh -/

/-- `isAligned(p, align)` is divisibility -/
theorem isAligned_iff (p a : Nat) : isAligned p a = true ↔ a ∣ p := isAligned_iff' p a

example : isAligned 96 32 = true ∧ isAligned 104 32 = false := by decide

end DV.C15
