/-
C15 — Allocators hand out aligned, disjoint, usable blocks for any request history: the property theorems.

All theorems are about the executable model `DuneVerif/Model/C15.lean` (the definitions the driver runs against the real
allocators) and about the formulas regenerated from the headers in `DuneVerif/Gen/C15.lean` (Pool slot geometry,
request validation of Malloc/AlignedAllocator, page arithmetic of the DebugAllocator).  They hold for every element size
`sz = sizeof(T)`, every alignment `al = alignof(T) > 0` (powers of two are a special case), every pool size `s`, every
request count `n`, every page size and every (valid) allocate/deallocate history; the base addresses the operating
system / `operator new` / `mmap` return are universally quantified.  Sizes are natural numbers: the `int`/`size_t`
range of the C++ constants is an assumption of the reading (`s < 2^31`), except where `wrap` models `size_t` overflow
explicitly.  Lemmas live in `DuneVerif/Proofs/C15*.lean`; every `example` shows that the hypotheses of the theorem above
it are satisfied by a concrete non-trivial input.
-/
import DuneVerif.Proofs.C15Pool
import DuneVerif.Proofs.C15Raw

namespace DV.C15
open DV.C15.Gen

/-! ## Pool<T,s>: slot geometry (formulas generated from poolallocator.hh) -/

/-- every static_assert of `Pool::Pool()` and more, for all sizes, alignments and pool sizes: a chunk holds at least
    one slot, the slots fit into the chunk, a slot can hold a `T` and the free-list pointer, slot size and chunk size
    are multiples of the slot alignment, which is a multiple of `alignof(T)` and of the pointer alignment -/
theorem geometry_sound (sz al s : Nat) (hal : 0 < al) :
    elements sz al s ≥ 1 ∧
    elements sz al s * alignedSize sz al s ≤ chunkSize sz al s ∧
    alignedSize sz al s ≥ sz ∧ alignedSize sz al s ≥ refSize ∧
    alignment sz al s ∣ alignedSize sz al s ∧ alignment sz al s ∣ chunkSize sz al s ∧
    al ∣ alignment sz al s ∧ refAlign ∣ alignment sz al s := by
  have hA := alignment_pos sz s hal
  refine ⟨?_, ?_, ?_, ?_, roundUp_dvd _ _, roundUp_dvd _ _, Nat.dvd_lcm_left _ _, Nat.dvd_lcm_right _ _⟩
  · rw [elements_eq]; exact Nat.div_pos (alignedSize_le_chunkSize sz s hal) (alignedSize_pos sz s hal)
  · rw [elements_eq]; exact Nat.div_mul_le_self _ _
  · exact Nat.le_trans (le_unionSize sz al s).1 (by rw [alignedSize_eq]; exact le_roundUp _ hA)
  · exact Nat.le_trans (le_unionSize sz al s).2 (by rw [alignedSize_eq]; exact le_roundUp _ hA)

-- sizeof 12, alignof 4, pool size 100: slots of 16 bytes aligned to 8, chunk of 104 bytes, 6 slots
example : unionSize 12 4 100 = 12 ∧ size 12 4 100 = 100 ∧ alignment 12 4 100 = 8 ∧ alignedSize 12 4 100 = 16 ∧
    chunkSize 12 4 100 = 104 ∧ elements 12 4 100 = 6 := by decide
-- a pool too small for one object still holds one: sizeof 24, alignof 16, pool size 1
example : alignedSize 24 16 1 = 32 ∧ chunkSize 24 16 1 = 32 ∧ elements 24 16 1 = 1 := by decide

/-- the slot size is the least multiple of the alignment that holds the object and the pointer: no space is wasted -/
theorem alignedSize_tight (sz al s : Nat) (hal : 0 < al) :
    alignedSize sz al s < max sz refSize + alignment sz al s := by
  rw [alignedSize_eq]
  have := roundUp_lt (unionSize sz al s) (alignment_pos sz s hal)
  have hu : unionSize sz al s = max sz refSize := by unfold unionSize; split <;> omega
  omega

/-- for power-of-two alignments the slot alignment is the larger of `alignof(T)` and the pointer alignment -/
theorem alignment_pow2_max (sz k s : Nat) : alignment sz (2 ^ k) s = max (2 ^ k) refAlign := alignment_pow2 sz k s

example : alignment 3 (2 ^ 0) 7 = 8 ∧ alignment 128 (2 ^ 6) 7 = 64 := by decide

/-- the geometry of every `Pool<T,s>` satisfies what the state machine needs -/
theorem geoOK_generated (sz al s : Nat) (hal : 0 < al) : GeoOK (geoOf sz al s) :=
  ⟨alignedSize_pos sz s hal, (geometry_sound sz al s hal).1, (geometry_sound sz al s hal).2.1⟩

/-- slots are disjoint, aligned and inside their chunk — for every assignment of base addresses to chunks that
    `operator new` may produce (bases aligned to `A`, chunk byte ranges disjoint) -/
theorem slots_disjoint_aligned (g : Geo) (A : Nat) (base : Nat → Nat)
    (hA : A ∣ g.alignedSize) (hfit : g.elements * g.alignedSize ≤ g.chunkSize)
    (hbase : ∀ c, A ∣ base c)
    (hsep : ∀ c c', c ≠ c' → base c + g.chunkSize ≤ base c' ∨ base c' + g.chunkSize ≤ base c)
    {b b' : Block} (hb : b.2 < g.elements) (hb' : b'.2 < g.elements) (hne : b ≠ b') :
    A ∣ addr g base b ∧ base b.1 ≤ addr g base b ∧ addr g base b + g.alignedSize ≤ base b.1 + g.chunkSize ∧
    (addr g base b + g.alignedSize ≤ addr g base b' ∨ addr g base b' + g.alignedSize ≤ addr g base b) := by
  have h1 := slot_inside hfit hb
  have h2 := slot_inside hfit hb'
  refine ⟨Nat.dvd_add (hbase _) (Nat.dvd_trans hA (Nat.dvd_mul_left _ _)), Nat.le_add_right _ _, by unfold addr; omega, ?_⟩
  unfold addr
  by_cases hc : b.1 = b'.1
  · have hi : b.2 ≠ b'.2 := fun h => hne (Prod.ext hc h)
    rw [hc]
    rcases Nat.lt_or_gt_of_ne hi with h | h
    · have := slots_apart (a := g.alignedSize) h; omega
    · have := slots_apart (a := g.alignedSize) h; omega
  · rcases hsep _ _ hc with h | h <;> omega

/-! ## Pool<T,s>: all histories -/

/-- the invariant `free list ⊎ live set = all slots of all chunks, each exactly once` holds after every valid history
    (only live blocks are given back), starting from the empty pool -/
theorem pool_invariant {g : Geo} (hg : GeoOK g) (ops : List Op) (hv : Valid g Pool.empty ops) :
    let p := (run g Pool.empty ops).1
    (p.free ++ p.live).Nodup ∧
    (∀ b, b ∈ p.free ++ p.live ↔ (b.1 < p.chunks.length ∧ b.2 < g.elements)) ∧
    p.free.length + p.live.length = p.chunks.length * g.elements := by
  have hi := inv_run hg ops _ (inv_empty _) hv
  exact ⟨hi.nodup, hi.mem, hi.count⟩

/-- in every reachable state `allocate` returns a block that is not live (never a block somebody still owns), that is
    a slot of one of the pool's chunks, and that is live and off the free list afterwards -/
theorem allocate_fresh {g : Geo} (hg : GeoOK g) (ops : List Op) (hv : Valid g Pool.empty ops) :
    let p := (run g Pool.empty ops).1
    let r := allocate g.elements p
    r.1 ∉ p.live ∧ r.1.1 < r.2.chunks.length ∧ r.1.2 < g.elements ∧ r.1 ∈ r.2.live ∧ r.1 ∉ r.2.free :=
  allocate_fresh' hg.el_pos (inv_run hg ops _ (inv_empty _) hv)

/-- reuse only after release: if two allocations of a valid history return the same block, the block was given back
    in between -/
theorem reuse_only_after_free {g : Geo} (hg : GeoOK g) (ops : List Op) (hv : Valid g Pool.empty ops)
    (i j : Nat) (b : Block) (hij : i < j)
    (hi : (run g Pool.empty ops).2[i]? = some (Ev.ret b)) (hj : (run g Pool.empty ops).2[j]? = some (Ev.ret b)) :
    ∃ k, i < k ∧ k < j ∧ (run g Pool.empty ops).2[k]? = some (Ev.freed b) :=
  reuse_after_free hg ops _ (inv_empty _) hv i j hij hi hj

/-- giving back a live block is never refused -/
theorem valid_free_accepted {g : Geo} (hg : GeoOK g) (ops : List Op) (hv : Valid g Pool.empty ops) :
    Ev.refused ∉ (run g Pool.empty ops).2 :=
  no_refusal hg ops _ (inv_empty _) hv

/-- destroying the pool deletes every chunk it ever obtained exactly once, whatever is still live; and a chunk is
    obtained only when no free slot exists -/
theorem destroy_releases_all {g : Geo} (hg : GeoOK g) (ops : List Op) (hv : Valid g Pool.empty ops) :
    (destroy (run g Pool.empty ops).1).Perm (List.range (run g Pool.empty ops).1.chunks.length) ∧
    ∀ p, (allocate g.elements p).2.chunks.length = p.chunks.length + (if p.free = [] then 1 else 0) :=
  ⟨destroy_perm (inv_run hg ops _ (inv_empty _) hv), allocate_chunks _⟩

-- a history over 3-slot chunks that fills a chunk, frees the middle block, reuses it, and grows a second chunk
example : Valid ⟨16, 48, 3⟩ Pool.empty [.alloc, .alloc, .alloc, .free (0, 1), .alloc, .alloc] ∧
    (run ⟨16, 48, 3⟩ Pool.empty [.alloc, .alloc, .alloc, .free (0, 1), .alloc, .alloc]).2 =
      [.ret (0, 0), .ret (0, 1), .ret (0, 2), .freed (0, 1), .ret (0, 1), .ret (1, 0)] ∧
    destroy (run ⟨16, 48, 3⟩ Pool.empty [.alloc, .alloc, .alloc, .free (0, 1), .alloc, .alloc]).1 = [1, 0] ∧
    GeoOK ⟨16, 48, 3⟩ := by
  refine ⟨by decide, by decide, by decide, ⟨by decide, by decide, by decide⟩⟩

/-- end to end for the generated geometry of `Pool<T,s>`: after every valid history, for every placement of the chunks
    that `operator new` may choose, every live block is aligned for `T`, lies inside its chunk with room for a `T`,
    and is disjoint from every other live block -/
theorem pool_live_blocks_disjoint_aligned (sz al s : Nat) (hal : 0 < al) (ops : List Op)
    (hv : Valid (geoOf sz al s) Pool.empty ops) (base : Nat → Nat)
    (hbase : ∀ c, alignment sz al s ∣ base c)
    (hsep : ∀ c c', c ≠ c' → base c + (geoOf sz al s).chunkSize ≤ base c' ∨ base c' + (geoOf sz al s).chunkSize ≤ base c) :
    ∀ b ∈ (run (geoOf sz al s) Pool.empty ops).1.live,
      (al ∣ addr (geoOf sz al s) base b ∧ base b.1 ≤ addr (geoOf sz al s) base b ∧
        addr (geoOf sz al s) base b + sz ≤ base b.1 + (geoOf sz al s).chunkSize) ∧
      ∀ b' ∈ (run (geoOf sz al s) Pool.empty ops).1.live, b ≠ b' →
        addr (geoOf sz al s) base b + sz ≤ addr (geoOf sz al s) base b' ∨
        addr (geoOf sz al s) base b' + sz ≤ addr (geoOf sz al s) base b := by
  have hgs := geometry_sound sz al s hal
  have hg := geoOK_generated sz al s hal
  have hi := inv_run hg ops _ (inv_empty _) hv
  have hsz : sz ≤ (geoOf sz al s).alignedSize := hgs.2.2.1
  have hdA : alignment sz al s ∣ (geoOf sz al s).alignedSize := hgs.2.2.2.2.1
  have hal' : al ∣ alignment sz al s := hgs.2.2.2.2.2.2.1
  generalize geoOf sz al s = g at hv hsep hg hi hsz hdA ⊢
  intro b hb
  have hslot : ∀ x ∈ (run g Pool.empty ops).1.live, x.2 < g.elements :=
    fun x hx => ((hi.mem x).1 (List.mem_append.2 (Or.inr hx))).2
  refine ⟨?_, fun b' hb' hne => ?_⟩
  · have h1 := slot_inside hg.fit (hslot b hb)
    refine ⟨Nat.dvd_trans hal' (Nat.dvd_add (hbase _) (Nat.dvd_trans hdA (Nat.dvd_mul_left _ _))),
      Nat.le_add_right _ _, ?_⟩
    unfold addr
    omega
  · have := (slots_disjoint_aligned g (alignment sz al s) base hdA hg.fit hbase hsep
      (hslot b hb) (hslot b' hb') hne).2.2.2
    omega

-- the element type of the first example (sizeof 12, alignof 4, pool size 100): two chunks 104 bytes apart
example : Valid (geoOf 12 4 100) Pool.empty [.alloc, .alloc, .free (0, 0), .alloc] ∧
    (run (geoOf 12 4 100) Pool.empty [.alloc, .alloc, .free (0, 0), .alloc]).1.live = [(0, 1), (0, 0)] := by
  decide

/-! ## PoolAllocator<T,s> -/

/-- `allocate(n)` with `n ≠ 1` is refused with bad_alloc (a pool block holds one object) and leaves the pool unchanged
    (the model returns no new state); `allocate(1)` is the pool's allocate -/
theorem n_ne_one_refused (E n : Nat) (p : Pool) :
    (n ≠ 1 → paAllocate E n p = .error .alloc) ∧ (n = 1 → paAllocate E n p = .ok (allocate E p)) := by
  constructor
  · intro h; simp [paAllocate, paAccepts, h]
  · intro h; simp [paAllocate, paAccepts, h]

example : paAllocate 3 0 Pool.empty = .error .alloc ∧ paAllocate 3 2 Pool.empty = .error .alloc ∧
    paAllocate 3 (2 ^ 64 - 1) Pool.empty = .error .alloc ∧
    paAllocate 3 1 Pool.empty = .ok ((0, 0), ⟨[0], [(0, 1), (0, 2)], [(0, 0)]⟩) := ⟨rfl, rfl, rfl, rfl⟩

/-- the pool of `PoolAllocator<T,s>` is `Pool<T, s*sizeof(T)>` -/
theorem pa_pool_size (sz s : Nat) : paPoolSize sz s = s * sz := rfl

/-! ## MallocAllocator<T>, AlignedAllocator<T,A> -/

/-- a request whose byte size does not fit into `size_t` is refused with bad_alloc whatever the C library would do
    (the product `n * sizeof(T)` is never formed) -/
theorem malloc_overflow_refused (sz n : Nat) (h : sizeMax < n * sz) (os : Nat → Bool) :
    mallocAllocate sz n os = .error .alloc := malloc_refused' h os

/-- a served request got exactly `n * sizeof(T)` bytes (no wrap-around) from a successful `malloc` -/
theorem malloc_served_exact (sz n bytes : Nat) (hsz : 0 < sz) (os : Nat → Bool)
    (h : mallocAllocate sz n os = .ok bytes) : bytes = n * sz ∧ os bytes = true ∧ n * sz ≤ sizeMax :=
  malloc_served' hsz h

-- 2^61+1 doubles wrap around to 8 bytes: refused; 3 doubles: 24 bytes
example : sizeMax < (2 ^ 61 + 1) * 8 ∧ mallocAllocate 8 (2 ^ 61 + 1) (fun _ => true) = .error .alloc ∧
    mallocAllocate 8 3 (fun _ => true) = .ok 24 ∧ mallocAllocate 8 3 (fun _ => false) = .error .alloc :=
  ⟨by decide, rfl, rfl, rfl⟩

theorem aligned_overflow_refused (sz al A n : Nat) (h : sizeMax < n * sz) (os : Nat → Bool) :
    alignedAllocate sz al A n os = .error .alloc := aligned_refused' al A h os

/-- a served request got exactly `n * sizeof(T)` bytes from `aligned_alloc` called with the promised alignment:
    `alignof(T)` by default (`A = 0` encodes `Alignment = -1`), else `A`; a block aligned to it is aligned for `T`
    whenever `alignof(T)` divides `A` -/
theorem aligned_served_exact (sz al A n a bytes : Nat) (hsz : 0 < sz) (os : Nat → Bool)
    (h : alignedAllocate sz al A n os = .ok (a, bytes)) :
    a = (if A = 0 then al else A) ∧ bytes = n * sz ∧ os bytes = true ∧ n * sz ≤ sizeMax ∧
    ∀ p, a ∣ p → (A = 0 ∨ al ∣ A) → al ∣ p := by
  obtain ⟨h1, h2, h3, h4⟩ := aligned_served' hsz h
  refine ⟨h1, h2, h3, h4, fun p hp hA => ?_⟩
  rw [h1] at hp
  by_cases h0 : A = 0
  · rw [if_pos h0] at hp; exact hp
  · rw [if_neg h0] at hp
    rcases hA with hA | hA
    · exact absurd hA h0
    · exact Nat.dvd_trans hA hp

example : alignedAllocate 12 4 64 5 (fun _ => true) = .ok (64, 60) ∧
    alignedAllocate 12 4 0 5 (fun _ => true) = .ok (4, 60) ∧
    alignedAllocate 12 4 64 (2 ^ 63) (fun _ => true) = .error .alloc := ⟨rfl, rfl, rfl⟩

/-! ## DebugAllocator (AllocationManager): page arithmetic and bookkeeping -/

/-- requests whose byte size plus the two extra pages is not representable are refused with bad_alloc -/
theorem debug_overflow_refused (sz page n : Nat) (hp2 : 2 * page ≤ sizeMax) (h : sizeMax < n * sz + 2 * page)
    (mmap : Nat → Option Nat) (l : List AInfo) : dbgAllocate sz page n mmap l = .error .alloc :=
  dbg_refused' hp2 h mmap l

/-- an accepted request: the block has exactly `n*sizeof(T)` bytes, starts inside the first page of its mapping, ends
    exactly where the inaccessible guard page begins, the guard page is the last page of the mapping, and nothing
    wrapped around; the block is recorded at the end of the allocation list -/
theorem debug_block_ends_at_guard (sz page n : Nat) (hsz : 0 < sz) (hp : 0 < page) (hp2 : 2 * page ≤ sizeMax)
    (mmap : Nat → Option Nat) (l l' : List AInfo) (ai : AInfo)
    (h : dbgAllocate sz page n mmap l = .ok (ai, l')) :
    ai.cap = n * sz ∧ ai.pagePtr ≤ ai.ptr ∧ ai.ptr - ai.pagePtr < page ∧
    ai.ptr + ai.cap = ai.pagePtr + dbgGuardOff ai.cap page ∧
    dbgGuardOff ai.cap page + page = dbgMapLen ai.cap page ∧
    mmap (dbgMapLen ai.cap page) = some ai.pagePtr ∧ dbgMapLen ai.cap page = ai.pages * page ∧
    ai.pages * page ≤ sizeMax ∧ l' = l ++ [ai] := by
  obtain ⟨hf, hl, hm, _⟩ := dbg_facts hsz hp hp2 h
  exact ⟨hf.cap_eq, hf.ptr_ge, hf.ptr_off_lt, hf.ends_at_guard, by rw [hf.maplen]; exact hf.guard_last, hm, hf.maplen,
    hf.no_wrap, hl⟩

-- 512 doubles = exactly one page (the case the unrepaired code could not deallocate): mapping of 2 pages at 0x10000,
-- block = first page, guard = second page;  100 doubles: block ends at the guard, starts 800 bytes before it
example : dbgAllocate 8 4096 512 (fun len => if len = 8192 then some 0x10000 else none) [] =
      .ok (⟨0x10000, 0x10000, 2, 4096, 512⟩, [⟨0x10000, 0x10000, 2, 4096, 512⟩]) ∧
    dbgGuardOff 4096 4096 = 4096 ∧
    dbgAllocate 8 4096 100 (fun _ => some 0x20000) [] =
      .ok (⟨0x20000, 0x20000 + 4096 - 800, 2, 800, 100⟩, [⟨0x20000, 0x20000 + 4096 - 800, 2, 800, 100⟩]) :=
  ⟨rfl, rfl, rfl⟩

/-- the block is aligned for `T` (when `alignof(T)` divides `sizeof(T)` and the page size, and `mmap` returns
    page-aligned addresses) -/
theorem debug_ptr_aligned (sz page n al : Nat) (hsz : 0 < sz) (hp : 0 < page) (hp2 : 2 * page ≤ sizeMax)
    (mmap : Nat → Option Nat) (l l' : List AInfo) (ai : AInfo)
    (h : dbgAllocate sz page n mmap l = .ok (ai, l')) (h1 : al ∣ sz) (h2 : al ∣ page) (h3 : page ∣ ai.pagePtr) :
    al ∣ ai.ptr :=
  dbg_ptr_aligned' hsz hp hp2 h h1 h2 (Nat.dvd_trans h2 h3)

/-- `deallocate(ptr)` finds the block: when every recorded block's lookup key is its own `page_ptr` and the mappings
    are distinct (`DInv`, established by `debug_history_never_aborts`), deallocating the pointer of any recorded block
    removes exactly that block -/
theorem debug_dealloc_finds_block (page : Nat) (l : List AInfo) (hi : DInv page l) (it : AInfo) (hit : it ∈ l) :
    dbgDeallocate page l it.ptr = some (l.erase it) := dbgDeallocate_finds hi it hit

/-- for every history in which `mmap` returns page-aligned addresses of mappings not in use and only pointers of live
    blocks are given back, the manager never reaches `allocation_error` and `DInv` holds afterwards -/
theorem debug_history_never_aborts (sz page : Nat) (hsz : 0 < sz) (hp : 0 < page) (hp2 : 2 * page ≤ sizeMax)
    (ops : List DOp) (hv : DValid sz page [] ops) :
    ∃ l, dbgRun sz page [] ops = some l ∧ DInv page l :=
  dbgRun_ok hsz hp hp2 ops [] ⟨by simp, by simp⟩ hv

-- allocate one page, then 100 bytes, give the first (page-multiple) block back, then the second
example : dbgRun 1 4096 [] [.alloc 4096 (some 0x10000), .alloc 100 (some 0x30000), .free 0x10000,
    .free (0x30000 + 4096 - 100)] = some [] := by decide

/-! ## debugalign.hh -/

/-- `isAligned(p, align)` is divisibility -/
theorem isAligned_iff (p a : Nat) : isAligned p a = true ↔ a ∣ p := isAligned_iff' p a

example : isAligned 96 32 = true ∧ isAligned 104 32 = false := by decide

end DV.C15
