import DuneVerif.Proofs.C06Sched
import DuneVerif.Proofs.C06System
import DuneVerif.Proofs.C06Rank
import DuneVerif.Proofs.C06Fix
import DuneVerif.Proofs.C06Life
import DuneVerif.Proofs.C06Quiet
import DuneVerif.Proofs.C06Tie
/-!
# C06 — VariableSizeCommunicator delivers every item intact for any sizes / buffer size, and returns

All statements are about the executable model `DuneVerif/Model/C06.lean` (the code *with*
fixes/C06_zero_sizes_hang.patch, `repaired = true`) and hold for **all** index lists (repeated indices allowed), **all**
data handles `h` (what `gather(i)` writes is `h.data i`, `size(i) = (h.data i).length`, zero allowed), **all** buffer
sizes `B` that can hold the largest single index, fixed-size (`f ≥ 1`) and variable-size (`f = 0`) handles.  One
directed neighbour relation p → q is considered: `sendIdx` is p's list for q, `recvIdx` q's list for p; `forward` uses
(first list of p, second list of q), `backward` (second list of p, first list of q) — the statements do not depend on
which, hence hold for both directions (see `delivery_both_directions`).

`Fits h B f is` (Proofs/C06Send) is the precondition of the property:
  `f = 0 ∧ ∀ i ∈ is, h.size i ≤ B`   (variable size: every index fits into the buffer)   or
  `f ≠ 0 ∧ f ≤ B ∧ ∀ i ∈ is, h.size i = f`   (fixed size f ≥ 1 that fits).
-/
namespace DV.C06
variable {α : Type}

/-- the scatter calls the property demands: for every k the call `scatter(recvIdx[k], count, items)` with exactly the
    items gathered for `sendIdx[k]`, in order; an index without items gets no call (the canonical form of the
    harness also ignores `scatter(…, 0)` calls) -/
def expectedCalls (h : Handle α) (sendIdx recvIdx : List Nat) : List (Call α) :=
  (recvIdx.zip sendIdx).filterMap fun ji => if h.size ji.2 = 0 then none else some ⟨ji.1, h.size ji.2, h.data ji.2⟩

theorem callsOf_eq_expected (h : Handle α) : ∀ (sendIdx recvIdx : List Nat),
    callsOf h sendIdx recvIdx = expectedCalls h sendIdx recvIdx := by
  intro is
  induction is with
  | nil => intro js; cases js <;> simp [expectedCalls]
  | cons i is ih =>
    intro js
    cases js with
    | nil => simp [callsOf, expectedCalls]
    | cons j js =>
      have := ih js
      by_cases hz : h.size i = 0 <;> simp_all [callsOf, expectedCalls]

/-- the send tracker `setupInterfaceTrackers` creates, and all messages it produces -/
abbrev senderRun (h : Handle α) (B f q : Nat) (sendIdx : List Nat) : SendRun α :=
  sendAll h (sendIdx.length + 1) true (Tracker.mk' q sendIdx f) (MessageBuffer.new B)

/-! ## pack rounds -/

/-- **pack_rounds_concat.**  The messages of all rounds joined are exactly all items of all send indices in order
    (nothing lost, duplicated, reordered); every message is non-empty and holds at most `B` items; the sender visits
    all indices and never gets stuck. -/
theorem pack_rounds_concat (h : Handle α) (B f q : Nat) (sendIdx : List Nat) (hf : Fits h B f sendIdx) :
    (senderRun h B f q sendIdx).messages.flatten = sendIdx.flatMap h.data ∧
    (∀ m ∈ (senderRun h B f q sendIdx).messages, m ≠ [] ∧ m.length ≤ B) ∧
    (senderRun h B f q sendIdx).tracker.finished = true ∧
    (senderRun h B f q sendIdx).stuck = false := by
  obtain ⟨hm, hfin, hst⟩ := sendAll_sendT h B f (sendIdx.length + 1) sendIdx 0 q (MessageBuffer.new B) true
    (Nat.le_refl _) rfl hf (Or.inl rfl)
  simp only [senderRun, mk'_send, hm, hfin, hst]
  exact ⟨msgsOf_flatten h B f _ sendIdx (Nat.le_refl _) hf, msgsOf_mem h B f _ sendIdx hf, trivial, trivial⟩

example : Fits (⟨false, fun i => List.replicate (i % 3) i⟩ : Handle Nat) 2 0 [0, 1, 2, 5, 3] :=
  Or.inl ⟨rfl, by decide⟩
example : (senderRun (⟨false, fun i => List.replicate (i % 3) i⟩ : Handle Nat) 2 0 7 [0, 1, 2, 5, 3]).messages
    = [[1], [2, 2], [5, 5]] := by decide

/-- **rounds_whole_indices.**  An index is never split: the index list is cut into consecutive blocks (non-empty if the
    list is), and the messages are the data of whole blocks — only a block without any item produces no message. -/
theorem rounds_whole_indices (h : Handle α) (B f q : Nat) (sendIdx : List Nat) (hf : Fits h B f sendIdx) :
    ∃ blocks : List (List Nat), blocks.flatten = sendIdx ∧ (sendIdx ≠ [] → ∀ a ∈ blocks, a ≠ []) ∧
      (∀ a ∈ blocks, (a.flatMap h.data).length ≤ B) ∧
      (senderRun h B f q sendIdx).messages = (blocks.map fun a => a.flatMap h.data).filter fun m => !m.isEmpty := by
  obtain ⟨hm, _, _⟩ := sendAll_sendT h B f (sendIdx.length + 1) sendIdx 0 q (MessageBuffer.new B) true
    (Nat.le_refl _) rfl hf (Or.inl rfl)
  refine ⟨blocks h B f (sendIdx.length + 1) sendIdx, blocks_flatten h B f _ sendIdx (Nat.le_refl _) hf,
    fun hne => blocks_ne_nil h B f _ sendIdx hf hne, blocks_total_le h B f _ sendIdx hf, ?_⟩
  simp only [senderRun, mk'_send, hm, msgsOf]

/-! ## unpack matches pack -/

/-- **unpack_matches_pack** (variable-size handle).  After the size pre-exchange the receiver partitions the stream of
    messages exactly as the sender packed it: the scatter calls are, in order, `(recvIdx[k], size, items of sendIdx[k])`
    for every k with a non-empty item list, with the right count; zero-size indices are skipped consistently on both
    sides; and the whole exchange returns (all sends and receives complete, all trackers finished). -/
theorem unpack_matches_pack (h : Handle α) (B : Nat) (hB : 0 < B) (sendIdx recvIdx : List Nat)
    (hl : recvIdx.length = sendIdx.length) (hfit : ∀ i ∈ sendIdx, h.size i ≤ B) :
    (communicatePairVar true B h sendIdx recvIdx).calls = expectedCalls h sendIdx recvIdx ∧
    (communicatePairVar true B h sendIdx recvIdx).returns = true := by
  obtain ⟨h1, h2, _, _⟩ := communicatePairVar_spec h B hB sendIdx recvIdx hl hfit
  exact ⟨by rw [h1, callsOf_eq_expected], h2⟩

example : (communicatePairVar true 2 (⟨false, fun i => List.replicate (i % 3) i⟩ : Handle Nat) [0, 1, 2, 5, 3] [9, 8, 7, 7, 6]).calls
    = [⟨8, 1, [1]⟩, ⟨7, 2, [2, 2]⟩, ⟨7, 2, [5, 5]⟩] := by decide

/-- **unpack_matches_pack_fixed** (fixed-size handle with `f ≥ 1` items per index; `f` reaches the receiver through
    the scalar exchange of `sendFixedSize`). -/
theorem unpack_matches_pack_fixed (h : Handle α) (B f : Nat) (sendIdx recvIdx : List Nat)
    (hl : recvIdx.length = sendIdx.length) (hf0 : f ≠ 0) (hfB : f ≤ B) (hsz : ∀ i ∈ sendIdx, h.size i = f) :
    (communicatePairFixed true B h f sendIdx recvIdx).calls = expectedCalls h sendIdx recvIdx ∧
    (communicatePairFixed true B h f sendIdx recvIdx).returns = true := by
  obtain ⟨h1, h2, _, _⟩ := communicatePairFixed_spec h B f sendIdx recvIdx hl hf0 hfB hsz
  exact ⟨by rw [h1, callsOf_eq_expected], h2⟩

example : (communicatePairFixed true 5 (⟨true, fun i => [i, i + 100]⟩ : Handle Nat) 2 [3, 3, 4] [0, 1, 0]).calls
    = [⟨0, 2, [3, 103]⟩, ⟨1, 2, [3, 103]⟩, ⟨0, 2, [4, 104]⟩] := by decide

/-! ## size pre-exchange -/

/-- **size_exchange_roundtrip.**  `communicateSizes` (rounds of `B` sizes per message, for every `B ≥ 1`) leaves in the
    receiver's size array exactly the sender's `size(i)` of every send index, in order, and completes; the number of
    receives posted equals the number of size messages. -/
theorem size_exchange_roundtrip (h : Handle α) (B : Nat) (hB : 0 < B) (sendIdx recvIdx : List Nat)
    (hl : recvIdx.length = sendIdx.length) :
    (exchangeSizes true B h sendIdx recvIdx).2.acc = sendIdx.map h.size ∧
    (exchangeSizes true B h sendIdx recvIdx).2.ok = true ∧
    (exchangeSizes true B h sendIdx recvIdx).1.stuck = false ∧
    (exchangeSizes true B h sendIdx recvIdx).2.posted = (exchangeSizes true B h sendIdx recvIdx).1.messages.length := by
  obtain ⟨h1, h2, h3, _, h5, _⟩ := exchangeSizes_spec h B hB sendIdx recvIdx hl
  exact ⟨h1, h2, h3, h5⟩

example : (exchangeSizes true 2 (⟨false, fun i => List.replicate i 0⟩ : Handle Nat) [4, 0, 1, 3, 0] [1, 1, 1, 1, 1]).2.acc
    = [4, 0, 1, 3, 0] := by decide

/-- **size_exchange_roundtrip_fixed** (fixed-size handles).  Whatever value `own` the receiver created its receive tracker
    with (its own handle's size, or the one carried over from the previous neighbour), once the scalar message of
    `sendFixedSize` has been delivered and `receiveSizeAndSetupReceive` has run, the data machine of the link is in
    exactly the state in which both sides work with the **sender's** size `f` — the state from which
    `all_schedules_terminate` and `rank_level_fixed_size` show delivery.  (`fixInitDt`: sender started, receiver's
    tracker still holding `own`; `seenRecv … f`: the tracker's `fixedSize` overwritten by the message, zero indices
    skipped, data receive posted if indices are left.) -/
theorem size_exchange_roundtrip_fixed (B : Nat) (l : FLinkSpec α) (hf : l.f ≠ 0) :
    seenRecv (fixInitDt B l) l.f = (dataInit B l.pair).state ∧
    (seenRecv (fixInitDt B l) l.f).rt.fixedSize = l.f :=
  ⟨seenRecv_init B l hf, by
    rw [seenRecv_init B l hf]
    cases hr : l.recvIdx <;>
      simp [dataInit, Pair.init, dataCfg, PairSpec.recvTracker, FLinkSpec.pair, hf, hr, setupRecv, Tracker.setFixedSize,
        Tracker.skipZeroIndices, Tracker.mk']⟩

/-- the receiver's own size (7) plays no role: the tracker ends with the announced 2 -/
example : (seenRecv (fixInitDt 5 (⟨0, 1, ⟨true, fun i => [i, i]⟩, 2, 7, [3, 4], [0, 1]⟩ : FLinkSpec Nat)) 2).rt.fixedSize = 2 ∧
    (fixInitDt 5 (⟨0, 1, ⟨true, fun i => [i, i]⟩, 2, 7, [3, 4], [0, 1]⟩ : FLinkSpec Nat)).rt.fixedSize = 7 := by decide

/-! ## message matching: the no-hang obligation -/

/-- **sent_eq_posted.**  The number of data messages p sends to q equals the number of receives q posts for p, in
    both modes (for the size messages see `size_exchange_roundtrip`).  With pre-posted non-blocking operations this is
    what lets every request complete. -/
theorem sent_eq_posted (h : Handle α) (B : Nat) (hB : 0 < B) (sendIdx recvIdx : List Nat)
    (hl : recvIdx.length = sendIdx.length) :
    ((∀ i ∈ sendIdx, h.size i ≤ B) →
      (communicatePairVar true B h sendIdx recvIdx).dataMessages = (communicatePairVar true B h sendIdx recvIdx).receivesPosted) ∧
    (∀ f, f ≠ 0 → f ≤ B → (∀ i ∈ sendIdx, h.size i = f) →
      (communicatePairFixed true B h f sendIdx recvIdx).dataMessages
        = (communicatePairFixed true B h f sendIdx recvIdx).receivesPosted) :=
  ⟨fun hfit => (communicatePairVar_spec h B hB sendIdx recvIdx hl hfit).2.2.1,
   fun f hf0 hfB hsz => (communicatePairFixed_spec h B f sendIdx recvIdx hl hf0 hfB hsz).2.2.1⟩

/-- the statement is sensitive: for the code *before* the repair (a receive is posted whenever indices are left) the
    all-zero interface of DESIGN.md section 6 #13 has 0 messages but 1 posted receive, and does not return -/
example : (communicatePairVar false 4 (⟨false, fun _ => []⟩ : Handle Nat) [0, 1] [0, 1]).dataMessages = 0 ∧
    (communicatePairVar false 4 (⟨false, fun _ => []⟩ : Handle Nat) [0, 1] [0, 1]).receivesPosted = 1 ∧
    (communicatePairVar false 4 (⟨false, fun _ => []⟩ : Handle Nat) [0, 1] [0, 1]).returns = false := by decide
example : (communicatePairVar true 4 (⟨false, fun _ => []⟩ : Handle Nat) [0, 1] [0, 1]).receivesPosted = 0 ∧
    (communicatePairVar true 4 (⟨false, fun _ => []⟩ : Handle Nat) [0, 1] [0, 1]).returns = true := by decide

/-! ## progress -/

/-- **progress_measure.**  Every round strictly decreases the sender's `indicesLeft` (so at most one round per index),
    and both the number of messages and the number of receives posted are bounded by the number of indices. -/
theorem progress_measure (h : Handle α) (B f q k : Nat) (sendIdx : List Nat) (b : MessageBuffer α) (hb : b.size = B)
    (hf : Fits h B f sendIdx) (hne : sendIdx ≠ []) :
    (setupSend h (sendT q k sendIdx f) b).tracker.indicesLeft < (sendT q k sendIdx f).indicesLeft ∧
    (senderRun h B f q sendIdx).messages.length ≤ sendIdx.length := by
  obtain ⟨ht, _, _⟩ := setupSend_sendT h B f q k sendIdx b hb hf
  obtain ⟨hm, _, _⟩ := sendAll_sendT h B f (sendIdx.length + 1) sendIdx 0 q (MessageBuffer.new B) true
    (Nat.le_refl _) rfl hf (Or.inl rfl)
  refine ⟨by rw [ht]; simpa using round1_rest_length h B f sendIdx hf hne, ?_⟩
  simp only [senderRun, mk'_send, hm]
  exact msgsOf_length_le h B f _ sendIdx (Nat.le_refl _) hf

theorem progress_measure_recv (h : Handle α) (B : Nat) (hB : 0 < B) (sendIdx recvIdx : List Nat)
    (hl : recvIdx.length = sendIdx.length) (hfit : ∀ i ∈ sendIdx, h.size i ≤ B) :
    (communicatePairVar true B h sendIdx recvIdx).receivesPosted ≤ recvIdx.length := by
  obtain ⟨_, _, h3, h4⟩ := communicatePairVar_spec h B hB sendIdx recvIdx hl hfit
  rw [← h3, h4, hl]
  exact msgsOf_length_le h B 0 _ sendIdx (Nat.le_refl _) (Or.inl ⟨rfl, hfit⟩)

/-! ## the whole distributed communication, both directions -/

/-- **delivery_both_directions.**  For any number of ranks, any rank `q`, any neighbour entry `e` of `q`'s interface
    map and either direction (`fwd = true`: forward, `false`: backward): if the peer `e.rank` has exactly one entry `pe`
    for `q` (symmetric maps), its send list (first list forward / second list backward) is as long as `q`'s receive
    list, and the peer's handle respects the buffer size (variable size: every index to be sent fits; fixed size: one
    size `1 ≤ f ≤ B` for all indices in the peer's send lists), then what `q` scatters for this neighbour is exactly `expectedCalls`: the k-th
    receive index gets the items the peer gathered for its k-th send index — and the exchange returns.  The trackers
    are the ones `setupInterfaceTrackers` builds (with the `fixedsize` value carried from neighbour to neighbour). -/
theorem delivery_both_directions (B : Nat) (hB : 0 < B) (fwd : Bool) (ranks : List (RankData α)) (q : Nat)
    (e : IfaceEntry) (pd : RankData α) (hpd : ranks[e.rank]? = some pd)
    (pe : IfaceEntry) (hpe : pe ∈ pd.imap) (hrank : pe.rank = q) (huniq : ∀ x ∈ pd.imap, x.rank = q → x = pe)
    (hlen : (e.recv fwd).length = (pe.send fwd).length)
    (hvar : pd.handle.fixed = false → ∀ i ∈ pe.send fwd, pd.handle.size i ≤ B)
    (f : Nat) (hfix : pd.handle.fixed = true → f ≠ 0 ∧ f ≤ B ∧ ∀ x ∈ pd.imap, ∀ i ∈ x.send fwd, pd.handle.size i = f) :
    ∃ r, receiveFrom true B fwd ranks q e = some r ∧
      r.calls = expectedCalls pd.handle (pe.send fwd) (e.recv fwd) ∧ r.returns = true := by
  obtain ⟨ts, hfind, hts⟩ := find_peer_trackers pd.handle fwd q f pe pd.imap
    (if pd.handle.fixed then 1 else 0) (fun hx => (hfix hx).2.2) hpe huniq hrank (fun hx => Or.inl (by simp [hx]))
  simp only [receiveFrom, hpd, setupInterfaceTrackers, hfind]
  by_cases hx : pd.handle.fixed = true
  · obtain ⟨hf0, hfB, hall⟩ := hfix hx
    obtain ⟨hval, hne⟩ := hts hx
    have hfs0 : ts.1.fixedSize ≠ 0 := by rcases hval with h1 | h1 <;> omega
    have hfsB : ts.1.fixedSize ≤ B := by rcases hval with h1 | h1 <;> omega
    have hsz : ∀ i ∈ pe.send fwd, pd.handle.size i = ts.1.fixedSize := by
      intro i hi
      rw [hne (by intro e; rw [e] at hi; simp at hi)]
      exact hall pe hpe i hi
    obtain ⟨h1, h2, _, _⟩ := communicatePairFixed_spec pd.handle B ts.1.fixedSize (pe.send fwd) (e.recv fwd) hlen hfs0
      hfsB hsz
    exact ⟨_, by simp [hx], by rw [h1, callsOf_eq_expected], h2⟩
  · have hx' : pd.handle.fixed = false := by simpa using hx
    obtain ⟨h1, h2, _, _⟩ := communicatePairVar_spec pd.handle B hB (pe.send fwd) (e.recv fwd) hlen (hvar hx')
    exact ⟨_, by simp [hx'], by rw [h1, callsOf_eq_expected], h2⟩

/-- non-vacuity (backward, two ranks): rank 1 sends its *second* list `[0,1]` (sizes 0 and 1) into rank 0's *first*
    list `[2,0]` -/
example :
    let h0 : Handle Nat := ⟨false, fun i => List.replicate i (100 + i)⟩
    let h1 : Handle Nat := ⟨false, fun i => List.replicate (i % 2) (200 + i)⟩
    let ranks : List (RankData Nat) := [⟨[⟨1, [2, 0], [1]⟩], h0⟩, ⟨[⟨0, [3], [0, 1]⟩], h1⟩]
    (receiveFrom true 2 false ranks 0 ⟨1, [2, 0], [1]⟩).map (fun r => (r.calls, r.returns))
      = some ([⟨0, 1, [201]⟩], true) := by decide

/-! ## all schedules (Tier B)

The composed system of one phase is the free interleaving of the per-neighbour small-step machines (`Pair.step`:
`deliver` = MPI matches the oldest message of the FIFO channel p → q with the posted receive; `sendDone`/`recvDone` =
`MPI_Testsome` reports the completed request and `checkAndContinue` runs its body for that neighbour), over **all**
directed neighbour relations of **all** ranks (`specs`, any number of them, any process count).  A schedule is any
list of (component, action); actions that are not enabled cannot be scheduled. -/

/-- **all_schedules_terminate** (data phase, fixed- and variable-size neighbour relations mixed freely).
    Every schedule is finite — its length is bounded by `Σ (3·(#send indices + #receive indices) + 4)` — and a schedule
    that cannot be extended (no action of any component enabled: a maximal execution) ends with every component in its
    final state (both counters counted down, nothing in flight, send and receive tracker finished) **and with the same
    scatter calls whatever the schedule was**: component `i` has made exactly `expectedCalls` of `specs[i]`. -/
theorem all_schedules_terminate (B : Nat) (specs : List (PairSpec α))
    (hv : ∀ p ∈ specs, p.recvIdx.length = p.sendIdx.length ∧ Fits p.h B p.f p.sendIdx)
    (sched : List (Nat × Action)) (ss' : List (Comp α (List (Call α))))
    (he : sysExec (specs.map (dataInit B)) sched = some ss') :
    sched.length ≤ (specs.map fun p => 3 * (p.sendIdx.length + p.recvIdx.length) + 4).sum ∧
    ((∀ i a, sysStep ss' i a = none) →
      (∀ x ∈ ss', x.state.final = true) ∧
      ss'.map (fun x => x.state.acc) = specs.map (fun p => expectedCalls p.h p.sendIdx p.recvIdx)) := by
  have hinit : All2 (GoodData B) specs (specs.map (dataInit B)) :=
    forall₂_map_right (dataInit B) specs fun p hp => dataInit_good B p (hv p hp).1 (hv p hp).2
  obtain ⟨hrel, hm⟩ := sys_exec_rel (goodData_closed B) specs sched _ ss' hinit he
  have hb := sysMeasure_map_le (dataInit B) (fun p => 3 * (p.sendIdx.length + p.recvIdx.length) + 4) specs
    (fun p hp => dataInit_measure_le B p (hv p hp).2)
  refine ⟨by omega, fun hstuck => ?_⟩
  have hfin := sys_stuck_rel (goodData_closed B) specs ss' hrel hstuck
  constructor
  · have hall : ∀ (l : List (PairSpec α)) (m : List (Comp α (List (Call α)))),
        All2 (fun p x => GoodData B p x ∧ x.state.final = true) l m → ∀ x ∈ m, x.state.final = true := by
      intro l m h
      induction h with
      | nil => intro x hx; simp at hx
      | cons hpx _ ih =>
        intro x hx
        rcases List.mem_cons.1 hx with h1 | h1
        · subst h1; exact hpx.2
        · exact ih x h1
    exact hall _ _ hfin
  · exact map_eq_of_forall₂ (fun x => x.state.acc) (fun p => expectedCalls p.h p.sendIdx p.recvIdx) specs ss' hfin
      (fun p x hpx => by rw [goodData_final_acc B p x hpx.1 hpx.2, callsOf_eq_expected])

/-- the same for the size pre-exchange phase of variable-size communications: every schedule terminates, and at the
    end every receiver's size array holds exactly the peer's sizes -/
theorem all_schedules_terminate_sizes (B : Nat) (hB : 0 < B) (specs : List (PairSpec α))
    (hv : ∀ p ∈ specs, p.recvIdx.length = p.sendIdx.length)
    (sched : List (Nat × Action)) (ss' : List (Comp Nat (List Nat)))
    (he : sysExec (specs.map (sizeInit B)) sched = some ss') :
    sched.length ≤ (specs.map fun p => 3 * (p.sendIdx.length + p.recvIdx.length) + 4).sum ∧
    ((∀ i a, sysStep ss' i a = none) →
      (∀ x ∈ ss', x.state.final = true) ∧
      ss'.map (fun x => x.state.acc) = specs.map (fun p => p.sendIdx.map p.h.size)) := by
  have hinit : All2 (GoodSize B) specs (specs.map (sizeInit B)) :=
    forall₂_map_right (sizeInit B) specs fun p hp => sizeInit_good B hB p (hv p hp)
  obtain ⟨hrel, hm⟩ := sys_exec_rel (goodSize_closed B hB) specs sched _ ss' hinit he
  have hb := sysMeasure_map_le (sizeInit B) (fun p => 3 * (p.sendIdx.length + p.recvIdx.length) + 4) specs
    (fun p _ => sizeInit_measure_le B hB p)
  refine ⟨by omega, fun hstuck => ?_⟩
  have hfin := sys_stuck_rel (goodSize_closed B hB) specs ss' hrel hstuck
  constructor
  · have hall : ∀ (l : List (PairSpec α)) (m : List (Comp Nat (List Nat))),
        All2 (fun p x => GoodSize B p x ∧ x.state.final = true) l m → ∀ x ∈ m, x.state.final = true := by
      intro l m h
      induction h with
      | nil => intro x hx; simp at hx
      | cons hpx _ ih =>
        intro x hx
        rcases List.mem_cons.1 hx with h1 | h1
        · subst h1; exact hpx.2
        · exact ih x h1
    exact hall _ _ hfin
  · exact map_eq_of_forall₂ (fun x => x.state.acc) (fun p => p.sendIdx.map p.h.size) specs ss' hfin
      (fun p x hpx => goodSize_final_acc B p x hpx.1 hpx.2)

/-- non-vacuity: a two-component system (one variable-size relation needing two rounds, one fixed-size relation), a
    complete schedule that interleaves them, and its final state -/
example :
    let specs : List (PairSpec Nat) :=
      [⟨⟨false, fun i => List.replicate i i⟩, 0, [2, 0, 1], [5, 6, 7]⟩, ⟨⟨true, fun i => [i]⟩, 1, [4, 4], [0, 1]⟩]
    ((sysExec (specs.map (dataInit 2))
        [(0, .deliver), (1, .deliver), (1, .recvDone), (0, .sendDone), (0, .recvDone), (1, .sendDone), (0, .deliver),
         (0, .recvDone), (0, .sendDone)]).map fun ss => ss.map fun x => (x.state.final, x.state.acc))
      = some [(true, [⟨5, 2, [2, 2]⟩, ⟨7, 1, [1]⟩]), (true, [⟨0, 1, [4]⟩, ⟨1, 1, [4]⟩])] := by decide


/-! ## the whole call on all ranks: size loop, data loop, counters, return

`VarSys` (Model/C06, "rank level") is the state of one `forward`/`backward` with a variable-size handle on **all** ranks:
per rank the program position (size loop / data loop / returned) and the two counters of the loop it is in
(`size_to_send`,`size_to_recv` resp. `no_to_send`,`no_to_recv`), per link (directed neighbour relation, any number of
them, self links included) the size-phase and the data-phase machine.  Ranks move at their own pace: a rank enters
its data loop (`advance`) as soon as *its own* size counters are zero, while neighbours may still exchange sizes; a
`sendDone`/`recvDone` is possible only for a rank that is in the corresponding loop with a non-zero counter
(`if(no_to_send) no_to_send -= check…`), and decrements the counter iff the request's tracker is finished.  Size
and data messages of a link share one tag, i.e. one FIFO (`sz.chan ++ dt.chan`).  A schedule is any list of
`GAct`s; actions that are not enabled cannot be scheduled. -/

theorem mem_links_get {γ δ : Type} {R : γ → δ → Prop} {ls : List γ} {xs : List δ} (h : Rel2 R ls xs) (x : δ) (hx : x ∈ xs) :
    ∃ l, R l x := by
  obtain ⟨i, hi, rfl⟩ := List.mem_iff_getElem.1 hx
  have hi' : i < ls.length := by rw [h.1]; exact hi
  exact ⟨ls[i], h.2 i ls[i] xs[i] (List.getElem?_eq_getElem hi') (List.getElem?_eq_getElem hi)⟩

/-- **rank_level_variable_size.**  For any number `n` of ranks and any links between them (matching list lengths, every
    index fits into the buffer), from the state in which every rank has entered `communicateSizes`:
    1. every schedule is finite (explicit bound);
    2. in every reachable state no size message can be matched with a data receive or vice versa
       (`confusable = false` for every link), although both use the same tag;
    3. in every reachable state the counters of every rank equal the number of its requests that are still open in the
       loop the rank is in — so no counter is ever decremented below zero, and a loop is left exactly when all its
       requests are closed;
    4. a state in which nothing is enabled (a maximal execution) is final: **every rank has returned**, nothing of any
       link is in flight or half done, and every link has made exactly the `expectedCalls` scatter calls — whatever
       the schedule was. -/
theorem rank_level_variable_size (B n : Nat) (hB : 0 < B) (specs : List (LinkSpec α)) (hv : ValidLinks B n specs)
    (sched : List GAct) (g' : VarSys α) (he : varExec B specs (varInit B n specs) sched = some g') :
    sched.length ≤ (specs.map fun l => 2 * (3 * (l.sendIdx.length + l.recvIdx.length) + 4)).sum + 2 * n ∧
    (∀ x ∈ g'.links, x.confusable = false) ∧
    (∀ p, p < n →
      (g'.phase.getD p 3 = 0 → g'.toSend.getD p 0 = countSel (sizeSendOpen p) specs g'.links ∧
                                g'.toRecv.getD p 0 = countSel (sizeRecvOpen p) specs g'.links) ∧
      (g'.phase.getD p 3 = 1 → g'.toSend.getD p 0 = countSel (dataSendOpen p) specs g'.links ∧
                                g'.toRecv.getD p 0 = countSel (dataRecvOpen p) specs g'.links)) ∧
    ((∀ a, varStep B specs g' a = none) →
      g'.final = true ∧
      g'.links.map (fun x => x.dt.acc) = specs.map (fun l => expectedCalls l.h l.sendIdx l.recvIdx)) := by
  obtain ⟨hI, hm⟩ := vexec_inv hB sched _ g' (varInit_inv B n hB specs hv) he
  have hb := varInit_measure B n hB specs
  refine ⟨by omega, ?_, fun p hp => ⟨hI.cnt0 p hp, hI.cnt1 p hp⟩, fun hstuck => ?_⟩
  · intro x hx
    obtain ⟨l, hl⟩ := mem_links_get hI.links x hx
    exact linkInv_not_confusable hl
  · obtain ⟨hph, hlk⟩ := vstuck_final hB hI hstuck
    constructor
    · simp only [VarSys.final, Bool.and_eq_true, List.all_eq_true]
      constructor
      · intro k hk
        obtain ⟨p, hp, rfl⟩ := List.mem_iff_getElem.1 hk
        have := hph p (by rw [← hI.lenP]; exact hp)
        simp only [List.getD_eq_getElem?_getD, List.getElem?_eq_getElem hp, Option.getD_some] at this
        simp [this]
      · intro x hx
        obtain ⟨i, hi, rfl⟩ := List.mem_iff_getElem.1 hx
        have hi' : i < specs.length := by rw [hI.links.1]; exact hi
        obtain ⟨h1, h2, _⟩ := hlk i specs[i] g'.links[i] (List.getElem?_eq_getElem hi') (List.getElem?_eq_getElem hi)
        simp [h1, h2]
    · apply List.ext_getElem?
      intro i
      rw [List.getElem?_map, List.getElem?_map]
      cases hl : specs[i]? with
      | none =>
        have : g'.links[i]? = none := by
          rw [List.getElem?_eq_none_iff] at hl ⊢
          rw [← hI.links.1]; exact hl
        simp [this]
      | some l =>
        obtain ⟨x, hx, _⟩ := hI.links.get hl
        obtain ⟨_, _, h3⟩ := hlk i l x hl hx
        simp [hx, h3, callsOf_eq_expected]

/-- non-vacuity: two ranks, link 0 → 1 (sizes 2,0,1 with `B = 2`: two data rounds, two size rounds) and link 1 → 0; in this
    complete schedule rank 0 enters its data loop and sends data while rank 1 is still receiving sizes -/
example :
    let specs : List (LinkSpec Nat) :=
      [⟨0, 1, ⟨false, fun i => List.replicate i i⟩, [2, 0, 1], [5, 6, 7]⟩,
       ⟨1, 0, ⟨false, fun i => List.replicate (i % 2) (10 + i)⟩, [3], [4]⟩]
    ((varExec 2 specs (varInit 2 2 specs)
        [.size 1 .deliver, .size 1 .sendDone, .size 1 .recvDone, .size 0 .deliver, .size 0 .sendDone, .size 0 .recvDone,
         .size 0 .deliver, .size 0 .sendDone, .advance 0, .size 0 .recvDone, .advance 1, .data 0 .deliver,
         .data 0 .sendDone, .data 0 .recvDone, .data 0 .deliver, .data 0 .recvDone, .data 0 .sendDone, .data 1 .deliver,
         .data 1 .sendDone, .data 1 .recvDone, .ret 0, .ret 1]).map fun g => (g.final, g.links.map fun x => x.dt.acc))
      = some (true, [[⟨5, 2, [2, 2]⟩, ⟨7, 1, [1]⟩], [⟨4, 1, [13]⟩]]) := by decide

/-- the guards are real: rank 1 cannot leave its size loop while a size receive is open, and a rank in its size loop
    cannot process data completions -/
example :
    let specs : List (LinkSpec Nat) :=
      [⟨0, 1, ⟨false, fun i => List.replicate i i⟩, [2, 0, 1], [5, 6, 7]⟩]
    (varStep 2 specs (varInit 2 2 specs) (.advance 1)).isNone = true ∧
    (varStep 2 specs (varInit 2 2 specs) (.data 0 .sendDone)).isNone = true ∧
    (varStep 2 specs (varInit 2 2 specs) (.ret 0)).isNone = true := by decide


/-! ## the whole call on all ranks, fixed-size handles

`FixSys` (Model/C06Fix) is the state of one `forward`/`backward` with a fixed-size handle on all ranks: per rank
"in the loop" / "returned" and the three counters `no_size_to_recv`, `no_to_send`, `no_to_recv` (initialised as the
code does: number of neighbours, of non-empty send lists, of non-empty receive lists); per link the scalar handshake
of `sendFixedSize` (pending / matched / seen), the current `fixedSize` of the receive tracker, and the data machine
whose receiver side starts only when the scalar has been seen.  `ret p` needs all three counters zero **and** every
scalar send of `p` matched (the final `MPI_Waitall`). -/

/-- **rank_level_fixed_size.**  For any number `n` of ranks and any links (matching list lengths, one size `1 ≤ f ≤ B`
    per send list; the sizes of different ranks may differ, and so may the receivers' own values):
    1. every schedule is finite (explicit bound);
    2. in every reachable state the three counters of every rank still in its loop equal the numbers of scalars not yet
       seen, of open send requests and of open receive lists — no counter is decremented below zero and the loop is
       left exactly when everything is closed;
    3. a state in which nothing is enabled is final: every rank has returned (after its `MPI_Waitall`), every scalar has
       been received and processed, nothing is in flight, and every link has made exactly the `expectedCalls` scatter
       calls with the sender's item count. -/
theorem rank_level_fixed_size (B n : Nat) (specs : List (FLinkSpec α)) (hv : ValidFLinks B n specs)
    (sched : List FAct) (g' : FixSys α) (he : fixExec B specs (fixInit B n specs) sched = some g') :
    sched.length ≤ (specs.map fun l => 3 * (l.sendIdx.length + l.recvIdx.length) + 6).sum + 2 * n ∧
    (∀ p, p < n → g'.phase.getD p 3 = 0 →
      g'.noSize.getD p 0 = countSel (fNotSeen p) specs g'.links ∧
      g'.toSend.getD p 0 = countSel (fSendOpen p) specs g'.links ∧
      g'.toRecv.getD p 0 = countSel (fRecvOpen p) specs g'.links) ∧
    ((∀ a, fixStep B specs g' a = none) →
      g'.final = true ∧
      g'.links.map (fun x => x.dt.acc) = specs.map (fun l => expectedCalls l.h l.sendIdx l.recvIdx)) := by
  obtain ⟨hI, hm⟩ := fexec_inv sched _ g' (fixInit_inv B n specs hv) he
  have hb := fixInit_measure B n specs
  refine ⟨by omega, fun p hp => hI.cnt p hp, fun hstuck => ?_⟩
  obtain ⟨hph, hlk⟩ := fstuck_final hI hstuck
  constructor
  · simp only [FixSys.final, Bool.and_eq_true, List.all_eq_true]
    constructor
    · intro k hk
      obtain ⟨p, hp, rfl⟩ := List.mem_iff_getElem.1 hk
      have := hph p (by rw [← hI.lenP]; exact hp)
      simp only [List.getD_eq_getElem?_getD, List.getElem?_eq_getElem hp, Option.getD_some] at this
      simp [this]
    · intro x hx
      obtain ⟨i, hi, rfl⟩ := List.mem_iff_getElem.1 hx
      have hi' : i < specs.length := by rw [hI.links.1]; exact hi
      obtain ⟨h1, h2, _⟩ := hlk i specs[i] g'.links[i] (List.getElem?_eq_getElem hi') (List.getElem?_eq_getElem hi)
      simp [h1, h2]
  · apply List.ext_getElem?
    intro i
    rw [List.getElem?_map, List.getElem?_map]
    cases hl : specs[i]? with
    | none =>
      have : g'.links[i]? = none := by
        rw [List.getElem?_eq_none_iff] at hl ⊢
        rw [← hI.links.1]; exact hl
      simp [this]
    | some l =>
      obtain ⟨x, hx, _⟩ := hI.links.get hl
      obtain ⟨_, _, h3⟩ := hlk i l x hl hx
      simp [hx, h3, callsOf_eq_expected]

/-- non-vacuity: rank 0's handle has 2 items per index, rank 1's has 3 (each receive tracker is created with the
    receiver's own size and corrected by the scalar); link 0 → 1 needs two data rounds with `B = 5`; rank 1 also has
    an empty interface with itself.  The initial counters are (neighbours, non-empty send lists, non-empty receive
    lists) per rank. -/
example :
    let specs : List (FLinkSpec Nat) :=
      [⟨0, 1, ⟨true, fun i => [i, i + 100]⟩, 2, 3, [4, 5, 4], [0, 1, 2]⟩, ⟨1, 0, ⟨true, fun i => [i, i, i]⟩, 3, 2, [7], [9]⟩,
       ⟨1, 1, ⟨true, fun i => [i, i, i]⟩, 3, 3, [], []⟩]
    ((fixInit 5 2 specs).noSize, (fixInit 5 2 specs).toSend, (fixInit 5 2 specs).toRecv) = ([1, 2], [1, 1], [1, 1]) ∧
    ((fixExec 5 specs (fixInit 5 2 specs)
        [.scalar 1, .seen 1, .data 1 .deliver, .data 1 .sendDone, .data 1 .recvDone, .scalar 0, .scalar 2, .seen 0, .seen 2,
         .data 0 .deliver, .data 0 .sendDone, .data 0 .recvDone, .data 0 .deliver, .data 0 .recvDone, .data 0 .sendDone,
         .ret 0, .ret 1]).map fun g => (g.final, g.links.map fun x => x.dt.acc))
      = some (true, [[⟨0, 2, [4, 104]⟩, ⟨1, 2, [5, 105]⟩, ⟨2, 2, [4, 104]⟩], [⟨9, 3, [7, 7, 7]⟩], []]) := by decide

/-- the guards are real: before the scalar of link 0 is matched rank 0 cannot return (`MPI_Waitall`), and rank 1 cannot
    process a scalar that has not arrived -/
example :
    let specs : List (FLinkSpec Nat) := [⟨0, 1, ⟨true, fun i => [i]⟩, 1, 1, [], []⟩]
    (fixStep 5 specs (fixInit 5 2 specs) (.ret 0)).isNone = true ∧
    (fixStep 5 specs (fixInit 5 2 specs) (.seen 0)).isNone = true ∧
    ((fixStep 5 specs (fixInit 5 2 specs) (.scalar 0)).bind fun g => fixStep 5 specs g (.ret 0)).isSome = true := by decide

/-! ## object histories (round three)

The buffer size `B` and the interface map of the theorems above are data members of the object the call is made on
(`maxBufferSize_`, `interface_`), and the messages travel on its private communicator `communicator_`, a duplicate of
the communicator the user chose.  The object may have been built by any of the constructors, copied and assigned to
any number of times (Model/C06Life.lean). -/

/-- **object_histories.**  For every program of constructor calls (with or without a buffer size argument, `dflt` being
    the default: 32768 or the value of DUNE_PARALLEL_MAX_COMMUNICATION_BUFFER_SIZE; on any of the `users` communicators
    the user owns), copy constructions, assignments (self-assignments included), destructions and communications:
    the class accepts exactly the programs the value semantics accepts, and afterwards
    (1) every object's buffer size, map and process group (the user communicator its own communicator descends from)
        are what value semantics says: a copy / an assignment takes over all three from its source, whatever the
        target was configured with before,
    (2) no MPI call ever got a communicator that was freed or never created,
    (3) every object owns a live communicator that is not one of the user's, no two objects share one (the class works
        on a private duplicate whatever was copied from what and destroyed since),
    (4) no communicator is leaked: the live handles are exactly the ones the live objects hold, once each. -/
theorem object_histories (users dflt : Nat) (prog : List LifeOp) :
    match lifeExec dflt (World.init users) prog, specExec users dflt (fun _ => none) prog with
    | some w, some σ =>
        (∀ s, (w.slots s).map w.cfg = σ s) ∧
        w.fault = false ∧
        (∀ s o, w.slots s = some o → o.comm ∈ w.liveComms ∧ users ≤ o.comm) ∧
        (∀ s t o o', w.slots s = some o → w.slots t = some o' → o.comm = o'.comm → s = t) ∧
        (∀ c ∈ w.liveComms, ∃ s o, w.slots s = some o ∧ o.comm = c) ∧ w.liveComms.Nodup
    | none, none => True
    | _, _ => False := by
  have h := lifeExec_inv dflt prog (World.init users) (fun _ => none) (LifeInv.init users)
  have hu : (World.init users).users = users := rfl
  rw [hu] at h
  cases h1 : lifeExec dflt (World.init users) prog <;> cases h2 : specExec users dflt (fun _ => none) prog <;>
    rw [h1, h2] at h
  · trivial
  · exact h
  · exact h
  · obtain ⟨h, hw⟩ := h
    refine ⟨h.cfg, h.nofault, fun s o hs => ⟨h.comm.alive s o hs, ?_⟩, h.comm.priv, h.comm.noleak, h.comm.nodup⟩
    have := (h.comm.fresh _ (h.comm.alive s o hs)).1
    rw [hw] at this
    exact this

/-- non-vacuity, and the history the round-two check never produced: slot 0 is built with a buffer of 2 items over a
    decoy map (1) on the user's second communicator (1), used, then assigned from an object with buffer 16 over the
    case's map (0) on the first communicator (0), whose original is destroyed afterwards: slot 0 then has buffer 16,
    map 0 and the process group of communicator 0, on a handle of its own (4; handles 2 and 3 were freed). -/
example :
    (lifeExec 32768 (World.init 2)
        [.construct 0 (some 2) 1 1, .use 0, .construct 1 (some 16) 0 0, .assign 0 0, .assign 0 1, .destroy 1, .use 0]).map
      (fun w => ((w.slots 0).map fun o => (o, objCfg w.origin o), w.slots 1, w.liveComms, w.fault))
      = some (some (⟨16, 0, 4⟩, (16, 0, 0)), none, [4], false) := by decide

/-- the model notices what the invariant excludes: an `operator=` without the self-assignment test would free its own
    communicator and duplicate the dead handle (written out with the table operations) -/
example : ((((World.init 1).dup 0).2.free 1).dup 1).2.fault = true := by decide

/-- the default constructors take the configured default -/
example : ((lifeExec 5 (World.init 1) [.construct 3 none 0 0, .copy 0 3, .destroy 3]).bind (·.slots 0)).map
    (fun o => (o.maxBufferSize, o.interface)) = some (5, 0) := by decide

/-- **delivery_after_history.**  `delivery_both_directions` for a call made on an object with an arbitrary history: if
    value semantics says slot `s` holds an object with buffer size `Bs`, map `m` and process group `u`, the object the
    class actually has there carries exactly this configuration on a live private communicator, and with its
    `maxBufferSize` as the buffer size what rank `q` scatters for its neighbour entry `e` is `expectedCalls` and the
    exchange returns — provided `Bs` can hold the largest index (all ranks run the same program, so all use the same
    size, map and group). -/
theorem delivery_after_history (users dflt : Nat) (prog : List LifeOp) (w : World) (σ : SpecWorld)
    (hw : lifeExec dflt (World.init users) prog = some w) (hσ : specExec users dflt (fun _ => none) prog = some σ)
    (s Bs m u : Nat) (hs : σ s = some (Bs, m, u)) (hB : 0 < Bs)
    (fwd : Bool) (ranks : List (RankData α)) (q : Nat)
    (e : IfaceEntry) (pd : RankData α) (hpd : ranks[e.rank]? = some pd)
    (pe : IfaceEntry) (hpe : pe ∈ pd.imap) (hrank : pe.rank = q) (huniq : ∀ x ∈ pd.imap, x.rank = q → x = pe)
    (hlen : (e.recv fwd).length = (pe.send fwd).length)
    (hvar : pd.handle.fixed = false → ∀ i ∈ pe.send fwd, pd.handle.size i ≤ Bs)
    (f : Nat) (hfix : pd.handle.fixed = true → f ≠ 0 ∧ f ≤ Bs ∧ ∀ x ∈ pd.imap, ∀ i ∈ x.send fwd, pd.handle.size i = f) :
    ∃ o, w.slots s = some o ∧ o.maxBufferSize = Bs ∧ o.interface = m ∧ w.origin o.comm = u ∧
      w.valid o.comm = true ∧ w.fault = false ∧
      ∃ r, receiveFrom true o.maxBufferSize fwd ranks q e = some r ∧
        r.calls = expectedCalls pd.handle (pe.send fwd) (e.recv fwd) ∧ r.returns = true := by
  have h := object_histories users dflt prog
  rw [hw, hσ] at h
  obtain ⟨hcfg, hfault, halive, _, _, _⟩ := h
  have hc := hcfg s
  rw [hs] at hc
  cases ho : w.slots s with
  | none => rw [ho] at hc; cases hc
  | some o =>
    rw [ho] at hc
    have hc' : objCfg w.origin o = (Bs, m, u) := by simpa using hc
    have hb : o.maxBufferSize = Bs := congrArg Prod.fst hc'
    have hm : o.interface = m := congrArg (fun x => x.2.1) hc'
    have hu : w.origin o.comm = u := congrArg (fun x => x.2.2) hc'
    refine ⟨o, rfl, hb, hm, hu, valid_of_mem w _ (halive s o ho).1, hfault, ?_⟩
    rw [hb]
    exact delivery_both_directions Bs hB fwd ranks q e pd hpd pe hpe hrank huniq hlen hvar f hfix

/-! ## a rank that has returned is quiet (round three)

Several calls on one communicator object (and an object may be used, assigned to, and used again) share the
communicator and the tags 933399 / 933881.  What keeps a call apart from the one before it on the same object: -/

/-- **returned_rank_quiescent** (variable size).  In every reachable state of the rank-level system, for every link
    `src → dst`:
    * if `src` has returned, its size and data send requests are null, nothing it sent is in the FIFO of the link, and
      `dst` has **no receive posted** on the link — so a message `src` sends in a later call cannot be matched with a
      receive of this call;
    * if `dst` has returned, it has no receive request on the link and the FIFO is empty — so a receive `dst` posts in a
      later call cannot get a message of this call;
    and a rank that has returned stays returned along every continuation, so both facts hold for the rest of the call
    whatever the other ranks still do. -/
theorem returned_rank_quiescent (B n : Nat) (hB : 0 < B) (specs : List (LinkSpec α)) (hv : ValidLinks B n specs)
    (sched : List GAct) (g' : VarSys α) (he : varExec B specs (varInit B n specs) sched = some g') :
    (∀ (i : Nat) (l : LinkSpec α) (x : LinkSt α), specs[i]? = some l → g'.links[i]? = some x →
      (g'.phase.getD l.src 3 = 2 →
        x.sz.sreq = .null ∧ x.dt.sreq = .null ∧ x.sz.chan = [] ∧ x.dt.chan = [] ∧
        x.sz.rreq.isPosted = false ∧ x.dt.rreq.isPosted = false) ∧
      (g'.phase.getD l.dst 3 = 2 → x.sz.rreq = .null ∧ x.dt.rreq = .null ∧ x.sz.chan = [] ∧ x.dt.chan = [])) ∧
    (∀ sched2 g'', varExec B specs g' sched2 = some g'' → ∀ p, g'.phase.getD p 3 = 2 → g''.phase.getD p 3 = 2) := by
  obtain ⟨hI, _⟩ := vexec_inv hB sched _ g' (varInit_inv B n hB specs hv) he
  refine ⟨fun i l x hl hx => ?_, fun sched2 g'' he2 => varExec_returned B specs sched2 g' g'' he2⟩
  have hL := hI.links.2 i l x hl hx
  exact ⟨linkInv_src_returned hL, linkInv_dst_returned hL⟩

/-- non-vacuity: two ranks, link 0 → 1 with two data rounds (`B = 2`, sizes 2 and 1) and the empty link 1 → 0; rank 0
    returns while rank 1 has not even processed the last message (`recvDone` still to come): the link is quiet
    (send request null, FIFO empty, nothing posted) although rank 1 is still in its data loop. -/
example :
    let h : Handle Nat := ⟨false, fun i => List.replicate (if i = 0 then 2 else 1) (10 + i)⟩
    let specs : List (LinkSpec Nat) := [⟨0, 1, h, [0, 1], [5, 6]⟩, ⟨1, 0, h, [], []⟩]
    ((varExec 2 specs (varInit 2 2 specs)
        [.size 0 .deliver, .size 0 .sendDone, .size 0 .recvDone, .advance 0, .advance 1, .data 0 .deliver,
         .data 0 .sendDone, .data 0 .recvDone, .data 0 .deliver, .data 0 .sendDone, .ret 0]).map fun g =>
      (g.phase, g.links.map fun x => (x.dt.sreq == .null, x.dt.chan.isEmpty, x.dt.rreq.isPosted)))
      = some ([2, 1], [(true, true, false), (true, true, false)]) := by decide

/-- **returned_rank_quiescent_fixed** (fixed size).  The same for `communicateFixedSize`: if `src` has returned, its
    scalar has been matched (`MPI_Waitall`), its data send request is null, the data FIFO is empty and `dst` has no data
    receive posted; if `dst` has returned, it has processed the scalar, has no data receive request and the FIFO is
    empty; and a returned rank stays returned. -/
theorem returned_rank_quiescent_fixed (B n : Nat) (specs : List (FLinkSpec α)) (hv : ValidFLinks B n specs)
    (sched : List FAct) (g' : FixSys α) (he : fixExec B specs (fixInit B n specs) sched = some g') :
    (∀ (i : Nat) (l : FLinkSpec α) (x : FLinkSt α), specs[i]? = some l → g'.links[i]? = some x →
      (g'.phase.getD l.src 3 = 1 →
        x.sc ≠ .pending ∧ x.dt.sreq = .null ∧ x.dt.chan = [] ∧ x.dt.rreq.isPosted = false) ∧
      (g'.phase.getD l.dst 3 = 1 → x.sc = .seen ∧ x.dt.rreq = .null ∧ x.dt.chan = [])) ∧
    (∀ sched2 g'', fixExec B specs g' sched2 = some g'' → ∀ p, g'.phase.getD p 3 = 1 → g''.phase.getD p 3 = 1) := by
  obtain ⟨hI, _⟩ := fexec_inv sched _ g' (fixInit_inv B n specs hv) he
  refine ⟨fun i l x hl hx => ?_, fun sched2 g'' he2 => fixExec_returned B specs sched2 g' g'' he2⟩
  have hL := hI.links.2 i l x hl hx
  exact ⟨flinkInv_src_returned hL, flinkInv_dst_returned hL⟩

/-- non-vacuity: rank 1 (one index of 3 items for rank 0; from rank 0 only the scalar) returns while rank 0 has not yet
    processed the data message it received (`recvDone` of link 0 still to come): link 1 → 0 is already quiet. -/
example :
    let specs : List (FLinkSpec Nat) :=
      [⟨1, 0, ⟨true, fun i => [i, i, i]⟩, 3, 2, [7], [9]⟩, ⟨0, 1, ⟨true, fun i => [i, i]⟩, 2, 3, [], []⟩]
    ((fixExec 5 specs (fixInit 5 2 specs)
        [.scalar 0, .scalar 1, .seen 0, .seen 1, .data 0 .deliver, .data 0 .sendDone, .ret 1]).map fun g =>
      (g.phase, g.links.map fun x => (x.sc, x.dt.sreq == .null, x.dt.chan.isEmpty, x.dt.rreq.isPosted)))
      = some ([0, 1], [(.seen, true, true, false), (.seen, true, true, false)]) := by decide

/-! ## Round four: the model functions are what the source says now

`DuneVerif/Gen/C06.lean` is regenerated from variablesizecommunicator.hh on every run (tools/translators/tr_c06.py):
every function below is the translation of the C++ body (conditions, bounds, statement order, arguments).  The
`src_*` theorems say that, for **all** inputs, the generated definitions are the hand-written model functions all
theorems above are about; rewriting with them transfers every theorem above to the generated definitions. -/

/-- **src_tracker_buffer.**  `MessageBuffer::hasSpaceForItems`, the two `MessageBuffer` constructors (a buffer built or
    *copied* — the buffer vectors are filled by copy construction — for size `B` has `size_ = B`, at least `B` cells and
    the position 0 resp. the original's), `InterfaceTracker::finished / indicesLeft / offset /
    skipZeroIndices / moveToNextIndex / increment` as read from the source are the model's, for every buffer and every
    tracker (any position, with or without a size array, sizes of any length). -/
theorem src_tracker_buffer (b : MessageBuffer α) (n : Nat) (t : Tracker) :
    Gen.hasSpaceForItems b.position b.size n = b.hasSpaceForItems n ∧
    Gen.resetPosition = b.reset.position ∧
    (∀ B p, B ≤ (Gen.ctorBuffer B p).1 ∧ (Gen.ctorBuffer B p).2.1 = B ∧ (Gen.ctorBuffer B p).2.2 = 0) ∧
    (∀ B p, B ≤ (Gen.copyBuffer B p).1 ∧ (Gen.copyBuffer B p).2.1 = B ∧ (Gen.copyBuffer B p).2.2 = p) ∧
    Gen.trackerFinished t.index t.ifaceSize = t.finished ∧
    Gen.indicesLeft t.index t.ifaceSize = t.indicesLeft ∧
    Gen.trackerOffset t.index = t.offset ∧
    Gen.skipZeroIndices t = t.skipZeroIndices ∧
    Gen.moveToNextIndex t = t.moveToNextIndex ∧
    Gen.increment t n = t.increment n :=
  ⟨gen_hasSpace b n, gen_resetPosition, gen_ctorBuffer, gen_copyBuffer, gen_finished t, gen_indicesLeft t, gen_offset t, gen_skipZeroIndices t,
   gen_moveToNextIndex t, gen_increment t n⟩

/-- non-vacuity: the generated `skipZeroIndices` really walks (two zero-size indices skipped, stops at size 4), the
    generated `moveToNextIndex` advances and skips, `hasSpaceForItems` accepts an exact fit and rejects one more. -/
example : ((Gen.skipZeroIndices ⟨0, 3, [7, 8, 9, 6], true, [0, 0, 4, 0], 0⟩).index,
           (Gen.moveToNextIndex ⟨0, 0, [7, 8, 9, 6], true, [2, 0, 0, 1], 0⟩).iface,
           Gen.hasSpaceForItems 2 5 3, Gen.hasSpaceForItems 2 5 4) = (5, [6], true, false) := by decide

/-- **src_pack_unpack.**  `PackEntries`, `UnpackEntries` and `UnpackSizeEntries` as read from the source (both branches,
    `noIndices`, the loop bounds, the `hasSpaceForItems` test, the statements of the loop bodies in their order, the
    arguments of `gather` / `scatter` / `std::copy`, the returned count) compute exactly `packEntries`,
    `unpackEntries`, `unpackSizeEntries` — for every handle, tracker, buffer, `MPI_Get_count` value and call history. -/
theorem src_pack_unpack (h : Handle α) (t : Tracker) (b : MessageBuffer α) (count : Nat) (cs : List (Call α))
    (bs : MessageBuffer Nat) (dst : List Nat) :
    Gen.packEntries h t b = packEntries h t b ∧
    Gen.unpackEntries t b count cs = unpackEntries t b count cs ∧
    Gen.unpackSizeEntries t bs dst = unpackSizeEntries t bs dst :=
  ⟨gen_packEntries h t b, gen_unpackEntries t b count cs, gen_unpackSizeEntries t bs dst⟩

/-- non-vacuity: the generated `PackEntries` packs the indices 2 and 1 (3 items) into a buffer of 3 and stops before
    index 3; the generated `UnpackEntries` hands the 3 items to the receive indices 5 and 6 with counts 2 and 1;
    fixed size 2 in a buffer of 5: two indices per message. -/
example :
    let h : Handle Nat := ⟨false, fun i => List.replicate i (10 + i)⟩
    let r := Gen.packEntries h (Tracker.mk' 0 [2, 1, 3] 0) (MessageBuffer.new 3)
    (r.1, r.2.1.iface, r.2.2.cells,
     (Gen.unpackEntries ⟨0, 0, [5, 6, 7], true, [2, 1, 3], 0⟩ ((MessageBuffer.new 3).received r.2.2.cells) 3 []).2.2,
     (Gen.packEntries (⟨true, fun i => [i, i]⟩ : Handle Nat) (Tracker.mk' 0 [1, 2, 3] 2) (MessageBuffer.new 5)).1)
      = (3, [3], [12, 12, 11], [⟨5, 2, [12, 12]⟩, ⟨6, 1, [11]⟩], 4) := by decide

/-- **src_setup_requests.**  `SetupSendRequest` (reset, `PackEntries`, the loop over trailing zero-size indices, the guard
    `if(size)` and the count of `MPI_Issend`) and `SetupRecvRequest` (reset, `skipZeroIndices`, the guard
    `if(indicesLeft())`, count = the whole buffer) as read from the source are `setupSend` and the *repaired*
    `setupRecv`; `SizeDataHandle` as read from the source (fixed size, one item per index: the user handle's `size(i)`)
    is the model's `sizeHandle`, and it writes as many items as it announces. -/
theorem src_setup_requests {β : Type} (h : Handle α) (t : Tracker) (b : MessageBuffer α) (b' : MessageBuffer β) (B : Nat) :
    Gen.setupSend h t b = setupSend h t b ∧
    Gen.setupRecv t b' = setupRecv true t b' ∧
    Gen.recvCount B = B ∧
    sizeHandle h = ⟨Gen.sizeHandleFixed, fun i => Gen.sizeHandleGather h.size i⟩ ∧
    (∀ i, (Gen.sizeHandleGather h.size i).length = Gen.sizeHandleSize i) :=
  ⟨gen_setupSend h t b, gen_setupRecv t b', gen_recvCount B, by simp [sizeHandle, Gen.sizeHandleFixed, Gen.sizeHandleGather],
   fun i => by simp [Gen.sizeHandleGather, Gen.sizeHandleSize]⟩

/-- non-vacuity: a message is produced and the trailing zero-size index is skipped; a receive tracker whose remaining
    sizes are all zero posts no receive (the repaired behaviour), one with a non-zero size does. -/
example :
    let h : Handle Nat := ⟨false, fun i => List.replicate i (10 + i)⟩
    ((Gen.setupSend h (Tracker.mk' 0 [2, 0, 0] 0) (MessageBuffer.new 3)).message,
     (Gen.setupSend h (Tracker.mk' 0 [2, 0, 0] 0) (MessageBuffer.new 3)).tracker.iface,
     (Gen.setupRecv ⟨0, 0, [5, 6], true, [0, 0], 0⟩ (MessageBuffer.new 3 : MessageBuffer Nat)).2.2,
     (Gen.setupRecv ⟨0, 0, [5, 6], true, [0, 1], 0⟩ (MessageBuffer.new 3 : MessageBuffer Nat)).2.2)
      = (some [12, 12], [], false, true) := by decide

/-- **src_constants.**  Data of the source the rank-level models rely on: the data send and the data receive use one
    tag, the scalar send and receive of `sendFixedSize` use one tag and exactly one item, the two tags differ (a scalar
    can never be matched with a data receive: `FixSys` keeps them on separate channels); the data send buffers of
    `communicateFixedSize` and `communicateVariableSize` hold at least `maxBufferSize_` items (an index that fits the
    configured size is packed) and the data receive buffers at least as much as the send buffers (no truncation); in
    `communicateSizes` both sides use one chunk length ≥ 1 (the receiver copies `min(buffer.size(), indicesLeft)` sizes
    per message, so the lengths must agree) — which vector is the send resp. receive side is read off the
    `setupRequests` / `receiveSizeAndSetupReceive` calls; the constructors without a size argument agree on one positive default; the three wrappers hand `checkAndContinue` the request vectors,
    functors and flags the small-step machine `Pair` is built from (scalar completions set up the data receive and are
    not counted twice; send completions repack; receive completions unpack with `MPI_Get_count` iff the handle is
    not fixed-size, and re-post). -/
theorem src_constants :
    Gen.dataSendTag = Gen.dataRecvTag ∧ Gen.scalarSendTag = Gen.scalarRecvTag ∧ Gen.scalarSendTag ≠ Gen.dataSendTag ∧
    Gen.scalarSendCount = 1 ∧ Gen.scalarRecvCount = 1 ∧
    (∀ m n, ∀ p ∈ Gen.dataBuffers m n, m ≤ p.1 ∧ p.1 ≤ p.2) ∧
    (∀ m n, 1 ≤ m → 1 ≤ (Gen.sizeBuffers m n).1 ∧ (Gen.sizeBuffers m n).1 = (Gen.sizeBuffers m n).2) ∧
    (∀ x ∈ Gen.defaultBufferSizes, x = Gen.defaultBufferSize) ∧ 0 < Gen.defaultBufferSize ∧
    Gen.wrappers =
      [("receiveSizeAndSetupReceive", ["p0", "p1", "p2", "p3", "p4", "p5", "NullPackUnpackFunctor", "SetupRecvRequest", "false"]),
       ("checkSendAndContinueSending", ["p0", "p1", "p2", "p2", "p3", "p4", "NullPackUnpackFunctor", "SetupSendRequest"]),
       ("checkReceiveAndContinueReceiving", ["p0", "p1", "p2", "p2", "p3", "p4", "UnpackEntries", "SetupRecvRequest", "true",
                                             "!Impl::callFixedSize(p0)"])] := by
  refine ⟨by decide, by decide, by decide, by decide, by decide, fun m n p hp => ?_, fun m n hm => ?_, by decide, by decide,
    by decide⟩
  · simp only [Gen.dataBuffers, List.mem_cons, List.not_mem_nil, or_false] at hp
    rcases hp with rfl | rfl <;> constructor <;> first | omega | (simp; done) | (simp; omega)
  · unfold Gen.sizeBuffers
    constructor <;> first | omega | (simp; done) | (simp; omega)

/-- non-vacuity: there is a constructor with a numeric default, and the wrapper table has its three rows. -/
example : Gen.defaultBufferSizes ≠ [] ∧ Gen.wrappers.length = 3 := by decide

/-- **src_directions_trackers.**  "Both directions": as read from the source, `forward()` instantiates `communicate<true>`,
    `backward()` `communicate<false>`, the direction parameter is handed down unchanged to `communicateFixedSize`,
    `communicateVariableSize`, `communicateSizes`, `setupInterfaceTrackers` and `InterfaceInformationChooser` (checked by
    the translator: anything else is a translation error), and the chooser picks (first, second) for forward and
    (second, first) for backward — the lists `IfaceEntry.send / recv` of the model.  `setupInterfaceTrackers` as read from
    the source (initial value of the carried fixed size, its update per neighbour from the first index of the *send* list,
    the tracker arguments rank / list / fixed size / `allocateSizes = (fixedsize == 0)` for the receive tracker only)
    unfolds the model's `setupInterfaceTrackers`, for every handle, direction and interface map. -/
theorem src_directions_trackers (h : Handle α) (fwd : Bool) (e : IfaceEntry) (es : List IfaceEntry) (fs : Nat) :
    Gen.forwardFlag = true ∧ Gen.backwardFlag = false ∧
    Gen.chooseSend fwd e.first e.second = e.send fwd ∧ Gen.chooseRecv fwd e.first e.second = e.recv fwd ∧
    setupInterfaceTrackers h fwd (e :: es) = setupTrackersLoop h fwd (e :: es) (Gen.trackersInitFixed h.fixed) ∧
    (let fs' := Gen.trackersStepFixed h.fixed fs (e.send fwd).length (e.recv fwd).length (h.size ((e.send fwd).headD 0))
     setupTrackersLoop h fwd (e :: es) fs =
       (Tracker.mk' e.rank (e.send fwd) fs' (Gen.sendAllocSizes fs'),
        Tracker.mk' e.rank (e.recv fwd) fs' (Gen.recvAllocSizes fs')) :: setupTrackersLoop h fwd es fs') :=
  ⟨by decide, by decide, (gen_chooser fwd e).1, (gen_chooser fwd e).2, gen_setupTrackers_init h fwd (e :: es),
   gen_setupTrackers_step h fwd e es fs⟩

/-- non-vacuity: backward swaps the lists; a fixed-size handle's size is taken from the first *send* index and carried
    over a neighbour with an empty send list (the value 3 of the first neighbour reaches the second). -/
example :
    (Gen.chooseSend false [1, 2] [3], Gen.chooseRecv false [1, 2] [3],
     Gen.trackersStepFixed true (Gen.trackersInitFixed true) 2 0 3,
     Gen.trackersStepFixed true 3 0 4 99, Gen.recvAllocSizes 0, Gen.recvAllocSizes 3) =
      ([3], [1, 2], 3, 3, true, false) := by decide

/-- **src_check_and_continue.**  The body `checkAndContinue` runs for one completed request, as read from the source
    (`buffer_func` with the `MPI_Get_count` value iff `getCount`, read from the status at the *position in the completed
    list*; `skipZeroIndices`; `if(!finished) { comm_func on buffers[*index] / requests2[*index]; skipZeroIndices;
    if(valid) --no_completed; }`; the tracker is `trackers[*index]`, `setReceivingIndex(handle, *index)` comes first —
    all checked by the translator), is what the small-step machine `Pair` does in `recvDone` (buffer functor = the
    configuration's unpack, communication functor = `SetupRecvRequest`) and in `sendDone` (null functor,
    `SetupSendRequest`, the new message appended to the channel), and what the function-level `recvLoop` does per
    message; the completion is *not* counted (`--no_completed`) exactly when a new communication was set up and `valid`
    is set — the rule by which `VarSys`/`FixSys` decrement their counters.  For every configuration, state, message.
    (`recvDoneResult`, `sendDoneResult`, `recvLoopResult` in Proofs/C06Tie.lean only say where the components of the
    body's result go: tracker, buffer, accumulator, request state `posted`/`active`/`null`, the new message onto the
    channel, "still counted" flag cleared when nothing was set up.) -/
theorem src_check_and_continue {σ β γ : Type} (c : PairCfg α σ) (s : Pair α σ) (m : List α)
    (rep gc valid : Bool) (unpack : Tracker → MessageBuffer β → Nat → σ → Tracker × MessageBuffer β × σ)
    (cf : Tracker → MessageBuffer β → Tracker × MessageBuffer β × γ)
    (m' : List β) (ms : List (List β)) (t : Tracker) (b : MessageBuffer β) (posted n : Nat) (acc : σ) :
    (s.rreq = .complete m → Pair.step c s .recvDone =
      some (recvDoneResult s (Gen.checkAndContinueBody c.getCount true c.unpack (setupRecv c.repaired) m.length s.rt
                    (s.rb.received m) s.acc))) ∧
    (s.sreq = .complete → Pair.step c s .sendDone =
      some (sendDoneResult s (Gen.checkAndContinueBody (σ := Unit) false true (fun t b _ a => (t, b, a))
                    (fun t b => ((setupSend c.handle t b).tracker, (setupSend c.handle t b).buffer,
                                 (setupSend c.handle t b).message)) 0 s.st s.sb ()))) ∧
    (recvLoop rep gc unpack (m' :: ms) t b posted acc =
      recvLoopResult rep gc unpack ms posted
        (Gen.checkAndContinueBody gc true unpack (setupRecv rep) m'.length t (b.received m') acc)) ∧
    ((Gen.checkAndContinueBody gc valid unpack cf n t b acc).2.2.2.2 =
      (valid && (Gen.checkAndContinueBody gc valid unpack cf n t b acc).2.2.2.1.isSome)) ∧
    Gen.ccDefaults = (true, false) :=
  ⟨gen_recvDone c s m, gen_sendDone c s, gen_recvLoop rep gc unpack m' ms t b posted acc,
   gen_uncounted gc valid unpack cf n t b acc, gen_ccDefaults⟩

/-- non-vacuity: a receive tracker with sizes [2, 0, 1] gets a message of 2 items: the generated body unpacks index 5,
    skips the zero-size index, re-posts the receive (`some true`) and does not count the completion; with the last
    message the tracker is finished, nothing is posted and the completion counts. -/
example :
    let t : Tracker := ⟨0, 0, [5, 6, 7], true, [2, 0, 1], 0⟩
    let r1 := Gen.checkAndContinueBody true true (unpackEntries (α := Nat)) (setupRecv true) 2 t
                ((MessageBuffer.new 3).received [8, 9]) []
    let r2 := Gen.checkAndContinueBody true true (unpackEntries (α := Nat)) (setupRecv true) 1 r1.1
                (r1.2.1.received [4]) r1.2.2.1
    r1.1.iface = [7] ∧ r1.2.2.1 = [⟨5, 2, [8, 9]⟩] ∧ r1.2.2.2.1 = some true ∧ r1.2.2.2.2 = true ∧
    r2.1.iface = [] ∧ r2.2.2.1 = [⟨5, 2, [8, 9]⟩, ⟨7, 1, [4]⟩] ∧ r2.2.2.2.1 = none ∧ r2.2.2.2.2 = false := by
  intro t r1 r2; decide

/-- **src_progress_loops.**  Consistency of the three progress loops as read from the source, independent of the names
    of the locals: in `communicateFixedSize`, `communicateSizes`, `communicateVariableSize` every call of the loop is
    guarded by the counter it decrements (the data receives of the fixed path by `validRecvRequests` of the request
    vector the call works on), that counter was initialised over the vectors the call works on (`count_if` over its
    request vector; in the fixed path the neighbours with an empty list of its tracker vector are subtracted), the
    (trackers, buffers, requests) it is given were set up together by one `setupRequests` with the functor of that role
    (fixed-path data receives: by `receiveSizeAndSetupReceive`), the loop condition is the sum of exactly these counters
    and no counter is decremented by two calls — the facts `VarSys`/`FixSys` build in when they initialise and guard
    their counters. -/
theorem src_progress_loops :
    (∀ r ∈ Gen.progressLoops, r.2.2.1 = true ∧ r.2.2.2.1 = true ∧ r.2.2.2.2 = true) ∧
    Gen.progressLoops.map (fun r => (r.1, r.2.1)) =
      [("communicateFixedSize", "size"), ("communicateFixedSize", "send"), ("communicateFixedSize", "recv"),
       ("communicateFixedSize", "loop"), ("communicateSizes", "send"), ("communicateSizes", "recv"),
       ("communicateSizes", "loop"), ("communicateVariableSize", "send"), ("communicateVariableSize", "recv"),
       ("communicateVariableSize", "loop")] := by
  constructor <;> decide

end DV.C06
