import DuneVerif.Proofs.C20Store
import DuneVerif.Proofs.C20Ops
import DuneVerif.Proofs.C20Tuple
import DuneVerif.Proofs.C20Slice
import DuneVerif.Proofs.C20View
import DuneVerif.Proofs.C20InvOps
/-!
C20 — property theorems (all vector sizes, all entries, all integer indices, all store states, all programs).

The model (`DuneVerif/Model/C20.lean`) is tied to dune-common's bindings by the differential run of
`tools/check.py C20`; the theorems below are about that model.

Clause of the property → theorems
* construction from list / tuple / args / buffer / NumPy array: `construct_spec`, `construct_buffer_spec`,
  `dyn_construct_spec`; byte strides of the buffer protocol: `byte_stride_addressing`
* indexing with Python semantics, IndexError outside `[-n, n)`: `getitem_spec`, `setitem_spec`,
  `getitem_out_of_range_error`, `getitem_out_of_range_untouched`
* length, iteration: `iter_spec`;  slicing through the buffer view: `slice_spec`, `slice_lists`, `slice_observation`
* arithmetic / comparison / norms / string conversion: `ops_agree_with_cxx_model`, `scalar_ops_spec`,
  `plain_ops_entrywise`, `norms_spec`, `inplace_agrees`, `str_spec`
* memory sharing: `view_aliases`, `sliceview_aliases`, `npvector_writes_through_view`, `npvector_scale_visible`,
  `converted_buffer_is_a_copy`, `converted_buffer_is_fresh`, `copy_independent`, `npcopy_independent`
* never touching memory outside the object, for all programs: `invariant_initial`, `invariant_step`,
  `all_histories_safe`
* tuple vectors: `tuplevector_preserves`
-/
namespace DV.C20

/-! ### construction from list / tuple / args / buffer / NumPy array -/

/-- The constructor loop of `registerFieldVector` (list, tuple, argument pack, `copy(*args)`) yields exactly `n`
    entries: the first `n` given numbers, zero-filled when fewer are given. -/
theorem construct_spec (n : Nat) (xs : List Int) :
    constructLoop n xs = (xs ++ List.replicate n 0).take n ∧
    (constructLoop n xs).length = n ∧
    ∀ i, i < n → (constructLoop n xs)[i]? = some (if i < xs.length then xs.getD i 0 else 0) := by
  rw [constructLoop_eq]
  exact ⟨rfl, construct_length n xs, fun i hi => construct_getElem? n xs i hi⟩

example : constructLoop 3 [7, 8] = [7, 8, 0] ∧ constructLoop 2 [7, 8, 9] = [7, 8] ∧ constructLoop 2 [] = [0, 0] := by
  decide

/-- The buffer constructor (NumPy array, strided or reversed NumPy view, `array.array`, a field of aligned records): the
    buffer protocol describes the buffer in **bytes** (`ptr`, `strides[0]`); the constructor addresses it in whole doubles,
    `ptr[i * (stride / 8)]`.  For every memory, every record size `rsz > 0` and field offset, base cell `off`, cell stride
    and shape: if the buffer has at most one entry or its byte stride `rsz*step` is a multiple of 8 — which is what NumPy's
    alignment flag, and with it the format check of the constructor, guarantees for every buffer that is accepted — the
    result is the first `n` entries *of the buffer* (entry `j` is the cell `off + j*step`), zero-filled, independently of
    what lies between the entries.  The length is `n` for any `buffer_info` whatsoever. -/
theorem construct_buffer_spec (n : Nat) (mem : List Int) (m : MemLay) (hr : 0 < m.rsz) (off step : Int) (shape : Nat)
    (hal : shape ≤ 1 ∨ (8 : Int) ∣ (m.rsz : Int) * step) :
    constructBuf n mem m (bufInfo m off step shape) = construct n ((List.range shape).map (bufEntry mem off step)) ∧
    (∀ b : BufInfo, (constructBuf n mem m b).length = n) ∧
    ((bufInfo m off step shape).aligned 8 = true → shape ≤ 1 ∨ (8 : Int) ∣ (m.rsz : Int) * step) :=
  ⟨constructBuf_eq n mem m hr off step shape hal, fun b => constructBuf_length n mem m b, aligned_stride m off step shape⟩

example : constructBuf 3 [1, 77, 2, 77] {} (bufInfo {} 0 2 2) = [1, 2, 0] ∧            -- a[::2] of [1,77,2,77], zero-filled
    constructBuf 2 [77, 3, 77, 2, 77, 1] {} (bufInfo {} 5 (-2) 3) = [1, 2] ∧            -- a[::-2], truncated
    constructBuf 2 (stridedMem (-2) [1, 2, 3]).1 {} (bufInfo {} (stridedMem (-2) [1, 2, 3]).2 (-2) 3) = [1, 2] ∧
    -- field at byte 8 of 24-byte records, walked backwards: byte stride -24, first entry at byte 56
    constructBuf 3 [3, 2, 1] { rsz := 24, fo := 8 } (bufInfo { rsz := 24, fo := 8 } 2 (-1) 3) = [1, 2, 3] ∧
    (bufInfo { rsz := 24, fo := 8 } 2 (-1) 3) = { ptr := 56, stride := -24, shape := 3 } := by decide

/-- Byte addressing versus addressing in whole items.  (1) For records of any size `rsz > 0` the byte address
    `ptr + j*stride` (`NumPyVector::entry`, NumPy's own indexing) of entry `j` of a buffer is where cell `off + j*step` of the
    object starts — in particular for a field of packed records, whose byte stride is no multiple of the item size.
    (2) Addressing in whole items of `w` bytes, `ptr[j * (stride / w)]` with C++'s truncating division, agrees with the byte
    address **iff** `j = 0` or `w` divides the byte stride; so for a stride that is no multiple of `w` every entry but the
    first is read from / written to the wrong bytes. -/
theorem byte_stride_addressing (m : MemLay) (hr : 0 < m.rsz) (off step : Int) (len j : Nat) (w : Nat) (hw : 0 < w)
    (b : BufInfo) :
    m.cellAt (entryAddr (bufInfo m off step len) j) = some (off + (j : Int) * step) ∧
    (elemAddr w b j = entryAddr b j ↔ (j = 0 ∨ (w : Int) ∣ b.stride)) ∧
    (¬ (w : Int) ∣ b.stride → 0 < j → elemAddr w b j ≠ entryAddr b j) := by
  refine ⟨cellAt_entryAddr m hr off step len j, elemAddr_eq_iff w hw b j, ?_⟩
  intro hnd hj he
  cases (elemAddr_eq_iff w hw b j).1 he with
  | inl h0 => omega
  | inr hd => exact hnd hd

-- `rec["x"]` of records `(x: f8, id: i4)`: 12 bytes per record.  Entry 1 is at byte 12 (cell 1); whole-item addressing
-- reads it at byte 8, where no double starts; with stride -20 the truncation gives -16.
example : entryAddr (bufInfo { rsz := 12 } 0 1 4) 1 = 12 ∧ elemAddr 8 (bufInfo { rsz := 12 } 0 1 4) 1 = 8 ∧
    ({ rsz := 12 } : MemLay).cellAt 12 = some 1 ∧ ({ rsz := 12 } : MemLay).cellAt 8 = none ∧
    elemAddr 8 { ptr := 60, stride := -20, shape := 4 } 1 = 44 ∧ entryAddr { ptr := 60, stride := -20, shape := 4 } 1 = 40 ∧
    elemAddr 8 (bufInfo {} 0 3 4) 2 = entryAddr (bufInfo {} 0 3 4) 2 := by decide

/-- DynamicVector's list constructor holds exactly the given numbers. -/
theorem dyn_construct_spec (xs : List Int) : dynConstructLoop xs = xs := dynConstructLoop_eq xs

example : dynConstructLoop [4, 5, 6] = [4, 5, 6] ∧ dynConstructLoop [] = [] := by decide

/-! ### indexing -/

/-- For `-n ≤ i < n`, `v[i]` is entry `i mod n`: entry `i` for `i ≥ 0`, entry `n + i` for `i < 0`
    (the entry exists: `v[p]? = some x`, no default value is involved). -/
theorem getitem_spec (v : List Int) (i : Int) (h0 : -(v.length : Int) ≤ i) (h1 : i < v.length) :
    ∃ (p : Nat) (x : Int), (p : Int) = i % (v.length : Int) ∧ (0 ≤ i → (p : Int) = i) ∧ (i < 0 → (p : Int) = i + v.length) ∧
      v[p]? = some x ∧ getItem v i = .ok x := by
  have hn := normIndex_eq_mod v.length i h0 h1
  have hp := normIndex_lt _ _ _ hn
  have hne : (v.length : Int) ≠ 0 := by omega
  have hnn := Int.emod_nonneg i hne
  refine ⟨(i % (v.length : Int)).toNat, v[(i % (v.length : Int)).toNat]'hp, Int.toNat_of_nonneg hnn, ?_, ?_,
    List.getElem?_eq_getElem hp, ?_⟩
  · intro hi
    rw [Int.toNat_of_nonneg hnn, Int.emod_eq_of_lt hi h1]
  · intro hi
    have h2 : (i + (v.length : Int)) % (v.length : Int) = i % (v.length : Int) := by rw [Int.add_emod_right]
    rw [Int.toNat_of_nonneg hnn, ← h2, Int.emod_eq_of_lt (by omega) (by omega)]
  · rw [getItem_of_norm v i _ hn]
    simp [List.getD_eq_getElem?_getD, List.getElem?_eq_getElem hp]

example : getItem [5, 6, 7] (-1) = .ok 7 ∧ getItem [5, 6, 7] (-3) = .ok 5 ∧ getItem [5, 6, 7] 2 = .ok 7 :=
  ⟨rfl, rfl, rfl⟩

/-- An index outside `[-n, n)` — every such integer, however large — raises `IndexError`, for reading and for writing. -/
theorem getitem_out_of_range_error (v : List Int) (i x : Int)
    (h : i < -(v.length : Int) ∨ (v.length : Int) ≤ i) :
    getItem v i = .error .index ∧ setItem v i x = .error .index := by
  have hn := normIndex_out v.length i h
  simp [getItem, setItem, hn]

/-- … and in the store model the out-of-range access touches nothing: the state is unchanged (`okInt k` only says that
    the value written is in the range of exactly representable entries the model is run with; the index is arbitrary). -/
theorem getitem_out_of_range_untouched (kd : Kind) (hk : kd.isVec = true) (s : State) (x b : Nat) (i k : Int)
    (hx : s.xs x = some b) (hkk : okInt k = true)
    (h : i < -((s.read b).length : Int) ∨ ((s.read b).length : Int) ≤ i) :
    step kd s (.v (.get false x i)) = (s, "ERR:Index") ∧ step kd s (.v (.set false x i k)) = (s, "ERR:Index") := by
  have hg := getitem_out_of_range_error (s.read b) i k h
  rw [step_get kd hk s x b i hx, step_set kd hk s x b i k hx hkk, hg.1, hg.2]
  exact ⟨rfl, rfl⟩

example : getItem [5, 6, 7] 3 = .error .index ∧ getItem [5, 6, 7] (-4) = .error .index ∧
    setItem [5, 6, 7] 3 1 = .error .index ∧ getItem [] 0 = .error .index ∧
    getItem [5, 6, 7] 18446744073709551616 = .error .index ∧ setItem [5] (-9223372036854775809) 1 = .error .index :=
  ⟨rfl, rfl, rfl, rfl, rfl, rfl⟩

example :
    let s0 := (step (.fv 2) {} (.v (.new 0 .list [4, 5]))).1
    (step (.fv 2) s0 (.v (.get false 0 2))).2 = "ERR:Index" ∧ (step (.fv 2) s0 (.v (.set false 0 (-3) 1))).2 = "ERR:Index" := by
  decide

/-- For `-n ≤ i < n`, `v[i] = x` replaces entry `i mod n` and nothing else. -/
theorem setitem_spec (v : List Int) (i x : Int) (h0 : -(v.length : Int) ≤ i) (h1 : i < v.length) :
    ∃ (p : Nat) (w : List Int), (p : Int) = i % (v.length : Int) ∧ setItem v i x = .ok w ∧ w.length = v.length ∧
      w[p]? = some x ∧ (∀ q, q ≠ p → w[q]? = v[q]?) ∧ getItem w i = .ok x := by
  have hn := normIndex_eq_mod v.length i h0 h1
  have hp := normIndex_lt _ _ _ hn
  have hne : (v.length : Int) ≠ 0 := by omega
  have hnn := Int.emod_nonneg i hne
  refine ⟨(i % (v.length : Int)).toNat, v.set (i % (v.length : Int)).toNat x, Int.toNat_of_nonneg hnn,
    setItem_of_norm v i x _ hn, List.length_set, List.getElem?_set_self hp, ?_, ?_⟩
  · intro q hq
    exact List.getElem?_set_ne (Ne.symm hq)
  · have hn' : normIndex (v.set (i % (v.length : Int)).toNat x).length i = some (i % (v.length : Int)).toNat := by
      rw [List.length_set]; exact hn
    rw [getItem_of_norm _ i _ hn', getD_set_same v _ x hp]

example : setItem [5, 6, 7] (-2) 9 = .ok [5, 9, 7] := rfl

/-! ### length and iteration -/

/-- Python iterates over a dense vector with the legacy sequence protocol (`__getitem__(0)`, `__getitem__(1)`, …
    until `IndexError`).  That loop yields exactly the entries, in order: it gets entry `i` for every `i < n`, and it
    is the `IndexError` at index `n` that ends it (not the fuel of the model). -/
theorem iter_spec (v : List Int) :
    pyIter v = v ∧ (pyIter v).length = v.length ∧
    (∀ i (h : i < v.length), getItem v (i : Int) = .ok v[i]) ∧ getItem v (v.length : Int) = .error .index := by
  refine ⟨pyIter_eq v, by rw [pyIter_eq], fun i h => getItem_nat_lt v i h, getItem_nat_ge v v.length (Nat.le_refl _)⟩

example : pyIter [3, 1, 4] = [3, 1, 4] ∧ pyIter [] = [] ∧ iterFrom [3, 1, 4] 0 2 = [3, 1] := by decide

/-! ### slicing through the buffer view -/

/-- `v[i:j:st]` (`st ≠ 0`) is handed out as a view with first position `start` and `len` entries, entry `k` at position
    `start + k*st`.  Every entry is a position of the vector (nothing outside `[0, n)` is ever denoted), and the slice
    is exact: for a positive step, entry `k` exists iff `lo + k*st` is below the clamped stop; for a negative step iff
    it is above it (`sliceLo/Hi…` are the clamped bounds of CPython's `PySlice_AdjustIndices`). -/
theorem slice_spec (n : Nat) (i j : Option Int) (st : Int) (hst : st ≠ 0) :
    (∀ k : Nat, k < (sliceIdx n i j st).2 →
      0 ≤ (sliceIdx n i j st).1 + (k : Int) * st ∧ (sliceIdx n i j st).1 + (k : Int) * st < (n : Int)) ∧
    (0 < st → (sliceIdx n i j st).1 = sliceLo n i ∧
      ∀ k : Nat, k < (sliceIdx n i j st).2 ↔ sliceLo n i + (k : Int) * st < sliceHi n j) ∧
    (st < 0 → (sliceIdx n i j st).1 = sliceLoNeg n i ∧
      ∀ k : Nat, k < (sliceIdx n i j st).2 ↔ sliceHiNeg n j < sliceLoNeg n i + (k : Int) * st) :=
  ⟨fun k hk => slice_in_bounds n i j st hst k hk,
   fun h => ⟨sliceIdx_fst_pos n i j st h, fun k => slice_exact_pos n i j st h k⟩,
   fun h => ⟨sliceIdx_fst_neg n i j st h, fun k => slice_exact_neg n i j st h k⟩⟩

example : sliceIdx 6 (some 1) (some (-1)) 2 = (1, 2) ∧ sliceIdx 6 (some (-100)) none 4 = (0, 2) ∧
    sliceIdx 6 none (some 0) (-2) = (5, 3) ∧ sliceIdx 6 (some 2) (some 2) 1 = (2, 0) ∧
    sliceLo 6 (some (-100)) = 0 ∧ sliceHi 6 (some 100) = 6 ∧ sliceLoNeg 6 (some 100) = 5 ∧ sliceHiNeg 6 (some (-100)) = -1 := by
  decide

/-- What slices show of the entries `l`: `l[:]` is `l`, `l[::-1]` is `l` reversed, and a step-one slice from `lo` with
    `len` entries is `(l.drop lo).take len`. -/
theorem slice_lists (l : List Int) (lo len : Nat) (h : lo + len ≤ l.length) :
    sliceIdx l.length none none 1 = (0, l.length) ∧ cellsOf l 0 1 l.length = l ∧
    sliceIdx l.length none none (-1) = ((l.length : Int) - 1, l.length) ∧
    cellsOf l ((l.length : Int) - 1) (-1) l.length = l.reverse ∧
    cellsOf l (lo : Int) 1 len = (l.drop lo).take len :=
  ⟨slice_full l.length, cellsOf_full l, slice_reverse l.length, cellsOf_reverse l, cellsOf_step_one l lo len h⟩

/-- The bound operation `v[i:j:st]` shows exactly the cells of `v` at the positions of the slice. -/
theorem slice_observation (n : Nat) (s : State) (x b : Nat) (i j : Option Int) (st : Int) (hst : st ≠ 0)
    (hx : s.xs x = some b) :
    step (.fv n) s (.v (.slice x i j (some st))) =
      (s, showInts (cellsOf (s.read b) (sliceIdx (s.read b).length i j st).1 st (sliceIdx (s.read b).length i j st).2)) := by
  simp [step, Kind.isVec, vecEff, Kind.isFv, hx, hst, Eff.apply, State.viewVals, cellsOf, View.pos_plain]

example :
    let s0 := (step (.fv 6) {} (.v (.new 0 .list [10, 11, 12, 13, 14, 15]))).1
    (step (.fv 6) s0 (.v (.slice 0 (some 4) (some 0) (some (-2))))).2 = "[14,12]" ∧
    (step (.fv 6) s0 (.v (.slice 0 (some (-100)) (some 100) (some 3)))).2 = "[10,13]" := by decide

/-! ### memory sharing -/

/-- `a = numpy.array(v, copy=False)` and `v` denote the same cells: the view shows the vector's entries, a write
    through the view is read back through the vector, a write through the vector is read back through the view.
    `Inv (.fv n) s` holds in every reachable state (`all_histories_safe`). -/
theorem view_aliases (n : Nat) (s : State) (hinv : Inv (.fv n) s) (x a b : Nat) (i k : Int)
    (hx : s.xs x = some b)
    (h0 : -((s.read b).length : Int) ≤ i) (h1 : i < (s.read b).length)
    (hi : okIdx i = true) (hk : okInt k = true) :
    (step (.fv n) s (.v (.view a x))).2 = showInts (s.read b) ∧
    (step (.fv n) (step (.fv n) (step (.fv n) s (.v (.view a x))).1 (.v (.aset a i k))).1 (.v (.get false x i))).2 = toString k ∧
    (step (.fv n) (step (.fv n) (step (.fv n) s (.v (.view a x))).1 (.v (.set false x i k))).1 (.v (.aget a i))).2 = toString k := by
  have hb : b < s.blocks.length := hinv.xs_lt x b hx
  have hv : Kind.isVec (.fv n) = true := rfl
  have hn := normIndex_eq_mod (s.read b).length i h0 h1
  have hp := normIndex_lt _ _ _ hn
  rw [step_view n s a x b hx]
  refine ⟨by rw [viewVals_fullView], ?_, ?_⟩
  · -- write through the view
    rw [step_aset (.fv n) hv _ a _ i k (bindA_arrs_same _ _ _) rfl hi hk]
    simp only [fullView, hn]
    rw [step_get (.fv n) hv _ x b i (by rw [write_xs, bindA_xs]; exact hx)]
    have hlen : b < (s.bindA a { blk := b, off := 0, step := 1, len := (s.read b).length }).blocks.length := hb
    rw [read_write_same _ b _ hlen, bindA_read]
    have hpos : (View.pos { blk := b, off := 0, step := 1, len := (s.read b).length }
        (i % ((s.read b).length : Int)).toNat) = (i % ((s.read b).length : Int)).toNat :=
      fullView_pos b _ _
    rw [hpos]
    have hn' : normIndex ((s.read b).set (i % ((s.read b).length : Int)).toNat k).length i
        = some (i % ((s.read b).length : Int)).toNat := by rw [List.length_set]; exact hn
    rw [getItem_of_norm _ i _ hn', getD_set_same _ _ k hp]
  · -- write through the vector
    rw [step_set (.fv n) hv _ x b i k (by rw [bindA_xs]; exact hx) hk, bindA_read,
      setItem_of_norm _ i k _ hn]
    simp only []
    rw [step_aget (.fv n) hv _ a (fullView b (s.read b).length) i
      (by rw [write_arrs]; exact bindA_arrs_same _ _ _) hi]
    simp only [fullView, hn]
    have hlen : b < (s.bindA a { blk := b, off := 0, step := 1, len := (s.read b).length }).blocks.length := hb
    rw [read_write_same _ b _ hlen]
    have hpos : (View.pos { blk := b, off := 0, step := 1, len := (s.read b).length }
        (i % ((s.read b).length : Int)).toNat) = (i % ((s.read b).length : Int)).toNat :=
      fullView_pos b _ _
    rw [hpos, getD_set_same _ _ k hp]

example :
    let s0 := (step (.fv 3) {} (.v (.new 0 .list [1, 2, 3]))).1
    let s1 := (step (.fv 3) s0 (.v (.view 0 0))).1
    let s2 := (step (.fv 3) s1 (.v (.aset 0 (-1) 9))).1
    (step (.fv 3) s2 (.v (.get false 0 2))).2 = "9" := by decide

/-- A slice `a = v[i:j:st]` is a view of the same cells: entry `p` of the slice *is* the vector's entry
    `start + p*st`.  A write through the slice is read back through the vector at that index and vice versa. -/
theorem sliceview_aliases (n : Nat) (s : State) (hinv : Inv (.fv n) s) (x a b : Nat) (i j : Option Int) (st : Int)
    (hst : st ≠ 0) (p : Nat) (k : Int) (hx : s.xs x = some b)
    (hp : p < (sliceIdx n i j st).2) (hpi : okIdx (p : Int) = true) (hk : okInt k = true) :
    let s1 := (step (.fv n) s (.v (.sl a x i j (some st)))).1
    let pos : Int := (sliceIdx n i j st).1 + (p : Int) * st
    (step (.fv n) (step (.fv n) s1 (.v (.aset a (p : Int) k))).1 (.v (.get false x pos))).2 = toString k ∧
    (step (.fv n) (step (.fv n) s1 (.v (.set false x pos k))).1 (.v (.aget a (p : Int)))).2 = toString k := by
  have hb : b < s.blocks.length := hinv.xs_lt x b hx
  have hlen : (s.read b).length = n := hinv.xs_len n rfl x b hx
  have hv : Kind.isVec (.fv n) = true := rfl
  have hbnd := slice_in_bounds n i j st hst p hp
  intro s1 pos
  have hs1 : s1 = s.bindA a { blk := b, off := (sliceIdx n i j st).1, step := st, len := (sliceIdx n i j st).2 } := by
    show (step (.fv n) s (.v (.sl a x i j (some st)))).1 = _
    rw [step_sl n s a x b i j st hx hst, hlen]
  -- the index `pos` is a plain in-range non-negative index of the vector, entry `p` an in-range index of the view
  have hnp : normIndex (sliceIdx n i j st).2 (p : Int) = some p := by
    rw [normIndex_nonneg _ _ (by omega) (by omega)]; simp
  have hposNat : View.pos { blk := b, off := (sliceIdx n i j st).1, step := st, len := (sliceIdx n i j st).2 } p
      = pos.toNat := View.pos_plain _ _ _ _ _ _
  have hpos_lt : pos.toNat < (s.read b).length := by rw [hlen]; omega
  have hnpos : ∀ l : List Int, l.length = n → normIndex l.length pos = some pos.toNat := by
    intro l hl
    rw [hl]
    exact normIndex_nonneg n pos hbnd.1 hbnd.2
  rw [hs1]
  constructor
  · rw [step_aset (.fv n) hv _ a _ (p : Int) k (bindA_arrs_same _ _ _) rfl hpi hk]
    simp only [hnp, hposNat]
    rw [step_get (.fv n) hv _ x b pos (by rw [write_xs, bindA_xs]; exact hx)]
    rw [read_write_same _ b _ (by rw [bindA_blocks]; exact hb), bindA_read]
    rw [getItem_of_norm _ pos _ (hnpos _ (by rw [List.length_set]; exact hlen)), getD_set_same _ _ k hpos_lt]
  · rw [step_set (.fv n) hv _ x b pos k (by rw [bindA_xs]; exact hx) hk, bindA_read,
      setItem_of_norm _ pos k _ (hnpos _ hlen)]
    simp only []
    rw [step_aget (.fv n) hv _ a _ (p : Int) (by rw [write_arrs]; exact bindA_arrs_same _ _ _) hpi]
    simp only [hnp, hposNat]
    rw [read_write_same _ b _ (by rw [bindA_blocks]; exact hb), getD_set_same _ _ k hpos_lt]

example :
    let s0 := (step (.fv 6) {} (.v (.new 0 .list [10, 11, 12, 13, 14, 15]))).1
    let s1 := (step (.fv 6) s0 (.v (.sl 0 0 (some 4) (some 0) (some (-2))))).1      -- a0 = x0[4:0:-2] = [14, 12]
    let s2 := (step (.fv 6) s1 (.v (.aset 0 1 99))).1
    (step (.fv 6) s2 (.v (.get false 0 2))).2 = "99" ∧ (step (.fv 6) s2 (.v (.iter 0))).2 = "[10,11,99,13,14,15]" := by
  decide

/-- A NumPy-backed C++ vector (`NumPyVector` wrapping an array or a strided view of a vector) writes through: after
    writing `vals` the view shows exactly `vals`, the cells of the underlying object that the view does not enumerate
    keep their values, every other object is untouched, and no object changes its size. -/
theorem npvector_writes_through_view (s : State) (v : View) (vals : List Int) (hv : ViewOK s v)
    (hl : vals.length = v.len) :
    (s.viewWrite v vals).viewVals v = vals ∧
    (∀ q, (∀ j, j < v.len → v.pos j ≠ q) → ((s.viewWrite v vals).read v.blk)[q]? = (s.read v.blk)[q]?) ∧
    (∀ c, c ≠ v.blk → (s.viewWrite v vals).read c = s.read c) ∧
    ((s.viewWrite v vals).read v.blk).length = (s.read v.blk).length :=
  viewWrite_spec s v vals hv hl

/-- … instantiated for `x *= k` on a `NumPyVector` over any array register of doubles of a reachable state, and for the
    `NumPyVector` over `numpy.array(v, copy=False)`: the FieldVector itself is scaled. -/
theorem npvector_scale_visible (kd : Kind) (hkd : kd.isVec = true) (s : State) (hinv : Inv kd s) (a : Nat) (v : View)
    (k : Int) (ha : s.arrs a = some v) (hdt : v.dt = 0) (hk : okInt k = true)
    (hok : okVals (vscale k (s.viewVals v)) = true) :
    let s1 := (step kd s (.v (.nscale a k))).1
    s1.viewVals v = vscale k (s.viewVals v) ∧
    (∀ c, c ≠ v.blk → s1.read c = s.read c) ∧
    (∀ b, v = fullView b (s.read b).length → s1.read b = vscale k (s.read b)) := by
  have hv := hinv.arrs_ok a v ha
  have hl : (vscale k (s.viewVals v)).length = v.len := by simp [vscale, State.viewVals]
  have hspec := viewWrite_spec s v (vscale k (s.viewVals v)) hv hl
  intro s1
  have hs1 : s1 = s.viewWrite v (vscale k (s.viewVals v)) := by
    show (step kd s (.v (.nscale a k))).1 = _
    rw [step_nscale kd hkd s a v k ha hdt hk hok]
  rw [hs1]
  refine ⟨hspec.1, hspec.2.2.1, ?_⟩
  intro b hvb
  have h1 := hspec.1
  have hlen := hspec.2.2.2
  subst hvb
  simp only [fullView] at h1 hlen ⊢
  have h2 := viewVals_fullView (s.viewWrite (fullView b (s.read b).length) (vscale k (s.viewVals (fullView b (s.read b).length)))) b
  simp only [fullView] at h2
  rw [hlen] at h2
  rw [← h2, h1]
  have h3 := viewVals_fullView s b
  simp only [fullView] at h3
  rw [h3]

example :
    let s0 := (step (.fv 6) {} (.v (.new 0 .list [1, 2, 3, 4, 5, 6]))).1
    let s1 := (step (.fv 6) s0 (.v (.sl 0 0 none none (some 2)))).1
    (step (.fv 6) s1 (.v (.nscale 0 3))).2 = "[3,9,15]" ∧
    (step (.fv 6) (step (.fv 6) s1 (.v (.nscale 0 3))).1 (.v (.iter 0))).2 = "[3,2,9,4,15,6]" := by decide

/-- Sharing only where the buffer protocol promises it: over a buffer whose element type is not `double` (int64, int32,
    int16, int8, uint8, uint16, float32 NumPy arrays, `array.array` of the corresponding typecodes) a `NumPyVector<double>`
    holds a converted copy.  Every writing operation of the vector (`*=`, `[i] =`, `axpy`, `+=`, the `x[i] += i` loop)
    leaves the whole store — in particular the buffer object — unchanged; a read-only buffer is rejected (also unchanged). -/
theorem converted_buffer_is_a_copy (kd : Kind) (hkd : kd.isVec = true) (s : State) (a b : Nat) (v : View) (i k : Int)
    (ha : s.arrs a = some v) (hdt : v.dt ≠ 0) :
    (step kd s (.v (.nscale a k))).1 = s ∧ (step kd s (.v (.nset a i k))).1 = s ∧
    (step kd s (.v (.naxpy a k b))).1 = s ∧ (step kd s (.v (.nadd a b))).1 = s ∧ (step kd s (.v (.nrun a))).1 = s := by
  refine ⟨?_, ?_, ?_, ?_, ?_⟩
  · rw [step_v kd hkd]
    simp only [vecEff, ha]
    split
    · rfl
    · exact nvWrite_foreign s v _ hdt
  · rw [step_v kd hkd]
    simp only [vecEff, ha]
    split
    · rfl
    · exact nvWriteCell_foreign s v _ _ hdt
  · rw [step_v kd hkd]
    simp only [vecEff, ha]
    cases hb : s.arrs b with
    | none => rfl
    | some vb =>
      simp only []
      repeat' split
      all_goals first
        | rfl
        | exact nvWrite_foreign s v _ hdt
  · rw [step_v kd hkd]
    simp only [vecEff, ha]
    cases hb : s.arrs b with
    | none => rfl
    | some vb =>
      simp only []
      repeat' split
      all_goals first
        | rfl
        | exact nvWrite_foreign s v _ hdt
  · rw [step_v kd hkd]
    simp only [vecEff, ha]
    split
    · rfl
    · exact nvWrite_foreign s v _ hdt

/-- A buffer object built from the numbers of an array (`numpy.array(a, dtype=…)`, a strided / reversed layout of it,
    `array.array(typecode, a)`) is a new object: no existing object changes, and the new view denotes cells of the new
    object only. -/
theorem converted_buffer_is_fresh (kd : Kind) (hkd : kd.isVec = true) (s : State) (a b dt : Nat) (lay : Lay) (vb : View)
    (hb : s.arrs b = some vb) (hok : (s.viewVals vb).all (dtOk dt) = true) (hfit : lay.fits dt = true) :
    let s1 := (step kd s (.v (.ndt a b dt lay false))).1
    (∀ c, c < s.blocks.length → s1.read c = s.read c) ∧
    (∃ v, s1.arrs a = some v ∧ v.blk = s.blocks.length ∧ v.dt = dt ∧ v.len = vb.len ∧ v.lay = lay.memLay ∧
      s1.viewVals v = s.viewVals vb) := by
  intro s1
  have hs1 : s1 = (s.alloc (stridedMem lay.stride (s.viewVals vb)).1).1.bindA a
      { blk := s.blocks.length, off := (stridedMem lay.stride (s.viewVals vb)).2, step := lay.stride,
        len := (s.viewVals vb).length, dt := dt, lay := lay.memLay } := by
    show (step kd s (.v (.ndt a b dt lay false))).1 = _
    rw [step_v kd hkd]
    simp [vecEff, hb, hok, hfit, Eff.apply, alloc_fresh]
  rw [hs1]
  refine ⟨fun c hc => ?_, ⟨_, bindA_arrs_same _ _ _, rfl, rfl, ?_, rfl, ?_⟩⟩
  · rw [bindA_read, read_alloc_old s _ c hc]
  · simp [State.viewVals]
  · exact stridedMem_shows lay (s.viewVals vb) s a dt (memLay_rsz_pos lay dt hfit)

example :
    let s0 := (step (.fv 3) {} (.v (.new 0 .list [1, 2, 3]))).1
    let s1 := (step (.fv 3) s0 (.v (.view 0 0))).1
    let s2 := (step (.fv 3) s1 (.v (.ndt 1 0 2 .r2 false))).1            -- a1 = an int32 array, reversed every 2nd entry
    (step (.fv 3) s2 (.v (.nscale 1 5))).2 = "w:30:[1,2,3]" ∧             -- the vector shows 5,10,15; the array keeps 1,2,3
    (step (.fv 3) s2 (.v (.nnorms 1))).2 = "[3,6,3,14]" ∧
    (step (.fv 3) (step (.fv 3) s2 (.v (.aset 1 0 9))).1 (.v (.iter 0))).2 = "[1,2,3]" := by decide

/-- A copy (`T(v)`, `v.copy()`) denotes fresh cells: it has the same entries, and afterwards writes to either
    side are invisible on the other. -/
theorem copy_independent (n : Nat) (s : State) (hinv : Inv (.fv n) s) (x y b : Nat) (i k j : Int) (viaMethod : Bool)
    (hx : s.xs x = some b) (hxy : x ≠ y) (hk : okInt k = true) :
    let cp : Op := if viaMethod then .v (.mcopy y x) else .v (.copy y x)
    let s1 := (step (.fv n) s cp).1
    (step (.fv n) s1 (.v (.get false y j))).2 = (step (.fv n) s (.v (.get false x j))).2 ∧
    (step (.fv n) (step (.fv n) s1 (.v (.set false y i k))).1 (.v (.get false x j))).2 = (step (.fv n) s (.v (.get false x j))).2 ∧
    (step (.fv n) (step (.fv n) s1 (.v (.set false x i k))).1 (.v (.get false y j))).2 = (step (.fv n) s (.v (.get false x j))).2 := by
  have hb : b < s.blocks.length := hinv.xs_lt x b hx
  have hv : Kind.isVec (.fv n) = true := rfl
  have hs1 : (step (.fv n) s (if viaMethod then Op.v (.mcopy y x) else Op.v (.copy y x))).1
      = (s.alloc (s.read b)).1.bindX y (s.alloc (s.read b)).2 := by
    cases viaMethod
    · simp only [Bool.false_eq_true, if_false]; rw [step_copy n s y x b hx]
    · simp only [if_true]; rw [step_mcopy n s y x b hx]
  simp only [hs1]
  -- abbreviations
  have hy1 : ((s.alloc (s.read b)).1.bindX y (s.alloc (s.read b)).2).xs y = some (s.alloc (s.read b)).2 :=
    bindX_same _ _ _
  have hx1 : ((s.alloc (s.read b)).1.bindX y (s.alloc (s.read b)).2).xs x = some b := by
    rw [bindX_other _ y x _ hxy, alloc_xs]; exact hx
  have hfresh : (s.alloc (s.read b)).2 ≠ b := by rw [alloc_fresh]; omega
  have hrc : ((s.alloc (s.read b)).1.bindX y (s.alloc (s.read b)).2).read (s.alloc (s.read b)).2 = s.read b := by
    rw [bindX_read, read_alloc_new]
  have hro : ((s.alloc (s.read b)).1.bindX y (s.alloc (s.read b)).2).read b = s.read b := by
    rw [bindX_read, read_alloc_old s _ b hb]
  refine ⟨?_, ?_, ?_⟩
  · rw [step_get (.fv n) hv _ y _ j hy1, step_get (.fv n) hv s x b j hx, hrc]
  · rw [step_set (.fv n) hv _ y _ i k hy1 hk, hrc]
    cases hset : setItem (s.read b) i k with
    | error e =>
      simp only []
      rw [step_get (.fv n) hv _ x b j hx1, step_get (.fv n) hv s x b j hx, hro]
    | ok w =>
      simp only []
      rw [step_get (.fv n) hv _ x b j (by rw [write_xs]; exact hx1), step_get (.fv n) hv s x b j hx,
        read_write_other _ _ b w hfresh, hro]
  · rw [step_set (.fv n) hv _ x b i k hx1 hk, hro]
    cases hset : setItem (s.read b) i k with
    | error e =>
      simp only []
      rw [step_get (.fv n) hv _ y _ j hy1, step_get (.fv n) hv s x b j hx, hrc]
    | ok w =>
      simp only []
      rw [step_get (.fv n) hv _ y _ j (by rw [write_xs]; exact hy1), step_get (.fv n) hv s x b j hx,
        read_write_other _ b _ w (Ne.symm hfresh), hrc]

example :
    let s0 := (step (.fv 2) {} (.v (.new 0 .list [4, 5]))).1
    let s1 := (step (.fv 2) s0 (.v (.mcopy 1 0))).1
    let s2 := (step (.fv 2) s1 (.v (.set false 1 0 9))).1
    (step (.fv 2) s2 (.v (.get false 0 0))).2 = "4" ∧ (step (.fv 2) s2 (.v (.get false 1 0))).2 = "9" := by decide

/-- `numpy.array(v)` (a copy) shows the entries and is not affected by later writes to the vector. -/
theorem npcopy_independent (kd : Kind) (hv : kd.isVec = true) (s : State) (hinv : Inv kd s) (x a b : Nat) (i k : Int)
    (hx : s.xs x = some b) (hk : okInt k = true) :
    let s1 := (step kd s (.v (.npcopy a x))).1
    (step kd s (.v (.npcopy a x))).2 = showInts (s.read b) ∧
    (step kd (step kd s1 (.v (.set false x i k))).1 (.v (.alist a))).2 = showInts (s.read b) := by
  have hb : b < s.blocks.length := hinv.xs_lt x b hx
  rw [step_npcopy kd hv s a x b hx]
  refine ⟨rfl, ?_⟩
  simp only []
  have hfresh : b ≠ (s.alloc (s.read b)).2 := by rw [alloc_fresh]; omega
  have hview : ∀ st : State, st.arrs a = some (fullView (s.alloc (s.read b)).2 (s.read b).length) →
      st.read (s.alloc (s.read b)).2 = s.read b → (step kd st (.v (.alist a))).2 = showInts (s.read b) := by
    intro st ha hr
    rw [step_alist kd hv st a _ ha]
    have := viewVals_fullView st (s.alloc (s.read b)).2
    rw [hr] at this
    simp [this]
  rw [step_set kd hv _ x b i k (by rw [bindA_xs, alloc_xs]; exact hx) hk]
  cases hset : setItem (((s.alloc (s.read b)).1.bindA a (fullView (s.alloc (s.read b)).2 (s.read b).length)).read b) i k with
  | error e =>
    simp only []
    exact hview _ (bindA_arrs_same _ _ _) (by rw [bindA_read, read_alloc_new])
  | ok w =>
    simp only []
    apply hview
    · rw [write_arrs]; exact bindA_arrs_same _ _ _
    · rw [read_write_other _ b _ w hfresh, bindA_read, read_alloc_new]

example :
    let s0 := (step .dyn {} (.v (.new 0 .list [4, 5]))).1
    let s1 := (step .dyn s0 (.v (.npcopy 0 0))).1
    let s2 := (step .dyn s1 (.v (.set false 0 0 9))).1
    (step .dyn s2 (.v (.alist 0))).2 = "[4,5]" ∧ (step .dyn s2 (.v (.iter 0))).2 = "[9,5]" := by decide

/-! ### arithmetic, comparison, norms, string conversion: the bound operation is the C++ operation on the entries -/

/-- Every copy-returning operator of `registerCopyingDenseVectorMethods` equals the plain vector operation on the
    entries (a list operand first becomes the vector `construct n L`); reflected subtraction has the sign of
    `L - v`; `0 - v` is the negation. -/
theorem ops_agree_with_cxx_model (n : Nat) (v L : List Int) (k : Int) :
    pyNeg v = vneg v ∧
    pyAddList n v L = vadd v (construct n L) ∧
    pySubList n v L = vsub v (construct n L) ∧
    pyRaddList n L v = vadd v (construct n L) ∧
    pyRsubList n L v = vsub (construct n L) v ∧
    pyRsubList n L v = vneg (pySubList n v L) ∧
    pyMul v k = v.map (fun e => k * e) ∧
    pyRsubZero v = vsub (List.replicate v.length 0) v ∧
    twoNorm2 v = vdot v v := by
  refine ⟨pyNeg_eq v, ?_, ?_, ?_, ?_, ?_, vscale_comm k v, ?_, twoNorm2_eq_dot v⟩
  · simp [pyAddList, constructLoop_eq]
  · simp [pySubList, constructLoop_eq]
  · simp only [pyRaddList, constructLoop_eq]; exact vadd_comm _ _
  · simp [pyRsubList, constructLoop_eq]
  · simp only [pyRsubList, pySubList]; exact vsub_swap _ _
  · rw [vsub_zero_left]; exact pyNeg_eq v

example : pyRsubList 3 [10, 10] [1, 2, 3] = [9, 8, -3] ∧ pyAddList 2 [1, 2] [5, 6, 7] = [6, 8] := by decide

/-- Operands of the other Python kinds stand for the same vector: a tuple, a NumPy array, a strided NumPy view or an
    `array.array` is converted through the tuple / buffer constructor, i.e. to `construct n` of its entries. -/
theorem operand_kinds_agree (n : Nat) (L : List Int) (st : Int) :
    (Kind.fv n).operand .list L = construct n L ∧ (Kind.fv n).operand .tuple L = construct n L ∧
    (Kind.fv n).operand (.buf st) L
      = construct n ((List.range L.length).map (bufEntry (stridedMem st L).1 (stridedMem st L).2 st)) ∧
    Kind.dyn.operand .list L = L := by
  refine ⟨constructLoop_eq n L, constructLoop_eq n L, ?_, dynConstructLoop_eq L⟩
  exact constructBuf_eq n _ {} (by show 0 < 8; omega) _ st L.length (Or.inr ⟨st, rfl⟩)

example : (Kind.fv 3).operand (.buf (-1)) [7, 8] = [7, 8, 0] ∧ (Kind.fv 2).operand (.buf 2) [7, 8, 9] = [7, 8] ∧
    (Kind.fv 2).operand .tuple [7] = [7, 0] := by decide

/-- `FieldVector<K,1>` is also a scalar: `v + a`, `v - a`, `a + v`, `a - v` with a Python int or float act on the single
    entry (`a - v` has the sign of `a - v[0]`); every other vector accepts only the int `0` (the start value of Python's
    `sum`): `v + 0`, `v - 0`, `0 + v` are `v` itself (the same object), `0 - v` is a new vector `-v`; anything else is
    rejected without touching the store. -/
theorem scalar_ops_spec (kd : Kind) (hkd : kd.isVec = true) (s : State) (isSub r isFloat : Bool) (x y b : Nat) (k : Int)
    (hy : s.xs y = some b) (hk : okInt k = true) :
    (pyScalar false false 7 2 = 9 ∧ pyScalar true false 7 2 = 5 ∧ pyScalar false true 7 2 = 9 ∧ pyScalar true true 7 2 = -5) ∧
    (kd.scalarMode = true → okVals [pyScalar isSub r ((s.read b).getD 0 0) k] = true →
      (vecEff kd s (.intscal isSub r isFloat x y k)) = .newX x [pyScalar isSub r ((s.read b).getD 0 0) k]) ∧
    (kd.scalarMode = false → isFloat = true → step kd s (.v (.intscal isSub r isFloat x y k)) = (s, "ERR:Type")) ∧
    (kd.scalarMode = false → isFloat = false → k ≠ 0 → step kd s (.v (.intscal isSub r isFloat x y k)) = (s, "ERR:Value")) ∧
    (kd.scalarMode = false → isFloat = false → k = 0 → (isSub && r) = false →
      vecEff kd s (.intscal isSub r isFloat x y k) = .aliasX x b) ∧
    (kd.scalarMode = false → isFloat = false → k = 0 → (isSub && r) = true →
      vecEff kd s (.intscal isSub r isFloat x y k) = .newX x (vneg (s.read b))) := by
  refine ⟨by decide, ?_, ?_, ?_, ?_, ?_⟩
  · intro hsm hok
    simp only [vecEff, hy, hk, hsm, effNew, hok, Bool.not_true, Bool.false_eq_true, if_false, if_true]
  · intro hsm hf
    rw [step_v kd hkd]
    simp [vecEff, hy, hk, hsm, hf, Eff.apply, Err.show]
  · intro hsm hf hk0
    rw [step_v kd hkd]
    simp [vecEff, hy, hk, hsm, hf, hk0, Eff.apply, Err.show]
  · intro hsm hf hk0 hsr
    subst hk0
    simp [vecEff, hy, hk, hsm, hf, hsr]
  · intro hsm hf hk0 hsr
    subst hk0
    simp only [Bool.and_eq_true] at hsr
    simp [vecEff, hy, hk, hsm, hf, hsr.1, hsr.2, pyRsubZero, ← pyNeg_eq, pyNeg]

example :
    let s0 := (step (.fv 1) {} (.v (.new 0 .list [4]))).1
    (step (.fv 1) s0 (.v (.intscal true true false 1 0 10))).2 = "[6]" ∧          -- 10 - v
    (step (.fv 1) s0 (.v (.intscal true true true 1 0 10))).2 = "[6]" ∧           -- 10.0 - v
    (step (.fv 1) s0 (.v (.scal .mul true 1 0 3))).2 = "f:12" := by decide         -- v * 3 (int): the dot product

example :
    let s0 := (step (.fv 2) {} (.v (.new 0 .list [4, 5]))).1
    (step (.fv 2) s0 (.v (.intscal true true false 1 0 0))).2 = "[-4,-5]" ∧
    (step (.fv 2) s0 (.v (.intscal false false false 1 0 3))).2 = "ERR:Value" ∧
    (step (.fv 2) s0 (.v (.intscal false false true 1 0 0))).2 = "ERR:Type" := by decide

/-- entrywise meaning of the plain operations (so that the statement above is not about opaque names) -/
theorem plain_ops_entrywise (a b : List Int) (k : Int) (i : Nat) (x y : Int)
    (ha : a[i]? = some x) (hb : b[i]? = some y) :
    (vadd a b)[i]? = some (x + y) ∧ (vsub a b)[i]? = some (x - y) ∧ (vscale k a)[i]? = some (x * k) ∧
    (vneg a)[i]? = some (-x) := by
  simp [vadd, vsub, vscale, vneg, List.getElem?_zipWith, ha, hb]

example : ([1, 2, 3] : List Int)[1]? = some 2 ∧ ([5, 6, 7] : List Int)[1]? = some 6 ∧ vsub [1, 2, 3] [5, 6, 7] = [-4, -4, -4] := by
  decide

/-- norms: the one norm is the sum of absolute values, the infinity norm is an upper bound that is attained
    (0 for the empty vector), `two_norm2` is the sum of squares. -/
theorem norms_spec (e : Int) (v : List Int) :
    oneNorm [] = 0 ∧ oneNorm (e :: v) = iabs e + oneNorm v ∧
    twoNorm2 [] = 0 ∧ twoNorm2 (e :: v) = e * e + twoNorm2 v ∧
    (∀ a ∈ v, iabs a ≤ infNorm v) ∧ (infNorm v = 0 ∨ ∃ a ∈ v, infNorm v = iabs a) := by
  refine ⟨rfl, oneNorm_cons e v, rfl, twoNorm2_cons e v, (infNorm_foldl_ge v 0).2, infNorm_foldl_attained v 0⟩

example : oneNorm [3, -4] = 7 ∧ infNorm [3, -4] = 4 ∧ twoNorm2 [3, -4] = 25 := by decide

/-- in-place `x += y` / `x -= y` (also when `x` and `y` are the same object): the vector's cells afterwards hold
    the plain sum / difference of the entries before. -/
theorem inplace_agrees (kd : Kind) (hv : kd.isVec = true) (s : State) (hinv : Inv kd s) (isSub : Bool) (x y bx by_ : Nat)
    (hx : s.xs x = some bx) (hy : s.xs y = some by_)
    (hl : (s.read bx).length = (s.read by_).length)
    (hok : okVals (if isSub then vsub (s.read bx) (s.read by_) else vadd (s.read bx) (s.read by_)) = true) :
    (step kd s (.v (.inplaceV isSub x y))).1.read bx
      = (if isSub then vsub (s.read bx) (s.read by_) else vadd (s.read bx) (s.read by_)) := by
  rw [step_inplaceV kd hv s isSub x y bx by_ hx hy hl hok]
  exact read_write_same s bx _ (hinv.xs_lt x bx hx)

example :
    let s0 := (step .dyn {} (.v (.new 0 .list [1, 2, 3]))).1
    (step .dyn s0 (.v (.inplaceV false 0 0))).2 = "[2,4,6]" := by decide

/-- String conversion: the delimiter loop of `Dune::Python::join` puts `", "` between the entries and nowhere else, so
    `str(v)` is `"(" + ", ".join(entries) + ")"`; `()` for an empty vector. -/
theorem str_spec (d : String) (l : List String) (v : List Int) :
    joinLoop d l = d.intercalate l ∧ pyStr v = "(" ++ ", ".intercalate (v.map toString) ++ ")" ∧ pyStr [] = "()" := by
  refine ⟨joinLoop_eq d l, ?_, by decide⟩
  unfold pyStr
  rw [joinLoop_eq]

example : pyStr [1, -2, 3] = "(1, -2, 3)" ∧ pyStr [7] = "(7)" := by decide

/-! ### all programs: no operation ever denotes memory outside an object -/

/-- The store invariant `Inv` (registers name existing vectors; a `FieldVector<K,n>` has exactly `n` cells; every
    NumPy view denotes cells inside an existing object; no array aliases a DynamicVector) holds initially … -/
theorem invariant_initial (kd : Kind) : Inv kd {} := inv_init kd

/-- … and is preserved by every bound operation, whatever its arguments. -/
theorem invariant_step (kd : Kind) (hk : kd.isVec = true) (s : State) (h : Inv kd s) (op : Op) :
    Inv kd (step kd s op).1 := step_inv kd hk s h op

/-- Hence after *every* program of bound operations (any length, any operations, any arguments): every register
    names an existing vector, every `FieldVector<K,n>` object has exactly `n` cells, and every entry of every NumPy
    view / NumPy-backed C++ vector in an array register is an existing cell of an existing object (the `getD`/`set`
    of the model's view operations never fall outside a block). -/
theorem all_histories_safe (kd : Kind) (hk : kd.isVec = true) (ops : List Op) :
    Inv kd (run kd {} ops).1 ∧
    (∀ x b, (run kd {} ops).1.xs x = some b → b < (run kd {} ops).1.blocks.length) ∧
    (∀ n, kd = .fv n → ∀ x b, (run kd {} ops).1.xs x = some b → ((run kd {} ops).1.read b).length = n) ∧
    (∀ a v, (run kd {} ops).1.arrs a = some v → v.blk < (run kd {} ops).1.blocks.length ∧
      ∀ j, j < v.len → 0 ≤ v.off + (j : Int) * v.step ∧ v.pos j < ((run kd {} ops).1.read v.blk).length ∧
        -- … and the byte address `ptr + j*stride` the NumPy-backed C++ vector computes is where that cell starts
        ∃ c : Nat, v.lay.cellAt (entryAddr v.info j) = some (c : Int) ∧ c < ((run kd {} ops).1.read v.blk).length ∧
          v.pos j = c) := by
  have h := run_inv kd hk ops {} (inv_init kd)
  refine ⟨h, h.xs_lt, h.xs_len, ?_⟩
  intro a v ha
  have hv := h.arrs_ok a v ha
  exact ⟨hv.1, fun j hj => ⟨(hv.2.2.2 j hj).1, hv.pos_lt j hj, hv.byte_addr j hj⟩⟩

example :
    let s := (run (.fv 3) {} [.v (.new 0 .list [1, 2, 3]), .v (.sl 0 0 none none (some (-2))), .v (.aset 0 1 9)]).1
    s.arrs 0 = some { blk := 0, off := 2, step := -2, len := 2 } ∧ s.read 0 = [9, 2, 3] := by
  refine ⟨?_, by decide⟩
  decide

-- a NumPyVector over the field `x` of packed 12-byte records (every record, backwards): reads and writes hit the records
example :
    let s := (run (.fv 3) {} [.v (.new 0 .list [1, 2, 3]), .v (.view 0 0), .v (.ndt 1 0 0 (.q 12 4 true 0) false),
      .v (.nscale 1 5)]).1
    s.arrs 1 = some { blk := 1, off := 2, step := -1, len := 3, dt := 0, lay := { rsz := 12, fo := 4 } } ∧
    s.read 1 = [15, 10, 5] ∧ s.read 0 = [1, 2, 3] ∧
    (View.info { blk := 1, off := 2, step := -1, len := 3, dt := 0, lay := { rsz := 12, fo := 4 } })
      = { ptr := 28, stride := -12, shape := 3 } := by
  refine ⟨?_, by decide, by decide, by decide⟩
  decide

/-! ### tuple vectors -/

/-- A tuple vector built from Python objects shows, entry by entry, the type (double / int / FieldVector of
    size n) and the values it was built from; so do the Python-side objects; built by reference the entries
    are the very same cells as the Python objects. -/
theorem tuplevector_preserves (byRef : Bool) (sh : List SlotTy) (V : List Int) (s : State)
    (hV : V.length = shapeWidth sh) :
    let r := buildSlots byRef sh V s
    r.2.2.map (readSlot r.1) = expected sh V ∧ r.2.1.map (readSlot r.1) = expected sh V ∧
    (byRef = true → r.2.2 = r.2.1) ∧
    (∀ b, b < s.blocks.length → r.1.read b = s.read b) := by
  have h := buildSlots_spec byRef sh V s (by omega)
  exact ⟨h.2.2.2.2.1, h.2.2.2.1, h.2.2.2.2.2, h.1.2⟩

example : expected [.d, .f 2, .i] [17, 2, 5, 3] = [(.d, [17]), (.f 2, [2, 5]), (.i, [3])] := by decide

example :
    (step (.tup [.d, .f 2, .i] false) {} (.t (.tnew 0 [17, 2, 5, 3]))).2 = "[d:17,F2:[2,5],i:3]" := by decide

end DV.C20
