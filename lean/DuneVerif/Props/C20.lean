import DuneVerif.Proofs.C20Store
import DuneVerif.Proofs.C20Ops
import DuneVerif.Proofs.C20Tuple
/-!
C20 — property theorems (all vector sizes, all entries, all integer indices, all store states).

The model (`DuneVerif/Model/C20.lean`) is tied to dune-common's bindings by the differential run of
`tools/check.py C20`; the theorems below are about that model.
-/
namespace DV.C20

/-! ### construction from list / tuple / args / buffer / NumPy array -/

/-- The constructor loop of `registerFieldVector` yields exactly `n` entries: the first `n` given numbers,
    zero-filled when fewer are given. -/
theorem construct_spec (n : Nat) (xs : List Int) :
    constructLoop n xs = (xs ++ List.replicate n 0).take n ∧
    (constructLoop n xs).length = n ∧
    ∀ i, i < n → (constructLoop n xs)[i]? = some (if i < xs.length then xs.getD i 0 else 0) := by
  rw [constructLoop_eq]
  exact ⟨rfl, construct_length n xs, fun i hi => construct_getElem? n xs i hi⟩

example : constructLoop 3 [7, 8] = [7, 8, 0] ∧ constructLoop 2 [7, 8, 9] = [7, 8] ∧ constructLoop 2 [] = [0, 0] := by
  decide

/-! ### indexing -/

/-- For `-n ≤ i < n`, `v[i]` is entry `i mod n`: entry `i` for `i ≥ 0`, entry `n + i` for `i < 0`
    (the entry exists: `v[p]? = some x`, no default value is involved). -/
theorem getitem_spec (v : List Int) (i : Int) (h0 : -(v.length : Int) ≤ i) (h1 : i < v.length) :
    ∃ (p : Nat) (x : Int), (p : Int) = i % (v.length : Int) ∧ (0 ≤ i → (p : Int) = i) ∧ (i < 0 → (p : Int) = i + v.length) ∧
      v[p]? = some x ∧ getItem v i = .ok x := by
  have hn := normIndex_eq_mod v.length i h0 h1
  have hp := normIndex_lt _ _ _ hn
  have hne : (v.length : Int) ≠ 0 := by omega
  have hnn := Int.emod_nonneg i hne
  refine ⟨(i % (v.length : Int)).toNat, v[(i % (v.length : Int)).toNat]'hp, Int.toNat_of_nonneg hnn, ?_, ?_,
    List.getElem?_eq_getElem hp, ?_⟩
  · intro hi
    rw [Int.toNat_of_nonneg hnn, Int.emod_eq_of_lt hi h1]
  · intro hi
    have h2 : (i + (v.length : Int)) % (v.length : Int) = i % (v.length : Int) := by rw [Int.add_emod_right]
    rw [Int.toNat_of_nonneg hnn, ← h2, Int.emod_eq_of_lt (by omega) (by omega)]
  · rw [getItem_of_norm v i _ hn]
    simp [List.getD_eq_getElem?_getD, List.getElem?_eq_getElem hp]

example : getItem [5, 6, 7] (-1) = .ok 7 ∧ getItem [5, 6, 7] (-3) = .ok 5 ∧ getItem [5, 6, 7] 2 = .ok 7 :=
  ⟨rfl, rfl, rfl⟩

/-- An index outside `[-n, n)` raises `IndexError`, for reading and for writing. -/
theorem getitem_out_of_range_error (v : List Int) (i x : Int)
    (h : i < -(v.length : Int) ∨ (v.length : Int) ≤ i) :
    getItem v i = .error .index ∧ setItem v i x = .error .index := by
  have hn := normIndex_out v.length i h
  simp [getItem, setItem, hn]

/-- … and in the store model the out-of-range access touches nothing: the state is unchanged. -/
theorem getitem_out_of_range_untouched (kd : Kind) (hk : kd.isVec = true) (s : State) (x b : Nat) (i k : Int)
    (hx : s.xs x = some b) (hi : okIdx i = true) (hkk : okInt k = true)
    (h : i < -((s.read b).length : Int) ∨ ((s.read b).length : Int) ≤ i) :
    step kd s (.get x i) = (s, "ERR:Index") ∧ step kd s (.set x i k) = (s, "ERR:Index") := by
  have hg := getitem_out_of_range_error (s.read b) i k h
  rw [step_get kd hk s x b i hx hi, step_set kd hk s x b i k hx hi hkk, hg.1, hg.2]
  exact ⟨rfl, rfl⟩

example : getItem [5, 6, 7] 3 = .error .index ∧ getItem [5, 6, 7] (-4) = .error .index ∧
    setItem [5, 6, 7] 3 1 = .error .index ∧ getItem [] 0 = .error .index :=
  ⟨rfl, rfl, rfl, rfl⟩

/-- For `-n ≤ i < n`, `v[i] = x` replaces entry `i mod n` and nothing else. -/
theorem setitem_spec (v : List Int) (i x : Int) (h0 : -(v.length : Int) ≤ i) (h1 : i < v.length) :
    ∃ (p : Nat) (w : List Int), (p : Int) = i % (v.length : Int) ∧ setItem v i x = .ok w ∧ w.length = v.length ∧
      w[p]? = some x ∧ (∀ q, q ≠ p → w[q]? = v[q]?) ∧ getItem w i = .ok x := by
  have hn := normIndex_eq_mod v.length i h0 h1
  have hp := normIndex_lt _ _ _ hn
  have hne : (v.length : Int) ≠ 0 := by omega
  have hnn := Int.emod_nonneg i hne
  refine ⟨(i % (v.length : Int)).toNat, v.set (i % (v.length : Int)).toNat x, Int.toNat_of_nonneg hnn,
    setItem_of_norm v i x _ hn, List.length_set, List.getElem?_set_self hp, ?_, ?_⟩
  · intro q hq
    exact List.getElem?_set_ne (Ne.symm hq)
  · have hn' : normIndex (v.set (i % (v.length : Int)).toNat x).length i = some (i % (v.length : Int)).toNat := by
      rw [List.length_set]; exact hn
    rw [getItem_of_norm _ i _ hn', getD_set_same v _ x hp]

example : setItem [5, 6, 7] (-2) 9 = .ok [5, 9, 7] := rfl

/-! ### memory sharing -/

/-- `a = numpy.array(v, copy=False)` and `v` denote the same cells: the view shows the vector's entries, a write
    through the view is read back through the vector, a write through the vector is read back through the view. -/
theorem view_aliases (n : Nat) (s : State) (x a b : Nat) (i k : Int)
    (hx : s.xs x = some b) (hb : b < s.blocks.length)
    (h0 : -((s.read b).length : Int) ≤ i) (h1 : i < (s.read b).length)
    (hi : okIdx i = true) (hk : okInt k = true) :
    (step (.fv n) s (.view a x)).2 = showInts (s.read b) ∧
    (step (.fv n) (step (.fv n) (step (.fv n) s (.view a x)).1 (.aset a i k)).1 (.get x i)).2 = toString k ∧
    (step (.fv n) (step (.fv n) (step (.fv n) s (.view a x)).1 (.set x i k)).1 (.aget a i)).2 = toString k := by
  have hv : Kind.isVec (.fv n) = true := rfl
  have hn := normIndex_eq_mod (s.read b).length i h0 h1
  have hp := normIndex_lt _ _ _ hn
  rw [step_view n s a x b hx]
  refine ⟨rfl, ?_, ?_⟩
  · -- write through the view
    rw [step_aset (.fv n) hv _ a _ i k (bindA_arrs_same _ _ _) hi hk]
    simp only [fullView, hn]
    rw [step_get (.fv n) hv _ x b i (by rw [write_xs, bindA_xs]; exact hx) hi]
    have hlen : b < (s.bindA a { blk := b, off := 0, step := 1, len := (s.read b).length }).blocks.length := hb
    rw [read_write_same _ b _ hlen, bindA_read]
    have hpos : (View.pos { blk := b, off := 0, step := 1, len := (s.read b).length }
        (i % ((s.read b).length : Int)).toNat) = (i % ((s.read b).length : Int)).toNat :=
      fullView_pos b _ _
    rw [hpos]
    have hn' : normIndex ((s.read b).set (i % ((s.read b).length : Int)).toNat k).length i
        = some (i % ((s.read b).length : Int)).toNat := by rw [List.length_set]; exact hn
    rw [getItem_of_norm _ i _ hn', getD_set_same _ _ k hp]
  · -- write through the vector
    rw [step_set (.fv n) hv _ x b i k (by rw [bindA_xs]; exact hx) hi hk, bindA_read,
      setItem_of_norm _ i k _ hn]
    simp only []
    rw [step_aget (.fv n) hv _ a (fullView b (s.read b).length) i
      (by rw [write_arrs]; exact bindA_arrs_same _ _ _) hi]
    simp only [fullView, hn]
    have hlen : b < (s.bindA a { blk := b, off := 0, step := 1, len := (s.read b).length }).blocks.length := hb
    rw [read_write_same _ b _ hlen]
    have hpos : (View.pos { blk := b, off := 0, step := 1, len := (s.read b).length }
        (i % ((s.read b).length : Int)).toNat) = (i % ((s.read b).length : Int)).toNat :=
      fullView_pos b _ _
    rw [hpos, getD_set_same _ _ k hp]

example :
    let s0 := (step (.fv 3) {} (.new 0 .list [1, 2, 3])).1
    let s1 := (step (.fv 3) s0 (.view 0 0)).1
    let s2 := (step (.fv 3) s1 (.aset 0 (-1) 9)).1
    (step (.fv 3) s2 (.get 0 2)).2 = "9" := by decide

/-- A copy (`T(v)`, `v.copy()`) denotes fresh cells: it has the same entries, and afterwards writes to either
    side are invisible on the other. -/
theorem copy_independent (n : Nat) (s : State) (x y b : Nat) (i k j : Int) (viaMethod : Bool)
    (hx : s.xs x = some b) (hb : b < s.blocks.length) (hxy : x ≠ y)
    (hi : okIdx i = true) (hk : okInt k = true) (hj : okIdx j = true) :
    let cp : Op := if viaMethod then .mcopy y x else .copy y x
    let s1 := (step (.fv n) s cp).1
    (step (.fv n) s1 (.get y j)).2 = (step (.fv n) s (.get x j)).2 ∧
    (step (.fv n) (step (.fv n) s1 (.set y i k)).1 (.get x j)).2 = (step (.fv n) s (.get x j)).2 ∧
    (step (.fv n) (step (.fv n) s1 (.set x i k)).1 (.get y j)).2 = (step (.fv n) s (.get x j)).2 := by
  have hv : Kind.isVec (.fv n) = true := rfl
  have hs1 : (step (.fv n) s (if viaMethod then Op.mcopy y x else Op.copy y x)).1
      = (s.alloc (s.read b)).1.bindX y (s.alloc (s.read b)).2 := by
    cases viaMethod
    · simp only [Bool.false_eq_true, if_false]; rw [step_copy n s y x b hx]
    · simp only [if_true]; rw [step_mcopy n s y x b hx]
  simp only [hs1]
  -- abbreviations
  have hy1 : ((s.alloc (s.read b)).1.bindX y (s.alloc (s.read b)).2).xs y = some (s.alloc (s.read b)).2 :=
    bindX_same _ _ _
  have hx1 : ((s.alloc (s.read b)).1.bindX y (s.alloc (s.read b)).2).xs x = some b := by
    rw [bindX_other _ y x _ hxy, alloc_xs]; exact hx
  have hfresh : (s.alloc (s.read b)).2 ≠ b := by rw [alloc_fresh]; omega
  have hrc : ((s.alloc (s.read b)).1.bindX y (s.alloc (s.read b)).2).read (s.alloc (s.read b)).2 = s.read b := by
    rw [bindX_read, read_alloc_new]
  have hro : ((s.alloc (s.read b)).1.bindX y (s.alloc (s.read b)).2).read b = s.read b := by
    rw [bindX_read, read_alloc_old s _ b hb]
  have hlenc : (s.alloc (s.read b)).2 < ((s.alloc (s.read b)).1.bindX y (s.alloc (s.read b)).2).blocks.length := by
    rw [bindX_blocks, alloc_blocks_length, alloc_fresh]; omega
  refine ⟨?_, ?_, ?_⟩
  · rw [step_get (.fv n) hv _ y _ j hy1 hj, step_get (.fv n) hv s x b j hx hj, hrc]
  · rw [step_set (.fv n) hv _ y _ i k hy1 hi hk, hrc]
    cases hset : setItem (s.read b) i k with
    | error e =>
      simp only []
      rw [step_get (.fv n) hv _ x b j hx1 hj, step_get (.fv n) hv s x b j hx hj, hro]
    | ok w =>
      simp only []
      rw [step_get (.fv n) hv _ x b j (by rw [write_xs]; exact hx1) hj, step_get (.fv n) hv s x b j hx hj,
        read_write_other _ _ b w hfresh, hro]
  · rw [step_set (.fv n) hv _ x b i k hx1 hi hk, hro]
    cases hset : setItem (s.read b) i k with
    | error e =>
      simp only []
      rw [step_get (.fv n) hv _ y _ j hy1 hj, step_get (.fv n) hv s x b j hx hj, hrc]
    | ok w =>
      simp only []
      rw [step_get (.fv n) hv _ y _ j (by rw [write_xs]; exact hy1) hj, step_get (.fv n) hv s x b j hx hj,
        read_write_other _ b _ w (Ne.symm hfresh), hrc]

example :
    let s0 := (step (.fv 2) {} (.new 0 .list [4, 5])).1
    let s1 := (step (.fv 2) s0 (.mcopy 1 0)).1
    let s2 := (step (.fv 2) s1 (.set 1 0 9)).1
    (step (.fv 2) s2 (.get 0 0)).2 = "4" ∧ (step (.fv 2) s2 (.get 1 0)).2 = "9" := by decide

/-- `numpy.array(v)` (a copy) shows the entries and is not affected by later writes to the vector. -/
theorem npcopy_independent (kd : Kind) (hv : kd.isVec = true) (s : State) (x a b : Nat) (i k : Int)
    (hx : s.xs x = some b) (hb : b < s.blocks.length) (hi : okIdx i = true) (hk : okInt k = true) :
    let s1 := (step kd s (.npcopy a x)).1
    (step kd s (.npcopy a x)).2 = showInts (s.read b) ∧
    (step kd (step kd s1 (.set x i k)).1 (.alist a)).2 = showInts (s.read b) := by
  rw [step_npcopy kd hv s a x b hx]
  refine ⟨rfl, ?_⟩
  simp only []
  have hfresh : b ≠ (s.alloc (s.read b)).2 := by rw [alloc_fresh]; omega
  have hview : ∀ st : State, st.arrs a = some (fullView (s.alloc (s.read b)).2 (s.read b).length) →
      st.read (s.alloc (s.read b)).2 = s.read b → (step kd st (.alist a)).2 = showInts (s.read b) := by
    intro st ha hr
    simp only [step, hv, ha]
    have := viewVals_fullView st (s.alloc (s.read b)).2
    rw [hr] at this
    simp [this]
  rw [step_set kd hv _ x b i k (by rw [bindA_xs, alloc_xs]; exact hx) hi hk]
  cases hset : setItem (((s.alloc (s.read b)).1.bindA a (fullView (s.alloc (s.read b)).2 (s.read b).length)).read b) i k with
  | error e =>
    simp only []
    exact hview _ (bindA_arrs_same _ _ _) (by rw [bindA_read, read_alloc_new])
  | ok w =>
    simp only []
    apply hview
    · rw [write_arrs]; exact bindA_arrs_same _ _ _
    · rw [read_write_other _ b _ w hfresh, bindA_read, read_alloc_new]

/-! ### arithmetic, comparison, norms: the bound operation is the C++ operation on the entries -/

/-- Every copy-returning operator of `registerCopyingDenseVectorMethods` equals the plain vector operation on the
    entries (a list operand first becomes the vector `construct n L`); reflected subtraction has the sign of
    `L - v`; `0 - v` is the negation. -/
theorem ops_agree_with_cxx_model (n : Nat) (v L : List Int) (k : Int) :
    pyNeg v = vneg v ∧
    pyAddList n v L = vadd v (construct n L) ∧
    pySubList n v L = vsub v (construct n L) ∧
    pyRaddList n L v = vadd v (construct n L) ∧
    pyRsubList n L v = vsub (construct n L) v ∧
    pyRsubList n L v = vneg (pySubList n v L) ∧
    pyMul v k = v.map (fun e => k * e) ∧
    pyRsubZero v = vsub (List.replicate v.length 0) v ∧
    twoNorm2 v = vdot v v := by
  refine ⟨pyNeg_eq v, ?_, ?_, ?_, ?_, ?_, vscale_comm k v, ?_, twoNorm2_eq_dot v⟩
  · simp [pyAddList, constructLoop_eq]
  · simp [pySubList, constructLoop_eq]
  · simp only [pyRaddList, constructLoop_eq]; exact vadd_comm _ _
  · simp [pyRsubList, constructLoop_eq]
  · simp only [pyRsubList, pySubList]; exact vsub_swap _ _
  · rw [vsub_zero_left]; exact pyNeg_eq v

example : pyRsubList 3 [10, 10] [1, 2, 3] = [9, 8, -3] ∧ pyAddList 2 [1, 2] [5, 6, 7] = [6, 8] := by decide

/-- entrywise meaning of the plain operations (so that the statement above is not about opaque names) -/
theorem plain_ops_entrywise (a b : List Int) (k : Int) (i : Nat) (x y : Int)
    (ha : a[i]? = some x) (hb : b[i]? = some y) :
    (vadd a b)[i]? = some (x + y) ∧ (vsub a b)[i]? = some (x - y) ∧ (vscale k a)[i]? = some (x * k) ∧
    (vneg a)[i]? = some (-x) := by
  simp [vadd, vsub, vscale, vneg, List.getElem?_zipWith, ha, hb]

/-- norms: the one norm is the sum of absolute values, the infinity norm is an upper bound that is attained
    (0 for the empty vector), `two_norm2` is the sum of squares. -/
theorem norms_spec (e : Int) (v : List Int) :
    oneNorm [] = 0 ∧ oneNorm (e :: v) = iabs e + oneNorm v ∧
    twoNorm2 [] = 0 ∧ twoNorm2 (e :: v) = e * e + twoNorm2 v ∧
    (∀ a ∈ v, iabs a ≤ infNorm v) ∧ (infNorm v = 0 ∨ ∃ a ∈ v, infNorm v = iabs a) := by
  refine ⟨rfl, oneNorm_cons e v, rfl, twoNorm2_cons e v, (infNorm_foldl_ge v 0).2, infNorm_foldl_attained v 0⟩

/-- in-place `x += y` / `x -= y` (also when `x` and `y` are the same object): the vector's cells afterwards hold
    the plain sum / difference of the entries before. -/
theorem inplace_agrees (kd : Kind) (hv : kd.isVec = true) (s : State) (isSub : Bool) (x y bx by_ : Nat)
    (hx : s.xs x = some bx) (hy : s.xs y = some by_) (hb : bx < s.blocks.length)
    (hl : (s.read bx).length = (s.read by_).length)
    (hok : okVals (if isSub then vsub (s.read bx) (s.read by_) else vadd (s.read bx) (s.read by_)) = true) :
    (step kd s (.inplaceV isSub x y)).1.read bx
      = (if isSub then vsub (s.read bx) (s.read by_) else vadd (s.read bx) (s.read by_)) := by
  rw [step_inplaceV kd hv s isSub x y bx by_ hx hy hl hok]
  exact read_write_same s bx _ hb

example :
    let s0 := (step .dyn {} (.new 0 .list [1, 2, 3])).1
    (step .dyn s0 (.inplaceV false 0 0)).2 = "[2,4,6]" := by decide

/-! ### tuple vectors -/

/-- A tuple vector built from Python objects shows, entry by entry, the type (double / int / FieldVector of
    size n) and the values it was built from; so do the Python-side objects; built by reference the entries
    are the very same cells as the Python objects. -/
theorem tuplevector_preserves (byRef : Bool) (sh : List SlotTy) (V : List Int) (s : State)
    (hV : V.length = shapeWidth sh) :
    let r := buildSlots byRef sh V s
    r.2.2.map (readSlot r.1) = expected sh V ∧ r.2.1.map (readSlot r.1) = expected sh V ∧
    (byRef = true → r.2.2 = r.2.1) ∧
    (∀ b, b < s.blocks.length → r.1.read b = s.read b) := by
  have h := buildSlots_spec byRef sh V s (by omega)
  exact ⟨h.2.2.2.2.1, h.2.2.2.1, h.2.2.2.2.2, h.1.2⟩

example : expected [.d, .f 2, .i] [17, 2, 5, 3] = [(.d, [17]), (.f 2, [2, 5]), (.i, [3])] := by decide

example :
    (step (.tup [.d, .f 2, .i] false) {} (.tnew 0 [17, 2, 5, 3])).2 = "[d:17,F2:[2,5],i:3]" := by decide

end DV.C20
