/-
C03 — ParallelIndexSet is the sorted global→local map its resize history describes.

Property theorems only (helper lemmas live in Proofs/C03*.lean).  Everything is about the executable model
Model/C03.lean (`run`, `step`, `existsL`, `atL`, `getL`, `search`, `mergeLoop`, `sortFresh`, `renumFrom`,
`lookupAuto`, …) and quantifies over ALL histories `h : List Op`, all lists / sizes (including `[]` and one
element), all global indices.  The *specification* side (`specRun`, `WF`: Proofs/C03Spec.lean) is a bag of pairs
replayed along the history without any order, sorting, merging or searching:
  `WF h`  =  every set the history passes through has pairwise distinct global indices (the property's quantifier
             for the lookup/contents claims);  theorems without `WF` hold for equal globals as well.
-/
import DuneVerif.Proofs.C03Spec
import DuneVerif.Proofs.C03Src
import DuneVerif.Proofs.C03World

namespace DV.C03

/-! ## a concrete history used by the non-vacuity examples
two resize phases: add 5,2,9 (unsorted) · delete 5, re-add 5 with other data, add 7 · then renumber -/
def demo : List Op :=
  [.beginResize, .add 5 3 1 true, .add 2 0 0 false, .add 9 4 2 true, .endResize,
   .beginResize, .add 5 8 3 false, .markDel 5 1, .add 7 1 0 true, .endResize, .renumber]

example : WF demo := by decide
example : (run demo).st = .ground := by decide
example : globals (run demo).loc = [2, 5, 7, 9] := by decide
example : (run demo).seq = 2 := by decide

/-! ## contents and order -/

/-- GROUND state after any well-formed history: the stored sequence is exactly the pairs added and not deleted
(a permutation of the specification's bag), and it is *the* sorted arrangement of that bag. -/
theorem ground_contents (h : List Op) (hwf : WF h) (hg : (run h).st = .ground) :
    (run h).loc.Perm (specRun h).cur ∧ (run h).loc = sortFresh (specRun h).cur := by
  obtain ⟨hsim, hn⟩ := sim_run h hwf
  have hinv := run_inv h
  have hperm : (run h).loc.Perm (specRun h).cur := by
    have := hsim.cur
    rwa [map_revalid_of_allValid (hinv.ground hg).2] at this
  refine ⟨hperm, ?_⟩
  exact sorted_perm_unique _ _ hinv.sorted (sortFresh_sorted _) (hperm.trans (sortFresh_perm _).symm)
    (hsim.strict hinv hn).keysNodup

example : (specRun demo).cur.length = 4 ∧ (run demo).loc.length = 4 := by decide

/-- in an open resize phase the old pairs are still all there; exactly the ones marked deleted carry DELETED -/
theorem resize_contents (h : List Op) (hwf : WF h) :
    ((run h).loc.map revalid).Perm (specRun h).cur ∧ (run h).fresh.Perm (specRun h).add ∧
    ∀ p ∈ (run h).loc, (p.l.valid = false ↔ key p ∈ (specRun h).del) :=
  let hs := (sim_run h hwf).1
  ⟨hs.cur, hs.fresh, hs.marks⟩

/-- iteration is strictly ascending in the global index (pairwise distinct globals) -/
theorem iter_strictly_ascending (h : List Op) (hwf : WF h) : StrictG (run h).loc :=
  let ⟨hsim, hn⟩ := sim_run h hwf
  hsim.strict (run_inv h) hn

/-- ordering claim for ALL histories, equal global indices with different attributes included:
iteration is ascending in (global, attribute) -/
theorem iter_ascending_lex (h : List Op) : SortedLex (run h).loc := (run_inv h).sorted

/-- equal globals, different attributes -/
def demoDup : List Op := [.beginResize, .add 4 0 2 true, .add 4 1 0 true, .add 1 2 3 false, .endResize]
example : (run demoDup).loc.map key = [(1, 3), (4, 0), (4, 2)] := by decide

/-- after every history: in GROUND state nothing is pending and no stored pair is marked DELETED -/
theorem ground_clean (h : List Op) (hg : (run h).st = .ground) : (run h).fresh = [] ∧ AllValid (run h).loc :=
  (run_inv h).ground hg

/-! ## the merge and the sort, for arbitrary lists -/

/-- the three-way merge keeps exactly the old entries not marked DELETED plus all added ones -/
theorem merge_contents (old added : List Pair) :
    (mergeLoop old added).Perm (old.filter (·.l.valid) ++ added) := mergeLoop_perm old added

/-- … and yields an ascending sequence from ascending inputs -/
theorem merge_ascending (old added : List Pair) (h1 : SortedLex old) (h2 : SortedLex added) :
    SortedLex (mergeLoop old added) := mergeLoop_sorted old added h1 h2

/-- one completed `endResize` from any state satisfying the invariant of reachable states -/
theorem endResize_contents (s s' : ISet) (hinv : Inv s) (h : endResize s = .ok s') :
    s'.loc.Perm (s.loc.filter (·.l.valid) ++ s.fresh) ∧ SortedLex s'.loc ∧ AllValid s'.loc ∧ s'.fresh = [] :=
  let ⟨h1, h2, h3, h4, _⟩ := endResize_spec hinv h
  ⟨h1, h2, h3, h4⟩

/-- modelling `std::sort` by insertion sort loses nothing: with pairwise distinct (global, attribute) the ascending
arrangement of a bag is unique, so every sorting algorithm returns `sortFresh xs` -/
theorem sort_unique (xs ys : List Pair) (hp : ys.Perm xs) (hs : SortedLex ys) (hk : KeysNodup ys) :
    ys = sortFresh xs :=
  sorted_perm_unique ys (sortFresh xs) hs (sortFresh_sorted xs) (hp.trans (sortFresh_perm xs).symm) hk

example : sortFresh [⟨5, ⟨0,0,true,true⟩⟩, ⟨-1, ⟨1,0,true,true⟩⟩, ⟨3, ⟨2,1,false,true⟩⟩] =
    [⟨-1, ⟨1,0,true,true⟩⟩, ⟨3, ⟨2,1,false,true⟩⟩, ⟨5, ⟨0,0,true,true⟩⟩] := by decide

/-! ## lookups: every size, including 0 and 1 -/

/-- the binary search terminates within its fuel and never reads outside the list — for EVERY list (sorted or
not), every size, every global index; on a non-empty list the result is a valid position -/
theorem search_terminates (xs : List Pair) (g : Int) :
    ∃ r, search xs g = some r ∧ 0 ≤ r ∧ (xs ≠ [] → r < xs.length) := search_total xs g

/-- hence `exists` and `at` are defined (no undefined behaviour) on every list, `operator[]` on every non-empty one -/
theorem lookups_total (xs : List Pair) (g : Int) :
    (existsL xs g).isSome ∧ (atL xs g).isSome ∧ (xs ≠ [] → (getL xs g).isSome) := by
  obtain ⟨r, hr, h0, h1⟩ := search_total xs g
  by_cases hne : xs = []
  · subst hne; simp [existsL, atL, hr]
  · have hlen : xs.length ≠ 0 := fun h => hne (List.eq_nil_of_length_eq_zero h)
    obtain ⟨p, hp⟩ := pAt_isSome (xs := xs) h0 (h1 hne)
    have hg : gAt xs r = some p.g := gAt_some_iff.2 ⟨p, hp, rfl⟩
    refine ⟨?_, ?_, fun _ => ?_⟩
    · simp only [existsL, hr, hlen, if_false, hg]; split <;> rfl
    · simp only [atL, hr, hlen, if_false, hp]; split <;> rfl
    · simp [getL, hr, hp]

/-- `exists(g)` is true exactly for the stored global indices — on every ascending list … -/
theorem exists_iff_sorted (xs : List Pair) (hs : SortedG xs) (g : Int) :
    existsL xs g = some (decide (g ∈ globals xs)) := existsL_spec xs g hs

/-- … in particular on the empty and on every one-element set (the case the unrepaired code got wrong) … -/
theorem exists_empty (g : Int) : existsL [] g = some false := by
  simpa [globals] using existsL_spec [] g (by simp [SortedG])

theorem exists_singleton (p : Pair) (g : Int) : existsL [p] g = some (decide (g = p.g)) := by
  simpa [globals] using existsL_spec [p] g (by simp [SortedG])

/-- … and after EVERY history (no well-formedness needed) -/
theorem exists_iff (h : List Op) (g : Int) :
    existsL (run h).loc g = some (decide (g ∈ globals (run h).loc)) :=
  existsL_spec _ g (run_inv h).sorted.sortedG

/-- in terms of the specification: exists(g) ⇔ some pair with global g was added and not deleted -/
theorem exists_iff_spec (h : List Op) (hwf : WF h) (g : Int) :
    existsL (run h).loc g = some (decide (g ∈ globals (specRun h).cur)) := by
  rw [exists_iff]
  have := (sim_run h hwf).1.globals_eq.mem_iff (a := g)
  simp only [this]

example : existsL (run demo).loc 7 = some true ∧ existsL (run demo).loc 6 = some false := by decide

/-- checked access returns precisely the stored pair … -/
theorem at_found (h : List Op) (hwf : WF h) (p : Pair) (hp : p ∈ (run h).loc) :
    atL (run h).loc p.g = some (.ok p) := by
  rw [atL_spec _ _ (run_inv h).sorted.sortedG, find_of_strict (iter_strictly_ascending h hwf) hp]

/-- … and reports absence (RangeError) for every other global index — all histories -/
theorem at_absent_error (h : List Op) (g : Int) (hg : g ∉ globals (run h).loc) :
    atL (run h).loc g = some (.error .range) := by
  rw [atL_spec _ _ (run_inv h).sorted.sortedG]
  have : (run h).loc.find? (·.g == g) = none := by
    rw [List.find?_eq_none]
    intro x hx hxg
    exact hg (List.mem_map.2 ⟨x, hx, by simpa using hxg⟩)
  rw [this]

/-- all histories (equal globals allowed): `at` returns the first stored pair with this global index, else RangeError -/
theorem at_first (h : List Op) (g : Int) :
    atL (run h).loc g = some (match (run h).loc.find? (·.g == g) with | some p => .ok p | none => .error .range) :=
  atL_spec _ _ (run_inv h).sorted.sortedG

theorem at_singleton (p : Pair) : atL [p] p.g = some (.ok p) := by
  rw [atL_spec [p] p.g (by simp [SortedG])]; simp

/-- unchecked access `operator[]` returns precisely the stored pair (and its position) when the index is present -/
theorem getElem_found (h : List Op) (hwf : WF h) (p : Pair) (hp : p ∈ (run h).loc) :
    ∃ i, getL (run h).loc p.g = some (i, p) ∧ (run h).loc[i]? = some p := by
  have hmem : p.g ∈ globals (run h).loc := List.mem_map.2 ⟨p, hp, rfl⟩
  obtain ⟨i, q, h1, h2, h3⟩ := getL_spec _ p.g (run_inv h).sorted.sortedG hmem
  rw [find_of_strict (iter_strictly_ascending h hwf) hp] at h3
  cases h3
  exact ⟨i, h1, h2⟩

/-- in terms of the specification, GROUND state: checked and unchecked access to any pair that was added and not deleted
return precisely that pair; `at` of any other global index throws RangeError and `exists` is false -/
theorem lookups_spec (h : List Op) (hwf : WF h) (hg : (run h).st = .ground) :
    (∀ p ∈ (specRun h).cur, atL (run h).loc p.g = some (.ok p) ∧ ∃ i, getL (run h).loc p.g = some (i, p)) ∧
    (∀ g, g ∉ globals (specRun h).cur → atL (run h).loc g = some (.error .range) ∧ existsL (run h).loc g = some false) := by
  have hperm := (ground_contents h hwf hg).1
  refine ⟨fun p hp => ?_, fun g hgn => ?_⟩
  · have hp' : p ∈ (run h).loc := hperm.mem_iff.2 hp
    obtain ⟨i, hi, _⟩ := getElem_found h hwf p hp'
    exact ⟨at_found h hwf p hp', i, hi⟩
  · have hgn' : g ∉ globals (run h).loc := fun hm => hgn ((hperm.map (·.g)).mem_iff.1 hm)
    refine ⟨at_absent_error h g hgn', ?_⟩
    rw [exists_iff]; simp [hgn']

/-- the C++ variables `low`, `high`, `probe` are 32-bit `int`s: for every list of at most 2^30 entries (sorted or not)
neither `size()-1` nor `high+low` nor `probe+1` leaves the range of `int`, and the result is that of the unbounded
`search` all other theorems speak about -/
theorem search_int32_safe (xs : List Pair) (g : Int) (hlen : xs.length ≤ 1073741824) :
    searchI32 xs g = search xs g ∧ (searchI32 xs g).isSome := by
  have h := searchI32_eq xs g hlen
  obtain ⟨r, hr, _⟩ := search_total xs g
  exact ⟨h, by rw [h, hr]; rfl⟩

example : searchI32 (run demo).loc 7 = some 2 := by decide
example : (run demo).st = .ground ∧ (⟨7, ⟨2, 0, true, true⟩⟩ : Pair) ∈ (specRun demo).cur ∧ (6 : Int) ∉ globals (specRun demo).cur := by
  decide

example : atL (run demo).loc 5 = some (.ok ⟨5, ⟨1, 3, false, true⟩⟩) := rfl
example : atL (run demo).loc 4 = some (.error .range) := rfl

/-! ## sequence number -/

/-- `seqNo` changes exactly when an `endResize` completes, and then by one -/
theorem seq_step (s : ISet) (op : Op) :
    (step s op).1.seq = s.seq + (if op = .endResize ∧ s.st = .resize then 1 else 0) := by
  cases op with
  | endResize =>
    simp only [step]
    cases h : endResize s with
    | error e =>
      have hst : s.st ≠ .resize := by intro hst; simp [endResize, hst] at h
      simp [lift, hst]
    | ok s' =>
      obtain ⟨hst, _, _, h3, _⟩ := endResize_ok h
      simp [lift, hst, h3]
  | beginResize => simp only [step, beginResize]; split <;> simp [lift]
  | add g l a p => simp only [step, add]; split <;> simp [lift]
  | addG g => simp only [step, add]; split <;> simp [lift]
  | markDel g a =>
    simp only [step]; split
    · simp
    · simp only [markAsDeleted]; split <;> simp [lift]
  | renumber => simp only [step, renumberLocal]; split <;> simp [lift]
  | setLocal g l =>
    simp only [step]; split
    · split
      · simp
      · next s' h => obtain ⟨i, p, _, rfl⟩ := setLocalVia_some h; simp
    · simp
  | get g => simp only [step]; split <;> simp
  | lookupN n => simp only [step]; split <;> simp
  | exists_ g => simp [step]
  | at_ g => simp [step]
  | seqNo => simp [step]
  | size => simp [step]
  | state => simp [step]
  | dump => simp [step]
  | lookup => simp [step]

/-- the sequence number never decreases along a history … -/
theorem seq_mono (h h' : List Op) : (run h).seq ≤ (run (h ++ h')).seq := by
  unfold run
  rw [runFrom_append]
  generalize (runFrom init h).1 = s
  induction h' generalizing s with
  | nil => exact Nat.le_refl _
  | cons op ops ih =>
    simp only [runFrom]
    have := seq_step s op
    exact Nat.le_trans (by omega) (ih (step s op).1)

/-- … and strictly increases with every completed resize -/
theorem seq_strict_mono (h : List Op) (hr : (run h).st = .resize) :
    (run (h ++ [.endResize])).seq = (run h).seq + 1 ∧ (run (h ++ [.endResize])).st = .ground := by
  unfold run at *
  rw [runFrom_append]
  generalize (runFrom init h).1 = s at *
  simp only [runFrom, step]
  cases he : endResize s with
  | error e => simp [endResize, hr] at he
  | ok s' =>
    obtain ⟨_, _, _, h3, h4, _⟩ := endResize_ok he
    exact ⟨h3, h4⟩

/-- it equals the specification's count of completed resizes -/
theorem seq_eq_spec (h : List Op) (hwf : WF h) : (run h).seq = (specRun h).seq := (sim_run h hwf).1.seq

example : (run (demo ++ [.beginResize])).st = .resize := by decide

/-! ## renumbering -/

/-- `renumberLocal` in GROUND state assigns the consecutive numbers 0,1,2,… in iteration (= global) order and
changes nothing else -/
theorem renumber_spec (h : List Op) (hg : (run h).st = .ground) :
    (run (h ++ [.renumber])).loc.length = (run h).loc.length ∧
    ∀ (i : Nat) (p : Pair), (run h).loc[i]? = some p → (run (h ++ [.renumber])).loc[i]? = some (setLoc p i) := by
  unfold run at *
  rw [runFrom_append]
  generalize (runFrom init h).1 = s at *
  have hne : ¬ s.st = .resize := by rw [hg]; intro h; cases h
  simp only [runFrom, step, renumberLocal, hne, if_false, lift]
  refine ⟨renumFrom_length 0 s.loc, ?_⟩
  intro i p hp
  rw [renumFrom_getElem?, hp]
  simp

/-- equivalently: the new local number of a pair is the number of stored pairs with a smaller global index -/
theorem renumber_rank (h : List Op) (hwf : WF h) (hg : (run h).st = .ground) :
    (run (h ++ [.renumber])).loc = (run h).loc.map fun p => setLoc p (rank p (run h).loc) := by
  have hstrict := iter_strictly_ascending h hwf
  unfold run at *
  rw [runFrom_append]
  generalize (runFrom init h).1 = s at *
  have hne : ¬ s.st = .resize := by rw [hg]; intro h; cases h
  simp only [runFrom, step, renumberLocal, hne, if_false, lift]
  rw [renumFrom_eq_rank 0 s.loc hstrict.before]
  simp

example : (run demo).loc.map (·.l.loc) = [0, 1, 2, 3] := by decide

/-! ## reverse lookup (GlobalLookupIndexSet) -/

/-- `GlobalLookupIndexSet(set)`: when the local numbers are pairwise distinct the table inverts the map —
`pair(p.local) = p` for every stored pair, a null pointer in every cell whose number no pair carries (stated for the
cells INSIDE the table only: `pair(j)` with `j ≥ size` is an out-of-range read in the C++ code); its size is max local + 1 -/
theorem reverse_lookup_inverts (xs : List Pair) (hd : (xs.map (·.l.loc)).Nodup) :
    ∃ t, lookupAuto xs = some t ∧ t.length = maxLocal xs 0 + 1 ∧
      (∀ p ∈ xs, tablePair t p.l.loc = some p) ∧
      (∀ j, j < t.length → (∀ p ∈ xs, p.l.loc ≠ j) → t[j]? = some none) := by
  have hb : ∀ p ∈ xs, p.l.loc < (List.replicate (maxLocal xs 0 + 1) (none : Option Pair)).length := by
    intro p hp
    have := (maxLocal_ge xs 0).2 p hp
    simp; omega
  obtain ⟨t, h1, h2, h3, h4⟩ := fillTable_spec xs _ hb
  have hlen : t.length = maxLocal xs 0 + 1 := by simpa using h2
  refine ⟨t, h1, hlen, ?_, ?_⟩
  · intro p hp
    obtain ⟨q, hq, hql, hqt⟩ := h4 p hp
    have : q = p := eq_of_nodup_map (·.l.loc) xs hd q hq p hp hql
    subst this
    simp [tablePair, hqt]
  · intro j hjl hj
    rw [h3 j hj]
    exact replicate_none_getElem? _ j (by omega)

/-- the same for `GlobalLookupIndexSet(set, n)` whenever every local number is below `n` (the constructor's assert) -/
theorem reverse_lookup_sized (xs : List Pair) (n : Nat) (hb : ∀ p ∈ xs, p.l.loc < n) (hd : (xs.map (·.l.loc)).Nodup) :
    ∃ t, lookupSized xs n = some t ∧ t.length = n ∧
      (∀ p ∈ xs, tablePair t p.l.loc = some p) ∧
      (∀ j, j < n → (∀ p ∈ xs, p.l.loc ≠ j) → t[j]? = some none) := by
  obtain ⟨t, h1, h2, h3, h4⟩ := fillTable_spec xs (List.replicate n none) (by simpa using hb)
  refine ⟨t, h1, by simpa using h2, ?_, ?_⟩
  · intro p hp
    obtain ⟨q, hq, hql, hqt⟩ := h4 p hp
    have : q = p := eq_of_nodup_map (·.l.loc) xs hd q hq p hp hql
    subst this
    simp [tablePair, hqt]
  · intro j hjl hj
    rw [h3 j hj]
    exact replicate_none_getElem? _ j hjl

/-- without any assumption on the local numbers (several pairs may carry the same one): every cell holds SOME stored pair
with that local number, or null when there is none — which of several candidates is not part of the property -/
theorem reverse_lookup_some_carrier (xs : List Pair) :
    ∃ t, lookupAuto xs = some t ∧ ∀ p ∈ xs, ∃ q ∈ xs, q.l.loc = p.l.loc ∧ tablePair t p.l.loc = some q := by
  have hb : ∀ p ∈ xs, p.l.loc < (List.replicate (maxLocal xs 0 + 1) (none : Option Pair)).length := by
    intro p hp
    have := (maxLocal_ge xs 0).2 p hp
    simp; omega
  obtain ⟨t, h1, _, _, h4⟩ := fillTable_spec xs _ hb
  refine ⟨t, h1, fun p hp => ?_⟩
  obtain ⟨q, hq, hql, hqt⟩ := h4 p hp
  exact ⟨q, hq, hql, by simp [tablePair, hqt]⟩

/-- the forward lookup of the table is the index set's own `operator[]` (`indexSet_[global]`), so on a reachable set
with distinct local numbers  `pair(operator[](g).local) = operator[](g)` -/
theorem reverse_lookup_roundtrip (h : List Op) (hwf : WF h) (hd : ((run h).loc.map (·.l.loc)).Nodup)
    (p : Pair) (hp : p ∈ (run h).loc) :
    ∃ t i, lookupAuto (run h).loc = some t ∧ getL (run h).loc p.g = some (i, p) ∧ tablePair t p.l.loc = some p := by
  obtain ⟨t, h1, _, h3, _⟩ := reverse_lookup_inverts _ hd
  obtain ⟨i, hi, _⟩ := getElem_found h hwf p hp
  exact ⟨t, i, h1, hi, h3 p hp⟩

/-- the hypothesis of the three theorems above is established by `renumberLocal`: after renumbering in GROUND state
(ANY history, no well-formedness needed) the automatic table has one cell per stored pair (one null cell for the empty
set) and cell `i` is the `i`-th pair in iteration order, whose local number is `i` -/
theorem reverse_lookup_after_renumber (h : List Op) (hg : (run h).st = .ground) :
    ∃ t, lookupAuto (run (h ++ [.renumber])).loc = some t ∧ t.length = max 1 (run h).loc.length ∧
      ∀ (i : Nat) (p : Pair), (run (h ++ [.renumber])).loc[i]? = some p → p.l.loc = i ∧ tablePair t i = some p := by
  have hloc : (run (h ++ [.renumber])).loc = renumFrom 0 (run h).loc := by
    unfold run at *
    rw [runFrom_append]
    generalize (runFrom init h).1 = s at *
    have hne : ¬ s.st = .resize := by rw [hg]; intro h; cases h
    simp only [runFrom, step, renumberLocal, hne, if_false, lift]
  rw [hloc]
  generalize (run h).loc = xs
  have hlocs := renumFrom_locs 0 xs
  have hd : ((renumFrom 0 xs).map (·.l.loc)).Nodup := by rw [hlocs]; exact List.nodup_range'
  obtain ⟨t, h1, h2, h3, _⟩ := reverse_lookup_inverts _ hd
  refine ⟨t, h1, ?_, ?_⟩
  · rw [h2]
    by_cases hx : xs = []
    · subst hx; rfl
    · rw [maxLocal_renumFrom xs 0 0 hx (Nat.le_refl _)]
      have : 0 < xs.length := List.length_pos_iff.2 hx
      omega
  · intro i p hp
    have hpl : p.l.loc = i := by
      rw [renumFrom_getElem?] at hp
      obtain ⟨q, _, rfl⟩ := Option.map_eq_some_iff.1 hp
      simp [setLoc]
    refine ⟨hpl, ?_⟩
    have := h3 p (List.mem_of_getElem? hp)
    rwa [hpl] at this

example : ((run demo).loc.map (·.l.loc)).Nodup := by decide
example : ∃ t, lookupAuto (run (demo ++ [.renumber])).loc = some t ∧ t.length = 4 := ⟨_, rfl, rfl⟩
/-- several pairs with the same local number (the case `reverse_lookup_some_carrier` is about) -/
example : ((run [.beginResize, .add 1 0 0 true, .add 2 0 1 true, .endResize]).loc.map (·.l.loc)) = [0, 0] := by decide

example : ∃ t, lookupAuto (run demo).loc = some t ∧ t.length = 4 ∧
    (t.map fun c => c.map (·.g)) = [some 2, some 5, some 7, some 9] := by decide

/-! ## state checks -/

/-- every operation called in the wrong state is rejected with InvalidIndexSetState (six cases: beginResize in
RESIZE; add(g,l), add(g), markAsDeleted, endResize in GROUND; renumberLocal in RESIZE) and the set is unchanged -/
theorem wrong_state_rejected (s : ISet) :
    (s.st = .resize → step s .beginResize = (s, .err .invalidState)) ∧
    (s.st = .ground → ∀ g l a p, step s (.add g l a p) = (s, .err .invalidState)) ∧
    (s.st = .ground → ∀ g, step s (.addG g) = (s, .err .invalidState)) ∧
    (s.st = .ground → ∀ i, markAsDeleted s i = .error .invalidState) ∧
    (s.st = .ground → ∀ g a, (∃ p ∈ s.loc, p.g = g ∧ p.l.attr = a) → step s (.markDel g a) = (s, .err .invalidState)) ∧
    (s.st = .ground → step s .endResize = (s, .err .invalidState)) ∧
    (s.st = .resize → step s .renumber = (s, .err .invalidState)) := by
  refine ⟨?_, ?_, ?_, ?_, ?_, ?_, ?_⟩
  · intro h; simp [step, beginResize, h, lift]
  · intro h g l a p; simp [step, add, h, lift]
  · intro h g; simp [step, add, h, lift]
  · intro h i; simp [markAsDeleted, h]
  · intro h g a ⟨p, hp, hpg⟩
    cases hf : findKey g a s.loc with
    | none => exact absurd hpg (findKey_none hf p hp)
    | some i => simp [step, hf, markAsDeleted, h, lift]
  · intro h; simp [step, endResize, h, lift]
  · intro h; simp [step, renumberLocal, h, lift]

/-- conversely, in the right state all mutators are accepted (both `add` overloads; `markAsDeleted` for every stored entry) -/
theorem right_state_accepted (s : ISet) :
    (s.st = .ground → (step s .beginResize).2 = .ok ∧ (step s .renumber).2 = .ok) ∧
    (s.st = .resize → (∀ g l a p, (step s (.add g l a p)).2 = .ok) ∧ (∀ g, (step s (.addG g)).2 = .ok) ∧
      (∀ g a, (∃ p ∈ s.loc, p.g = g ∧ p.l.attr = a) → (step s (.markDel g a)).2 = .ok) ∧ (step s .endResize).2 = .ok) := by
  refine ⟨fun h => ?_, fun h => ⟨?_, ?_, ?_, ?_⟩⟩
  · simp [step, beginResize, renumberLocal, h, lift]
  · simp [step, add, h, lift]
  · simp [step, add, h, lift]
  · intro g a ⟨p, hp, hpg⟩
    cases hf : findKey g a s.loc with
    | none => exact absurd hpg (findKey_none hf p hp)
    | some i => simp [step, hf, markAsDeleted, h, lift]
  · simp [step, endResize, h, lift]

/-- whatever operation reports an error (InvalidIndexSetState or RangeError) leaves the whole state as it was -/
theorem rejected_op_leaves_state (s : ISet) (op : Op) (e : Err) (h : (step s op).2 = .err e) :
    (step s op).1 = s := by
  cases op with
  | beginResize => revert h; simp only [step, beginResize]; split <;> simp [lift]
  | add g l a p => revert h; simp only [step, add]; split <;> simp [lift]
  | addG g => revert h; simp only [step, add]; split <;> simp [lift]
  | markDel g a =>
    revert h; simp only [step]; split
    · simp
    · simp only [markAsDeleted]; split <;> simp [lift]
  | endResize =>
    revert h; simp only [step]
    cases endResize s <;> simp [lift]
  | renumber => revert h; simp only [step, renumberLocal]; split <;> simp [lift]
  | setLocal g l =>
    revert h; simp only [step]; split
    · split <;> simp
    · simp
  | get g => simp only [step]; split <;> rfl
  | lookupN n => simp only [step]; split <;> rfl
  | exists_ g => rfl
  | at_ g => rfl
  | seqNo => rfl
  | size => rfl
  | state => rfl
  | dump => rfl
  | lookup => rfl

example : (step (run demo) (.add 1 1 1 true)).2 = .err .invalidState := by decide
example : (step (run (demo ++ [.beginResize])) .renumber).2 = .err .invalidState := by decide

/-! ## the tie to the source: the model coincides with the pieces regenerated from indexset.hh / plocalindex.hh

`Gen.*` (lean/DuneVerif/Gen/C03.lean) is rewritten by tools/translators/tr_c03.py from the working tree on every run;
`Src.*` (Model/C03Src.lean) interprets it.  Each theorem says: the hand-written model function all theorems above are
about is exactly what the source text says.  A changed check, effect, comparison, DELETED test or search skeleton
changes a `Gen` definition and with it what has to be proved here.

Deliberately NOT tied (they cannot break the property, so a change there must not raise an alarm): what the mutators
other than `markAsDeleted` do to `deletedEntries_` and the two branch conditions of `merge()` — both only decide
whether `merge()` may skip work whose result would be the unchanged list (`Gen.mergeCopies`, `Gen.mergeLoops` are
emitted for information); whether a check is the first statement (`Check.first`).  Round four (end of this file) adds: the
generic `LocalIndexComparator`, the constructor, the statement order of `endResize`, the loop of `renumberLocal`, `merge()` as
a whole program, both `GlobalLookupIndexSet` constructors and the local index classes. -/
open Src in
/-- all seven state checks throw `InvalidIndexSetState` -/
theorem checks_matches_source :
    ∀ c ∈ [Gen.chk_beginResize, Gen.chk_add1, Gen.chk_add2, Gen.chk_markAsDeleted, Gen.chk_iterMarkAsDeleted,
      Gen.chk_endResize, Gen.chk_renumberLocal], c.exc = "InvalidIndexSetState" := by decide

open Src in
theorem beginResize_matches_source (s : ISet) :
    (beginResize s).map visible = (mutatorSrc Gen.chk_beginResize Gen.eff_beginResize id s).map visible := by
  simp only [Gen.chk_beginResize, Gen.eff_beginResize, mutatorSrc, Check.rejects, Effects.apply, beginResize]
  cases h : s.st <;> simp [Except.map, visible]

open Src in
/-- both `add` overloads -/
theorem add_matches_source (s : ISet) (p : Pair) :
    (add s p).map visible = (mutatorSrc Gen.chk_add2 Gen.eff_add2 (fun s => { s with fresh := s.fresh ++ [p] }) s).map visible ∧
    (add s p).map visible = (mutatorSrc Gen.chk_add1 Gen.eff_add1 (fun s => { s with fresh := s.fresh ++ [p] }) s).map visible := by
  simp only [Gen.chk_add1, Gen.chk_add2, Gen.eff_add1, Gen.eff_add2, mutatorSrc, Check.rejects, Effects.apply, add]
  cases h : s.st <;> simp [Except.map, visible]

open Src in
/-- `markAsDeleted(iterator)`: the check of the index set, then the check of `iterator::markAsDeleted`; here the effect
on `deletedEntries_` matters (it makes the next `endResize` drop the entry) and is part of the statement -/
theorem markAsDeleted_matches_source (s : ISet) (i : Nat) :
    markAsDeleted s i =
      if Gen.chk_markAsDeleted.rejects s.st || Gen.chk_iterMarkAsDeleted.rejects s.st then .error .invalidState
      else .ok (Gen.eff_markAsDeleted.apply { s with loc := modifyAt setDeleted i s.loc }) := by
  simp only [markAsDeleted, Gen.chk_markAsDeleted, Gen.chk_iterMarkAsDeleted, Check.rejects, Gen.eff_markAsDeleted,
    Effects.apply]
  cases s.st <;> simp

open Src in
theorem endResize_matches_source (s : ISet) :
    (endResize s).map visible =
      (mutatorSrc Gen.chk_endResize Gen.eff_endResize (fun s => merge { s with fresh := sortFresh s.fresh }) s).map visible := by
  simp only [Gen.chk_endResize, Gen.eff_endResize, mutatorSrc, Check.rejects, Effects.apply, endResize]
  cases h : s.st <;> simp [Except.map, visible]

open Src in
theorem renumberLocal_matches_source (s : ISet) :
    (renumberLocal s).map visible =
      (mutatorSrc Gen.chk_renumberLocal Gen.eff_renumberLocal (fun s => { s with loc := renumFrom 0 s.loc }) s).map visible := by
  simp only [Gen.chk_renumberLocal, Gen.eff_renumberLocal, mutatorSrc, Check.rejects, Effects.apply, renumberLocal]
  cases h : s.st <;> simp [Except.map, visible]

open Src in
/-- `IndexSetSortFunctor` and the comparison in `merge()`, each together with
`LocalIndexComparator<ParallelLocalIndex<T>>`, are the model's `before` -/
theorem comparison_matches_source (x y : Pair) :
    beforeSrc Gen.sortFunctor Gen.plocalCompare x y = before x y ∧
    beforeSrc Gen.mergeTakesOld Gen.plocalCompare x y = before x y :=
  ⟨beforeSrc_canon x y, beforeSrc_canon x y⟩

open Src in
/-- the three loops of `merge()` with the source's comparison and its two DELETED tests -/
theorem merge_matches_source (old added : List Pair) :
    mergeLoop old added =
      mergeLoopSrc Gen.mergeTakesOld Gen.plocalCompare Gen.mergeLoop1Drops Gen.mergeLoop2Keeps old added :=
  (mergeLoopSrc_canon old added).symm

open Src in
/-- the five copies of the binary search: `exists`, `at`, `at const`, `operator[]`, `operator[] const` -/
theorem lookups_match_source (xs : List Pair) (g : Int) :
    (lookupSrc Gen.search_exists xs g).toExists = existsL xs g ∧
    (lookupSrc Gen.search_at xs g).toAt = atL xs g ∧
    (lookupSrc Gen.search_atConst xs g).toAt = atL xs g ∧
    (lookupSrc Gen.search_get xs g).toGet = getL xs g ∧
    (lookupSrc Gen.search_getConst xs g).toGet = getL xs g :=
  ⟨lookupSrc_exists xs g, lookupSrc_at xs g, lookupSrc_at xs g, lookupSrc_get xs g, lookupSrc_get xs g⟩

/-! ## round four: more of the source inside the theorems -/

open Src in
/-- the instantiation with `TL = LocalIndex` uses the GENERIC `LocalIndexComparator` (regenerated as `Gen.genericCompare`):
on pairs of equal attribute — `LocalIndex` has none, the `NL` configurations carry attribute 0 throughout — sort functor and
merge comparison with that comparator are the model's `before` as well -/
theorem comparison_generic_matches_source (x y : Pair) (h : x.l.attr = y.l.attr) :
    beforeSrc Gen.sortFunctor Gen.genericCompare x y = before x y ∧
    beforeSrc Gen.mergeTakesOld Gen.genericCompare x y = before x y :=
  ⟨beforeSrc_generic x y h, beforeSrc_generic x y h⟩

example : (⟨3, ⟨1, 0, false, true⟩⟩ : Pair).l.attr = (⟨2, ⟨5, 0, false, true⟩⟩ : Pair).l.attr := rfl

open Src in
/-- `endResize()`: the container statements behind the check, in SOURCE ORDER (`std::sort` of the whole of `newIndices_`
with `IndexSetSortFunctor`, then `merge()`; nothing the translator does not understand), followed by the scalar effects,
are the model's `endResize` -/
theorem endResize_calls_match_source (s : ISet) :
    Call.unknown ∉ Gen.endResizeCalls ∧
    (endResize s).map visible =
      (mutatorSrc Gen.chk_endResize Gen.eff_endResize (runCalls Gen.endResizeCalls) s).map visible := by
  refine ⟨by decide, ?_⟩
  simp only [Gen.chk_endResize, Gen.eff_endResize, Gen.endResizeCalls, runCalls, List.foldl, Call.apply, mutatorSrc,
    Check.rejects, Effects.apply, endResize]
  cases h : s.st <;> simp [Except.map, visible]

example : (Src.runCalls Gen.endResizeCalls { (run demo) with fresh := [⟨8, ⟨0,0,true,true⟩⟩, ⟨1, ⟨0,0,true,true⟩⟩] }).loc.map (·.g) =
    [1, 2, 5, 7, 8, 9] := by decide

open Src in
/-- the loop of `renumberLocal()` — start value of the counter, its increment, the assigned expression, all read from the
source — is the model's `renumFrom 0` -/
theorem renumber_loop_matches_source :
    ∃ r, Gen.renumber = some r ∧ ∀ xs, renumFrom 0 xs = renumSrc r r.start xs :=
  ⟨_, rfl, fun xs => (renumSrc_canon xs 0).symm⟩

open Src in
/-- both constructors of `GlobalLookupIndexSet` — initial `size_`, the maximum loop, the number of (null) cells, the final
`size_`, the slot each pair is stored in, all read from the source — build the model's tables, and `size()` is
`max local + 1` resp. the size argument (cf. `reverse_lookup_inverts`, `reverse_lookup_sized`) -/
theorem reverse_table_matches_source :
    (∃ c, Gen.tableAuto = some c ∧
      ∀ xs, tableSrc c 0 xs = (lookupAuto xs).map fun t => (t, ((maxLocal xs 0 + 1 : Nat) : Int))) ∧
    (∃ c, Gen.tableSized = some c ∧
      ∀ xs n, tableSrc c n xs = (lookupSized xs n).map fun t => (t, (n : Int))) :=
  ⟨⟨_, rfl, tableSrc_auto⟩, ⟨_, rfl, tableSrc_sized⟩⟩

example : (Gen.tableAuto.bind fun c => (Src.tableSrc c 0 (run demo).loc).map (·.2)) = some 4 := by decide

/-! ## round four: several objects (copy construction, copy assignment, `operator==`) -/

/-- a multi-object history: snapshot of the set, a further phase on the original, look at the snapshot, assign it back -/
def demoW : List WOp :=
  demo.map .op ++ [.snapshot, .op .beginResize, .op (.add 1 0 0 true), .op .endResize, .view, .restore, .op .seqNo]

/-- EVERY object of EVERY multi-object history (the set under test after any interleaving of operations, copies into the
snapshot and assignments back; the snapshot itself) is in the state that a single-object history reaches — `flat`
computes these histories — so every theorem above about `run h` holds for each object -/
theorem world_reachable (hw : List WOp) :
    (runW hw).cur = run (flat hw).1 ∧ (runW hw).snap = (flat hw).2.map run :=
  runWFrom_flat hw World.init [] none rfl rfl

example : (flat demoW).1 = demo ++ [.seqNo] ∧ (flat demoW).2 = some demo := by decide

/-- in particular both objects satisfy the invariant of reachable states -/
theorem world_inv (hw : List WOp) : Inv (runW hw).cur ∧ ∀ s, (runW hw).snap = some s → Inv s := by
  obtain ⟨h1, h2⟩ := world_reachable hw
  refine ⟨h1 ▸ run_inv _, fun s hs => ?_⟩
  rw [h2] at hs
  obtain ⟨c, _, rfl⟩ := Option.map_eq_some_iff.1 hs
  exact run_inv c

/-- a copy is independent of its original: whatever is done to the set afterwards, the snapshot stays what it was -/
theorem snapshot_independent (hw : List WOp) (ops : List Op) :
    (runW (hw ++ ops.map .op)).snap = (runW hw).snap := by
  unfold runW
  rw [runWFrom_append, runWFrom_ops_snap]

example : ((runW demoW).snap.map fun s => globals s.loc) = some [2, 5, 7, 9] ∧ (runW demoW).cur.seq = 2 := by decide

/-- a fresh copy compares equal to its original (`operator==`), and assigning it back restores exactly the copied state -/
theorem snapshot_roundtrip (w : World) :
    (stepW (stepW w .snapshot).1 .view).2 = .view w.cur true ∧
    ∀ ops : List Op, (stepW (runWFrom (stepW w .snapshot).1 (ops.map .op)) .restore).1.cur = w.cur := by
  refine ⟨by simp [stepW, setsEqual], fun ops => ?_⟩
  have h := runWFrom_ops_snap ops (stepW w .snapshot).1
  simp only [stepW] at h ⊢
  rw [h]

/-! ## round four: `merge()` and the local index classes read from the source -/

open Src in
/-- `merge()` as a PROGRAM: the statements of its first branch and the three `while` loops of the second — loop guards,
the decision tree of every loop body with the conditions (`DELETED` tests, comparison of old and added entry) and the
`push_back` / `eraseToHere` statements in source order, the final `localIndices_ = tempPairs` — are regenerated from
indexset.hh (`Gen.mergeCopyBranch`, `Gen.mergeProg`), interpreted over the two iterators (`Src.mergeSrc`), and yield the
model's `merge` for EVERY state: no undefined step (`some`), same lists.  This replaces the hand transcription of the
control flow of `merge()` as the tie for `mergeLoop`. -/
theorem merge_program_matches_source (s : ISet) :
    mergeSrc Gen.mergeCopyBranch Gen.plocalCompare Gen.mergeProg s = some (merge s) ∧
    ∀ old added, mergeProgSrc Gen.plocalCompare Gen.mergeProg old added = some (mergeLoop old added) :=
  ⟨mergeSrc_canon s, mergeProgSrc_canon⟩

example : (Src.mergeProgSrc Gen.plocalCompare Gen.mergeProg (run (demo ++ [.beginResize, .markDel 7 0])).loc
    [⟨3, ⟨0, 0, true, true⟩⟩, ⟨11, ⟨0, 0, true, true⟩⟩]).map (·.map (·.g)) = some [2, 3, 5, 9, 11] := by decide

open Src in
/-- the local index classes: the member initialisers of all constructors of `ParallelLocalIndex<T>` (three) and `LocalIndex`
(two), the member assignments of `operator=(size_t)` and `setState`, and the order of `enum LocalIndexState`, read from
plocalindex.hh / localindex.hh, build exactly the values the model stores: a new index is VALID, `add(g)` stores
`(0, T(), false)`, the two-argument constructor local number 0, assignment overwrites the local number ONLY (attribute,
public flag and the DELETED mark survive), `setState(DELETED)` touches the mark only -/
theorem local_index_matches_source :
    Gen.stateEnum = ["VALID", "DELETED"] ∧
    (∃ c3 c2 c0 l1 l0, Gen.plocalCtor3 = some c3 ∧ Gen.plocalCtor2 = some c2 ∧ Gen.plocalCtor0 = some c0 ∧
      Gen.lindexCtor1 = some l1 ∧ Gen.lindexCtor0 = some l0 ∧
      ∀ (l a : Nat) (p : Bool),
        c3.build [l, a, p.toNat] = { loc := l, attr := a, pub := p, valid := true } ∧
        c2.build [a, p.toNat] = { loc := 0, attr := a, pub := p, valid := true } ∧
        c0.build [] = defaultLocal ∧
        l1.build [l] = { loc := l, attr := 0, pub := false, valid := true } ∧
        l0.build [] = defaultLocal) ∧
    (∀ (p : Pair) (k : Nat),
      writeSrc Gen.plocalAssign [k] p.l = (setLoc p k).l ∧ writeSrc Gen.lindexAssign [k] p.l = (setLoc p k).l ∧
      writeSrc Gen.plocalSetState [1] p.l = (setDeleted p).l ∧ writeSrc Gen.lindexSetState [1] p.l = (setDeleted p).l) :=
  by
  refine ⟨rfl, ⟨_, _, _, _, _, rfl, rfl, rfl, rfl, rfl, fun l a p => ?_⟩, fun p k => ?_⟩
  · exact ⟨build_canon3 l a p, build_canon2 a p, build_canon0, build_canon1 l, build_canon0⟩
  · exact ⟨write_assign p.l k, write_assign p.l k, (write_setState p.l).1, (write_setState p.l).1⟩

example : (Gen.plocalCtor2.map fun c => c.build [2, 1]) = some { loc := 0, attr := 2, pub := true, valid := true } := by decide

/-- the values assigned by `renumberLocal` fit its `uint32_t` counter: position `i` gets the number `i < size()`, so no
wrap-around for sets of up to 2^32 entries -/
theorem renumber_uint32_safe (xs : List Pair) (hlen : xs.length ≤ 4294967296) (i : Nat) (p : Pair)
    (hp : (renumFrom 0 xs)[i]? = some p) : p.l.loc = i ∧ p.l.loc < 4294967296 := by
  have hi : i < xs.length := by
    have := (List.getElem?_eq_some_iff.1 hp).1
    rwa [renumFrom_length] at this
  rw [renumFrom_getElem?] at hp
  obtain ⟨q, _, rfl⟩ := Option.map_eq_some_iff.1 hp
  have h0 : (setLoc q (0 + i)).l.loc = i := by simp [setLoc]
  exact ⟨h0, by omega⟩

example : (renumFrom 0 (run demo).loc)[2]?.map (·.l.loc) = some 2 := by decide

/-- `ParallelIndexSet()`: the member initialisers read from the source (`state_(GROUND), seqNo_(0), deletedEntries_()`) give
the model's initial state every history starts from -/
theorem constructor_matches_source :
    ∃ c, Gen.setCtor = some c ∧ init = { loc := [], fresh := [], st := c.state, seq := c.seq, del := c.del } :=
  ⟨_, rfl, rfl⟩

example : init.st = .ground ∧ init.seq = 0 ∧ (run []).loc = [] := by decide

end DV.C03
