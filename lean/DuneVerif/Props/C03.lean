import DuneVerif.Model.C03
namespace DV.C03
theorem placeholder : True := trivial
end DV.C03
