import DuneVerif.Proofs.C08Ev2Scaled
import DuneVerif.Proofs.C08Ev3Top
import DuneVerif.Proofs.C08Lapack
import DuneVerif.Proofs.C08Outputs
import DuneVerif.Proofs.C08Tie
import DuneVerif.Proofs.C08NonSymSpec
/-!
# C08 — property theorems: the closed-form eigenvalue routines in exact arithmetic

All statements are about the model `DuneVerif/Model/C08.lean` instantiated at `ℝ` with `Real.sqrt`, built on the
formulas and thresholds that `tools/translators/tr_c08.py` regenerates from `dune/common/fmatrixev.hh`
(`DuneVerif/Gen/C08.lean`).  Vocabulary (`Sym2`, `charPoly2`, `mulVec2`, `dot2`, `Vieta`, `IsRightEig`, …) is defined in
`Proofs/C08Basic.lean`, `Proofs/C08Ev2.lean`, `Proofs/C08Lapack.lean`; `EigTriple` (three unit, mutually orthogonal vectors
`vᵢ` with `(A - λᵢ I) vᵢ = 0`) in `Proofs/C08Ev3Vec.lean`, `resid2 A λ v = ‖(A - λ I) v‖²` in `Proofs/C08Ev3Top.lean`.

Floating-point accuracy (residual sizes, ordering up to round-off) is *not* the subject of these theorems; it is
measured by the harness oracle.  What is proved: exact-arithmetic correctness of the 2x2 closed form including the
eigenvector choice with the code's threshold, its invariance under scaling of the matrix (which needs the threshold
to be relative); for the 3x3 path: the returned values are the whole spectrum (factorisation of the characteristic
polynomial; the clamp of `r` is never active), the complete eigenvector construction `eig0`/`orthoComp`/`eig1`/cross
product/sort returns an orthonormal eigen-decomposition, the diagonal special case returns coordinate vectors whose
residual is bounded by `sqrt(eps)` times the max norm, the two entry points agree, and everything scales exactly with
the matrix; the 1x1 case; and the index arithmetic of the LAPACK hand-over.
-/
namespace DV.C08

/-! ## 2x2

The 2x2 entry points `eigenValues2x2` / `eigenValuesVectors2x2` precondition the matrix by its max norm
(`scaled2 A = A / preScale2 A`, translated flag `Gen.ev2_preconditioned`), apply the closed form
(`eigenValues2d`, `eigenVectorChoice2d`, … on the scaled matrix) and scale the eigenvalues back. -/

/-- **ev2_roots.** For every real symmetric 2x2 matrix the routine succeeds and returns `λ₀ ≤ λ₁`, both roots of the
characteristic polynomial of `A`, with `λ₀ + λ₁ = tr A`. -/
theorem ev2_roots (A : M2 ℝ) (hs : Sym2 A) :
    ∃ l0 l1 : ℝ, eigenValues2x2 Real.sqrt A = .ok (l0, l1) ∧ l0 ≤ l1 ∧ l0 + l1 = A.a00 + A.a11 ∧
      charPoly2 A l0 = 0 ∧ charPoly2 A l1 = 0 := by
  have hm := preScale2_pos A
  obtain ⟨r0, r1⟩ := inner_roots A hs
  refine ⟨inner0 A * preScale2 A, inner1 A * preScale2 A, eigenValues2x2_eq A hs, ?_, ?_, ?_, ?_⟩
  · exact mul_le_mul_of_nonneg_right (inner_le A) hm.le
  · rw [← add_mul, (inner_vieta A hs).1, scaled2_trace]
  · exact charPoly2_unscale A _ _ hm.ne' r0
  · exact charPoly2_unscale A _ _ hm.ne' r1

example : Sym2 ⟨2, 1, 1, 2⟩ ∧ eigenValues2d Real.sqrt (⟨2, 1, 1, 2⟩ : M2 ℝ) = .ok (1, 3) := by
  have hs : Sym2 (⟨2, 1, 1, 2⟩ : M2 ℝ) := rfl
  refine ⟨hs, ?_⟩
  rw [eigenValues2d_sym _ hs]
  have : disc2 (⟨2, 1, 1, 2⟩ : M2 ℝ) = 1 := by unfold disc2; norm_num
  rw [this, Real.sqrt_one]
  norm_num

/-- **ev2_vectors.** In the non-degenerate branch (the identity special case with the code's threshold is not taken
on the scaled matrix) the returned vectors satisfy `A vᵢ = λᵢ vᵢ` for the returned eigenvalues, have unit length and
are orthogonal.  (`eps ≥ 0` is the machine epsilon parameter of the threshold; `s₀, s₁` are the eigenvalues of the
scaled matrix.) -/
theorem ev2_vectors (eps : ℝ) (he : 0 ≤ eps) (A : M2 ℝ) (hs : Sym2 A) (s0 s1 : ℝ)
    (hval : eigenValues2d Real.sqrt (scaled2 A) = .ok (s0, s1))
    (hgen : eigenVectorChoice2d eps (scaled2 A) s0 s1 ≠ none) :
    ∃ v0 v1 : V2 ℝ,
      eigenValuesVectors2x2 Real.sqrt eps A = .ok ((s0 * preScale2 A, s1 * preScale2 A), (v0, v1)) ∧
      mulVec2 A v0 = smulV2 (s0 * preScale2 A) v0 ∧ mulVec2 A v1 = smulV2 (s1 * preScale2 A) v1 ∧
      norm2 v0 = 1 ∧ norm2 v1 = 1 ∧ dot2 v0 v1 = 0 := by
  have hm := (preScale2_pos A).ne'
  have hiv := inner_vals A hs
  rw [hiv] at hval
  simp only [Except.ok.injEq, Prod.mk.injEq] at hval
  obtain ⟨e0, e1⟩ := hval
  subst e0 e1
  obtain ⟨c, hc⟩ := Option.ne_none_iff_exists'.mp hgen
  obtain ⟨c0, c1⟩ := c
  obtain ⟨k0, k1, n0, n1, d⟩ :=
    general_branch_correct eps he (scaled2 A) (scaled2_sym A hs) _ _ (inner_vieta A hs) c0 c1 hc
  refine ⟨_, _, eigenValuesVectors2x2_ok eps A hs, ?_, ?_, n0, n1, d⟩
  · exact mulVec2_unscale A _ _ hm _ k0
  · exact mulVec2_unscale A _ _ hm _ k1

/-- the non-degenerate branch is inhabited: `[[2,1],[1,2]]` with `eps = 2⁻⁵²` -/
example : eigenVectorChoice2d ((2 : ℝ) ^ (-52 : ℤ)) (⟨2, 1, 1, 2⟩ : M2 ℝ) 1 3 ≠ none := by
  rw [choice_unfold]
  have h : ¬ infNorm2 (shifted (⟨2, 1, 1, 2⟩ : M2 ℝ) 1) ≤ Gen.ev2_identThreshold ((2 : ℝ) ^ (-52 : ℤ)) (infNorm2 ⟨2, 1, 1, 2⟩) := by
    rw [infNorm2_eq, infNorm2_eq]
    unfold Gen.ev2_identThreshold shifted
    norm_num
  rw [if_neg h]
  simp

/-- **ev2_vectors_ident.** In the identity special case (`‖S - s₀ I‖∞ ≤ thr` on the scaled matrix `S`) the unit
vectors are returned: they are exactly orthonormal and the entries of their residuals `(A - λᵢ I) eᵢ` are bounded by
the threshold times the max norm of `A`. -/
theorem ev2_vectors_ident (eps : ℝ) (A : M2 ℝ) (hs : Sym2 A) (s0 s1 : ℝ)
    (hval : eigenValues2d Real.sqrt (scaled2 A) = .ok (s0, s1))
    (hid : eigenVectorChoice2d eps (scaled2 A) s0 s1 = none) :
    ∃ v0 v1 : V2 ℝ,
      eigenValuesVectors2x2 Real.sqrt eps A = .ok ((s0 * preScale2 A, s1 * preScale2 A), (v0, v1)) ∧
      norm2 v0 = 1 ∧ norm2 v1 = 1 ∧ dot2 v0 v1 = 0 ∧
      (let bound : ℝ := preScale2 A * Gen.ev2_identThreshold eps (infNorm2 (scaled2 A))
       let r0 := mulVec2 (shifted A (s0 * preScale2 A)) v0
       let r1 := mulVec2 (shifted A (s1 * preScale2 A)) v1
       |r0.x| ≤ bound ∧ |r0.y| ≤ bound ∧ |r1.x| ≤ bound ∧ |r1.y| ≤ bound) := by
  have hm := preScale2_pos A
  have hiv := inner_vals A hs
  rw [hiv] at hval
  simp only [Except.ok.injEq, Prod.mk.injEq] at hval
  obtain ⟨e0, e1⟩ := hval
  subst e0 e1
  obtain ⟨n0, n1, d, b0, b1, b2, b3⟩ :=
    ident_branch_correct eps (scaled2 A) (scaled2_sym A hs) _ _ (inner_vieta A hs) hid
  refine ⟨_, _, eigenValuesVectors2x2_ok eps A hs, n0, n1, d, ?_⟩
  simp only
  rw [mulVec2_shifted_unscale A _ _ hm.ne', mulVec2_shifted_unscale A _ _ hm.ne']
  simp only [abs_mul, abs_of_pos hm]
  exact ⟨mul_le_mul_of_nonneg_left b0 hm.le, mul_le_mul_of_nonneg_left b1 hm.le,
    mul_le_mul_of_nonneg_left b2 hm.le, mul_le_mul_of_nonneg_left b3 hm.le⟩

/-- the identity special case is inhabited: `2·I` -/
example : eigenVectorChoice2d ((2 : ℝ) ^ (-52 : ℤ)) (⟨2, 0, 0, 2⟩ : M2 ℝ) 2 2 = none := by
  rw [choice_unfold]
  have h : infNorm2 (shifted (⟨2, 0, 0, 2⟩ : M2 ℝ) 2) ≤ Gen.ev2_identThreshold ((2 : ℝ) ^ (-52 : ℤ)) (infNorm2 ⟨2, 0, 0, 2⟩) := by
    rw [infNorm2_eq, infNorm2_eq]
    unfold Gen.ev2_identThreshold shifted
    norm_num
  rw [if_pos h]

/-- **ev2_scale_invariant.** For every `s > 0` and every symmetric `A` the whole 2x2 routine — eigenvalues, branch
decision with the code's threshold, column choice and normalisation — commutes with scaling: the eigenvalues of
`s•A` are `s` times those of `A` and the returned eigenvectors are identical.  It holds exactly because the source
preconditions by the max norm (`Gen.ev2_preconditioned = true`): `s•A` and `A` have the same scaled matrix.
(Without the preconditioning and with the absolute threshold `1e-14` of the original source the statement is false.) -/
theorem ev2_scale_invariant (eps s : ℝ) (hs : 0 < s) (A : M2 ℝ) (hsym : Sym2 A) :
    ∃ l0 l1 : ℝ, ∃ v : V2 ℝ × V2 ℝ,
      eigenValuesVectors2x2 Real.sqrt eps A = .ok ((l0, l1), v) ∧
      eigenValuesVectors2x2 Real.sqrt eps (smul2 s A) = .ok ((s * l0, s * l1), v) := by
  refine ⟨_, _, _, eigenValuesVectors2x2_ok eps A hsym, ?_⟩
  rw [eigenValuesVectors2x2_ok eps (smul2 s A) (smul2_sym s A hsym)]
  by_cases hA : 0 < infNorm2 A
  · obtain ⟨h1, h2⟩ := scaled2_smul s hs A hA
    unfold inner0 inner1
    rw [h1, h2]
    refine congrArg _ (Prod.ext (Prod.ext ?_ ?_) rfl) <;> simp only <;> ring
  · have hz : A = zeroM2 := entries_zero_of_infNorm2 A (le_antisymm (not_lt.mp hA) (infNorm2_nonneg A))
    subst hz
    rw [smul2_zeroM2, inner_zeroM2.1, inner_zeroM2.2]
    simp

example : (0 : ℝ) < 2 ^ (-498 : ℤ) ∧ Sym2 ⟨0, 1, 1, 0⟩ := ⟨zpow_pos (by norm_num) _, rfl⟩

/-- **ev2_entry_points_agree.** The eigenvalue-only and the eigenvalue+eigenvector entry point of the 2x2 code return
the same eigenvalues (or the same error) for every matrix, every `sqrt` and every threshold parameter. -/
theorem ev2_entry_points_agree (sqrt : ℝ → ℝ) (eps : ℝ) (A : M2 ℝ) :
    (eigenValuesVectors2x2 sqrt eps A).map Prod.fst = eigenValues2x2 sqrt A := by
  unfold eigenValuesVectors2x2 eigenValues2x2 eigenValuesVectors2d
  rcases h : eigenValues2d sqrt (sdiv2 A (preScale2 A)) with e | ⟨l0, l1⟩ <;> simp [Except.map, h]

example : (eigenValuesVectors2x2 Real.sqrt 0 (⟨2, 0, 0, 2⟩ : M2 ℝ)).map Prod.fst = eigenValues2x2 Real.sqrt ⟨2, 0, 0, 2⟩ :=
  ev2_entry_points_agree _ _ _

/-! ## 1x1 -/

/-- **ev1_exact.** For a 1x1 matrix `(a)` both entry points return `a`; the vector `(1)` has unit length and
`a · 1 = λ · 1`. -/
theorem ev1_exact (a : ℝ) :
    eigenValues1d a = a ∧ (eigenValuesVectors1d a).1 = a ∧
      (eigenValuesVectors1d a).2 * (eigenValuesVectors1d a).2 = 1 ∧
      a * (eigenValuesVectors1d a).2 = (eigenValuesVectors1d a).1 * (eigenValuesVectors1d a).2 := by
  unfold eigenValues1d eigenValuesVectors1d one
  simp

/-! ## 3x3 -/

/-- **cross_in_kernel.** If `S = A - λI` is singular (λ is an eigenvalue), the cross product of any two of its rows is
annihilated by `S`; in the rank-2 case these cross products span the eigenspace.  (The components of
`S (rᵢ × rⱼ)` are `rₖ · (rᵢ × rⱼ)`: zero for `k ∈ {i,j}` and `± det S` for the third row.)
The cross product is the one translated from `Impl::crossProduct`. -/
theorem cross_in_kernel (A : M3 ℝ) (l : ℝ) (hdet : det3 (shift3 A l) = 0) :
    mulVec3 (shift3 A l) (cross (row0 (shift3 A l)) (row1 (shift3 A l))) = ⟨0, 0, 0⟩ ∧
    mulVec3 (shift3 A l) (cross (row0 (shift3 A l)) (row2 (shift3 A l))) = ⟨0, 0, 0⟩ ∧
    mulVec3 (shift3 A l) (cross (row1 (shift3 A l)) (row2 (shift3 A l))) = ⟨0, 0, 0⟩ := by
  refine ⟨?_, ?_, ?_⟩
  · rw [mulVec3_cross01, hdet]
  · rw [mulVec3_cross02, hdet, neg_zero]
  · rw [mulVec3_cross12, hdet]

/-- `diag(1,2,3) - 1·I` is singular with rank 2 -/
example : det3 (shift3 (⟨1, 0, 0, 0, 2, 0, 0, 0, 3⟩ : M3 ℝ) 1) = 0 ∧
    0 < norm2_3 (cross (row1 (shift3 (⟨1, 0, 0, 0, 2, 0, 0, 0, 3⟩ : M3 ℝ) 1)) (row2 (shift3 (⟨1, 0, 0, 0, 2, 0, 0, 0, 3⟩ : M3 ℝ) 1))) := by
  constructor
  · unfold det3 shift3; norm_num
  · rw [norm2_3_eq, cross_eq]; unfold row1 row2 shift3; norm_num

/-- **eig0_unit_eigenvector.** `Impl::eig0` (largest cross product of two rows of `A - λI`, divided by its length)
returns a unit vector `v` with `(A - λI) v = 0` whenever `λ` is an eigenvalue and `A - λI` has rank 2. -/
theorem eig0_unit_eigenvector (A : M3 ℝ) (l : ℝ) (hdet : det3 (shift3 A l) = 0)
    (hrank : 0 < norm2_3 (cross (row0 (shift3 A l)) (row1 (shift3 A l)))
      ∨ 0 < norm2_3 (cross (row0 (shift3 A l)) (row2 (shift3 A l)))
      ∨ 0 < norm2_3 (cross (row1 (shift3 A l)) (row2 (shift3 A l)))) :
    mulVec3 (shift3 A l) (eig0 Real.sqrt A l) = ⟨0, 0, 0⟩ ∧ norm2_3 (eig0 Real.sqrt A l) = 1 :=
  eig0_correct A l hdet hrank

/-- **ev3_trace.** The three values returned by the 3x3 routine sum to the trace, in both branches and whatever the
elementary functions return (the middle value is defined through the trace; scaling by the max norm is undone). -/
theorem ev3_trace (sqrt acos cos : ℝ → ℝ) (pi eps : ℝ) (A : M3 ℝ) :
    (eigenValues3d sqrt acos cos pi eps A).1 + (eigenValues3d sqrt acos cos pi eps A).2.1
      + (eigenValues3d sqrt acos cos pi eps A).2.2 = trace3 A := by
  have hm := (maxAbsElement_pos A).ne'
  have h := impl_sum sqrt acos cos pi eps (sdiv3 A (maxAbsElement A))
  simp only at h
  unfold eigenValues3d trace3
  simp only
  rw [← add_mul, ← add_mul, h]
  unfold sdiv3
  simp only
  field_simp

/-- **ev3_ascending.** The 3x3 eigenvalue-only routine returns its values in ascending order (uses that the
translated source sorts the trigonometric values: `Gen.ev3_sortedAfterTrig = true`). -/
theorem ev3_ascending (sqrt acos cos : ℝ → ℝ) (pi eps : ℝ) (A : M3 ℝ) :
    (eigenValues3d sqrt acos cos pi eps A).1 ≤ (eigenValues3d sqrt acos cos pi eps A).2.1 ∧
      (eigenValues3d sqrt acos cos pi eps A).2.1 ≤ (eigenValues3d sqrt acos cos pi eps A).2.2 := by
  have hm := (maxAbsElement_pos A).le
  have h := impl_asc sqrt acos cos pi eps (sdiv3 A (maxAbsElement A))
  simp only at h
  unfold eigenValues3d
  simp only
  exact ⟨mul_le_mul_of_nonneg_right h.1 hm, mul_le_mul_of_nonneg_right h.2 hm⟩

/-- **ev3_scaling_exact.** The 3x3 path first divides by the max norm, so all its thresholds are relative: for
`s > 0` the eigenvalues of `s•A` are `s` times those of `A`, and the branch taken and the eigenvectors of the
diagonal special case are unchanged — for arbitrary elementary functions. -/
theorem ev3_scaling_exact (sqrt acos cos : ℝ → ℝ) (pi eps s : ℝ) (hs : 0 < s) (he : 0 ≤ eps) (A : M3 ℝ) :
    eigenValues3d sqrt acos cos pi eps (smul3 s A) =
      (s * (eigenValues3d sqrt acos cos pi eps A).1, s * (eigenValues3d sqrt acos cos pi eps A).2.1,
        s * (eigenValues3d sqrt acos cos pi eps A).2.2) ∧
    eigenValuesVectors3d sqrt acos cos pi eps (smul3 s A) =
      ((s * (eigenValuesVectors3d sqrt acos cos pi eps A).1.1, s * (eigenValuesVectors3d sqrt acos cos pi eps A).1.2.1,
        s * (eigenValuesVectors3d sqrt acos cos pi eps A).1.2.2), (eigenValuesVectors3d sqrt acos cos pi eps A).2) := by
  by_cases hA : 0 < infNorm3 A
  · exact ⟨eigenValues3d_smul sqrt acos cos pi eps s hs A hA, eigenValuesVectors3d_smul sqrt acos cos pi eps s hs A hA⟩
  · have hz : A = zeroM3 := entries_zero_of_infNorm3 A (le_antisymm (not_lt.mp hA) (infNorm3_nonneg A))
    subst hz
    rw [smul3_zeroM3, eigenValues3d_zeroM3 sqrt acos cos pi eps he]
    refine ⟨by simp, ?_⟩
    have hv := eigenValuesVectors3d_zeroM3 sqrt acos cos pi eps he
    refine Prod.ext ?_ rfl
    rw [hv]
    simp

example : (0 : ℝ) < infNorm3 ⟨1, 0, 0, 0, 2, 0, 0, 0, 3⟩ := by rw [infNorm3_eq]; norm_num


/-- **ev3_clamp_inactive.** For a symmetric matrix that is not treated as diagonal, `r = det((A - qI)/p)/2` computed
by the code lies in `[-1, 1]` in exact arithmetic: the clamp only guards against round-off.  (Uses that a real
symmetric matrix has a real spectrum — Mathlib's spectral theorem — and the discriminant of the cubic.) -/
theorem ev3_clamp_inactive (eps : ℝ) (he : 0 ≤ eps) (A : M3 ℝ) (hs : Sym3 A)
    (hb : ¬ DiagBranch eps (sdiv3 A (maxAbsElement A))) :
    -1 ≤ rawR (sdiv3 A (maxAbsElement A)) ∧ rawR (sdiv3 A (maxAbsElement A)) ≤ 1 :=
  rawR_abs_le_one _ (sdiv3_sym A _ hs) (p1Of_pos_of_not_diag eps he _ hb)

/-- **ev3_spectrum.** For every real symmetric 3x3 matrix that is exactly diagonal, or not treated as diagonal by the
code (`p1 > eps` on the max-norm-scaled matrix), the three values returned by `FMatrixHelp::eigenValues` are the
*whole spectrum with multiplicity*: the characteristic polynomial factors as `(t - λ₀)(t - λ₁)(t - λ₂)`
(Smith 1961: `λ = q + 2p cos(φ + 2πk/3)`, `cos 3φ = r`; no assumption on `r`, see `ev3_clamp_inactive`).
In the remaining case `0 < p1 ≤ eps` (nearly diagonal) the code returns the sorted diagonal *by design* as an
approximation; there the exact statement is false and is replaced by the residual bound of `ev3_vectors_diag`. -/
theorem ev3_spectrum (eps : ℝ) (he : 0 ≤ eps) (A : M3 ℝ) (hs : Sym3 A)
    (hcase : (A.a01 = 0 ∧ A.a02 = 0 ∧ A.a12 = 0) ∨ ¬ DiagBranch eps (sdiv3 A (maxAbsElement A))) :
    ∀ t : ℝ, charPoly3 A t =
      (t - (eigenValues3d Real.sqrt Real.arccos Real.cos Real.pi eps A).1) *
      (t - (eigenValues3d Real.sqrt Real.arccos Real.cos Real.pi eps A).2.1) *
      (t - (eigenValues3d Real.sqrt Real.arccos Real.cos Real.pi eps A).2.2) := by
  have hm := (maxAbsElement_pos A).ne'
  have hS := sdiv3_sym A (maxAbsElement A) hs
  unfold eigenValues3d
  apply charPoly3_unscale_factor A _ _ _ _ hm
  rcases hcase with ⟨h01, h02, h12⟩ | hb
  · obtain ⟨s10, s20, s21⟩ := hs
    apply diag_factor Real.sqrt Real.arccos Real.cos Real.pi eps he
    unfold sdiv3
    simp only [h01, h02, h12, s10, s20, s21, zero_div, and_self]
  · exact trig_factor eps he _ hS hb

/-- the trigonometric case is inhabited: for `[[0,1,0],[1,0,0],[0,0,0]]` (max norm 1) `p1 = 1 > eps` -/
example : ¬ DiagBranch ((2 : ℝ) ^ (-52 : ℤ)) (⟨0, 1, 0, 1, 0, 0, 0, 0, 0⟩ : M3 ℝ) := by
  unfold DiagBranch p1Of Gen.ev3_p1 Gen.ev3_diagThreshold
  norm_num

/-- **ev3_entry_points_agree.** `FMatrixHelp::eigenValues` and the eigenvalues returned by
`FMatrixHelp::eigenValuesVectors` coincide for every 3x3 matrix (in both branches, for arbitrary elementary
functions): the diagonal special case of the eigenvector routine overwrites the values by the same sorted diagonal, and
the stable sort of the (value, vector) pairs leaves the already sorted values in place. -/
theorem ev3_entry_points_agree (sqrt acos cos : ℝ → ℝ) (pi eps : ℝ) (A : M3 ℝ) :
    (eigenValuesVectors3d sqrt acos cos pi eps A).1 = eigenValues3d sqrt acos cos pi eps A :=
  entry_points_agree3 sqrt acos cos pi eps A

/-- **ev3_vectors.** For every real symmetric 3x3 matrix that the code does not treat as diagonal, the vectors returned
by `FMatrixHelp::eigenValuesVectors` (`eig0` for the simple extreme eigenvalue selected by the sign of `r`, `orthoComp`
and `eig1` with all branches for the middle one, the cross product for the third, stable sort of the pairs) are unit
vectors, mutually orthogonal, and satisfy `(A - λᵢ I) vᵢ = 0` for the returned eigenvalues — including repeated
eigenvalues (then `eig1` works on a zero or rank-one reduced matrix). -/
theorem ev3_vectors (eps : ℝ) (he : 0 ≤ eps) (A : M3 ℝ) (hs : Sym3 A)
    (hb : diagBranchVec eps (sdiv3 A (maxAbsElement A)) = false) :
    EigTriple A (eigenValuesVectors3d Real.sqrt Real.arccos Real.cos Real.pi eps A).1.1
      (eigenValuesVectors3d Real.sqrt Real.arccos Real.cos Real.pi eps A).1.2.1
      (eigenValuesVectors3d Real.sqrt Real.arccos Real.cos Real.pi eps A).1.2.2
      (eigenValuesVectors3d Real.sqrt Real.arccos Real.cos Real.pi eps A).2.1
      (eigenValuesVectors3d Real.sqrt Real.arccos Real.cos Real.pi eps A).2.2.1
      (eigenValuesVectors3d Real.sqrt Real.arccos Real.cos Real.pi eps A).2.2.2 :=
  vectors3d_trig_correct eps he A hs hb

/-- the hypotheses of `ev3_vectors` are satisfiable: `[[0,1,0],[1,0,0],[0,0,0]]` (eigenvalues -1, 0, 1), also with a
repeated eigenvalue: `[[0,1,1],[1,0,1],[1,1,0]]` (eigenvalues -1, -1, 2; max norm 2) -/
example : Sym3 (⟨0, 1, 0, 1, 0, 0, 0, 0, 0⟩ : M3 ℝ) ∧
    diagBranchVec ((2 : ℝ) ^ (-52 : ℤ)) (sdiv3 (⟨0, 1, 0, 1, 0, 0, 0, 0, 0⟩ : M3 ℝ) (maxAbsElement ⟨0, 1, 0, 1, 0, 0, 0, 0, 0⟩)) = false := by
  refine ⟨⟨rfl, rfl, rfl⟩, ?_⟩
  have hm : maxAbsElement (⟨0, 1, 0, 1, 0, 0, 0, 0, 0⟩ : M3 ℝ) = 1 := by
    unfold maxAbsElement
    rw [infNorm3_eq]
    norm_num [zero, one]
  rw [hm]
  unfold diagBranchVec
  rw [decide_eq_false_iff_not, norm2_3_eq]
  unfold sdiv3 Gen.ev3_vecThreshold
  norm_num

example : Sym3 (⟨0, 1, 1, 1, 0, 1, 1, 1, 0⟩ : M3 ℝ) ∧
    diagBranchVec ((2 : ℝ) ^ (-52 : ℤ)) (sdiv3 (⟨0, 1, 1, 1, 0, 1, 1, 1, 0⟩ : M3 ℝ) (maxAbsElement ⟨0, 1, 1, 1, 0, 1, 1, 1, 0⟩)) = false := by
  refine ⟨⟨rfl, rfl, rfl⟩, ?_⟩
  have hm : maxAbsElement (⟨0, 1, 1, 1, 0, 1, 1, 1, 0⟩ : M3 ℝ) = 2 := by
    unfold maxAbsElement
    rw [infNorm3_eq]
    norm_num [zero, one]
  rw [hm]
  unfold diagBranchVec
  rw [decide_eq_false_iff_not, norm2_3_eq]
  unfold sdiv3 Gen.ev3_vecThreshold
  norm_num

/-- **ev3_vectors_diag.** In the diagonal special case (`offDiagNorm ≤ eps` on the max-norm-scaled matrix) of a
symmetric matrix the returned vectors are coordinate vectors: exactly of unit length and mutually orthogonal, and the
residuals `(A - λᵢ I) vᵢ` for the returned (sorted diagonal) values have squared length at most `eps · m²`, i.e. length
at most `sqrt(eps)` times the max norm `m` of `A` — the accuracy class the property states for the 3x3 closed form.
The values are ascending by `ev3_entry_points_agree` and `ev3_ascending`. -/
theorem ev3_vectors_diag (sqrt acos cos : ℝ → ℝ) (pi eps : ℝ) (A : M3 ℝ) (hs : Sym3 A)
    (hb : diagBranchVec eps (sdiv3 A (maxAbsElement A)) = true) :
    let R := eigenValuesVectors3d sqrt acos cos pi eps A
    let m := maxAbsElement A
    norm2_3 R.2.1 = 1 ∧ norm2_3 R.2.2.1 = 1 ∧ norm2_3 R.2.2.2 = 1 ∧
      dot3 R.2.1 R.2.2.1 = 0 ∧ dot3 R.2.1 R.2.2.2 = 0 ∧ dot3 R.2.2.1 R.2.2.2 = 0 ∧
      resid2 A R.1.1 R.2.1 ≤ eps * (m * m) ∧ resid2 A R.1.2.1 R.2.2.1 ≤ eps * (m * m) ∧
      resid2 A R.1.2.2 R.2.2.2 ≤ eps * (m * m) :=
  vectors3d_diag_correct sqrt acos cos pi eps A hs hb

/-- the diagonal special case is inhabited by a matrix that is not exactly diagonal: off-diagonal `2⁻³⁰` -/
example : diagBranchVec ((2 : ℝ) ^ (-52 : ℤ)) (sdiv3 (⟨1, 0, 0, 0, 0, 0, 0, 0, 0⟩ : M3 ℝ) (maxAbsElement ⟨1, 0, 0, 0, 0, 0, 0, 0, 0⟩)) = true := by
  have hm : maxAbsElement (⟨1, 0, 0, 0, 0, 0, 0, 0, 0⟩ : M3 ℝ) = 1 := by
    unfold maxAbsElement
    rw [infNorm3_eq]
    norm_num [zero, one]
  rw [hm]
  unfold diagBranchVec
  rw [decide_eq_true_eq, norm2_3_eq]
  unfold sdiv3 Gen.ev3_vecThreshold
  norm_num

/-! ## LAPACK hand-over (any commutative ring) -/

/-- **lapack_handover_sym.** `FMatrixHelp` copies the row-major matrix element by element into the array that ?syev
reads column-major with `uplo='u'`.  For a symmetric `A` LAPACK works on `A` itself, and if the columns of its result
`Z` are eigenvectors (`A Z = Z diag w`), the copy-back returns them as the *rows* of `eigenVectors`:
row `i` is an eigenvector of `A` for `w i`. -/
theorem lapack_handover_sym {R : Type} [CommRing R] (n : Nat) (A : Nat → Nat → R) (hs : SymOn n A) :
    (∀ r c, r < n → c < n → lapackSeesSym n A r c = A r c) ∧
    ∀ (Z : Nat → Nat → R) (w : Nat → R),
      (∀ c, c < n → IsRightEig n (lapackSeesSym n A) (w c) (fun k => Z k c)) →
      ∀ i, i < n → IsRightEig n A (w i) (copyBack n Z i) := by
  refine ⟨fun r c hr hc => lapackSeesSym_eq n A hs r c hr hc, ?_⟩
  intro Z w hZ i hi r hr
  have h := hZ i hi r hr
  rw [copyBack_eq n Z i r hr]
  rw [← h]
  apply sumTo_congr
  intro k hk
  rw [lapackSeesSym_eq n A hs r k hr hk, copyBack_eq n Z i k hk]

example : SymOn 2 (fun i j => ((i + j : Nat) : ℤ)) := fun i j _ _ => by simp [Nat.add_comm]

/-- **lapack_handover_nonsym.** The row-major copy is read by ?geev as `Aᵀ`; a right eigenvector of what LAPACK sees is
exactly a *left* eigenvector of `A` (`vᵀ A = λ vᵀ`).  Hence requesting `jobvr` on the row-major copy (the unrepaired
`DynamicMatrixHelp::eigenValuesNonSym`) does not give right eigenvectors of `A`; the eigenvalue-only routine
`FMatrixHelp::eigenValuesNonSym` is unaffected. -/
theorem lapack_handover_nonsym {R : Type} [CommRing R] (n : Nat) (A : Nat → Nat → R) (lam : R) (v : Nat → R) :
    (∀ r c, r < n → lapackSeesNonSymF n A r c = A c r) ∧
    (IsRightEig n (lapackSeesNonSymF n A) lam v ↔ IsLeftEig n A lam v) := by
  refine ⟨fun r c hr => fortranView_packRowMajor n A r c hr, ?_⟩
  have key : ∀ r, r < n → sumTo n (fun k => lapackSeesNonSymF n A r k * v k) = sumTo n (fun k => v k * A k r) := by
    intro r hr
    apply sumTo_congr
    intro k _
    show fortranView n (packRowMajor n A) r k * v k = v k * A k r
    rw [fortranView_packRowMajor n A r k hr, mul_comm]
  constructor
  · intro h c hc
    rw [← key c hc]
    exact h c hc
  · intro h r hr
    rw [key r hr]
    exact h r hr

/-- **lapack_handover_nonsym_dynamic.** After the repair `DynamicMatrixHelp::eigenValuesNonSym` copies column-major:
?geev sees `A`, so the vectors it returns through `jobvr` are right eigenvectors of `A`, and the copy-back
`std::copy(vr + N*i, vr + N*(i+1), …)` delivers column `i` as the `i`-th vector. -/
theorem lapack_handover_nonsym_dynamic {R : Type} [CommRing R] (n : Nat) (A : Nat → Nat → R) :
    (∀ r c, r < n → lapackSeesNonSymD n A r c = A r c) ∧
    ∀ (Z : Nat → Nat → R) (w : Nat → R),
      (∀ c, c < n → IsRightEig n (lapackSeesNonSymD n A) (w c) (fun k => Z k c)) →
      ∀ i, i < n → IsRightEig n A (w i) (copyBack n Z i) := by
  refine ⟨fun r c hr => fortranView_packColMajor n A r c hr, ?_⟩
  intro Z w hZ i hi r hr
  have h := hZ i hi r hr
  rw [copyBack_eq n Z i r hr, ← h]
  apply sumTo_congr
  intro k hk
  show A r k * copyBack n Z i k = fortranView n (packColMajor n A) r k * Z k i
  rw [fortranView_packColMajor n A r k hr, copyBack_eq n Z i k hk]

/-- a left eigenvector that is not a right eigenvector: `A = [[1,2],[0,3]]`, `λ = 3`, `v = (0,1)` (DESIGN.md #11) -/
example : IsLeftEig 2 (fun i j => if i = 0 ∧ j = 0 then (1 : ℤ) else if i = 0 ∧ j = 1 then 2 else if i = 1 ∧ j = 1 then 3 else 0)
    3 (fun k => if k = 1 then 1 else 0) := by
  intro c hc
  have : c = 0 ∨ c = 1 := by omega
  rcases this with rfl | rfl <;> simp [sumTo]

/-! ## The caller's output containers of the dynamic non-symmetric routine (any content on entry, any history) -/

/-- **nonsym_dynamic_outputs_fresh.** One call of `DynamicMatrixHelp::eigenValuesNonSym` on containers in an
*arbitrary* state `st` (left over from a call with a larger or smaller matrix, pre-sized by the caller, vectors of the
wrong length, empty): no access outside the containers (`some`), afterwards `eigenValues` holds exactly the `n` values
of this call and — if vectors were requested — `eigenVectors` holds exactly `n` vectors with `n` entries each, vector
`i` being column `i` of LAPACK's `vr`; nothing of the previous content survives.  Without a vector request the
caller's list is not touched. -/
theorem nonsym_dynamic_outputs_fresh {C K : Type} (zc : C) (zk : K) (st : NsOut C K) (c : NsCall C K) :
    ∃ out, nsStep zc zk st c = some out ∧
      out.vals = (List.range c.n).map c.w ∧
      (c.wantVec = true → out.vecs.length = c.n ∧
        ∀ i, i < c.n → out.vecs[i]? = some ((List.range c.n).map fun j => c.vr (c.n * i + j))) ∧
      (c.wantVec = false → out.vecs = st.vecs) := by
  refine ⟨_, nsStep_eq zc zk st c, rfl, ?_, ?_⟩
  · intro h
    simp only [h, if_true]
    exact ⟨nsFreshVecs_length c, fun i hi => nsFreshVecs_get c i hi⟩
  · intro h
    simp [h]

/-- a container left over from a 3x3 call, reused for a 2x2 call -/
example : nsStep (0 : Int) (0 : Int) ⟨[7, 8, 9], [[1, 2, 3], [4, 5, 6], [7, 8, 9]]⟩
    ⟨2, true, fun i => 10 + i, fun k => 100 + k⟩ = some ⟨[10, 11], [[100, 101], [102, 103]]⟩ := by decide

/-- a list of empty vectors, and one vector too few -/
example : nsStep (0 : Int) (0 : Int) ⟨[], [[], []]⟩
    ⟨3, true, fun i => i, fun k => k⟩ = some ⟨[0, 1, 2], [[0, 1, 2], [3, 4, 5], [6, 7, 8]]⟩ := by decide

/-- why both resizes are needed: without the inner `v.resize(N)` the copy keeps a stale tail (longer vector) or
writes past the end (shorter vector) -/
example : storePrefix 2 (fun k => (100 + k : Int)) [1, 2, 3] = some [100, 101, 3] := by decide
example : storePrefix 2 (fun k => (100 + k : Int)) [1] = none := by decide

/-- **nonsym_dynamic_history.** Every history of calls that reuse the same two containers, started from any content:
no call ever accesses a container out of bounds, and after the last call `c` the containers hold exactly what a call
of `c` alone on fresh containers returns (`eigenVectors`: of the last call that requested vectors). -/
theorem nonsym_dynamic_history {C K : Type} (zc : C) (zk : K) (st : NsOut C K) (cs : List (NsCall C K))
    (c : NsCall C K) :
    ∃ out, nsRun zc zk st (cs ++ [c]) = some out ∧ out.vals = nsFreshVals c ∧
      (c.wantVec = true → out.vecs = nsFreshVecs c) ∧
      nsRun zc zk ⟨[], []⟩ [c] = some ⟨nsFreshVals c, if c.wantVec then nsFreshVecs c else []⟩ := by
  refine ⟨_, nsRun_eq zc zk (cs ++ [c]) st, lastVals_append _ cs c, ?_, ?_⟩
  · intro h
    show lastVecs st.vecs (cs ++ [c]) = nsFreshVecs c
    rw [lastVecs_append, h]
    rfl
  · rw [nsRun_eq]
    rfl

example : nsRun (0 : Int) (0 : Int) ⟨[], []⟩
    [⟨3, true, fun i => i, fun k => k⟩, ⟨1, false, fun _ => 5, fun _ => 0⟩, ⟨2, true, fun i => 10 + i, fun k => 100 + k⟩]
    = some ⟨[10, 11], [[100, 101], [102, 103]]⟩ := by decide

/-- **nonsym_dynamic_vectors_right.** Hand-over and copy-back together, for any previous content of the caller's list:
if the columns of LAPACK's result `Z` are right eigenvectors of what it was given, the list returned for `A` consists
of `n` vectors with `n` entries, and vector `i` is a right eigenvector of `A` for `w i`. -/
theorem nonsym_dynamic_vectors_right {R : Type} [CommRing R] (n : Nat) (A : Nat → Nat → R)
    (Z : Nat → Nat → R) (w : Nat → R)
    (hZ : ∀ c, c < n → IsRightEig n (lapackSeesNonSymD n A) (w c) (fun k => Z k c))
    (st : NsOut R R) :
    ∃ out, nsStep 0 0 st ⟨n, true, w, fortranStore n Z⟩ = some out ∧ out.vals.length = n ∧ out.vecs.length = n ∧
      ∀ i, i < n → ∃ v, out.vecs[i]? = some v ∧ v.length = n ∧ out.vals[i]? = some (w i) ∧
        IsRightEig n A (w i) (fun k => v.getD k 0) := by
  refine ⟨_, nsStep_eq 0 0 st _, nsFreshVals_length _, ?_, ?_⟩
  · simp only [if_true]
    exact nsFreshVecs_length _
  · intro i hi
    refine ⟨(List.range n).map fun j => fortranStore n Z (n * i + j), ?_, ?_, ?_, ?_⟩
    · simp only [if_true]
      exact nsFreshVecs_get ⟨n, true, w, fortranStore n Z⟩ i hi
    · rw [List.length_map, List.length_range]
    · show ((List.range n).map w)[i]? = some (w i)
      rw [List.getElem?_map, List.getElem?_range hi]
      rfl
    · have hrow : ∀ k, k < n →
          ((List.range n).map fun j => fortranStore n Z (n * i + j)).getD k 0 = copyBack n Z i k := by
        intro k hk
        rw [List.getD_eq_getElem?_getD, List.getElem?_map, List.getElem?_range hk]
        show fortranStore n Z (n * i + k) = unpackRowMajor n (fortranStore n Z) i k
        unfold unpackRowMajor
        rw [Nat.mul_comm]
      have hr := (lapack_handover_nonsym_dynamic n A).2 Z w hZ i hi
      intro r hr'
      beta_reduce
      rw [hrow r hr', ← hr r hr']
      apply sumTo_congr
      intro k hk
      rw [hrow k hk]

/-! ## Round four: the control tables and LAPACK call sites regenerated from the current source -/

/-- **ev3_control_translated.** The table-driven definitions — `eig0` with the translated rows, cross-product pairs,
lengths, running-maximum updates and result selection; `orthoComp` with the translated branch condition, normalising
2-vector and components; `eig1` with the translated reduced matrix and the four translated normalisation sequences
and result coefficients; the eigenvector assembly with the translated indices of both
branches of `if (r >= 0)`; the whole 3x3 eigenvector routine built from them — coincide over ℝ, for arbitrary elementary
functions and all arguments, with the hand-written control flow the other theorems speak about.  Translated
expressions are compared up to ring identities (commuted factors, re-associated sums, also inside `sqrt`), translated
index tables by evaluation.  The line-protocol driver runs the table-driven definitions. -/
theorem ev3_control_translated (sqrt acos cos : ℝ → ℝ) (pi eps : ℝ) :
    (∀ (A : M3 ℝ) (ev : ℝ), eig0T sqrt A ev = eig0 sqrt A ev) ∧
    (∀ e : V3 ℝ, orthoCompT sqrt e = orthoComp sqrt e) ∧
    (∀ (A : M3 ℝ) (e0 : V3 ℝ) (ev1 : ℝ), eig1T sqrt A e0 ev1 = eig1 sqrt A e0 ev1) ∧
    (∀ (S : M3 ℝ) (l : ℝ × ℝ × ℝ) (r : ℝ), trigVectorsT sqrt S l r = trigVectors sqrt S l r) ∧
    (∀ A : M3 ℝ, eigenValuesVectors3dT sqrt acos cos pi eps A = eigenValuesVectors3d sqrt acos cos pi eps A) :=
  ⟨eig0T_eq sqrt, orthoCompT_eq sqrt, eig1T_eq sqrt, trigVectorsT_eq sqrt, eigenValuesVectors3dT_eq sqrt acos cos pi eps⟩

/-- the tables are not degenerate: on the integers (identity as "square root") the table-driven `eig0` of
`diag(2,1,1) - 2 I` picks the third cross product, the only non-zero one -/
example : (eig0T (fun x : Int => x) ⟨2, 0, 0, 0, 1, 0, 0, 0, 1⟩ 2).x = 1 ∧ (eig0T (fun x : Int => x) ⟨2, 0, 0, 0, 1, 0, 0, 0, 1⟩ 2).y = 0 :=
  ⟨rfl, rfl⟩

/-- **ev3_vectors_translated.** `ev3_vectors` for the routine assembled from the translated tables: for every real
symmetric 3x3 matrix not treated as diagonal, what the current source's selection and assembly logic returns are unit,
mutually orthogonal vectors with `(A - λᵢ I) vᵢ = 0`. -/
theorem ev3_vectors_translated (eps : ℝ) (he : 0 ≤ eps) (A : M3 ℝ) (hs : Sym3 A)
    (hb : diagBranchVec eps (sdiv3 A (maxAbsElement A)) = false) :
    EigTriple A (eigenValuesVectors3dT Real.sqrt Real.arccos Real.cos Real.pi eps A).1.1
      (eigenValuesVectors3dT Real.sqrt Real.arccos Real.cos Real.pi eps A).1.2.1
      (eigenValuesVectors3dT Real.sqrt Real.arccos Real.cos Real.pi eps A).1.2.2
      (eigenValuesVectors3dT Real.sqrt Real.arccos Real.cos Real.pi eps A).2.1
      (eigenValuesVectors3dT Real.sqrt Real.arccos Real.cos Real.pi eps A).2.2.1
      (eigenValuesVectors3dT Real.sqrt Real.arccos Real.cos Real.pi eps A).2.2.2 := by
  rw [eigenValuesVectors3dT_eq]
  exact ev3_vectors eps he A hs hb

/-- (hypotheses satisfiable: the two examples after `ev3_vectors`) -/
example : Gen.ev3_asmPos = (2, 2, 2, 1, 1, 0, 1, 2) ∧ Gen.ev3_asmNeg = (0, 0, 0, 1, 1, 2, 0, 1) := ⟨rfl, rfl⟩

/-- **ev3_diag_network_translated.** The diagonal special case of the source starts from the diagonal entries and the
coordinate vectors and runs the compare-and-swap network (0,1), (1,2), (0,1), each step swapping the compared values
*and* the vectors of the same indices — the network of the hand-written model (`ev3_vectors_diag`). -/
theorem ev3_diag_network_translated :
    Gen.ev3_diagInit = [(0, 0), (1, 1), (2, 2)] ∧ Gen.ev3_diagVecs = [[1, 0, 0], [0, 1, 0], [0, 0, 1]] ∧
    Gen.ev3_diagSwaps = [(0, 1, 0, 1, 0, 1), (1, 2, 1, 2, 1, 2), (0, 1, 0, 1, 0, 1)] := ev3_diag_tables

/-- the interpreted network sorts values and vectors jointly -/
example : (diagVectorsT (⟨3, 0, 0, 0, 1, 0, 0, 0, 2⟩ : M3 Int)).1 = (1, 2, 3) ∧
    (diagVectorsT (⟨3, 0, 0, 0, 1, 0, 0, 0, 2⟩ : M3 Int)).2.1.y = 1 ∧ (diagVectorsT (⟨3, 0, 0, 0, 1, 0, 0, 0, 2⟩ : M3 Int)).2.2.2.x = 1 :=
  ⟨rfl, rfl, rfl⟩

/-- **lapack_handover_translated.** With the orientation of the copy loops and `uplo` as they are in the source now,
what ?syev / ?geev see and how the result is copied back are the maps of `lapack_handover_sym`,
`lapack_handover_nonsym` and `lapack_handover_nonsym_dynamic`. -/
theorem lapack_handover_translated {K : Type} (n : Nat) (A Z : Nat → Nat → K) :
    lapackSeesSymT n A = lapackSeesSym n A ∧ lapackSeesNonSymFT n A = lapackSeesNonSymF n A ∧
    lapackSeesNonSymDT n A = lapackSeesNonSymD n A ∧ copyBackSymT n Z = copyBack n Z :=
  ⟨lapackSeesSymT_eq n A, lapackSeesNonSymFT_eq n A, lapackSeesNonSymDT_eq n A, copyBackSymT_eq n Z⟩

example : lapackSeesNonSymDT 2 (fun i j => (10 * i + j : Nat)) 0 1 = 1 ∧
    lapackSeesNonSymFT 2 (fun i j => (10 * i + j : Nat)) 0 1 = 10 := by decide

/-- **lapack_sym_call.** ?syev's interface asks for `LWORK ≥ max(1, 3N-1)`, a work array of `LWORK` and a matrix array
of `N²` entries: for *every* order the `lwork` of the source meets the bound, the arrays the source declares have these
sizes, the job character is `'v'` exactly for the eigenvector job and `uplo` names a triangle. -/
theorem lapack_sym_call (n : Nat) :
    max 1 (3 * n - 1) ≤ max 1 (Gen.lapSym_lwork n) ∧ (1 ≤ n → max 1 (3 * n - 1) ≤ Gen.lapSym_lwork n) ∧
    Gen.lapSym_lwork n ≤ Gen.lapSym_workSize n ∧ n * n ≤ Gen.lapSym_matSize n ∧
    Gen.lapSym_jobz = ('n', 'v') ∧ (Gen.lapSym_uplo = 'u' ∨ Gen.lapSym_uplo = 'l') := lapack_sym_call_ok n

example : Gen.lapSym_lwork 4 = 11 ∧ Gen.lapSym_workSize 8 = 23 := by decide

/-- **lapack_nonsym_call.** ?geev's interface asks for `LWORK ≥ max(1, 3N)`, and `≥ 4N` when eigenvectors are wanted,
`WR`/`WI` of `N`, `A` of `N²` and — with `JOBVR = 'V'` — `VR` of `N²` entries: both call sites (fixed size: eigenvalues
only; dynamic: right eigenvectors exactly when the caller passes a list, never left ones), every order `n ≥ 1`. -/
theorem lapack_nonsym_call (n : Nat) (hn : 1 ≤ n) (vec : Bool) :
    (max 1 (3 * n) ≤ Gen.lapNsF_lwork n ∧ Gen.lapNsF_lwork n ≤ Gen.lapNsF_workSize n ∧
      n ≤ (Gen.lapNsF_wSize n).1 ∧ n ≤ (Gen.lapNsF_wSize n).2 ∧ Gen.lapNsF_jobs = ('n', 'n')) ∧
    ((if vec then 4 * n else max 1 (3 * n)) ≤ Gen.lapNsD_lwork n vec ∧ Gen.lapNsD_lwork n vec ≤ Gen.lapNsD_workSize n vec ∧
      n * n ≤ Gen.lapNsD_matSize n vec ∧ n ≤ (Gen.lapNsD_wSize n vec).1 ∧ n ≤ (Gen.lapNsD_wSize n vec).2 ∧
      (vec = true → n * n ≤ Gen.lapNsD_vrSize n vec) ∧
      Gen.lapNsD_jobvl = ('n', 'n') ∧ Gen.lapNsD_jobvr = ('v', 'n')) := lapack_nonsym_call_ok n hn vec

example : Gen.lapNsD_lwork 5 true = 20 ∧ Gen.lapNsD_lwork 5 false = 15 ∧ Gen.lapNsD_vrSize 5 true = 25 := by decide

/-- **entry_points_request_vectors.** `FMatrixHelp::eigenValuesVectors` and `eigenValuesVectorsLapack` instantiate the
implementation with the eigenvector job and pass the caller's matrix (so `jobz = 'v'` by `lapack_sym_call`). -/
theorem entry_points_request_vectors : Gen.entryJobs.2.1 = true ∧ Gen.entryJobs.2.2.2 = true := entry_jobs_ok

example : Gen.entryJobs.1 = false := rfl

/-! ## Refinement to the abstract specification -/

/-- the abstract specification the property states for a symmetric 3x3 matrix: ascending values that sum to the trace
and are the whole spectrum with multiplicity, and unit, mutually orthogonal vectors with `(A - λᵢ I) vᵢ = 0` -/
structure IsEigenDecomposition3 (A : M3 ℝ) (l : ℝ × ℝ × ℝ) (v : V3 ℝ × V3 ℝ × V3 ℝ) : Prop where
  ascending : l.1 ≤ l.2.1 ∧ l.2.1 ≤ l.2.2
  trace : l.1 + l.2.1 + l.2.2 = trace3 A
  spectrum : ∀ t : ℝ, charPoly3 A t = (t - l.1) * (t - l.2.1) * (t - l.2.2)
  vectors : EigTriple A l.1 l.2.1 l.2.2 v.1 v.2.1 v.2.2

/-- **ev3_refines_specification.** End to end, from the control flow assembled out of the translated tables to the
abstract specification: for every real symmetric 3x3 matrix that the code does not treat as diagonal,
`FMatrixHelp::eigenValuesVectors` returns an exact eigen-decomposition (`IsEigenDecomposition3`: ascending, trace,
whole spectrum with multiplicity, orthonormal eigenvectors), and its values are those of `FMatrixHelp::eigenValues`.
(The complementary case is `ev3_vectors_diag`: an approximate decomposition with residual `≤ sqrt(eps)·‖A‖`.) -/
theorem ev3_refines_specification (eps : ℝ) (he : 0 ≤ eps) (A : M3 ℝ) (hs : Sym3 A)
    (hb : diagBranchVec eps (sdiv3 A (maxAbsElement A)) = false) :
    (eigenValuesVectors3dT Real.sqrt Real.arccos Real.cos Real.pi eps A).1 =
        eigenValues3d Real.sqrt Real.arccos Real.cos Real.pi eps A ∧
    IsEigenDecomposition3 A (eigenValuesVectors3dT Real.sqrt Real.arccos Real.cos Real.pi eps A).1
      (eigenValuesVectors3dT Real.sqrt Real.arccos Real.cos Real.pi eps A).2 := by
  have hnd : ¬ DiagBranch eps (sdiv3 A (maxAbsElement A)) := by
    intro hd
    rw [(diagBranchVec_iff eps _).mpr hd] at hb
    exact Bool.noConfusion hb
  have hag := ev3_entry_points_agree Real.sqrt Real.arccos Real.cos Real.pi eps A
  rw [eigenValuesVectors3dT_eq]
  refine ⟨hag, ?_, ?_, ?_, ?_⟩
  · rw [hag]; exact ev3_ascending _ _ _ _ _ A
  · rw [hag]; exact ev3_trace _ _ _ _ _ A
  · rw [hag]; exact ev3_spectrum eps he A hs (Or.inr hnd)
  · exact ev3_vectors eps he A hs hb

/-- (hypotheses satisfiable: the two examples after `ev3_vectors`; the specification is not vacuous: the identity
decomposition of `diag(1,2,3)` satisfies its first three clauses) -/
example : charPoly3 (⟨1, 0, 0, 0, 2, 0, 0, 0, 3⟩ : M3 ℝ) 5 = (5 - 1) * (5 - 2) * (5 - 3) := by
  unfold charPoly3 det3 shift3
  norm_num

/-- **nonsym_spectrum_handover.** "Returns the spectrum (all roots of the characteristic polynomial)": for every order
and every square matrix over a commutative ring, what ?geev is handed has the characteristic polynomial of `A` — the
fixed-size routine hands over `Aᵀ` (`Matrix.charpoly_transpose`), the dynamic one `A` itself — and what ?syev works on
is `A` when `A` is symmetric; with the orientation of the copy loops and `uplo` as translated from the current source.
So the roots LAPACK returns (trusted) are the spectrum of `A`, complex pairs included. -/
theorem nonsym_spectrum_handover {R : Type} [CommRing R] (n : Nat) (A : Nat → Nat → R) :
    (toMatN n (lapackSeesNonSymFT n A)).charpoly = (toMatN n A).charpoly ∧
    toMatN n (lapackSeesNonSymDT n A) = toMatN n A ∧
    (SymOn n A → toMatN n (lapackSeesSymT n A) = toMatN n A) := by
  rw [lapackSeesNonSymFT_eq, lapackSeesNonSymDT_eq, lapackSeesSymT_eq]
  exact ⟨charpoly_seesNonSymF n A, toMatN_seesNonSymD n A, toMatN_seesSym n A⟩

/-- a non-symmetric instance: for `A = [[1,2],[0,3]]` LAPACK is handed a different matrix by the fixed-size routine -/
example : lapackSeesNonSymFT 2 (fun i j => if i = 0 ∧ j = 1 then (2 : ℤ) else 0) 1 0 = 2 ∧
    (fun i j => if i = 0 ∧ j = 1 then (2 : ℤ) else 0) 1 0 = 0 := by decide

end DV.C08
