/-
C12 — ParameterTree returns what the configuration source says, or a precise error.

Property theorems about the model `DuneVerif/Model/C12.lean` (a transcription of readINITree, ParameterTree's
operator[]/hasKey/sub/get, readOptions/readNamedOptions and Parser<T>).  A *document of the documented dialect*
is `renderDoc items` for a list of `Item`s (blank line, comment, `[group]` header, assignment with optional
quoting / multi-line value / trailing comment) satisfying the lexical predicate `Item.wf`; what it says is
`denote [] items`, the sequence of (full dotted key, value) assignments.
-/
import DuneVerif.Proofs.C12Render
import DuneVerif.Proofs.C12Compat
import DuneVerif.Proofs.C12Lex
import DuneVerif.Proofs.C12Opt
import DuneVerif.Proofs.C12R2
import DuneVerif.Proofs.C12Named
import DuneVerif.Proofs.C12Float
import DuneVerif.Proofs.C12Src
import DuneVerif.Proofs.C12FloatIff

namespace DV.C12

/-! ## a concrete document used in the non-vacuity examples -/

/-- a small hierarchy: two top-level keys, a group with a multi-line value and a nested group -/
def exTree : Tree :=
  .node [("x".toList, "1".toList), ("y".toList, "2".toList)]
    [("fruit".toList, .node [("apple".toList, "green\n red ".toList)]
        [("pip".toList, .node [("pear".toList, "a = b".toList)] [])])]

/-- one of its spellings: comment lines, blanks, trailing comments, `[ ]` reset, both quote characters,
    a multi-line value, a dotted key inside a group -/
def exItems : List Item :=
  [ .comment [] " fruit colours".toList,
    .assign [] "x".toList " ".toList " ".toList none "1".toList [] (some " one".toList),
    .header [] [] "fruit".toList [] " # group".toList,
    .blank " ".toList,
    .header [] " ".toList [] " ".toList [],
    .assign "  ".toList "y".toList [] [] (some '\'') "2".toList "\t".toList none,
    .header [] [] "fruit".toList [] [],
    .assign [] "apple".toList " ".toList " ".toList (some '"') "green\n red ".toList " ".toList none,
    .assign [] "pip.pear".toList [] " ".toList none "a = b".toList [] none,
    .blank [] ]

example : renderDoc exItems =
    "# fruit colours\nx = 1# one\n[fruit] # group\n \n[  ]\n  y='2'\t\n[fruit]\napple = \"green\n red \" \npip.pear= a = b\n".toList := by
  decide

theorem exTree_wf : WFT exTree := by simp [exTree, WFT, WFS, names, flat, flatSubs]
theorem exItems_wf : ∀ it ∈ exItems, it.wf = true := by decide
theorem exItems_denote : denote [] exItems = flatten exTree := by decide

/-- the example of the ParameterTreeParser class documentation, item by item -/
def docExample : List Item :=
  let a (k v : String) : Item := .assign [] k.toList " ".toList " ".toList none v.toList [] none
  [ .comment [] " this file configures fruit colors in fruitsalad".toList, .blank [], .blank [],
    .comment [] "these are no fruit but could also appear in fruit salad".toList,
    a "honeydewmelon" "yellow", a "watermelon" "green", .blank [],
    a "fruit.tropicalfruit.orange" "orange", .blank [],
    .header [] [] "fruit".toList [] [], a "strawberry" "red", a "pomegranate" "red", .blank [],
    .header [] [] "fruit.pipfruit".toList [] [], a "apple" "green/red/yellow", a "pear" "green", .blank [],
    .header [] [] "fruit.stonefruit".toList [] [], a "cherry" "red", a "plum" "purple", .blank [] ]

set_option maxRecDepth 8000 in
example : renderDoc docExample =
    ("# this file configures fruit colors in fruitsalad\n\n\n#these are no fruit but could also appear in fruit salad\n" ++
     "honeydewmelon = yellow\nwatermelon = green\n\nfruit.tropicalfruit.orange = orange\n\n[fruit]\nstrawberry = red\n" ++
     "pomegranate = red\n\n[fruit.pipfruit]\napple = green/red/yellow\npear = green\n\n[fruit.stonefruit]\ncherry = red\n" ++
     "plum = purple\n").toList := by rfl

/-- the real example satisfies the lexical predicate, and is read as the hierarchy it describes (note the key
    order: `tropicalfruit` is the first group inside `fruit` because it appears first) -/
example : ∀ it ∈ docExample, it.wf = true := by decide
example : parseINI (renderDoc docExample) .empty true =
    .ok (.node [("honeydewmelon".toList, "yellow".toList), ("watermelon".toList, "green".toList)]
      [("fruit".toList, .node [("strawberry".toList, "red".toList), ("pomegranate".toList, "red".toList)]
        [("tropicalfruit".toList, .node [("orange".toList, "orange".toList)] []),
         ("pipfruit".toList, .node [("apple".toList, "green/red/yellow".toList), ("pear".toList, "green".toList)] []),
         ("stonefruit".toList, .node [("cherry".toList, "red".toList), ("plum".toList, "purple".toList)] [])])]) := by rfl

/-! ## parsing a document -/

/-- **parse_render.**  For every hierarchy `t` (distinct names per node, no name both value and group, no empty
    group, no dot inside a name) and *every* document of the dialect that spells its entries — any mix of
    `[group]` headers and dotted keys, blanks, comments, blank lines, either quote, multi-line values —
    reading the document into an empty tree yields exactly `t`: same keys, same values, same key order. -/
theorem parse_render (t : Tree) (ht : WFT t) (items : List Item) (hwf : ∀ it ∈ items, it.wf = true)
    (hd : denote [] items = flatten t) :
    parseINI (renderDoc items) .empty true = .ok t := by
  rw [parseINI_renderDoc items hwf, hd]
  obtain ⟨st', h1, h2⟩ := applyAll_flatten t ht []
  rw [h1, andThen_ok, h2]

example : parseINI (renderDoc exItems) .empty true = .ok exTree :=
  parse_render exTree exTree_wf exItems exItems_wf exItems_denote

/-- the hypotheses of `parse_render` are satisfiable for every hierarchy whose keys and values can be written
    down at all: rendering 1, one dotted assignment per entry -/
theorem parse_render_dotted (t : Tree) (ht : WFT t) (hl : ∀ e ∈ flatten t, keyOK e.1 = true ∧ valOK e.2 = true) :
    parseINI (renderDoc (dottedItems (flatten t))) .empty true = .ok t :=
  parse_render t ht _ (dotted_wf _ hl) (denote_dotted _)

example : renderDoc (dottedItems (flatten exTree)) =
    "x=\"1\"\ny=\"2\"\nfruit.apple=\"green\n red \"\nfruit.pip.pear=\"a = b\"".toList := by decide
example : parseINI (renderDoc (dottedItems (flatten exTree))) .empty true = .ok exTree :=
  parse_render_dotted exTree exTree_wf (by decide)

/-- rendering 2: every entry under its own `[group]` header, the key being the last component -/
theorem parse_render_grouped (t : Tree) (ht : WFT t)
    (hl : ∀ e ∈ flat t, (∀ c ∈ e.1, compOK c = true) ∧ valOK e.2 = true) :
    parseINI (renderDoc (groupedItems (flat t))) .empty true = .ok t :=
  parse_render t ht _
    (grouped_wf _ (fun e he => ⟨flat_paths_ne_nil t e he, (hl e he).1, (hl e he).2⟩))
    (denote_grouped _ (fun e he => ⟨flat_paths_ne_nil t e he, (hl e he).1⟩) [])

example : renderDoc (groupedItems (flat exTree)) =
    "[]\nx=\"1\"\n[]\ny=\"2\"\n[fruit]\napple=\"green\n red \"\n[fruit.pip]\npear=\"a = b\"".toList := by decide
example : parseINI (renderDoc (groupedItems (flat exTree))) .empty true = .ok exTree :=
  parse_render_grouped exTree exTree_wf (by decide)

/-- the general form behind it: reading any document of the dialect, into any tree, with either flag, is
    applying the assignments it denotes in order (duplicate test, overwrite test, `pt[key] = value`) -/
theorem parse_denotation (items : List Item) (hwf : ∀ it ∈ items, it.wf = true) (t : Tree) (ow : Bool) :
    parseINI (renderDoc items) t ow =
      andThen (applyAll ow (denote [] items) ⟨[], [], t⟩) (fun s => .ok s.tree) :=
  parseINI_renderDoc items hwf t ow

/-- **groups_eq_dotted** (documents): two documents that denote the same assignments — however they distribute
    the key between `[group]` headers and dotted keys — are read identically -/
theorem groups_eq_dotted (items₁ items₂ : List Item) (h₁ : ∀ it ∈ items₁, it.wf = true)
    (h₂ : ∀ it ∈ items₂, it.wf = true) (hd : denote [] items₁ = denote [] items₂) (t : Tree) (ow : Bool) :
    parseINI (renderDoc items₁) t ow = parseINI (renderDoc items₂) t ow := by
  rw [parseINI_renderDoc items₁ h₁, parseINI_renderDoc items₂ h₂, hd]

example : parseINI (renderDoc exItems) .empty true = parseINI (renderDoc (dottedItems (flatten exTree))) .empty true :=
  groups_eq_dotted _ _ exItems_wf (dotted_wf _ (by decide)) (by decide) _ _

/-- `[p]` followed by `k = v` says `p.k = v` -/
theorem group_header_is_key_prefix (pfx a b p c j w1 k w2 w3 v w4 : Str) (q : Option Char) (cm : Option Str)
    (hp : p ≠ []) :
    denote pfx [.header a b p c j, .assign w1 k w2 w3 q v w4 cm] = [(p ++ '.' :: k, v)] := by
  simp [denote, newPrefix, hp]

/-- **groups_eq_dotted** (tree): `t.sub(g)[k]` is `t[g.k]`, `t.sub(g).hasKey(k)` is `t.hasKey(g.k)` -/
theorem groups_eq_dotted_tree (t s : Tree) (g k : Str) (f : Bool) (h : t.sub g f = .ok s) :
    t.get? (g ++ '.' :: k) = s.get? k ∧ t.hasKey (g ++ '.' :: k) = s.hasKey k := by
  simp only [Tree.get?, Tree.hasKey, comps_dot]
  exact subPath_getPath f (comps g) (comps k) t s (comps_ne_nil k) h

example : exTree.sub "fruit.pip".toList false = .ok (.node [("pear".toList, "a = b".toList)] []) := by rfl
example : exTree.get? "fruit.pip.pear".toList = some "a = b".toList := by decide

/-- **groups_eq_dotted** (writing): the non-const `sub(g)` creates the group `g` (and nothing else: no value
    changes), and assigning through a dotted key `g.k…` creates exactly the groups `sub(g)` creates — doing
    `pt.sub(g)` first makes no difference to `pt[g.k] = v` -/
theorem groups_eq_dotted_write (t t1 : Tree) (g : Str) (h : t.mkSub g = .ok t1) :
    t1.hasSub g = .ok true ∧ (∀ q, t1.get? q = t.get? q) ∧
    (∀ k v, t1.set (g ++ '.' :: k) v = t.set (g ++ '.' :: k) v) := by
  refine ⟨mkSubPath_hasSub _ _ _ (comps_ne_nil g) h, fun q => mkSubPath_getPath _ _ _ h _, fun k v => ?_⟩
  simp only [Tree.set, comps_dot]
  exact mkSubPath_then_setPath _ _ v _ _ (comps_ne_nil k) h

example : exTree.mkSub "fruit.new".toList =
    .ok (.node [("x".toList, "1".toList), ("y".toList, "2".toList)]
      [("fruit".toList, .node [("apple".toList, "green\n red ".toList)]
        [("pip".toList, .node [("pear".toList, "a = b".toList)] []), ("new".toList, .node [] [])])]) := by rfl
example : exTree.mkSub "x.sub".toList = .error .range := by rfl

/-- **keys_in_first_appearance_order.**  After reading a document (either value of the overwrite flag), at every
    node `gs` of the tree the value keys are the old ones followed by the new leaf names in order of first
    appearance in the document, and likewise the sub keys with the new group names (`firstApp` scans the
    assignments below `gs` in document order and appends a name when it is first seen).  With `overwrite = false`
    an assignment to an existing key is skipped, which adds no name — the statement is literally the same. -/
theorem keys_in_first_appearance_order (items : List Item) (hwf : ∀ it ∈ items, it.wf = true) (t t' : Tree) (ow : Bool)
    (h : parseINI (renderDoc items) t ow = .ok t') (gs : List Str) :
    names (nodeAt gs t').vals =
        firstApp (names (nodeAt gs t).vals) ((descend gs (pathsOf (denote [] items))).map (fun e => leafOf e.1)) ∧
    names (nodeAt gs t').subs =
        firstApp (names (nodeAt gs t).subs) ((descend gs (pathsOf (denote [] items))).map (fun e => groupOf e.1)) := by
  rw [parseINI_renderDoc items hwf] at h
  cases ha : applyAll ow (denote [] items) ⟨[], [], t⟩ with
  | error e => rw [ha] at h; simp at h
  | ok st =>
    rw [ha, andThen_ok] at h
    injection h with h
    obtain ⟨ps, hp1, hp2⟩ := applyAll_setAllP_any ow _ _ _ ha
    rw [h] at hp2
    have hk : ps.map (·.1) = (pathsOf (denote [] items)).map (·.1) := by
      rw [hp1]; simp [pathsOf, List.map_map, Function.comp_def]
    have hn := setAllP_root_names _ _ _ (setAllP_nodeAt gs _ _ _ hp2)
    have hd := descend_fst gs _ _ hk
    rw [map_comp_fst leafOf, map_comp_fst groupOf] at hn
    rw [map_comp_fst leafOf, map_comp_fst groupOf, ← hd]
    exact hn

/-- e.g. `b.x`, `a`, `b.y`, `c.z`, `a2`: value keys `a, a2`; sub keys `b, c`; inside `b`: `x, y` -/
example : parseINI "b.x = 1\na = 2\nb.y = 3\nc.z = 4\na2 = 5".toList .empty true =
    .ok (.node [("a".toList, "2".toList), ("a2".toList, "5".toList)]
      [("b".toList, .node [("x".toList, "1".toList), ("y".toList, "3".toList)] []),
       ("c".toList, .node [("z".toList, "4".toList)] [])]) := by rfl
/-- the theorem instantiated: second source without overwrite; `x` exists (skipped), `z` and the group `g` are new -/
example :
    let items : List Item := [.assign [] "x".toList [] [] none "9".toList [] none, .assign [] "g.k".toList [] [] none "1".toList [] none,
      .assign [] "z".toList [] [] none "2".toList [] none]
    let t : Tree := .node [("y".toList, "0".toList), ("x".toList, "1".toList)] []
    parseINI (renderDoc items) t false =
        .ok (.node [("y".toList, "0".toList), ("x".toList, "1".toList), ("z".toList, "2".toList)]
          [("g".toList, .node [("k".toList, "1".toList)] [])]) ∧
    firstApp (names t.vals) ((descend [] (pathsOf (denote [] items))).map (fun e => leafOf e.1)) =
      ["y".toList, "x".toList, "z".toList] := by
  constructor
  · rfl
  · decide
example : firstApp ["a".toList] [some "b".toList, none, some "a".toList, some "c".toList, some "b".toList] =
    ["a".toList, "b".toList, "c".toList] := by decide

/-- **duplicate_rejected.**  A document that assigns the same full key twice (through whatever mix of groups and
    dotted keys) is never accepted; if the assignments in front of the second occurrence are accepted, the
    error is the ParameterTreeParserError -/
theorem duplicate_rejected (items : List Item) (hwf : ∀ it ∈ items, it.wf = true) (t : Tree) (ow : Bool)
    (es₁ es₃ : List (Str × Str)) (k v : Str) (hd : denote [] items = es₁ ++ (k, v) :: es₃)
    (hk : k ∈ es₁.map (·.1)) :
    (∀ t', parseINI (renderDoc items) t ow ≠ .ok t') ∧
    (∀ st, applyAll ow es₁ ⟨[], [], t⟩ = .ok st → parseINI (renderDoc items) t ow = .error .parser) := by
  rw [parseINI_renderDoc items hwf, hd, applyAll_append]
  have key : ∀ st, applyAll ow es₁ ⟨[], [], t⟩ = .ok st →
      andThen (andThen (applyAll ow es₁ ⟨[], [], t⟩) (applyAll ow ((k, v) :: es₃))) (fun s => .ok s.tree)
        = .error .parser := by
    intro st hs
    have hseen := applyAll_seen ow es₁ _ st hs k (Or.inl hk)
    rw [hs, andThen_ok]
    simp only [applyAll, assignStep_dup ow st k v hseen]
    rfl
  constructor
  · intro t' h
    cases hs : applyAll ow es₁ ⟨[], [], t⟩ with
    | error e => rw [hs] at h; simp at h
    | ok st => rw [key st hs] at h; simp at h
  · exact key

example : parseINI "a = 1\n[g]\nk = 1\n[]\ng.k = 2".toList .empty true = .error .parser := by rfl
example : denote [] [.assign [] "g.k".toList [] [] none "1".toList [] none, .header [] [] "g".toList [] [],
    .assign [] "k".toList [] [] none "2".toList [] none] = [("g.k".toList, "1".toList)] ++ ("g.k".toList, "2".toList) :: [] := by
  decide

/-- **overwrite_flag_spec.**  Reading a document into a tree `t`: with `overwrite` every key of the document gets
    the document's value and all other entries of `t` are kept; without it the entries of `t` win and only new
    keys are added.  (`NoLeafClash`: no assignment targets as a value a name that is a group at that moment —
    the case the code itself reports later as "occurs as value and as subtree".) -/
theorem overwrite_flag_spec (items : List Item) (hwf : ∀ it ∈ items, it.wf = true) (t t' : Tree) (ow : Bool)
    (h : parseINI (renderDoc items) t ow = .ok t') (hc : NoLeafClash ow (denote [] items) ⟨[], [], t⟩) (q : Str) :
    t'.get? q =
      if ow then (aGet? q (denote [] items)).or (t.get? q) else (t.get? q).or (aGet? q (denote [] items)) := by
  rw [parseINI_renderDoc items hwf] at h
  cases ha : applyAll ow (denote [] items) ⟨[], [], t⟩ with
  | error e => rw [ha] at h; simp at h
  | ok st =>
    rw [ha, andThen_ok] at h
    injection h with h
    rw [← h]
    exact applyAll_get ow _ _ _ ha hc q

/-- `x` is pre-existing: kept without the flag, replaced with it; `y` is new and stored either way -/
example : parseINI "x = new\ny = 2".toList (.node [("x".toList, "old".toList)] []) false =
    .ok (.node [("x".toList, "old".toList), ("y".toList, "2".toList)] []) := by rfl
example : parseINI "x = new\ny = 2".toList (.node [("x".toList, "old".toList)] []) true =
    .ok (.node [("x".toList, "new".toList), ("y".toList, "2".toList)] []) := by rfl
example : NoLeafClash false [("x".toList, "new".toList)] ⟨[], [], .node [("x".toList, "old".toList)] []⟩ := by
  simp [NoLeafClash, leafClash, comps, splitOnC, aHas]

/-- **overwrite_flag_spec, two sources, static hypothesis.**  Read `items₀` into an empty tree, then `items` with
    the flag `ow`.  If no key of the two documents is a proper dotted prefix of another one, then for every key
    `q`: with `overwrite` the second document wins, without it the first one wins, and a key mentioned by only one
    of them has that document's value. -/
theorem overwrite_flag_two_sources (items₀ items : List Item) (h₀ : ∀ it ∈ items₀, it.wf = true)
    (h₁ : ∀ it ∈ items, it.wf = true) (ow : Bool) (t₀ t' : Tree)
    (hc : Compat (keyPaths (denote [] items₀) ++ keyPaths (denote [] items)))
    (hp₀ : parseINI (renderDoc items₀) .empty true = .ok t₀) (hp : parseINI (renderDoc items) t₀ ow = .ok t') (q : Str) :
    t'.get? q =
      if ow then (aGet? q (denote [] items)).or (aGet? q (denote [] items₀))
      else (aGet? q (denote [] items₀)).or (aGet? q (denote [] items)) := by
  have hc₀ : Compat ([] ++ keyPaths (denote [] items₀)) := by
    intro a ha b hb
    exact hc a (by simp at ha; simp [ha]) b (by simp at hb; simp [hb])
  have hn₀ := noLeafClash_of_compat true (denote [] items₀) ⟨[], [], .empty⟩ [] (groupsBelow_empty _) hc₀
  have hget₀ := overwrite_flag_spec items₀ h₀ .empty t₀ true hp₀ hn₀
  have hgb : GroupsBelow (keyPaths (denote [] items₀)) t₀ := by
    rw [parseINI_renderDoc items₀ h₀] at hp₀
    cases ha : applyAll true (denote [] items₀) ⟨[], [], .empty⟩ with
    | error e => rw [ha] at hp₀; simp at hp₀
    | ok st =>
      rw [ha, andThen_ok] at hp₀
      injection hp₀ with hp₀
      have := groupsBelow_applyAll true _ _ st [] (groupsBelow_empty _) ha
      rw [hp₀] at this
      simpa using this
  have hn := noLeafClash_of_compat ow (denote [] items) ⟨[], [], t₀⟩ _ hgb hc
  rw [overwrite_flag_spec items h₁ t₀ t' ow hp hn q, hget₀ q]
  have he : Tree.empty.get? q = none := getPath_empty _
  simp [he]

example : Compat (keyPaths [("a.b".toList, []), ("a.c".toList, []), ("d".toList, [])]) := by
  intro a ha b hb
  simp [keyPaths, comps, splitOnC] at ha hb
  rcases ha with rfl | rfl | rfl <;> rcases hb with rfl | rfl | rfl <;> (rintro ⟨c, hc, h⟩; simp at h <;> simp_all)

/-- **parse_total.**  The model parser terminates on every byte string: the fuel of the line loop
    (`number of lines + 1`; the quote loop consumes lines) is never exhausted -/
theorem parse_total (doc : Str) (t : Tree) (ow : Bool) : parseINI doc t ow ≠ .error .fuel :=
  parseINI_ne_fuel doc t ow

example : parseINI "k = \"".toList .empty true = .ok (.node [("k".toList, [])] []) := by rfl
example : parseINI "k = 'a\n\n".toList .empty true = .ok (.node [("k".toList, "a\n\n".toList)] []) := by rfl

/-- a source that fails while it is read (stream turns bad after `n` bytes; fixes/C12_badstream.patch) is never
    accepted: the result is the error of the text read so far if there is one, the IOError otherwise.
    (True by unfolding `parseBad`; it records the modelled behaviour, the harness exercises the real loop.) -/
theorem failing_source_is_error (doc : Str) (n : Nat) (t : Tree) (ow : Bool) :
    (∀ t', parseBad doc n t ow ≠ .ok t') ∧ parseBad doc n t ow ≠ .error .fuel ∧
    (∀ t', parseINI (doc.take n) t ow = .ok t' → parseBad doc n t ow = .error .io) := by
  unfold parseBad
  refine ⟨fun t' => ?_, ?_, fun t' h => by rw [h]⟩
  · cases parseINI (doc.take n) t ow <;> simp
  · have := parse_total (doc.take n) t ow
    cases h : parseINI (doc.take n) t ow with
    | error e => rw [h] at this; simpa using this
    | ok _ => simp

example : parseBad "a = 1\nb = 2".toList 7 .empty true = .error .io := by rfl
example : parseBad "a = 1\na = 2".toList 11 .empty true = .error .parser := by rfl

/-! ## command line -/

/-- **options_spec**, readOptions: `-key value` pairs are stored under `key` in order (later ones overwrite),
    other arguments are ignored, an option in last position is a RangeError -/
theorem options_spec_readOptions (pairs : List (Str × Str)) (hk : ∀ kv ∈ pairs, kv.1 ≠ []) (t : Tree) :
    readOptions (optArgs pairs) t = setAll pairs t ∧
    (∀ a rest, isOpt a = false → readOptions (a :: rest) t = readOptions rest t) ∧
    (∀ a t', isOpt a = true → setAll pairs t = .ok t' → readOptions (optArgs pairs ++ [a]) t = .error .range) :=
  ⟨readOptions_pairs pairs hk t, fun a rest h => readOptions_skip a rest t h,
   fun a t' ha h => readOptions_missing_argument pairs hk a ha t t' h⟩

example : readOptions ["-a.b".toList, "1".toList, "pos".toList, "-c".toList, "2".toList] .empty =
    .ok (.node [("c".toList, "2".toList)] [("a".toList, .node [("b".toList, "1".toList)] [])]) := by rfl
example : readOptions ["-a".toList] .empty = .error .range := by rfl

/-- **options_spec**, readNamedOptions with positional arguments: argument `i` is stored under keyword `i`;
    too few for the required keywords → "missing", more than there are keywords → "superfluous" -/
theorem options_spec_positional (kws args : List Str) (required : Nat) (allowMore : Bool) (t : Tree)
    (hpos : ∀ a ∈ args, Positional a) :
    (args.length ≤ kws.length → min required kws.length ≤ args.length →
      readNamedOptions args t kws required allowMore true = setAll (kws.zip args) t) ∧
    (∀ t', args.length < min required kws.length → setAll (kws.zip args) t = .ok t' →
      readNamedOptions args t kws required allowMore true = .error .parser) ∧
    (∀ t', kws.length < args.length → setAll (kws.zip (args.take kws.length)) t = .ok t' →
      readNamedOptions args t kws required allowMore true = .error .parser) :=
  ⟨fun h1 h2 => named_positional kws args required allowMore t hpos h1 h2,
   fun t' h1 h2 => named_missing_reported kws args required allowMore t t' hpos h1 h2,
   fun t' h1 h2 => named_superfluous_reported kws args required allowMore t t' hpos h1 h2⟩

example : readNamedOptions ["1".toList, "2".toList] .empty ["n".toList, "m".toList] 2 false true =
    .ok (.node [("n".toList, "1".toList), ("m".toList, "2".toList)] []) := by rfl
example : readNamedOptions ["1".toList] .empty ["n".toList, "m".toList] 2 false true = .error .parser := by rfl
example : readNamedOptions ["1".toList, "2".toList, "3".toList] .empty ["n".toList, "m".toList] 0 true true =
    .error .parser := by rfl

/-- **options_spec**, named parameters: unknown key (allow_more = false), missing `=value`, help request,
    already specified (overwrite = false), and the regular case -/
theorem options_spec_named (kws rest : List Str) (key value : Str) (required : Nat) (am ow : Bool) (t : Tree)
    (heq : '=' ∉ key) :
    (key ∉ kws → readNamedOptions (('-' :: '-' :: key ++ '=' :: value) :: rest) t kws required false ow = .error .parser) ∧
    ('-' :: '-' :: key ≠ "--help".toList →
      readNamedOptions (('-' :: '-' :: key) :: rest) t kws required am ow = .error .parser) ∧
    (readNamedOptions ("-h".toList :: rest) t kws required am ow = .error .help ∧
     readNamedOptions ("--help".toList :: rest) t kws required am ow = .error .help) ∧
    (∀ s, (key ∈ kws ∨ am = true) → t.get? key = some s → s ≠ [] →
      readNamedOptions (('-' :: '-' :: key ++ '=' :: value) :: rest) t kws required am false = .error .parser) ∧
    (key ∈ kws → (∀ i, i < min required kws.length → findIdx? key kws = some i) →
      readNamedOptions [('-' :: '-' :: key ++ '=' :: value)] t kws required am true = t.set key value) :=
  ⟨fun hk => named_unknown_reported kws rest key value required ow t hk heq,
   fun hh => named_value_missing kws rest key required am ow t heq hh,
   named_help kws rest required am ow t,
   fun s hk hs hne => named_already_specified kws rest key value s required am t heq hk hs hne,
   fun hk hreq => named_named kws key value required am t hk heq hreq⟩

example : readNamedOptions ["--m=5".toList, "7".toList] .empty ["n".toList, "m".toList] 2 false true =
    .ok (.node [("m".toList, "5".toList), ("n".toList, "7".toList)] []) := by rfl
example : readNamedOptions ["--zz=5".toList] .empty ["n".toList] 0 false true = .error .parser := by rfl
example : readNamedOptions ["--help".toList] .empty ["n".toList] 1 false true = .error .help := by rfl

/-- **options_spec**, every argument vector.  `namedSpec` reads the documentation literally with a *set* of keywords
    that already have a value: `--k=v` is stored under `k` (unknown `k` rejected unless allow_more), a positional
    argument goes to the first keyword of the list not given so far (none left: "superfluous"), `-h`/`--help` is the
    help request, `--k` without `=` an error, and finally each of the first `required` keywords must be given
    ("missing").  The code keeps a `vector<bool> done` and a cursor that only moves forward; for every argument
    vector (any mix and order of named, positional, malformed and help arguments), every tree, all flags and every
    keyword list without repetitions the two agree. -/
theorem options_spec_all_vectors (args : List Str) (t : Tree) (kws : List Str) (required : Nat) (am ow : Bool)
    (hn : kws.Nodup) : readNamedOptions args t kws required am ow = namedSpec args t kws required am ow :=
  readNamedOptions_eq_spec args t kws required am ow hn

/-- two named keywords in front of a positional argument: it goes to the third keyword -/
example : namedSpec ["--grid=g.dgf".toList, "--level=3".toList, "out.vtu".toList] .empty
    ["grid".toList, "level".toList, "output".toList] 3 false true =
    .ok (.node [("grid".toList, "g.dgf".toList), ("level".toList, "3".toList), ("output".toList, "out.vtu".toList)] []) := by rfl
example : readNamedOptions ["--grid=g.dgf".toList, "--level=3".toList, "out.vtu".toList] .empty
    ["grid".toList, "level".toList, "output".toList] 3 false true =
    .ok (.node [("grid".toList, "g.dgf".toList), ("level".toList, "3".toList), ("output".toList, "out.vtu".toList)] []) := by rfl
example : namedSpec ["--foo=1".toList, "--bar=2".toList, "hurz".toList] .empty ["foo".toList, "bar".toList] 2 false true =
    .error .parser := by rfl
example : ["grid".toList, "level".toList, "output".toList].Nodup := by decide
example : classify "--a=b=c".toList = .named "a".toList "b=c".toList ∧ classify "--a".toList = .bad ∧
    classify "-x".toList = .pos "-x".toList ∧ classify "--help".toList = .help := by decide

/-! ## typed retrieval -/

/-- **get_int_roundtrip.**  For every built-in integer type and every value in its range, the canonical decimal
    text (what `operator<<` prints), with optional blanks around it, converts back to exactly that value -/
theorem get_int_roundtrip (ty : IntTy) (i : Int) (hlo : ty.lo ≤ i) (hhi : i ≤ ty.hi)
    (pre post : Str) (hpre : AllSpace pre) (hpost : AllSpace post) (t : Tree) (key : Str)
    (hs : t.get? key = some (pre ++ showInt i ++ post)) :
    t.getAs (parseInt ty) key = .ok i := by
  simp only [Tree.getAs, hs, roundtrip_int ty i hlo hhi pre post hpre hpost]

example : parseInt ⟨true, 32⟩ " -2147483648\t".toList = some (-2147483648) := by decide
example : showNat 12 = "12".toList := by
  rw [showNat_ge (n := 12) (by decide), showNat_lt (n := 12 / 10) (by decide)]
  decide
example : (⟨true, 32⟩ : IntTy).lo = -2147483648 ∧ (⟨true, 32⟩ : IntTy).hi = 2147483647 := by decide

/-- **malformed_is_range_error** (scalars).  `get<T>` for an integer type succeeds *only* on text of the shape
    blanks [sign] digits blanks whose value the type can hold, and then returns that value; everything else —
    empty text, trailing garbage, a second item, a decimal point, overflow — is a RangeError -/
theorem malformed_is_range_error (ty : IntTy) (s : Str) (t : Tree) (key : Str) (hs : t.get? key = some s) :
    (∀ v, t.getAs (parseInt ty) key = .ok v ↔
      ∃ pre sign digs post, s = pre ++ sign ++ digs ++ post ∧ AllSpace pre ∧ AllSpace post ∧ SignOK sign ∧
        digs ≠ [] ∧ AllDig digs ∧ ty.denotes sign digs v) ∧
    ((¬ ∃ v pre sign digs post, s = pre ++ sign ++ digs ++ post ∧ AllSpace pre ∧ AllSpace post ∧ SignOK sign ∧
        digs ≠ [] ∧ AllDig digs ∧ ty.denotes sign digs v) → t.getAs (parseInt ty) key = .error .range) := by
  have hiff := parseInt_iff ty s
  constructor
  · intro v
    rw [← hiff v]
    simp only [Tree.getAs, hs]
    cases parseInt ty s with
    | none => simp
    | some w => simp
  · intro hno
    simp only [Tree.getAs, hs]
    cases hp : parseInt ty s with
    | none => rfl
    | some w => exact absurd ⟨w, (hiff w).mp hp⟩ hno

example : parseInt ⟨true, 32⟩ "12x".toList = none := by decide
example : parseInt ⟨true, 32⟩ "".toList = none := by decide
example : parseInt ⟨true, 32⟩ "2147483648".toList = none := by decide
example : parseInt ⟨false, 16⟩ "65536".toList = none := by decide
example : parseInt ⟨true, 32⟩ "1 2".toList = none := by decide
example : parseInt ⟨true, 32⟩ "1.0".toList = none := by decide

/-- **malformed_is_range_error** (fixed-size ranges, after fixes/C12_parserange.patch).  `get<std::array<T,n>>` /
    `get<FieldVector<T,n>>` succeed only on exactly `n` integer literals followed by nothing but blanks: too few
    items, too many items, or any other trailing text (`"1 2 -"`) is a RangeError -/
theorem malformed_range_is_range_error (ty : IntTy) (n : Nat) (s : Str) :
    (∀ vs, parseRange (extractInt ty) n s = some vs ↔ vs.length = n ∧ IntItems ty s vs) ∧
    ((¬ ∃ vs, vs.length = n ∧ IntItems ty s vs) → parseRange (extractInt ty) n s = none) := by
  refine ⟨fun vs => parseRange_int_iff ty n s vs, fun hno => ?_⟩
  cases hp : parseRange (extractInt ty) n s with
  | none => rfl
  | some vs => exact absurd ⟨vs, (parseRange_int_iff ty n s vs).mp hp⟩ hno

example : parseRange (extractInt ⟨true, 32⟩) 2 "1 2".toList = some [1, 2] := by decide
example : parseRange (extractInt ⟨true, 32⟩) 2 "1".toList = none := by decide
example : parseRange (extractInt ⟨true, 32⟩) 2 "1 2 3".toList = none := by decide
example : parseRange (extractInt ⟨true, 32⟩) 2 "1 2 -".toList = none := by decide

/-- **malformed_is_range_error** (floating targets), partial.  Full statement: `get<double>`/`get<float>` succeed iff
    the text is blanks, one floating literal `[sign] digits* [. digits*] [e|E [sign] digits+]` (at least one mantissa
    digit), blanks, and the literal's exact decimal value rounds (to nearest, ties to even) to a finite number of the
    format, which is then returned.  Proved here: the *syntax* direction for every binary format of the model
    (`binary64`, `binary32`) — success implies that shape, hence empty text, a lone sign or point, `1e`, `1e+`, two
    numbers, or any other trailing character is the RangeError; and the same for fixed-size ranges item by item.
    Round four: the converse for scalars is `float_accept_iff` below.  Missing: the same iff for ranges, and the value
    (`roundToBin` is the model's correctly rounded conversion; it is compared bit for bit with strtod/strtof and with
    std::from_chars on every run, no theorem is stated about it). -/
theorem malformed_float_is_range_error_partial (b : BinFmt) (s : Str) (t : Tree) (key : Str) (hs : t.get? key = some s) :
    (∀ v, t.getAs (parseScalar (extractBin b)) key = .ok v →
      ∃ pre lit post, s = pre ++ lit ++ post ∧ AllSpace pre ∧ AllSpace post ∧ FloatLit lit) ∧
    ((¬ ∃ pre lit post, s = pre ++ lit ++ post ∧ AllSpace pre ∧ AllSpace post ∧ FloatLit lit) →
      t.getAs (parseScalar (extractBin b)) key = .error .range) ∧
    (∀ n vs, parseRange (extractBin b) n s = some vs →
      ∃ (pieces : List Str) (post : Str), pieces.length = n ∧ AllSpace post ∧ s = pieces.flatten ++ post ∧
        ∀ p ∈ pieces, ∃ pre lit, p = pre ++ lit ∧ AllSpace pre ∧ FloatLit lit) := by
  refine ⟨fun v hv => ?_, fun hno => ?_, fun n vs h => parseRange_bin_syntax b n s vs h⟩
  · simp only [Tree.getAs, hs] at hv
    cases hp : parseScalar (extractBin b) s with
    | none => rw [hp] at hv; cases hv
    | some w => exact parseBin_syntax b s w hp
  · simp only [Tree.getAs, hs]
    cases hp : parseScalar (extractBin b) s with
    | none => rfl
    | some w => exact absurd (parseBin_syntax b s w hp) hno

example : parseDouble " -1.5e3 ".toList = some 0xC097700000000000 := by decide
example : parseDouble "1e".toList = none ∧ parseDouble ".".toList = none ∧ parseDouble "1.5 2".toList = none ∧
    parseDouble "".toList = none ∧ parseDouble "1e400".toList = none := by decide
example : parseFloat "16777217".toList = some 0x4B800000 ∧ parseFloat "3.4028236e38".toList = none := by decide
example : FloatLit "-1.5e3".toList :=
  have d : ∀ ch : Char, isDig ch = true → AllDig [ch] := fun ch h c hc => by
    simp only [List.mem_singleton] at hc; subst hc; exact h
  ⟨"-".toList, "1".toList, ".5".toList, "e3".toList, by decide, Or.inr (Or.inr rfl), d '1' (by decide),
   Or.inr ⟨"5".toList, rfl, d '5' (by decide)⟩, Or.inl (by decide),
   Or.inr ⟨'e', [], "3".toList, rfl, Or.inl rfl, Or.inl rfl, by decide, d '3' (by decide)⟩⟩

/-- **float_accept_iff** (round four).  `get<double>` / `get<float>` (any binary format `b` of the model) succeed
    **iff** the stored text is blanks, one floating literal `[sign] digits* [. digits*] [e|E [sign] digits+]` (at least
    one mantissa digit), blanks, and the literal's pieces evaluate to a finite number of the format (`evalB`: the exact
    decimal value rounded to nearest, ties to even; overflow is a failure) — and then that number is returned.  Every
    other text (empty, lone sign or point, `1e`, `1e+`, two numbers, trailing characters, overflow) is the RangeError.
    Still missing for the value: a theorem that `roundToBin` is the nearest representable number (it is compared bit
    for bit with strtod/strtof and std::from_chars on every run). -/
theorem float_accept_iff (b : BinFmt) (s : Str) (t : Tree) (key : Str) (hs : t.get? key = some s) :
    (∀ v, t.getAs (parseScalar (extractBin b)) key = .ok v ↔
      ∃ pre lit post f, s = pre ++ lit ++ post ∧ AllSpace pre ∧ AllSpace post ∧ LexOf lit f ∧ f.evalB b = some v) ∧
    ((¬ ∃ v pre lit post f, s = pre ++ lit ++ post ∧ AllSpace pre ∧ AllSpace post ∧ LexOf lit f ∧ f.evalB b = some v) →
      t.getAs (parseScalar (extractBin b)) key = .error .range) := by
  have hiff := parseBin_iff b s
  constructor
  · intro v
    rw [← hiff v]
    simp only [Tree.getAs, hs]
    cases parseScalar (extractBin b) s with
    | none => simp
    | some w => simp
  · intro hno
    simp only [Tree.getAs, hs]
    cases hp : parseScalar (extractBin b) s with
    | none => rfl
    | some w => exact absurd ⟨w, (hiff w).mp hp⟩ hno

/-- `-1.5e3` with its pieces -/
example : LexOf "-1.5e3".toList ⟨true, "1".toList, "5".toList, false, "3".toList⟩ :=
  have d : ∀ ch : Char, isDig ch = true → AllDig [ch] := fun ch h c hc => by
    simp only [List.mem_singleton] at hc; subst hc; exact h
  ⟨"-".toList, ".5".toList, "e3".toList, by decide, Or.inr (Or.inr rfl), by decide, d '1' (by decide), d '5' (by decide),
   Or.inr rfl, Or.inl (by decide), Or.inr ⟨'e', [], rfl, Or.inl rfl, Or.inl rfl, by decide, by decide, d '3' (by decide)⟩⟩
example : (⟨true, "1".toList, "5".toList, false, "3".toList⟩ : FloatLex).evalB binary64 = some 0xC097700000000000 := by decide
example : parseScalar (extractBin binary64) " -1.5e3 ".toList = some 0xC097700000000000 := by decide

/-- variable-size sequences, bitsets, strings: the text is split into its maximal runs of non-blank characters
    (blank set `" \t\n\r"`; `WordsOf` is the declarative definition, independent of the splitting loop); a vector
    converts iff every piece converts by the element parser, a bitset iff there are exactly `n` pieces and each is a
    boolean; a string is returned with the blanks at both ends removed, i.e. it is the unique trimmed middle part -/
theorem sequences_spec {α} (p : Str → Option α) (n : Nat) (s : Str) :
    (∀ ws, splitWs s = ws ↔ WordsOf isWs s ws) ∧
    (∀ vs, parseVector p s = some vs ↔ Forall₂ (fun tok v => p tok = some v) (splitWs s) vs) ∧
    (∀ bs, parseBitset n s = some bs ↔
      (splitWs s).length = n ∧ Forall₂ (fun tok b => parseBool tok = some b) (splitWs s) bs) ∧
    (∀ m, parseString s = m ↔
      ∃ pre post, s = pre ++ m ++ post ∧ (∀ c ∈ pre, isWs c = true) ∧ (∀ c ∈ post, isWs c = true) ∧ trimmed m = true) :=
  ⟨fun ws => splitWs_iff s ws, fun vs => parseVector_iff p s vs, fun bs => parseBitset_iff n s bs,
   fun m => parseString_iff s m⟩

example : parseVector (parseInt tInt) " 1  2\t3 ".toList = some [1, 2, 3] := by decide
example : parseVector (parseInt tInt) "1 2x 3".toList = none := by decide
example : parseBitset 3 "1 no TRUE".toList = some [true, false, true] ∧ parseBitset 3 "1 no".toList = none := by decide
example : parseString "  a b \r\n".toList = "a b".toList := by decide
example : WordsOf isWs " a  bc".toList ["a".toList, "bc".toList] :=
  (splitWs_iff _ _).mp (by decide)

/-- fixed-size arrays of strings and single characters (`operator>>` into `std::string` / `char`, blank class of
    the classic locale): exactly `n` words; exactly one non-blank character between blanks -/
theorem words_and_chars_spec (n : Nat) (s : Str) :
    (∀ ws, parseRange extractWord n s = some ws ↔ ws.length = n ∧ WordsOf isSpaceC s ws) ∧
    (∀ c, parseScalar extractChar s = some c ↔
      ∃ pre post, s = pre ++ c :: post ∧ AllSpace pre ∧ AllSpace post ∧ isSpaceC c = false) :=
  ⟨fun ws => parseRange_word_iff n s ws, fun c => parseChar_iff s c⟩

example : parseRange extractWord 2 " ab\x0bc ".toList = some ["ab".toList, "c".toList] := by decide
example : parseRange extractWord 2 "ab".toList = none ∧ parseRange extractWord 1 "a b".toList = none := by decide
example : parseScalar extractChar " x\n".toList = some 'x' ∧ parseScalar extractChar "xy".toList = none ∧
    parseScalar extractChar "".toList = none := by decide

/-- **sequences round trip.**  The canonical decimal texts of in-range integers, separated by single blanks, convert
    back to exactly those integers, both as a fixed-size range (`std::array`, `FieldVector`) of that length and as a
    `std::vector` -/
theorem get_sequence_roundtrip (ty : IntTy) (vs : List Int) (h : ∀ v ∈ vs, ty.lo ≤ v ∧ v ≤ ty.hi) :
    parseRange (extractInt ty) vs.length (joinC ' ' (vs.map showInt)) = some vs ∧
    parseVector (parseInt ty) (joinC ' ' (vs.map showInt)) = some vs :=
  ⟨roundtrip_range ty vs h, roundtrip_vector ty vs h⟩

example : joinC ' ' ([3, -4, 0].map showInt) = "3 -4 0".toList := by
  simp [joinC, showInt, showNat_lt]; decide
example : ∀ v ∈ [3, -4, 0], tInt.lo ≤ v ∧ v ≤ tInt.hi := by decide

/-- **get_default_only_if_absent.**  `get(key, default)` returns the default exactly when the key is absent; a
    present key is converted, and if its text is malformed the result is the RangeError, never the default -/
theorem get_default_only_if_absent {α} (parse : Str → Option α) (t : Tree) (key : Str) (dflt : α) :
    (t.hasKey key = .ok false → t.getD parse key dflt = .ok dflt) ∧
    (∀ s, t.get? key = some s → t.getD parse key dflt = t.getAs parse key ∧
      (parse s = none → t.getD parse key dflt = .error .range) ∧
      (∀ v, parse s = some v → t.getD parse key dflt = .ok v)) := by
  constructor
  · intro h; simp [Tree.getD, h]
  · intro s hs
    have hk : t.hasKey key = .ok true := hasKeyPath_of_getPath _ _ _ hs
    refine ⟨by simp [Tree.getD, hk], ?_, ?_⟩
    · intro hp; simp [Tree.getD, hk, Tree.getAs, hs, hp]
    · intro v hp; simp [Tree.getD, hk, Tree.getAs, hs, hp]

example : (Tree.node [("n".toList, "7".toList)] []).getD (parseInt tInt) "n".toList 3 = .ok 7 := by rfl
example : (Tree.node [("n".toList, "7".toList)] []).getD (parseInt tInt) "m".toList 3 = .ok 3 := by rfl
example : (Tree.node [("n".toList, "7x".toList)] []).getD (parseInt tInt) "n".toList 3 = .error .range := by rfl

/-- **bool_words.**  `yes/true/no/false` in any capitalisation, otherwise the integer rule "non-zero" -/
theorem bool_words (s : Str) :
    ((s.map toLowerC = "yes".toList ∨ s.map toLowerC = "true".toList) → parseBool s = some true) ∧
    ((s.map toLowerC = "no".toList ∨ s.map toLowerC = "false".toList) → parseBool s = some false) ∧
    ((s.map toLowerC ≠ "yes".toList ∧ s.map toLowerC ≠ "true".toList ∧ s.map toLowerC ≠ "no".toList ∧
       s.map toLowerC ≠ "false".toList) → parseBool s = (parseInt tInt (s.map toLowerC)).map (· != 0)) ∧
    (∀ i : Int, tInt.lo ≤ i → i ≤ tInt.hi → parseBool (showInt i) = some (i != 0)) :=
  ⟨(bool_words_cases s).1, (bool_words_cases s).2.1, (bool_words_cases s).2.2, fun i h1 h2 => bool_numeral i h1 h2⟩

example : parseBool "YeS".toList = some true ∧ parseBool "FALSE".toList = some false ∧ parseBool "2".toList = some true ∧
    parseBool "0".toList = some false ∧ parseBool " yes".toList = none := by decide

/-- **bool_array_spec** (round four).  `get<std::array<bool,n>>` reads its items with `operator>>(bool&)` (no
    `boolalpha`), i.e. not with the word rules of `Parser<bool>`: it succeeds iff the text is exactly `n` integer
    literals (of a `long`) each with the value 0 or 1, followed by nothing but blanks, and returns `v = 1` for each;
    `yes`, `true`, `2`, too few or too many items are the RangeError -/
theorem bool_array_spec (n : Nat) (s : Str) :
    (∀ bs, parseRange extractBool01 n s = some bs ↔
      ∃ vs, vs.length = n ∧ IntItems tLong s vs ∧ (∀ v ∈ vs, v = 0 ∨ v = 1) ∧ bs = vs.map (· == 1)) ∧
    ((¬ ∃ vs, vs.length = n ∧ IntItems tLong s vs ∧ ∀ v ∈ vs, v = 0 ∨ v = 1) → parseRange extractBool01 n s = none) := by
  have key : ∀ bs, parseRange extractBool01 n s = some bs ↔
      ∃ vs, vs.length = n ∧ IntItems tLong s vs ∧ (∀ v ∈ vs, v = 0 ∨ v = 1) ∧ bs = vs.map (· == 1) := by
    intro bs
    rw [parseRange_bool01_iff]
    constructor
    · rintro ⟨vs, h, hall, rfl⟩
      obtain ⟨hl, hi⟩ := (parseRange_int_iff tLong n s vs).mp h
      exact ⟨vs, hl, hi, hall, rfl⟩
    · rintro ⟨vs, hl, hi, hall, rfl⟩
      exact ⟨vs, (parseRange_int_iff tLong n s vs).mpr ⟨hl, hi⟩, hall, rfl⟩
  refine ⟨key, fun hno => ?_⟩
  cases hp : parseRange extractBool01 n s with
  | none => rfl
  | some bs =>
    obtain ⟨vs, hl, hi, hall, _⟩ := (key bs).mp hp
    exact absurd ⟨vs, hl, hi, hall⟩ hno

example : parseRange extractBool01 3 " 1 0\t+1 ".toList = some [true, false, true] := by decide
example : parseRange extractBool01 2 "1 yes".toList = none ∧ parseRange extractBool01 2 "1 2".toList = none ∧
    parseRange extractBool01 2 "1".toList = none ∧ parseRange extractBool01 1 "1 0".toList = none ∧
    parseRange extractBool01 1 "-0".toList = some [false] := by decide

/-! ## tie to the source: the values `tools/translators/tr_c12.py` re-reads from parametertree.{hh,cc} and
parametertreeparser.cc on every run (`DuneVerif/Gen/C12.lean`) are the ones the model is written with -/

/-- **src_blank_sets.**  All six blank-set literals of the code (both `ltrim`/`rtrim` copies and the two searches of
    `split`) denote, as sets, the model's `isWs`; `ltrim` keeps from the first non-blank, `rtrim` up to and including
    the last one -/
theorem src_blank_sets :
    (∀ c, isWs c = inSet Gen.blankParserLtrim c) ∧ (∀ c, isWs c = inSet Gen.blankParserRtrim c) ∧
    (∀ c, isWs c = inSet Gen.blankTreeLtrim c) ∧ (∀ c, isWs c = inSet Gen.blankTreeRtrim c) ∧
    (∀ c, isWs c = inSet Gen.blankSplitSkip c) ∧ (∀ c, isWs c = inSet Gen.blankSplitStop c) ∧
    Gen.blankParserLtrimStart = 0 ∧ Gen.blankTreeLtrimStart = 0 ∧ Gen.blankParserRtrimLen = 1 ∧ Gen.blankTreeRtrimLen = 1 ∧
    (∀ s, ltrim s = s.dropWhile (inSet Gen.blankParserLtrim)) ∧ (∀ s, parseString s = (rtrim s).dropWhile (inSet Gen.blankTreeLtrim)) := by
  have h1 : Gen.blankParserLtrim = wsList := by decide
  have h2 : Gen.blankParserRtrim = wsList := by decide
  have h3 : Gen.blankTreeLtrim = wsList := by decide
  have h4 : Gen.blankTreeRtrim = wsList := by decide
  have h5 : Gen.blankSplitSkip = wsList := by decide
  have h6 : Gen.blankSplitStop = wsList := by decide
  have hf : isWs = inSet wsList := funext isWs_eq_inSet
  refine ⟨?_, ?_, ?_, ?_, ?_, ?_, by decide, by decide, by decide, by decide, ?_, ?_⟩
  · rw [h1]; exact isWs_eq_inSet
  · rw [h2]; exact isWs_eq_inSet
  · rw [h3]; exact isWs_eq_inSet
  · rw [h4]; exact isWs_eq_inSet
  · rw [h5]; exact isWs_eq_inSet
  · rw [h6]; exact isWs_eq_inSet
  · intro s; rw [h1, ← hf]; rfl
  · intro s; rw [h3, ← hf]; rfl

example : ltrim " \t\r\n a b ".toList = "a b ".toList ∧ inSet Gen.blankTreeRtrim '\r' = true ∧ inSet Gen.blankSplitStop 'x' = false := by
  decide

/-- **src_path_separator.**  `hasKey`, `hasSub`, both `sub` and both `operator[]` split the key at the same
    character, the first component ends where it was found and the remainder starts one character later; and that is
    how the model's component list `comps` is built, step by step -/
theorem src_path_separator :
    Gen.pathSplit.map (·.1) = ["hasKey", "hasSub", "subMut", "subConst", "indexMut", "indexConst"] ∧
    (∀ e ∈ Gen.pathSplit, e.2 = ('.', 0, 1)) ∧
    (∀ e ∈ Gen.pathSplit, ∀ key a b, splitFirst e.2.1 key = some (a, b) → comps key = a :: comps b) ∧
    (∀ e ∈ Gen.pathSplit, ∀ key, splitFirst e.2.1 key = none → comps key = [key]) := by
  have hall : ∀ e ∈ Gen.pathSplit, e.2 = ('.', 0, 1) := by decide
  refine ⟨by decide, hall, fun e he key a b h => ?_, fun e he key h => ?_⟩
  · rw [hall e he] at h; exact comps_of_splitFirst key a b h
  · rw [hall e he] at h; exact comps_of_no_dot key h

example : splitFirst '.' "fruit.pip.pear".toList = some ("fruit".toList, "pip.pear".toList) ∧
    comps "fruit.pip.pear".toList = ["fruit".toList, "pip".toList, "pear".toList] := by decide

/-- **src_ini_syntax.**  The marker characters, sub-string offsets, trims and the shape of the duplicate/overwrite
    statement of `readINITree` as read from the source are those of the model's `lineStep`/`readValue`/`assignStep`:
    a line whose first non-blank is a skip character is ignored; `[` … first `]` sets the prefix to the trimmed
    inside plus `.`; the comment is cut before `=` is searched; key = trimmed text before `=`, value = text after it,
    left-trimmed; either quote opens a quoted value whose lines are joined by a newline -/
theorem src_ini_syntax :
    Gen.iniSkipFirst = ['#'] ∧ Gen.iniHeaderOpen = '[' ∧ Gen.iniHeaderClose = ']' ∧
    Gen.iniHeaderInnerStart = 1 ∧ Gen.iniHeaderInnerLen = -1 ∧ Gen.iniHeaderTrims = ['l', 'r'] ∧ Gen.iniPrefixSuffix = ['.'] ∧
    Gen.iniCommentStart = '#' ∧ Gen.iniAssign = '=' ∧ Gen.iniKeyLen = 0 ∧ Gen.iniKeyTrims = ['l', 'r'] ∧
    Gen.iniValueStart = 1 ∧ Gen.iniValueTrims = ['l'] ∧ (∀ c, isQuote c = inSet Gen.iniQuotes c) ∧
    Gen.iniQuoteOpenDrop = 1 ∧ Gen.iniQuoteCloseLen = -1 ∧ Gen.iniQuoteCloseTrims = ['r'] ∧ Gen.iniQuoteLoopUntilTrimmedEndsWithQuote = true ∧
    Gen.iniContinuationJoin = ['\n'] ∧ Gen.iniDuplicateError = "ParameterTreeParserError" ∧ Gen.iniStoreThenRemember = true ∧
    (∀ ow c text rest st, c ∈ Gen.iniSkipFirst → lineStep ow (c :: text) rest st = .ok (st, rest)) ∧
    (∀ ow inner junk rest st, Gen.iniHeaderClose ∉ inner →
      lineStep ow (Gen.iniHeaderOpen :: inner ++ Gen.iniHeaderClose :: junk) rest st =
        .ok ({ st with pfx := (let p := rtrim (ltrim inner); if p = [] then [] else p ++ Gen.iniPrefixSuffix) }, rest)) := by
  have hq : Gen.iniQuotes = quoteList := by decide
  refine ⟨by decide, by decide, by decide, by decide, by decide, by decide, by decide, by decide, by decide, by decide,
    by decide, by decide, by decide, ?_, by decide, by decide, by decide, by decide, by decide, by decide, by decide, ?_, ?_⟩
  · rw [hq]; exact isQuote_eq_inSet
  · intro ow c text rest st hc
    have : c = '#' := by
      have h : Gen.iniSkipFirst = ['#'] := by decide
      rw [h] at hc; simpa using hc
    subst this
    simp [lineStep, ltrim, isWs]
  · intro ow inner junk rest st hni
    have ho : Gen.iniHeaderOpen = '[' := by decide
    have hc : Gen.iniHeaderClose = ']' := by decide
    have hs : Gen.iniPrefixSuffix = ['.'] := by decide
    rw [ho, hc, hs]
    rw [hc] at hni
    unfold lineStep
    rw [List.cons_append, ltrim_cons_of_not_ws isWs_lbr]
    simp only [show ('[' == '#') = false by decide, show ('[' == '[') = true by decide, Bool.false_eq_true, if_false, if_true]
    rw [splitFirst_append ']' inner junk hni]
    simp [newPrefix]

example : lineStep true "[ fruit ] junk".toList [] ⟨[], [], .empty⟩ = .ok (⟨"fruit.".toList, [], .empty⟩, []) := by rfl

/-- **src_options.**  `readOptions`: arguments from index 1, an option is `-` followed by at least one more
    character, the key is the argument without its first character, the value the next argument (then skipped),
    a missing one is the RangeError.  `readNamedOptions`: help words, the `--` prefix and its length, `=` searched
    from a position not behind the prefix (the prefix contains none), key between prefix and `=`, value the rest; "missing" = below `required` and not given -/
theorem src_options :
    Gen.optFirstArg = 1 ∧ Gen.optMarkIndex = 0 ∧ Gen.optMark = '-' ∧ Gen.optNonEmptyIndex = 1 ∧ Gen.optNonEmptyNot = Char.ofNat 0 ∧
    Gen.optKeyDrop = 1 ∧ Gen.optValueAhead = 1 ∧ Gen.optMissingAhead = 1 ∧ Gen.optMissingError = "RangeError" ∧
    (∀ a, isOpt a = (a.head? == some Gen.optMark && decide (a.length > Gen.optNonEmptyIndex))) ∧
    (∀ a v rest t, isOpt a = true → readOptions (a :: v :: rest) t = andThen (t.set (a.drop Gen.optKeyDrop) v) (readOptions rest)) ∧
    Gen.namedHelpWords = ["--help".toList, "-h".toList] ∧ Gen.namedPrefix = "--".toList ∧ Gen.namedPrefixStart = 0 ∧
    Gen.namedPrefixLen = Gen.namedPrefix.length ∧ Gen.namedAssign = '=' ∧ Gen.namedAssignFrom ≤ Gen.namedPrefix.length ∧
    Gen.namedKeyStart = Gen.namedPrefix.length ∧ Gen.namedKeyLen = -(Gen.namedPrefix.length : Int) ∧ Gen.namedValueStart = 1 ∧
    Gen.namedValueToEnd = true ∧ Gen.namedFirstArg = 1 ∧ Gen.namedMissingIsBelowRequiredAndNotDone = true := by
  refine ⟨by decide, by decide, by decide, by decide, by decide, by decide, by decide, by decide, by decide, ?_, ?_,
    by decide, by decide, by decide, by decide, by decide, by decide, by decide, by decide, by decide, by decide, by decide, by decide⟩
  · intro a
    have hm : Gen.optMark = '-' := by decide
    have hi : Gen.optNonEmptyIndex = 1 := by decide
    rw [hm, hi]
    match a with
    | [] => simp [isOpt]
    | [c] => simp [isOpt]
    | c :: d :: r => simp [isOpt]
  · intro a v rest t ha
    have hk : Gen.optKeyDrop = 1 := by decide
    rw [hk]
    simp only [readOptions, ha, if_true]
    cases t.set (a.drop 1) v <;> rfl

example : isOpt "-k".toList = true ∧ isOpt "-".toList = false ∧ isOpt "k".toList = false := by decide

/-- **src_bool_words.**  `Parser<bool>` as read from the source — the word table (disjoint tests on the text
    lower-cased in the classic locale) and the fallback "integer `int` ≠ 0" — is the model's `parseBool` -/
theorem src_bool_words (s : Str) :
    parseBool s = (match lookupWord Gen.boolWords (s.map toLowerC) with
      | some b => some b
      | none => (parseInt tInt (s.map toLowerC)).map (· != 0)) ∧
    Gen.boolFallbackType = "int" ∧ Gen.boolLowerClassic = true := by
  have h : Gen.boolWords = boolTable := by decide
  rw [h]
  exact ⟨parseBool_eq_lookup s, by decide, by decide⟩

example : lookupWord Gen.boolWords "yes".toList = some true ∧ lookupWord Gen.boolWords "no".toList = some false ∧
    lookupWord Gen.boolWords "ja".toList = none := by decide

/-- **src_parser_checks.**  The trailing-text tests of `Parser<T>::parse` and `parseRange` after `s >> dummy`, as
    Boolean functions of (`s.fail()`, `s.eof()`) read from the source: in the two states the stream can be in there —
    the extraction of one more character failed at the end of the input (only blanks followed: `fail ∧ eof`) or it
    delivered a character (`¬fail ∧ ¬eof`) — they accept the first and throw in the second, which is the model's
    `skipWs rest = []`.  Both functions imbue the classic locale before the first extraction (the locale clause of
    the property), `parseRange` extracts once per element, a bitset needs exactly `n` pieces with bit `i` = piece
    `i`, a vector converts every piece in order, and every `get(key, default)` overload tests `hasKey(key)` and
    converts a present value (never falls back to the default on a malformed one) -/
theorem src_parser_checks :
    Gen.scalarTrailThrows true true = false ∧ Gen.scalarTrailThrows false false = true ∧
    Gen.rangeTrailThrows true true = false ∧ Gen.rangeTrailThrows false false = true ∧
    Gen.scalarTrailClassic = true ∧ Gen.rangeTrailClassic = true ∧ Gen.rangeLoopOverAllElements = true ∧
    Gen.bitsetSizeMustMatch = true ∧ Gen.bitsetBitIIsItemI = true ∧ Gen.vectorAllPiecesInOrder = true ∧
    Gen.getDefaultOnlyWhenAbsent = true ∧ Gen.getStringDefaultOverloads = 2 ∧ Gen.getStringDefaultOnlyWhenAbsent = true := by
  decide

example : parseScalar (extractInt tInt) "7 ".toList = some 7 ∧ parseScalar (extractInt tInt) "7 x".toList = none := by decide

end DV.C12
