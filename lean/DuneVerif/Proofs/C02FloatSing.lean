import DuneVerif.Proofs.C02FloatLU
import DuneVerif.Proofs.C02Outer
/-!
# C02 — what FMatrixError means in floating point

If `luDecomposition` with pivoting reports "singular" under rounded arithmetic, the whole pivot column of the matrix
under reduction is exactly zero from the diagonal down.  The entry-wise invariant of Higham's Theorem 9.3 holds at that
step, so the (row-permuted) input differs from the product `L̃·W̃` of the partial factors by at most `γ_n |L̃||W̃|`
entry-wise, and `L̃·W̃` is singular.  Hence: **FMatrixError is only reported for matrices that are singular up to the
backward error of the elimination**; a matrix whose distance to singularity exceeds that bound (a well-conditioned
one) is never rejected.  This is the rounded analogue of `singular_reported`.
-/
namespace DV.C02.Flt
open DV.C02 Matrix
set_option linter.unusedSectionVars false

section Generic
variable {n : Nat} {K Q S : Type} [Add K] [Sub K] [Mul K] [Div K] [Neg K] [OfNat K 0] [OfNat K 1]
variable [LinearOrder Q] [Zero Q]

/-- a run of `luDecomposition` that ends with `ok = false` went through `i` complete steps and then met a pivot of
magnitude zero; `I` is any invariant of the complete steps (cf. `lu_invariantG`) -/
theorem lu_fail_invariantG (piv : Bool) (absval : K → Q) (F : Func n K S) (A₀ : Mat n K) (s₀ : S)
    (I : Nat → Equiv.Perm (Fin n) → Mat n K → Prop) (h0 : I 0 1 A₀)
    (hstep : ∀ (i p : Fin n) (σ : Equiv.Perm (Fin n)) (A : Mat n K), i ≤ p → (piv = false → p = i) →
      I i.1 σ A → absval ((swapRows A i p).f i i) ≠ 0 →
      I (i.1 + 1) (σ * Equiv.swap i p) (elimAll (swapRows A i p) i)) :
    (luDecomp piv absval F A₀ s₀).ok = false →
      ∃ (i : Fin n) (σ : Equiv.Perm (Fin n)) (A : Mat n K), I i.1 σ A ∧ pivValG piv absval A i = 0 := by
  unfold luDecomp
  refine (forUp_ind (⟨A₀, s₀, true⟩ : LUState n K S) (luStep piv absval F)
    (fun m st => (st.ok = true → ∃ σ, I m σ st.A) ∧
      (st.ok = false → ∃ (i : Fin n) (σ : Equiv.Perm (Fin n)) (A : Mat n K), I i.1 σ A ∧ pivValG piv absval A i = 0))
    ?_ ?_).2
  · exact ⟨fun _ => ⟨1, h0⟩, fun h => by simp at h⟩
  · intro i st ⟨h1, h2⟩
    by_cases hok : st.ok = true
    · obtain ⟨σ, hI⟩ := h1 hok
      rw [luStep_eqG piv absval F i st hok]
      by_cases hz : pivValG piv absval st.A i = 0
      · simp only [hz, if_true]
        exact ⟨fun h => by simp at h, fun _ => ⟨i, σ, st.A, hI, hz⟩⟩
      · simp only [hz, if_false]
        refine ⟨fun _ => ⟨σ * Equiv.swap i (pivRowG piv absval st.A i), ?_⟩, fun h => by simp at h⟩
        apply hstep i _ σ st.A (pivRow_geG piv absval st.A i) _ hI
        · rw [← pivVal_eqG piv absval st.A i]; exact hz
        · intro hpiv; subst hpiv; simp [pivRowG]
    · have hok' : st.ok = false := by simpa using hok
      rw [luStep_not_okG piv absval F i st hok']
      exact ⟨fun h => absurd h hok, fun _ => h2 hok'⟩

end Generic

variable {R : Rounding} {n : Nat}

/-- the values of a matrix of rounded numbers -/
def valMat (A : Mat n (FlR R)) : Mat n ℝ := Mat.ofFn fun r c => (A.f r c).val

@[simp] theorem valMat_f (A : Mat n (FlR R)) (r c : Fin n) : (valMat A).f r c = (A.f r c).val := by
  simp [valMat]

/-- the invariant after `m` complete steps in terms of the partial factors `L̃ = Lview m`, `W̃ = Wview m` of the
current working matrix -/
theorem MatInv_partial {A₀ A : Mat n (FlR R)} {σ : Equiv.Perm (Fin n)} {m : ℕ} (h : MatInv A₀ m σ A) (r c : Fin n) :
    ∃ Θ : Fin n → ℝ, (∀ k, |Θ k| ≤ gamma R.u m) ∧
      (A₀.f (σ r) c).val = ∑ k, Lview m (valMat A) r k * Wview m (valMat A) k c * (1 + Θ k) := by
  obtain ⟨p, θ, hp, hθ, heq⟩ := h r c
  by_cases hcr : c.1 < m ∧ c < r
  · refine ⟨Function.update θ c p, ?_, ?_⟩
    · intro k
      by_cases hk : k = c
      · subst hk; rw [Function.update_self]; exact hp
      · rw [Function.update_of_ne hk]; exact hθ k
    · have hterm : ∀ k : Fin n, Lview m (valMat A) r k * Wview m (valMat A) k c * (1 + Function.update θ c p k) =
          (if k = c then (A.f r c).val * (A.f c c).val * (1 + p) else 0) +
          (if k.1 < m ∧ k < r ∧ k < c then (A.f r k).val * (A.f k c).val * (1 + θ k) else 0) := by
        intro k
        by_cases hk : k = c
        · subst hk
          have h1 : ¬ (k.1 < m ∧ k < k) := fun h => absurd h.2 (lt_irrefl _)
          simp [Lview, Wview, hcr]
        · rw [Function.update_of_ne hk]
          by_cases hkc : k < c
          · have hkr : k < r := lt_trans hkc hcr.2
            have hkm : k.1 < m := by simp only [Fin.lt_def] at hkc; omega
            have h1 : ¬ (c.1 < m ∧ c < k) := fun h => absurd h.2 (not_lt.mpr (le_of_lt hkc))
            simp [Lview, Wview, hk, hkc, hkr, hkm, h1]
          · have hck : c < k := lt_of_le_of_ne (not_lt.mp hkc) (fun h => hk h.symm)
            have h1 : c.1 < m ∧ c < k := ⟨hcr.1, hck⟩
            simp [Wview, hk, hkc, h1]
      simp only [hterm, Finset.sum_add_distrib, Finset.sum_ite_eq' Finset.univ c, Finset.mem_univ, if_true]
      rw [heq]
      simp [hcr]
  · refine ⟨Function.update θ r p, ?_, ?_⟩
    · intro k
      by_cases hk : k = r
      · subst hk; rw [Function.update_self]; exact hp
      · rw [Function.update_of_ne hk]; exact hθ k
    · have hterm : ∀ k : Fin n, Lview m (valMat A) r k * Wview m (valMat A) k c * (1 + Function.update θ r p k) =
          (if k = r then (A.f r c).val * (1 + p) else 0) +
          (if k.1 < m ∧ k < r ∧ k < c then (A.f r k).val * (A.f k c).val * (1 + θ k) else 0) := by
        intro k
        by_cases hk : k = r
        · subst hk
          have h1 : ¬ (k.1 < m ∧ k < k) := fun h => absurd h.2 (lt_irrefl _)
          simp [Lview, Wview, hcr]
        · rw [Function.update_of_ne hk]
          have hrk : r ≠ k := fun h => hk h.symm
          by_cases hkmr : k.1 < m ∧ k < r
          · by_cases hkc : k < c
            · have h1 : ¬ (c.1 < m ∧ c < k) := fun h => absurd h.2 (not_lt.mpr (le_of_lt hkc))
              simp [Lview, Wview, hk, hkc, hkmr, h1]
            · -- then `c < k` (`k = c` would give `c.1 < m ∧ c < r`), and `W̃ k c = 0`
              have hck : c < k := by
                rcases lt_or_eq_of_le (not_lt.mp hkc) with h | h
                · exact h
                · exact absurd ⟨by rw [h]; exact hkmr.1, by rw [h]; exact hkmr.2⟩ hcr
              have h1 : c.1 < m ∧ c < k := ⟨by simp only [Fin.lt_def] at hck; omega, hck⟩
              simp [Wview, hk, hkc, h1]
          · have h2 : ¬ (k.1 < m ∧ k < r ∧ k < c) := fun h => hkmr ⟨h.1, h.2.1⟩
            simp [Lview, hk, hkmr, hrk, h2]
      simp only [hterm, Finset.sum_add_distrib, Finset.sum_ite_eq' Finset.univ r, Finset.mem_univ, if_true]
      rw [heq]
      simp [hcr]

/-- **FMatrixError under rounding ⇒ singular up to the backward error**: if the pivoted decomposition reports
"singular", then for some row permutation `σ` and some `ΔA` with `|ΔA| ≤ γ_n |L̃||W̃|` entry-wise (`L̃`, `W̃` the partial
factors at the failing step `i`: unit lower triangular multipliers of the columns `< i`, and the matrix under reduction)
the matrix `P A + ΔA` equals `L̃ W̃` and is singular. -/
theorem lu_fail_singular_fl {Q : Type} [LinearOrder Q] [Zero Q] {S : Type} (hn : (n : ℝ) * R.u < 1)
    (absval : FlR R → Q) (habs0 : ∀ x : FlR R, absval x = 0 ↔ x.val = 0) (hnn : ∀ x : FlR R, 0 ≤ absval x)
    (F : Func n (FlR R) S) (A₀ : Mat n (FlR R)) (s₀ : S)
    (hfail : (luDecomp true absval F A₀ s₀).ok = false) :
    ∃ (σ : Equiv.Perm (Fin n)) (i : Fin n) (B : Mat n ℝ) (ΔA : Matrix (Fin n) (Fin n) ℝ),
      (∀ r c, |ΔA r c| ≤ gamma R.u n * ∑ k, |Lview i.1 B r k| * |Wview i.1 B k c|) ∧
      (Matrix.of fun r c => (A₀.f (σ r) c).val + ΔA r c) = Lview i.1 B * Wview i.1 B ∧
      (Matrix.of fun r c => (A₀.f (σ r) c).val + ΔA r c).det = 0 := by
  have hu := R.u_nonneg
  obtain ⟨i, σ, A, hM, hz⟩ := lu_fail_invariantG true absval F A₀ s₀ (fun m σ A => MatInv A₀ m σ A ∧ DiagNZ m A)
    ⟨MatInv_zero A₀, fun j hj => absurd hj (Nat.not_lt_zero _)⟩
    (by
      intro i p σ A hip _ ⟨hM, hD⟩ hpiv
      have hne : ((swapRows A i p).f i i).val ≠ 0 := fun h0 => hpiv ((habs0 _).mpr h0)
      refine ⟨MatInv_elim hn hne (MatInv_swap hip hM), ?_⟩
      intro j hj
      have hnij : ¬ i < j := by simp only [Fin.lt_def]; omega
      rw [elimAll_f_row _ i j j hnij]
      by_cases hji : j = i
      · subst hji; exact hne
      · have hlt : j.1 < i.1 := by
          have : j.1 ≠ i.1 := fun h => hji (Fin.ext h)
          omega
        rw [swapRows_fG, swap_fix hip hlt]
        exact hD j hlt)
    hfail
  -- the pivot column is zero from the diagonal down
  have hcol : ∀ r : Fin n, i ≤ r → (valMat A).f r i = 0 := by
    intro r hr
    simp only [pivValG, if_true] at hz
    have hle := (pivotSearch_spec absval A i).2.2 r hr
    rw [hz] at hle
    have : absval (A.f r i) = 0 := le_antisymm hle (hnn _)
    rw [valMat_f]; exact (habs0 _).mp this
  have hγ : gamma R.u i.1 ≤ gamma R.u n := gamma_mono hu (le_of_lt i.2) hn
  choose Θ hΘ hsum using fun r c => MatInv_partial hM.1 r c
  refine ⟨σ, i, valMat A,
    fun r c => - ∑ k, Lview i.1 (valMat A) r k * Wview i.1 (valMat A) k c * Θ r c k, ?_, ?_, ?_⟩
  · intro r c
    rw [abs_neg, Finset.mul_sum]
    refine le_trans (Finset.abs_sum_le_sum_abs _ _) (Finset.sum_le_sum fun k _ => ?_)
    rw [abs_mul, abs_mul]
    have := le_trans (hΘ r c k) hγ
    have h0 : 0 ≤ |Lview i.1 (valMat A) r k| * |Wview i.1 (valMat A) k c| := by positivity
    nlinarith
  · ext r c
    simp only [Matrix.of_apply, Matrix.mul_apply]
    rw [hsum r c, ← Finset.sum_neg_distrib, ← Finset.sum_add_distrib]
    apply Finset.sum_congr rfl
    intro k _
    ring
  · have hprod : (Matrix.of fun r c => (A₀.f (σ r) c).val +
        - ∑ k, Lview i.1 (valMat A) r k * Wview i.1 (valMat A) k c * Θ r c k) =
        Lview i.1 (valMat A) * Wview i.1 (valMat A) := by
      ext r c
      simp only [Matrix.of_apply, Matrix.mul_apply]
      rw [hsum r c, ← Finset.sum_neg_distrib, ← Finset.sum_add_distrib]
      apply Finset.sum_congr rfl
      intro k _
      ring
    rw [hprod, Matrix.det_mul, det_Lview, det_Wview_fail (valMat A) i hcol, mul_zero]

end DV.C02.Flt
