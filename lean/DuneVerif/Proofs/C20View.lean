import DuneVerif.Proofs.C20Store
/-! views: which cells a (strided) view denotes, and what writing through a view does -/
namespace DV.C20

/-- a view denotes existing cells: its block exists, it really strides, its records have a size (so every byte address
    `ptr + j*stride` is the start of a cell), every entry lies inside the block -/
def ViewOK (s : State) (v : View) : Prop :=
  v.blk < s.blocks.length ∧ v.step ≠ 0 ∧ 0 < v.lay.rsz ∧
  ∀ j, j < v.len → 0 ≤ v.off + (j : Int) * v.step ∧ v.off + (j : Int) * v.step < ((s.read v.blk).length : Int)

theorem ViewOK.pos_lt {s : State} {v : View} (h : ViewOK s v) (j : Nat) (hj : j < v.len) :
    v.pos j < (s.read v.blk).length := by
  have := h.2.2.2 j hj
  rw [View.pos_eq v h.2.2.1]
  omega

theorem ViewOK.pos_inj {s : State} {v : View} (h : ViewOK s v) (j j' : Nat) (hj : j < v.len) (hj' : j' < v.len)
    (he : v.pos j = v.pos j') : j = j' := by
  have h1 := h.2.2.2 j hj
  have h2 := h.2.2.2 j' hj'
  rw [View.pos_eq v h.2.2.1, View.pos_eq v h.2.2.1] at he
  have he' : v.off + (j : Int) * v.step = v.off + (j' : Int) * v.step := by omega
  have he'' : (j : Int) * v.step = (j' : Int) * v.step := by omega
  have := Int.eq_of_mul_eq_mul_right h.2.1 he''
  omega

/-- the byte address of every entry of such a view is the start of an existing cell of its object -/
theorem ViewOK.byte_addr {s : State} {v : View} (h : ViewOK s v) (j : Nat) (hj : j < v.len) :
    ∃ c : Nat, v.lay.cellAt (entryAddr v.info j) = some (c : Int) ∧ c < (s.read v.blk).length ∧ v.pos j = c := by
  have hb := h.2.2.2 j hj
  refine ⟨(v.off + (j : Int) * v.step).toNat, ?_, by omega, View.pos_eq v h.2.2.1 j⟩
  unfold View.info
  rw [cellAt_entryAddr v.lay h.2.2.1, Int.toNat_of_nonneg hb.1]

theorem fullView_ok (s : State) (b : Nat) (hb : b < s.blocks.length) : ViewOK s (fullView b (s.read b).length) := by
  refine ⟨hb, by simp [fullView], by simp [fullView], ?_⟩
  intro j hj
  simp only [fullView] at hj ⊢
  omega

/-! ### writing cells of a list -/

def writeCells (l : List Int) (pos : Nat → Nat) (vals : List Int) (m : Nat) : List Int :=
  (List.range m).foldl (fun l j => l.set (pos j) (vals.getD j 0)) l

theorem writeCells_succ (l : List Int) (pos : Nat → Nat) (vals : List Int) (m : Nat) :
    writeCells l pos vals (m + 1) = (writeCells l pos vals m).set (pos m) (vals.getD m 0) := by
  simp [writeCells, List.range_succ, List.foldl_append]

theorem writeCells_length (l : List Int) (pos : Nat → Nat) (vals : List Int) (m : Nat) :
    (writeCells l pos vals m).length = l.length := by
  induction m with
  | zero => simp [writeCells]
  | succ m ih => rw [writeCells_succ, List.length_set, ih]

theorem writeCells_get_other (l : List Int) (pos : Nat → Nat) (vals : List Int) (m q : Nat)
    (h : ∀ j, j < m → pos j ≠ q) : (writeCells l pos vals m)[q]? = l[q]? := by
  induction m with
  | zero => simp [writeCells]
  | succ m ih =>
    rw [writeCells_succ, List.getElem?_set_ne (h m (by omega)), ih (fun j hj => h j (by omega))]

theorem writeCells_get_pos (l : List Int) (pos : Nat → Nat) (vals : List Int) (m : Nat)
    (hinj : ∀ j j', j < m → j' < m → pos j = pos j' → j = j') (hin : ∀ j, j < m → pos j < l.length)
    (j : Nat) (hj : j < m) : (writeCells l pos vals m)[pos j]? = some (vals.getD j 0) := by
  induction m with
  | zero => omega
  | succ m ih =>
    rw [writeCells_succ]
    by_cases hjm : j = m
    · subst hjm
      exact List.getElem?_set_self (by rw [writeCells_length]; exact hin j (by omega))
    · have hne : pos m ≠ pos j := by
        intro he
        have := hinj m j (by omega) (by omega) he
        omega
      rw [List.getElem?_set_ne hne]
      exact ih (fun a b ha hb => hinj a b (by omega) (by omega)) (fun a ha => hin a (by omega)) (by omega)

/-! ### writing through a view -/

theorem set_read_self (s : State) (b : Nat) (hb : b < s.blocks.length) : s.blocks.set b (s.read b) = s.blocks := by
  unfold State.read
  rw [List.getD_eq_getElem?_getD, List.getElem?_eq_getElem hb]
  simp

/-- the fold of `viewWrite` over the first `m` entries only rewrites the block of the view -/
theorem viewWrite_fold (s : State) (v : View) (vals : List Int) (hb : v.blk < s.blocks.length) (m : Nat) :
    (List.range m).foldl (fun st j => st.write v.blk ((st.read v.blk).set (v.pos j) (vals.getD j 0))) s
      = { s with blocks := s.blocks.set v.blk (writeCells (s.read v.blk) v.pos vals m) } := by
  induction m with
  | zero =>
    simp only [List.range_zero, List.foldl_nil, writeCells]
    rw [set_read_self s v.blk hb]
  | succ m ih =>
    rw [List.range_succ, List.foldl_append, ih, writeCells_succ]
    simp only [List.foldl_cons, List.foldl_nil, State.write, State.read]
    rw [List.set_set]
    congr 2
    simp [List.getD_eq_getElem?_getD, hb]

theorem viewWrite_eq (s : State) (v : View) (vals : List Int) (hb : v.blk < s.blocks.length) :
    s.viewWrite v vals
      = { s with blocks := s.blocks.set v.blk (writeCells (s.read v.blk) v.pos vals (min v.len vals.length)) } := by
  unfold State.viewWrite
  exact viewWrite_fold s v vals hb _

theorem viewWrite_xs (s : State) (v : View) (vals : List Int) (hb : v.blk < s.blocks.length) :
    (s.viewWrite v vals).xs = s.xs := by rw [viewWrite_eq s v vals hb]

theorem viewWrite_arrs (s : State) (v : View) (vals : List Int) (hb : v.blk < s.blocks.length) :
    (s.viewWrite v vals).arrs = s.arrs := by rw [viewWrite_eq s v vals hb]

theorem viewWrite_blocks_length (s : State) (v : View) (vals : List Int) (hb : v.blk < s.blocks.length) :
    (s.viewWrite v vals).blocks.length = s.blocks.length := by
  rw [viewWrite_eq s v vals hb]; simp

theorem viewWrite_read_blk (s : State) (v : View) (vals : List Int) (hb : v.blk < s.blocks.length) :
    (s.viewWrite v vals).read v.blk = writeCells (s.read v.blk) v.pos vals (min v.len vals.length) := by
  rw [viewWrite_eq s v vals hb]
  simp [State.read, List.getD_eq_getElem?_getD, hb]

theorem viewWrite_read_other (s : State) (v : View) (vals : List Int) (hb : v.blk < s.blocks.length) (c : Nat)
    (hc : c ≠ v.blk) : (s.viewWrite v vals).read c = s.read c := by
  rw [viewWrite_eq s v vals hb]
  simp [State.read, List.getD_eq_getElem?_getD, List.getElem?_set_ne (Ne.symm hc)]

theorem viewWrite_read_length (s : State) (v : View) (vals : List Int) (hb : v.blk < s.blocks.length) (c : Nat) :
    ((s.viewWrite v vals).read c).length = (s.read c).length := by
  by_cases hc : c = v.blk
  · subst hc; rw [viewWrite_read_blk s v vals hb, writeCells_length]
  · rw [viewWrite_read_other s v vals hb c hc]

/-- Writing `vals` through a view that denotes existing cells: afterwards the view shows exactly `vals`, every cell
    of the block that the view does not enumerate keeps its value, and all other blocks are untouched. -/
theorem viewWrite_spec (s : State) (v : View) (vals : List Int) (hv : ViewOK s v) (hl : vals.length = v.len) :
    (s.viewWrite v vals).viewVals v = vals ∧
    (∀ q, (∀ j, j < v.len → v.pos j ≠ q) → ((s.viewWrite v vals).read v.blk)[q]? = (s.read v.blk)[q]?) ∧
    (∀ c, c ≠ v.blk → (s.viewWrite v vals).read c = s.read c) ∧
    ((s.viewWrite v vals).read v.blk).length = (s.read v.blk).length := by
  have hb := hv.1
  have hm : min v.len vals.length = v.len := by omega
  refine ⟨?_, ?_, fun c hc => viewWrite_read_other s v vals hb c hc, viewWrite_read_length s v vals hb v.blk⟩
  · unfold State.viewVals
    rw [viewWrite_read_blk s v vals hb, hm]
    apply List.ext_getElem
    · simp [hl]
    · intro j h1 h2
      simp only [List.length_map, List.length_range] at h1
      simp only [List.getElem_map, List.getElem_range]
      rw [List.getD_eq_getElem?_getD,
        writeCells_get_pos (s.read v.blk) v.pos vals v.len (fun a b ha hb' he => hv.pos_inj a b ha hb' he)
          (fun a ha => hv.pos_lt a ha) j h1]
      simp [List.getD_eq_getElem?_getD, List.getElem?_eq_getElem h2]
  · intro q hq
    rw [viewWrite_read_blk s v vals hb, hm]
    exact writeCells_get_other _ _ _ _ _ hq

end DV.C20
