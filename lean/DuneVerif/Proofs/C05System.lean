import DuneVerif.Proofs.C05Deliver
/-!
C05 helper lemmas, part 4: posted sends/receives of a built communicator, and the net of communicators built from
the interfaces of a `System` (`netOf`): its slots in terms of the index sets, the mirror property with component
counts, and the calls of one pair of processes in terms of the shared global indices.  Core Lean only.
-/
namespace DV.C05

/-! ### generic facts -/

theorem eq_of_pairwise_of_mem_iff {α} {R : α → α → Prop} (irr : ∀ a, ¬ R a a) (asym : ∀ a b, R a b → R b a → False) :
    ∀ (l1 l2 : List α), l1.Pairwise R → l2.Pairwise R → (∀ x, x ∈ l1 ↔ x ∈ l2) → l1 = l2
  | [], [], _, _, _ => rfl
  | [], b :: l2, _, _, h => by have := (h b).2 (by simp); simp at this
  | a :: l1, [], _, _, h => by have := (h a).1 (by simp); simp at this
  | a :: l1, b :: l2, h1, h2, h => by
    rw [List.pairwise_cons] at h1 h2
    have hab : a = b := by
      have ha := (h a).1 (by simp)
      have hb := (h b).2 (by simp)
      rw [List.mem_cons] at ha hb
      rcases ha with ha | ha
      · exact ha
      · rcases hb with hb | hb
        · exact hb.symm
        · exact (asym _ _ (h2.1 a ha) (h1.1 b hb)).elim
    subst hab
    congr 1
    apply eq_of_pairwise_of_mem_iff irr asym l1 l2 h1.2 h2.2
    intro x
    constructor
    · intro hx
      have := (h x).1 (List.mem_cons_of_mem _ hx)
      rw [List.mem_cons] at this
      rcases this with rfl | this
      · exact (irr _ (h1.1 x hx)).elim
      · exact this
    · intro hx
      have := (h x).2 (List.mem_cons_of_mem _ hx)
      rw [List.mem_cons] at this
      rcases this with rfl | this
      · exact (irr _ (h2.1 x hx)).elim
      · exact this

theorem mem_iff_find {β} : ∀ (l : List (Nat × β)), (l.map (·.1)).Pairwise (· < ·) → ∀ x,
    x ∈ l ↔ l.find? (fun e => e.1 == x.1) = some x
  | [], _, x => by simp
  | c :: cs, hk, x => by
    simp only [List.map_cons, List.pairwise_cons] at hk
    constructor
    · intro hx
      rw [List.mem_cons] at hx
      rcases hx with rfl | hx
      · simp
      · have := hk.1 x.1 (List.mem_map_of_mem hx)
        have hne : (c.1 == x.1) = false := by simp only [beq_eq_false_iff_ne, ne_eq]; omega
        simp only [List.find?_cons, hne]
        exact (mem_iff_find cs hk.2 x).1 hx
    · intro h; exact List.mem_of_find?_eq_some h

theorem filter_flatMap_of_nil {α β} (c : α → Bool) (f : α → List β) (h : ∀ x, c x = false → f x = []) :
    ∀ l : List α, (l.filter c).flatMap f = l.flatMap f
  | [] => rfl
  | a :: as => by
    rw [List.filter_cons, List.flatMap_cons]
    cases hc : c a
    · simp only [Bool.false_eq_true, if_false]; rw [h a hc, List.nil_append]; exact filter_flatMap_of_nil c f h as
    · simp only [if_true, List.flatMap_cons]; rw [filter_flatMap_of_nil c f h as]

/-! ### posted sends and receives -/

theorem layout_keys_sublist (sz : Nat) (csS csT : Nat → Nat) : ∀ (ifs : IfMap) (s0 s1 : Nat),
    ((layout sz csS csT ifs s0 s1).map (·.1)).Sublist (ifs.map (·.1))
  | [], _, _ => by simp [layout]
  | e :: es, s0, s1 => by
    simp only [layout, List.map_append, List.map_cons]
    have ih := layout_keys_sublist sz csS csT es (s0 + sizeCalc csS e.2.1) (s1 + sizeCalc csT e.2.2)
    split
    · simp only [List.map_cons, List.map_nil, List.singleton_append]; exact List.Sublist.cons_cons _ ih
    · simp only [List.map_nil, List.nil_append]; exact List.Sublist.cons _ ih

theorem Net.msgs_keys (n : Net) (hk : ∀ p, Keys (n.ifs p)) (p : Nat) :
    ((n.comm p).msgs.map (·.1)).Pairwise (· < ·) :=
  List.Pairwise.sublist (layout_keys_sublist _ _ _ _ _ _) (hk p)

theorem Net.mem_posted (n : Net) (hk : ∀ p, Keys (n.ifs p)) (c : MsgInfo × MsgInfo → Bool) (q p : Nat) :
    p ∈ (((n.comm q).msgs.filter fun e => c e.2).map (·.1)) ↔ ∃ m, (n.comm q).msg p = some m ∧ c m = true := by
  simp only [List.mem_map, List.mem_filter, Comm.msg, Option.map_eq_some_iff]
  constructor
  · rintro ⟨x, ⟨hx, hc⟩, rfl⟩
    exact ⟨x.2, ⟨x, (mem_iff_find _ (n.msgs_keys hk q) x).1 hx, rfl⟩, hc⟩
  · rintro ⟨m, ⟨x, hx, rfl⟩, hc⟩
    refine ⟨x, ⟨List.mem_of_find?_eq_some hx, hc⟩, ?_⟩
    have := List.find?_some hx
    simpa using this

theorem Net.mem_postedRecvs (n : Net) (hg : n.Good) (q p : Nat) :
    p ∈ (n.comm q).postedRecvs true ↔ (n.recvSlots q p).length ≠ 0 := by
  have := n.mem_posted hg.keys (fun m => (recvMsgInfo true m).size != 0) q p
  simp only [Comm.postedRecvs]
  rw [this, n.msg_eq hg.keys]
  cases hf : (n.ifs q).find? (fun e => e.1 == p) with
  | none => simp [Net.recvSlots, get_of_find_none hf, slots_empty]
  | some e =>
    rw [n.recvSlots_length_of_find hf]
    simp only [Option.bind_some]
    have hsz := hg.sz
    by_cases hc : sizeCalc (n.csS q) e.2.1 + sizeCalc (n.csT q) e.2.2 > 0
    · simp only [hc, if_true, Option.some.injEq, exists_eq_left', recvMsgInfo, bne_iff_ne, ne_eq, Nat.mul_eq_zero]
      omega
    · simp only [hc, if_false]
      constructor
      · rintro ⟨m, h, _⟩; cases h
      · intro h; omega

theorem Net.mem_postedSends (n : Net) (hg : n.Good) (p q : Nat) :
    q ∈ (n.comm p).postedSends true ↔ (n.sendSlots p q).length ≠ 0 := by
  have := n.mem_posted hg.keys (fun m => (sendMsgInfo true m).size != 0) p q
  simp only [Comm.postedSends]
  rw [this, n.msg_eq hg.keys]
  cases hf : (n.ifs p).find? (fun e => e.1 == q) with
  | none => simp [Net.sendSlots, get_of_find_none hf, slots_empty]
  | some e =>
    have hl : (n.sendSlots p q).length = sizeCalc (n.csS p) e.2.1 := by
      rw [Net.sendSlots, get_of_find_some hf, slots_length]
    rw [hl]
    simp only [Option.bind_some]
    have hsz := hg.sz
    by_cases hc : sizeCalc (n.csS p) e.2.1 + sizeCalc (n.csT p) e.2.2 > 0
    · simp only [hc, if_true, Option.some.injEq, exists_eq_left', sendMsgInfo, bne_iff_ne, ne_eq, Nat.mul_eq_zero]
      omega
    · simp only [hc, if_false]
      constructor
      · rintro ⟨m, h, _⟩; cases h
      · intro h; omega

theorem Net.postedRecvs_lt (n : Net) (hg : n.Good) (q p : Nat) (h : p ∈ (n.comm q).postedRecvs true) : p < n.P := by
  simp only [Comm.postedRecvs, List.mem_map, List.mem_filter] at h
  obtain ⟨x, ⟨hx, _⟩, rfl⟩ := h
  obtain ⟨e, he, hk⟩ := layout_keys_sub _ _ _ _ _ _ x hx
  rw [← hk]; exact hg.bound q e he

/-- the posted receives, in rank order, are the processes from which something is expected -/
theorem Net.postedRecvs_eq (n : Net) (hg : n.Good) (q : Nat) :
    (n.comm q).postedRecvs true = (List.range n.P).filter fun p => (n.recvSlots q p).length != 0 := by
  apply eq_of_pairwise_of_mem_iff (R := (· < ·)) (fun a => Nat.lt_irrefl a) (fun a b h1 h2 => by omega)
  · simp only [Comm.postedRecvs]
    apply List.Pairwise.sublist _ (n.msgs_keys hg.keys q)
    exact List.Sublist.map _ List.filter_sublist
  · exact List.Pairwise.filter _ List.pairwise_lt_range
  · intro p
    rw [List.mem_filter, List.mem_range, n.mem_postedRecvs hg]
    constructor
    · intro h
      exact ⟨n.postedRecvs_lt hg q p ((n.mem_postedRecvs hg q p).2 h), by simpa using h⟩
    · intro h; simpa using h.2

/-! ### the net built from a system -/

def netOf (ign : Bool) (S T : Nat → Bool) (sys : System) (sz : Nat) (csS csT : Nat → Nat → Nat) : Net :=
  { P := sys.P, ifs := interfaceOf ign S T sys, sz := sz, csS := csS, csT := csT }

/-- the number of `IndexedType` elements per index is a function of the global index, the same on all processes -/
structure SizesByGlobal (sys : System) (csS csT : Nat → Nat → Nat) (blk : Int → Nat) : Prop where
  src : ∀ p, ∀ e ∈ (sys.rank p).src, csS p e.l = blk e.g
  tgt : ∀ p, ∀ e ∈ (sys.rank p).tgtSet, csT p e.l = blk e.g

/-- entries sent by `p` to `q` (none if `p` has no entry about `q` at all) -/
def sendL (ign : Bool) (S T : Nat → Bool) (sys : System) (p q : Nat) : List RIdx :=
  if admits sys p q then sendEntries ign S T sys p q else []
/-- entries `q` receives from `p` -/
def recvL (ign : Bool) (S T : Nat → Bool) (sys : System) (q p : Nat) : List RIdx :=
  if admits sys q p then recvEntries ign S T sys q p else []

theorem admits_symm {sys : System} {p q : Nat} (hp : p < sys.P) (hq : q < sys.P) : admits sys p q ↔ admits sys q p := by
  simp only [admits, hp, hq, true_and]
  by_cases h : p = q
  · subst h; simp
  · have h' : q ≠ p := fun h' => h h'.symm
    simp [h, h']

theorem L_mirror {ign S T sys} (hwf : WF sys) {p q : Nat} (hp : p < sys.P) (hq : q < sys.P) :
    (sendL ign S T sys p q).map (·.g) = (recvL ign S T sys q p).map (·.g) := by
  simp only [sendL, recvL]
  by_cases h : admits sys p q
  · have h' := (admits_symm hp hq).1 h
    simp only [h, h', if_true]
    exact entries_mirror hwf p q
  · have h' : ¬ admits sys q p := fun h' => h ((admits_symm hp hq).2 h')
    simp [h, h']

theorem mem_sendEntries_src {ign S T sys} (hwf : WF sys) {p q : Nat} {x : RIdx}
    (hx : x ∈ sendEntries ign S T sys p q) : ∃ e ∈ (sys.rank p).src, e.g = x.g ∧ e.l = x.l ∧ e.a = x.a := by
  simp only [sendEntries, sendSpec, List.mem_filter, mem_joinSpec ((hwf.tgt q).published ign)] at hx
  obtain ⟨⟨a, ha, b, _, _, rfl⟩, _⟩ := hx
  exact ⟨a, (List.mem_filter.mp ha).1, rfl, rfl, rfl⟩

theorem mem_recvEntries_tgt {ign S T sys} (hwf : WF sys) {q p : Nat} {x : RIdx}
    (hx : x ∈ recvEntries ign S T sys q p) : ∃ e ∈ (sys.rank q).tgtSet, e.g = x.g ∧ e.l = x.l ∧ e.a = x.a := by
  simp only [recvEntries, recvSpec, List.mem_filter, mem_joinSpec ((hwf.src p).published ign)] at hx
  obtain ⟨⟨a, ha, b, _, _, rfl⟩, _⟩ := hx
  exact ⟨a, (List.mem_filter.mp ha).1, rfl, rfl, rfl⟩

/-- the (local index, component) slots of a list of entries -/
def slotsOf (blk : Int → Nat) (l : List RIdx) : List (Nat × Nat) :=
  l.flatMap fun x => (List.range (blk x.g)).map fun j => (x.l, j)

theorem sendSlots_eq {ign S T sys sz csS csT blk} (hwf : WF sys) (hb : SizesByGlobal sys csS csT blk) (p q : Nat) :
    (netOf ign S T sys sz csS csT).sendSlots p q = slotsOf blk (sendL ign S T sys p q) := by
  simp only [Net.sendSlots, netOf, get_interfaceOf, sendL]
  by_cases h : admits sys p q
  · simp only [h, if_true, infoOf_eq, slots, slotsOf, List.flatMap_map]
    apply flatMap_congr_mem
    intro x hx
    obtain ⟨e, he, hg, hl, _⟩ := mem_sendEntries_src hwf hx
    rw [← hl, hb.src p e he, hg]
  · simp [h, slots_empty, slotsOf]

theorem recvSlots_eq {ign S T sys sz csS csT blk} (hwf : WF sys) (hb : SizesByGlobal sys csS csT blk) (q p : Nat) :
    (netOf ign S T sys sz csS csT).recvSlots q p = slotsOf blk (recvL ign S T sys q p) := by
  simp only [Net.recvSlots, netOf, get_interfaceOf, recvL]
  by_cases h : admits sys q p
  · simp only [h, if_true, infoOf_eq, slots, slotsOf, List.flatMap_map]
    apply flatMap_congr_mem
    intro x hx
    obtain ⟨e, he, hg, hl, _⟩ := mem_recvEntries_tgt hwf hx
    rw [← hl, hb.tgt q e he, hg]
  · simp [h, slots_empty, slotsOf]

theorem slotsOf_length (blk : Int → Nat) (l : List RIdx) : (slotsOf blk l).length = (l.map fun x => blk x.g).sum := by
  simp only [slotsOf, sum_map_length_flatMap, List.length_map, List.length_range]

theorem slotsOf_length_congr (blk : Int → Nat) {l1 l2 : List RIdx} (h : l1.map (·.g) = l2.map (·.g)) :
    (slotsOf blk l1).length = (slotsOf blk l2).length := by
  rw [slotsOf_length, slotsOf_length]
  have h1 : (l1.map fun x => blk x.g) = (l1.map (·.g)).map blk := by simp
  have h2 : (l2.map fun x => blk x.g) = (l2.map (·.g)).map blk := by simp
  rw [h1, h2, h]

/-- the calls for one pair of processes, by shared global index: the `k`-th entry sent meets the `k`-th entry
    received, component by component -/
def pairExpected {Val} (blk : Int → Nat) (gat : Nat → Nat → Val) (se re : List RIdx) : List (Val × Nat × Nat) :=
  (se.zip re).flatMap fun xy => (List.range (blk xy.1.g)).map fun j => (gat xy.1.l j, xy.2.l, j)

theorem zip_slotsOf {Val} (blk : Int → Nat) (gat : Nat → Nat → Val) : ∀ (se re : List RIdx),
    se.map (·.g) = re.map (·.g) →
    ((slotsOf blk se).map fun s => gat s.1 s.2).zip (slotsOf blk re) = pairExpected blk gat se re
  | [], [], _ => rfl
  | [], _ :: _, h => by simp at h
  | _ :: _, [], h => by simp at h
  | x :: se, y :: re, h => by
    simp only [List.map_cons, List.cons.injEq] at h
    obtain ⟨hg, ht⟩ := h
    simp only [slotsOf, pairExpected, List.flatMap_cons, List.zip_cons_cons, List.map_append, List.map_map]
    rw [List.zip_append (by simp [hg])]
    congr 1
    · rw [← hg, List.zip_map']; rfl
    · exact zip_slotsOf blk gat se re ht

theorem netOf_good {ign S T sys sz csS csT blk} (hwf : WF sys) (hsz : 0 < sz) (hb : SizesByGlobal sys csS csT blk) :
    (netOf ign S T sys sz csS csT).Good where
  keys := fun p => keys_interfaceOf_sorted ign S T sys p
  bound := by
    intro p e he
    have := (keys_filterMap_range_sorted _ (fun i x h => ifEntry_key (ign := ign) (S := S) (T := T) (sys := sys) (p := p) h) sys.P).2
    apply this
    simp only [netOf, interfaceOf_eq] at he
    exact List.mem_map_of_mem he
  sz := hsz
  mirror := by
    intro p q hp hq
    rw [sendSlots_eq hwf hb, recvSlots_eq hwf hb]
    exact slotsOf_length_congr blk (L_mirror hwf hp hq)

theorem pairCalls_eq {Val} {ign S T sys sz csS csT blk} (hwf : WF sys) (hb : SizesByGlobal sys csS csT blk)
    (gat : Nat → Nat → Nat → Val) {p q : Nat} (hp : p < sys.P) (hq : q < sys.P) :
    (netOf ign S T sys sz csS csT).pairCalls gat p q =
      pairExpected blk (gat p) (sendL ign S T sys p q) (recvL ign S T sys q p) := by
  simp only [Net.pairCalls]
  rw [sendSlots_eq hwf hb, recvSlots_eq hwf hb]
  exact zip_slotsOf blk (gat p) _ _ (L_mirror hwf hp hq)

end DV.C05
