import DuneVerif.Model.C07
/-! helper lemmas for the lazily created singletons (`DV.C07.Reg`): the cache invariant and history independence -/
namespace DV.C07.Proofs
open DV.C07 DV.C07.Reg

theorem argOf_eq_of_proj {ps : List String} {i j : Inst} (h : proj ps i = proj ps j) {p : String} (hp : p ∈ ps) :
    argOf i p = argOf j p := by
  induction ps with
  | nil => cases hp
  | cons q qs ih =>
    simp only [proj, List.map_cons, List.cons.injEq] at h
    cases hp with
    | head => exact h.1
    | tail _ hq => exact ih h.2 hq

theorem proj_sub {slot used : List String} (hsub : ∀ p ∈ used, p ∈ slot) {i j : Inst} (h : proj slot i = proj slot j) :
    proj used i = proj used j := by
  unfold proj
  apply List.map_congr_left
  intro p hp
  exact argOf_eq_of_proj h (hsub p hp)

/-- every cell of the static storage was filled by an instantiation that selects this very cell -/
def Inv (tbl : List Row) (c : Cache) : Prop :=
  ∀ e ∈ c, ∃ r, rowOf tbl e.1.1 = some r ∧ e.1.2 = proj r.slot e.2

theorem inv_nil (tbl : List Row) : Inv tbl [] := by
  intro e he; cases he

theorem lookup_some {c : Cache} {k : Key} {creator : Inst} (h : lookup c k = some creator) : (k, creator) ∈ c := by
  unfold lookup at h
  cases hf : c.find? (fun e => e.1 == k) with
  | none => rw [hf] at h; cases h
  | some e =>
    rw [hf] at h
    simp only [Option.map_some, Option.some.injEq] at h
    have hm := List.mem_of_find?_eq_some hf
    have hk := List.find?_some hf
    have hk' : e.1 = k := by simpa using hk
    have : e = (k, creator) := by rw [← hk', ← h]
    rw [← this]; exact hm

theorem get_inv (tbl : List Row) (c : Cache) (u : Use) (hc : Inv tbl c) : Inv tbl (get tbl c u).2 := by
  unfold Reg.get
  cases hr : rowOf tbl u.family with
  | none => simpa using hc
  | some r =>
    simp only
    cases hl : lookup c (u.family, proj r.slot u.inst) with
    | some creator => simpa using hc
    | none =>
      simp only
      intro e he
      cases he with
      | head => exact ⟨r, hr, rfl⟩
      | tail _ h => exact hc e h

theorem get_faithful (tbl : List Row) (hsub : ∀ r ∈ tbl, ∀ p ∈ r.used, p ∈ r.slot) (c : Cache) (u : Use)
    (hc : Inv tbl c) : faithful tbl u (get tbl c u).1 = true := by
  unfold Reg.get faithful
  cases hr : rowOf tbl u.family with
  | none => simp
  | some r =>
    simp only
    cases hl : lookup c (u.family, proj r.slot u.inst) with
    | none => simp
    | some creator =>
      simp only
      obtain ⟨r', hr', hk⟩ := hc _ (lookup_some hl)
      simp only at hr' hk
      rw [hr] at hr'
      cases hr'
      have hmem : r ∈ tbl := List.mem_of_find?_eq_some hr
      have := proj_sub (hsub r hmem) hk.symm
      simp [this]

theorem run_inv (tbl : List Row) (hist : List Use) : ∀ c, Inv tbl c → Inv tbl (run tbl c hist) := by
  induction hist with
  | nil => intro c hc; exact hc
  | cons u us ih => intro c hc; exact ih _ (get_inv tbl c u hc)

theorem step_spec (tbl : List Row) (hsub : ∀ r ∈ tbl, ∀ p ∈ r.used, p ∈ r.slot) (us : List Use) :
    ∀ (b : Bool) (c : Cache), Inv tbl c →
      (us.foldl (fun acc u => let g := get tbl acc.2 u; (acc.1 && faithful tbl u g.1, g.2)) (b, c)).1 = b ∧
      Inv tbl (us.foldl (fun acc u => let g := get tbl acc.2 u; (acc.1 && faithful tbl u g.1, g.2)) (b, c)).2 := by
  induction us with
  | nil => intro b c hc; exact ⟨rfl, hc⟩
  | cons u rest ih =>
    intro b c hc
    simp only [List.foldl_cons]
    have h1 := get_faithful tbl hsub c u hc
    have h2 := get_inv tbl c u hc
    rw [h1, Bool.and_true]
    exact ih b _ h2

theorem runSteps_all (tbl : List Row) (hsub : ∀ r ∈ tbl, ∀ p ∈ r.used, p ∈ r.slot) (steps : List (List Use)) :
    ∀ c, Inv tbl c → ∀ b ∈ runSteps tbl c steps, b = true := by
  induction steps with
  | nil => intro c _ b hb; cases hb
  | cons us rest ih =>
    intro c hc b hb
    have hs := step_spec tbl hsub us true c hc
    simp only [runSteps] at hb
    cases hb with
    | head => exact hs.1
    | tail _ h => exact ih _ hs.2 b h

end DV.C07.Proofs
