import DuneVerif.Proofs.C12Tree

namespace DV.C12

/-! ### a static condition for `NoLeafClash`: no key of the sources is a proper dotted prefix of another -/

/-- `a` is a proper prefix of `b` -/
def Pre (a b : List Str) : Prop := ∃ c, c ≠ [] ∧ a ++ c = b

/-- no path of the list is a proper prefix of another one -/
def Compat (K : List (List Str)) : Prop := ∀ a ∈ K, ∀ b ∈ K, ¬ Pre a b

/-- `g` names a group (sub-tree) of `t` -/
def groupAt : List Str → Tree → Bool
  | [], _ => false
  | [k], .node _ subs => aHas k subs
  | k :: rest, .node _ subs =>
    match aGet? k subs with
    | none => false
    | some s => groupAt rest s

theorem leafClash_eq_groupAt : ∀ (p : List Str) (t : Tree), leafClash p t = groupAt p t
  | [], _ => rfl
  | [_], .node _ _ => rfl
  | k :: k2 :: rest, .node _ subs => by
    simp only [leafClash, groupAt]
    cases aGet? k subs with
    | none => rfl
    | some s => exact leafClash_eq_groupAt (k2 :: rest) s

theorem groupAt_empty (g : List Str) : groupAt g .empty = false := by
  rw [← leafClash_eq_groupAt]; exact leafClash_empty g

theorem groupAt_vals_irrel : ∀ (g : List Str) (vals vals' : List (Str × Str)) (subs : List (Str × Tree)),
    groupAt g (.node vals subs) = groupAt g (.node vals' subs)
  | [], _, _, _ => rfl
  | [_], _, _, _ => rfl
  | _ :: _ :: _, _, _, _ => rfl

/-- an assignment creates only groups that are proper prefixes of its path -/
theorem groupAt_setPath : ∀ (p : List Str) (v : Str) (t t' : Tree) (g : List Str), setPath p v t = .ok t' →
    groupAt g t' = true → groupAt g t = true ∨ Pre g p
  | [], v, t, t', g, h, hg => by
    simp only [setPath] at h; injection h with h; subst h; exact Or.inl hg
  | [k], v, .node vals subs, t', g, h, hg => by
    rw [setPath_leaf_ok h] at hg
    left
    rw [groupAt_vals_irrel g vals (aSet k v vals) subs]
    exact hg
  | k :: k2 :: rest, v, .node vals subs, t', g, h, hg => by
    obtain ⟨_, s', hs, rfl⟩ := setPath_inner_ok h
    match g with
    | [] => simp [groupAt] at hg
    | [k'] =>
      simp only [groupAt, aHas_aSet, Bool.or_eq_true, beq_iff_eq] at hg
      rcases hg with rfl | hg
      · right; exact ⟨k2 :: rest, by simp, rfl⟩
      · left; simpa [groupAt] using hg
    | k' :: g2 :: grest =>
      by_cases hk : k' = k
      · subst hk
        simp only [groupAt, aGet?_aSet_self] at hg
        rcases groupAt_setPath (k2 :: rest) v _ s' (g2 :: grest) hs hg with h1 | ⟨c, hc, hcc⟩
        · left
          simp only [groupAt]
          cases hget : aGet? k' subs with
          | none => rw [hget] at h1; simp [groupAt_empty] at h1
          | some s => rw [hget] at h1; simpa using h1
        · right
          exact ⟨c, hc, by simp only [List.cons_append] at hcc ⊢; rw [hcc]⟩
      · left
        simp only [groupAt] at hg ⊢
        rw [aGet?_aSet_ne _ hk] at hg
        exact hg

/-- every group of `t` lies on the way to a key of `K` -/
def GroupsBelow (K : List (List Str)) (t : Tree) : Prop := ∀ g, groupAt g t = true → ∃ b ∈ K, Pre g b

theorem groupsBelow_empty (K : List (List Str)) : GroupsBelow K .empty := by
  intro g hg; simp [groupAt_empty] at hg

theorem groupsBelow_mono {K K' : List (List Str)} {t : Tree} (h : GroupsBelow K t) (hs : ∀ b ∈ K, b ∈ K') :
    GroupsBelow K' t := by
  intro g hg
  obtain ⟨b, hb, hp⟩ := h g hg
  exact ⟨b, hs b hb, hp⟩

theorem groupsBelow_set {K : List (List Str)} {t t' : Tree} {p : List Str} {v : Str} (h : GroupsBelow K t)
    (hs : setPath p v t = .ok t') : GroupsBelow (K ++ [p]) t' := by
  intro g hg
  rcases groupAt_setPath p v t t' g hs hg with h1 | h1
  · obtain ⟨b, hb, hp⟩ := h g h1
    exact ⟨b, by simp [hb], hp⟩
  · exact ⟨p, by simp, h1⟩

/-- tree after one accepted assignment: unchanged or the result of the `set` -/
theorem assignStep_tree {ow : Bool} {st st' : St} {k v : Str} (h : assignStep ow st k v = .ok st') :
    st'.tree = st.tree ∨ st.tree.set k v = .ok st'.tree := by
  unfold assignStep at h
  split at h
  · simp at h
  · cases ow with
    | true =>
      simp only [if_true] at h
      cases hs : st.tree.set k v with
      | error e => rw [hs] at h; simp at h
      | ok t => rw [hs] at h; simp at h; right; rw [← h]
    | false =>
      simp only [Bool.false_eq_true, if_false] at h
      cases hk : st.tree.hasKey k with
      | error e => rw [hk] at h; simp at h
      | ok b =>
        rw [hk] at h
        cases b with
        | true => simp at h; left; rw [← h]
        | false =>
          simp only at h
          cases hs : st.tree.set k v with
          | error e => rw [hs] at h; simp at h
          | ok t => rw [hs] at h; simp at h; right; rw [← h]

def keyPaths (es : List (Str × Str)) : List (List Str) := es.map (fun e => comps e.1)

/-- **static condition**: if no key (of the tree's history `K` and of the source) is a proper dotted prefix of
    another, no assignment of the source ever targets a group name -/
theorem noLeafClash_of_compat (ow : Bool) : ∀ (es : List (Str × Str)) (st : St) (K : List (List Str)),
    GroupsBelow K st.tree → Compat (K ++ keyPaths es) → NoLeafClash ow es st
  | [], _, _, _, _ => trivial
  | (k, v) :: r, st, K, hinv, hc => by
    refine ⟨?_, ?_⟩
    · cases hcl : leafClash (comps k) st.tree with
      | false => rfl
      | true =>
        rw [leafClash_eq_groupAt] at hcl
        obtain ⟨b, hb, hp⟩ := hinv _ hcl
        exact absurd hp (hc (comps k) (by simp [keyPaths]) b (by simp [hb]))
    · intro st' hs
      have hinv' : GroupsBelow (K ++ [comps k]) st'.tree := by
        rcases assignStep_tree hs with h1 | h1
        · rw [h1]; exact groupsBelow_mono hinv (fun b hb => by simp [hb])
        · exact groupsBelow_set hinv h1
      apply noLeafClash_of_compat ow r st' (K ++ [comps k]) hinv'
      simpa [keyPaths, List.append_assoc] using hc

/-- the invariant after a whole source -/
theorem groupsBelow_applyAll (ow : Bool) : ∀ (es : List (Str × Str)) (st st' : St) (K : List (List Str)),
    GroupsBelow K st.tree → applyAll ow es st = .ok st' → GroupsBelow (K ++ keyPaths es) st'.tree
  | [], st, st', K, hinv, h => by
    simp only [applyAll] at h; injection h with h; subst h
    simpa [keyPaths] using hinv
  | (k, v) :: r, st, st', K, hinv, h => by
    simp only [applyAll] at h
    cases hs : assignStep ow st k v with
    | error e => rw [hs] at h; simp at h
    | ok s1 =>
      rw [hs] at h
      simp only at h
      have hinv' : GroupsBelow (K ++ [comps k]) s1.tree := by
        rcases assignStep_tree hs with h1 | h1
        · rw [h1]; exact groupsBelow_mono hinv (fun b hb => by simp [hb])
        · exact groupsBelow_set hinv h1
      have := groupsBelow_applyAll ow r s1 st' (K ++ [comps k]) hinv' h
      simpa [keyPaths, List.append_assoc] using this

end DV.C12
