import Mathlib.Tactic.Ring
import Mathlib.Tactic.Linarith
import Mathlib.Data.Real.Basic
import DuneVerif.Model.C08T
/-!
# C08 — the table-driven definitions of `Model/C08T.lean` coincide with the hand-written control flow of `Model/C08.lean`

Over ℝ (the instance of the property theorems).  The translated *expressions* (rows of `A - λI`, the 2-vectors and `u`
of `orthoComp`, the reduced matrix and the four normalisation sequences of `eig1`) are identified with the hand-written
ones up to ring identities (`leaf_eq`: `rfl`, else `ring_nf`, also inside `sqrt`), so commuted factors or re-associated
sums in the source do not matter; the translated *index tables* are evaluated (`rfl`).  Re-checked against what the
translator extracts from the current source on every run: a change of an index, of the update of the running maximum,
of a coefficient, of the swap network or of a LAPACK job/size breaks them.
-/
namespace DV.C08

/-- closes `translated leaf = hand-written leaf` up to ring identities (also inside the arguments of `sqrt`) -/
macro "leaf_eq" : tactic =>
  `(tactic| first | rfl | (simp only [Nat.cast_zero, Nat.cast_one, Nat.cast_ofNat, Prod.mk.injEq] <;> (try constructor) <;> ring_nf) | ring_nf)

section leaves
variable (sqrt : ℝ → ℝ)

theorem eig0_row0_eq (m00 m01 m02 m10 m11 m12 m20 m21 m22 ev : ℝ) :
    Gen.eig0_row0 m00 m01 m02 m10 m11 m12 m20 m21 m22 ev = (m00 - ev, m01, m02) := by
  unfold Gen.eig0_row0; leaf_eq

theorem eig0_row1_eq (m00 m01 m02 m10 m11 m12 m20 m21 m22 ev : ℝ) :
    Gen.eig0_row1 m00 m01 m02 m10 m11 m12 m20 m21 m22 ev = (m10, m11 - ev, m12) := by
  unfold Gen.eig0_row1; leaf_eq

theorem eig0_row2_eq (m00 m01 m02 m10 m11 m12 m20 m21 m22 ev : ℝ) :
    Gen.eig0_row2 m00 m01 m02 m10 m11 m12 m20 m21 m22 ev = (m20, m21, m22 - ev) := by
  unfold Gen.eig0_row2; leaf_eq

theorem orthoComp_tempA_eq (e0 e1 e2 : ℝ) : Gen.orthoComp_tempA e0 e1 e2 = (e0, e2) := by
  unfold Gen.orthoComp_tempA; leaf_eq

theorem orthoComp_uA_eq (e0 e1 e2 : ℝ) : Gen.orthoComp_uA e0 e1 e2 = (-e2, (zero : ℝ), e0) := by
  unfold Gen.orthoComp_uA zero; leaf_eq

theorem orthoComp_tempB_eq (e0 e1 e2 : ℝ) : Gen.orthoComp_tempB e0 e1 e2 = (e1, e2) := by
  unfold Gen.orthoComp_tempB; leaf_eq

theorem orthoComp_uB_eq (e0 e1 e2 : ℝ) : Gen.orthoComp_uB e0 e1 e2 = ((zero : ℝ), e2, -e1) := by
  unfold Gen.orthoComp_uB zero; leaf_eq

theorem eig1_m00_eq (a b c ev : ℝ) : Gen.eig1_m00 a b c ev = a - ev := by unfold Gen.eig1_m00; leaf_eq
theorem eig1_m01_eq (a b c ev : ℝ) : Gen.eig1_m01 a b c ev = b := by unfold Gen.eig1_m01; leaf_eq
theorem eig1_m11_eq (a b c ev : ℝ) : Gen.eig1_m11 a b c ev = c - ev := by unfold Gen.eig1_m11; leaf_eq

theorem eig1_leaf0a_eq (m00 m01 m11 : ℝ) :
    Gen.eig1_leaf0a sqrt m00 m01 m11 =
      (m01 / m00 * ((one : ℝ) / sqrt ((one : ℝ) + m01 / m00 * (m01 / m00))), (one : ℝ) / sqrt ((one : ℝ) + m01 / m00 * (m01 / m00))) := by
  unfold Gen.eig1_leaf0a one; leaf_eq

theorem eig1_leaf0b_eq (m00 m01 m11 : ℝ) :
    Gen.eig1_leaf0b sqrt m00 m01 m11 =
      ((one : ℝ) / sqrt ((one : ℝ) + m00 / m01 * (m00 / m01)), m00 / m01 * ((one : ℝ) / sqrt ((one : ℝ) + m00 / m01 * (m00 / m01)))) := by
  unfold Gen.eig1_leaf0b one; leaf_eq

theorem eig1_leaf1a_eq (m00 m01 m11 : ℝ) :
    Gen.eig1_leaf1a sqrt m00 m01 m11 =
      ((one : ℝ) / sqrt ((one : ℝ) + m01 / m11 * (m01 / m11)), m01 / m11 * ((one : ℝ) / sqrt ((one : ℝ) + m01 / m11 * (m01 / m11)))) := by
  unfold Gen.eig1_leaf1a one; leaf_eq

theorem eig1_leaf1b_eq (m00 m01 m11 : ℝ) :
    Gen.eig1_leaf1b sqrt m00 m01 m11 =
      (m11 / m01 * ((one : ℝ) / sqrt ((one : ℝ) + m11 / m01 * (m11 / m01))), (one : ℝ) / sqrt ((one : ℝ) + m11 / m01 * (m11 / m01))) := by
  unfold Gen.eig1_leaf1b one; leaf_eq

end leaves

section
variable (sqrt : ℝ → ℝ)

/-- the hand-written `eig0` with its maximum search (`dmax`, `imax`) written as a decision tree -/
def eig0Tree {K : Type} [Add K] [Sub K] [Mul K] [Div K] [LT K] [DecidableLT K] [NatCast K]
    (sqrt : K → K) (A : M3 K) (ev : K) : V3 K :=
  let S := shift3 A ev
  let r0 : V3 K := ⟨S.a00, S.a01, S.a02⟩
  let r1 : V3 K := ⟨S.a10, S.a11, S.a12⟩
  let r2 : V3 K := ⟨S.a20, S.a21, S.a22⟩
  let c01 := cross r0 r1
  let c02 := cross r0 r2
  let c12 := cross r1 r2
  let d0 := sqrt (norm2_3 c01)
  let d1 := sqrt (norm2_3 c02)
  let d2 := sqrt (norm2_3 c12)
  if d0 < d1 then
    (if d1 < d2 then ⟨c12.x / d2, c12.y / d2, c12.z / d2⟩ else ⟨c02.x / d1, c02.y / d1, c02.z / d1⟩)
  else
    (if d0 < d2 then ⟨c12.x / d2, c12.y / d2, c12.z / d2⟩ else ⟨c01.x / d0, c01.y / d0, c01.z / d0⟩)

/-- independent of the translated tables: running maximum + index = decision tree (purely propositional) -/
theorem eig0_eq_tree (A : M3 ℝ) (ev : ℝ) : eig0 sqrt A ev = eig0Tree sqrt A ev := by
  unfold eig0 eig0Tree
  simp only []
  split_ifs <;> first | rfl | (exfalso; simp_all)

/-- **semantic tie of the selection**: for all lengths `d` (over ℝ) and all candidates, the decision tree read off the
current source selects what the hand-written maximum search selects.  `rfl` when the trees coincide; otherwise every
combination of comparison outcomes is checked (contradictory combinations by `linarith`), so a differently shaped but
equivalent search (other order of the tests, `<=` with exchanged branches) is accepted and a different choice is not. -/
theorem eig0_select_sem {β : Type} (d : Nat → ℝ) (leaf : Nat → Nat → β) :
    evalSel d leaf Gen.eig0_select = evalSel d leaf eig0_handTree := by
  first
    | rfl
    | (simp only [Gen.eig0_select, eig0_handTree, evalSel]; split_ifs <;> first | rfl | (exfalso; linarith))

theorem eig0T_eq (A : M3 ℝ) (ev : ℝ) : eig0T sqrt A ev = eig0 sqrt A ev := by
  rw [eig0_eq_tree]
  unfold eig0T
  simp only [eig0_row0_eq, eig0_row1_eq, eig0_row2_eq, eig0_select_sem]
  rfl

theorem orthoCompT_eq (e : V3 ℝ) : orthoCompT sqrt e = orthoComp sqrt e := by
  unfold orthoCompT
  simp only [orthoComp_tempA_eq, orthoComp_uA_eq, orthoComp_tempB_eq, orthoComp_uB_eq]
  rfl

theorem eig1CoeffsT_eq (m00 m01 m11 : ℝ) : eig1CoeffsT sqrt m00 m01 m11 = eig1Coeffs sqrt m00 m01 m11 := by
  unfold eig1CoeffsT
  simp only [eig1_leaf0a_eq, eig1_leaf0b_eq, eig1_leaf1a_eq, eig1_leaf1b_eq]
  rfl

theorem eig1T_eq (A : M3 ℝ) (e0 : V3 ℝ) (ev1 : ℝ) : eig1T sqrt A e0 ev1 = eig1 sqrt A e0 ev1 := by
  unfold eig1T
  simp only [eig1_m00_eq, eig1_m01_eq, eig1_m11_eq, orthoCompT_eq, eig1CoeffsT_eq]
  rfl

theorem trigVectorsT_eq (S : M3 ℝ) (l : ℝ × ℝ × ℝ) (r : ℝ) :
    trigVectorsT sqrt S l r = trigVectors sqrt S l r := by
  unfold trigVectorsT trigVectors assemble3
  simp only [eig0T_eq, eig1T_eq]
  split <;> rfl

theorem eigenValuesVectors3dT_eq (acos cos : ℝ → ℝ) (pi eps : ℝ) (A : M3 ℝ) :
    eigenValuesVectors3dT sqrt acos cos pi eps A = eigenValuesVectors3d sqrt acos cos pi eps A := by
  unfold eigenValuesVectors3dT eigenValuesVectors3d
  simp only [trigVectorsT_eq]

end

/-- the diagonal special case in the source is the network the hand-written model implements: start from the diagonal
entries and the coordinate vectors; compare (0,1), (1,2), (0,1); each step swaps the compared values and the vectors
with the same indices -/
theorem ev3_diag_tables :
    Gen.ev3_diagInit = [(0, 0), (1, 1), (2, 2)] ∧ Gen.ev3_diagVecs = [[1, 0, 0], [0, 1, 0], [0, 0, 1]] ∧
    Gen.ev3_diagSwaps = [(0, 1, 0, 1, 0, 1), (1, 2, 1, 2, 1, 2), (0, 1, 0, 1, 0, 1)] := by decide

/-! ## LAPACK call sites -/

theorem lapackSeesSymT_eq {K : Type} (n : Nat) (A : Nat → Nat → K) : lapackSeesSymT n A = lapackSeesSym n A := by
  unfold lapackSeesSymT lapackSeesSym triCompletion packT
  simp [Gen.lapSym_uplo, Gen.lapSym_packTransposed]

theorem lapackSeesNonSymFT_eq {K : Type} (n : Nat) (A : Nat → Nat → K) : lapackSeesNonSymFT n A = lapackSeesNonSymF n A := by
  unfold lapackSeesNonSymFT lapackSeesNonSymF packT
  simp [Gen.lapNsF_packTransposed]

theorem lapackSeesNonSymDT_eq {K : Type} (n : Nat) (A : Nat → Nat → K) : lapackSeesNonSymDT n A = lapackSeesNonSymD n A := by
  unfold lapackSeesNonSymDT lapackSeesNonSymD packT
  simp [Gen.lapNsD_packTransposed]

theorem copyBackSymT_eq {K : Type} (n : Nat) (Z : Nat → Nat → K) : copyBackSymT n Z = copyBack n Z := by
  unfold copyBackSymT
  simp [Gen.lapSym_copyBackTransposed]

/-- ?syev (LAPACK interface: `LWORK >= max(1, 3N-1)`, `A` of `LDA*N`, `WORK` of `LWORK` entries): for every order the
announced `lwork` satisfies the requirement, the work array really has `lwork` entries and the matrix array `n*n`;
the job character is 'v' exactly when eigenvectors are computed, and `uplo` names a triangle. -/
theorem lapack_sym_call_ok (n : Nat) :
    max 1 (3 * n - 1) ≤ max 1 (Gen.lapSym_lwork n) ∧ (1 ≤ n → max 1 (3 * n - 1) ≤ Gen.lapSym_lwork n) ∧
    Gen.lapSym_lwork n ≤ Gen.lapSym_workSize n ∧ n * n ≤ Gen.lapSym_matSize n ∧
    Gen.lapSym_jobz = ('n', 'v') ∧ (Gen.lapSym_uplo = 'u' ∨ Gen.lapSym_uplo = 'l') := by
  refine ⟨?_, ?_, ?_, ?_, ?_, ?_⟩
  · simp only [Gen.lapSym_lwork]; omega
  · intro h; simp only [Gen.lapSym_lwork]; omega
  · simp only [Gen.lapSym_lwork, Gen.lapSym_workSize]; omega
  · simp only [Gen.lapSym_matSize]; exact Nat.le_refl _
  · decide
  · decide

/-- ?geev (`LWORK >= max(1, 3N)`, and `>= 4N` if eigenvectors are wanted; `WR`, `WI` of `N`, `VR` of `LDVR*N` entries when
`JOBVR = 'V'`): both call sites, every order, with and without eigenvectors.  The dynamic routine asks for right
eigenvectors exactly when the caller passed a list, never for left ones; the fixed-size routine for none. -/
theorem lapack_nonsym_call_ok (n : Nat) (hn : 1 ≤ n) (vec : Bool) :
    (max 1 (3 * n) ≤ Gen.lapNsF_lwork n ∧ Gen.lapNsF_lwork n ≤ Gen.lapNsF_workSize n ∧
      n ≤ (Gen.lapNsF_wSize n).1 ∧ n ≤ (Gen.lapNsF_wSize n).2 ∧ Gen.lapNsF_jobs = ('n', 'n')) ∧
    ((if vec then 4 * n else max 1 (3 * n)) ≤ Gen.lapNsD_lwork n vec ∧ Gen.lapNsD_lwork n vec ≤ Gen.lapNsD_workSize n vec ∧
      n * n ≤ Gen.lapNsD_matSize n vec ∧ n ≤ (Gen.lapNsD_wSize n vec).1 ∧ n ≤ (Gen.lapNsD_wSize n vec).2 ∧
      (vec = true → n * n ≤ Gen.lapNsD_vrSize n vec) ∧
      Gen.lapNsD_jobvl = ('n', 'n') ∧ Gen.lapNsD_jobvr = ('v', 'n')) := by
  refine ⟨⟨?_, ?_, ?_, ?_, ?_⟩, ?_, ?_, ?_, ?_, ?_, ?_, ?_, ?_⟩
  · simp only [Gen.lapNsF_lwork]; omega
  · simp only [Gen.lapNsF_lwork, Gen.lapNsF_workSize]; omega
  · simp only [Gen.lapNsF_wSize]; omega
  · simp only [Gen.lapNsF_wSize]; omega
  · decide
  · cases vec <;> simp only [Gen.lapNsD_lwork] <;> simp <;> omega
  · cases vec <;> simp only [Gen.lapNsD_lwork, Gen.lapNsD_workSize] <;> simp
  · simp only [Gen.lapNsD_matSize]; exact Nat.le_refl _
  · simp only [Gen.lapNsD_wSize]; omega
  · simp only [Gen.lapNsD_wSize]; omega
  · intro h; subst h; simp only [Gen.lapNsD_vrSize]; simp
  · decide
  · decide

/-- the two entry points that return eigenvectors run the eigenvector job -/
theorem entry_jobs_ok : Gen.entryJobs.2.1 = true ∧ Gen.entryJobs.2.2.2 = true := by decide

end DV.C08
