import DuneVerif.Model.C08T
/-!
# C08 — the table-driven definitions of `Model/C08T.lean` coincide with the hand-written control flow of `Model/C08.lean`

Core Lean, generic scalar type: the statements hold for the Float, Rat and ℝ instances alike.  They are re-checked
against the tables the translator extracts from the current source on every run; a change of an index, of the update of
the running maximum, of the swap network or of a LAPACK job/size breaks them.
-/
namespace DV.C08

section
variable {K : Type} [Add K] [Sub K] [Mul K] [Div K] [Neg K] [NatCast K] [LT K] [LE K]
  [DecidableLT K] [DecidableLE K]

theorem eig0T_eq (sqrt : K → K) (A : M3 K) (ev : K) : eig0T sqrt A ev = eig0 sqrt A ev := by
  rfl

theorem orthoCompT_eq (sqrt : K → K) (e : V3 K) : orthoCompT sqrt e = orthoComp sqrt e := by
  rfl

theorem eig1CoeffsT_eq (sqrt : K → K) (m00 m01 m11 : K) : eig1CoeffsT sqrt m00 m01 m11 = eig1Coeffs sqrt m00 m01 m11 := by
  rfl

theorem eig1T_eq (sqrt : K → K) (A : M3 K) (e0 : V3 K) (ev1 : K) : eig1T sqrt A e0 ev1 = eig1 sqrt A e0 ev1 := by
  rfl

theorem trigVectorsT_eq (sqrt : K → K) (S : M3 K) (l : K × K × K) (r : K) :
    trigVectorsT sqrt S l r = trigVectors sqrt S l r := by
  unfold trigVectorsT trigVectors
  split <;> rfl

theorem eigenValuesVectors3dT_eq (sqrt acos cos : K → K) (pi eps : K) (A : M3 K) :
    eigenValuesVectors3dT sqrt acos cos pi eps A = eigenValuesVectors3d sqrt acos cos pi eps A := by
  unfold eigenValuesVectors3dT eigenValuesVectors3d
  simp only [trigVectorsT_eq]

end

/-- the diagonal special case in the source is the network the hand-written model implements: start from the diagonal
entries and the coordinate vectors; compare (0,1), (1,2), (0,1); each step swaps the compared values and the vectors
with the same indices -/
theorem ev3_diag_tables :
    Gen.ev3_diagInit = [(0, 0), (1, 1), (2, 2)] ∧ Gen.ev3_diagVecs = [[1, 0, 0], [0, 1, 0], [0, 0, 1]] ∧
    Gen.ev3_diagSwaps = [(0, 1, 0, 1, 0, 1), (1, 2, 1, 2, 1, 2), (0, 1, 0, 1, 0, 1)] := by decide

/-! ## LAPACK call sites -/

theorem lapackSeesSymT_eq {K : Type} (n : Nat) (A : Nat → Nat → K) : lapackSeesSymT n A = lapackSeesSym n A := by
  unfold lapackSeesSymT lapackSeesSym triCompletion packT
  simp [Gen.lapSym_uplo, Gen.lapSym_packTransposed]

theorem lapackSeesNonSymFT_eq {K : Type} (n : Nat) (A : Nat → Nat → K) : lapackSeesNonSymFT n A = lapackSeesNonSymF n A := by
  unfold lapackSeesNonSymFT lapackSeesNonSymF packT
  simp [Gen.lapNsF_packTransposed]

theorem lapackSeesNonSymDT_eq {K : Type} (n : Nat) (A : Nat → Nat → K) : lapackSeesNonSymDT n A = lapackSeesNonSymD n A := by
  unfold lapackSeesNonSymDT lapackSeesNonSymD packT
  simp [Gen.lapNsD_packTransposed]

theorem copyBackSymT_eq {K : Type} (n : Nat) (Z : Nat → Nat → K) : copyBackSymT n Z = copyBack n Z := by
  unfold copyBackSymT
  simp [Gen.lapSym_copyBackTransposed]

/-- ?syev (LAPACK interface: `LWORK >= max(1, 3N-1)`, `A` of `LDA*N`, `WORK` of `LWORK` entries): for every order the
announced `lwork` satisfies the requirement, the work array really has `lwork` entries and the matrix array `n*n`;
the job character is 'v' exactly when eigenvectors are computed, and `uplo` names a triangle. -/
theorem lapack_sym_call_ok (n : Nat) :
    max 1 (3 * n - 1) ≤ max 1 (Gen.lapSym_lwork n) ∧ (1 ≤ n → max 1 (3 * n - 1) ≤ Gen.lapSym_lwork n) ∧
    Gen.lapSym_lwork n ≤ Gen.lapSym_workSize n ∧ n * n ≤ Gen.lapSym_matSize n ∧
    Gen.lapSym_jobz = ('n', 'v') ∧ (Gen.lapSym_uplo = 'u' ∨ Gen.lapSym_uplo = 'l') := by
  refine ⟨?_, ?_, ?_, ?_, ?_, ?_⟩
  · simp only [Gen.lapSym_lwork]; omega
  · intro h; simp only [Gen.lapSym_lwork]; omega
  · simp only [Gen.lapSym_lwork, Gen.lapSym_workSize]; omega
  · simp only [Gen.lapSym_matSize]; exact Nat.le_refl _
  · decide
  · decide

/-- ?geev (`LWORK >= max(1, 3N)`, and `>= 4N` if eigenvectors are wanted; `WR`, `WI` of `N`, `VR` of `LDVR*N` entries when
`JOBVR = 'V'`): both call sites, every order, with and without eigenvectors.  The dynamic routine asks for right
eigenvectors exactly when the caller passed a list, never for left ones; the fixed-size routine for none. -/
theorem lapack_nonsym_call_ok (n : Nat) (hn : 1 ≤ n) (vec : Bool) :
    (max 1 (3 * n) ≤ Gen.lapNsF_lwork n ∧ Gen.lapNsF_lwork n ≤ Gen.lapNsF_workSize n ∧
      n ≤ (Gen.lapNsF_wSize n).1 ∧ n ≤ (Gen.lapNsF_wSize n).2 ∧ Gen.lapNsF_jobs = ('n', 'n')) ∧
    ((if vec then 4 * n else max 1 (3 * n)) ≤ Gen.lapNsD_lwork n vec ∧ Gen.lapNsD_lwork n vec ≤ Gen.lapNsD_workSize n vec ∧
      n * n ≤ Gen.lapNsD_matSize n vec ∧ n ≤ (Gen.lapNsD_wSize n vec).1 ∧ n ≤ (Gen.lapNsD_wSize n vec).2 ∧
      (vec = true → n * n ≤ Gen.lapNsD_vrSize n vec) ∧
      Gen.lapNsD_jobvl = ('n', 'n') ∧ Gen.lapNsD_jobvr = ('v', 'n')) := by
  refine ⟨⟨?_, ?_, ?_, ?_, ?_⟩, ?_, ?_, ?_, ?_, ?_, ?_, ?_, ?_⟩
  · simp only [Gen.lapNsF_lwork]; omega
  · simp only [Gen.lapNsF_lwork, Gen.lapNsF_workSize]; omega
  · simp only [Gen.lapNsF_wSize]; omega
  · simp only [Gen.lapNsF_wSize]; omega
  · decide
  · cases vec <;> simp only [Gen.lapNsD_lwork] <;> simp <;> omega
  · cases vec <;> simp only [Gen.lapNsD_lwork, Gen.lapNsD_workSize] <;> simp
  · simp only [Gen.lapNsD_matSize]; exact Nat.le_refl _
  · simp only [Gen.lapNsD_wSize]; omega
  · simp only [Gen.lapNsD_wSize]; omega
  · intro h; subst h; simp only [Gen.lapNsD_vrSize]; simp
  · decide
  · decide

/-- the two entry points that return eigenvectors run the eigenvector job -/
theorem entry_jobs_ok : Gen.entryJobs.2.1 = true ∧ Gen.entryJobs.2.2.2 = true := by decide

end DV.C08
