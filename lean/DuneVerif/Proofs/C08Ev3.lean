import DuneVerif.Proofs.C08Basic
/-!
# C08 — the 3x3 path: sort, cross products in the kernel, `eig0`, trace, max-norm scaling
-/
namespace DV.C08

/-! ## sort3 -/

theorem cswap_fst (p : ℝ × ℝ) : (cswap p).1 = min p.1 p.2 := by
  unfold cswap
  split_ifs with h
  · exact (min_eq_right h.le).symm
  · exact (min_eq_left (not_lt.mp h)).symm

theorem cswap_snd (p : ℝ × ℝ) : (cswap p).2 = max p.1 p.2 := by
  unfold cswap
  split_ifs with h
  · exact (max_eq_left h.le).symm
  · exact (max_eq_right (not_lt.mp h)).symm

theorem sort3_sum (a b c : ℝ) : (sort3 a b c).1 + (sort3 a b c).2.1 + (sort3 a b c).2.2 = a + b + c := by
  unfold sort3
  simp only [cswap_fst, cswap_snd]
  have h1 := min_add_max a b
  have h2 := min_add_max (max a b) c
  have h3 := min_add_max (min a b) (min (max a b) c)
  linarith

theorem sort3_asc (a b c : ℝ) : (sort3 a b c).1 ≤ (sort3 a b c).2.1 ∧ (sort3 a b c).2.1 ≤ (sort3 a b c).2.2 := by
  unfold sort3
  simp only [cswap_fst, cswap_snd]
  refine ⟨min_le_max, max_le ?_ min_le_max⟩
  exact le_trans min_le_max (le_max_left _ _)

/-! ## order helpers -/

theorem infNorm3_eq (A : M3 ℝ) :
    infNorm3 A = max (|A.a20| + |A.a21| + |A.a22|)
      (max (|A.a10| + |A.a11| + |A.a12|) (max (|A.a00| + |A.a01| + |A.a02|) 0)) := by
  unfold infNorm3 zero
  simp only [Nat.cast_zero, zero_add, absK_eq, maxK_eq]

theorem infNorm3_nonneg (A : M3 ℝ) : 0 ≤ infNorm3 A := by
  rw [infNorm3_eq]
  exact le_max_of_le_right (le_max_of_le_right (le_max_right _ _))

theorem infNorm3_smul (s : ℝ) (hs : 0 < s) (A : M3 ℝ) : infNorm3 (smul3 s A) = s * infNorm3 A := by
  rw [infNorm3_eq, infNorm3_eq]
  simp only [smul3, abs_mul, abs_of_pos hs]
  rw [← mul_add, ← mul_add, ← mul_add, ← mul_add, ← mul_add, ← mul_add, mul_max_of_nonneg _ _ hs.le,
    mul_max_of_nonneg _ _ hs.le, mul_max_of_nonneg _ _ hs.le, mul_zero]

/-- a matrix of max-norm zero has only zero entries -/
theorem entries_zero_of_infNorm3 (A : M3 ℝ) (h : infNorm3 A = 0) :
    A = ⟨0, 0, 0, 0, 0, 0, 0, 0, 0⟩ := by
  rw [infNorm3_eq] at h
  have h2 : |A.a20| + |A.a21| + |A.a22| ≤ 0 := h ▸ le_max_left _ _
  have h1 : |A.a10| + |A.a11| + |A.a12| ≤ 0 := h ▸ le_trans (le_max_left _ _) (le_max_right _ _)
  have h0 : |A.a00| + |A.a01| + |A.a02| ≤ 0 :=
    h ▸ le_trans (le_trans (le_max_left _ _) (le_max_right _ _)) (le_max_right _ _)
  have z : ∀ x y z : ℝ, |x| + |y| + |z| ≤ 0 → x = 0 ∧ y = 0 ∧ z = 0 := by
    intro x y z hxyz
    have hx := abs_nonneg x
    have hy := abs_nonneg y
    have hz := abs_nonneg z
    exact ⟨abs_eq_zero.mp (by linarith), abs_eq_zero.mp (by linarith), abs_eq_zero.mp (by linarith)⟩
  obtain ⟨a0, a1, a2⟩ := z _ _ _ h0
  obtain ⟨b0, b1, b2⟩ := z _ _ _ h1
  obtain ⟨c0, c1, c2⟩ := z _ _ _ h2
  cases A
  simp only at a0 a1 a2 b0 b1 b2 c0 c1 c2
  simp only [M3.mk.injEq]
  exact ⟨a0, a1, a2, b0, b1, b2, c0, c1, c2⟩

theorem maxAbsElement_pos (A : M3 ℝ) : 0 < maxAbsElement A := by
  unfold maxAbsElement zero one
  simp only [Nat.cast_zero, Nat.cast_one]
  split_ifs with h
  · exact h
  · exact one_pos

theorem maxAbsElement_smul (s : ℝ) (hs : 0 < s) (A : M3 ℝ) (hA : 0 < infNorm3 A) :
    maxAbsElement (smul3 s A) = s * maxAbsElement A := by
  unfold maxAbsElement zero
  simp only [Nat.cast_zero]
  rw [infNorm3_smul s hs, if_pos hA, if_pos (mul_pos hs hA)]

theorem sdiv3_smul (s m : ℝ) (hs : s ≠ 0) (A : M3 ℝ) : sdiv3 (smul3 s A) (s * m) = sdiv3 A m := by
  unfold sdiv3 smul3
  simp only [mul_div_mul_left _ _ hs]

theorem norm2_3_eq (v : V3 ℝ) : norm2_3 v = v.x * v.x + v.y * v.y + v.z * v.z := by
  unfold norm2_3 zero
  simp only [Nat.cast_zero, zero_add]

theorem norm2_3_nonneg (v : V3 ℝ) : 0 ≤ norm2_3 v := by
  rw [norm2_3_eq]
  nlinarith [mul_self_nonneg v.x, mul_self_nonneg v.y, mul_self_nonneg v.z]

/-- the determinant in the operation order of `DenseMatrix::determinant` (translated) is the determinant -/
theorem det3m_eq (A : M3 ℝ) : det3m A = det3 A := by
  unfold det3m Gen.det3 det3
  ring

/-! ## cross products of rows lie in the kernel of a singular matrix -/

theorem cross_eq (u v : V3 ℝ) :
    cross u v = ⟨u.y * v.z - u.z * v.y, u.z * v.x - u.x * v.z, u.x * v.y - u.y * v.x⟩ := by
  unfold cross Gen.cross
  first
  | rfl
  | (simp only [V3.mk.injEq]; exact ⟨by ring, by ring, by ring⟩)

theorem mulVec3_cross01 (S : M3 ℝ) :
    mulVec3 S (cross (row0 S) (row1 S)) = ⟨0, 0, det3 S⟩ := by
  rw [cross_eq]
  unfold mulVec3 dot3 det3 row0 row1
  simp only [V3.mk.injEq]
  refine ⟨by ring, by ring, by ring⟩

theorem mulVec3_cross02 (S : M3 ℝ) :
    mulVec3 S (cross (row0 S) (row2 S)) = ⟨0, -det3 S, 0⟩ := by
  rw [cross_eq]
  unfold mulVec3 dot3 det3 row0 row2
  simp only [V3.mk.injEq]
  refine ⟨by ring, by ring, by ring⟩

theorem mulVec3_cross12 (S : M3 ℝ) :
    mulVec3 S (cross (row1 S) (row2 S)) = ⟨det3 S, 0, 0⟩ := by
  rw [cross_eq]
  unfold mulVec3 dot3 det3 row1 row2
  simp only [V3.mk.injEq]
  refine ⟨by ring, by ring, by ring⟩

noncomputable def sdivV3 (v : V3 ℝ) (d : ℝ) : V3 ℝ := ⟨v.x / d, v.y / d, v.z / d⟩

theorem mulVec3_sdiv (S : M3 ℝ) (c : V3 ℝ) (d : ℝ) (h : mulVec3 S c = ⟨0, 0, 0⟩) :
    mulVec3 S (sdivV3 c d) = ⟨0, 0, 0⟩ := by
  unfold mulVec3 dot3 at h
  simp only [V3.mk.injEq] at h
  obtain ⟨h0, h1, h2⟩ := h
  unfold mulVec3 dot3 sdivV3
  simp only [V3.mk.injEq]
  refine ⟨?_, ?_, ?_⟩
  · linear_combination (1 / d) * h0
  · linear_combination (1 / d) * h1
  · linear_combination (1 / d) * h2

theorem sdivV3_unit (c : V3 ℝ) (h : 0 < norm2_3 c) : norm2_3 (sdivV3 c (Real.sqrt (norm2_3 c))) = 1 := by
  have hs : Real.sqrt (norm2_3 c) ≠ 0 := (Real.sqrt_pos.mpr h).ne'
  have hn : Real.sqrt (norm2_3 c) * Real.sqrt (norm2_3 c) = c.x * c.x + c.y * c.y + c.z * c.z := by
    rw [← norm2_3_eq]; exact Real.mul_self_sqrt h.le
  rw [norm2_3_eq]
  show c.x / Real.sqrt (norm2_3 c) * (c.x / Real.sqrt (norm2_3 c))
      + c.y / Real.sqrt (norm2_3 c) * (c.y / Real.sqrt (norm2_3 c))
      + c.z / Real.sqrt (norm2_3 c) * (c.z / Real.sqrt (norm2_3 c)) = 1
  rw [div_mul_div_comm, div_mul_div_comm, div_mul_div_comm, ← add_div, ← add_div, ← hn]
  exact div_self (mul_ne_zero hs hs)

theorem eig0_select (c01 c02 c12 : V3 ℝ) (d0 d1 d2 : ℝ) :
    (let sel : ℝ × Nat := if d0 < d1 then (d1, 1) else (d0, 0)
     let imax : Nat := if sel.1 < d2 then 2 else sel.2
     if imax = 0 then sdivV3 c01 d0 else if imax = 1 then sdivV3 c02 d1 else sdivV3 c12 d2)
      = if d0 < d1 then (if d1 < d2 then sdivV3 c12 d2 else sdivV3 c02 d1)
        else (if d0 < d2 then sdivV3 c12 d2 else sdivV3 c01 d0) := by
  by_cases h1 : d0 < d1 <;> by_cases h2 : d1 < d2 <;> by_cases h3 : d0 < d2 <;> simp [h1, h2, h3]

/-- `eig0` written with the row/cross vocabulary -/
theorem eig0_unfold (A : M3 ℝ) (ev : ℝ) :
    eig0 Real.sqrt A ev =
      (let S := shift3 A ev
       let c01 := cross (row0 S) (row1 S)
       let c02 := cross (row0 S) (row2 S)
       let c12 := cross (row1 S) (row2 S)
       let d0 := Real.sqrt (norm2_3 c01)
       let d1 := Real.sqrt (norm2_3 c02)
       let d2 := Real.sqrt (norm2_3 c12)
       if d0 < d1 then (if d1 < d2 then sdivV3 c12 d2 else sdivV3 c02 d1)
       else (if d0 < d2 then sdivV3 c12 d2 else sdivV3 c01 d0)) := by
  unfold eig0
  exact eig0_select _ _ _ _ _ _

/-- `eig0` returns a unit vector in the kernel of `A - ev I` whenever that matrix is singular and has two
linearly independent rows (some cross product of two rows is non-zero). -/
theorem eig0_correct (A : M3 ℝ) (ev : ℝ) (hdet : det3 (shift3 A ev) = 0)
    (hrank : 0 < norm2_3 (cross (row0 (shift3 A ev)) (row1 (shift3 A ev)))
      ∨ 0 < norm2_3 (cross (row0 (shift3 A ev)) (row2 (shift3 A ev)))
      ∨ 0 < norm2_3 (cross (row1 (shift3 A ev)) (row2 (shift3 A ev)))) :
    mulVec3 (shift3 A ev) (eig0 Real.sqrt A ev) = ⟨0, 0, 0⟩ ∧ norm2_3 (eig0 Real.sqrt A ev) = 1 := by
  rw [eig0_unfold]
  have k01 := mulVec3_cross01 (shift3 A ev)
  have k02 := mulVec3_cross02 (shift3 A ev)
  have k12 := mulVec3_cross12 (shift3 A ev)
  rw [hdet] at k01 k02 k12
  rw [neg_zero] at k02
  have n01 := norm2_3_nonneg (cross (row0 (shift3 A ev)) (row1 (shift3 A ev)))
  have n02 := norm2_3_nonneg (cross (row0 (shift3 A ev)) (row2 (shift3 A ev)))
  have n12 := norm2_3_nonneg (cross (row1 (shift3 A ev)) (row2 (shift3 A ev)))
  -- positivity of the selected length: the selected d is the maximum of the three
  have key : ∀ c : V3 ℝ, mulVec3 (shift3 A ev) c = ⟨0, 0, 0⟩ → 0 < Real.sqrt (norm2_3 c) →
      mulVec3 (shift3 A ev) (sdivV3 c (Real.sqrt (norm2_3 c))) = ⟨0, 0, 0⟩ ∧
        norm2_3 (sdivV3 c (Real.sqrt (norm2_3 c))) = 1 := by
    intro c hc hpos
    exact ⟨mulVec3_sdiv _ c _ hc, sdivV3_unit c (Real.sqrt_pos.mp hpos)⟩
  have p01 := Real.sqrt_nonneg (norm2_3 (cross (row0 (shift3 A ev)) (row1 (shift3 A ev))))
  have p02 := Real.sqrt_nonneg (norm2_3 (cross (row0 (shift3 A ev)) (row2 (shift3 A ev))))
  have p12 := Real.sqrt_nonneg (norm2_3 (cross (row1 (shift3 A ev)) (row2 (shift3 A ev))))
  have hpos : 0 < Real.sqrt (norm2_3 (cross (row0 (shift3 A ev)) (row1 (shift3 A ev))))
      ∨ 0 < Real.sqrt (norm2_3 (cross (row0 (shift3 A ev)) (row2 (shift3 A ev))))
      ∨ 0 < Real.sqrt (norm2_3 (cross (row1 (shift3 A ev)) (row2 (shift3 A ev)))) := by
    rcases hrank with h | h | h
    · exact Or.inl (Real.sqrt_pos.mpr h)
    · exact Or.inr (Or.inl (Real.sqrt_pos.mpr h))
    · exact Or.inr (Or.inr (Real.sqrt_pos.mpr h))
  simp only
  split_ifs with h1 h2 h3
  · exact key _ k12 (by rcases hpos with h | h | h <;> linarith)
  · exact key _ k02 (by rcases hpos with h | h | h <;> linarith)
  · exact key _ k12 (by rcases hpos with h | h | h <;> linarith)
  · exact key _ k01 (by rcases hpos with h | h | h <;> linarith)

/-! ## trace, order and scaling of the 3x3 eigenvalues -/

theorem gen_q3 (a b c : ℝ) : Gen.ev3_q a b c = (a + b + c) / 3 := by
  unfold Gen.ev3_q
  push_cast
  ring

theorem impl_sum (sqrt acos cos : ℝ → ℝ) (pi eps : ℝ) (S : M3 ℝ) :
    let l := (eigenValues3dImpl sqrt acos cos pi eps S).1
    l.1 + l.2.1 + l.2.2 = S.a00 + S.a11 + S.a22 := by
  unfold eigenValues3dImpl
  simp only
  split_ifs with h h2
  · exact sort3_sum _ _ _
  · rw [sort3_sum, gen_q3]
    unfold Gen.ev3_lam1
    push_cast
    ring
  · exact absurd rfl h2

theorem impl_asc (sqrt acos cos : ℝ → ℝ) (pi eps : ℝ) (S : M3 ℝ) :
    let l := (eigenValues3dImpl sqrt acos cos pi eps S).1
    l.1 ≤ l.2.1 ∧ l.2.1 ≤ l.2.2 := by
  unfold eigenValues3dImpl
  simp only
  split_ifs with h h2
  · exact sort3_asc _ _ _
  · exact sort3_asc _ _ _
  · exact absurd rfl h2

/-! ## max-norm scaling makes the 3x3 path scale equivariant -/

def zeroM3 : M3 ℝ := ⟨0, 0, 0, 0, 0, 0, 0, 0, 0⟩

theorem smul3_zeroM3 (s : ℝ) : smul3 s zeroM3 = zeroM3 := by
  unfold smul3 zeroM3
  simp only [mul_zero]

theorem infNorm3_zeroM3 : infNorm3 zeroM3 = 0 := by
  rw [infNorm3_eq]
  simp [zeroM3]

theorem maxAbsElement_zeroM3 : maxAbsElement zeroM3 = 1 := by
  unfold maxAbsElement
  rw [infNorm3_zeroM3]
  simp [zero, one]

theorem sdiv3_zeroM3 (m : ℝ) : sdiv3 zeroM3 m = zeroM3 := by
  unfold sdiv3 zeroM3
  simp only [zero_div]

theorem sort3_zero : sort3 (0 : ℝ) 0 0 = (0, 0, 0) := by
  unfold sort3 cswap
  simp

theorem impl_zeroM3 (sqrt acos cos : ℝ → ℝ) (pi eps : ℝ) (he : 0 ≤ eps) :
    (eigenValues3dImpl sqrt acos cos pi eps zeroM3).1 = (0, 0, 0) := by
  unfold eigenValues3dImpl
  have h : Gen.ev3_p1 zeroM3.a00 zeroM3.a01 zeroM3.a02 zeroM3.a10 zeroM3.a11 zeroM3.a12 zeroM3.a20 zeroM3.a21 zeroM3.a22
      ≤ (Gen.ev3_diagThreshold eps : ℝ) := by
    unfold Gen.ev3_p1 Gen.ev3_diagThreshold zeroM3
    simpa using he
  simp only [h, if_true]
  exact sort3_zero

theorem eigenValues3d_zeroM3 (sqrt acos cos : ℝ → ℝ) (pi eps : ℝ) (he : 0 ≤ eps) :
    eigenValues3d sqrt acos cos pi eps zeroM3 = (0, 0, 0) := by
  unfold eigenValues3d
  simp only [maxAbsElement_zeroM3, sdiv3_zeroM3, impl_zeroM3 sqrt acos cos pi eps he, zero_mul]

theorem eigenValues3d_smul (sqrt acos cos : ℝ → ℝ) (pi eps s : ℝ) (hs : 0 < s) (A : M3 ℝ) (hA : 0 < infNorm3 A) :
    eigenValues3d sqrt acos cos pi eps (smul3 s A) =
      (s * (eigenValues3d sqrt acos cos pi eps A).1, s * (eigenValues3d sqrt acos cos pi eps A).2.1,
        s * (eigenValues3d sqrt acos cos pi eps A).2.2) := by
  unfold eigenValues3d
  simp only [maxAbsElement_smul s hs A hA, sdiv3_smul s _ hs.ne']
  refine Prod.ext (by ring) (Prod.ext (by ring) (by ring))

theorem eigenValuesVectors3d_smul (sqrt acos cos : ℝ → ℝ) (pi eps s : ℝ) (hs : 0 < s) (A : M3 ℝ)
    (hA : 0 < infNorm3 A) :
    eigenValuesVectors3d sqrt acos cos pi eps (smul3 s A) =
      ((s * (eigenValuesVectors3d sqrt acos cos pi eps A).1.1, s * (eigenValuesVectors3d sqrt acos cos pi eps A).1.2.1,
        s * (eigenValuesVectors3d sqrt acos cos pi eps A).1.2.2), (eigenValuesVectors3d sqrt acos cos pi eps A).2) := by
  unfold eigenValuesVectors3d
  simp only [maxAbsElement_smul s hs A hA, sdiv3_smul s _ hs.ne']
  split_ifs with h
  · refine Prod.ext (Prod.ext ?_ (Prod.ext ?_ ?_)) rfl <;> simp only <;> ring
  · refine Prod.ext (Prod.ext ?_ (Prod.ext ?_ ?_)) rfl <;> simp only <;> ring

theorem diagBranchVec_zeroM3 (eps : ℝ) (he : 0 ≤ eps) : diagBranchVec eps zeroM3 = true := by
  unfold diagBranchVec
  rw [decide_eq_true_eq, norm2_3_eq]
  unfold Gen.ev3_vecThreshold zeroM3
  simpa using he

theorem eigenValuesVectors3d_zeroM3 (sqrt acos cos : ℝ → ℝ) (pi eps : ℝ) (he : 0 ≤ eps) :
    (eigenValuesVectors3d sqrt acos cos pi eps zeroM3).1 = (0, 0, 0) := by
  unfold eigenValuesVectors3d
  simp only [maxAbsElement_zeroM3, sdiv3_zeroM3, diagBranchVec_zeroM3 eps he, if_true]
  simp [swapIf, zeroM3]


end DV.C08
