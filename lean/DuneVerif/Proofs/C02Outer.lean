import DuneVerif.Proofs.C02Step
import Mathlib.LinearAlgebra.Matrix.Block
/-! C02: the outer loop of `luDecomposition`: the invariant `L·W = P·A₀` and what a failed singularity test means. -/
namespace DV.C02
open Matrix
set_option linter.unusedSectionVars false

variable {n : Nat} {K : Type} [Field K]

/-- the model matrix as a Mathlib matrix -/
def toMatrix (A : Mat n K) : Matrix (Fin n) (Fin n) K := Matrix.of A.f

@[simp] theorem toMatrix_apply (A : Mat n K) (r c : Fin n) : toMatrix A r c = A.f r c := rfl

/-- invariant of the matrix after `m` outer steps: `L·W = P·A₀` (rows of `A₀` permuted by `σ`) and the
pivots found so far are nonzero -/
structure AInv (A₀ : Mat n K) (m : Nat) (A : Mat n K) (σ : Equiv.Perm (Fin n)) : Prop where
  fact : Lview m A * Wview m A = (toMatrix A₀).submatrix σ id
  diag : ∀ j : Fin n, j.1 < m → A.f j j ≠ 0

theorem Lview_zero (A : Mat n K) : Lview 0 A = 1 := by
  ext r c; simp [Lview, Matrix.one_apply]

theorem Wview_zero (A : Mat n K) : Wview 0 A = toMatrix A := by
  ext r c; simp [Wview]

theorem AInv_zero (A₀ : Mat n K) : AInv A₀ 0 A₀ 1 := by
  constructor
  · rw [Lview_zero, Wview_zero, Matrix.one_mul]; ext r c; simp
  · intro j hj; omega

theorem mul_apply_col (L W : Matrix (Fin n) (Fin n) K) (r c : Fin n) :
    (L * W) r c = (L *ᵥ fun k => W k c) r := by
  simp [Matrix.mul_apply, mulVec, dotProduct]

theorem fact_swap {A₀ A : Mat n K} {σ : Equiv.Perm (Fin n)} {i p : Fin n} (hip : i ≤ p)
    (h : Lview i.1 A * Wview i.1 A = (toMatrix A₀).submatrix σ id) :
    Lview i.1 (swapRows A i p) * Wview i.1 (swapRows A i p) =
      (toMatrix A₀).submatrix (σ * Equiv.swap i p) id := by
  ext r c
  rw [mul_apply_col]
  have hv : (fun k => Wview i.1 (swapRows A i p) k c) = (fun k => Wview i.1 A k c) ∘ Equiv.swap i p := by
    funext k; simp [Wview_swap A i p hip]
  rw [hv, Lview_swap_mulVec A i p hip]
  simp only [Function.comp, ← mul_apply_col, h]
  simp

theorem fact_elim {B : Mat n K} {M : Matrix (Fin n) (Fin n) K} {i : Fin n} (hne : B.f i i ≠ 0)
    (h : Lview i.1 B * Wview i.1 B = M) :
    Lview (i.1 + 1) (elimAll B i) * Wview (i.1 + 1) (elimAll B i) = M := by
  ext r c
  rw [mul_apply_col]
  have hv : (fun k => Wview (i.1 + 1) (elimAll B i) k c) =
      fun k => (fun k => Wview i.1 B k c) k - gfac B i k * (fun k => Wview i.1 B k c) i := by
    funext k; simp [Wview_elim B i hne]
  rw [hv, Lview_elim_mulVec, ← mul_apply_col, h]

/-- one successful outer step keeps the invariant -/
theorem AInv_step {A₀ A : Mat n K} {σ : Equiv.Perm (Fin n)} {i p : Fin n} (hip : i ≤ p)
    (h : AInv A₀ i.1 A σ) (hne : (swapRows A i p).f i i ≠ 0) :
    AInv A₀ (i.1 + 1) (elimAll (swapRows A i p) i) (σ * Equiv.swap i p) := by
  constructor
  · exact fact_elim hne (fact_swap hip h.fact)
  · intro j hj
    rw [elimAll_f]
    have hij : ¬ (i < j) := by simp only [Fin.lt_def]; omega
    simp only [hij, if_false]
    by_cases hji : j = i
    · subst hji; exact hne
    · have hjlt : j.1 < i.1 := by
        have : j.1 ≠ i.1 := fun h => hji (Fin.ext h)
        omega
      have hjp : j ≠ p := fun h => by subst h; simp only [Fin.le_def] at hip; omega
      rw [swapRows_f, Equiv.swap_apply_of_ne_of_ne hji hjp]
      exact h.diag j hjlt

theorem det_Lview (m : Nat) (A : Mat n K) : (Lview m A).det = 1 := by
  rw [det_of_isLowerTriangular]
  · apply Finset.prod_eq_one
    intro j _
    simp [Lview]
  · intro r c hrc
    have hlt : r < c := by simpa using hrc
    have h1 : ¬ (c < r) := not_lt.mpr (le_of_lt hlt)
    have h2 : r ≠ c := ne_of_lt hlt
    simp [Lview, h1, h2]

theorem det_Wview_full (A : Mat n K) : (Wview n A).det = ∏ j, A.f j j := by
  rw [det_of_isUpperTriangular]
  · apply Finset.prod_congr rfl
    intro j _
    simp [Wview]
  · intro r c hrc
    have hlt : c < r := by simpa using hrc
    simp [Wview, hlt]

/-- a zero pivot column (from the diagonal down) makes the matrix under reduction singular -/
theorem det_Wview_fail (B : Mat n K) (i : Fin n) (hcol : ∀ r, i ≤ r → B.f r i = 0) :
    (Wview i.1 B).det = 0 := by
  rw [twoBlockTriangular_det (Wview i.1 B) (fun j : Fin n => j.1 < i.1)]
  · have : (toSquareBlockProp (Wview i.1 B) fun j : Fin n => ¬ j.1 < i.1).det = 0 := by
      apply det_eq_zero_of_column_eq_zero ⟨i, lt_irrefl _⟩
      intro r
      have hr : i ≤ r.1 := by
        have := r.2
        simp only [Fin.le_def]; omega
      simp [toSquareBlockProp, Wview, hcol r.1 hr]
    rw [this, mul_zero]
  · intro r hr c hc
    have : c < r := by simp only [Fin.lt_def]; omega
    simp [Wview, hc, this]

/-- the invariant at a successful end: `det A₀ = sign σ · ∏ diag ≠ 0` -/
theorem AInv_det {A₀ A : Mat n K} {σ : Equiv.Perm (Fin n)} (h : AInv A₀ n A σ) :
    (toMatrix A₀).det = (Equiv.Perm.sign σ : ℤ) * ∏ j, A.f j j := by
  have h1 := congrArg Matrix.det h.fact
  rw [Matrix.det_mul, det_Lview, det_Wview_full, one_mul, det_permute] at h1
  have hs : ((Equiv.Perm.sign σ : ℤ) : K) * ((Equiv.Perm.sign σ : ℤ) : K) = 1 := by
    rw [← Int.cast_mul, ← Units.val_mul]
    simp
  calc (toMatrix A₀).det = ((Equiv.Perm.sign σ : ℤ) : K) * (((Equiv.Perm.sign σ : ℤ) : K) * (toMatrix A₀).det) := by
        rw [← mul_assoc, hs, one_mul]
    _ = _ := by rw [← h1]

theorem AInv_det_ne_zero {A₀ A : Mat n K} {σ : Equiv.Perm (Fin n)} (h : AInv A₀ n A σ) :
    (toMatrix A₀).det ≠ 0 := by
  rw [AInv_det h]
  apply mul_ne_zero
  · have : ((Equiv.Perm.sign σ : ℤ) : K) * ((Equiv.Perm.sign σ : ℤ) : K) = 1 := by
      rw [← Int.cast_mul, ← Units.val_mul]; simp
    intro h0; rw [h0, zero_mul] at this; exact zero_ne_one this
  · exact Finset.prod_ne_zero_iff.mpr fun j _ => h.diag j j.2

/-- a failed singularity test with a zero column from the diagonal down means `det A₀ = 0` -/
theorem det_zero_of_fail {A₀ B : Mat n K} {τ : Equiv.Perm (Fin n)} {i : Fin n}
    (hf : Lview i.1 B * Wview i.1 B = (toMatrix A₀).submatrix τ id)
    (hcol : ∀ r, i ≤ r → B.f r i = 0) : (toMatrix A₀).det = 0 := by
  have h1 := congrArg Matrix.det hf
  rw [Matrix.det_mul, det_Lview, det_Wview_fail B i hcol, one_mul, det_permute] at h1
  have hs : ((Equiv.Perm.sign τ : ℤ) : K) ≠ 0 := by
    have : ((Equiv.Perm.sign τ : ℤ) : K) * ((Equiv.Perm.sign τ : ℤ) : K) = 1 := by
      rw [← Int.cast_mul, ← Units.val_mul]; simp
    intro h0; rw [h0, zero_mul] at this; exact zero_ne_one this
  exact (mul_eq_zero.mp h1.symm).resolve_left hs

end DV.C02
