/-
C10 helper lemmas, part 8: construction from built-ins, `touint`, `todouble`, `print`/parse, hashing.
-/
import DuneVerif.Proofs.C10Basic
import Mathlib.Tactic.Ring

namespace DV.C10
open DV.C10.Gen

/-! ### assign / constructors -/

theorem assignLoop_eq_ofNat : ∀ (no x : Nat), assignLoop no x = ofNat no x
  | 0, _ => rfl
  | no + 1, x => by
    simp only [assignLoop, ofNat, and_bitmask, shr_bits]
    rw [assignLoop_eq_ofNat no]

theorem assign_wf' (n x : Nat) : Wf n (assign n x) := by
  have h := ofNat_wf (assignDigits n) x
  have hle : assignDigits n ≤ n := Nat.min_le_left _ _
  simp only [assign, assignLoop_eq_ofNat]
  refine ⟨?_, digs_append.2 ⟨h.2, digs_zeros _⟩⟩
  rw [List.length_append, h.1]
  simp only [zeros, List.length_replicate]; omega

theorem assign_val' (n : Nat) {x : Nat} (hx : x < 2 ^ 64) : val (assign n x) = x % W n := by
  have h := ofNat_wf (assignDigits n) x
  simp only [assign, assignLoop_eq_ofNat]
  rw [val_append, val_zeros, Nat.mul_zero, Nat.add_zero, ofNat_val]
  have hw : W (64 / bits) = 2 ^ 64 := assign_width
  simp only [assignDigits]
  by_cases hn : n ≤ 64 / bits
  · rw [Nat.min_eq_left hn]
  · have hn' : 64 / bits ≤ n := by omega
    rw [Nat.min_eq_right hn']
    have h1 : x < W (64 / bits) := by rw [hw]; exact hx
    rw [Nat.mod_eq_of_lt h1, Nat.mod_eq_of_lt (Nat.lt_of_lt_of_le h1 (W_le hn'))]

/-! ### touint -/

theorem touint_val' {n : Nat} {a : List Nat} (ha : Wf n a) (hn : 1 ≤ n) : touint a = val a % 2 ^ 32 := by
  match a, ha with
  | [], ha => have := ha.1; simp at this; omega
  | [d0], ha =>
    have h : Digs [d0] := ha.2
    simp only [digs_cons] at h
    simp only [touint, val_cons, val_nil]
    have := h.1
    rw [B_eq] at *
    omega
  | d0 :: d1 :: rest, ha =>
    have h : Digs (d0 :: d1 :: rest) := ha.2
    simp only [digs_cons] at h
    have h0 := h.1
    have h1 := h.2.1
    simp only [touint, val_cons, Nat.shiftLeft_eq, ← B_def]
    rw [B_eq] at *
    omega

/-! ### todouble -/

theorem firstInZeroRange_le : ∀ (a : List Nat), firstInZeroRange a ≤ a.length
  | [] => by simp [firstInZeroRange]
  | d :: ds => by
    have := firstInZeroRange_le ds
    simp only [firstInZeroRange, List.length_cons]
    split
    · split <;> omega
    · omega

/-- the digits from `firstInZeroRange` upwards are zero -/
theorem val_take_firstInZeroRange : ∀ (a : List Nat), val (a.take (firstInZeroRange a)) = val a
  | [] => by simp [firstInZeroRange]
  | d :: ds => by
    have ih := val_take_firstInZeroRange ds
    simp only [firstInZeroRange]
    split
    · rename_i h0
      rw [h0] at ih
      simp only [List.take_zero, val_nil] at ih
      split
      · rename_i hd; simp [hd, ← ih]
      · simp [← ih]
    · simp only [List.take_succ_cons, val_cons, ih]

/-- the digit below `firstInZeroRange` is non-zero -/
theorem le_val_of_firstInZeroRange : ∀ (a : List Nat), 0 < firstInZeroRange a →
    W (firstInZeroRange a - 1) ≤ val a
  | [], h => by simp [firstInZeroRange] at h
  | d :: ds, h => by
    have ih := le_val_of_firstInZeroRange ds
    simp only [firstInZeroRange] at h ⊢
    split
    · rename_i h0
      rw [if_pos h0] at h
      split
      · rename_i hd; rw [if_pos hd] at h; omega
      · rename_i hd
        simp only [Nat.sub_self, W_zero, val_cons]
        omega
    · rename_i h0
      have h1 := ih (Nat.pos_of_ne_zero h0)
      have h2 : firstInZeroRange ds + 1 - 1 = (firstInZeroRange ds - 1) + 1 := by omega
      rw [h2, W_succ, val_cons]
      have := Nat.mul_le_mul_left B h1
      omega

/-- `todoubleN` is `val a` with the digits below `lastInRepresentableRange` cleared -/
theorem todouble_parts {a : List Nat} (ha : Digs a) :
    ∃ last, (todoubleParts a).1 = val a / W last ∧ (todoubleParts a).2 = bits * last ∧
      (todoubleParts a).1 < W representableDigits ∧
      (last = 0 ∨ (0 < firstInZeroRange a ∧ firstInZeroRange a - 1 = last + (representableDigits - 1))) := by
  have hf := firstInZeroRange_le a
  have hR := representableDigits_pos
  refine ⟨if representableDigits < firstInZeroRange a then firstInZeroRange a - representableDigits else 0,
    ?_, rfl, ?_, ?_⟩
  · simp only [todoubleParts]
    rw [val_drop (digs_take ha _), val_take_firstInZeroRange]
  · simp only [todoubleParts]
    have h1 := val_lt_of_digs (digs_drop (digs_take ha (firstInZeroRange a))
      (if representableDigits < firstInZeroRange a then firstInZeroRange a - representableDigits else 0))
    refine Nat.lt_of_lt_of_le h1 (W_le ?_)
    rw [List.length_drop, List.length_take]
    split <;> omega
  · split
    · right; omega
    · left; rfl

theorem todoubleN_eq {a : List Nat} (ha : Digs a) :
    ∃ last, todoubleN a = val a / W last * W last ∧
      (last = 0 ∨ W last * 2 ^ 32 ≤ val a) := by
  obtain ⟨last, h1, h2, -, h4⟩ := todouble_parts ha
  refine ⟨last, ?_, ?_⟩
  · rw [todoubleN, h1, h2, W_eq]
  · rcases h4 with h | ⟨hpos, h⟩
    · exact Or.inl h
    · right
      have := le_val_of_firstInZeroRange a hpos
      rw [h, W_add] at this
      exact Nat.le_trans (Nat.mul_le_mul_left _ representable_margin) this

theorem todouble_spec {a : List Nat} (ha : Digs a) :
    todoubleN a ≤ val a ∧ (val a - todoubleN a) * 2 ^ 32 ≤ val a ∧
    (0 < val a → (val a - todoubleN a) * 2 ^ 32 < val a) := by
  obtain ⟨last, h1, h2⟩ := todoubleN_eq ha
  have hle : val a / W last * W last ≤ val a := Nat.div_mul_le_self _ _
  have herr : val a - val a / W last * W last = val a % W last := by
    have := Nat.mod_add_div (val a) (W last)
    rw [Nat.mul_comm] at this
    omega
  rw [h1, herr]
  refine ⟨hle, ?_⟩
  rcases h2 with h | h
  · subst h
    simp only [W_zero, Nat.mod_one, Nat.zero_mul]
    exact ⟨Nat.zero_le _, fun h => h⟩
  · have hlt : val a % W last < W last := Nat.mod_lt _ (W_pos last)
    have : val a % W last * 2 ^ 32 < W last * 2 ^ 32 :=
      Nat.mul_lt_mul_of_pos_right hlt (Nat.two_pow_pos 32)
    generalize 2 ^ 32 = c at *
    exact ⟨by omega, fun _ => by omega⟩

/-! ### print and parse -/

/-- parsing hex characters, starting from an accumulator -/
def parseFrom (acc : Nat) (cs : List Char) : Option Nat :=
  cs.foldlM (fun acc c => (DV.hexDigitVal? c).map (fun d => acc * 16 + d)) acc

theorem parseHexChars_eq (cs : List Char) : parseHexChars cs = parseFrom 0 cs := rfl

theorem hexDigitVal_hexChar : ∀ v, v < 16 → DV.hexDigitVal? (DV.hexChar v) = some v := by decide

theorem parseFrom_append (acc : Nat) (l1 l2 : List Char) :
    parseFrom acc (l1 ++ l2) = (parseFrom acc l1).bind (fun v => parseFrom v l2) := by
  simp only [parseFrom, List.foldlM_append]
  rfl

theorem parseFrom_cons_hexChar (acc : Nat) {v : Nat} (hv : v < 16) (cs : List Char) :
    parseFrom acc (DV.hexChar v :: cs) = parseFrom (acc * 16 + v) cs := by
  simp only [parseFrom, List.foldlM_cons, hexDigitVal_hexChar v hv]
  rfl

theorem and_0xF (x : Nat) : x &&& 0xF = x % 16 := Nat.and_two_pow_sub_one_eq_mod x 4

theorem parseFrom_hexOfDigit (acc : Nat) {d : Nat} (hd : d < B) :
    parseFrom acc (hexOfDigit d) = some (acc * B + d) := by
  have h : hexOfDigit d = [DV.hexChar (d / 4096 % 16), DV.hexChar (d / 256 % 16), DV.hexChar (d / 16 % 16),
      DV.hexChar (d % 16)] := by
    simp [hexOfDigit, hexdigits, List.range, List.range.loop, and_0xF, Nat.shiftRight_eq_div_pow]
  rw [h]
  rw [parseFrom_cons_hexChar _ (Nat.mod_lt _ (by omega)), parseFrom_cons_hexChar _ (Nat.mod_lt _ (by omega)),
    parseFrom_cons_hexChar _ (Nat.mod_lt _ (by omega)), parseFrom_cons_hexChar _ (Nat.mod_lt _ (by omega))]
  show some _ = some _
  congr 1
  rw [B_eq] at *
  omega

theorem print_cons (d : Nat) (ds : List Nat) : print (d :: ds) = print ds ++ hexOfDigit d := by
  simp [print, List.flatMap_append]

theorem parseFrom_print : ∀ (a : List Nat) (acc : Nat), Digs a →
    parseFrom acc (print a) = some (acc * W a.length + val a)
  | [], acc, _ => by simp [print, parseFrom, W]
  | d :: ds, acc, ha => by
    rw [digs_cons] at ha
    rw [print_cons, parseFrom_append, parseFrom_print ds acc ha.2]
    show parseFrom _ (hexOfDigit d) = _
    rw [parseFrom_hexOfDigit _ ha.1, List.length_cons, W_succ, val_cons]
    congr 1
    ring

theorem print_length : ∀ (a : List Nat), (print a).length = hexdigits * a.length
  | [] => rfl
  | d :: ds => by
    rw [print_cons, List.length_append, print_length ds]
    simp [hexOfDigit, Nat.mul_add]

end DV.C10
