import DuneVerif.Proofs.C02Loops
import Mathlib.Order.Defs.LinearOrder
import Mathlib.Tactic.SplitIfs
/-! C02: closed forms of the inner loops of `luDecomposition` (pivot search, elimination loop). -/
namespace DV.C02
set_option linter.unusedSectionVars false

section Elim
variable {n : Nat} {K S : Type} [Add K] [Sub K] [Mul K] [Div K] [Neg K] [OfNat K 0] [OfNat K 1]

/-- entry `(r, c)` of the matrix after the complete elimination loop of outer step `i` -/
def elimEntry (A : Mat n K) (i r c : Fin n) : K :=
  if c = i then A.f r i / A.f i i else if i < c then A.f r c - (A.f r i / A.f i i) * A.f i c else A.f r c

/-- the matrix after the complete elimination loop of outer step `i` -/
def elimAll (A : Mat n K) (i : Fin n) : Mat n K :=
  Mat.ofFn fun r c => if i < r then elimEntry A i r c else A.f r c

theorem elimLoop_inv (F : Func n K S) (A : Mat n K) (s : S) (i : Fin n) :
    ∀ r c, (elimLoop F A s i).1.f r c = if i < r ∧ r.1 < n then elimEntry A i r c else A.f r c := by
  unfold elimLoop
  apply forUp_ind (A, s) _ (fun m st => ∀ r c, st.1.f r c = if i < r ∧ r.1 < m then elimEntry A i r c else A.f r c)
  · intro r c; simp
  · intro k st ih r c
    by_cases hik : i < k
    · simp only [hik, if_true, elimRow, Mat.ofFn_f, factor]
      have hk : ∀ c', st.1.f k c' = A.f k c' := by
        intro c'; rw [ih]; simp
      have hi : ∀ c', st.1.f i c' = A.f i c' := by
        intro c'; rw [ih]; simp
      by_cases hrk : r = k
      · subst hrk
        simp only [if_true, hk, hi, hik, true_and, Nat.lt_succ_self, elimEntry]
      · have h1 : (r.1 < k.1 + 1) ↔ r.1 < k.1 := by
          have : r.1 ≠ k.1 := fun h => hrk (Fin.ext h)
          omega
        simp only [hrk, if_false, ih, h1]
    · simp only [hik, if_false, ih]
      have h1 : (i < r ∧ r.1 < k.1 + 1) ↔ (i < r ∧ r.1 < k.1) := by
        simp only [Fin.lt_def] at *
        omega
      simp only [h1]

theorem elimLoop_fst (F : Func n K S) (A : Mat n K) (s : S) (i : Fin n) :
    (elimLoop F A s i).1 = elimAll A i := by
  apply Mat.ext
  intro r c
  rw [elimLoop_inv]
  simp [elimAll]

/-- the right-hand side after the complete elimination loop of outer step `i` (functor `Elim`) -/
theorem elimLoop_elimFunc_snd (A : Mat n K) (s : Vec n K) (i : Fin n) :
    (elimLoop elimFunc A s i).2 = Vec.ofFn fun r => if i < r then s.f r - (A.f r i / A.f i i) * s.f i else s.f r := by
  apply Vec.ext
  intro r
  simp only [Vec.ofFn_f]
  have : (∀ r, (elimLoop elimFunc A s i).2.f r =
        if i < r ∧ r.1 < n then s.f r - (A.f r i / A.f i i) * s.f i else s.f r) ∧
      ∀ r c, (elimLoop elimFunc A s i).1.f r c = if i < r ∧ r.1 < n then elimEntry A i r c else A.f r c := by
    unfold elimLoop
    apply forUp_ind (A, s) _ (fun m st =>
      (∀ r, st.2.f r = if i < r ∧ r.1 < m then s.f r - (A.f r i / A.f i i) * s.f i else s.f r) ∧
      ∀ r c, st.1.f r c = if i < r ∧ r.1 < m then elimEntry A i r c else A.f r c)
    · constructor
      · intro r; simp
      · intro r c; simp
    · intro k st ⟨ihs, ihA⟩
      by_cases hik : i < k
      · have hk : ∀ c', st.1.f k c' = A.f k c' := by
          intro c'; rw [ihA]; simp
        have hi : ∀ c', st.1.f i c' = A.f i c' := by
          intro c'; rw [ihA]; simp
        have hsk : st.2.f k = s.f k := by rw [ihs]; simp
        have hsi : st.2.f i = s.f i := by rw [ihs]; simp
        constructor
        · intro r
          simp only [hik, if_true, elimFunc, Vec.ofFn_f, factor, hk, hi]
          by_cases hrk : r = k
          · subst hrk
            simp only [if_true, hik, true_and, Nat.lt_succ_self, hsk, hsi]
          · have h1 : (r.1 < k.1 + 1) ↔ r.1 < k.1 := by
              have : r.1 ≠ k.1 := fun h => hrk (Fin.ext h)
              omega
            simp only [hrk, if_false, ihs, h1]
        · intro r c
          simp only [hik, if_true, elimRow, Mat.ofFn_f, factor]
          by_cases hrk : r = k
          · subst hrk
            simp only [if_true, hk, hi, hik, true_and, Nat.lt_succ_self, elimEntry]
          · have h1 : (r.1 < k.1 + 1) ↔ r.1 < k.1 := by
              have : r.1 ≠ k.1 := fun h => hrk (Fin.ext h)
              omega
            simp only [hrk, if_false, ihA, h1]
      · have h1 : ∀ r : Fin n, (i < r ∧ r.1 < k.1 + 1) ↔ (i < r ∧ r.1 < k.1) := by
          intro r
          simp only [Fin.lt_def] at *
          omega
        simp only [hik, if_false, ihs, ihA, h1]
        exact ⟨fun _ => trivial, fun _ _ => trivial⟩
  rw [this.1 r]
  simp

theorem elimLoop_snd_of_elim_id (F : Func n K S) (hF : ∀ s fac k i, F.elim s fac k i = s)
    (A : Mat n K) (s : S) (i : Fin n) : (elimLoop F A s i).2 = s := by
  unfold elimLoop
  apply forUp_ind (A, s) _ (fun _ st => st.2 = s)
  · rfl
  · intro k st ih
    by_cases hik : i < k
    · simp only [hik, if_true, hF, ih]
    · simp only [hik, if_false, ih]

end Elim

section Pivot
variable {n : Nat} {K Q : Type} [LinearOrder Q]

/-- the pivot search returns a row `imax ≥ i` whose column-`i` entry has the maximal absolute value among rows `≥ i` -/
theorem pivotSearch_spec (absval : K → Q) (A : Mat n K) (i : Fin n) :
    i ≤ (pivotSearch absval A i).2 ∧
    (pivotSearch absval A i).1 = absval (A.f (pivotSearch absval A i).2 i) ∧
    ∀ k, i ≤ k → absval (A.f k i) ≤ (pivotSearch absval A i).1 := by
  have : i ≤ (pivotSearch absval A i).2 ∧
      (pivotSearch absval A i).1 = absval (A.f (pivotSearch absval A i).2 i) ∧
      ∀ k : Fin n, i ≤ k → (k.1 < n ∨ k = i) → absval (A.f k i) ≤ (pivotSearch absval A i).1 := by
    unfold pivotSearch
    apply forUp_ind (absval (A.f i i), i) _ (fun m st => i ≤ st.2 ∧ st.1 = absval (A.f st.2 i) ∧
      ∀ k : Fin n, i ≤ k → (k.1 < m ∨ k = i) → absval (A.f k i) ≤ st.1)
    · refine ⟨Fin.le_refl _, rfl, ?_⟩
      intro k _ hk
      rcases hk with hk | hk
      · omega
      · subst hk; exact le_refl _
    · intro k st ⟨h1, h2, h3⟩
      by_cases hik : i < k
      · rw [if_pos hik]
        by_cases hlt : st.1 < absval (A.f k i)
        · rw [if_pos hlt]
          refine ⟨Fin.le_of_lt hik, rfl, ?_⟩
          intro k' hk' hb
          rcases hb with hb | hb
          · by_cases hkk : k' = k
            · subst hkk; exact le_refl _
            · have : k'.1 < k.1 := by
                have : k'.1 ≠ k.1 := fun h => hkk (Fin.ext h)
                omega
              exact le_trans (h3 k' hk' (Or.inl this)) (le_of_lt hlt)
          · exact le_trans (h3 k' hk' (Or.inr hb)) (le_of_lt hlt)
        · rw [if_neg hlt]
          refine ⟨h1, h2, ?_⟩
          intro k' hk' hb
          rcases hb with hb | hb
          · by_cases hkk : k' = k
            · subst hkk; exact not_lt.mp hlt
            · have : k'.1 < k.1 := by
                have : k'.1 ≠ k.1 := fun h => hkk (Fin.ext h)
                omega
              exact h3 k' hk' (Or.inl this)
          · exact h3 k' hk' (Or.inr hb)
      · rw [if_neg hik]
        refine ⟨h1, h2, ?_⟩
        intro k' hk' hb
        rcases hb with hb | hb
        · have : k' = i := by
            apply Fin.ext
            simp only [Fin.lt_def, Fin.le_def] at *
            omega
          exact h3 k' hk' (Or.inr this)
        · exact h3 k' hk' (Or.inr hb)
  exact ⟨this.1, this.2.1, fun k hk => this.2.2 k hk (Or.inl k.2)⟩

end Pivot

end DV.C02
