import DuneVerif.Model.C02
/-! C02 helper lemmas, core Lean only: extensionality of `Mat`/`Vec`, induction principles for the loops. -/
namespace DV.C02

theorem Mat.ext {n : Nat} {K : Type} {A B : Mat n K} (h : ∀ i j, A.f i j = B.f i j) : A = B := by
  obtain ⟨ra, wa⟩ := A
  obtain ⟨rb, wb⟩ := B
  have : ra = rb := by
    apply Array.ext (by rw [wa.1, wb.1])
    intro i hi hi'
    apply Array.ext (by rw [wa.2 i hi, wb.2 i hi'])
    intro j hj _
    have hi2 : i < n := by rw [← wa.1]; exact hi
    have hj2 : j < n := by rw [← wa.2 i hi]; exact hj
    exact h ⟨i, hi2⟩ ⟨j, hj2⟩
  subst this
  rfl

theorem Vec.ext {n : Nat} {K : Type} {v w : Vec n K} (h : ∀ i, v.f i = w.f i) : v = w := by
  obtain ⟨a, wa⟩ := v
  obtain ⟨b, wb⟩ := w
  have : a = b := by
    apply Array.ext (by rw [wa, wb])
    intro i hi _
    have hi2 : i < n := by rw [← wa]; exact hi
    exact h ⟨i, hi2⟩
  subst this
  rfl

@[simp] theorem Mat.ofFn_eta {n : Nat} {K : Type} (A : Mat n K) : Mat.ofFn A.f = A :=
  Mat.ext (by simp)

@[simp] theorem Vec.ofFn_eta {n : Nat} {K : Type} (v : Vec n K) : Vec.ofFn v.f = v :=
  Vec.ext (by simp)

theorem foldl_ind {α β : Type} (l : List α) (f : β → α → β) (init : β) (P : Nat → β → Prop)
    (h0 : P 0 init) (hs : ∀ (i : Nat) (h : i < l.length) (st : β), P i st → P (i + 1) (f st l[i])) :
    P l.length (l.foldl f init) := by
  induction l generalizing init P with
  | nil => simpa using h0
  | cons a t ih =>
    simp only [List.foldl_cons, List.length_cons]
    apply ih (f init a) (fun i st => P (i + 1) st)
    · exact hs 0 (by simp) init h0
    · intro i h st hp
      exact hs (i + 1) (by simpa using h) st hp

theorem foldr_ind {α β : Type} (l : List α) (f : α → β → β) (init : β) (P : Nat → β → Prop)
    (h0 : P l.length init) (hs : ∀ (i : Nat) (h : i < l.length) (st : β), P (i + 1) st → P i (f l[i] st)) :
    P 0 (l.foldr f init) := by
  induction l generalizing P with
  | nil => simpa using h0
  | cons a t ih =>
    simp only [List.foldr_cons]
    apply hs 0 (by simp)
    apply ih (fun i st => P (i + 1) st)
    · simpa using h0
    · intro i h st hp
      exact hs (i + 1) (by simpa using h) st hp

/-- induction over `for (k = 0; k < n; ++k)`: `P m st` = "`st` is the state after the passes `k < m`" -/
theorem forUp_ind {n : Nat} {β : Type} (init : β) (body : Fin n → β → β) (P : Nat → β → Prop)
    (h0 : P 0 init) (hs : ∀ (k : Fin n) (st : β), P k.1 st → P (k.1 + 1) (body k st)) :
    P n (forUp n init body) := by
  have := foldl_ind (List.finRange n) (fun st k => body k st) init P h0 (by
    intro i h st hp
    have hi : i < n := by simpa using h
    have : (List.finRange n)[i] = ⟨i, hi⟩ := by simp
    rw [this]
    exact hs ⟨i, hi⟩ st hp)
  simpa [forUp] using this

/-- induction over `for (k = n; k > 0;) { --k; … }`: `P m st` = "`st` is the state after the passes `k ≥ m`" -/
theorem forDown_ind {n : Nat} {β : Type} (init : β) (body : Fin n → β → β) (P : Nat → β → Prop)
    (h0 : P n init) (hs : ∀ (k : Fin n) (st : β), P (k.1 + 1) st → P k.1 (body k st)) :
    P 0 (forDown n init body) := by
  have := foldr_ind (List.finRange n) (fun k st => body k st) init P (by simpa using h0) (by
    intro i h st hp
    have hi : i < n := by simpa using h
    have : (List.finRange n)[i] = ⟨i, hi⟩ := by simp
    rw [this]
    exact hs ⟨i, hi⟩ st hp)
  simpa [forDown] using this

end DV.C02
