/-
C12 — the tie between the hand-written model and the values `tools/translators/tr_c12.py` reads from the source on
every run (`DuneVerif/Gen/C12.lean`).  Helper lemmas; the theorems themselves are the `src_*` statements of
`Props/C12.lean`.
-/
import DuneVerif.Gen.C12
import DuneVerif.Proofs.C12Str
import DuneVerif.Proofs.C12Lex

namespace DV.C12

/-- membership in a list of characters as a Boolean -/
def inSet (l : List Char) (c : Char) : Bool := l.contains c

/-- the model's blank set, sorted by byte code (tab, newline, carriage return, space) -/
def wsList : List Char := [Char.ofNat 9, Char.ofNat 10, Char.ofNat 13, Char.ofNat 32]

theorem isWs_eq_inSet (c : Char) : isWs c = inSet wsList c := by
  have e9 : Char.ofNat 9 = '\t' := by decide
  have e10 : Char.ofNat 10 = '\n' := by decide
  have e13 : Char.ofNat 13 = '\r' := by decide
  have e32 : Char.ofNat 32 = ' ' := by decide
  simp only [isWs, inSet, wsList, e9, e10, e13, e32, List.contains_cons, List.contains_nil, Bool.or_false]
  cases (c == ' ') <;> cases (c == '\t') <;> cases (c == '\n') <;> cases (c == '\r') <;> rfl

/-- the quote characters of the model, sorted by byte code -/
def quoteList : List Char := [Char.ofNat 34, Char.ofNat 39]

theorem isQuote_eq_inSet (c : Char) : isQuote c = inSet quoteList c := by
  have e34 : Char.ofNat 34 = '"' := by decide
  have e39 : Char.ofNat 39 = '\'' := by decide
  simp only [isQuote, inSet, quoteList, e34, e39, List.contains_cons, List.contains_nil, Bool.or_false]
  cases (c == '\'') <;> cases (c == '"') <;> rfl

/-- the first step of the dotted-key descent: `dot = key.find('.')`, `key.substr(0,dot)`, `key.substr(dot+1)` -/
theorem comps_of_splitFirst (key a b : Str) (h : splitFirst '.' key = some (a, b)) : comps key = a :: comps b := by
  unfold comps
  induction key generalizing a with
  | nil => simp [splitFirst] at h
  | cons x xs ih =>
    unfold splitFirst at h
    by_cases hx : x = '.'
    · subst hx
      simp at h
      obtain ⟨rfl, rfl⟩ := h
      simp [splitOnC]
    · have hx' : (x == '.') = false := by simpa using hx
      simp only [hx'] at h
      cases hs : splitFirst '.' xs with
      | none => simp [hs] at h
      | some p =>
        obtain ⟨a', b'⟩ := p
        simp [hs] at h
        obtain ⟨rfl, rfl⟩ := h
        have := ih a' hs
        simp [splitOnC, hx', this]

theorem comps_of_no_dot (key : Str) (h : splitFirst '.' key = none) : comps key = [key] := by
  unfold comps
  induction key with
  | nil => simp [splitOnC]
  | cons x xs ih =>
    unfold splitFirst at h
    by_cases hx : x = '.'
    · subst hx; simp at h
    · have hx' : (x == '.') = false := by simpa using hx
      simp only [hx'] at h
      cases hs : splitFirst '.' xs with
      | some p => simp [hs] at h
      | none =>
        simp [splitOnC, hx', ih hs]

/-- looking a lower-cased text up in a word table -/
def lookupWord (tbl : List (Str × Bool)) (r : Str) : Option Bool :=
  match tbl with
  | [] => none
  | (w, b) :: rest => if r = w then some b else lookupWord rest r

/-- the model's `Parser<bool>` word table, sorted as the translator sorts it -/
def boolTable : List (Str × Bool) :=
  [("false".toList, false), ("no".toList, false), ("true".toList, true), ("yes".toList, true)]

theorem parseBool_eq_lookup (s : Str) :
    parseBool s = match lookupWord boolTable (s.map toLowerC) with
      | some b => some b
      | none => (parseInt tInt (s.map toLowerC)).map (· != 0) := by
  simp only [parseBool, boolTable, lookupWord]
  generalize s.map toLowerC = r
  have hf : "false".toList = ['f', 'a', 'l', 's', 'e'] := by decide
  have hn : "no".toList = ['n', 'o'] := by decide
  have ht : "true".toList = ['t', 'r', 'u', 'e'] := by decide
  have hy : "yes".toList = ['y', 'e', 's'] := by decide
  simp only [hf, hn, ht, hy]
  by_cases h1 : r = ['f', 'a', 'l', 's', 'e']
  · subst h1; rfl
  · by_cases h2 : r = ['n', 'o']
    · subst h2; rfl
    · by_cases h3 : r = ['t', 'r', 'u', 'e']
      · subst h3; rfl
      · by_cases h4 : r = ['y', 'e', 's']
        · subst h4; rfl
        · simp [h1, h2, h3, h4]

/-! ### `std::array<bool,n>`: `operator>>` into a `bool` without `boolalpha` -/

/-- `long` on the platform of the harness -/
def tLong : IntTy := ⟨true, 64⟩
theorem extractBool01_eq_some (s : Str) (b : Bool) (rest : Str) :
    extractBool01 s = some (b, rest) ↔ ∃ v, extractInt tLong s = some (v, rest) ∧ (v = 0 ∨ v = 1) ∧ b = (v == 1) := by
  unfold extractBool01
  show (match extractInt tLong s with | none => none | some (v, rest) => if v = 0 then some (false, rest) else if v = 1 then some (true, rest) else none) = some (b, rest) ↔ _
  cases h : extractInt tLong s with
  | none => simp
  | some p =>
    obtain ⟨v, r⟩ := p
    by_cases h0 : v = 0
    · subst h0; simp; constructor
      · rintro ⟨rfl, rfl⟩; exact ⟨0, ⟨rfl, rfl⟩, Or.inl rfl, by decide⟩
      · rintro ⟨w, ⟨rfl, rfl⟩, _, hb⟩; exact ⟨by simpa using hb, rfl⟩
    · by_cases h1 : v = 1
      · subst h1; simp; constructor
        · rintro ⟨rfl, rfl⟩; exact ⟨1, ⟨rfl, rfl⟩, Or.inr rfl, by decide⟩
        · rintro ⟨w, ⟨rfl, rfl⟩, _, hb⟩; exact ⟨by simpa using hb, rfl⟩
      · simp [h0, h1]
        try (intro w hw hr hv; omega)

theorem parseRange_bool01_iff (n : Nat) (s : Str) (bs : List Bool) :
    parseRange extractBool01 n s = some bs ↔
      ∃ vs, parseRange (extractInt tLong) n s = some vs ∧ (∀ v ∈ vs, v = 0 ∨ v = 1) ∧ bs = vs.map (· == 1) := by
  induction n generalizing s bs with
  | zero =>
    rw [parseRange_zero_eq_some]
    constructor
    · rintro ⟨rfl, h⟩; exact ⟨[], (parseRange_zero_eq_some _ _ _).mpr ⟨rfl, h⟩, by simp, rfl⟩
    · rintro ⟨vs, h, _, rfl⟩
      obtain ⟨rfl, h'⟩ := (parseRange_zero_eq_some _ _ _).mp h
      exact ⟨rfl, h'⟩
  | succ n ih =>
    rw [parseRange_succ_eq_some]
    constructor
    · rintro ⟨b, rest, bs', hb, hr, rfl⟩
      obtain ⟨v, hv, h01, rfl⟩ := (extractBool01_eq_some s b rest).mp hb
      obtain ⟨vs, hvs, hall, rfl⟩ := (ih rest bs').mp hr
      refine ⟨v :: vs, (parseRange_succ_eq_some _ _ _ _).mpr ⟨v, rest, vs, hv, hvs, rfl⟩, ?_, rfl⟩
      intro w hw
      rcases List.mem_cons.mp hw with rfl | hw
      · exact h01
      · exact hall w hw
    · rintro ⟨vs, h, hall, rfl⟩
      obtain ⟨v, rest, vs', hv, hvs, rfl⟩ := (parseRange_succ_eq_some _ _ _ _).mp h
      refine ⟨v == 1, rest, vs'.map (· == 1), (extractBool01_eq_some s _ rest).mpr ⟨v, hv, hall v (by simp), rfl⟩,
        (ih rest _).mpr ⟨vs', hvs, fun w hw => hall w (by simp [hw]), rfl⟩, rfl⟩

end DV.C12
