import Mathlib.LinearAlgebra.Matrix.Charpoly.Basic
import DuneVerif.Proofs.C08Lapack
/-!
# C08 — what LAPACK is handed has the characteristic polynomial of the caller's matrix

The hand-over theorems of `Props/C08.lean` are about eigenvectors.  The clause "returns the spectrum (all roots of the
characteristic polynomial)" needs in addition that the matrix ?geev / ?syev work on has the same characteristic
polynomial as `A`: for the fixed-size non-symmetric routine LAPACK sees `Aᵀ` (`charpoly_transpose`), for the repaired
dynamic routine `A` itself, for the symmetric routines the upper completion, which is `A` for symmetric `A`.
-/
namespace DV.C08
open Matrix

variable {R : Type}

/-- the `n x n` matrix of an index function -/
def toMatN (n : Nat) (A : Nat → Nat → R) : Matrix (Fin n) (Fin n) R := Matrix.of fun i j => A i.val j.val

theorem toMatN_seesNonSymF (n : Nat) (A : Nat → Nat → R) : toMatN n (lapackSeesNonSymF n A) = (toMatN n A)ᵀ := by
  ext i j
  simp only [toMatN, Matrix.of_apply, Matrix.transpose_apply]
  exact fortranView_packRowMajor n A i.val j.val i.isLt

theorem toMatN_seesNonSymD (n : Nat) (A : Nat → Nat → R) : toMatN n (lapackSeesNonSymD n A) = toMatN n A := by
  ext i j
  simp only [toMatN, Matrix.of_apply]
  exact fortranView_packColMajor n A i.val j.val i.isLt

theorem toMatN_seesSym (n : Nat) (A : Nat → Nat → R) (hs : SymOn n A) : toMatN n (lapackSeesSym n A) = toMatN n A := by
  ext i j
  simp only [toMatN, Matrix.of_apply]
  exact lapackSeesSym_eq n A hs i.val j.val i.isLt j.isLt

variable [CommRing R]

theorem charpoly_seesNonSymF (n : Nat) (A : Nat → Nat → R) :
    (toMatN n (lapackSeesNonSymF n A)).charpoly = (toMatN n A).charpoly := by
  rw [toMatN_seesNonSymF, Matrix.charpoly_transpose]

end DV.C08
