import DuneVerif.Proofs.C02Run
import DuneVerif.Proofs.C02Tri
/-! C02: the run invariant specialised to the three functors `Elim`, `ElimDet`, `ElimPivot`; the column
un-permutation of `invert`; the product loop of `determinant`. -/
namespace DV.C02
open Matrix
set_option linter.unusedSectionVars false

variable {n : Nat} {K Q : Type} [Field K] [LinearOrder Q] [Zero Q]

/-! ### `Elim`: the right-hand side follows the row operations -/

theorem elimFunc_swapS_f (piv : Bool) (s : Vec n K) (i p : Fin n) (hp : piv = false → p = i) :
    (swapS piv (elimFunc : Func n K (Vec n K)) s i p).f = s.f ∘ Equiv.swap i p := by
  cases piv
  · have := hp rfl; subst this
    simp [swapS]
  · funext r
    simp only [swapS, if_true, elimFunc, Vec.ofFn_f, Function.comp, Equiv.swap_apply_def]
    split_ifs <;> rfl

theorem lu_elim_run (piv : Bool) {absval : K → Q} (habs : AbsLike absval) (A₀ : Mat n K) (b₀ : Vec n K) :
    ((luDecomp piv absval elimFunc A₀ b₀).ok = true →
      ∃ σ : Equiv.Perm (Fin n), AInv A₀ n (luDecomp piv absval elimFunc A₀ b₀).A σ ∧
        Lview n (luDecomp piv absval elimFunc A₀ b₀).A *ᵥ (luDecomp piv absval elimFunc A₀ b₀).s.f = b₀.f ∘ σ) ∧
    ((luDecomp piv absval elimFunc A₀ b₀).ok = false → piv = true → (toMatrix A₀).det = 0) := by
  apply lu_invariant piv habs elimFunc A₀ b₀ (fun m σ A s => Lview m A *ᵥ s.f = b₀.f ∘ σ)
  · rw [Lview_zero, Matrix.one_mulVec]; rfl
  · intro i p σ A s hip hp _ hR _
    have hs' := elimFunc_swapS_f piv s i p hp
    rw [elimLoop_elimFunc_snd]
    have hs'' : (Vec.ofFn fun r => if i < r then
          (swapS piv elimFunc s i p).f r -
            (swapRows A i p).f r i / (swapRows A i p).f i i * (swapS piv elimFunc s i p).f i
        else (swapS piv elimFunc s i p).f r).f =
        fun r => (swapS piv elimFunc s i p).f r - gfac (swapRows A i p) i r * (swapS piv elimFunc s i p).f i := by
      funext r
      simp only [Vec.ofFn_f, gfac]
      split_ifs <;> ring
    rw [hs'', Lview_elim_mulVec, hs', Lview_swap_mulVec A i p hip, hR]
    funext r
    simp [Function.comp, Equiv.Perm.mul_apply]

/-! ### `ElimDet`: the sign is the sign of the accumulated row permutation -/

theorem sign_cast_swap (i p : Fin n) :
    ((Equiv.Perm.sign (Equiv.swap i p) : ℤ) : K) = if i = p then (1 : K) else -(1 : K) := by
  rw [Equiv.Perm.sign_swap']
  split_ifs <;> simp

theorem lu_det_run (piv : Bool) {absval : K → Q} (habs : AbsLike absval) (A₀ : Mat n K) :
    ((luDecomp piv absval detFunc A₀ (1 : K)).ok = true →
      ∃ σ : Equiv.Perm (Fin n), AInv A₀ n (luDecomp piv absval detFunc A₀ (1 : K)).A σ ∧
        (luDecomp piv absval detFunc A₀ (1 : K)).s = ((Equiv.Perm.sign σ : ℤ) : K)) ∧
    ((luDecomp piv absval detFunc A₀ (1 : K)).ok = false → piv = true → (toMatrix A₀).det = 0) := by
  apply lu_invariant piv habs detFunc A₀ (1 : K) (fun _ σ _ s => s = ((Equiv.Perm.sign σ : ℤ) : K))
  · simp
  · intro i p σ A s _ hp _ hR _
    rw [elimLoop_snd_of_elim_id detFunc (fun _ _ _ _ => rfl)]
    rw [Equiv.Perm.sign_mul, Units.val_mul, Int.cast_mul, sign_cast_swap, ← hR]
    cases piv
    · have := hp rfl; subst this
      simp [swapS]
    · simp [swapS, detFunc]

/-- `for i: det *= A[i][i]` -/
theorem forUp_mul_prod (a : K) (g : Fin n → K) :
    forUp n a (fun i acc => acc * g i) = a * ∏ i, g i := by
  have : forUp n a (fun i acc => acc * g i) = a * ∏ j : Fin n, if j.1 < n then g j else 1 := by
    apply forUp_ind a _ (fun m acc => acc = a * ∏ j : Fin n, if j.1 < m then g j else 1)
    · simp
    · intro k acc ih
      have hsplit : ∀ j : Fin n, (if j.1 < k.1 + 1 then g j else 1) =
          (if j.1 < k.1 then g j else 1) * (if j = k then g k else 1) := by
        intro j
        by_cases hjk : j = k
        · subst hjk; simp
        · have : j.1 ≠ k.1 := fun h => hjk (Fin.ext h)
          have h1 : (j.1 < k.1 + 1) ↔ j.1 < k.1 := by omega
          simp [hjk, h1]
      simp only [hsplit, Finset.prod_mul_distrib, Finset.prod_ite_eq' Finset.univ k, Finset.mem_univ, if_true]
      rw [ih]; ring
  rw [this]; simp

/-! ### `ElimPivot`: the pivot vector encodes the accumulated row permutation -/

/-- the permutation `T₀ ∘ T₁ ∘ … ∘ T_{m-1}` with `T_j = swap j pivot[j]` -/
def sigOf (s : Vec n (Fin n)) : Nat → Equiv.Perm (Fin n)
  | 0 => 1
  | m + 1 => if h : m < n then sigOf s m * Equiv.swap ⟨m, h⟩ (s.f ⟨m, h⟩) else sigOf s m

theorem sigOf_congr (s s' : Vec n (Fin n)) (m : Nat) (h : ∀ j : Fin n, j.1 < m → s.f j = s'.f j) :
    sigOf s m = sigOf s' m := by
  induction m with
  | zero => rfl
  | succ m ih =>
    simp only [sigOf]
    split_ifs with hm
    · rw [ih (fun j hj => h j (by omega)), h ⟨m, hm⟩ (by simp)]
    · exact ih (fun j hj => h j (by omega))

theorem pivotFunc_swapS (piv : Bool) (s : Vec n (Fin n)) (i p : Fin n) (hp : piv = false → p = i)
    (hsi : s.f i = i) :
    (swapS piv (pivotFunc : Func n K (Vec n (Fin n))) s i p).f i = p ∧
    ∀ j, j ≠ i → (swapS piv (pivotFunc : Func n K (Vec n (Fin n))) s i p).f j = s.f j := by
  cases piv
  · have := hp rfl; subst this
    simp [swapS, hsi]
  · constructor
    · simp only [swapS, if_true, pivotFunc, Vec.ofFn_f]
      split_ifs with h
      · rw [hsi]; exact h
      · rfl
    · intro j hj
      simp [swapS, pivotFunc, hj]

theorem lu_pivot_run (piv : Bool) {absval : K → Q} (habs : AbsLike absval) (A₀ : Mat n K) :
    ((luDecomp piv absval pivotFunc A₀ idPivot).ok = true →
      ∃ σ : Equiv.Perm (Fin n), AInv A₀ n (luDecomp piv absval pivotFunc A₀ idPivot).A σ ∧
        σ = sigOf (luDecomp piv absval pivotFunc A₀ idPivot).s n) ∧
    ((luDecomp piv absval pivotFunc A₀ idPivot).ok = false → piv = true → (toMatrix A₀).det = 0) := by
  have := lu_invariant piv habs pivotFunc A₀ idPivot
    (fun m σ _ s => σ = sigOf s m ∧ ∀ j : Fin n, m ≤ j.1 → s.f j = j) (by
      constructor
      · rfl
      · intro j _; simp [idPivot]) (by
      intro i p σ A s _ hp _ ⟨hσ, hfix⟩ _
      rw [elimLoop_snd_of_elim_id pivotFunc (fun _ _ _ _ => rfl)]
      obtain ⟨h1, h2⟩ := pivotFunc_swapS (K := K) piv s i p hp (hfix i (le_refl _))
      constructor
      · simp only [sigOf, i.2, dif_pos, Fin.eta, h1]
        rw [hσ]
        congr 1
        apply sigOf_congr
        intro j hj
        exact (h2 j (fun h => by subst h; omega)).symm
      · intro j hj
        rw [h2 j (fun h => by subst h; omega)]
        exact hfix j (by omega))
  exact ⟨fun h => by
    obtain ⟨σ, hA, hσ, _⟩ := this.1 h
    exact ⟨σ, hA, hσ⟩, this.2⟩

/-- the column un-permutation loop of `invert` applies `σ⁻¹` to the column index -/
theorem unpermute_f (s : Vec n (Fin n)) (X : Mat n K) (r c : Fin n) :
    (unpermute s X).f r c = X.f r ((sigOf s n)⁻¹ c) := by
  have : ∀ r c, (unpermute s X).f r c = X.f r (((sigOf s n)⁻¹ * sigOf s 0) c) := by
    unfold unpermute
    apply forDown_ind X _ (fun m B => ∀ r c, B.f r c = X.f r (((sigOf s n)⁻¹ * sigOf s m) c))
    · intro r c; simp
    · intro i B ih r c
      have hstep : (if i ≠ s.f i then swapCols B (s.f i) i else B).f r c = B.f r (Equiv.swap i (s.f i) c) := by
        by_cases h : i = s.f i
        · rw [if_neg (not_not.mpr h), ← h, Equiv.swap_self]; rfl
        · simp only [ne_eq, h, not_false_eq_true, if_true, swapCols, Mat.ofFn_f, Equiv.swap_apply_def]
          by_cases h1 : c = s.f i
          · subst h1
            have : s.f i ≠ i := fun h' => h h'.symm
            simp [this]
          · by_cases h2 : c = i
            · subst h2; simp [h1]
            · simp [h1, h2]
      rw [hstep, ih]
      have : sigOf s (i.1 + 1) = sigOf s i.1 * Equiv.swap i (s.f i) := by
        simp [sigOf, i.2]
      rw [this]
      simp [Equiv.Perm.mul_apply]
  rw [this]
  simp [sigOf]

end DV.C02
