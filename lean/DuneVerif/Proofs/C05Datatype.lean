import DuneVerif.Proofs.C05Store
/-!
C05 helper lemmas, part 7: the DatatypeCommunicator variant — the index lists behind the MPI datatypes are the
unstripped interface lists, and moving "send type of p" into "receive type of q" produces the expected calls.
-/
namespace DV.C05

theorem flatMap_filterMap {α β γ} (g : α → Option β) (h : β → List γ) (l : List α) :
    (l.filterMap g).flatMap h = l.flatMap fun a => match g a with | some b => h b | none => [] := by
  induction l with
  | nil => rfl
  | cons a as ih =>
    rw [List.filterMap_cons, List.flatMap_cons]
    cases hg : g a with
    | none => simp only [List.nil_append]; exact ih
    | some b => simp only [List.flatMap_cons]; rw [ih]

/-- the raw (unstripped) entry of neighbour `q` -/
def rawEntry (ign : Bool) (S T : Nat → Bool) (sys : System) (p q : Nat) : Option (Nat × Info × Info) :=
  (remoteEntry ign sys p q).map fun e => (e.1, infoOf true S T e.2.1, infoOf false S T e.2.2)

theorem rawInterfaceOf_eq (ign : Bool) (S T : Nat → Bool) (sys : System) (p : Nat) :
    rawInterfaceOf ign S T sys p = (List.range sys.P).filterMap (rawEntry ign S T sys p) := by
  simp only [rawInterfaceOf, buildInterfaceRaw, remoteSpec, List.map_filterMap]
  rfl

theorem rawEntry_key {ign S T sys p q x} (h : rawEntry ign S T sys p q = some x) : x.1 = q := by
  simp only [rawEntry, Option.map_eq_some_iff] at h
  obtain ⟨e, he, rfl⟩ := h
  exact remoteEntry_key he

theorem get_rawInterfaceOf (ign : Bool) (S T : Nat → Bool) (sys : System) (p q : Nat) :
    (rawInterfaceOf ign S T sys p).get q =
      if admits sys p q then (infoOf true S T (sendSpec ign sys p q), infoOf false S T (recvSpec ign sys p q))
      else (Info.empty, Info.empty) := by
  simp only [IfMap.get, rawInterfaceOf_eq]
  rw [find_filterMap_range _ (fun i x h => rawEntry_key h)]
  by_cases hq : q < sys.P
  · simp only [hq, if_true, admits, true_and, rawEntry, remoteEntry]
    by_cases hself : q = p ∧ (sys.rank p).two = false
    · have hn : ¬ (q ≠ p ∨ (sys.rank p).two = true) := by
        intro h; rcases h with h | h
        · exact h hself.1
        · rw [hself.2] at h; cases h
      simp [hself]
    · have hy : q ≠ p ∨ (sys.rank p).two = true := by
        by_cases h1 : q = p
        · right
          cases h2 : (sys.rank p).two
          · exact absurd ⟨h1, h2⟩ hself
          · rfl
        · left; exact h1
      simp only [hself, if_false, hy, if_true]
      by_cases hemp : (sendSpec ign sys p q).isEmpty = true ∧ (recvSpec ign sys p q).isEmpty = true
      · have h1 : sendSpec ign sys p q = [] := List.isEmpty_iff.mp hemp.1
        have h2 : recvSpec ign sys p q = [] := List.isEmpty_iff.mp hemp.2
        simp [h1, h2, infoOf_nil]
      · simp only [hemp, if_false, Option.map_some]
  · have : ¬ admits sys p q := fun h => hq h.1
    simp [hq, this]

/-- forward communication of the datatype variant, seen from `q`: the calls MPI's data movement amounts to are the
    expected ones, neighbour by neighbour in rank order -/
theorem dtCalls_forward {Val} {ign S T sys csS csT blk} (hwf : WF sys) (hb : SizesByGlobal sys csS csT blk)
    (gat : Nat → Nat → Nat → Val) {q : Nat} (hq : q < sys.P) :
    dtCalls (csT q) gat csS (dtNeighbours (rawInterfaceOf ign S T sys) true q) =
      (List.range sys.P).flatMap fun p => pairExpected blk (gat p) (sendL ign S T sys p q) (recvL ign S T sys q p) := by
  simp only [dtCalls, dtNeighbours, List.flatMap_map, sendSide, recvSide, if_true]
  rw [rawInterfaceOf_eq, flatMap_filterMap]
  apply flatMap_congr_mem
  intro p hp
  have hp' := List.mem_range.mp hp
  have hpair := pairCalls_eq (ign := ign) (S := S) (T := T) (sz := 1) hwf hb gat hp' hq
  simp only [Net.pairCalls, Net.sendSlots, Net.recvSlots, netOf, get_interfaceOf] at hpair
  rw [← hpair]
  have hsym := admits_symm (sys := sys) hp' hq
  simp only [rawEntry]
  cases hr : remoteEntry ign sys q p with
  | none =>
    simp only [Option.map_none]
    simp only [remoteEntry] at hr
    split at hr
    · rename_i hself
      have hn : ¬ admits sys q p := by
        intro h; rcases h.2 with h | h
        · exact h hself.1
        · rw [hself.2] at h; cases h
      simp [hn, slots_empty]
    · split at hr
      · rename_i hemp
        have h2 : recvSpec ign sys q p = [] := List.isEmpty_iff.mp hemp.2
        by_cases ha : admits sys q p
        · simp [ha, h2, infoOf_nil, slots_empty]
        · simp [ha, slots_empty]
      · cases hr
  | some e =>
    have hk := remoteEntry_key hr
    simp only [Option.map_some]
    simp only [remoteEntry] at hr
    split at hr
    · cases hr
    · rename_i hself
      split at hr
      · cases hr
      · cases hr
        have ha : admits sys q p := by
          refine ⟨hp', ?_⟩
          by_cases h1 : p = q
          · right
            cases h2 : (sys.rank q).two
            · exact absurd ⟨h1, h2⟩ hself
            · rfl
          · left; exact h1
        have ha' : admits sys p q := hsym.2 ha
        simp only [get_rawInterfaceOf, ha, ha', if_true]

theorem swap_rawInterfaceOf (ign : Bool) (S T : Nat → Bool) (sys : System) (p : Nat) :
    rawInterfaceOf ign T S sys.swap p = swapIf (rawInterfaceOf ign S T sys p) := by
  simp only [rawInterfaceOf, swap_remoteSpec, buildInterfaceRaw, swapIf, List.map_map]
  have h1 : ∀ l, infoOf true T S l = infoOf false S T l := fun l => infoOf_swap true S T l
  have h2 : ∀ l, infoOf false T S l = infoOf true S T l := fun l => infoOf_swap false S T l
  congr 1
  funext e
  simp only [Function.comp, h1, h2]

theorem dtNeighbours_swap (raw : Nat → IfMap) (q : Nat) :
    dtNeighbours raw false q = dtNeighbours (fun p => swapIf (raw p)) true q := by
  simp only [dtNeighbours, swapIf, List.map_map, sendSide, recvSide, if_true, Bool.false_eq_true, if_false]
  congr 1
  funext e
  have := swapIf_get (raw e.1) q
  simp only [swapIf] at this
  simp only [Function.comp, this]

/-- backward communication of the datatype variant -/
theorem dtCalls_backward {Val} {ign S T sys csS csT blk} (hwf : WF sys) (hb : SizesByGlobal sys csS csT blk)
    (gat : Nat → Nat → Nat → Val) {q : Nat} (hq : q < sys.P) :
    dtCalls (csS q) gat csT (dtNeighbours (rawInterfaceOf ign S T sys) false q) =
      (List.range sys.P).flatMap fun p => pairExpected blk (gat p) (recvL ign S T sys p q) (sendL ign S T sys q p) := by
  rw [dtNeighbours_swap]
  have hraw : (fun p => swapIf (rawInterfaceOf ign S T sys p)) = rawInterfaceOf ign T S sys.swap := by
    funext p; rw [swap_rawInterfaceOf]
  rw [hraw]
  have := dtCalls_forward (ign := ign) (S := T) (T := S) (swap_wf hwf) (swap_sizes hb) gat (q := q) hq
  have hP : sys.swap.P = sys.P := rfl
  simpa only [swap_sendL, swap_recvL, hP] using this

end DV.C05
