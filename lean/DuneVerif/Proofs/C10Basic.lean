/-
C10 helper lemmas, part 1: facts about the generated constants, `val`, `Wf`, `zeros`, `take/drop`, `ofNat`,
injectivity of `val`, and the digit-step identity all carry loops use.  Core Lean only.
-/
import DuneVerif.Model.C10

namespace DV.C10
open DV.C10.Gen

/-! ### obligations on the generated constants (fail when a mask in the header changes) -/

theorem bits_eq : bits = 16 := by decide
theorem bits_pos : 0 < bits := by decide
theorem bitmask_eq : bitmask = 2 ^ bits - 1 := by decide
/-- what the carry loops need of `overflowmask`: it keeps a carry of 0 or 1 (any odd mask does) -/
theorem overflowmask_odd : overflowmask % 2 = 1 := by decide
/-- what `operator>>` needs of `compbitmask`: it keeps the whole digit above the low `bits` bits -/
theorem compbitmask_keeps : (compbitmask >>> bits) &&& bitmask = bitmask := by decide
theorem hexdigits_eq : hexdigits * 4 = bits := by decide
theorem B_eq : B = 65536 := by decide
theorem B_def : B = 2 ^ bits := rfl
theorem B_pos : 0 < B := by decide
theorem bitmask_succ : bitmask + 1 = B := by decide
theorem representableDigits_pos : 0 < representableDigits := by decide
/-- the digits kept by `todouble` fit a double's mantissa -/
theorem representable_fit : B ^ representableDigits ≤ 2 ^ 53 := by decide
/-- below the kept digits there are at least 32 bits less than the leading digit's weight -/
theorem representable_margin : 2 ^ 32 ≤ B ^ (representableDigits - 1) := by decide
theorem two_digits : B * B = 2 ^ 32 := by decide
theorem assign_width : B ^ (64 / bits) = 2 ^ 64 := by decide

theorem W_eq (n : Nat) : W n = 2 ^ (bits * n) := by
  simp [W, B_def, Nat.pow_mul]

theorem W_pos (n : Nat) : 0 < W n := Nat.pow_pos B_pos

theorem W_succ (n : Nat) : W (n + 1) = B * W n := by
  simp [W, Nat.pow_succ, Nat.mul_comm]

theorem W_zero : W 0 = 1 := rfl

theorem W_add (m n : Nat) : W (m + n) = W m * W n := by
  simp [W, Nat.pow_add]

theorem W_dvd {m n : Nat} (h : m ≤ n) : W m ∣ W n := Nat.pow_dvd_pow B h

theorem W_le {m n : Nat} (h : m ≤ n) : W m ≤ W n := Nat.le_of_dvd (W_pos n) (W_dvd h)

/-- storage width: the least multiple of `bits` that is ≥ k -/
theorem ndigits_spec (k : Nat) : k ≤ bits * ndigits k ∧ bits * ndigits k < k + bits := by
  simp only [ndigits, bits_eq]
  -- robust against the equivalent spelling `(k + bits - 1) / bits` of the digit count
  first
    | omega
    | (split <;> rename_i h <;> simp at h <;> omega)

theorem ndigits_pos {k : Nat} (h : 0 < k) : 0 < ndigits k := by
  have := ndigits_spec k
  simp only [bits_eq] at this
  omega

/-- the double-width temporary of `operator*=` has room for every `digit[i+m]` written (i, m < n) -/
theorem ndigits_double (k : Nat) : 2 * ndigits k - 1 ≤ ndigits (2 * k) ∧ ndigits k ≤ ndigits (2 * k) := by
  simp only [ndigits, bits_eq]
  first
    | omega
    | (repeat' split
       all_goals (rename_i h1 h2; simp at h1 h2; omega))

/-! ### masks as arithmetic -/

theorem and_bitmask (x : Nat) : x &&& bitmask = x % B := by
  rw [bitmask_eq, Nat.and_two_pow_sub_one_eq_mod, B_def]

theorem shr_bits (x : Nat) : x >>> bits = x / B := by
  rw [Nat.shiftRight_eq_div_pow, B_def]

theorem and_overflowmask {c : Nat} (hc : c ≤ 1) : c &&& overflowmask = c := by
  have h : c = 0 ∨ c = 1 := by omega
  rcases h with rfl | rfl
  · exact Nat.zero_and _
  · rw [Nat.and_comm, Nat.and_one_is_mod]; exact overflowmask_odd

/-- `(temp & compbitmask) >> bits` is `temp >> bits` when that fits one digit -/
theorem and_compbitmask_shr {t : Nat} (ht : t >>> bits < B) : (t &&& compbitmask) >>> bits = t >>> bits := by
  rw [Nat.shiftRight_and_distrib]
  have h1 : t >>> bits = (t >>> bits) &&& bitmask := by
    rw [and_bitmask, Nat.mod_eq_of_lt ht]
  rw [h1, Nat.and_assoc, Nat.and_comm bitmask, compbitmask_keeps]

/-! ### val / Wf -/

@[simp] theorem val_nil : val [] = 0 := rfl
@[simp] theorem val_cons (d : Nat) (ds : List Nat) : val (d :: ds) = d + B * val ds := rfl

/-- all digits are uint16 -/
def Digs (a : List Nat) : Prop := ∀ d ∈ a, d < B

@[simp] theorem digs_nil : Digs [] := by simp [Digs]
@[simp] theorem digs_cons {d : Nat} {ds : List Nat} : Digs (d :: ds) ↔ d < B ∧ Digs ds := by
  simp [Digs]

theorem digs_append {a b : List Nat} : Digs (a ++ b) ↔ Digs a ∧ Digs b := by
  simp only [Digs, List.mem_append]
  constructor
  · intro h; exact ⟨fun d hd => h d (Or.inl hd), fun d hd => h d (Or.inr hd)⟩
  · rintro ⟨h1, h2⟩ d (hd | hd)
    · exact h1 d hd
    · exact h2 d hd

theorem digs_take {a : List Nat} (h : Digs a) (m : Nat) : Digs (a.take m) :=
  fun d hd => h d (List.mem_of_mem_take hd)

theorem digs_drop {a : List Nat} (h : Digs a) (m : Nat) : Digs (a.drop m) :=
  fun d hd => h d (List.mem_of_mem_drop hd)

theorem digs_zeros (n : Nat) : Digs (zeros n) := by
  intro d hd
  simp only [zeros, List.mem_replicate] at hd
  rw [hd.2]; exact B_pos

instance (n : Nat) (a : List Nat) : Decidable (Wf n a) := by unfold Wf; exact inferInstance

theorem wf_iff {n : Nat} {a : List Nat} : Wf n a ↔ a.length = n ∧ Digs a := Iff.rfl

theorem wf_nil : Wf 0 [] := ⟨rfl, by simp⟩

theorem wf_cons {n d : Nat} {ds : List Nat} : Wf (n + 1) (d :: ds) ↔ d < B ∧ Wf n ds := by
  simp only [wf_iff, List.length_cons, digs_cons]
  constructor
  · rintro ⟨h1, h2, h3⟩; exact ⟨h2, by omega, h3⟩
  · rintro ⟨h1, h2, h3⟩; exact ⟨by omega, h1, h3⟩

theorem wf_zero_iff {a : List Nat} : Wf 0 a ↔ a = [] := by
  constructor
  · rintro ⟨h, -⟩; exact List.eq_nil_of_length_eq_zero h
  · rintro rfl; exact wf_nil

theorem wf_zeros (n : Nat) : Wf n (zeros n) := ⟨by simp [zeros], digs_zeros n⟩

theorem val_lt_of_digs {a : List Nat} (h : Digs a) : val a < W a.length := by
  induction a with
  | nil => simp [W]
  | cons d ds ih =>
    rw [digs_cons] at h
    have h1 := ih h.2
    have h2 := h.1
    rw [List.length_cons, W_succ, val_cons]
    have : B * (val ds + 1) ≤ B * W ds.length := Nat.mul_le_mul_left B h1
    rw [Nat.mul_add] at this
    omega

/-- a well-formed value is below the modulus -/
theorem val_lt {n : Nat} {a : List Nat} (h : Wf n a) : val a < W n := by
  have := val_lt_of_digs h.2
  rwa [h.1] at this

@[simp] theorem val_zeros (n : Nat) : val (zeros n) = 0 := by
  induction n with
  | zero => rfl
  | succ n ih =>
    show val (0 :: zeros n) = 0
    simp [ih]

theorem val_append (a b : List Nat) : val (a ++ b) = val a + W a.length * val b := by
  induction a with
  | nil => simp [W]
  | cons d ds ih =>
    simp only [List.cons_append, val_cons, ih, List.length_cons, W_succ, Nat.mul_add, Nat.mul_assoc, Nat.add_assoc]

theorem val_take_add_drop (a : List Nat) (m : Nat) :
    val a = val (a.take m) + W (min m a.length) * val (a.drop m) := by
  have := val_append (a.take m) (a.drop m)
  rwa [List.take_append_drop, List.length_take] at this

theorem val_take {a : List Nat} (h : Digs a) {m : Nat} (hm : m ≤ a.length) :
    val (a.take m) = val a % W m := by
  have h1 := val_take_add_drop a m
  have h2 : val (a.take m) < W m := by
    have := val_lt_of_digs (digs_take h m)
    rwa [List.length_take, Nat.min_eq_left hm] at this
  rw [Nat.min_eq_left hm] at h1
  rw [h1, Nat.add_mul_mod_self_left, Nat.mod_eq_of_lt h2]

theorem val_drop {a : List Nat} (h : Digs a) (m : Nat) :
    val (a.drop m) = val a / W m := by
  by_cases hm : m ≤ a.length
  · have h1 := val_take_add_drop a m
    have h2 : val (a.take m) < W m := by
      have := val_lt_of_digs (digs_take h m)
      rwa [List.length_take, Nat.min_eq_left hm] at this
    rw [Nat.min_eq_left hm] at h1
    rw [h1, Nat.add_mul_div_left _ _ (W_pos m), Nat.div_eq_of_lt h2, Nat.zero_add]
  · have hlen : a.length ≤ m := by omega
    rw [List.drop_eq_nil_of_le hlen, val_nil]
    have := val_lt_of_digs h
    have h3 := W_le hlen
    exact (Nat.div_eq_of_lt (by omega)).symm

/-! ### ofNat -/

theorem ofNat_wf (n v : Nat) : Wf n (ofNat n v) := by
  induction n generalizing v with
  | zero => exact wf_nil
  | succ n ih =>
    show Wf (n + 1) (v % B :: ofNat n (v / B))
    exact wf_cons.2 ⟨Nat.mod_lt _ B_pos, ih _⟩

theorem ofNat_val (n v : Nat) : val (ofNat n v) = v % W n := by
  induction n generalizing v with
  | zero => simp [ofNat, W, Nat.mod_one]
  | succ n ih =>
    show val (v % B :: ofNat n (v / B)) = v % W (n + 1)
    rw [val_cons, ih, W_succ, Nat.mod_mul]

/-! ### val is injective on well-formed lists of one length -/

theorem val_inj {n : Nat} {a b : List Nat} (ha : Wf n a) (hb : Wf n b) (h : val a = val b) : a = b := by
  induction n generalizing a b with
  | zero => rw [wf_zero_iff.1 ha, wf_zero_iff.1 hb]
  | succ n ih =>
    match a, b, ha, hb with
    | [], _, ha, _ => exact absurd ha.1 (by simp)
    | _ :: _, [], _, hb => exact absurd hb.1 (by simp)
    | d :: ds, e :: es, ha, hb =>
      rw [wf_cons] at ha hb
      simp only [val_cons] at h
      have hB := B_eq
      have h1 : d = e := by
        have := congrArg (· % B) h
        simp only [Nat.add_mul_mod_self_left] at this
        rwa [Nat.mod_eq_of_lt ha.1, Nat.mod_eq_of_lt hb.1] at this
      have h2 : val ds = val es := by
        subst h1
        have : B * val ds = B * val es := by omega
        exact Nat.eq_of_mul_eq_mul_left B_pos this
      rw [h1, ih ha.2 hb.2 h2]

/-! ### the digit step shared by every carry loop -/

/-- writing the low digit of `s` and carrying `s / B` into the rest computes `(s + B t) mod (B K)` -/
theorem digit_step (s t K : Nat) : (s + B * t) % (B * K) = s % B + B * ((s / B + t) % K) := by
  rw [Nat.mod_mul, Nat.add_mul_mod_self_left, Nat.add_mul_div_left _ _ B_pos]

end DV.C10
