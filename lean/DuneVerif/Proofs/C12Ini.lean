/-
C12 — the INI reader: fuel irrelevance / totality of the line loop, and the text-level theorem
`parseLines (lines of a dialect document) = applyAll (assignments the document denotes)`.
-/
import DuneVerif.Proofs.C12Str

namespace DV.C12

/-- sequencing of `Except` results (the explicit `match` of the model, named so that it can be rewritten) -/
def andThen {α β : Type} (r : Except Err α) (k : α → Except Err β) : Except Err β :=
  match r with
  | .error e => .error e
  | .ok a => k a

@[simp] theorem andThen_ok {α β : Type} (a : α) (k : α → Except Err β) : andThen (.ok a) k = k a := rfl
@[simp] theorem andThen_error {α β : Type} (e : Err) (k : α → Except Err β) : andThen (.error e : Except Err α) k = .error e := rfl

/-- the optional trailing comment of an assignment line -/
def cmtText : Option Str → Str
  | none => []
  | some t => '#' :: t

theorem cmtText_cases (cmt : Option Str) : cmtText cmt = [] ∨ ∃ t, cmtText cmt = '#' :: t := by
  cases cmt with
  | none => left; rfl
  | some t => right; exact ⟨t, rfl⟩

/-- the value as spelled in the document -/
def spell : Option Char → Str → Str
  | none, v => v
  | some c, v => c :: v ++ [c]

theorem renderItem_assign (ws1 key ws2 ws3 : Str) (q : Option Char) (value ws4 : Str) (cmt : Option Str) :
    renderItem (.assign ws1 key ws2 ws3 q value ws4 cmt) =
      ws1 ++ (key ++ (ws2 ++ '=' :: (ws3 ++ spell q value ++ ws4 ++ cmtText cmt))) := by
  cases q <;> cases cmt <;> simp [renderItem, spell, cmtText, List.append_assoc]

/-! ### no tree operation reports `fuel` -/

theorem setPath_ne_fuel : ∀ (p : List Str) (v : Str) (t : Tree), setPath p v t ≠ .error .fuel
  | [], _, _ => by simp [setPath]
  | [k], v, .node vals subs => by
    simp only [setPath]
    split <;> (try split) <;> simp
  | k :: k2 :: rest, v, .node vals subs => by
    simp only [setPath]
    split
    · simp
    · have ih := setPath_ne_fuel (k2 :: rest) v ((aGet? k subs).getD .empty)
      split
      · rename_i e he; intro h; injection h with h; subst h; exact ih he
      · simp

theorem hasKeyPath_ne_fuel : ∀ (p : List Str) (t : Tree), hasKeyPath p t ≠ .error .fuel
  | [], _ => by simp [hasKeyPath]
  | [k], .node vals subs => by
    simp only [hasKeyPath]
    split <;> (try split) <;> simp
  | k :: k2 :: rest, .node vals subs => by
    simp only [hasKeyPath]
    split
    · simp
    · rename_i s hs
      split
      · simp
      · exact hasKeyPath_ne_fuel (k2 :: rest) s

theorem assignStep_ne_fuel (ow : Bool) (st : St) (k v : Str) : assignStep ow st k v ≠ .error .fuel := by
  unfold assignStep
  split
  · simp
  · cases ow with
    | true =>
      simp only [if_true]
      cases h : st.tree.set k v with
      | error e =>
        have := setPath_ne_fuel (comps k) v st.tree
        simp only [Tree.set] at h
        intro h2; simp at h2; subst h2; exact this h
      | ok t => simp
    | false =>
      simp only [Bool.false_eq_true, if_false]
      cases hk : st.tree.hasKey k with
      | error e =>
        have := hasKeyPath_ne_fuel (comps k) st.tree
        simp only [Tree.hasKey] at hk
        intro h2; simp at h2; subst h2; exact this hk
      | ok b =>
        cases b with
        | true => simp
        | false =>
          simp only
          cases h : st.tree.set k v with
          | error e =>
            have := setPath_ne_fuel (comps k) v st.tree
            simp only [Tree.set] at h
            intro h2; simp at h2; subst h2; exact this h
          | ok t => simp

/-! ### the quote loop consumes lines, never produces them -/

theorem quoteLoop_length (q : Char) : ∀ (ls : List Str) (v : Str), (quoteLoop q v ls).2.length ≤ ls.length
  | [], v => by simp only [quoteLoop]; split <;> simp
  | l :: ls, v => by
    simp only [quoteLoop]
    split
    · simp
    · have := quoteLoop_length q ls (v ++ '\n' :: l)
      simp only [List.length_cons]; omega

theorem readValue_length (rhs : Str) (rest : List Str) : (readValue rhs rest).2.length ≤ rest.length := by
  unfold readValue
  split
  · simp
  · split
    · exact quoteLoop_length _ _ _
    · simp

theorem lineStep_length {ow : Bool} {raw : Str} {rest : List Str} {st st' : St} {ls' : List Str}
    (h : lineStep ow raw rest st = .ok (st', ls')) : ls'.length ≤ rest.length := by
  unfold lineStep at h
  split at h
  · simp at h; rw [← h.2]; exact Nat.le_refl _
  · split at h
    · simp at h; rw [← h.2]; exact Nat.le_refl _
    · split at h
      · split at h <;> (simp at h; rw [← h.2]; exact Nat.le_refl _)
      · split at h
        · simp at h; rw [← h.2]; exact Nat.le_refl _
        · dsimp only at h
          split at h
          · simp at h
          · simp at h; rw [← h.2]; exact readValue_length _ _

theorem lineStep_ne_fuel (ow : Bool) (raw : Str) (rest : List Str) (st : St) :
    lineStep ow raw rest st ≠ .error .fuel := by
  unfold lineStep
  split
  · simp
  · split
    · simp
    · split
      · split <;> simp
      · split
        · simp
        · dsimp only
          split
          · rename_i e he
            intro h; injection h with h; subst h
            exact assignStep_ne_fuel _ _ _ _ he
          · simp

/-! ### fuel -/

theorem parseLoop_fuel_irrel (ow : Bool) : ∀ (n : Nat) (lines : List Str) (st : St) (f g : Nat),
    lines.length ≤ n → n < f → n < g → parseLoop ow f lines st = parseLoop ow g lines st
  | n, lines, st, f, g, hl, hf, hg => by
    match f, g, hf, hg with
    | f + 1, g + 1, hf, hg =>
      cases lines with
      | nil => simp [parseLoop]
      | cons l ls =>
        simp only [parseLoop]
        cases hstep : lineStep ow l ls st with
        | error e => rfl
        | ok r =>
          obtain ⟨st', ls'⟩ := r
          have hlen := lineStep_length hstep
          simp only [List.length_cons] at hl
          cases n with
          | zero => omega
          | succ m =>
            exact parseLoop_fuel_irrel ow m ls' st' f g (by omega) (by omega) (by omega)

theorem parseLines_nil (ow : Bool) (st : St) : parseLines ow [] st = .ok st := by
  simp [parseLines, parseLoop]

/-- the loop equation without fuel -/
theorem parseLines_cons (ow : Bool) (l : Str) (ls : List Str) (st : St) :
    parseLines ow (l :: ls) st =
      match lineStep ow l ls st with
      | .error e => .error e
      | .ok (st', ls') => parseLines ow ls' st' := by
  simp only [parseLines, List.length_cons, parseLoop]
  cases hstep : lineStep ow l ls st with
  | error e => rfl
  | ok r =>
    obtain ⟨st', ls'⟩ := r
    have hlen := lineStep_length hstep
    exact parseLoop_fuel_irrel ow ls'.length ls' st' _ _ (Nat.le_refl _) (by omega) (by omega)

/-- the model parser never runs out of fuel: `lines.length + 1` iterations always suffice -/
theorem parseLines_ne_fuel (ow : Bool) : ∀ (n : Nat) (lines : List Str) (st : St), lines.length ≤ n →
    parseLines ow lines st ≠ .error .fuel
  | n, [], st, _ => by simp [parseLines_nil]
  | n, l :: ls, st, hl => by
    rw [parseLines_cons]
    cases hstep : lineStep ow l ls st with
    | error e =>
      intro h; injection h with h; subst h
      exact lineStep_ne_fuel _ _ _ _ hstep
    | ok r =>
      obtain ⟨st', ls'⟩ := r
      have hlen := lineStep_length hstep
      simp only [List.length_cons] at hl
      cases n with
      | zero => omega
      | succ m => exact parseLines_ne_fuel ow m ls' st' (by omega)

/-! ### one item of the dialect = one step on the state -/

/-- what an item does to the loop state -/
def itemStep (ow : Bool) (it : Item) (st : St) : Except Err St :=
  match it with
  | .blank _ => .ok st
  | .comment _ _ => .ok st
  | .header _ _ p _ _ => .ok { st with pfx := newPrefix p }
  | .assign _ key _ _ _ value _ _ => assignStep ow st (st.pfx ++ key) value

def linesOf (s : Str) : List Str := splitOnC '\n' s

theorem not_mem_of_all_ne {s : Str} {c : Char} (h : s.all (· != c) = true) : c ∉ s := by
  intro hm
  have := (List.all_eq_true.mp h) c hm
  simp at this

theorem not_mem_of_noNl {s : Str} (h : noNl s = true) : '\n' ∉ s := not_mem_of_all_ne h

theorem blank_noNl {ws : Str} (h : blankStr ws = true) : '\n' ∉ ws := blank_not_mem h (by decide)

theorem lineStep_blank (ow : Bool) (ws : Str) (rest : List Str) (st : St) (h : blankStr ws = true) :
    lineStep ow ws rest st = .ok (st, rest) := by
  unfold lineStep
  rw [ltrim_all_ws (blank_all_ws h)]

theorem lineStep_comment (ow : Bool) (ws text : Str) (rest : List Str) (st : St) (h : blankStr ws = true) :
    lineStep ow (ws ++ '#' :: text) rest st = .ok (st, rest) := by
  unfold lineStep
  rw [ltrim_blank_append h, ltrim_cons_of_not_ws isWs_hash]
  simp

theorem lineStep_header (ow : Bool) (ws1 ws2 p ws3 junk : Str) (rest : List Str) (st : St)
    (h1 : blankStr ws1 = true) (h2 : blankStr ws2 = true) (h3 : blankStr ws3 = true)
    (hp : p.all (· != ']') = true) (ht : trimmed p = true) :
    lineStep ow (ws1 ++ '[' :: ws2 ++ p ++ ws3 ++ ']' :: junk) rest st
      = .ok ({ st with pfx := newPrefix p }, rest) := by
  unfold lineStep
  have e : ws1 ++ '[' :: ws2 ++ p ++ ws3 ++ ']' :: junk = ws1 ++ ('[' :: ((ws2 ++ p ++ ws3) ++ ']' :: junk)) := by
    simp [List.append_assoc]
  rw [e, ltrim_blank_append h1, ltrim_cons_of_not_ws isWs_lbr]
  have hnot : ']' ∉ ws2 ++ p ++ ws3 := by
    simp only [List.mem_append, not_or]
    exact ⟨⟨blank_not_mem h2 (by decide), not_mem_of_all_ne hp⟩, blank_not_mem h3 (by decide)⟩
  simp only [show ('[' == '#') = false by decide, show ('[' == '[') = true by decide, Bool.false_eq_true, if_false, if_true]
  rw [splitFirst_append ']' _ junk hnot]
  simp only
  rw [trim_padded (blank_all_ws h2) (blank_all_ws h3) ht]

/-- the part of an assignment line in front of `=`: `key ws2`, or nothing when the key is empty
    (the leading blanks of the line are trimmed first) -/
theorem key_part {key ws2 : Str} (hk : trimmed key = true) (h2 : blankStr ws2 = true) :
    rtrim (ltrim (key ++ ws2)) = key := by
  have := trim_padded (a := []) (p := key) (b := ws2) (by simp) (blank_all_ws h2) hk
  simpa using this

/-- the `default:` branch on a trimmed line `K = R0 C` (`C` an optional comment) -/
theorem lineStep_default (ow : Bool) (raw K R0 C : Str) (rest : List Str) (st : St)
    (hl : ltrim raw = K ++ '=' :: (R0 ++ C))
    (hh1 : (K ++ ['=']).head? ≠ some '#') (hh2 : (K ++ ['=']).head? ≠ some '[')
    (hKe : '=' ∉ K) (hKh : '#' ∉ K) (hR : '#' ∉ R0) (hC : C = [] ∨ ∃ t, C = '#' :: t) :
    lineStep ow raw rest st =
      andThen (assignStep ow st (st.pfx ++ rtrim (ltrim K)) (readValue R0 rest).1)
        (fun st' => .ok (st', (readValue R0 rest).2)) := by
  obtain ⟨c, r, hcr, hc⟩ : ∃ c r, K ++ '=' :: (R0 ++ C) = c :: r ∧ (K ++ ['=']).head? = some c := by
    cases K with
    | nil => exact ⟨'=', R0 ++ C, rfl, rfl⟩
    | cons c k => exact ⟨c, k ++ '=' :: (R0 ++ C), rfl, rfl⟩
  have hc1 : (c == '#') = false := by
    rw [hc] at hh1; simpa using hh1
  have hc2 : (c == '[') = false := by
    rw [hc] at hh2; simpa using hh2
  have htw : (c :: r).takeWhile (· != '#') = K ++ '=' :: R0 := by
    rw [← hcr]
    have hnot : '#' ∉ K ++ '=' :: R0 := by
      simp only [List.mem_append, List.mem_cons, not_or]
      exact ⟨hKh, by decide, hR⟩
    rcases hC with rfl | ⟨t, rfl⟩
    · simpa using takeWhile_ne_all '#' _ hnot
    · have := takeWhile_ne_stop '#' (K ++ '=' :: R0) t hnot
      simpa [List.append_assoc] using this
  unfold lineStep
  rw [hl, hcr]
  simp only [hc1, hc2, Bool.false_eq_true, if_false]
  rw [htw, splitFirst_append '=' K R0 hKe]
  dsimp only
  cases assignStep ow st (st.pfx ++ rtrim (ltrim K)) (readValue R0 rest).fst <;> rfl

/-- an assignment line `ws1 key ws2 = R0 C` -/
theorem lineStep_assign (ow : Bool) (ws1 key ws2 R0 C : Str) (rest : List Str) (st : St)
    (h1 : blankStr ws1 = true) (h2 : blankStr ws2 = true)
    (hkey : key.all (fun c => c != '=' && c != '#' && c != '\n') = true) (hkt : trimmed key = true)
    (hkb : key.head? ≠ some '[')
    (hR : '#' ∉ R0) (hC : C = [] ∨ ∃ t, C = '#' :: t) :
    lineStep ow (ws1 ++ (key ++ (ws2 ++ '=' :: (R0 ++ C)))) rest st
      = andThen (assignStep ow st (st.pfx ++ key) (readValue R0 rest).1)
          (fun st' => .ok (st', (readValue R0 rest).2)) := by
  have hk : ∀ c ∈ key, c ≠ '=' ∧ c ≠ '#' := by
    intro c hc
    have := (List.all_eq_true.mp hkey) c hc
    simp at this
    exact ⟨this.1.1, this.1.2⟩
  cases key with
  | nil =>
    have := lineStep_default ow (ws1 ++ ([] ++ (ws2 ++ '=' :: (R0 ++ C)))) [] R0 C rest st
      (by rw [ltrim_blank_append h1, List.nil_append, ltrim_blank_append h2, ltrim_cons_of_not_ws isWs_eq]; rfl)
      (by decide) (by decide) (by simp) (by simp) hR hC
    simpa [ltrim, rtrim] using this
  | cons c k =>
    have hcws : isWs c = false := by simp [trimmed] at hkt; exact hkt.1
    have := lineStep_default ow (ws1 ++ ((c :: k) ++ (ws2 ++ '=' :: (R0 ++ C)))) ((c :: k) ++ ws2) R0 C rest st
      (by rw [ltrim_blank_append h1, List.cons_append, ltrim_cons_of_not_ws hcws]; simp [List.append_assoc])
      (by simp; exact (hk c (by simp)).2)
      (by simp; simpa using hkb)
      (by simp only [List.mem_append, not_or]; exact ⟨fun h => (hk _ h).1 rfl, blank_not_mem h2 (by decide)⟩)
      (by simp only [List.mem_append, not_or]; exact ⟨fun h => (hk _ h).2 rfl, blank_not_mem h2 (by decide)⟩)
      hR hC
    rw [key_part hkt h2] at this
    exact this

/-! ### the value text -/

/-- bare value: trimmed at both ends -/
theorem readValue_bare (ws3 value ws4 : Str) (rest : List Str)
    (h3 : blankStr ws3 = true) (h4 : blankStr ws4 = true)
    (ht : trimmed value = true) (hq : value.head?.all (fun c => !isQuote c) = true) :
    readValue (ws3 ++ value ++ ws4) rest = (value, rest) := by
  unfold readValue
  rw [List.append_assoc, ltrim_blank_append h3]
  cases value with
  | nil => simp [ltrim_all_ws (blank_all_ws h4)]
  | cons c v =>
    have hcws : isWs c = false := by simp [trimmed] at ht; exact ht.1
    have hcq : (c == '\'' || c == '"') = false := by
      simp [isQuote] at hq
      simp [hq]
    rw [List.cons_append, ltrim_cons_of_not_ws hcws]
    simp only [hcq, Bool.false_eq_true, if_false]
    rw [← List.cons_append, rtrim_append_ws _ (blank_all_ws h4), rtrim_of_trimmed ht]

theorem quoteLoop_done (q : Char) (v : Str) (rest : List Str) (h : endsWith (rtrim v) q = true) :
    quoteLoop q v rest = (v, rest) := by
  cases rest <;> simp [quoteLoop, h]

theorem rtrim_closed (value ws4 : Str) (q : Char) (hq : isQuote q = true) (h4 : blankStr ws4 = true) :
    rtrim (value ++ q :: ws4) = value ++ [q] := by
  have : value ++ q :: ws4 = (value ++ [q]) ++ ws4 := by simp
  rw [this, rtrim_append_ws _ (blank_all_ws h4), rtrim_concat_of_not_ws _ (isWs_quote hq)]

theorem endsWith_closed' (a ws4 : Str) (q : Char) (hq : isQuote q = true) (h4 : blankStr ws4 = true) :
    endsWith (rtrim (a ++ q :: ws4)) q = true := by
  rw [rtrim_closed _ ws4 q hq h4, endsWith, List.getLast?_concat]
  simp

/-- quoted value closed on the same line -/
theorem readValue_quoted (ws3 value ws4 : Str) (q : Char) (rest : List Str)
    (h3 : blankStr ws3 = true) (h4 : blankStr ws4 = true) (hq : isQuote q = true) :
    readValue (ws3 ++ (q :: value ++ [q]) ++ ws4) rest = (value, rest) := by
  unfold readValue
  rw [List.append_assoc, ltrim_blank_append h3]
  have e : (q :: value ++ [q]) ++ ws4 = q :: (value ++ q :: ws4) := by simp
  rw [e, ltrim_cons_of_not_ws (isWs_quote hq)]
  have hq' : (q == '\'' || q == '"') = true := by simpa [isQuote] using hq
  simp only [hq', if_true]
  have hr := rtrim_closed value ws4 q hq h4
  rw [quoteLoop_done q _ rest (endsWith_closed' value ws4 q hq h4)]
  simp [hr]

/-- every string is one line, or a first line followed by a newline and the rest -/
theorem nl_cases (w : Str) : '\n' ∉ w ∨ ∃ w1 w2, w = w1 ++ '\n' :: w2 ∧ '\n' ∉ w1 := by
  induction w with
  | nil => left; simp
  | cons c w ih =>
    by_cases hc : c = '\n'
    · right; exact ⟨[], w, by simp [hc], by simp⟩
    · rcases ih with h | ⟨w1, w2, rfl, h1⟩
      · left; simp only [List.mem_cons, not_or]; exact ⟨fun e => hc e.symm, h⟩
      · right; exact ⟨c :: w1, w2, by simp, by simp only [List.mem_cons, not_or]; exact ⟨fun e => hc e.symm, h1⟩⟩

theorem endsWith_closed (a ws4 : Str) (q : Char) (hq : isQuote q = true) (h4 : blankStr ws4 = true) :
    endsWith (rtrim (a ++ q :: ws4)) q = true := by
  rw [rtrim_closed _ ws4 q hq h4, endsWith, List.getLast?_concat]
  simp

theorem quote_ne_nl {q : Char} (hq : isQuote q = true) : q ≠ '\n' := by
  intro e; rw [e] at hq; simp [isQuote] at hq

/-- last continuation line: it carries the closing quote -/
theorem quoteLoop_last (q : Char) (hq : isQuote q = true) (ws4 : Str) (h4 : blankStr ws4 = true) (rest : List Str)
    (w : Str) (hnl : '\n' ∉ w) (acc : Str) (hacc : q ∉ acc) :
    quoteLoop q acc (linesOf (w ++ q :: ws4) ++ rest) = (acc ++ '\n' :: (w ++ q :: ws4), rest) := by
  have hnl' : '\n' ∉ w ++ q :: ws4 := by
    simp only [List.mem_append, List.mem_cons, not_or]
    exact ⟨hnl, fun e => quote_ne_nl hq e.symm, blank_noNl h4⟩
  rw [linesOf, splitOnC_of_not_mem _ _ hnl']
  simp only [List.cons_append, List.nil_append, quoteLoop, endsWith_false_of_not_mem hacc, Bool.false_eq_true, if_false]
  apply quoteLoop_done
  have : acc ++ '\n' :: (w ++ q :: ws4) = (acc ++ '\n' :: w) ++ q :: ws4 := by simp
  rw [this]
  exact endsWith_closed _ ws4 q hq h4

/-- the continuation lines of a quoted value are appended until the closing quote -/
theorem quoteLoop_multi (q : Char) (hq : isQuote q = true) (ws4 : Str) (h4 : blankStr ws4 = true) (rest : List Str) :
    ∀ (n : Nat) (w : Str), w.length ≤ n → q ∉ w → ∀ (acc : Str), q ∉ acc →
      quoteLoop q acc (linesOf (w ++ q :: ws4) ++ rest) = (acc ++ '\n' :: (w ++ q :: ws4), rest) := by
  intro n
  induction n with
  | zero =>
    intro w hw hqw acc hacc
    have : w = [] := by cases w <;> simp at hw ⊢
    subst this
    exact quoteLoop_last q hq ws4 h4 rest [] (by simp) acc hacc
  | succ n ih =>
    intro w hw hqw acc hacc
    rcases nl_cases w with hnl | ⟨w1, w2, rfl, h1⟩
    · exact quoteLoop_last q hq ws4 h4 rest w hnl acc hacc
    · have e : (w1 ++ '\n' :: w2) ++ q :: ws4 = w1 ++ '\n' :: (w2 ++ q :: ws4) := by simp
      rw [e, linesOf, splitOnC_cons_of_not_mem _ _ _ h1]
      simp only [List.cons_append, quoteLoop, endsWith_false_of_not_mem hacc, Bool.false_eq_true, if_false]
      have hw2 : w2.length ≤ n := by simp at hw; omega
      have hq2 : q ∉ w2 := fun h => hqw (by simp [h])
      have hq1 : q ∉ w1 := fun h => hqw (by simp [h])
      have := ih w2 hw2 hq2 (acc ++ '\n' :: w1)
        (by simp only [List.mem_append, List.mem_cons, not_or]; exact ⟨hacc, quote_ne_nl hq, hq1⟩)
      simp only [linesOf] at this
      rw [this]
      simp

/-! ### one item -/

theorem parseLines_cons' (ow : Bool) (l : Str) (ls : List Str) (st : St) :
    parseLines ow (l :: ls) st = andThen (lineStep ow l ls st) (fun r => parseLines ow r.2 r.1) := by
  rw [parseLines_cons]
  cases lineStep ow l ls st with
  | error e => rfl
  | ok r => rfl

theorem parseLines_one (ow : Bool) (line : Str) (rest : List Str) (st : St) (hnl : '\n' ∉ line)
    (r : Except Err St) (h : lineStep ow line rest st = andThen r (fun st' => .ok (st', rest))) :
    parseLines ow (linesOf line ++ rest) st = andThen r (fun st' => parseLines ow rest st') := by
  rw [linesOf, splitOnC_of_not_mem _ _ hnl]
  simp only [List.cons_append, List.nil_append]
  rw [parseLines_cons', h]
  cases r <;> rfl

theorem parseLines_item (ow : Bool) (it : Item) (hwf : it.wf = true) (rest : List Str) (st : St) :
    parseLines ow (linesOf (renderItem it) ++ rest) st =
      andThen (itemStep ow it st) (fun st' => parseLines ow rest st') := by
  cases it with
  | blank ws =>
    simp only [Item.wf] at hwf
    exact parseLines_one ow ws rest st (blank_noNl hwf) (.ok st) (lineStep_blank ow ws rest st hwf)
  | comment ws text =>
    simp only [Item.wf, Bool.and_eq_true] at hwf
    refine parseLines_one ow _ rest st ?_ (.ok st) (lineStep_comment ow ws text rest st hwf.1)
    simp only [renderItem, List.mem_append, List.mem_cons, not_or]
    exact ⟨blank_noNl hwf.1, by decide, not_mem_of_noNl hwf.2⟩
  | header ws1 ws2 p ws3 junk =>
    simp only [Item.wf, Bool.and_eq_true] at hwf
    obtain ⟨⟨⟨⟨⟨⟨h1, h2⟩, h3⟩, hj⟩, hpn⟩, hpb⟩, hpt⟩ := hwf
    refine parseLines_one ow _ rest st ?_ (.ok { st with pfx := newPrefix p })
      (lineStep_header ow ws1 ws2 p ws3 junk rest st h1 h2 h3 hpb hpt)
    simp only [renderItem, List.mem_append, List.mem_cons, not_or]
    exact ⟨⟨⟨⟨blank_noNl h1, by decide, blank_noNl h2⟩, not_mem_of_noNl hpn⟩, blank_noNl h3⟩, by decide, not_mem_of_noNl hj⟩
  | assign ws1 key ws2 ws3 q value ws4 cmt =>
    simp only [Item.wf, Bool.and_eq_true] at hwf
    obtain ⟨⟨⟨⟨⟨⟨⟨⟨h1, h2⟩, h3⟩, h4⟩, hkey⟩, hkt⟩, hkb⟩, hcm⟩, hv⟩ := hwf
    have hkb' : key.head? ≠ some '[' := by simpa using hkb
    have hknl : '\n' ∉ key := by
      intro hm
      have := (List.all_eq_true.mp hkey) _ hm
      simp at this
    have hcnl : '\n' ∉ cmtText cmt := by
      cases cmt with
      | none => simp [cmtText]
      | some t =>
        simp only [cmtText, List.mem_cons, not_or]
        exact ⟨by decide, not_mem_of_noNl (by simpa using hcm)⟩
    rw [renderItem_assign]
    simp only [itemStep]
    cases q with
    | none =>
      simp only [Bool.and_eq_true] at hv
      obtain ⟨⟨hvc, hvt⟩, hvq⟩ := hv
      have hvh : '#' ∉ value := by
        intro hm; have := (List.all_eq_true.mp hvc) _ hm; simp at this
      have hvnl : '\n' ∉ value := by
        intro hm; have := (List.all_eq_true.mp hvc) _ hm; simp at this
      have hR : '#' ∉ ws3 ++ value ++ ws4 := by
        simp only [List.mem_append, not_or]
        exact ⟨⟨blank_not_mem h3 (by decide), hvh⟩, blank_not_mem h4 (by decide)⟩
      have hstep := lineStep_assign ow ws1 key ws2 (ws3 ++ value ++ ws4) (cmtText cmt) rest st
        h1 h2 hkey hkt hkb' hR (cmtText_cases cmt)
      rw [readValue_bare ws3 value ws4 rest h3 h4 hvt hvq] at hstep
      refine parseLines_one ow _ rest st ?_ (assignStep ow st (st.pfx ++ key) value) hstep
      simp only [spell, List.mem_append, List.mem_cons, not_or]
      exact ⟨blank_noNl h1, hknl, blank_noNl h2, by decide, ⟨⟨blank_noNl h3, hvnl⟩, blank_noNl h4⟩, hcnl⟩
    | some c =>
      simp only [Bool.and_eq_true] at hv
      obtain ⟨⟨⟨hcq, hvc⟩, hvh⟩, hvn⟩ := hv
      have hcv : c ∉ value := not_mem_of_all_ne hvc
      have hch : c ≠ '#' := by intro e; rw [e] at hcq; simp [isQuote] at hcq
      rcases nl_cases value with hnl | ⟨v1, v2, rfl, hv1⟩
      · -- closed on the same line
        have hvh' : '#' ∉ value := by
          rw [takeWhile_ne_all '\n' value hnl] at hvh
          exact not_mem_of_all_ne hvh
        have hR : '#' ∉ ws3 ++ (c :: value ++ [c]) ++ ws4 := by
          simp only [List.mem_append, List.mem_cons, not_or, List.cons_append, List.mem_nil_iff, or_false]
          exact ⟨⟨blank_not_mem h3 (by decide), fun e => hch e.symm, hvh', fun e => hch e.symm⟩, blank_not_mem h4 (by decide)⟩
        have hstep := lineStep_assign ow ws1 key ws2 (ws3 ++ (c :: value ++ [c]) ++ ws4) (cmtText cmt) rest st
          h1 h2 hkey hkt hkb' hR (cmtText_cases cmt)
        rw [readValue_quoted ws3 value ws4 c rest h3 h4 hcq] at hstep
        refine parseLines_one ow _ rest st ?_ (assignStep ow st (st.pfx ++ key) value) hstep
        simp only [spell, List.mem_append, List.mem_cons, not_or, List.cons_append, List.mem_nil_iff, or_false]
        exact ⟨blank_noNl h1, hknl, blank_noNl h2, by decide,
          ⟨⟨blank_noNl h3, fun e => quote_ne_nl hcq e.symm, hnl, fun e => quote_ne_nl hcq e.symm⟩, blank_noNl h4⟩, hcnl⟩
      · -- continued over several lines; no comment allowed
        have hcm' : cmt = none := by
          have : noNl (v1 ++ '\n' :: v2) = false := by simp [noNl]
          rw [this] at hvn
          simpa using hvn
        subst hcm'
        have hv1h : '#' ∉ v1 := by
          rw [takeWhile_ne_stop '\n' v1 v2 hv1] at hvh
          exact not_mem_of_all_ne hvh
        have hc1 : c ∉ v1 := fun h => hcv (by simp [h])
        have hc2 : c ∉ v2 := fun h => hcv (by simp [h])
        have e : ws1 ++ (key ++ (ws2 ++ '=' :: (ws3 ++ spell (some c) (v1 ++ '\n' :: v2) ++ ws4 ++ cmtText none))) =
            (ws1 ++ (key ++ (ws2 ++ '=' :: ((ws3 ++ c :: v1) ++ [])))) ++ '\n' :: (v2 ++ c :: ws4) := by
          simp [spell, cmtText, List.append_assoc]
        have hfirst : '\n' ∉ ws1 ++ (key ++ (ws2 ++ '=' :: ((ws3 ++ c :: v1) ++ []))) := by
          simp only [List.mem_append, List.mem_cons, not_or, List.mem_nil_iff, or_false]
          exact ⟨blank_noNl h1, hknl, blank_noNl h2, by decide, blank_noNl h3, fun e => quote_ne_nl hcq e.symm, hv1⟩
        have hR : '#' ∉ ws3 ++ c :: v1 := by
          simp only [List.mem_append, List.mem_cons, not_or]
          exact ⟨blank_not_mem h3 (by decide), fun e => hch e.symm, hv1h⟩
        have hstep := lineStep_assign ow ws1 key ws2 (ws3 ++ c :: v1) [] (linesOf (v2 ++ c :: ws4) ++ rest) st
          h1 h2 hkey hkt hkb' hR (Or.inl rfl)
        have hrv : readValue (ws3 ++ c :: v1) (linesOf (v2 ++ c :: ws4) ++ rest) = (v1 ++ '\n' :: v2, rest) := by
          unfold readValue
          rw [ltrim_blank_append h3, ltrim_cons_of_not_ws (isWs_quote hcq)]
          have hq' : (c == '\'' || c == '"') = true := by simpa [isQuote] using hcq
          simp only [hq', if_true]
          rw [quoteLoop_multi c hcq ws4 h4 rest v2.length v2 (Nat.le_refl _) hc2 v1 hc1]
          have e2 : v1 ++ '\n' :: (v2 ++ c :: ws4) = (v1 ++ '\n' :: v2) ++ c :: ws4 := by simp
          simp only [e2, rtrim_closed _ ws4 c hcq h4, List.dropLast_concat]
        rw [hrv] at hstep
        rw [e, linesOf, splitOnC_cons_of_not_mem _ _ _ hfirst]
        simp only [List.cons_append]
        rw [parseLines_cons']
        simp only [linesOf] at hstep
        rw [hstep]
        cases assignStep ow st (st.pfx ++ key) (v1 ++ '\n' :: v2) <;> rfl

/-! ### whole documents -/

theorem linesOf_renderDoc_cons (it : Item) (it2 : Item) (r : List Item) :
    linesOf (renderDoc (it :: it2 :: r)) = linesOf (renderItem it) ++ linesOf (renderDoc (it2 :: r)) := by
  simp only [renderDoc, linesOf]
  exact splitOnC_append '\n' _ _

/-- the items of one source applied to the loop state -/
def itemsStep (ow : Bool) : List Item → St → Except Err St
  | [], st => .ok st
  | it :: r, st => andThen (itemStep ow it st) (itemsStep ow r)

theorem parseLines_items (ow : Bool) : ∀ (items : List Item), (∀ it ∈ items, it.wf = true) → items ≠ [] →
    ∀ (rest : List Str) (st : St),
    parseLines ow (linesOf (renderDoc items) ++ rest) st =
      andThen (itemsStep ow items st) (fun st' => parseLines ow rest st')
  | [], _, h, _, _ => absurd rfl h
  | [it], hwf, _, rest, st => by
    simp only [renderDoc, itemsStep]
    rw [parseLines_item ow it (hwf it (by simp)) rest st]
    cases itemStep ow it st <;> rfl
  | it :: it2 :: r, hwf, _, rest, st => by
    rw [linesOf_renderDoc_cons, List.append_assoc, parseLines_item ow it (hwf it (by simp))]
    simp only [itemsStep]
    cases h : itemStep ow it st with
    | error e => rfl
    | ok st' =>
      simp only [andThen_ok]
      have := parseLines_items ow (it2 :: r) (fun x hx => hwf x (List.mem_cons_of_mem _ hx)) (by simp) rest st'
      simpa [itemsStep] using this

/-- `applyAll` never touches the prefix -/
theorem assignStep_pfx {ow : Bool} {st st' : St} {k v : Str} (h : assignStep ow st k v = .ok st') : st'.pfx = st.pfx := by
  unfold assignStep at h
  split at h
  · simp at h
  · cases ow with
    | true =>
      simp only [if_true] at h
      cases hs : st.tree.set k v with
      | error e => rw [hs] at h; simp at h
      | ok t => rw [hs] at h; simp at h; rw [← h]
    | false =>
      simp only [Bool.false_eq_true, if_false] at h
      cases hk : st.tree.hasKey k with
      | error e => rw [hk] at h; simp at h
      | ok b =>
        rw [hk] at h
        cases b with
        | true => simp at h; rw [← h]
        | false =>
          simp only at h
          cases hs : st.tree.set k v with
          | error e => rw [hs] at h; simp at h
          | ok t => rw [hs] at h; simp at h; rw [← h]

theorem assignStep_setPfx (ow : Bool) (st : St) (p k v : Str) :
    assignStep ow { st with pfx := p } k v = andThen (assignStep ow st k v) (fun s => .ok { s with pfx := p }) := by
  unfold assignStep
  simp only
  split
  · rfl
  · split <;> rfl

theorem applyAll_setPfx (ow : Bool) : ∀ (es : List (Str × Str)) (st : St) (p : Str),
    applyAll ow es { st with pfx := p } = andThen (applyAll ow es st) (fun s => .ok { s with pfx := p })
  | [], st, p => rfl
  | (k, v) :: r, st, p => by
    simp only [applyAll]
    rw [assignStep_setPfx]
    cases h : assignStep ow st k v with
    | error e => rfl
    | ok s => simp only [andThen_ok]; exact applyAll_setPfx ow r s p

/-- items = the assignments they denote -/
theorem itemsStep_eq_applyAll (ow : Bool) : ∀ (items : List Item) (st : St),
    itemsStep ow items st =
      andThen (applyAll ow (denote st.pfx items) st) (fun s => .ok { s with pfx := lastPrefix st.pfx items })
  | [], st => by simp [itemsStep, denote, applyAll, lastPrefix]
  | .blank _ :: r, st => by
    simp only [itemsStep, itemStep, denote, lastPrefix, andThen_ok]
    exact itemsStep_eq_applyAll ow r st
  | .comment _ _ :: r, st => by
    simp only [itemsStep, itemStep, denote, lastPrefix, andThen_ok]
    exact itemsStep_eq_applyAll ow r st
  | .header _ _ p _ _ :: r, st => by
    simp only [itemsStep, itemStep, denote, lastPrefix, andThen_ok]
    rw [itemsStep_eq_applyAll ow r]
    simp only
    rw [applyAll_setPfx]
    cases applyAll ow (denote (newPrefix p) r) st <;> rfl
  | .assign _ k _ _ _ v _ _ :: r, st => by
    simp only [itemsStep, itemStep, denote, lastPrefix, applyAll]
    cases h : assignStep ow st (st.pfx ++ k) v with
    | error e => rfl
    | ok st' =>
      simp only [andThen_ok]
      rw [itemsStep_eq_applyAll ow r st', assignStep_pfx h]

/-- **text level**: reading a document of the dialect = applying, in order, the assignments it denotes -/
theorem parseINI_renderDoc (items : List Item) (hwf : ∀ it ∈ items, it.wf = true) (t : Tree) (ow : Bool) :
    parseINI (renderDoc items) t ow =
      andThen (applyAll ow (denote [] items) ⟨[], [], t⟩) (fun s => .ok s.tree) := by
  unfold parseINI
  cases items with
  | nil =>
    have : parseLines ow (splitOnC '\n' (renderDoc [])) ⟨[], [], t⟩ = .ok ⟨[], [], t⟩ := by
      simp only [renderDoc, splitOnC]
      rw [parseLines_cons', lineStep_blank ow [] [] _ rfl]
      simp [parseLines_nil]
    rw [this]
    simp [denote, applyAll]
  | cons it r =>
    have h := parseLines_items ow (it :: r) hwf (by simp) [] ⟨[], [], t⟩
    simp only [List.append_nil, linesOf] at h
    rw [h, itemsStep_eq_applyAll]
    cases applyAll ow (denote [] (it :: r)) ⟨[], [], t⟩ with
    | error e => rfl
    | ok s => simp [parseLines_nil]

/-- the parser terminates on every input: the fuel `lines.length + 1` is never exhausted -/
theorem parseINI_ne_fuel (doc : Str) (t : Tree) (ow : Bool) : parseINI doc t ow ≠ .error .fuel := by
  unfold parseINI
  have := parseLines_ne_fuel ow _ (splitOnC '\n' doc) ⟨[], [], t⟩ (Nat.le_refl _)
  cases h : parseLines ow (splitOnC '\n' doc) ⟨[], [], t⟩ with
  | error e =>
    intro h2
    simp at h2
    rw [h2] at h
    exact this h
  | ok s => simp

end DV.C12
