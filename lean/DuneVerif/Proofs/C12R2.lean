/-
C12, round two: lemmas behind the strengthened / added property theorems
  * key order for both values of the overwrite flag
  * the non-const `sub()` (group creation) and `pt.sub(g)[k] = v` versus `pt[g.k] = v`
  * bitsets, strings, blank-separated words, characters, round trips of sequences
-/
import DuneVerif.Proofs.C12Compat
import DuneVerif.Proofs.C12Lex
import DuneVerif.Proofs.C12Opt

namespace DV.C12

/-! ## 1. key order: a skipped assignment is an assignment of the value already there -/

theorem setPath_same : ∀ (p : List Str) (t : Tree) (s : Str), getPath p t = some s → setPath p s t = .ok t
  | [], _, _, h => by simp [getPath] at h
  | [k], .node vals subs, s, h => by
    simp only [getPath] at h
    by_cases h1 : aHas k vals = true
    · by_cases h2 : aHas k subs = true
      · simp [h1, h2] at h
      · simp [h1, h2] at h
        simp [setPath, h1, h2, aSet_of_aGet? k s vals h]
    · simp [h1] at h
  | k :: k2 :: rest, .node vals subs, s, h => by
    simp only [getPath] at h
    by_cases h1 : aHas k vals = true
    · simp [h1] at h
    · simp only [h1, Bool.false_eq_true, if_false] at h
      cases hg : aGet? k subs with
      | none => rw [hg] at h; cases h
      | some sub =>
        rw [hg] at h
        have ih := setPath_same (k2 :: rest) sub s h
        simp [setPath, h1, hg, ih, aSet_of_aGet? k sub subs hg]

/-- every accepted assignment acts on the tree as `pt[key] = w` for some `w` (the written value, or — when the
    assignment is skipped because the key exists and `overwrite` is off — the value already stored) -/
theorem assignStep_as_set {ow : Bool} {st st' : St} {k v : Str} (h : assignStep ow st k v = .ok st') :
    ∃ w, setPath (comps k) w st.tree = .ok st'.tree := by
  unfold assignStep at h
  split at h
  · simp at h
  · cases ow with
    | true =>
      simp only [if_true] at h
      cases hs : st.tree.set k v with
      | error e => rw [hs] at h; simp at h
      | ok t =>
        rw [hs] at h
        simp only [Except.ok.injEq] at h
        subst h
        exact ⟨v, hs⟩
    | false =>
      simp only [Bool.false_eq_true, if_false] at h
      cases hk : st.tree.hasKey k with
      | error e => rw [hk] at h; simp at h
      | ok b =>
        rw [hk] at h
        cases b with
        | true =>
          simp only [Except.ok.injEq] at h
          subst h
          obtain ⟨s, hs⟩ := getPath_of_hasKeyPath_true (comps k) st.tree hk
          exact ⟨s, setPath_same _ _ _ hs⟩
        | false =>
          simp only at h
          cases hs : st.tree.set k v with
          | error e => rw [hs] at h; simp at h
          | ok t =>
            rw [hs] at h
            simp only [Except.ok.injEq] at h
            subst h
            exact ⟨v, hs⟩

/-- a whole source, either flag: a sequence of `pt[key] = …` on the same keys in the same order -/
theorem applyAll_setAllP_any (ow : Bool) : ∀ (es : List (Str × Str)) (st st' : St), applyAll ow es st = .ok st' →
    ∃ ps, ps.map (·.1) = es.map (fun e => comps e.1) ∧ setAllP ps st.tree = .ok st'.tree
  | [], st, st', h => by
    simp only [applyAll] at h; injection h with h; subst h; exact ⟨[], rfl, rfl⟩
  | (k, v) :: r, st, st', h => by
    simp only [applyAll] at h
    cases hs : assignStep ow st k v with
    | error e => rw [hs] at h; simp at h
    | ok s1 =>
      rw [hs] at h
      simp only at h
      obtain ⟨w, hw⟩ := assignStep_as_set hs
      obtain ⟨ps, hp1, hp2⟩ := applyAll_setAllP_any ow r s1 st' h
      refine ⟨(comps k, w) :: ps, by simp [hp1], ?_⟩
      simp only [setAllP, hw, andThen_ok]
      exact hp2

/-- the part of a key path that concerns the group `g` -/
def underK (g : Str) (p : List Str) : Option (List Str) :=
  match p with
  | k :: k2 :: r => if k = g then some (k2 :: r) else none
  | _ => none

theorem under_fst (g : Str) (e : List Str × Str) : (under g e).map (·.1) = underK g e.1 := by
  obtain ⟨p, v⟩ := e
  match p with
  | [] => rfl
  | [_] => rfl
  | k :: k2 :: r =>
    simp only [under, underK]
    by_cases hk : k = g <;> simp [hk]

theorem filterMap_under_fst (g : Str) : ∀ (ps : List (List Str × Str)),
    (ps.filterMap (under g)).map (·.1) = (ps.map (·.1)).filterMap (underK g)
  | [] => rfl
  | e :: r => by
    have h := under_fst g e
    simp only [List.filterMap_cons, List.map_cons]
    cases hu : under g e with
    | none =>
      rw [hu] at h
      simp only [Option.map_none] at h
      rw [← h]
      exact filterMap_under_fst g r
    | some q =>
      rw [hu] at h
      simp only [Option.map_some] at h
      rw [← h]
      simp only [List.map_cons]
      rw [filterMap_under_fst g r]

/-- the key paths below a group path depend on the key paths only -/
theorem descend_fst : ∀ (gs : List Str) (ps ps' : List (List Str × Str)), ps.map (·.1) = ps'.map (·.1) →
    (descend gs ps).map (·.1) = (descend gs ps').map (·.1)
  | [], _, _, h => h
  | g :: gs, ps, ps', h => by
    apply descend_fst gs
    rw [filterMap_under_fst, filterMap_under_fst, h]

theorem map_comp_fst {β} (f : List Str → β) (ps : List (List Str × Str)) :
    ps.map (fun e => f e.1) = (ps.map (·.1)).map f := by
  simp [List.map_map, Function.comp_def]

/-! ## 2. the non-const `sub()` -/

theorem mkSubPath_hasSub : ∀ (g : List Str) (t t1 : Tree), g ≠ [] → mkSubPath g t = .ok t1 → hasSubPath g t1 = .ok true
  | [], _, _, hne, _ => absurd rfl hne
  | [k], .node vals subs, t1, _, h => by
    simp only [mkSubPath] at h
    by_cases h1 : aHas k vals = true
    · simp [h1] at h
    · simp only [h1, Bool.false_eq_true, if_false, Except.ok.injEq] at h
      subst h
      simp [hasSubPath, h1, aHas_aSet]
  | k :: k2 :: rest, .node vals subs, t1, _, h => by
    simp only [mkSubPath] at h
    by_cases h1 : aHas k vals = true
    · simp [h1] at h
    · simp only [h1, Bool.false_eq_true, if_false] at h
      cases hm : mkSubPath (k2 :: rest) ((aGet? k subs).getD .empty) with
      | error e => rw [hm] at h; simp at h
      | ok s' =>
        rw [hm] at h
        simp only [Except.ok.injEq] at h
        subst h
        have ih := mkSubPath_hasSub (k2 :: rest) _ s' (by simp) hm
        simp [hasSubPath, aGet?_aSet_self, h1, ih]

/-- creating a group changes no value -/
theorem mkSubPath_getPath : ∀ (g : List Str) (t t1 : Tree), mkSubPath g t = .ok t1 → ∀ q, getPath q t1 = getPath q t
  | [], t, t1, h, q => by
    simp only [mkSubPath] at h; injection h with h; subst h; rfl
  | k :: rest, .node vals subs, t1, h, q => by
    simp only [mkSubPath] at h
    by_cases h1 : aHas k vals = true
    · simp [h1] at h
    · simp only [h1, Bool.false_eq_true, if_false] at h
      cases hm : mkSubPath rest ((aGet? k subs).getD .empty) with
      | error e => rw [hm] at h; simp at h
      | ok s' =>
        rw [hm] at h
        simp only [Except.ok.injEq] at h
        subst h
        have ih := mkSubPath_getPath rest _ s' hm
        match q with
        | [] => rfl
        | [k'] =>
          simp only [getPath]
          by_cases hk : k' = k
          · subst hk
            simp [h1]
          · have : aHas k' (aSet k s' subs) = aHas k' subs := by
              rw [aHas_aSet]; simp [hk]
            rw [this]
        | k' :: q2 :: qr =>
          simp only [getPath]
          by_cases hk : k' = k
          · subst hk
            simp only [h1, Bool.false_eq_true, if_false, aGet?_aSet_self]
            rw [ih (q2 :: qr)]
            cases hg : aGet? k' subs with
            | none => simp [getPath_empty]
            | some c => simp
          · rw [aGet?_aSet_ne _ hk]

/-- `pt.sub(g)` first and then `pt[g.k…] = v` is the same as `pt[g.k…] = v` alone: the assignment through a dotted
    key creates exactly the groups `sub()` creates -/
theorem mkSubPath_then_setPath : ∀ (g p : List Str) (v : Str) (t t1 : Tree), p ≠ [] → mkSubPath g t = .ok t1 →
    setPath (g ++ p) v t1 = setPath (g ++ p) v t
  | [], p, v, t, t1, _, h => by
    simp only [mkSubPath] at h; injection h with h; subst h; rfl
  | k :: rest, p, v, .node vals subs, t1, hp, h => by
    simp only [mkSubPath] at h
    by_cases h1 : aHas k vals = true
    · simp [h1] at h
    · simp only [h1, Bool.false_eq_true, if_false] at h
      cases hm : mkSubPath rest ((aGet? k subs).getD .empty) with
      | error e => rw [hm] at h; simp at h
      | ok s' =>
        rw [hm] at h
        simp only [Except.ok.injEq] at h
        subst h
        have ih := mkSubPath_then_setPath rest p v _ s' hp hm
        obtain ⟨x, xs, hx⟩ : ∃ x xs, rest ++ p = x :: xs := by
          cases hrp : rest ++ p with
          | nil => simp at hrp; exact absurd hrp.2 hp
          | cons x xs => exact ⟨x, xs, rfl⟩
        simp only [List.cons_append, hx] at ih ⊢
        simp only [setPath, h1, Bool.false_eq_true, if_false, aGet?_aSet_self, Option.getD_some]
        rw [ih]
        cases setPath (x :: xs) v ((aGet? k subs).getD .empty) with
        | error e => rfl
        | ok s'' => simp [aSet_aSet]

/-! ## 3. bitsets -/

theorem parseBitset_iff (n : Nat) (s : Str) (bs : List Bool) :
    parseBitset n s = some bs ↔
      (splitWs s).length = n ∧ Forall₂ (fun tok b => parseBool tok = some b) (splitWs s) bs := by
  unfold parseBitset
  by_cases hn : (splitWs s).length = n
  · simp only [hn, bne_self_eq_false, Bool.false_eq_true, if_false, true_and]
    exact mapM_option_iff parseBool (splitWs s) bs
  · simp [hn]

/-! ## 4. strings: `ltrim(rtrim(s))` is the unique trimmed middle part -/

theorem rtrim_last : ∀ (s : Str) (c : Char), (rtrim s).getLast? = some c → isWs c = false
  | [], c, h => by simp [rtrim] at h
  | x :: xs, c, h => by
    simp only [rtrim] at h
    cases hr : rtrim xs with
    | nil =>
      rw [hr] at h
      by_cases hx : isWs x = true
      · simp [hx] at h
      · simp [hx] at h
        subst h
        simpa using hx
    | cons a b =>
      rw [hr] at h
      simp only at h
      have : (rtrim xs).getLast? = some c := by
        rw [hr]
        rw [List.getLast?_cons_cons] at h
        exact h
      exact rtrim_last xs c this

theorem rtrim_split : ∀ (s : Str), ∃ post, (∀ c ∈ post, isWs c = true) ∧ s = rtrim s ++ post
  | [] => ⟨[], by simp, rfl⟩
  | x :: xs => by
    obtain ⟨post, hp, hs⟩ := rtrim_split xs
    simp only [rtrim]
    cases hr : rtrim xs with
    | nil =>
      rw [hr] at hs
      by_cases hx : isWs x = true
      · refine ⟨x :: post, ?_, ?_⟩
        · intro c hc
          simp only [List.mem_cons] at hc
          rcases hc with rfl | hc
          · exact hx
          · exact hp c hc
        · simp only [hx, if_true, List.nil_append]
          rw [hs]; rfl
      · refine ⟨post, hp, ?_⟩
        simp only [hx, if_false, Bool.false_eq_true]
        rw [hs]; rfl
    | cons a b =>
      rw [hr] at hs
      exact ⟨post, hp, by simp only; rw [List.cons_append, ← hs]⟩

theorem getLast?_dropWhile {α} (p : α → Bool) : ∀ (l : List α) (c : α), (l.dropWhile p).getLast? = some c → l.getLast? = some c
  | [], c, h => by simp at h
  | x :: xs, c, h => by
    by_cases hx : p x = true
    · rw [List.dropWhile_cons_of_pos hx] at h
      have ih := getLast?_dropWhile p xs c h
      cases xs with
      | nil => simp at ih
      | cons y ys => rw [List.getLast?_cons_cons]; exact ih
    · rw [List.dropWhile_cons_of_neg hx] at h
      exact h

theorem parseString_trimmed (s : Str) : trimmed (parseString s) = true := by
  unfold parseString trimmed
  simp only [Bool.and_eq_true]
  constructor
  · cases hh : (ltrim (rtrim s)).head? with
    | none => rfl
    | some c =>
      have := head?_dropWhile_not isWs (rtrim s) c (by unfold ltrim at hh; exact hh)
      simp [this]
  · cases hl : (ltrim (rtrim s)).getLast? with
    | none => rfl
    | some c =>
      have h1 := getLast?_dropWhile isWs (rtrim s) c (by unfold ltrim at hl; exact hl)
      have := rtrim_last s c h1
      simp [this]

/-- `Parser<std::string>::parse(s) = m` exactly when `s` is `m` between two runs of blanks and `m` has no blank
    at either end -/
theorem parseString_iff (s m : Str) :
    parseString s = m ↔
      ∃ pre post, s = pre ++ m ++ post ∧ (∀ c ∈ pre, isWs c = true) ∧ (∀ c ∈ post, isWs c = true) ∧ trimmed m = true := by
  constructor
  · rintro rfl
    obtain ⟨post, hpost, hs⟩ := rtrim_split s
    refine ⟨(rtrim s).takeWhile isWs, post, ?_, fun c hc => mem_takeWhile_pos isWs _ c hc, hpost, parseString_trimmed s⟩
    unfold parseString ltrim
    rw [List.takeWhile_append_dropWhile]
    exact hs
  · rintro ⟨pre, post, rfl, hpre, hpost, hm⟩
    unfold parseString
    rw [rtrim_append_ws _ hpost]
    cases hl : m.getLast? with
    | none =>
      have : m = [] := by simpa using hl
      subst this
      simp [rtrim_all_ws hpre, ltrim]
    | some c =>
      have hc : isWs c = false := by
        simp only [trimmed, Bool.and_eq_true] at hm
        have := hm.2
        rw [hl] at this
        simpa using this
      have hlast : (pre ++ m).getLast? = some c := by
        rw [List.getLast?_append, hl]; rfl
      rw [rtrim_of_getLast hlast hc, ltrim_ws_append hpre]
      exact ltrim_of_trimmed hm

/-! ## 5. blank-separated words (`ParameterTree::split`, `operator>>` into a string) -/

/-- `s` consists of exactly the words `ws` (maximal runs of non-blank characters) separated/surrounded by blanks
    of the class `sp` -/
inductive WordsOf (sp : Char → Bool) : Str → List Str → Prop
  | nil {post : Str} : (∀ c ∈ post, sp c = true) → WordsOf sp post []
  | cons {pre w rest : Str} {ws : List Str} :
      (∀ c ∈ pre, sp c = true) → w ≠ [] → (∀ c ∈ w, sp c = false) → (∀ c, rest.head? = some c → sp c = true) →
      WordsOf sp rest ws → WordsOf sp (pre ++ w ++ rest) (w :: ws)

theorem WordsOf.prepend {sp : Char → Bool} {a s : Str} {ws : List Str} (ha : ∀ c ∈ a, sp c = true)
    (h : WordsOf sp s ws) : WordsOf sp (a ++ s) ws := by
  cases h with
  | nil hp =>
    exact WordsOf.nil (by
      intro c hc
      simp only [List.mem_append] at hc
      rcases hc with hc | hc
      · exact ha c hc
      · exact hp c hc)
  | @cons pre w rest ws hpre hne hw hr hrest =>
    have : a ++ (pre ++ w ++ rest) = (a ++ pre) ++ w ++ rest := by simp [List.append_assoc]
    rw [this]
    exact WordsOf.cons (by
      intro c hc
      simp only [List.mem_append] at hc
      rcases hc with hc | hc
      · exact ha c hc
      · exact hpre c hc) hne hw hr hrest

theorem wordsOf_nil_inv {sp : Char → Bool} : ∀ {s : Str} {ws : List Str}, WordsOf sp s ws → s = [] → ws = [] := by
  intro s ws h
  cases h with
  | nil _ => intro _; rfl
  | @cons pre w rest ws' _ hne _ _ _ =>
    intro hs
    simp only [List.append_eq_nil_iff] at hs
    exact absurd hs.1.2 hne

theorem splitWsGo_nil (cur : Str) : splitWsGo [] cur = if cur = [] then [] else [cur] := rfl

theorem splitWsGo_word : ∀ (w rest cur : Str), (∀ c ∈ w, isWs c = false) → splitWsGo (w ++ rest) cur = splitWsGo rest (cur ++ w)
  | [], rest, cur, _ => by simp
  | c :: w, rest, cur, h => by
    have hc : isWs c = false := h c (by simp)
    simp only [List.cons_append, splitWsGo, hc, Bool.false_eq_true, if_false]
    rw [splitWsGo_word w rest (cur ++ [c]) (fun x hx => h x (List.mem_cons_of_mem _ hx))]
    simp [List.append_assoc]

theorem splitWsGo_blanks : ∀ (pre rest : Str), (∀ c ∈ pre, isWs c = true) → splitWsGo (pre ++ rest) [] = splitWsGo rest []
  | [], rest, _ => rfl
  | c :: pre, rest, h => by
    have hc : isWs c = true := h c (by simp)
    simp only [List.cons_append, splitWsGo, hc, if_true]
    exact splitWsGo_blanks pre rest (fun x hx => h x (List.mem_cons_of_mem _ hx))

/-- the words are unique: whatever decomposition of `s` into blanks and words, `split` returns those words -/
theorem splitWs_of_wordsOf {s : Str} {ws : List Str} (h : WordsOf isWs s ws) : splitWs s = ws := by
  unfold splitWs
  induction h with
  | nil hp =>
    rename_i post
    have := splitWsGo_blanks post [] hp
    simp only [List.append_nil] at this
    rw [this]; rfl
  | @cons pre w rest ws hpre hne hw hr hrest ih =>
    rw [List.append_assoc, splitWsGo_blanks pre _ hpre, splitWsGo_word w rest [] hw, List.nil_append]
    cases rest with
    | nil =>
      have : ws = [] := wordsOf_nil_inv hrest rfl
      subst this
      simp [splitWsGo_nil, hne]
    | cons c r =>
      have hc : isWs c = true := hr c rfl
      simp only [splitWsGo, hc, if_true, hne, if_false] at ih ⊢
      rw [ih]

theorem wordsOf_splitWsGo : ∀ (n : Nat) (s : Str), s.length ≤ n → WordsOf isWs s (splitWsGo s [])
  | 0, s, h => by
    have : s = [] := by cases s with | nil => rfl | cons _ _ => simp at h
    subst this
    exact WordsOf.nil (by simp)
  | n + 1, s, h => by
    have hs : s = s.takeWhile isWs ++ s.dropWhile isWs := List.takeWhile_append_dropWhile.symm
    have hpre : ∀ c ∈ s.takeWhile isWs, isWs c = true := fun c hc => mem_takeWhile_pos isWs s c hc
    cases hd : s.dropWhile isWs with
    | nil =>
      have hall : ∀ c ∈ s, isWs c = true := (dropWhile_nil_iff isWs s).mp hd
      have := splitWsGo_blanks s [] hall
      simp only [List.append_nil] at this
      rw [this]
      exact WordsOf.nil hall
    | cons c r =>
      have hc : isWs c = false := head?_dropWhile_not isWs s c (by rw [hd]; rfl)
      let nw : Char → Bool := fun x => !isWs x
      have hw : ∀ x ∈ (c :: r).takeWhile nw, isWs x = false := by
        intro x hx
        have := mem_takeWhile_pos nw (c :: r) x hx
        simpa [nw] using this
      have hwne : (c :: r).takeWhile nw ≠ [] := by
        rw [List.takeWhile_cons_of_pos (by simp [nw, hc])]; simp
      have hrest : ∀ x, ((c :: r).dropWhile nw).head? = some x → isWs x = true := by
        intro x hx
        have := head?_dropWhile_not nw (c :: r) x hx
        simpa [nw] using this
      have hsplit : c :: r = (c :: r).takeWhile nw ++ (c :: r).dropWhile nw := List.takeWhile_append_dropWhile.symm
      have hlen : ((c :: r).dropWhile nw).length ≤ n := by
        have h1 : s.length = (s.takeWhile isWs).length + (c :: r).length := by
          conv => lhs; rw [hs, hd]
          simp
        have h2 : (c :: r).length = ((c :: r).takeWhile nw).length + ((c :: r).dropWhile nw).length := by
          have := congrArg List.length hsplit
          rw [List.length_append] at this
          exact this
        have h3 : 0 < ((c :: r).takeWhile nw).length :=
          Nat.pos_of_ne_zero (fun h0 => hwne (List.eq_nil_of_length_eq_zero h0))
        omega
      have ih := wordsOf_splitWsGo n _ hlen
      have key : splitWsGo s [] = (c :: r).takeWhile nw :: splitWsGo ((c :: r).dropWhile nw) [] := by
        conv => lhs; rw [hs, hd]
        rw [splitWsGo_blanks _ _ hpre]
        conv => lhs; rw [hsplit]
        rw [splitWsGo_word _ _ [] hw, List.nil_append]
        cases hdd : (c :: r).dropWhile nw with
        | nil => simp [splitWsGo_nil, hwne]
        | cons y ys =>
          have hy : isWs y = true := hrest y (by rw [hdd]; rfl)
          simp [splitWsGo, hy, hwne]
      rw [key]
      have hfull : s = s.takeWhile isWs ++ (c :: r).takeWhile nw ++ (c :: r).dropWhile nw := by
        rw [List.append_assoc, ← hsplit, ← hd]; exact hs
      rw [hfull]
      exact WordsOf.cons hpre hwne hw hrest ih

/-- **`ParameterTree::split`**: the result is the list of maximal runs of non-blank characters, and only that -/
theorem splitWs_iff (s : Str) (ws : List Str) : splitWs s = ws ↔ WordsOf isWs s ws := by
  constructor
  · rintro rfl
    exact wordsOf_splitWsGo s.length s (Nat.le_refl _)
  · exact splitWs_of_wordsOf

/-! ### one word read by `operator>>`, fixed-size arrays of strings -/

theorem extractWord_iff (s w rest : Str) :
    extractWord s = some (w, rest) ↔
      ∃ pre, s = pre ++ w ++ rest ∧ AllSpace pre ∧ w ≠ [] ∧ (∀ c ∈ w, isSpaceC c = false) ∧
        (∀ c, rest.head? = some c → isSpaceC c = true) := by
  let ns : Char → Bool := fun c => !isSpaceC c
  constructor
  · intro h
    unfold extractWord at h
    simp only at h
    obtain ⟨pre, hpre, hs⟩ := skipWs_split s
    by_cases hw : (skipWs s).takeWhile ns = []
    · simp [ns, hw] at h
    · have h' : (skipWs s).takeWhile ns = w ∧ (skipWs s).dropWhile ns = rest := by
        simpa [ns, hw] using h
      obtain ⟨rfl, rfl⟩ := h'
      refine ⟨pre, ?_, hpre, hw, ?_, ?_⟩
      · rw [List.append_assoc, List.takeWhile_append_dropWhile]; exact hs
      · intro c hc
        have := mem_takeWhile_pos ns _ c hc
        simpa [ns] using this
      · intro c hc
        have := head?_dropWhile_not ns _ c hc
        simpa [ns] using this
  · rintro ⟨pre, rfl, hpre, hne, hw, hr⟩
    unfold extractWord
    have h1 : skipWs (pre ++ w ++ rest) = w ++ rest := by
      rw [List.append_assoc, skipWs_append_of_allSpace hpre]
      cases w with
      | nil => exact absurd rfl hne
      | cons c w' => exact skipWs_cons_of_not_space (hw c (by simp))
    have h2 : (w ++ rest).takeWhile ns = w := by
      rw [List.takeWhile_append_of_pos (by intro c hc; simp [ns, hw c hc])]
      cases rest with
      | nil => simp
      | cons c r =>
        have := hr c rfl
        rw [List.takeWhile_cons_of_neg (by simp [ns, this])]; simp
    have h3 : (w ++ rest).dropWhile ns = rest := by
      rw [List.dropWhile_append_of_pos (by intro c hc; simp [ns, hw c hc])]
      cases rest with
      | nil => simp
      | cons c r =>
        have := hr c rfl
        rw [List.dropWhile_cons_of_neg (by simp [ns, this])]
    simp only [h1]
    have h2' : (w ++ rest).takeWhile (fun c => !isSpaceC c) = w := h2
    have h3' : (w ++ rest).dropWhile (fun c => !isSpaceC c) = rest := h3
    simp [h2', h3', hne]

/-- `get<std::array<std::string,n>>`: exactly `n` blank-separated words (blank class of `operator>>`) -/
theorem parseRange_word_iff (n : Nat) (s : Str) (ws : List Str) :
    parseRange extractWord n s = some ws ↔ ws.length = n ∧ WordsOf isSpaceC s ws := by
  induction n generalizing s ws with
  | zero =>
    rw [parseRange_zero_eq_some]
    constructor
    · rintro ⟨rfl, h⟩; exact ⟨rfl, WordsOf.nil h⟩
    · rintro ⟨hl, h⟩
      cases h with
      | nil h => exact ⟨rfl, h⟩
      | cons => simp at hl
  | succ n ih =>
    rw [parseRange_succ_eq_some]
    constructor
    · rintro ⟨v, rest, vs', h1, h2, rfl⟩
      obtain ⟨hl, hi⟩ := (ih rest vs').mp h2
      obtain ⟨pre, rfl, hpre, hne, hw, hr⟩ := (extractWord_iff s v rest).mp h1
      exact ⟨by simp [hl], WordsOf.cons hpre hne hw hr hi⟩
    · rintro ⟨hl, h⟩
      cases h with
      | nil h => simp at hl
      | @cons pre w rest ws' hpre hne hw hr hi =>
        refine ⟨w, rest, ws', ?_, ?_, rfl⟩
        · exact (extractWord_iff _ w rest).mpr ⟨pre, rfl, hpre, hne, hw, hr⟩
        · exact (ih rest ws').mpr ⟨by simpa using hl, hi⟩

/-! ## 6. characters -/

/-- `get<char>`: exactly one non-blank character between blanks -/
theorem parseChar_iff (s : Str) (c : Char) :
    parseScalar extractChar s = some c ↔
      ∃ pre post, s = pre ++ c :: post ∧ AllSpace pre ∧ AllSpace post ∧ isSpaceC c = false := by
  rw [parseScalar_eq_some]
  constructor
  · rintro ⟨rest, h, hrest⟩
    unfold extractChar at h
    obtain ⟨pre, hpre, hs⟩ := skipWs_split s
    cases hk : skipWs s with
    | nil => rw [hk] at h; cases h
    | cons x r =>
      rw [hk] at h hs
      simp only [Option.some.injEq, Prod.mk.injEq] at h
      obtain ⟨rfl, rfl⟩ := h
      have hx : isSpaceC x = false := by
        have := head?_dropWhile_not isSpaceC s x (by unfold skipWs at hk; rw [hk]; rfl)
        exact this
      exact ⟨pre, r, hs, hpre, hrest, hx⟩
  · rintro ⟨pre, post, rfl, hpre, hpost, hc⟩
    refine ⟨post, ?_, hpost⟩
    unfold extractChar
    rw [skipWs_append_of_allSpace hpre, skipWs_cons_of_not_space hc]

/-! ## 7. round trips of sequences -/

theorem IntItems.prepend {ty : IntTy} {a s : Str} {vs : List Int} (ha : AllSpace a) (h : IntItems ty s vs) :
    IntItems ty (a ++ s) vs := by
  cases h with
  | nil hp =>
    exact IntItems.nil (by
      intro c hc
      simp only [List.mem_append] at hc
      rcases hc with hc | hc
      · exact ha c hc
      · exact hp c hc)
  | @cons pre sign digs rest v vs hpre hsign hne hdig hrest hden hi =>
    have : a ++ (pre ++ sign ++ digs ++ rest) = (a ++ pre) ++ sign ++ digs ++ rest := by simp [List.append_assoc]
    rw [this]
    exact IntItems.cons (by
      intro c hc
      simp only [List.mem_append] at hc
      rcases hc with hc | hc
      · exact ha c hc
      · exact hpre c hc) hsign hne hdig hrest hden hi

theorem denotes_showInt (ty : IntTy) (i : Int) (hlo : ty.lo ≤ i) (hhi : i ≤ ty.hi) :
    ty.denotes (if i < 0 then ['-'] else []) (showNat i.natAbs) i := by
  unfold IntTy.denotes
  rw [digitsVal_showNat]
  cases hsg : ty.signed with
  | true =>
    simp only [if_true]
    refine ⟨?_, hlo, hhi⟩
    by_cases h : i < 0
    · simp only [h, if_true]; omega
    · simp only [h, if_false]
      have : ¬ ([] : Str) = ['-'] := by simp
      simp only [this, if_false]; omega
  | false =>
    have h0 : (0 : Int) ≤ i := by
      have : ty.lo = 0 := by simp [IntTy.lo, hsg]
      omega
    have h : ¬ i < 0 := by omega
    have hn : ¬ ([] : Str) = ['-'] := by simp
    simp only [Bool.false_eq_true, if_false, h, hn]
    constructor <;> omega

theorem signOK_showInt (i : Int) : SignOK (if i < 0 then ['-'] else []) := by
  by_cases h : i < 0 <;> simp [h, SignOK]

theorem allSpace_blank : AllSpace [' '] := by
  intro c hc
  simp only [List.mem_singleton] at hc
  subst hc
  decide

theorem noDigHead_blank (r : Str) : NoDigHead (' ' :: r) := by
  intro c hc
  simp only [List.head?_cons, Option.some.injEq] at hc
  subst hc
  decide

/-- the canonical texts of in-range integers, separated by one blank, are `n` integer items -/
theorem intItems_join (ty : IntTy) : ∀ (vs : List Int), (∀ v ∈ vs, ty.lo ≤ v ∧ v ≤ ty.hi) →
    IntItems ty (joinC ' ' (vs.map showInt)) vs
  | [], _ => IntItems.nil allSpace_nil
  | [v], h => by
    have hv := h v (by simp)
    have := IntItems.cons (ty := ty) (pre := []) (rest := []) allSpace_nil (signOK_showInt v) (showNat_ne_nil _)
      (showNat_allDig _) noDigHead_nil (denotes_showInt ty v hv.1 hv.2) (IntItems.nil allSpace_nil)
    simpa [joinC, showInt_eq] using this
  | v :: w :: r, h => by
    have hv := h v (by simp)
    have ih := intItems_join ty (w :: r) (fun x hx => h x (List.mem_cons_of_mem _ hx))
    have ih' := IntItems.prepend allSpace_blank ih
    have := IntItems.cons (ty := ty) (pre := []) allSpace_nil (signOK_showInt v) (showNat_ne_nil _)
      (showNat_allDig _) (noDigHead_blank _) (denotes_showInt ty v hv.1 hv.2) ih'
    simpa [joinC, showInt_eq, List.append_assoc] using this

theorem roundtrip_range (ty : IntTy) (vs : List Int) (h : ∀ v ∈ vs, ty.lo ≤ v ∧ v ≤ ty.hi) :
    parseRange (extractInt ty) vs.length (joinC ' ' (vs.map showInt)) = some vs :=
  (parseRange_int_iff ty vs.length _ vs).mpr ⟨rfl, intItems_join ty vs h⟩

theorem isWs_blank : isWs ' ' = true := by decide

theorem wordsOf_join : ∀ (ws : List Str), (∀ w ∈ ws, w ≠ [] ∧ ∀ c ∈ w, isWs c = false) → WordsOf isWs (joinC ' ' ws) ws
  | [], _ => WordsOf.nil (fun c hc => by cases hc)
  | [w], h => by
    have hw := h w (by simp)
    have := WordsOf.cons (sp := isWs) (pre := []) (rest := []) (fun c hc => by cases hc) hw.1 hw.2
      (fun c hc => by cases hc) (WordsOf.nil (fun c hc => by cases hc))
    simpa [joinC] using this
  | w :: x :: r, h => by
    have hw := h w (by simp)
    have ih := wordsOf_join (x :: r) (fun y hy => h y (List.mem_cons_of_mem _ hy))
    have ih' : WordsOf isWs ([' '] ++ joinC ' ' (x :: r)) (x :: r) :=
      WordsOf.prepend (by intro c hc; simp at hc; subst hc; exact isWs_blank) ih
    have := WordsOf.cons (sp := isWs) (pre := []) (fun c hc => by cases hc) hw.1 hw.2
      (by intro c hc; simp at hc; subst hc; exact isWs_blank) ih'
    simpa [joinC, List.append_assoc] using this

theorem showInt_ne_nil (i : Int) : showInt i ≠ [] := by
  rw [showInt_eq]
  have := showNat_ne_nil i.natAbs
  intro h
  simp at h
  exact this h.2

theorem showInt_not_ws (i : Int) : ∀ c ∈ showInt i, isWs c = false := by
  intro c hc
  rcases showInt_mem hc with rfl | h
  · decide
  · have := isSpaceC_of_isDig h
    unfold isSpaceC at this
    unfold isWs
    simp only [Bool.or_eq_false_iff] at this ⊢
    exact ⟨⟨⟨this.1.1.1.1.1, this.1.1.1.1.2⟩, this.1.1.1.2⟩, this.2⟩

theorem forall₂_map_left {α β γ} {R : β → γ → Prop} (f : α → β) : ∀ (l : List α) (m : List γ),
    Forall₂ (fun a c => R (f a) c) l m → Forall₂ R (l.map f) m
  | [], _, h => by cases h; exact Forall₂.nil
  | a :: l, _, h => by
    cases h with
    | cons h1 h2 => exact Forall₂.cons h1 (forall₂_map_left f l _ h2)

theorem forall₂_self {α} {R : α → α → Prop} : ∀ (l : List α), (∀ a ∈ l, R a a) → Forall₂ R l l
  | [], _ => Forall₂.nil
  | a :: l, h => Forall₂.cons (h a (by simp)) (forall₂_self l (fun x hx => h x (List.mem_cons_of_mem _ hx)))

theorem roundtrip_vector (ty : IntTy) (vs : List Int) (h : ∀ v ∈ vs, ty.lo ≤ v ∧ v ≤ ty.hi) :
    parseVector (parseInt ty) (joinC ' ' (vs.map showInt)) = some vs := by
  rw [parseVector_iff]
  have hw : splitWs (joinC ' ' (vs.map showInt)) = vs.map showInt :=
    splitWs_of_wordsOf (wordsOf_join _ (by
      intro w hw
      simp only [List.mem_map] at hw
      obtain ⟨v, _, rfl⟩ := hw
      exact ⟨showInt_ne_nil v, showInt_not_ws v⟩))
  rw [hw]
  apply forall₂_map_left
  apply forall₂_self
  intro v hv
  have := roundtrip_int ty v (h v hv).1 (h v hv).2 [] [] allSpace_nil allSpace_nil
  simpa using this

end DV.C12
