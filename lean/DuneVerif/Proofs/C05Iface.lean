import DuneVerif.Model.C05
/-!
C05 helper lemmas, part 1: `Interface::build` — the two passes, `strip`, lookup in the interface map, and the
characterisation of the send/receive lists by the index sets (`sendEntries`/`recvEntries`), their order and the
mirror property.  Core Lean only.
-/
namespace DV.C05

/-! ### generic list lemmas -/

theorem find_filterMap_single {β} (g : Nat → Option (Nat × β)) (hk : ∀ i x, g i = some x → x.1 = i) (q n : Nat) :
    List.find? (fun e => e.1 == q) (List.filterMap g [n]) = if q = n then g n else none := by
  cases hn : g n with
  | none => simp [hn]
  | some x =>
    have hx := hk n x hn
    simp only [List.filterMap_cons, hn, List.filterMap_nil, List.find?_cons, List.find?_nil]
    by_cases h : q = n
    · subst h; simp [hx]
    · have hne : (x.1 == q) = false := by
        simp only [beq_eq_false_iff_ne, ne_eq]; omega
      simp [hne, h]

theorem find_filterMap_range {β} (g : Nat → Option (Nat × β)) (hk : ∀ i x, g i = some x → x.1 = i) (q : Nat) :
    ∀ n, ((List.range n).filterMap g).find? (fun e => e.1 == q) = if q < n then g q else none
  | 0 => by simp
  | n + 1 => by
    rw [List.range_succ, List.filterMap_append, List.find?_append, find_filterMap_range g hk q n,
      find_filterMap_single g hk]
    by_cases h1 : q < n
    · have h2 : q < n + 1 := by omega
      have h3 : q ≠ n := by omega
      simp only [h1, h2, h3, if_true, if_false]
      cases g q <;> rfl
    · by_cases h2 : q = n
      · subst h2
        simp
      · have h3 : ¬ q < n + 1 := by omega
        simp [h1, h2, h3]

/-- two strictly ascending lists with the same elements are equal -/
theorem eq_of_strict_sorted_of_mem_iff : ∀ (l1 l2 : List Int),
    l1.Pairwise (· < ·) → l2.Pairwise (· < ·) → (∀ x, x ∈ l1 ↔ x ∈ l2) → l1 = l2
  | [], [], _, _, _ => rfl
  | [], b :: l2, _, _, h => by have := (h b).2 (by simp); simp at this
  | a :: l1, [], _, _, h => by have := (h a).1 (by simp); simp at this
  | a :: l1, b :: l2, h1, h2, h => by
    rw [List.pairwise_cons] at h1 h2
    have hab : a = b := by
      have ha := (h a).1 (by simp)
      have hb := (h b).2 (by simp)
      rw [List.mem_cons] at ha hb
      rcases ha with ha | ha
      · exact ha
      · rcases hb with hb | hb
        · exact hb.symm
        · have := h2.1 a ha
          have := h1.1 b hb
          omega
    subst hab
    congr 1
    apply eq_of_strict_sorted_of_mem_iff l1 l2 h1.2 h2.2
    intro x
    constructor
    · intro hx
      have := (h x).1 (List.mem_cons_of_mem _ hx)
      rw [List.mem_cons] at this
      rcases this with rfl | this
      · have := h1.1 x hx; omega
      · exact this
    · intro hx
      have := (h x).2 (List.mem_cons_of_mem _ hx)
      rw [List.mem_cons] at this
      rcases this with rfl | this
      · have := h2.1 x hx; omega
      · exact this

/-! ### the two passes -/

/-- the tests the translator read from the counting loop of `buildInterface` are the documented ones -/
theorem passesCount_eq : passesCount = passes := by
  funext send S T x
  cases send <;> simp [passesCount, passes, evalTest, Gen.countOuter, Gen.countInner]

/-- … and so are the tests of the adding loop -/
theorem passesAdd_eq : passesAdd = passes := by
  funext send S T x
  cases send <;> simp [passesAdd, passes, evalTest, Gen.addOuter, Gen.addInner]

theorem countPass_eq (send : Bool) (S T : Nat → Bool) (l : List RIdx) :
    countPass send S T l = (l.filter (passes send S T)).length := by
  induction l with
  | nil => rfl
  | cons x xs ih =>
    simp only [countPass, ih, List.filter_cons, passesCount_eq]
    split <;> simp <;> omega

theorem addPass_eq (send : Bool) (S T : Nat → Bool) (l : List RIdx) (inf : Info) :
    addPass send S T l inf = { inf with idx := inf.idx ++ (l.filter (passes send S T)).map (·.l) } := by
  induction l generalizing inf with
  | nil => simp [addPass]
  | cons x xs ih =>
    simp only [addPass, ih, List.filter_cons, passesAdd_eq]
    split <;> simp [Info.add]

theorem infoOf_eq (send : Bool) (S T : Nat → Bool) (l : List RIdx) :
    infoOf send S T l = ⟨(l.filter (passes send S T)).length, (l.filter (passes send S T)).map (·.l)⟩ := by
  simp [infoOf, addPass_eq, countPass_eq, Info.reserve]

theorem infoOf_nil (send : Bool) (S T : Nat → Bool) : infoOf send S T [] = Info.empty := by
  simp [infoOf_eq, Info.empty]

/-- an `Info` built by the two passes with no passing entry is the empty one -/
theorem infoOf_size_zero (send : Bool) (S T : Nat → Bool) (l : List RIdx) (h : (infoOf send S T l).size = 0) :
    infoOf send S T l = Info.empty := by
  rw [infoOf_eq] at h ⊢
  simp only [Info.size, List.length_map] at h
  have : l.filter (passes send S T) = [] := List.eq_nil_of_length_eq_zero h
  simp [this, Info.empty]

/-! ### the interface map as a function of the neighbour rank -/

/-- the entry of neighbour `q` in the interface of `p`, if it survives `strip` -/
def ifEntry (ign : Bool) (S T : Nat → Bool) (sys : System) (p q : Nat) : Option (Nat × Info × Info) :=
  (remoteEntry ign sys p q).bind fun e =>
    if (!((infoOf true S T e.2.1).size == 0 && (infoOf false S T e.2.2).size == 0)) = true
    then some (e.1, infoOf true S T e.2.1, infoOf false S T e.2.2) else none

theorem interfaceOf_eq (ign : Bool) (S T : Nat → Bool) (sys : System) (p : Nat) :
    interfaceOf ign S T sys p = (List.range sys.P).filterMap (ifEntry ign S T sys p) := by
  simp only [interfaceOf, buildInterface, strip, buildInterfaceRaw, remoteSpec, List.map_filterMap,
    List.filter_filterMap]
  congr 1
  funext q
  simp only [ifEntry]
  cases remoteEntry ign sys p q <;> simp [Option.filter]

theorem remoteEntry_key {ign sys p q x} (h : remoteEntry ign sys p q = some x) : x.1 = q := by
  simp only [remoteEntry] at h
  split at h
  · cases h
  · split at h
    · cases h
    · cases h; rfl

theorem ifEntry_key {ign S T sys p q x} (h : ifEntry ign S T sys p q = some x) : x.1 = q := by
  simp only [ifEntry] at h
  cases hr : remoteEntry ign sys p q with
  | none => simp [hr] at h
  | some e =>
    simp only [hr, Option.bind_some] at h
    have hk := remoteEntry_key hr
    split at h
    · cases h; exact hk
    · cases h

/-- may `p` have an entry about `q` at all? (the process itself only with two index sets) -/
def admits (sys : System) (p q : Nat) : Prop := q < sys.P ∧ (q ≠ p ∨ (sys.rank p).two = true)

instance (sys : System) (p q : Nat) : Decidable (admits sys p q) := by unfold admits; exact inferInstance

/-- `ifEntry` in closed form -/
theorem ifEntry_eq (ign : Bool) (S T : Nat → Bool) (sys : System) (p q : Nat) :
    ifEntry ign S T sys p q =
      if (q ≠ p ∨ (sys.rank p).two = true) ∧
         ¬ ((infoOf true S T (sendSpec ign sys p q)).size = 0 ∧ (infoOf false S T (recvSpec ign sys p q)).size = 0)
      then some (q, infoOf true S T (sendSpec ign sys p q), infoOf false S T (recvSpec ign sys p q)) else none := by
  by_cases hself : q = p ∧ (sys.rank p).two = false
  · have hn : ¬ (q ≠ p ∨ (sys.rank p).two = true) := by
      intro h; rcases h with h | h
      · exact h hself.1
      · rw [hself.2] at h; cases h
    simp [ifEntry, remoteEntry, hself]
  · have hy : q ≠ p ∨ (sys.rank p).two = true := by
      by_cases h1 : q = p
      · right
        cases h2 : (sys.rank p).two
        · exact absurd ⟨h1, h2⟩ hself
        · rfl
      · left; exact h1
    by_cases hemp : (sendSpec ign sys p q).isEmpty ∧ (recvSpec ign sys p q).isEmpty
    · have h1 : sendSpec ign sys p q = [] := List.isEmpty_iff.mp hemp.1
      have h2 : recvSpec ign sys p q = [] := List.isEmpty_iff.mp hemp.2
      simp [ifEntry, remoteEntry, hself, h1, h2, infoOf_nil, Info.empty, Info.size]
    · simp only [ifEntry, remoteEntry, hself, hemp, if_false, Option.bind_some, hy, true_and]
      by_cases hs : (infoOf true S T (sendSpec ign sys p q)).size = 0 ∧ (infoOf false S T (recvSpec ign sys p q)).size = 0
      · simp [hs.1, hs.2]
      · have : (!((infoOf true S T (sendSpec ign sys p q)).size == 0 &&
            (infoOf false S T (recvSpec ign sys p q)).size == 0)) = true := by
          simp only [Bool.not_eq_true', Bool.and_eq_false_iff, beq_eq_false_iff_ne, ne_eq]
          by_cases h : (infoOf true S T (sendSpec ign sys p q)).size = 0
          · right; intro h'; exact hs ⟨h, h'⟩
          · left; exact h
        simp only [this, if_true, hs, not_false_eq_true]

theorem get_interfaceOf (ign : Bool) (S T : Nat → Bool) (sys : System) (p q : Nat) :
    (interfaceOf ign S T sys p).get q =
      if admits sys p q then (infoOf true S T (sendSpec ign sys p q), infoOf false S T (recvSpec ign sys p q))
      else (Info.empty, Info.empty) := by
  simp only [IfMap.get, interfaceOf_eq]
  rw [find_filterMap_range _ (fun i x h => ifEntry_key h), ifEntry_eq]
  by_cases hq : q < sys.P
  · by_cases hy : q ≠ p ∨ (sys.rank p).two = true
    · have hadm : admits sys p q := ⟨hq, hy⟩
      by_cases hs : (infoOf true S T (sendSpec ign sys p q)).size = 0 ∧ (infoOf false S T (recvSpec ign sys p q)).size = 0
      · simp only [hq, hy, hs, hadm, if_true, true_and, not_true_eq_false, if_false]
        rw [infoOf_size_zero true S T _ hs.1, infoOf_size_zero false S T _ hs.2]
      · simp [hq, hy, hs, hadm]
    · have hadm : ¬ admits sys p q := fun h => hy h.2
      simp [hq, hy, hadm]
  · have : ¬ admits sys p q := fun h => hq h.1
    simp [hq, this]

/-- is `q` a key of the interface map of `p`? -/
theorem mem_keys_interfaceOf (ign : Bool) (S T : Nat → Bool) (sys : System) (p q : Nat) :
    q ∈ (interfaceOf ign S T sys p).map (·.1) ↔
      admits sys p q ∧ ¬ ((infoOf true S T (sendSpec ign sys p q)).size = 0 ∧
                           (infoOf false S T (recvSpec ign sys p q)).size = 0) := by
  rw [interfaceOf_eq, List.mem_map]
  constructor
  · rintro ⟨x, hx, rfl⟩
    rw [List.mem_filterMap] at hx
    obtain ⟨i, hi, hix⟩ := hx
    have hk := ifEntry_key hix
    subst hk
    rw [List.mem_range] at hi
    rw [ifEntry_eq] at hix
    split at hix
    · rename_i h
      exact ⟨⟨hi, h.1⟩, h.2⟩
    · cases hix
  · rintro ⟨⟨hq, hy⟩, hne⟩
    refine ⟨(q, infoOf true S T (sendSpec ign sys p q), infoOf false S T (recvSpec ign sys p q)), ?_, rfl⟩
    rw [List.mem_filterMap]
    refine ⟨q, List.mem_range.mpr hq, ?_⟩
    rw [ifEntry_eq]
    simp [hy, hne]

/-- the keys of the interface map ascend strictly (it is a `std::map`) -/
theorem keys_filterMap_range_sorted {β} (g : Nat → Option (Nat × β)) (hk : ∀ i x, g i = some x → x.1 = i) :
    ∀ n, (((List.range n).filterMap g).map (·.1)).Pairwise (· < ·) ∧
         ∀ k ∈ ((List.range n).filterMap g).map (·.1), k < n
  | 0 => by simp
  | n + 1 => by
    obtain ⟨ih1, ih2⟩ := keys_filterMap_range_sorted g hk n
    rw [List.range_succ, List.filterMap_append, List.map_append]
    cases hn : g n with
    | none =>
      simp only [List.filterMap_cons, hn, List.filterMap_nil, List.map_nil, List.append_nil]
      exact ⟨ih1, fun k hk' => Nat.lt_succ_of_lt (ih2 k hk')⟩
    | some x =>
      have hx := hk n x hn
      simp only [List.filterMap_cons, hn, List.filterMap_nil, List.map_cons, List.map_nil]
      constructor
      · rw [List.pairwise_append]
        refine ⟨ih1, by simp, ?_⟩
        intro a ha b hb
        simp only [List.mem_singleton] at hb
        have := ih2 a ha
        omega
      · intro k hk'
        rw [List.mem_append] at hk'
        rcases hk' with hk' | hk'
        · exact Nat.lt_succ_of_lt (ih2 k hk')
        · simp only [List.mem_singleton] at hk'; omega

theorem keys_interfaceOf_sorted (ign : Bool) (S T : Nat → Bool) (sys : System) (p : Nat) :
    ((interfaceOf ign S T sys p).map (·.1)).Pairwise (· < ·) := by
  rw [interfaceOf_eq]
  exact (keys_filterMap_range_sorted _ (fun i x h => ifEntry_key h) sys.P).1

/-! ### the lists in terms of the index sets -/

/-- every global index at most once, ascending: the iteration order of a `ParallelIndexSet` -/
def StrictSorted (s : List Entry) : Prop := s.Pairwise (fun a b => a.g < b.g)

theorem StrictSorted.published {s : List Entry} (h : StrictSorted s) (ign : Bool) : StrictSorted (published ign s) :=
  List.Pairwise.sublist List.filter_sublist h

theorem find_unique {B : List Entry} (hB : StrictSorted B) {b : Entry} (hb : b ∈ B) :
    B.find? (fun f => f.g == b.g) = some b := by
  induction B with
  | nil => cases hb
  | cons c cs ih =>
    rw [StrictSorted, List.pairwise_cons] at hB
    rw [List.mem_cons] at hb
    rcases hb with rfl | hb
    · simp
    · have := hB.1 b hb
      have hne : (c.g == b.g) = false := by simp only [beq_eq_false_iff_ne, ne_eq]; omega
      simp only [List.find?_cons, hne]
      exact ih hB.2 hb

theorem mem_joinSpec {A B : List Entry} (hB : StrictSorted B) (x : RIdx) :
    x ∈ joinSpec A B ↔ ∃ a ∈ A, ∃ b ∈ B, b.g = a.g ∧ x = ⟨a.g, b.a, a.l, a.a⟩ := by
  simp only [joinSpec, List.mem_filterMap, Option.map_eq_some_iff]
  constructor
  · rintro ⟨a, ha, b, hb, rfl⟩
    refine ⟨a, ha, b, List.mem_of_find?_eq_some hb, ?_, rfl⟩
    have := List.find?_some hb
    simpa using this
  · rintro ⟨a, ha, b, hb, hg, rfl⟩
    refine ⟨a, ha, b, ?_, rfl⟩
    rw [← hg]
    exact find_unique hB hb

/-- the globals of a (filtered) join are a sublist of the globals of the first index set -/
theorem joinSpec_globals_sublist (A B : List Entry) (P : RIdx → Bool) :
    (((joinSpec A B).filter P).map (·.g)).Sublist (A.map (·.g)) := by
  induction A with
  | nil => simp [joinSpec]
  | cons a as ih =>
    simp only [joinSpec, List.filterMap_cons] at ih ⊢
    cases hf : B.find? (fun b => b.g == a.g) with
    | none => simp only [Option.map_none, List.map_cons]; exact List.Sublist.cons _ ih
    | some b =>
      simp only [Option.map_some, List.filter_cons, List.map_cons]
      split
      · simp only [List.map_cons]; exact List.Sublist.cons_cons _ ih
      · exact List.Sublist.cons _ ih

theorem joinSpec_globals_sorted {A : List Entry} (hA : StrictSorted A) (B : List Entry) (P : RIdx → Bool) :
    (((joinSpec A B).filter P).map (·.g)).Pairwise (· < ·) := by
  apply List.Pairwise.sublist (joinSpec_globals_sublist A B P)
  rw [List.pairwise_map]
  exact hA

/-- the entries of the send list of `p` for `q` that pass the attribute tests (annotated with the global index) -/
def sendEntries (ign : Bool) (S T : Nat → Bool) (sys : System) (p q : Nat) : List RIdx :=
  (sendSpec ign sys p q).filter (passes true S T)
/-- the entries of the receive list of `p` for `q` that pass the attribute tests -/
def recvEntries (ign : Bool) (S T : Nat → Bool) (sys : System) (p q : Nat) : List RIdx :=
  (recvSpec ign sys p q).filter (passes false S T)

/-- index sets are in `ParallelIndexSet` order on every rank -/
structure WF (sys : System) : Prop where
  src : ∀ p, StrictSorted (sys.rank p).src
  tgt : ∀ p, StrictSorted (sys.rank p).tgtSet

theorem mem_sendEntries_globals {ign S T sys} (hwf : WF sys) (p q : Nat) (g : Int) :
    g ∈ (sendEntries ign S T sys p q).map (·.g) ↔
      ∃ a ∈ published ign (sys.rank p).src, ∃ b ∈ published ign (sys.rank q).tgtSet,
        b.g = a.g ∧ a.g = g ∧ S a.a = true ∧ T b.a = true := by
  simp only [sendEntries, sendSpec, List.mem_map, List.mem_filter, mem_joinSpec ((hwf.tgt q).published ign)]
  constructor
  · rintro ⟨x, ⟨⟨a, ha, b, hb, hg, rfl⟩, hp⟩, rfl⟩
    refine ⟨a, ha, b, hb, hg, rfl, ?_⟩
    simp only [passes, if_true] at hp
    cases hT : T b.a <;> simp [hT] at hp ⊢
    exact hp
  · rintro ⟨a, ha, b, hb, hg, rfl, hS, hT⟩
    exact ⟨⟨a.g, b.a, a.l, a.a⟩, ⟨⟨a, ha, b, hb, hg, rfl⟩, by simp [passes, hS, hT]⟩, rfl⟩

theorem mem_recvEntries_globals {ign S T sys} (hwf : WF sys) (p q : Nat) (g : Int) :
    g ∈ (recvEntries ign S T sys p q).map (·.g) ↔
      ∃ a ∈ published ign (sys.rank p).tgtSet, ∃ b ∈ published ign (sys.rank q).src,
        b.g = a.g ∧ a.g = g ∧ T a.a = true ∧ S b.a = true := by
  simp only [recvEntries, recvSpec, List.mem_map, List.mem_filter, mem_joinSpec ((hwf.src q).published ign)]
  constructor
  · rintro ⟨x, ⟨⟨a, ha, b, hb, hg, rfl⟩, hp⟩, rfl⟩
    refine ⟨a, ha, b, hb, hg, rfl, ?_⟩
    simp only [passes, Bool.false_eq_true, if_false] at hp
    cases hS : S b.a <;> simp [hS] at hp ⊢
    exact hp
  · rintro ⟨a, ha, b, hb, hg, rfl, hT, hS⟩
    exact ⟨⟨a.g, b.a, a.l, a.a⟩, ⟨⟨a, ha, b, hb, hg, rfl⟩, by simp [passes, hS, hT]⟩, rfl⟩

/-- mirror: what `p` sends to `q` and what `q` receives from `p` are the same global indices in the same order -/
theorem entries_mirror {ign S T sys} (hwf : WF sys) (p q : Nat) :
    (sendEntries ign S T sys p q).map (·.g) = (recvEntries ign S T sys q p).map (·.g) := by
  apply eq_of_strict_sorted_of_mem_iff
  · exact joinSpec_globals_sorted ((hwf.src p).published ign) _ _
  · exact joinSpec_globals_sorted ((hwf.tgt q).published ign) _ _
  · intro g
    rw [mem_sendEntries_globals hwf, mem_recvEntries_globals hwf]
    constructor
    · rintro ⟨a, ha, b, hb, hg, hga, hS, hT⟩
      exact ⟨b, hb, a, ha, hg.symm, hg.trans hga, hT, hS⟩
    · rintro ⟨a, ha, b, hb, hg, hga, hT, hS⟩
      exact ⟨b, hb, a, ha, hg.symm, hg.trans hga, hS, hT⟩

end DV.C05
