/-
C14 — specification vocabulary and helper lemmas for Props/C14.lean.  Core Lean only.

Vocabulary used in the theorem statements:
  `Valid n E I`      the index tuple `I` is a valid index of the extents `E` (rank `n`)
  `sumTo n f`        Σ_{k<n} f k
  `prodFrom E lo n`  Π_{lo ≤ k < lo+n} E k
  `bump I r`         the index tuple `I + e_r`
-/
import DuneVerif.Model.C14

namespace DV.C14
open DV.C14.Gen

/-! ### vocabulary -/

/-- `I` is a multidimensional index in the extents `E` of rank `n` -/
def Valid (n : Nat) (E I : Arr) : Prop := ∀ k, k < n → I k < E k

/-- Σ_{k<n} f k -/
def sumTo : Nat → (Nat → Nat) → Nat
  | 0, _ => 0
  | n+1, f => sumTo n f + f n

/-- Π_{lo ≤ k < lo+n} E k -/
def prodFrom (E : Arr) : Nat → Nat → Nat
  | _, 0 => 1
  | lo, n+1 => E lo * prodFrom E (lo+1) n

/-- the index tuple `I + e_r` -/
def bump (I : Arr) (r : Nat) : Arr := fun k => if k = r then I k + 1 else I k

/-! ### sums and products -/

theorem sumTo_congr {n : Nat} {f g : Nat → Nat} (h : ∀ k, k < n → f k = g k) : sumTo n f = sumTo n g := by
  induction n with
  | zero => rfl
  | succ n ih =>
    simp only [sumTo]
    rw [ih (fun k hk => h k (by omega)), h n (by omega)]

theorem sumTo_succ_front (n : Nat) (f : Nat → Nat) : sumTo (n+1) f = f 0 + sumTo n (fun k => f (k+1)) := by
  induction n with
  | zero => simp [sumTo]
  | succ n ih =>
    rw [sumTo, ih]
    simp only [sumTo]
    omega

theorem sumTo_mul_left (n c : Nat) (f : Nat → Nat) : c * sumTo n f = sumTo n (fun k => c * f k) := by
  induction n with
  | zero => simp [sumTo]
  | succ n ih => simp only [sumTo, Nat.mul_add, ih]

theorem sumTo_add (n : Nat) (f g : Nat → Nat) : sumTo n (fun k => f k + g k) = sumTo n f + sumTo n g := by
  induction n with
  | zero => rfl
  | succ n ih => simp only [sumTo, ih]; omega

theorem sumTo_le {n : Nat} {f g : Nat → Nat} (h : ∀ k, k < n → f k ≤ g k) : sumTo n f ≤ sumTo n g := by
  induction n with
  | zero => exact Nat.le_refl _
  | succ n ih =>
    simp only [sumTo]
    exact Nat.add_le_add (ih (fun k hk => h k (by omega))) (h n (by omega))

theorem sumTo_zero (n : Nat) : sumTo n (fun _ => 0) = 0 := by
  induction n with
  | zero => rfl
  | succ n ih => simp [sumTo, ih]

/-- a sum with one term singled out -/
theorem sumTo_single {n r : Nat} (hr : r < n) (f : Nat → Nat) (c : Nat) :
    sumTo n (fun k => if k = r then f k + c else f k) = sumTo n f + c := by
  induction n with
  | zero => omega
  | succ n ih =>
    simp only [sumTo]
    by_cases h : r = n
    · subst h
      have : sumTo r (fun k => if k = r then f k + c else f k) = sumTo r f :=
        sumTo_congr (fun k hk => by simp [Nat.ne_of_lt hk])
      rw [this]; simp; omega
    · have hn : ¬ n = r := fun e => h e.symm
      rw [ih (by omega)]; simp [hn]; omega

theorem sumTo_bump {n r : Nat} (hr : r < n) (S I : Arr) :
    sumTo n (fun k => bump I r k * S k) = sumTo n (fun k => I k * S k) + S r := by
  have h : ∀ k, bump I r k * S k = if k = r then I k * S k + S r else I k * S k := by
    intro k
    unfold bump
    by_cases hk : k = r
    · subst hk; simp [Nat.add_mul]
    · simp [hk]
  rw [sumTo_congr (fun k _ => h k)]
  exact sumTo_single hr (fun k => I k * S k) (S r)

theorem prodFrom_snoc (E : Arr) (lo n : Nat) : prodFrom E lo (n+1) = prodFrom E lo n * E (lo+n) := by
  induction n generalizing lo with
  | zero => simp [prodFrom]
  | succ n ih =>
    rw [prodFrom, ih (lo+1), prodFrom, Nat.mul_assoc]
    have : lo + 1 + n = lo + (n + 1) := by omega
    rw [this]

theorem prodFrom_add (E : Arr) (lo a b : Nat) : prodFrom E lo (a+b) = prodFrom E lo a * prodFrom E (lo+a) b := by
  induction a generalizing lo with
  | zero => simp [prodFrom]
  | succ a ih =>
    have : a + 1 + b = (a + b) + 1 := by omega
    rw [this, prodFrom, ih (lo+1), prodFrom, Nat.mul_assoc]
    congr 3
    omega

theorem prodFrom_pos {E : Arr} {lo n : Nat} (h : ∀ k, lo ≤ k → k < lo + n → 0 < E k) : 0 < prodFrom E lo n := by
  induction n generalizing lo with
  | zero => simp [prodFrom]
  | succ n ih =>
    rw [prodFrom]
    exact Nat.mul_pos (h lo (Nat.le_refl _) (by omega)) (ih (fun k h1 h2 => h k (by omega) (by omega)))

theorem prodFrom_eq_zero_iff (E : Arr) (lo n : Nat) : prodFrom E lo n = 0 ↔ ∃ k, lo ≤ k ∧ k < lo + n ∧ E k = 0 := by
  induction n generalizing lo with
  | zero =>
    simp only [prodFrom]
    constructor
    · intro h; omega
    · rintro ⟨k, h1, h2, _⟩; omega
  | succ n ih =>
    rw [prodFrom, Nat.mul_eq_zero, ih]
    constructor
    · rintro (h | ⟨k, h1, h2, h3⟩)
      · exact ⟨lo, Nat.le_refl _, by omega, h⟩
      · exact ⟨k, by omega, by omega, h3⟩
    · rintro ⟨k, h1, h2, h3⟩
      by_cases hk : k = lo
      · left; rw [← hk]; exact h3
      · right; exact ⟨k, by omega, by omega, h3⟩

theorem prodFrom_congr {E F : Arr} {lo n : Nat} (h : ∀ k, lo ≤ k → k < lo + n → E k = F k) :
    prodFrom E lo n = prodFrom F lo n := by
  induction n generalizing lo with
  | zero => rfl
  | succ n ih =>
    rw [prodFrom, prodFrom, h lo (Nat.le_refl _) (by omega), ih (fun k h1 h2 => h k (by omega) (by omega))]

/-! ### loops -/

theorem loopFrom_succ_last {σ : Type} (body : Nat → σ → σ) (n r : Nat) (s : σ) :
    loopFrom body (n+1) r s = body (r+n) (loopFrom body n r s) := by
  induction n generalizing r s with
  | zero => simp [loopFrom]
  | succ n ih =>
    rw [loopFrom, ih (r+1) (body r s)]
    have : r + 1 + n = r + (n + 1) := by omega
    rw [this]
    rfl

theorem loopFrom_congr {σ : Type} {body body' : Nat → σ → σ} (n r : Nat) (s : σ)
    (h : ∀ k t, r ≤ k → k < r + n → body k t = body' k t) : loopFrom body n r s = loopFrom body' n r s := by
  induction n generalizing r s with
  | zero => rfl
  | succ n ih =>
    rw [loopFrom, loopFrom, h r s (Nat.le_refl _) (by omega)]
    exact ih (r+1) _ (fun k t h1 h2 => h k t (by omega) (by omega))

/-- a product loop `acc *= E r` -/
theorem loop_prod (E : Arr) (n lo s : Nat) : loopFrom (fun r acc => acc * E r) n lo s = s * prodFrom E lo n := by
  induction n generalizing lo s with
  | zero => simp [loopFrom, prodFrom]
  | succ n ih => rw [loopFrom, ih, prodFrom, Nat.mul_assoc]

/-- a summation loop `acc += f r` -/
theorem loop_sum (f : Nat → Nat) (n lo s : Nat) :
    loopFrom (fun r acc => acc + f r) n lo s = s + sumTo n (fun k => f (lo + k)) := by
  induction n generalizing s with
  | zero => simp [loopFrom, sumTo]
  | succ n ih => rw [loopFrom_succ_last, ih]; simp only [sumTo]; omega

/-! ### the generated pieces, unfolded -/

theorem product_eq (rank : Nat) (E : Arr) : product rank E = prodFrom E 0 rank := by
  simp only [product, forLoop, product_lo, product_hi, product_init, Nat.sub_zero]
  have : product_step rank E = fun r acc => acc * E r := rfl
  rw [this, loop_prod, Nat.one_mul]

theorem strideLeft_eq (rank : Nat) (E : Arr) (i : Nat) : strideLeft rank E i = prodFrom E 0 i := by
  simp only [strideLeft, forLoop, left_stride_lo, left_stride_hi, left_stride_init, Nat.sub_zero]
  have : left_stride_step rank E i = fun r acc => acc * E r := rfl
  rw [this, loop_prod, Nat.one_mul]

theorem strideRight_eq (rank : Nat) (E : Arr) (i : Nat) : strideRight rank E i = prodFrom E (i+1) (rank - (i+1)) := by
  simp only [strideRight, forLoop, right_stride_lo, right_stride_hi, right_stride_init]
  have : right_stride_step rank E i = fun r acc => acc * E r := rfl
  rw [this, loop_prod, Nat.one_mul]

theorem mdSize_eq (rank : Nat) (E : Arr) : mdSize rank E = prodFrom E 0 rank := by
  simp only [mdSize, forLoop, mdspan_size_lo, mdspan_size_hi, mdspan_size_init, Nat.sub_zero]
  have : mdspan_size_step rank E = fun r acc => acc * E r := rfl
  rw [this, loop_prod, Nat.one_mul]

theorem mdarraySize_eq (rank : Nat) (E : Arr) : mdarraySize rank E = prodFrom E 0 rank := by
  simp only [mdarraySize, forLoop, mdarray_size_lo, mdarray_size_hi, mdarray_size_init, Nat.sub_zero]
  have : mdarray_size_step rank E = fun r acc => acc * E r := rfl
  rw [this, loop_prod, Nat.one_mul]

/-! ### Horner forms -/

/-- `i_lo + E_lo (i_{lo+1} + E_{lo+1} (…))`, `n` terms -/
def polyL (E I : Arr) : Nat → Nat → Nat
  | _, 0 => 0
  | lo, n+1 => I lo + E lo * polyL E I (lo+1) n

/-- `i_{n-1} + E_{n-1} (i_{n-2} + E_{n-2} (…))` -/
def polyR (E I : Arr) : Nat → Nat
  | 0 => 0
  | n+1 => I n + E n * polyR E I n

theorem left_loop_inv (rank : Nat) (E I : Arr) (t : Nat) (ht : t + 1 ≤ rank) :
    loopFrom (left_step rank I E) t 1 (I (rank - 1)) = polyL E I (rank - 1 - t) (t + 1) := by
  induction t with
  | zero => simp [loopFrom, polyL]
  | succ t ih =>
    rw [loopFrom_succ_last, ih (by omega)]
    show I (rank - (1 + t) - 1) + E (rank - (1 + t) - 1) * polyL E I (rank - 1 - t) (t + 1) = _
    have h1 : rank - (1 + t) - 1 = rank - 1 - (t + 1) := by omega
    have h2 : rank - 1 - t = rank - 1 - (t + 1) + 1 := by omega
    rw [h1, h2]
    rfl

theorem offsetLeft_eq_polyL (rank : Nat) (E I : Arr) : offsetLeft rank E I = polyL E I 0 rank := by
  unfold offsetLeft
  by_cases h : rank = 0
  · simp [h, polyL]
  · simp only [h, if_false, forLoop, left_lo, left_hi, left_init]
    have := left_loop_inv rank E I (rank - 1) (by omega)
    rw [this]
    congr 1 <;> omega

theorem right_loop_inv (rank : Nat) (E I : Arr) (t : Nat) :
    loopFrom (right_step rank I E) t 0 (I 0) = polyR E I (t + 1) := by
  induction t with
  | zero => simp [loopFrom, polyR]
  | succ t ih =>
    rw [loopFrom_succ_last, ih]
    show I (0 + t + 1) + E (0 + t + 1) * polyR E I (t + 1) = _
    simp only [Nat.zero_add]
    rfl

theorem offsetRight_eq_polyR (rank : Nat) (E I : Arr) : offsetRight rank E I = polyR E I rank := by
  unfold offsetRight
  by_cases h : rank = 0
  · simp [h, polyR]
  · simp only [h, if_false, forLoop, right_lo, right_hi, right_init, Nat.sub_zero]
    rw [right_loop_inv]
    congr 1; omega

/-! ### mixed radix arithmetic -/

theorem digit_lt {i e p q : Nat} (hi : i < e) (hp : p < q) : i + e * p < e * q := by
  have h1 : e * (p + 1) ≤ e * q := Nat.mul_le_mul_left e hp
  rw [Nat.mul_succ] at h1
  omega

theorem digit_inj {i j e p q : Nat} (hi : i < e) (hj : j < e) (h : i + e * p = j + e * q) : i = j ∧ p = q := by
  have he : 0 < e := by omega
  have hm : (i + e * p) % e = (j + e * q) % e := by rw [h]
  rw [Nat.add_mul_mod_self_left, Nat.add_mul_mod_self_left, Nat.mod_eq_of_lt hi, Nat.mod_eq_of_lt hj] at hm
  have hd : (i + e * p) / e = (j + e * q) / e := by rw [h]
  rw [Nat.add_mul_div_left _ _ he, Nat.add_mul_div_left _ _ he, Nat.div_eq_of_lt hi, Nat.div_eq_of_lt hj] at hd
  exact ⟨hm, by omega⟩

theorem polyL_congr {E I J : Arr} {lo n : Nat} (h : ∀ k, lo ≤ k → k < lo + n → I k = J k) :
    polyL E I lo n = polyL E J lo n := by
  induction n generalizing lo with
  | zero => rfl
  | succ n ih =>
    rw [polyL, polyL, h lo (Nat.le_refl _) (by omega), ih (fun k h1 h2 => h k (by omega) (by omega))]

theorem polyL_lt {E I : Arr} {lo n : Nat} (h : ∀ k, lo ≤ k → k < lo + n → I k < E k) :
    polyL E I lo n < prodFrom E lo n := by
  induction n generalizing lo with
  | zero => simp [polyL, prodFrom]
  | succ n ih =>
    rw [polyL, prodFrom]
    exact digit_lt (h lo (Nat.le_refl _) (by omega)) (ih (fun k h1 h2 => h k (by omega) (by omega)))

theorem polyL_inj {E I J : Arr} {lo n : Nat} (hI : ∀ k, lo ≤ k → k < lo + n → I k < E k)
    (hJ : ∀ k, lo ≤ k → k < lo + n → J k < E k) (h : polyL E I lo n = polyL E J lo n) :
    ∀ k, lo ≤ k → k < lo + n → I k = J k := by
  induction n generalizing lo with
  | zero => intro k h1 h2; omega
  | succ n ih =>
    rw [polyL, polyL] at h
    have ⟨h0, hr⟩ := digit_inj (hI lo (Nat.le_refl _) (by omega)) (hJ lo (Nat.le_refl _) (by omega)) h
    intro k h1 h2
    by_cases hk : k = lo
    · rw [hk]; exact h0
    · exact ih (fun k h1 h2 => hI k (by omega) (by omega)) (fun k h1 h2 => hJ k (by omega) (by omega)) hr k (by omega) (by omega)

theorem polyL_surj (E : Arr) (lo n o : Nat) (ho : o < prodFrom E lo n) :
    ∃ I : Arr, (∀ k, lo ≤ k → k < lo + n → I k < E k) ∧ polyL E I lo n = o := by
  induction n generalizing lo o with
  | zero =>
    simp [prodFrom] at ho
    exact ⟨fun _ => 0, fun k h1 h2 => by omega, by simp [polyL, ho]⟩
  | succ n ih =>
    rw [prodFrom] at ho
    have he : 0 < E lo := by
      rcases Nat.eq_zero_or_pos (E lo) with h | h
      · rw [h] at ho; simp at ho
      · exact h
    have hq : o / E lo < prodFrom E (lo+1) n := by
      rw [Nat.div_lt_iff_lt_mul he, Nat.mul_comm]; exact ho
    obtain ⟨I', hv, hp⟩ := ih (lo+1) (o / E lo) hq
    refine ⟨fun k => if k = lo then o % E lo else I' k, ?_, ?_⟩
    · intro k h1 h2
      by_cases hk : k = lo
      · simp only [hk, if_true]; exact Nat.mod_lt _ he
      · simp only [hk, if_false]; exact hv k (by omega) (by omega)
    · rw [polyL]
      have : polyL E (fun k => if k = lo then o % E lo else I' k) (lo+1) n = polyL E I' (lo+1) n :=
        polyL_congr (fun k h1 _ => by simp [show k ≠ lo by omega])
      rw [this, hp]
      simp only [if_true]
      have := Nat.mod_add_div o (E lo)
      omega

theorem polyL_formula (E I : Arr) (lo n : Nat) :
    polyL E I lo n = sumTo n (fun k => I (lo + k) * prodFrom E lo k) := by
  induction n generalizing lo with
  | zero => rfl
  | succ n ih =>
    rw [polyL, ih, sumTo_succ_front, sumTo_mul_left]
    simp only [prodFrom, Nat.add_zero, Nat.mul_one]
    congr 1
    apply sumTo_congr
    intro k _
    have : lo + 1 + k = lo + (k + 1) := by omega
    rw [this, Nat.mul_left_comm]

theorem polyR_congr {E I J : Arr} {n : Nat} (h : ∀ k, k < n → I k = J k) : polyR E I n = polyR E J n := by
  induction n with
  | zero => rfl
  | succ n ih => rw [polyR, polyR, h n (by omega), ih (fun k hk => h k (by omega))]

theorem polyR_lt {E I : Arr} {n : Nat} (h : ∀ k, k < n → I k < E k) : polyR E I n < prodFrom E 0 n := by
  induction n with
  | zero => simp [polyR, prodFrom]
  | succ n ih =>
    rw [polyR, prodFrom_snoc, Nat.zero_add, Nat.mul_comm (prodFrom E 0 n)]
    exact digit_lt (h n (by omega)) (ih (fun k hk => h k (by omega)))

theorem polyR_inj {E I J : Arr} {n : Nat} (hI : ∀ k, k < n → I k < E k) (hJ : ∀ k, k < n → J k < E k)
    (h : polyR E I n = polyR E J n) : ∀ k, k < n → I k = J k := by
  induction n with
  | zero => intro k hk; omega
  | succ n ih =>
    rw [polyR, polyR] at h
    have ⟨h0, hr⟩ := digit_inj (hI n (by omega)) (hJ n (by omega)) h
    intro k hk
    by_cases hkn : k = n
    · rw [hkn]; exact h0
    · exact ih (fun k hk => hI k (by omega)) (fun k hk => hJ k (by omega)) hr k (by omega)

theorem polyR_surj (E : Arr) (n o : Nat) (ho : o < prodFrom E 0 n) :
    ∃ I : Arr, (∀ k, k < n → I k < E k) ∧ polyR E I n = o := by
  induction n generalizing o with
  | zero =>
    simp [prodFrom] at ho
    exact ⟨fun _ => 0, fun k hk => by omega, by simp [polyR, ho]⟩
  | succ n ih =>
    rw [prodFrom_snoc, Nat.zero_add] at ho
    have he : 0 < E n := by
      rcases Nat.eq_zero_or_pos (E n) with h | h
      · rw [h] at ho; simp at ho
      · exact h
    have hq : o / E n < prodFrom E 0 n := by
      rw [Nat.div_lt_iff_lt_mul he]; exact ho
    obtain ⟨I', hv, hp⟩ := ih (o / E n) hq
    refine ⟨fun k => if k = n then o % E n else I' k, ?_, ?_⟩
    · intro k hk
      by_cases hkn : k = n
      · simp only [hkn, if_true]; exact Nat.mod_lt _ he
      · simp only [hkn, if_false]; exact hv k (by omega)
    · rw [polyR]
      have : polyR E (fun k => if k = n then o % E n else I' k) n = polyR E I' n :=
        polyR_congr (fun k hk => by simp [show k ≠ n by omega])
      rw [this, hp]
      simp only [if_true]
      have := Nat.mod_add_div o (E n)
      omega

theorem polyR_formula (E I : Arr) (n : Nat) :
    polyR E I n = sumTo n (fun k => I k * prodFrom E (k+1) (n - (k+1))) := by
  induction n with
  | zero => rfl
  | succ n ih =>
    rw [polyR, ih, sumTo, sumTo_mul_left]
    have h0 : n + 1 - (n + 1) = 0 := by omega
    simp only [h0, prodFrom, Nat.mul_one]
    rw [Nat.add_comm]
    congr 1
    apply sumTo_congr
    intro k hk
    have h1 : n + 1 - (k + 1) = (n - (k + 1)) + 1 := by omega
    have h2 : k + 1 + (n - (k + 1)) = n := by omega
    rw [h1, prodFrom_snoc, h2, Nat.mul_left_comm, Nat.mul_comm (E n)]

/-! ### the strided dot product -/

theorem dotFrom_eq (S I : Arr) (n r : Nat) : dotFrom S I n r = sumTo n (fun k => I (r + k) * S (r + k)) := by
  induction n generalizing r with
  | zero => rfl
  | succ n ih =>
    rw [dotFrom, ih, sumTo_succ_front]
    simp only [Nat.add_zero, Gen.stride_fold_term]
    congr 1
    apply sumTo_congr
    intro k _
    have : r + 1 + k = r + (k + 1) := by omega
    rw [this]

theorem offsetStride_eq (n : Nat) (S I : Arr) : offsetStride n S I = sumTo n (fun k => I k * S k) := by
  unfold offsetStride
  rw [dotFrom_eq]
  simp

/-! ### required_span_size of a strided mapping -/

theorem requiredSpanStride_pos_ext {n : Nat} {E : Arr} (S : Arr) (h : ∀ k, k < n → 0 < E k) :
    requiredSpanStride n E S = 1 + sumTo n (fun k => (E k - 1) * S k) := by
  unfold requiredSpanStride
  by_cases hn : n = 0
  · subst hn; simp [stride_size_rank0, sumTo]
  · have hp : product n E ≠ 0 := by
      rw [product_eq]
      exact Nat.ne_of_gt (prodFrom_pos (fun k _ h2 => h k (by omega)))
    simp only [hn, hp, if_false, forLoop, stride_size_lo, stride_size_hi, stride_size_init, Nat.sub_zero]
    have : stride_size_step n E S = fun r acc => acc + (E r - 1) * S r := rfl
    rw [this, loop_sum]
    simp

theorem requiredSpanStride_zero_ext {n : Nat} {E : Arr} (S : Arr) (h : ∃ k, k < n ∧ E k = 0) :
    requiredSpanStride n E S = 0 := by
  unfold requiredSpanStride
  obtain ⟨k, hk, hz⟩ := h
  have hn : n ≠ 0 := by omega
  have hp : product n E = 0 := by
    rw [product_eq, prodFrom_eq_zero_iff]
    exact ⟨k, by omega, by omega, hz⟩
  simp [hn, hp, stride_size_empty]

theorem valid_pos {n : Nat} {E I : Arr} (h : Valid n E I) : ∀ k, k < n → 0 < E k :=
  fun k hk => Nat.lt_of_le_of_lt (Nat.zero_le _) (h k hk)

/-! ### uniqueness of strided mappings: the sorted-stride criterion -/

/-- Σ_{a ∈ l} I a * S a -/
def dotList (S I : Arr) (l : List Nat) : Nat := (l.map fun a => I a * S a).sum

/-- the dimensions listed from the largest stride downwards: every stride covers the whole span of the
    dimensions after it (`S b * E b ≤ S a` for consecutive `a, b`), the smallest stride is at least 1 -/
def DescChain (E S : Arr) : List Nat → Prop
  | [] => True
  | [a] => 1 ≤ S a
  | a :: b :: t => S b * E b ≤ S a ∧ DescChain E S (b :: t)

theorem sumTo_eq_range (n : Nat) (f : Nat → Nat) : sumTo n f = ((List.range n).map f).sum := by
  induction n with
  | zero => rfl
  | succ n ih => rw [sumTo, ih, List.range_succ, List.map_append, List.sum_append_nat]; simp

theorem offsetStride_eq_dotList {n : Nat} (S I : Arr) {p : List Nat} (hp : p.Perm (List.range n)) :
    offsetStride n S I = dotList S I p := by
  rw [offsetStride_eq, sumTo_eq_range]
  exact ((hp.map _).sum_nat).symm

theorem descChain_tail {E S : Arr} {a : Nat} {t : List Nat} (h : DescChain E S (a :: t)) : DescChain E S t := by
  cases t with
  | nil => trivial
  | cons b t => exact h.2

/-- a chain bounds the offsets it can produce: below `S a * E a` for the head `a` -/
theorem dotList_lt {E S I : Arr} {a : Nat} {t : List Nat} (hc : DescChain E S (a :: t))
    (hv : ∀ b, b ∈ a :: t → I b < E b) : dotList S I (a :: t) < S a * E a := by
  induction t generalizing a with
  | nil =>
    simp only [dotList, List.map_cons, List.map_nil, List.sum_cons, List.sum_nil, Nat.add_zero]
    have h1 : 1 ≤ S a := hc
    have h2 : I a < E a := hv a (by simp)
    rw [Nat.mul_comm (S a)]
    exact Nat.mul_lt_mul_of_lt_of_le h2 (Nat.le_refl _) h1
  | cons b t ih =>
    have hrest : dotList S I (b :: t) < S b * E b := ih hc.2 (fun c hcm => hv c (by simp at hcm ⊢; right; exact hcm))
    have hle : S b * E b ≤ S a := hc.1
    have h2 : I a < E a := hv a (by simp)
    have h3 : (I a + 1) * S a ≤ E a * S a := Nat.mul_le_mul_right _ h2
    have : dotList S I (a :: b :: t) = I a * S a + dotList S I (b :: t) := by simp [dotList]
    rw [this, Nat.mul_comm (S a)]
    rw [Nat.add_mul] at h3
    omega

theorem dotList_inj {E S I J : Arr} {l : List Nat} (hc : DescChain E S l)
    (hI : ∀ b, b ∈ l → I b < E b) (hJ : ∀ b, b ∈ l → J b < E b)
    (h : dotList S I l = dotList S J l) : ∀ b, b ∈ l → I b = J b := by
  induction l with
  | nil => intro b hb; cases hb
  | cons a t ih =>
    have e1 : dotList S I (a :: t) = I a * S a + dotList S I t := by simp [dotList]
    have e2 : dotList S J (a :: t) = J a * S a + dotList S J t := by simp [dotList]
    have hpos : 0 < S a := by
      cases t with
      | nil => exact hc
      | cons b t =>
        have h1 := dotList_lt hc.2 (fun c hcm => hI c (by simp at hcm ⊢; right; exact hcm))
        have h2 := hc.1
        omega
    have bI : dotList S I t < S a := by
      cases t with
      | nil => simp [dotList]; exact hpos
      | cons b t =>
        have h1 := dotList_lt hc.2 (fun c hcm => hI c (by simp at hcm ⊢; right; exact hcm))
        have h2 := hc.1
        omega
    have bJ : dotList S J t < S a := by
      cases t with
      | nil => simp [dotList]; exact hpos
      | cons b t =>
        have h1 := dotList_lt hc.2 (fun c hcm => hJ c (by simp at hcm ⊢; right; exact hcm))
        have h2 := hc.1
        omega
    rw [e1, e2] at h
    have h' : dotList S I t + S a * I a = dotList S J t + S a * J a := by
      rw [Nat.mul_comm (S a), Nat.mul_comm (S a)]; omega
    have ⟨hr, hq⟩ := digit_inj bI bJ h'
    intro b hb
    rcases List.mem_cons.mp hb with hb | hb
    · rw [hb]; exact hq
    · exact ih (descChain_tail hc) (fun c hcm => hI c (List.mem_cons_of_mem _ hcm))
        (fun c hcm => hJ c (List.mem_cons_of_mem _ hcm)) hr b hb

/-! ### the assertions of the from-stride constructors -/

theorem checkLeft_loop (E S : Arr) (t : Nat) :
    let st := loopFrom (fun r (st : Bool × Nat) => (st.1 && S r == st.2, st.2 * E r)) t 0 (true, 1)
    st.2 = prodFrom E 0 t ∧ (st.1 = true ↔ ∀ k, k < t → S k = prodFrom E 0 k) := by
  induction t with
  | zero => simp [loopFrom, prodFrom]
  | succ t ih =>
    obtain ⟨h1, h2⟩ := ih
    rw [loopFrom_succ_last]
    simp only [Nat.zero_add]
    refine ⟨by rw [h1, prodFrom_snoc, Nat.zero_add], ?_⟩
    simp only [Bool.and_eq_true, beq_iff_eq, h1, h2]
    constructor
    · rintro ⟨ha, hb⟩ k hk
      by_cases hkt : k = t
      · rw [hkt]; exact hb
      · exact ha k (by omega)
    · intro h
      exact ⟨fun k hk => h k (by omega), h t (by omega)⟩

theorem checkFromStrideLeft_iff (n : Nat) (E S : Arr) :
    checkFromStrideLeft n E S = true ↔ ∀ k, k < n → S k = strideLeft n E k := by
  unfold checkFromStrideLeft
  by_cases hn : n = 0
  · subst hn; simp
  · simp only [hn, if_false, forLoop, Nat.sub_zero]
    obtain ⟨h1, h2⟩ := checkLeft_loop E S (n - 1)
    simp only [Bool.and_eq_true, beq_iff_eq, strideLeft_eq, h1, h2]
    constructor
    · rintro ⟨h1, h2⟩ k hk
      by_cases hkn : k = n - 1
      · rw [hkn]; exact h2
      · exact h1 k (by omega)
    · intro h
      exact ⟨fun k hk => h k (by omega), h (n - 1) (by omega)⟩

theorem downFrom_succ_last {σ : Type} (body : Nat → σ → σ) (n r : Nat) (s : σ) :
    downFrom body (n+1) r s = body (r-n) (downFrom body n r s) := by
  induction n generalizing r s with
  | zero => simp [downFrom]
  | succ n ih =>
    rw [downFrom, ih (r-1) (body r s)]
    have : r - 1 - n = r - (n + 1) := by omega
    rw [this]
    rfl

theorem checkRight_loop (E S : Arr) (m t : Nat) (ht : t ≤ m) :
    let st := downFrom (fun r (st : Bool × Nat) => (st.1 && S r == st.2, st.2 * E r)) t m (true, 1)
    st.2 = prodFrom E (m - t + 1) t ∧
      (st.1 = true ↔ ∀ k, m - t < k → k ≤ m → S k = prodFrom E (k+1) (m - k)) := by
  induction t with
  | zero =>
    simp only [downFrom, prodFrom, true_and]
    exact ⟨fun _ k h1 h2 => by omega, fun _ => trivial⟩
  | succ t ih =>
    obtain ⟨h1, h2⟩ := ih (by omega)
    rw [downFrom_succ_last]
    have e1 : m - (t + 1) + 1 = m - t := by omega
    have e3 : m - (m - t) = t := by omega
    refine ⟨?_, ?_⟩
    · show _ * E (m - t) = _
      rw [h1, e1, prodFrom, Nat.mul_comm]
    · show ((_ && S (m - t) == _) = true) ↔ _
      simp only [Bool.and_eq_true, beq_iff_eq, h1, h2]
      constructor
      · rintro ⟨ha, hb⟩ k h3 h4
        by_cases hk : k = m - t
        · rw [hk, e3]; exact hb
        · exact ha k (by omega) h4
      · intro h
        refine ⟨fun k h3 h4 => h k (by omega) h4, ?_⟩
        have := h (m - t) (by omega) (by omega)
        rw [e3] at this
        exact this

theorem checkFromStrideRight_iff (n : Nat) (E S : Arr) :
    checkFromStrideRight n E S = true ↔ ∀ k, k < n → S k = strideRight n E k := by
  unfold checkFromStrideRight
  by_cases hn : n = 0
  · subst hn; simp
  · simp only [hn, if_false, forDown, Nat.sub_zero]
    obtain ⟨h1', h2'⟩ := checkRight_loop E S (n-1) (n-1) (Nat.le_refl _)
    simp only [Bool.and_eq_true, beq_iff_eq, strideRight_eq, h1', h2', Nat.sub_self, Nat.zero_add]
    have e : ∀ k, k < n → n - (k + 1) = n - 1 - k := fun k hk => by omega
    constructor
    · rintro ⟨h1, h2⟩ k hk
      rw [e k hk]
      by_cases hk0 : k = 0
      · subst hk0; simpa using h2
      · exact h1 k (by omega) (by omega)
    · intro h
      refine ⟨fun k h1 h2 => ?_, ?_⟩
      · rw [h k (by omega), e k (by omega)]
      · have := h 0 (by omega)
        rw [e 0 (by omega)] at this
        simpa using this

/-! ### the static/dynamic extent index table -/

theorem getElem?_set_self' {α : Type} (l : List α) (i : Nat) (v : α) (h : i < l.length) : (l.set i v)[i]? = some v := by
  rw [List.getElem?_set]; simp [h]

theorem getElem?_set_ne' {α : Type} (l : List α) (i j : Nat) (v : α) (h : i ≠ j) : (l.set i v)[j]? = l[j]? := by
  rw [List.getElem?_set]; simp [h]


/-- number of dynamic extents among the first `r` entries of the pattern -/
def countDyn (p : Pattern) (r : Nat) : Nat := rankDynamic (p.take r)

theorem rankDynamic_append (p q : Pattern) : rankDynamic (p ++ q) = rankDynamic p + rankDynamic q := by
  induction p with
  | nil => simp [rankDynamic]
  | cons e es ih => simp only [List.cons_append, rankDynamic, ih]; omega

theorem countDyn_succ (p : Pattern) (r : Nat) (hr : r < p.length) :
    countDyn p (r+1) = countDyn p r + (if isDyn p r then 1 else 0) := by
  unfold countDyn
  rw [List.take_succ_eq_append_getElem hr, rankDynamic_append]
  simp [rankDynamic, isDyn, List.getD_eq_getElem?_getD, List.getElem?_eq_getElem hr]

theorem countDyn_le (p : Pattern) (r : Nat) : countDyn p r ≤ rankDynamic p := by
  unfold countDyn
  have : p = p.take r ++ p.drop r := (List.take_append_drop r p).symm
  conv => rhs; rw [this, rankDynamic_append]
  omega

theorem countDyn_lt (p : Pattern) (r : Nat) (hr : r < p.length) (hd : isDyn p r = true) :
    countDyn p r < rankDynamic p := by
  have h1 := countDyn_succ p r hr
  have h2 := countDyn_le p (r+1)
  simp [hd] at h1
  omega

/-- the loop of `make_dynamic_index` after `t` iterations: entries `0..t` are the prefix counts -/
theorem makeDynamicIndex_loop (p : Pattern) (t : Nat) (ht : t ≤ p.length) :
    let di := loopFrom (fun i (di : List Nat) => di.set (i+1) (di.getD i 0 + (if isDyn p i then 1 else 0))) t 0
      (List.replicate (p.length + 1) 0)
    di.length = p.length + 1 ∧ ∀ r, r ≤ t → di.getD r 0 = countDyn p r := by
  induction t with
  | zero =>
    simp only [loopFrom, List.length_replicate, true_and]
    intro r hr
    have : r = 0 := by omega
    subst this
    simp [countDyn, rankDynamic]
  | succ t ih =>
    have ih' := ih (by omega)
    rw [loopFrom_succ_last]
    simp only [Nat.zero_add]
    generalize loopFrom _ t 0 _ = di at ih' ⊢
    obtain ⟨hl, hv⟩ := ih'
    refine ⟨by rw [List.length_set]; exact hl, ?_⟩
    intro r hr
    by_cases hrt : r = t + 1
    · subst hrt
      rw [List.getD_eq_getElem?_getD, getElem?_set_self' _ _ _ (by omega)]
      rw [Option.getD_some, hv t (Nat.le_refl _), countDyn_succ p t (by omega)]
    · rw [List.getD_eq_getElem?_getD, getElem?_set_ne' _ _ _ _ (by omega), ← List.getD_eq_getElem?_getD]
      exact hv r (by omega)

theorem makeDynamicIndex_getD (p : Pattern) (r : Nat) (hr : r ≤ p.length) :
    (makeDynamicIndex p).getD r 0 = countDyn p r := by
  have := makeDynamicIndex_loop p p.length (Nat.le_refl _)
  simp only [makeDynamicIndex, forLoop, Nat.sub_zero]
  exact this.2 r hr

/-- the loop of `init_dynamic_extents` (all `rank` values given) after `t` iterations -/
theorem initFromFull_loop (p : Pattern) (c : List Nat) (t : Nat) (ht : t ≤ p.length) :
    let st := loopFrom (fun i (st : List Nat × Nat) => if isDyn p i then (st.1.set st.2 (c.getD i 0), st.2 + 1) else st) t 0
      (List.replicate (rankDynamic p) 0, 0)
    st.2 = countDyn p t ∧ st.1.length = rankDynamic p ∧
      ∀ r, r < t → isDyn p r = true → st.1.getD (countDyn p r) 0 = c.getD r 0 := by
  induction t with
  | zero =>
    simp only [loopFrom, List.length_replicate, true_and]
    exact ⟨by simp [countDyn, rankDynamic], fun r hr => by omega⟩
  | succ t ih =>
    have ih' := ih (by omega)
    rw [loopFrom_succ_last]
    simp only [Nat.zero_add]
    generalize loopFrom _ t 0 _ = st at ih' ⊢
    obtain ⟨h1, h2, h3⟩ := ih'
    by_cases hd : isDyn p t = true
    · simp only [hd, if_true]
      refine ⟨by rw [h1, countDyn_succ p t (by omega)]; simp [hd], by rw [List.length_set]; exact h2, ?_⟩
      intro r hr hdr
      rw [h1]
      by_cases hrt : r = t
      · subst hrt
        have := countDyn_lt p r (by omega) hd
        rw [List.getD_eq_getElem?_getD, getElem?_set_self' _ _ _ (by omega), Option.getD_some]
      · have hlt : r < t := by omega
        have hmono : countDyn p r < countDyn p t := by
          have hs := countDyn_succ p r (by omega)
          simp only [hdr, if_true] at hs
          have : countDyn p (r+1) ≤ countDyn p t := by
            unfold countDyn
            have hrt' : r + 1 ≤ t := by omega
            have : p.take t = (p.take t).take (r+1) ++ (p.take t).drop (r+1) := (List.take_append_drop _ _).symm
            rw [this, rankDynamic_append, List.take_take, Nat.min_eq_left hrt']
            omega
          omega
        rw [List.getD_eq_getElem?_getD, getElem?_set_ne' _ _ _ _ (by omega), ← List.getD_eq_getElem?_getD]
        exact h3 r hlt hdr
    · have hd' : isDyn p t = false := by simpa using hd
      simp only [hd', Bool.false_eq_true, if_false]
      refine ⟨by rw [h1, countDyn_succ p t (by omega)]; simp [hd'], h2, ?_⟩
      intro r hr hdr
      have : r ≠ t := fun e => by rw [e, hd'] at hdr; cases hdr
      exact h3 r (by omega) hdr


/-! ### extents built by the constructors -/

instance decDescChain (E S : Arr) : (l : List Nat) → Decidable (DescChain E S l)
  | [] => isTrue trivial
  | [a] => inferInstanceAs (Decidable (1 ≤ S a))
  | _ :: b :: t => @instDecidableAnd _ _ _ (decDescChain E S (b :: t))

theorem compatible_length : ∀ (p : Pattern) (c : List Nat), compatible p c = true → c.length = p.length := by
  intro p
  induction p with
  | nil => intro c h; cases c with | nil => rfl | cons _ _ => simp [compatible] at h
  | cons a p ih =>
    intro c h
    cases c with
    | nil => simp [compatible] at h
    | cons v vs =>
      simp only [compatible, Bool.and_eq_true] at h
      simp [ih vs h.2]

theorem compatible_static : ∀ (p : Pattern) (c : List Nat), compatible p c = true →
    ∀ r s, p[r]? = some (some s) → c.getD r 0 = s := by
  intro p
  induction p with
  | nil => intro c _ r s h; simp at h
  | cons a p ih =>
    intro c h r s hs
    cases c with
    | nil => simp [compatible] at h
    | cons v vs =>
      simp only [compatible, Bool.and_eq_true] at h
      cases r with
      | zero =>
        simp only [List.getElem?_cons_zero, Option.some.injEq] at hs
        subst hs
        have hsv : s = v := by simpa using h.1
        simp [hsv]
      | succ r =>
        simp only [List.getElem?_cons_succ] at hs
        simpa using ih vs h.2 r s hs

theorem dynPart_spec : ∀ (p : Pattern) (c : List Nat), compatible p c = true →
    (dynPart p c).length = rankDynamic p ∧
    ∀ r, r < p.length → isDyn p r = true → (dynPart p c).getD (countDyn p r) 0 = c.getD r 0 := by
  intro p
  induction p with
  | nil => intro c _; exact ⟨by cases c <;> simp [dynPart, rankDynamic], fun r hr => by simp at hr⟩
  | cons a p ih =>
    intro c h
    cases c with
    | nil => simp [compatible] at h
    | cons v vs =>
      simp only [compatible, Bool.and_eq_true] at h
      obtain ⟨ihl, ihv⟩ := ih vs h.2
      cases a with
      | none =>
        refine ⟨by simp only [dynPart, Option.isNone_none, if_true, List.length_cons, rankDynamic, ihl]; omega, ?_⟩
        intro r hr hd
        cases r with
        | zero => simp [dynPart, countDyn, rankDynamic]
        | succ r =>
          have hc' : countDyn (none :: p) (r+1) = countDyn p r + 1 := by
            simp only [countDyn, List.take_succ_cons, rankDynamic, Option.isNone_none, if_true]; omega
          have hd' : isDyn p r = true := by simpa [isDyn] using hd
          rw [hc']
          simp only [dynPart, Option.isNone_none, if_true, List.getD_cons_succ]
          exact ihv r (by simpa using hr) hd'
      | some s =>
        refine ⟨by simp [dynPart, rankDynamic, ihl], ?_⟩
        intro r hr hd
        cases r with
        | zero => simp [isDyn] at hd
        | succ r =>
          have hc' : countDyn (some s :: p) (r+1) = countDyn p r := by
            simp [countDyn, rankDynamic]
          have hd' : isDyn p r = true := by simpa [isDyn] using hd
          rw [hc']
          simp only [dynPart, Option.isNone_some, Bool.false_eq_true, if_false, List.getD_cons_succ]
          exact ihv r (by simpa using hr) hd'

theorem copy_loop (c : List Nat) (m t : Nat) (ht : t ≤ m) :
    let d := loopFrom (fun i (d : List Nat) => d.set i (c.getD i 0)) t 0 (List.replicate m 0)
    d.length = m ∧ ∀ k, k < t → d.getD k 0 = c.getD k 0 := by
  induction t with
  | zero => exact ⟨by simp [loopFrom], fun k hk => by omega⟩
  | succ t ih =>
    have ih' := ih (by omega)
    rw [loopFrom_succ_last]
    simp only [Nat.zero_add]
    generalize loopFrom _ t 0 _ = d at ih' ⊢
    obtain ⟨hl', hv⟩ := ih'
    refine ⟨by rw [List.length_set]; exact hl', ?_⟩
    intro k hk
    by_cases hkt : k = t
    · subst hkt
      rw [List.getD_eq_getElem?_getD, getElem?_set_self' _ _ _ (by omega), Option.getD_some]
    · rw [List.getD_eq_getElem?_getD, getElem?_set_ne' _ _ _ _ (by omega), ← List.getD_eq_getElem?_getD]
      exact hv k (by omega)

theorem initFromDyn_getD (p : Pattern) (c : List Nat) (k : Nat) (hk : k < rankDynamic p) :
    (initFromDyn p c).getD k 0 = c.getD k 0 := by
  have := copy_loop c (rankDynamic p) (rankDynamic p) (Nat.le_refl _)
  simp only [initFromDyn, forLoop, Nat.sub_zero]
  exact this.2 k hk

theorem initFromFull_getD (p : Pattern) (c : List Nat) (r : Nat) (hr : r < p.length) (hd : isDyn p r = true) :
    (initFromFull p c).getD (countDyn p r) 0 = c.getD r 0 := by
  have := initFromFull_loop p c p.length (Nat.le_refl _)
  simp only [initFromFull, forLoop, Nat.sub_zero]
  exact this.2.2 r hr hd

theorem rankDynamic_le_length (q : Pattern) : rankDynamic q ≤ q.length := by
  induction q with
  | nil => simp [rankDynamic]
  | cons a q ih => simp only [rankDynamic, List.length_cons]; split <;> omega

theorem countDyn_all_dyn (p : Pattern) (h : rankDynamic p = p.length) (k : Nat) (hk : k ≤ p.length) : countDyn p k = k := by
  have h3 : p = p.take k ++ p.drop k := (List.take_append_drop k p).symm
  have h4 := rankDynamic_append (p.take k) (p.drop k)
  rw [← h3] at h4
  have h5 := rankDynamic_le_length (p.take k)
  have h6 := rankDynamic_le_length (p.drop k)
  simp only [List.length_take, List.length_drop] at h5 h6
  unfold countDyn
  omega

theorem initDynamic_pat {p : Pattern} {c : List Nat} {e : Extents} (h : initDynamic p c = some e) : e.pat = p := by
  unfold initDynamic at h
  by_cases h1 : c.length = rankDynamic p
  · rw [if_pos h1] at h; cases h; rfl
  · rw [if_neg h1] at h
    by_cases h2 : c.length = p.length
    · rw [if_pos h2] at h; cases h; rfl
    · rw [if_neg h2] at h; cases h

theorem extent_static (e : Extents) (r s : Nat) (h : e.pat[r]? = some (some s)) : e.extent r = s := by
  unfold Extents.extent staticExtent
  rw [List.getD_eq_getElem?_getD, h]
  rfl

theorem extent_dynamic (e : Extents) (r : Nat) (hr : r < e.pat.length) (h : e.pat[r]? = some none) :
    e.extent r = e.dyn.getD (countDyn e.pat r) 0 := by
  unfold Extents.extent staticExtent
  rw [List.getD_eq_getElem?_getD, h, makeDynamicIndex_getD e.pat r (by omega)]
  rfl

theorem isDyn_of_getElem? {p : Pattern} {r : Nat} (h : p[r]? = some none) : isDyn p r = true := by
  unfold isDyn
  rw [List.getD_eq_getElem?_getD, h]
  rfl

/-- every extents object produced by a constructor from values compatible with the static pattern reports
    exactly these values (both the all-values form and the dynamic-values-only form) -/
theorem extent_of_initDynamic (p : Pattern) (c : List Nat) (hc : compatible p c = true) (e : Extents)
    (he : initDynamic p c = some e ∨ initDynamic p (dynPart p c) = some e) :
    ∀ r, r < p.length → e.extent r = c.getD r 0 := by
  intro r hr
  have hl := compatible_length p c hc
  obtain ⟨hdl, hdv⟩ := dynPart_spec p c hc
  have hpat : e.pat = p := by
    rcases he with he | he <;> exact initDynamic_pat he
  cases hpr : p[r]'hr with
  | some s =>
    have h1 : p[r]? = some (some s) := by rw [List.getElem?_eq_getElem hr, hpr]
    rw [extent_static e r s (by rw [hpat]; exact h1)]
    exact (compatible_static p c hc r s h1).symm
  | none =>
    have h1 : p[r]? = some none := by rw [List.getElem?_eq_getElem hr, hpr]
    have hd := isDyn_of_getElem? h1
    rw [extent_dynamic e r (by rw [hpat]; exact hr) (by rw [hpat]; exact h1), hpat]
    have hlt := countDyn_lt p r hr hd
    have hrd : rankDynamic p ≠ 0 := by omega
    rcases he with he | he
    · unfold initDynamic at he
      by_cases h2 : c.length = rankDynamic p
      · rw [if_pos h2, if_neg hrd] at he
        cases he
        show (initFromDyn p c).getD (countDyn p r) 0 = _
        rw [countDyn_all_dyn p (by omega) r (by omega)]
        exact initFromDyn_getD p c r (by omega)
      · rw [if_neg h2, if_pos hl, if_neg hrd] at he
        cases he
        exact initFromFull_getD p c r hr hd
    · unfold initDynamic at he
      rw [if_pos hdl, if_neg hrd] at he
      cases he
      show (initFromDyn p (dynPart p c)).getD (countDyn p r) 0 = _
      rw [initFromDyn_getD p _ _ hlt]
      exact hdv r hr hd

/-! ### mdarray built from an mdspan -/

theorem Mapping.offset_congr (m : Mapping) {I J : Arr} (h : ∀ k, k < m.rank → I k = J k) : m.offset I = m.offset J := by
  cases m with | mk lay rank ext str =>
  cases lay
  · show offsetLeft rank ext I = offsetLeft rank ext J
    rw [offsetLeft_eq_polyL, offsetLeft_eq_polyL]
    exact polyL_congr (fun k _ hk => h k (by simpa using hk))
  · show offsetRight rank ext I = offsetRight rank ext J
    rw [offsetRight_eq_polyR, offsetRight_eq_polyR]
    exact polyR_congr h
  · show offsetStride rank str I = offsetStride rank str J
    rw [offsetStride_eq, offsetStride_eq]
    exact sumTo_congr (fun k hk => by rw [h k hk])

theorem toList_getD (n : Nat) (a : Arr) (k : Nat) (hk : k < n) : (toList n a).getD k 0 = a k := by
  simp [toList, List.getD_eq_getElem?_getD, hk]

theorem toList_length (n : Nat) (a : Arr) : (toList n a).length = n := by simp [toList]

theorem arr_toList (n : Nat) (a : Arr) (k : Nat) (hk : k < n) : arr (toList n a) k = a k := toList_getD n a k hk

/-- the nested loops of `init_from_mdspan` visit every valid index tuple … -/
theorem mem_allTuples : ∀ (es t : List Nat), t.length = es.length → (∀ k, k < es.length → t.getD k 0 < es.getD k 0) →
    t ∈ allTuples es := by
  intro es
  induction es with
  | nil => intro t hl _; cases t with | nil => simp [allTuples] | cons _ _ => simp at hl
  | cons e es ih =>
    intro t hl hv
    cases t with
    | nil => simp at hl
    | cons i t =>
      simp only [allTuples, List.mem_flatMap, List.mem_range, List.mem_map]
      refine ⟨i, by simpa using hv 0 (by simp), t, ?_, rfl⟩
      apply ih t (by simpa using hl)
      intro k hk
      simpa using hv (k+1) (by simpa using hk)

/-- … and only valid ones -/
theorem valid_of_mem_allTuples : ∀ (es t : List Nat), t ∈ allTuples es →
    t.length = es.length ∧ ∀ k, k < es.length → t.getD k 0 < es.getD k 0 := by
  intro es
  induction es with
  | nil => intro t ht; simp [allTuples] at ht; subst ht; exact ⟨rfl, fun k hk => by simp at hk⟩
  | cons e es ih =>
    intro t ht
    simp only [allTuples, List.mem_flatMap, List.mem_range, List.mem_map] at ht
    obtain ⟨i, hi, t', ht', rfl⟩ := ht
    obtain ⟨hl, hv⟩ := ih t' ht'
    refine ⟨by simp [hl], ?_⟩
    intro k hk
    cases k with
    | zero => simpa using hi
    | succ k => simpa using hv k (by simpa using hk)

/-- one step of `init_from_mdspan` -/
def initStep (other : View) (acc : Md) (t : List Nat) : Md :=
  match other.get? (arr t) with
  | some v => acc.set (arr t) v
  | none => acc

theorem initFromView_eq (a : Md) (other : View) (tuples : List (List Nat)) :
    initFromView a other tuples = tuples.foldl (initStep other) a := rfl

theorem initFromMdspan_eq (a other : Md) (tuples : List (List Nat)) :
    initFromMdspan a other tuples = tuples.foldl (initStep other.toView) a := rfl

/-- injectivity hypothesis used for the copy: offsets of valid indices of `m` that coincide belong to indices that
    agree below the rank -/
def InjOn (m : Mapping) : Prop :=
  ∀ I J, Valid m.rank m.ext I → Valid m.rank m.ext J → m.offset I = m.offset J → ∀ k, k < m.rank → I k = J k

theorem initStep_spec (m : Mapping) (hinj : InjOn m) (other : View) (hrank : other.map.rank = m.rank)
    (acc : Md) (hmap : acc.map = m) (hlen : m.requiredSpan ≤ acc.data.length)
    (hrange : ∀ I, Valid m.rank m.ext I → m.offset I < m.requiredSpan)
    (t : List Nat) (ht : Valid m.rank m.ext (arr t)) (I : Arr) (hI : Valid m.rank m.ext I) :
    let acc' := initStep other acc t
    acc'.map = m ∧ acc'.data.length = acc.data.length ∧
    (acc.get? I = other.get? I → acc'.get? I = other.get? I) ∧
    ((∀ k, k < m.rank → arr t k = I k) → (∃ v, other.get? I = some v) → acc'.get? I = other.get? I) := by
  have hcongr : (∀ k, k < m.rank → arr t k = I k) → other.get? (arr t) = other.get? I := by
    intro h
    simp only [View.get?]
    rw [other.map.offset_congr (fun k hk => h k (by omega))]
  unfold initStep
  cases hv : other.get? (arr t) with
  | none =>
    refine ⟨hmap, rfl, fun h => h, ?_⟩
    intro hag ⟨v, hv'⟩
    rw [hcongr hag, hv'] at hv
    cases hv
  | some v =>
    have hoff : m.offset (arr t) < acc.data.length := Nat.lt_of_lt_of_le (hrange _ ht) hlen
    refine ⟨by simp [Md.set, hmap], by simp [Md.set], ?_, ?_⟩
    · intro hq
      simp only [Md.set, Md.get?, hmap]
      by_cases heq : m.offset (arr t) = m.offset I
      · have hag := hinj (arr t) I ht hI heq
        rw [← heq, getElem?_set_self' _ _ _ hoff]
        have := hcongr hag
        rw [hv] at this
        simpa [Md.get?] using this
      · rw [getElem?_set_ne' _ _ _ _ heq]
        simpa [Md.get?, hmap] using hq
    · intro hag _
      simp only [Md.set, Md.get?, hmap]
      rw [← m.offset_congr hag, getElem?_set_self' _ _ _ hoff]
      have := hcongr hag
      rw [hv] at this
      simpa [Md.get?] using this

theorem initFold_spec (m : Mapping) (hinj : InjOn m) (other : View) (hrank : other.map.rank = m.rank)
    (hrange : ∀ I, Valid m.rank m.ext I → m.offset I < m.requiredSpan)
    (I : Arr) (hI : Valid m.rank m.ext I) (hoI : ∃ v, other.get? I = some v) :
    ∀ (tuples : List (List Nat)) (acc : Md), acc.map = m → m.requiredSpan ≤ acc.data.length →
      (∀ t, t ∈ tuples → Valid m.rank m.ext (arr t)) →
      (acc.get? I = other.get? I ∨ ∃ t, t ∈ tuples ∧ ∀ k, k < m.rank → arr t k = I k) →
      (tuples.foldl (initStep other) acc).get? I = other.get? I := by
  intro tuples
  induction tuples with
  | nil =>
    intro acc _ _ _ h
    rcases h with h | ⟨t, ht, _⟩
    · exact h
    · cases ht
  | cons t ts ih =>
    intro acc hmap hlen hval h
    obtain ⟨h1, h2, h3, h4⟩ := initStep_spec m hinj other hrank acc hmap hlen hrange t (hval t (by simp)) I hI
    rw [List.foldl_cons]
    apply ih (initStep other acc t) h1 (by rw [h2]; exact hlen) (fun t' ht' => hval t' (List.mem_cons_of_mem _ ht'))
    rcases h with h | ⟨t', ht', hag⟩
    · exact Or.inl (h3 h)
    · rcases List.mem_cons.mp ht' with heq | hmem
      · subst heq; exact Or.inl (h4 hag hoI)
      · exact Or.inr ⟨t', hmem, hag⟩

/-! ### md storage -/

/-! ### spans -/

theorem elems_getElem? {α : Type} (s : Span) (mem : List α) (i : Nat) (hi : i < s.size) :
    (s.elems mem)[i]? = mem[s.off + i]? := by
  unfold Span.elems
  rw [List.getElem?_take, List.getElem?_drop]
  simp [hi]

theorem elems_length {α : Type} (s : Span) (mem : List α) (h : s.off + s.size ≤ mem.length) :
    (s.elems mem).length = s.size := by
  unfold Span.elems
  rw [List.length_take, List.length_drop]
  omega

/-! ## round two -/

/-! ### the offsets depend on the extents only through `extent(r)`, `r < rank` -/

theorem polyL_congr_ext {E F I : Arr} {lo n : Nat} (h : ∀ k, lo ≤ k → k < lo + n → E k = F k) :
    polyL E I lo n = polyL F I lo n := by
  induction n generalizing lo with
  | zero => rfl
  | succ n ih =>
    rw [polyL, polyL, h lo (Nat.le_refl _) (by omega), ih (fun k h1 h2 => h k (by omega) (by omega))]

theorem polyR_congr_ext {E F I : Arr} {n : Nat} (h : ∀ k, k < n → E k = F k) : polyR E I n = polyR F I n := by
  induction n with
  | zero => rfl
  | succ n ih =>
    rw [polyR, polyR, h n (by omega), ih (fun k hk => h k (by omega))]

theorem requiredSpanStride_congr {n : Nat} {E F S T : Arr} (hE : ∀ k, k < n → E k = F k) (hS : ∀ k, k < n → S k = T k) :
    requiredSpanStride n E S = requiredSpanStride n F T := by
  by_cases hz : ∃ k, k < n ∧ E k = 0
  · have hz' : ∃ k, k < n ∧ F k = 0 := by
      obtain ⟨k, hk, h0⟩ := hz
      exact ⟨k, hk, by rw [← hE k hk]; exact h0⟩
    rw [requiredSpanStride_zero_ext S hz, requiredSpanStride_zero_ext T hz']
  · have hpos : ∀ k, k < n → 0 < E k := by
      intro k hk
      rcases Nat.eq_zero_or_pos (E k) with h0 | h0
      · exact absurd ⟨k, hk, h0⟩ hz
      · exact h0
    have hpos' : ∀ k, k < n → 0 < F k := fun k hk => by rw [← hE k hk]; exact hpos k hk
    rw [requiredSpanStride_pos_ext S hpos, requiredSpanStride_pos_ext T hpos']
    congr 1
    exact sumTo_congr (fun k hk => by rw [hE k hk, hS k hk])

/-! ### intermediate values of the Horner loops -/

/-- dropping leading digits of a column-major Horner form never increases it (all extents in between are ≥ 1) -/
theorem polyL_suffix_le {E I : Arr} (lo d n : Nat) (h : ∀ k, lo ≤ k → k < lo + d → 1 ≤ E k) :
    polyL E I (lo + d) n ≤ polyL E I lo (d + n) := by
  induction d generalizing lo with
  | zero => simp
  | succ d ih =>
    have e : d + 1 + n = (d + n) + 1 := by omega
    rw [e, polyL]
    have h1 := ih (lo+1) (fun k h1 h2 => h k (by omega) (by omega))
    have e2 : lo + 1 + d = lo + (d + 1) := by omega
    rw [e2] at h1
    have h2 : 1 ≤ E lo := h lo (Nat.le_refl _) (by omega)
    have h3 : polyL E I (lo + 1) (d + n) ≤ E lo * polyL E I (lo + 1) (d + n) := by
      have := Nat.mul_le_mul_right (polyL E I (lo + 1) (d + n)) h2
      rw [Nat.one_mul] at this
      exact this
    omega

/-- a prefix of a row-major Horner form never exceeds the whole (all further extents are ≥ 1) -/
theorem polyR_prefix_le {E I : Arr} (m d : Nat) (h : ∀ k, m ≤ k → k < m + d → 1 ≤ E k) :
    polyR E I m ≤ polyR E I (m + d) := by
  induction d with
  | zero => exact Nat.le_refl _
  | succ d ih =>
    have h1 := ih (fun k h1 h2 => h k h1 (by omega))
    show polyR E I m ≤ I (m + d) + E (m + d) * polyR E I (m + d)
    have h2 : 1 ≤ E (m + d) := h (m + d) (by omega) (by omega)
    have h3 : polyR E I (m + d) ≤ E (m + d) * polyR E I (m + d) := by
      have := Nat.mul_le_mul_right (polyR E I (m + d)) h2
      rw [Nat.one_mul] at this
      exact this
    omega

theorem sumTo_term_le {n r : Nat} (hr : r < n) (f : Nat → Nat) : f r ≤ sumTo n f := by
  induction n with
  | zero => omega
  | succ n ih =>
    simp only [sumTo]
    by_cases h : r = n
    · subst h; omega
    · have := ih (by omega); omega

/-! ### uniqueness of strided mappings: dimensions of extent 1 do not matter -/

theorem dotList_cons (S I : Arr) (a : Nat) (t : List Nat) : dotList S I (a :: t) = I a * S a + dotList S I t := by
  simp [dotList]

theorem dotList_filter_split (S I : Arr) (q : Nat → Bool) (l : List Nat) :
    dotList S I l = dotList S I (l.filter q) + dotList S I (l.filter (fun a => !q a)) := by
  induction l with
  | nil => rfl
  | cons a t ih =>
    by_cases hq : q a = true
    · have e1 : (a :: t).filter q = a :: t.filter q := by simp [hq]
      have e2 : (a :: t).filter (fun a => !q a) = t.filter (fun a => !q a) := by simp [hq]
      rw [e1, e2, dotList_cons, dotList_cons, ih]
      omega
    · have hq' : q a = false := by simpa using hq
      have e1 : (a :: t).filter q = t.filter q := by simp [hq']
      have e2 : (a :: t).filter (fun a => !q a) = a :: t.filter (fun a => !q a) := by simp [hq']
      rw [e1, e2, dotList_cons, dotList_cons, ih]
      omega

theorem dotList_zero (S I : Arr) (l : List Nat) (h : ∀ a, a ∈ l → I a = 0) : dotList S I l = 0 := by
  induction l with
  | nil => rfl
  | cons a t ih =>
    rw [dotList_cons, h a (by simp), ih (fun b hb => h b (List.mem_cons_of_mem _ hb))]
    simp

/-- the dimensions that matter for uniqueness: those whose extent is not 1 -/
def bigDims (n : Nat) (E : Arr) : List Nat := (List.range n).filter (fun k => E k != 1)

theorem mem_bigDims {n : Nat} {E : Arr} {k : Nat} : k ∈ bigDims n E ↔ k < n ∧ E k ≠ 1 := by
  simp [bigDims, List.mem_filter]

/-- for a valid index the strided offset is the dot product over the dimensions of extent ≠ 1 only -/
theorem offsetStride_eq_dotList_big {n : Nat} (E S I : Arr) (hI : Valid n E I) {p : List Nat}
    (hp : p.Perm (bigDims n E)) : offsetStride n S I = dotList S I p := by
  rw [offsetStride_eq_dotList S I (List.Perm.refl (List.range n)), dotList_filter_split S I (fun k => E k != 1)]
  have hz : dotList S I ((List.range n).filter (fun a => !(E a != 1))) = 0 := by
    apply dotList_zero
    intro a ha
    rw [List.mem_filter, List.mem_range] at ha
    have h1 : E a = 1 := by simpa using ha.2
    have := hI a ha.1
    omega
  rw [hz, Nat.add_zero]
  exact ((hp.map _).sum_nat).symm

/-- the sorted-stride criterion: the dimensions of extent ≠ 1 can be listed from the largest stride downwards such
    that each stride covers the whole span of the next dimension and the smallest stride is at least 1 -/
def SortedUnique (n : Nat) (E S : Arr) : Prop := ∃ p : List Nat, p.Perm (bigDims n E) ∧ DescChain E S p

/-! ### mdarray from mdspan: the container keeps its size -/

theorem initStep_length (other : View) (acc : Md) (t : List Nat) : (initStep other acc t).data.length = acc.data.length := by
  unfold initStep
  cases other.get? (arr t) with
  | none => rfl
  | some v => simp [Md.set]

theorem initFold_length (other : View) (tuples : List (List Nat)) (acc : Md) :
    (tuples.foldl (initStep other) acc).data.length = acc.data.length := by
  induction tuples generalizing acc with
  | nil => rfl
  | cons t ts ih => rw [List.foldl_cons, ih, initStep_length]

theorem initStep_map (other : View) (acc : Md) (t : List Nat) : (initStep other acc t).map = acc.map := by
  unfold initStep
  cases other.get? (arr t) with
  | none => rfl
  | some v => simp [Md.set]

theorem initFold_map (other : View) (tuples : List (List Nat)) (acc : Md) :
    (tuples.foldl (initStep other) acc).map = acc.map := by
  induction tuples generalizing acc with
  | nil => rfl
  | cons t ts ih => rw [List.foldl_cons, ih, initStep_map]

/-! ### default-constructed extents -/

theorem extent_default_dynamic (p : Pattern) (r : Nat) (hr : r < p.length) (h : p[r]? = some none) :
    (Extents.dflt p).extent r = 0 := by
  rw [extent_dynamic (Extents.dflt p) r hr h]
  simp only [Extents.dflt, List.getD_eq_getElem?_getD, List.getElem?_replicate]
  split <;> rfl

/-! ### round three: number of index tuples, partial products -/

theorem length_flatMap_const {α β : Type} (f : α → List β) (L : Nat) :
    ∀ l : List α, (∀ a, a ∈ l → (f a).length = L) → (l.flatMap f).length = l.length * L := by
  intro l
  induction l with
  | nil => intro _; simp
  | cons a t ih =>
    intro h
    rw [List.flatMap_cons, List.length_append, ih (fun b hb => h b (List.mem_cons_of_mem _ hb)),
      h a (List.mem_cons_self ..), List.length_cons, Nat.succ_mul, Nat.add_comm]

/-- Π of a list of extents -/
def prodList : List Nat → Nat
  | [] => 1
  | e :: es => e * prodList es

/-- the index space of the extents `es` has `Π es` index tuples -/
theorem allTuples_length : ∀ es : List Nat, (allTuples es).length = prodList es := by
  intro es
  induction es with
  | nil => rfl
  | cons e es ih =>
    simp only [allTuples, prodList]
    rw [length_flatMap_const _ (prodList es)]
    · simp
    · intro i _
      rw [List.length_map, ih]

theorem prodList_map_range' (E : Arr) : ∀ (n lo : Nat), prodList ((List.range' lo n).map E) = prodFrom E lo n := by
  intro n
  induction n with
  | zero => intro lo; rfl
  | succ n ih =>
    intro lo
    rw [List.range'_succ, List.map_cons, prodList, ih (lo + 1), prodFrom]

theorem prodList_toList (n : Nat) (E : Arr) : prodList (toList n E) = prodFrom E 0 n := by
  unfold toList
  rw [List.range_eq_range', prodList_map_range']

/-- number of index tuples = product of the extents -/
theorem allTuples_toList_length (n : Nat) (E : Arr) : (allTuples (toList n E)).length = prodFrom E 0 n := by
  rw [allTuples_length, prodList_toList]

/-- partial products of positive extents only grow -/
theorem prodFrom_le_add {E : Arr} (lo a b : Nat) (h : ∀ k, lo + a ≤ k → k < lo + a + b → 0 < E k) :
    prodFrom E lo a ≤ prodFrom E lo (a + b) := by
  rw [prodFrom_add]
  exact Nat.le_mul_of_pos_right _ (prodFrom_pos h)

/-- `Π_{k<i} E k · E i · Π_{i<k<n} E k = Π_{k<n} E k` -/
theorem prodFrom_split (E : Arr) (n i : Nat) (hi : i < n) :
    prodFrom E 0 n = prodFrom E 0 i * E i * prodFrom E (i + 1) (n - (i + 1)) := by
  have e : n = i + (1 + (n - (i + 1))) := by omega
  conv => lhs; rw [e]
  rw [prodFrom_add, prodFrom_add, Nat.zero_add, Nat.mul_assoc]
  congr 2
  simp [prodFrom]


/-! ### histories of element assignments -/

/-- what a history of assignments leaves at index `J` (specification): the value of the LAST assignment to an index
    tuple that agrees with `J` in all `n` dimensions, `none` if there was no such assignment -/
def lastWrite (n : Nat) (J : Arr) : List (List Nat × Int) → Option Int
  | [] => none
  | w :: ws => match lastWrite n J ws with
    | some v => some v
    | none => if (List.range n).all (fun k => arr w.1 k == J k) then some w.2 else none

theorem Md.writes_map (a : Md) (ws : List (List Nat × Int)) : (a.writes ws).map = a.map := by
  induction ws generalizing a with
  | nil => rfl
  | cons w ws ih => rw [Md.writes, ih]; rfl

theorem Md.writes_length (a : Md) (ws : List (List Nat × Int)) : (a.writes ws).data.length = a.data.length := by
  induction ws generalizing a with
  | nil => rfl
  | cons w ws ih => rw [Md.writes, ih]; simp [Md.set]


/-! ### pigeonhole (for `is_exhaustive`) -/

/-- pigeonhole: an injection of `[0, P)` into `[0, n)` needs `P ≤ n` -/
theorem pigeon : ∀ (n P : Nat) (f : Nat → Nat), (∀ q, q < P → f q < n) →
    (∀ q q', q < P → q' < P → f q = f q' → q = q') → P ≤ n := by
  intro n
  induction n with
  | zero =>
    intro P f hr _
    cases P with
    | zero => exact Nat.le_refl _
    | succ P => exact absurd (hr 0 (Nat.succ_pos _)) (Nat.not_lt_zero _)
  | succ n ih =>
    intro P f hr hinj
    cases P with
    | zero => exact Nat.zero_le _
    | succ P =>
      -- move the value n (if taken) to the last argument P
      let g : Nat → Nat := fun q => if f q = n then f P else f q
      have hg : P ≤ n := by
        apply ih P g
        · intro q hq
          show (if f q = n then f P else f q) < n
          by_cases h : f q = n
          · rw [if_pos h]
            have hP := hr P (Nat.lt_succ_self _)
            have hne : f P ≠ n := fun h' => by
              have := hinj q P (Nat.lt_succ_of_lt hq) (Nat.lt_succ_self _) (h.trans h'.symm)
              omega
            omega
          · rw [if_neg h]
            have := hr q (Nat.lt_succ_of_lt hq)
            omega
        · intro q q' hq hq' hgq
          have hqs := Nat.lt_succ_of_lt hq
          have hqs' := Nat.lt_succ_of_lt hq'
          have hPs := Nat.lt_succ_self P
          show q = q'
          have hgq' : (if f q = n then f P else f q) = (if f q' = n then f P else f q') := hgq
          by_cases h : f q = n <;> by_cases h' : f q' = n
          · exact hinj q q' hqs hqs' (h.trans h'.symm)
          · rw [if_pos h, if_neg h'] at hgq'
            have := hinj P q' hPs hqs' hgq'
            omega
          · rw [if_neg h, if_pos h'] at hgq'
            have := hinj q P hqs hPs hgq'
            omega
          · rw [if_neg h, if_neg h'] at hgq'
            exact hinj q q' hqs hqs' hgq'
      omega

/-- an injection of `[0, n)` into `[0, n)` hits every value -/
theorem pigeon_surj (n : Nat) (f : Nat → Nat) (hr : ∀ q, q < n → f q < n)
    (hinj : ∀ q q', q < n → q' < n → f q = f q' → q = q') (o : Nat) (ho : o < n) : ∃ q, q < n ∧ f q = o := by
  apply Classical.byContradiction
  intro hno
  have hno' : ∀ q, q < n → f q ≠ o := fun q hq h => hno ⟨q, hq, h⟩
  let g : Nat → Nat := fun q => if q = n then o else f q
  have : n + 1 ≤ n := by
    apply pigeon n (n + 1) g
    · intro q hq
      show (if q = n then o else f q) < n
      by_cases h : q = n
      · rw [if_pos h]; exact ho
      · rw [if_neg h]; exact hr q (by omega)
    · intro q q' hq hq' hg
      have hg' : (if q = n then o else f q) = (if q' = n then o else f q') := hg
      by_cases h : q = n <;> by_cases h' : q' = n
      · omega
      · rw [if_pos h, if_neg h'] at hg'
        exact absurd hg'.symm (hno' q' (by omega))
      · rw [if_neg h, if_pos h'] at hg'
        exact absurd hg' (hno' q (by omega))
      · rw [if_neg h, if_neg h'] at hg'
        exact hinj q q' (by omega) (by omega) hg'
  omega


theorem offsetLeft_congr' (n : Nat) (E : Arr) {I J : Arr} (h : ∀ k, k < n → I k = J k) : offsetLeft n E I = offsetLeft n E J :=
  Mapping.offset_congr ⟨.left, n, E, fun _ => 0⟩ h

theorem offsetStride_congr' (n : Nat) (S : Arr) {I J : Arr} (h : ∀ k, k < n → I k = J k) : offsetStride n S I = offsetStride n S J :=
  Mapping.offset_congr ⟨.stride, n, fun _ => 0, S⟩ h


end DV.C14
