/-
C03, part 4: the *specification* the property speaks about — a set of pairs replayed along the history with no
order, no sorting, no merge, no search — and the simulation proof tying every reachable state of the model to it.

`Spec`, `specStep`, `specFrom`, `WFfrom` are part of the trusted statements of Props/C03.lean.  Core Lean only.
-/
import DuneVerif.Proofs.C03Inv

namespace DV.C03

/-- what the history *means*: the bag of stored pairs (`cur`, in no particular order), the pairs added and the keys
marked deleted in the open resize phase, the state and the number of completed resizes -/
structure Spec where
  cur : List Pair
  add : List Pair
  del : List (Int × Nat)
  st : St
  seq : Nat

def Spec.init : Spec := { cur := [], add := [], del := [], st := .ground, seq := 0 }

def specStep (sp : Spec) : Op → Spec
  | .beginResize => if sp.st = .ground then { sp with st := .resize, add := [], del := [] } else sp
  | .add g l a p =>
    if sp.st = .resize then { sp with add := ⟨g, { loc := l, attr := a, pub := p, valid := true }⟩ :: sp.add } else sp
  | .addG g => if sp.st = .resize then { sp with add := ⟨g, defaultLocal⟩ :: sp.add } else sp
  | .markDel g a =>
    if sp.st = .resize ∧ sp.cur.any (fun p => key p == (g, a)) then { sp with del := (g, a) :: sp.del } else sp
  | .endResize =>
    if sp.st = .resize then
      { cur := sp.cur.filter (fun p => !sp.del.contains (key p)) ++ sp.add, add := [], del := [],
        st := .ground, seq := sp.seq + 1 }
    else sp
  | .renumber =>
    if sp.st = .ground then { sp with cur := sp.cur.map fun p => setLoc p (rank p sp.cur) } else sp
  | .setLocal g l => { sp with cur := sp.cur.map fun p => if p.g = g then setLoc p l else p }
  | _ => sp

def specFrom (sp : Spec) : List Op → Spec
  | [] => sp
  | op :: ops => specFrom (specStep sp op) ops

def specRun (h : List Op) : Spec := specFrom Spec.init h

/-- the property's quantifier: every set the history passes through has pairwise distinct global indices -/
def WFfrom (sp : Spec) : List Op → Prop
  | [] => (globals sp.cur).Nodup
  | op :: ops => (globals sp.cur).Nodup ∧ WFfrom (specStep sp op) ops

def WF (h : List Op) : Prop := WFfrom Spec.init h

instance decWFfrom : ∀ (sp : Spec) (h : List Op), Decidable (WFfrom sp h)
  | _, [] => by unfold WFfrom; exact inferInstance
  | sp, op :: ops => by
    unfold WFfrom
    exact @instDecidableAnd _ _ inferInstance (decWFfrom (specStep sp op) ops)

instance (h : List Op) : Decidable (WF h) := decWFfrom _ h

/-! ### simulation -/

def revalid (p : Pair) : Pair := { p with l := { p.l with valid := true } }

structure Sim (s : ISet) (sp : Spec) : Prop where
  st : s.st = sp.st
  seq : s.seq = sp.seq
  fresh : s.fresh.Perm sp.add
  cur : (s.loc.map revalid).Perm sp.cur
  marks : ∀ p ∈ s.loc, (p.l.valid = false ↔ key p ∈ sp.del)
  groundDel : sp.st = .ground → sp.del = []

theorem init_sim : Sim init Spec.init := by
  refine ⟨rfl, rfl, ?_, ?_, ?_, fun _ => rfl⟩ <;> simp [init, Spec.init]

theorem revalid_of_valid {p : Pair} (h : p.l.valid = true) : revalid p = p := by
  cases p with
  | mk g l => cases l with
    | mk lo a pu v => simp only at h; subst h; rfl

theorem map_revalid_of_allValid {xs : List Pair} (h : AllValid xs) : xs.map revalid = xs := by
  calc xs.map revalid = xs.map id := List.map_congr_left (fun p hp => revalid_of_valid (h p hp))
    _ = xs := List.map_id _

theorem globals_map_revalid (xs : List Pair) : globals (xs.map revalid) = globals xs := by
  simp [globals, List.map_map, Function.comp_def, revalid]

theorem Sim.globals_eq {s : ISet} {sp : Spec} (h : Sim s sp) : (globals s.loc).Perm (globals sp.cur) := by
  rw [← globals_map_revalid]; exact List.Perm.map _ h.cur

theorem Sim.strict {s : ISet} {sp : Spec} (h : Sim s sp) (hinv : Inv s) (hn : (globals sp.cur).Nodup) : StrictG s.loc :=
  strictG_of_sortedLex_nodup hinv.sorted (h.globals_eq.nodup_iff.2 hn)

theorem rank_revalid (p : Pair) (xs : List Pair) : rank (revalid p) xs = rank p xs := rfl

theorem rank_perm (p : Pair) {xs ys : List Pair} (h : (xs.map revalid).Perm ys) : rank p xs = rank p ys := by
  unfold rank
  rw [← h.countP_eq, List.countP_map]
  rfl

theorem mem_of_mem_map_revalid {xs : List Pair} {q : Pair} (h : q ∈ xs.map revalid) : ∃ p ∈ xs, revalid p = q :=
  List.mem_map.1 h

/-- one step of the model is one step of the specification -/
theorem sim_step {s : ISet} {sp : Spec} (hinv : Inv s) (hsim : Sim s sp) (hn : (globals sp.cur).Nodup) (op : Op) :
    Sim (step s op).1 (specStep sp op) := by
  have hstrict : StrictG s.loc := hsim.strict hinv hn
  cases op with
  | beginResize =>
    simp only [step, beginResize, specStep, ← hsim.st]
    by_cases hst : s.st = .ground
    · simp only [hst, ne_eq, not_true_eq_false, if_false, if_true, lift]
      refine ⟨rfl, hsim.seq, ?_, hsim.cur, ?_, fun h => by cases h⟩
      · rw [(hinv.ground hst).1]
      · intro p hp
        have := (hinv.ground hst).2 p hp
        simp [this]
    · simp only [hst, ne_eq, not_false_eq_true, if_true, if_false, lift]
      exact hsim
  | add g l a p =>
    simp only [step, add, specStep, ← hsim.st]
    by_cases hst : s.st = .resize
    · simp only [hst, ne_eq, not_true_eq_false, if_false, if_true, lift]
      refine ⟨rfl, hsim.seq, ?_, hsim.cur, hsim.marks, fun h => (by simp at h)⟩
      exact List.perm_append_singleton _ _ |>.trans (List.Perm.cons _ hsim.fresh)
    · simp only [hst, ne_eq, not_false_eq_true, if_true, if_false, lift]
      exact hsim
  | addG g =>
    simp only [step, add, specStep, ← hsim.st]
    by_cases hst : s.st = .resize
    · simp only [hst, ne_eq, not_true_eq_false, if_false, if_true, lift]
      refine ⟨rfl, hsim.seq, ?_, hsim.cur, hsim.marks, fun h => (by simp at h)⟩
      exact List.perm_append_singleton _ _ |>.trans (List.Perm.cons _ hsim.fresh)
    · simp only [hst, ne_eq, not_false_eq_true, if_true, if_false, lift]
      exact hsim
  | markDel g a =>
    simp only [step, specStep, ← hsim.st]
    cases hfind : findKey g a s.loc with
    | none =>
      have hnone := findKey_none hfind
      have hany : sp.cur.any (fun p => key p == (g, a)) = false := by
        rw [Bool.eq_false_iff]
        intro h
        obtain ⟨q, hq, hk⟩ := List.any_eq_true.1 h
        obtain ⟨p, hp, rfl⟩ := mem_of_mem_map_revalid (hsim.cur.mem_iff.2 hq)
        have hk' : key (revalid p) = (g, a) := by simpa using hk
        exact hnone p hp ⟨congrArg Prod.fst hk', congrArg Prod.snd hk'⟩
      simp only [hany, Bool.false_eq_true, and_false, if_false]
      exact hsim
    | some i =>
      obtain ⟨p, hpi, hpg, hpa⟩ := findKey_some hfind
      have hpmem : p ∈ s.loc := List.mem_of_getElem? hpi
      have hany : sp.cur.any (fun p => key p == (g, a)) = true := by
        rw [List.any_eq_true]
        refine ⟨revalid p, hsim.cur.mem_iff.1 (List.mem_map.2 ⟨p, hpmem, rfl⟩), ?_⟩
        simp [key, revalid, hpg, hpa]
      simp only [markAsDeleted]
      by_cases hst : s.st = .resize
      · simp only [hst, ne_eq, not_true_eq_false, if_false, hany, and_self, if_true, lift]
        refine ⟨rfl, hsim.seq, hsim.fresh, ?_, ?_, fun h => (by simp at h)⟩
        · show ((modifyAt setDeleted i s.loc).map revalid).Perm sp.cur
          rw [modifyAt_map setDeleted revalid (fun _ => rfl)]
          exact hsim.cur
        · show ∀ q ∈ modifyAt setDeleted i s.loc, (q.l.valid = false ↔ key q ∈ (g, a) :: sp.del)
          rw [modifyAt_eq_map setDeleted i s.loc p hstrict hpi]
          intro q' hq'
          obtain ⟨q, hq, rfl⟩ := List.mem_map.1 hq'
          by_cases hqg : q.g = p.g
          · simp only [hqg, if_true]
            have : key (setDeleted q) = (g, a) := by
              have hqp : q = p := by
                have h1 := find_of_strict hstrict hq
                have h2 := find_of_strict hstrict hpmem
                rw [hqg, h2] at h1; cases h1; rfl
              subst hqp; simp [key, setDeleted, hpg, hpa]
            exact ⟨fun _ => by rw [this]; exact List.mem_cons_self, fun _ => rfl⟩
          · simp only [hqg, if_false]
            have hk : key q ≠ (g, a) := by
              intro h; exact hqg ((congrArg Prod.fst h).trans hpg.symm)
            rw [hsim.marks q hq]
            simp [hk]
      · simp only [hst, ne_eq, not_false_eq_true, if_true, false_and, if_false, lift]
        exact hsim
  | endResize =>
    simp only [step, specStep, ← hsim.st]
    cases h : endResize s with
    | error e =>
      have hst : s.st ≠ .resize := by
        intro hst; simp [endResize, hst] at h
      simp only [hst, if_false, lift]
      exact hsim
    | ok s' =>
      obtain ⟨hst, _⟩ := endResize_ok h
      obtain ⟨h1, _, h3, h4, h5, h6, _⟩ := endResize_spec hinv h
      simp only [hst, if_true, lift]
      refine ⟨h6, by rw [h5, hsim.seq], by rw [h4], ?_, ?_, fun _ => rfl⟩
      · show (s'.loc.map revalid).Perm (sp.cur.filter (fun p => !sp.del.contains (key p)) ++ sp.add)
        rw [map_revalid_of_allValid h3]
        refine h1.trans (List.Perm.append ?_ hsim.fresh)
        have e1 : s.loc.filter (·.l.valid) = s.loc.filter (fun p => !sp.del.contains (key p)) := by
          apply List.filter_congr
          intro p hp
          have := hsim.marks p hp
          cases hv : p.l.valid with
          | true =>
            have : ¬ key p ∈ sp.del := fun hk => by have := this.2 hk; rw [hv] at this; cases this
            simp [this]
          | false =>
            have : key p ∈ sp.del := this.1 hv
            simp [this]
        have e2 : (s.loc.filter (·.l.valid)).map revalid = s.loc.filter (·.l.valid) :=
          map_revalid_of_allValid (fun p hp => by simpa using (List.mem_filter.1 hp).2)
        rw [← e2, e1]
        have e3 : (s.loc.filter (fun p => !sp.del.contains (key p))).map revalid
            = (s.loc.map revalid).filter (fun p => !sp.del.contains (key p)) := by
          rw [List.filter_map]; rfl
        rw [e3]
        exact List.Perm.filter _ hsim.cur
      · intro p hp
        simp [h3 p hp]
  | renumber =>
    simp only [step, renumberLocal, specStep, ← hsim.st]
    by_cases hst : s.st = .resize
    · have : ¬ s.st = .ground := by rw [hst]; intro h; cases h
      simp only [hst, if_true, reduceCtorEq, if_false, lift]
      exact hsim
    · have hg : s.st = .ground := by
        cases hs : s.st with
        | ground => rfl
        | resize => exact absurd hs hst
      simp only [hg, reduceCtorEq, if_false, if_true, lift]
      refine ⟨rfl, hsim.seq, hsim.fresh, ?_, ?_, fun _ => hsim.groundDel (hsim.st.symm.trans hg)⟩
      · show ((renumFrom 0 s.loc).map revalid).Perm (sp.cur.map fun p => setLoc p (rank p sp.cur))
        rw [renumFrom_eq_rank 0 s.loc hstrict.before]
        have e1 : (s.loc.map (fun p => setLoc p (0 + rank p s.loc))).map revalid
            = (s.loc.map revalid).map (fun p => setLoc p (rank p sp.cur)) := by
          rw [List.map_map, List.map_map]
          apply List.map_congr_left
          intro p _
          simp only [Function.comp, Nat.zero_add, rank_revalid, rank_perm p hsim.cur]
          rfl
        rw [e1]
        exact List.Perm.map _ hsim.cur
      · show ∀ q ∈ renumFrom 0 s.loc, (q.l.valid = false ↔ key q ∈ sp.del)
        rw [renumFrom_eq_rank 0 s.loc hstrict.before]
        intro q' hq'
        obtain ⟨q, hq, rfl⟩ := List.mem_map.1 hq'
        exact hsim.marks q hq
  | setLocal g l =>
    simp only [step, specStep]
    by_cases hhas : hasGlobal s.loc g = true
    · simp only [hhas, if_true]
      have hmem : g ∈ globals s.loc := by
        obtain ⟨x, hx, hxg⟩ := List.any_eq_true.1 hhas
        exact List.mem_map.2 ⟨x, hx, by simpa using hxg⟩
      obtain ⟨i, p, hget, hpi, hfind⟩ := getL_spec s.loc g hstrict.sortedG hmem
      have hpg : p.g = g := by
        have := List.find?_some hfind; simpa using this
      have hset : setLocalVia s g l = some { s with loc := modifyAt (fun p => setLoc p l) i s.loc } := by
        simp [setLocalVia, hget]
      simp only [hset]
      refine ⟨hsim.st, hsim.seq, hsim.fresh, ?_, ?_, hsim.groundDel⟩
      · show ((modifyAt (fun p => setLoc p l) i s.loc).map revalid).Perm
            (sp.cur.map fun p => if p.g = g then setLoc p l else p)
        rw [modifyAt_eq_map _ i s.loc p hstrict hpi, hpg]
        have e1 : (s.loc.map (fun q => if q.g = g then setLoc q l else q)).map revalid
            = (s.loc.map revalid).map (fun q => if q.g = g then setLoc q l else q) := by
          rw [List.map_map, List.map_map]
          apply List.map_congr_left
          intro q _
          simp only [Function.comp]
          by_cases hq : q.g = g
          · have : (revalid q).g = g := hq
            simp only [hq, this, if_true]; rfl
          · have : ¬ (revalid q).g = g := hq
            simp only [hq, this, if_false]
        rw [e1]
        exact List.Perm.map _ hsim.cur
      · show ∀ q ∈ modifyAt (fun p => setLoc p l) i s.loc, (q.l.valid = false ↔ key q ∈ sp.del)
        intro q hq
        rcases mem_modifyAt _ i s.loc q hq with hq | ⟨q', hq', rfl⟩
        · exact hsim.marks q hq
        · exact hsim.marks q' hq'
    · simp only [hhas, Bool.false_eq_true, if_false]
      refine ⟨hsim.st, hsim.seq, hsim.fresh, ?_, hsim.marks, hsim.groundDel⟩
      show (s.loc.map revalid).Perm (sp.cur.map fun p => if p.g = g then setLoc p l else p)
      have : sp.cur.map (fun p => if p.g = g then setLoc p l else p) = sp.cur := by
        calc _ = sp.cur.map id := by
              apply List.map_congr_left
              intro q hq
              obtain ⟨q0, hq0, rfl⟩ := mem_of_mem_map_revalid (hsim.cur.mem_iff.2 hq)
              have : ¬ (revalid q0).g = g := by
                intro hg
                apply hhas
                exact List.any_eq_true.2 ⟨q0, hq0, by simpa using (show q0.g = g from hg)⟩
              simp [this]
          _ = sp.cur := List.map_id _
      rw [this]; exact hsim.cur
  | exists_ g => exact hsim
  | at_ g => exact hsim
  | get g => simp only [step, specStep]; split <;> exact hsim
  | seqNo => exact hsim
  | size => exact hsim
  | state => exact hsim
  | dump => exact hsim
  | lookup => exact hsim
  | lookupN n => simp only [step, specStep]; split <;> exact hsim

theorem simFrom : ∀ (h : List Op) (s : ISet) (sp : Spec), Inv s → Sim s sp → WFfrom sp h →
    Sim (runFrom s h).1 (specFrom sp h) ∧ (globals (specFrom sp h).cur).Nodup
  | [], _, _, _, hsim, hwf => ⟨hsim, hwf⟩
  | op :: ops, s, sp, hinv, hsim, hwf => by
    simp only [runFrom, specFrom]
    exact simFrom ops _ _ (step_inv hinv op) (sim_step hinv hsim hwf.1 op) hwf.2

theorem sim_run (h : List Op) (hwf : WF h) : Sim (run h) (specRun h) ∧ (globals (specRun h).cur).Nodup :=
  simFrom h init Spec.init init_inv init_sim hwf

end DV.C03
