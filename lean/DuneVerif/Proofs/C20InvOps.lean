import DuneVerif.Proofs.C20Inv
/-! every bound vector operation yields an effect that keeps the store invariant -/
namespace DV.C20

/-- "a vector that may become a `FieldVector<K,n>` object has `n` entries" -/
def FvLen (kd : Kind) (R : List Int) : Prop := ∀ n, kd = .fv n → R.length = n

theorem fvLen_read {kd : Kind} {s : State} (h : Inv kd s) {x b : Nat} (hx : s.xs x = some b) : FvLen kd (s.read b) :=
  fun n hn => h.xs_len n hn x b hx

theorem fvLen_zip {kd : Kind} (f : Int → Int → Int) {A B : List Int} (hA : FvLen kd A) (hB : FvLen kd B) :
    FvLen kd (List.zipWith f A B) := by
  intro n hn
  rw [List.length_zipWith, hA n hn, hB n hn]
  omega

theorem fvLen_map {kd : Kind} (f : Int → Int) {A : List Int} (hA : FvLen kd A) : FvLen kd (A.map f) := by
  intro n hn
  rw [List.length_map, hA n hn]

theorem fvLen_operand (kd : Kind) (ok : OKind) (L : List Int) : FvLen kd (kd.operand ok L) := by
  intro n hn
  subst hn
  cases ok <;> simp [Kind.operand, constructLoop_length, constructBuf_length]

theorem fvLen_dyn (R : List Int) : FvLen .dyn R := fun _ hn => by cases hn

theorem effNew_ok {kd : Kind} {s : State} {x : Nat} {R : List Int} (h : FvLen kd R) : EffOK kd s (effNew x R) := by
  unfold effNew
  split
  · trivial
  · exact h

theorem writeB_ok {kd : Kind} (hk : kd.isVec = true) {s : State} (h : Inv kd s) {x b : Nat} (hx : s.xs x = some b)
    {R : List Int} (hR : FvLen kd R) : EffOK kd s (.writeB b R) := by
  refine ⟨⟨x, hx⟩, ?_⟩
  cases kd with
  | fv n => right; rw [hR n rfl, h.xs_len n rfl x b hx]
  | dyn => left; rfl
  | tup sh r => simp [Kind.isVec] at hk

theorem effWrite_ok {kd : Kind} (hk : kd.isVec = true) {s : State} (h : Inv kd s) {x b : Nat} (hx : s.xs x = some b)
    {R : List Int} (hR : FvLen kd R) : EffOK kd s (effWrite b R) := by
  unfold effWrite
  split
  · trivial
  · exact writeB_ok hk h hx hR

theorem viewVals_length (s : State) (v : View) : (s.viewVals v).length = v.len := by
  simp [State.viewVals]

theorem sliceView_ok (s : State) (b : Nat) (hb : b < s.blocks.length) (i j : Option Int) (st : Int) (hst : st ≠ 0) :
    ViewOK s { blk := b, off := (sliceIdx (s.read b).length i j st).1, step := st,
               len := (sliceIdx (s.read b).length i j st).2 } :=
  ⟨hb, hst, by show 0 < 8; omega, fun k hk => slice_in_bounds (s.read b).length i j st hst k hk⟩

theorem foldl_set_length {α : Type} (l : List α) (idx : List Nat) (pos : Nat → Nat) (val : Nat → α) :
    (idx.foldl (fun m j => m.set (pos j) (val j)) l).length = l.length := by
  induction idx generalizing l with
  | nil => rfl
  | cons a as ih => simp only [List.foldl_cons]; rw [ih, List.length_set]

theorem stridedMem_length (st : Int) (L : List Int) : (stridedMem st L).1.length = max 1 (L.length * st.natAbs) := by
  unfold stridedMem
  simp only []
  rw [foldl_set_length]
  simp

/-- entries `j < len` of a layout with stride `±(k+1)` stay inside `max 1 (len*(k+1))` cells -/
theorem stride_bounds (k len j : Nat) (hj : j < len) :
    (j : Int) * ((k + 1 : Nat) : Int) < ((max 1 (len * (k + 1)) : Nat) : Int) ∧
    0 ≤ ((max 1 (len * (k + 1)) : Nat) : Int) - 1 + (j : Int) * (-((k + 1 : Nat) : Int)) := by
  have h1 : (j + 1) * (k + 1) ≤ len * (k + 1) := Nat.mul_le_mul_right _ (by omega)
  rw [Nat.succ_mul] at h1
  have h2 : (j : Int) * ((k + 1 : Nat) : Int) = ((j * (k + 1) : Nat) : Int) := by rw [Int.natCast_mul]
  have h3 : (j : Int) * (-((k + 1 : Nat) : Int)) = -((j * (k + 1) : Nat) : Int) := by rw [Int.mul_neg, h2]
  rw [h2, h3]
  generalize j * (k + 1) = P at *
  generalize len * (k + 1) = Q at *
  omega

/-- the strided layouts of fresh buffer objects stay inside their memory -/
theorem stridedMem_bounds (lay : Lay) (A : List Int) :
    lay.stride ≠ 0 ∧ ∀ j, j < A.length →
      0 ≤ (stridedMem lay.stride A).2 + (j : Int) * lay.stride ∧
      (stridedMem lay.stride A).2 + (j : Int) * lay.stride < ((stridedMem lay.stride A).1.length : Int) := by
  refine ⟨by cases lay <;> simp [Lay.stride] <;> (split <;> omega), ?_⟩
  intro j hj
  rw [stridedMem_length]
  have n1 : Int.natAbs 1 = 1 := rfl
  have n2 : Int.natAbs 2 = 2 := rfl
  have n3 : Int.natAbs 3 = 3 := rfl
  have m1 : Int.natAbs (-1) = 1 := rfl
  have m2 : Int.natAbs (-2) = 2 := rfl
  cases lay with
  | q R fo neg k =>
    have hb := stride_bounds k A.length j hj
    cases neg
    · simp only [Lay.stride, stridedMem, Bool.false_eq_true, if_false, Int.natAbs_natCast]
      have hnn : ¬ (((k + 1 : Nat) : Int) < 0) := by omega
      rw [if_neg hnn]
      have := hb.1
      have h0 : 0 ≤ (j : Int) * ((k + 1 : Nat) : Int) := Int.mul_nonneg (by omega) (by omega)
      omega
    · simp only [Lay.stride, stridedMem, if_true, Int.natAbs_neg, Int.natAbs_natCast]
      have hneg : -((k + 1 : Nat) : Int) < 0 := by omega
      rw [if_pos hneg]
      have := hb.2
      have h0 : (j : Int) * (-((k + 1 : Nat) : Int)) ≤ 0 := by
        rw [Int.mul_neg]
        have : 0 ≤ (j : Int) * ((k + 1 : Nat) : Int) := Int.mul_nonneg (by omega) (by omega)
        omega
      omega
  | _ => simp only [Lay.stride, stridedMem, n1, n2, n3, m1, m2] <;> omega

/-- a fresh buffer object holds the numbers it was built from at the cells its view enumerates -/
theorem stridedMem_get (lay : Lay) (A : List Int) (j : Nat) (hj : j < A.length) :
    ((stridedMem lay.stride A).1)[((stridedMem lay.stride A).2 + (j : Int) * lay.stride).toNat]? = some (A.getD j 0) := by
  have hb := stridedMem_bounds lay A
  have hmem : (stridedMem lay.stride A).1
      = writeCells (List.replicate (max 1 (A.length * lay.stride.natAbs)) 77)
          (fun j => ((stridedMem lay.stride A).2 + (j : Int) * lay.stride).toNat) A A.length := rfl
  have hlen : (List.replicate (max 1 (A.length * lay.stride.natAbs)) (77 : Int)).length
      = (stridedMem lay.stride A).1.length := by rw [hmem, writeCells_length]
  rw [hmem]
  refine writeCells_get_pos _ (fun j => ((stridedMem lay.stride A).2 + (j : Int) * lay.stride).toNat) A A.length ?_ ?_ j hj
  · intro p q hp hq he
    have h1 := hb.2 p hp
    have h2 := hb.2 q hq
    have he' : (p : Int) * lay.stride = (q : Int) * lay.stride := by omega
    have := Int.eq_of_mul_eq_mul_right hb.1 he'
    omega
  · intro p hp
    have h1 := hb.2 p hp
    rw [hlen]
    omega

/-- … so the new array register shows exactly those numbers (read back through the byte addresses of its entries) -/
theorem stridedMem_shows (lay : Lay) (A : List Int) (s : State) (a dt : Nat) (hr : 0 < lay.memLay.rsz) :
    ((s.alloc (stridedMem lay.stride A).1).1.bindA a
        { blk := s.blocks.length, off := (stridedMem lay.stride A).2, step := lay.stride, len := A.length, dt := dt,
          lay := lay.memLay }).viewVals
      { blk := s.blocks.length, off := (stridedMem lay.stride A).2, step := lay.stride, len := A.length, dt := dt,
        lay := lay.memLay } = A := by
  unfold State.viewVals
  simp only [bindA_read]
  have hrd : (s.alloc (stridedMem lay.stride A).1).1.read s.blocks.length = (stridedMem lay.stride A).1 :=
    read_alloc_new s _
  rw [hrd]
  apply List.ext_getElem
  · simp
  · intro j h1 h2
    simp only [List.getElem_map, List.getElem_range]
    rw [View.pos_eq _ hr j, List.getD_eq_getElem?_getD, stridedMem_get lay A j h2]
    simp [List.getD_eq_getElem?_getD, List.getElem?_eq_getElem h2]

/-- the records of every layout have a size once a field fits into them -/
theorem memLay_rsz_pos (lay : Lay) (dt : Nat) (h : lay.fits dt = true) : 0 < lay.memLay.rsz := by
  cases lay with
  | q R fo neg k =>
    simp only [Lay.fits, decide_eq_true_eq] at h
    simp only [Lay.memLay]
    have : 0 < dtSize dt := by unfold dtSize; split <;> omega
    omega
  | _ => simp [Lay.memLay]

/-- unfold the plain operations down to `zipWith` / `map` and close the length side condition -/
macro "fvlen" h:ident : tactic => `(tactic| (
  try simp only [vadd, vsub, vscale, vneg, pyMul, pyNeg, pyRsubZero, vdivExact, vaddScalar, vsubScalar, Kind.construct]
  repeat (first
    | exact fvLen_read $h (by assumption)
    | exact fvLen_operand _ _ _
    | apply fvLen_zip
    | apply fvLen_map)))

theorem vecEff_ok (kd : Kind) (hk : kd.isVec = true) (s : State) (h : Inv kd s) (op : VOp) :
    EffOK kd s (vecEff kd s op) := by
  cases op with
  | new x how L =>
    simp only [vecEff]
    repeat' split
    all_goals try trivial
    all_goals (intro n hn; cases hn)
    all_goals first
      | exact constructBuf_length _ _ _ _
      | exact constructLoop_length _ _
  | copy x y =>
    simp only [vecEff]
    repeat' split
    all_goals try trivial
    all_goals (show FvLen kd _; fvlen h)
  | mcopy x y =>
    simp only [vecEff]
    repeat' split
    all_goals try trivial
    all_goals (show FvLen kd _; fvlen h)
  | mcopya x y L =>
    simp only [vecEff]
    repeat' split
    all_goals try trivial
    all_goals (show FvLen kd _; fvlen h)
  | alias x y =>
    simp only [vecEff]
    repeat' split
    all_goals try trivial
    all_goals exact ⟨_, by assumption⟩
  | binvv isSub x y z =>
    simp only [vecEff]
    repeat' split
    all_goals try trivial
    all_goals (apply effNew_ok; fvlen h)
  | binvl isSub r ok x y L =>
    simp only [vecEff]
    repeat' split
    all_goals try trivial
    all_goals (show FvLen kd _; fvlen h)
  | scal w isInt x y k =>
    simp only [vecEff]
    repeat' split
    all_goals try trivial
    all_goals first
      | (apply effNew_ok; fvlen h)
      | (show FvLen kd _; fvlen h)
  | neg x y =>
    simp only [vecEff]
    repeat' split
    all_goals try trivial
    all_goals (apply effNew_ok; fvlen h)
  | intscal isSub r isFloat x y k =>
    simp only [vecEff]
    repeat' split
    all_goals try trivial
    all_goals first
      | (apply effNew_ok
         intro n hn
         subst hn
         rename_i hsm
         simp [Kind.scalarMode] at hsm
         split at hsm <;> simp_all)
      | (show FvLen kd _; fvlen h)
      | exact ⟨_, by assumption⟩
  | inplaceV isSub x y =>
    simp only [vecEff]
    repeat' split
    all_goals try trivial
    all_goals (refine effWrite_ok hk h (by assumption) ?_; fvlen h)
  | inplaceL isSub ok x L =>
    simp only [vecEff]
    repeat' split
    all_goals try trivial
    all_goals (refine writeB_ok hk h (by assumption) ?_; fvlen h)
  | inplaceS w x k =>
    simp only [vecEff]
    repeat' split
    all_goals try trivial
    all_goals (refine effWrite_ok hk h (by assumption) ?_; fvlen h)
  | assign x y =>
    simp only [vecEff]
    repeat' split
    all_goals try trivial
    all_goals (refine writeB_ok hk h (by assumption) ?_; fvlen h)
  | assignL ok x L =>
    simp only [vecEff]
    repeat' split
    all_goals try trivial
    all_goals (refine writeB_ok hk h (by assumption) ?_; fvlen h)
  | set npidx x i k =>
    simp only [vecEff]
    repeat' split
    all_goals try trivial
    all_goals (
      rename_i v hset
      refine writeB_ok hk h (by assumption) ?_
      intro n hn
      unfold setItem at hset
      split at hset
      · cases hset
      · cases hset
        rw [List.length_set]
        exact fvLen_read h (by assumption) n hn)
  | get npidx x i =>
    simp only [vecEff]
    repeat' split
    all_goals trivial
  | len x =>
    simp only [vecEff]
    repeat' split
    all_goals trivial
  | iter x =>
    simp only [vecEff]
    repeat' split
    all_goals trivial
  | str x =>
    simp only [vecEff]
    repeat' split
    all_goals trivial
  | slice x i j st =>
    simp only [vecEff]
    repeat' split
    all_goals trivial
  | cmpv neg x y =>
    simp only [vecEff]
    repeat' split
    all_goals trivial
  | cmpl neg ok x L =>
    simp only [vecEff]
    repeat' split
    all_goals trivial
  | norms x =>
    simp only [vecEff]
    repeat' split
    all_goals trivial
  | dot x y =>
    simp only [vecEff]
    repeat' split
    all_goals trivial
  | dotl ok x L =>
    simp only [vecEff]
    repeat' split
    all_goals trivial
  | float x =>
    simp only [vecEff]
    repeat' split
    all_goals trivial
  | view a x =>
    simp only [vecEff]
    repeat' split
    all_goals try trivial
    all_goals (
      rename_i hfv _ bx hx
      exact ⟨fullView_ok s bx (h.xs_lt x bx hx), by simpa using hfv⟩)
  | npcopy a x =>
    simp only [vecEff]
    repeat' split
    all_goals trivial
  | sl a x i j st =>
    simp only [vecEff]
    repeat' split
    all_goals try trivial
    all_goals (
      rename_i hfv _ bx hx hst
      exact ⟨sliceView_ok s bx (h.xs_lt x bx hx) i j _ (by simpa using hst), by simpa using hfv⟩)
  | aget a i =>
    simp only [vecEff]
    repeat' split
    all_goals trivial
  | aset a i k =>
    simp only [vecEff]
    repeat' split
    all_goals try trivial
    all_goals (
      rename_i p hp
      exact ⟨⟨a, by assumption⟩, normIndex_lt _ _ _ hp⟩)
  | alist a =>
    simp only [vecEff]
    repeat' split
    all_goals trivial
  | nscale a k =>
    simp only [vecEff, nvWrite]
    repeat' split
    all_goals try trivial
    all_goals exact ⟨⟨a, by assumption⟩, by simp [vscale, viewVals_length]⟩
  | nset a i k =>
    simp only [vecEff, nvWriteCell]
    repeat' split
    all_goals try trivial
    all_goals (
      refine ⟨⟨a, by assumption⟩, ?_⟩
      simp only [Bool.or_eq_true, decide_eq_true_eq, not_or] at *
      omega)
  | nget a i =>
    simp only [vecEff]
    repeat' split
    all_goals trivial
  | nnorms a =>
    simp only [vecEff]
    repeat' split
    all_goals trivial
  | naxpy a k b =>
    simp only [vecEff, nvWrite]
    repeat' split
    all_goals try trivial
    all_goals (
      refine ⟨⟨a, by assumption⟩, ?_⟩
      simp only [vadd, vscale, List.length_zipWith, List.length_map, viewVals_length]
      simp only [Bool.or_eq_true, bne_iff_ne, ne_eq, not_or, Decidable.not_not] at *
      omega)
  | nadd a b =>
    simp only [vecEff, nvWrite]
    repeat' split
    all_goals try trivial
    all_goals (
      refine ⟨⟨a, by assumption⟩, ?_⟩
      simp only [vadd, List.length_zipWith, viewVals_length]
      simp only [bne_iff_ne, ne_eq, Decidable.not_not] at *
      omega)
  | nnew a b k =>
    simp only [vecEff]
    repeat' split
    all_goals trivial
  | nint a k =>
    simp only [vecEff]
    repeat' split
    all_goals trivial
  | ndt a b dt lay special =>
    simp only [vecEff]
    repeat' split
    all_goals try trivial
    all_goals (
      rename_i hfit _ _ _ _
      have hsb := stridedMem_bounds lay (s.viewVals (by assumption))
      exact ⟨hsb.1, memLay_rsz_pos lay dt (by simpa using hfit), hsb.2⟩)
  | nvscale x k =>
    simp only [vecEff]
    repeat' split
    all_goals try trivial
    all_goals (refine writeB_ok hk h (by assumption) ?_; fvlen h)
  | nrun a =>
    simp only [vecEff, nvWrite]
    repeat' split
    all_goals try trivial
    all_goals exact ⟨⟨a, by assumption⟩, by simp [viewVals_length]⟩

/-! ### tuple operations do not touch vector programs, and the invariant along whole programs -/

theorem tupStep_vec (kd : Kind) (hk : kd.isVec = true) (s : State) (o : TOp) : tupStep kd s o = (s, "na") := by
  cases kd with
  | tup sh r => simp [Kind.isVec] at hk
  | fv n => cases o <;> simp [tupStep, Kind.isTup]
  | dyn => cases o <;> simp [tupStep, Kind.isTup]

theorem step_inv (kd : Kind) (hk : kd.isVec = true) (s : State) (h : Inv kd s) (op : Op) : Inv kd (step kd s op).1 := by
  cases op with
  | v o =>
    rw [step_v kd hk]
    exact apply_inv kd s _ h (vecEff_ok kd hk s h o)
  | t o =>
    simp only [step]
    rw [tupStep_vec kd hk]
    exact h

theorem run_inv (kd : Kind) (hk : kd.isVec = true) : ∀ (ops : List Op) (s : State), Inv kd s → Inv kd (run kd s ops).1
  | [], s, h => h
  | op :: ops, s, h => by
    simp only [run]
    exact run_inv kd hk ops _ (step_inv kd hk s h op)

theorem run_append (kd : Kind) : ∀ (ops1 ops2 : List Op) (s : State),
    (run kd s (ops1 ++ ops2)).1 = (run kd (run kd s ops1).1 ops2).1
  | [], _, _ => rfl
  | op :: ops1, ops2, s => by
    simp only [List.cons_append, run]
    exact run_append kd ops1 ops2 _

end DV.C20
