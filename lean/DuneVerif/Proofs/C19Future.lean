/-
C19 — helper lemmas for the future state machines.  Core Lean only.
-/
import DuneVerif.Model.C19

namespace DV.C19

/-- the payloads that `get` calls delivered in a trace -/
def dataOf : List FObs → List (List Int)
  | [] => []
  | .data d :: os => d :: dataOf os
  | _ :: os => dataOf os

/-- every `wait`/`get` in the history was answered by InvalidFutureException -/
def MisuseReported : List FOp → List FObs → Prop
  | o :: os, b :: bs => ((o = .get ∨ o = .wait) → b = .errInvalid) ∧ MisuseReported os bs
  | _, _ => True

/-- every `ready`/`spin` in the history answered `true` -/
def AlwaysReady : List FOp → List FObs → Prop
  | o :: os, b :: bs => ((o = .ready ∨ o = .spin) → b = .bool true) ∧ AlwaysReady os bs
  | _, _ => True

theorem trace_cons {σ : Type} (step : σ → FOp → FObs × σ) (s : σ) (o : FOp) (os : List FOp) :
    trace step s (o :: os) = (step s o).1 :: trace step (step s o).2 os := rfl

theorem final_cons {σ : Type} (step : σ → FOp → FObs × σ) (s : σ) (o : FOp) (os : List FOp) :
    final step s (o :: os) = final step (step s o).2 os := rfl

theorem final_append {σ : Type} (step : σ → FOp → FObs × σ) (s : σ) (h1 h2 : List FOp) :
    final step s (h1 ++ h2) = final step (final step s h1) h2 := by
  induction h1 generalizing s with
  | nil => rfl
  | cons o os ih => simp [final_cons, ih]

/-! ### MPIFuture<T> -/
namespace MpiFut

/-- what `get` would deliver: the operation's data once complete, never the stale buffer -/
def payload (f : MpiFut) : List Int := if f.req = .pending then f.incoming else f.buf

theorem step_valid (f : MpiFut) (o : FOp) : (step f o).2.valid = (f.valid && decide (o ≠ .get)) := by
  cases o <;> cases hv : f.valid <;>
    simp [step, ready, wait, get, mpiWait, envComplete, hv] <;> split <;> simp_all

theorem final_valid (f : MpiFut) (h : List FOp) :
    (final step f h).valid = (f.valid && !h.contains .get) := by
  induction h generalizing f with
  | nil => simp [final, runFut]
  | cons o os ih =>
    rw [final_cons, ih, step_valid]
    cases o <;> simp

theorem step_payload (f : MpiFut) (o : FOp) (hv : f.valid = true) (ho : o ≠ .get) :
    payload (step f o).2 = payload f := by
  cases hr : f.req <;> cases o <;>
    simp_all [step, ready, wait, mpiWait, envComplete, mpiTest, mpiWaitReq, payload]

theorem step_obs_noget (f : MpiFut) (o : FOp) (ho : o ≠ .get) : dataOf [(step f o).1] = [] := by
  cases o <;> simp_all [step, ready, wait, dataOf] <;> split <;> simp [dataOf]

theorem get_valid (f : MpiFut) (hv : f.valid = true) :
    (step f .get).1 = .data (payload f) ∧ (step f .get).2.valid = false := by
  cases hr : f.req <;> simp [step, get, wait, hv, mpiWait, envComplete, hr, mpiWaitReq, payload]

theorem step_invalid (f : MpiFut) (o : FOp) (hv : f.valid = false) :
    (step f o).2.valid = false ∧ dataOf [(step f o).1] = [] ∧
      ((o = .get ∨ o = .wait) → (step f o).1 = .errInvalid) := by
  cases o <;> simp [step, ready, wait, get, hv, envComplete, dataOf] <;> split <;> simp_all

theorem dataOf_cons (b : FObs) (bs : List FObs) : dataOf (b :: bs) = dataOf [b] ++ dataOf bs := by
  cases b <;> simp [dataOf]

theorem invalid_no_data (f : MpiFut) (h : List FOp) (hv : f.valid = false) : dataOf (trace step f h) = [] := by
  induction h generalizing f with
  | nil => rfl
  | cons o os ih =>
    rw [trace_cons, dataOf_cons, (step_invalid f o hv).2.1, ih _ (step_invalid f o hv).1]
    rfl

theorem invalid_misuse (f : MpiFut) (h : List FOp) (hv : f.valid = false) : MisuseReported h (trace step f h) := by
  induction h generalizing f with
  | nil => trivial
  | cons o os ih =>
    rw [trace_cons]
    exact ⟨(step_invalid f o hv).2.2, ih _ (step_invalid f o hv).1⟩

theorem valid_data (f : MpiFut) (h : List FOp) (hv : f.valid = true) :
    dataOf (trace step f h) = if h.contains .get then [payload f] else [] := by
  induction h generalizing f with
  | nil => rfl
  | cons o os ih =>
    rw [trace_cons, dataOf_cons]
    by_cases ho : o = .get
    · subst ho
      rw [(get_valid f hv).1, invalid_no_data _ _ (get_valid f hv).2]
      simp [dataOf]
    · have hv' : (step f o).2.valid = true := by rw [step_valid]; simp [hv, ho]
      rw [step_obs_noget f o ho, ih _ hv', step_payload f o hv ho]
      have hne : ¬ (FOp.get = o) := fun h => ho h.symm
      simp [hne]

theorem step_req (f : MpiFut) (o : FOp) (hr : f.req ≠ .pending) :
    (step f o).2.req ≠ .pending ∧ ((o = .ready ∨ o = .spin) → (step f o).1 = .bool true) := by
  cases hq : f.req <;> cases hv : f.valid <;> cases o <;>
    simp_all [step, ready, wait, get, mpiWait, envComplete, mpiTest, mpiWaitReq]

/-- an invalid MPI future never owns an active request (it became invalid through `get`, which waits) -/
def Inv (f : MpiFut) : Prop := f.valid = false → f.req ≠ .pending

theorem inv_step (f : MpiFut) (o : FOp) (hi : Inv f) : Inv (step f o).2 := by
  unfold Inv at *
  cases hq : f.req <;> cases hv : f.valid <;> cases o <;>
    simp_all [step, ready, wait, get, mpiWait, envComplete, mpiTest, mpiWaitReq]

theorem inv_final (f : MpiFut) (h : List FOp) (hi : Inv f) : Inv (final step f h) := by
  induction h generalizing f with
  | nil => exact hi
  | cons o os ih => rw [final_cons]; exact ih _ (inv_step f o hi)

theorem notPending_ready (f : MpiFut) (h : List FOp) (hr : f.req ≠ .pending) : AlwaysReady h (trace step f h) := by
  induction h generalizing f with
  | nil => trivial
  | cons o os ih =>
    rw [trace_cons]
    exact ⟨(step_req f o hr).2, ih _ (step_req f o hr).1⟩

end MpiFut

/-! ### MPIFuture<void> : projection of MPIFuture<T> -/

def eraseMpi (f : MpiFut) : MpiVoid := { valid := f.valid, req := f.req }

theorem mpiVoid_step (f : MpiFut) (o : FOp) :
    MpiVoid.step (eraseMpi f) o = (eraseObs (MpiFut.step f o).1, eraseMpi (MpiFut.step f o).2) := by
  cases hr : f.req <;> cases hv : f.valid <;> cases o <;>
    simp [MpiVoid.step, MpiFut.step, eraseMpi, eraseObs, MpiVoid.ready, MpiFut.ready, MpiVoid.wait, MpiFut.wait,
      MpiVoid.get, MpiFut.get, MpiVoid.mpiWait, MpiFut.mpiWait, MpiVoid.envComplete, MpiFut.envComplete,
      completeReq, mpiWaitReq, mpiTest, hr, hv]

theorem mpiVoid_trace (f : MpiFut) (h : List FOp) :
    trace MpiVoid.step (eraseMpi f) h = (trace MpiFut.step f h).map eraseObs ∧
      final MpiVoid.step (eraseMpi f) h = eraseMpi (final MpiFut.step f h) := by
  induction h generalizing f with
  | nil => exact ⟨rfl, rfl⟩
  | cons o os ih =>
    rw [trace_cons, trace_cons, final_cons, final_cons, mpiVoid_step]
    exact ⟨by simp [(ih _).1], (ih _).2⟩

/-! ### PseudoFuture<T> -/
namespace PseudoFut

theorem step_valid (f : PseudoFut) (o : FOp) : (step f o).2.valid = (f.valid && decide (o ≠ .get)) := by
  cases o <;> cases hv : f.valid <;> simp [step, ready, wait, get, hv]

theorem final_valid (f : PseudoFut) (h : List FOp) :
    (final step f h).valid = (f.valid && !h.contains .get) := by
  induction h generalizing f with
  | nil => simp [final, runFut]
  | cons o os ih =>
    rw [final_cons, ih, step_valid]
    cases o <;> simp

theorem step_data (f : PseudoFut) (o : FOp) : (step f o).2.data = f.data := by
  cases o <;> cases hv : f.valid <;> simp [step, ready, wait, get, hv]

theorem step_invalid (f : PseudoFut) (o : FOp) (hv : f.valid = false) :
    (step f o).2.valid = false ∧ dataOf [(step f o).1] = [] ∧
      ((o = .get ∨ o = .wait) → (step f o).1 = .errInvalid) := by
  cases o <;> simp [step, ready, wait, get, hv, dataOf]

theorem invalid_no_data (f : PseudoFut) (h : List FOp) (hv : f.valid = false) : dataOf (trace step f h) = [] := by
  induction h generalizing f with
  | nil => rfl
  | cons o os ih =>
    rw [trace_cons, MpiFut.dataOf_cons, (step_invalid f o hv).2.1, ih _ (step_invalid f o hv).1]
    rfl

theorem invalid_misuse (f : PseudoFut) (h : List FOp) (hv : f.valid = false) : MisuseReported h (trace step f h) := by
  induction h generalizing f with
  | nil => trivial
  | cons o os ih =>
    rw [trace_cons]
    exact ⟨(step_invalid f o hv).2.2, ih _ (step_invalid f o hv).1⟩

theorem valid_data (f : PseudoFut) (h : List FOp) (hv : f.valid = true) :
    dataOf (trace step f h) = if h.contains .get then [f.data] else [] := by
  induction h generalizing f with
  | nil => rfl
  | cons o os ih =>
    rw [trace_cons, MpiFut.dataOf_cons]
    by_cases ho : o = .get
    · subst ho
      have h1 : (step f .get).1 = .data f.data := by simp [step, get, hv]
      have h2 : (step f .get).2.valid = false := by simp [step, get, hv]
      rw [h1, invalid_no_data _ _ h2]
      simp [dataOf]
    · have hv' : (step f o).2.valid = true := by rw [step_valid]; simp [hv, ho]
      have hobs : dataOf [(step f o).1] = [] := by
        cases o <;> simp_all [step, ready, wait, dataOf]
      rw [hobs, ih _ hv', step_data]
      have hne : ¬ (FOp.get = o) := fun h => ho h.symm
      simp [hne]

theorem valid_ready (f : PseudoFut) (h : List FOp) (hg : h.contains .get = false) (hv : f.valid = true) :
    AlwaysReady h (trace step f h) := by
  induction h generalizing f with
  | nil => trivial
  | cons o os ih =>
    rw [trace_cons]
    simp at hg
    have hv' : (step f o).2.valid = true := by
      rw [step_valid]; simp [hv]; intro h; exact hg.1 h.symm
    refine ⟨?_, ih _ (by simpa using hg.2) hv'⟩
    intro ho
    rcases ho with rfl | rfl <;> simp [step, ready, hv]

end PseudoFut

def erasePseudo (f : PseudoFut) : PseudoVoid := { valid := f.valid }

theorem pseudoVoid_step (f : PseudoFut) (o : FOp) :
    PseudoVoid.step (erasePseudo f) o = (eraseObs (PseudoFut.step f o).1, erasePseudo (PseudoFut.step f o).2) := by
  cases hv : f.valid <;> cases o <;>
    simp [PseudoVoid.step, PseudoFut.step, erasePseudo, eraseObs, PseudoVoid.ready, PseudoFut.ready, PseudoVoid.wait,
      PseudoFut.wait, PseudoVoid.get, PseudoFut.get, hv]

theorem pseudoVoid_trace (f : PseudoFut) (h : List FOp) :
    trace PseudoVoid.step (erasePseudo f) h = (trace PseudoFut.step f h).map eraseObs ∧
      final PseudoVoid.step (erasePseudo f) h = erasePseudo (final PseudoFut.step f h) := by
  induction h generalizing f with
  | nil => exact ⟨rfl, rfl⟩
  | cons o os ih =>
    rw [trace_cons, trace_cons, final_cons, final_cons, pseudoVoid_step]
    exact ⟨by simp [(ih _).1], (ih _).2⟩

end DV.C19

/-! ## round two: successful gets are counted, projections preserve the judgements, type erasure -/
namespace DV.C19

/-- number of `get` calls that returned (were not answered by InvalidFutureException) -/
def succGets : List FOp → List FObs → Nat
  | o :: os, b :: bs => (if o = .get ∧ b ≠ .errInvalid then 1 else 0) + succGets os bs
  | _, _ => 0

theorem eraseObs_eq_err (b : FObs) : eraseObs b = .errInvalid ↔ b = .errInvalid := by
  cases b <;> simp [eraseObs]

theorem eraseObs_eq_true (b : FObs) : eraseObs b = .bool true ↔ b = .bool true := by
  cases b <;> simp [eraseObs]

theorem succGets_map_erase (h : List FOp) (bs : List FObs) : succGets h (bs.map eraseObs) = succGets h bs := by
  induction h generalizing bs with
  | nil => cases bs <;> rfl
  | cons o os ih =>
    cases bs with
    | nil => rfl
    | cons b bs => simp [succGets, ih, eraseObs_eq_err]

theorem misuse_map_erase (h : List FOp) (bs : List FObs) (hm : MisuseReported h bs) :
    MisuseReported h (bs.map eraseObs) := by
  induction h generalizing bs with
  | nil => cases bs <;> trivial
  | cons o os ih =>
    cases bs with
    | nil => trivial
    | cons b bs =>
      obtain ⟨h1, h2⟩ := hm
      exact ⟨fun ho => (eraseObs_eq_err b).mpr (h1 ho), ih bs h2⟩

theorem alwaysReady_map_erase (h : List FOp) (bs : List FObs) (hm : AlwaysReady h bs) :
    AlwaysReady h (bs.map eraseObs) := by
  induction h generalizing bs with
  | nil => cases bs <;> trivial
  | cons o os ih =>
    cases bs with
    | nil => trivial
    | cons b bs =>
      obtain ⟨h1, h2⟩ := hm
      exact ⟨fun ho => (eraseObs_eq_true b).mpr (h1 ho), ih bs h2⟩

namespace MpiFut

theorem invalid_succGets (f : MpiFut) (h : List FOp) (hv : f.valid = false) : succGets h (trace step f h) = 0 := by
  induction h generalizing f with
  | nil => rfl
  | cons o os ih =>
    rw [trace_cons]
    have hs := step_invalid f o hv
    simp only [succGets, ih _ hs.1]
    by_cases ho : o = .get
    · have he := hs.2.2 (Or.inl ho)
      subst ho
      simp [he]
    · simp [ho]

theorem valid_succGets (f : MpiFut) (h : List FOp) (hv : f.valid = true) :
    succGets h (trace step f h) = if h.contains .get then 1 else 0 := by
  induction h generalizing f with
  | nil => rfl
  | cons o os ih =>
    rw [trace_cons]
    by_cases ho : o = .get
    · subst ho
      simp [succGets, (get_valid f hv).1, invalid_succGets _ _ (get_valid f hv).2]
    · have hv' : (step f o).2.valid = true := by rw [step_valid]; simp [hv, ho]
      have hne : ¬ (FOp.get = o) := fun h => ho h.symm
      simp [succGets, ih _ hv', ho, hne]

theorem ready_true_notPending (f : MpiFut) (h : (step f .ready).1 = .bool true) :
    (step f .ready).2.req ≠ .pending := by
  cases hr : f.req <;> simp_all [step, ready, mpiTest]

end MpiFut

namespace PseudoFut

theorem invalid_succGets (f : PseudoFut) (h : List FOp) (hv : f.valid = false) :
    succGets h (trace step f h) = 0 := by
  induction h generalizing f with
  | nil => rfl
  | cons o os ih =>
    rw [trace_cons]
    have hs := step_invalid f o hv
    simp only [succGets, ih _ hs.1]
    by_cases ho : o = .get
    · have he := hs.2.2 (Or.inl ho)
      subst ho
      simp [he]
    · simp [ho]

theorem valid_succGets (f : PseudoFut) (h : List FOp) (hv : f.valid = true) :
    succGets h (trace step f h) = if h.contains .get then 1 else 0 := by
  induction h generalizing f with
  | nil => rfl
  | cons o os ih =>
    rw [trace_cons]
    by_cases ho : o = .get
    · subst ho
      have h1 : (step f .get).1 = .data f.data := by simp [step, get, hv]
      have h2 : (step f .get).2.valid = false := by simp [step, get, hv]
      simp [succGets, h1, invalid_succGets _ _ h2]
    · have hv' : (step f o).2.valid = true := by rw [step_valid]; simp [hv, ho]
      have hne : ¬ (FOp.get = o) := fun h => ho h.symm
      simp [succGets, ih _ hv', ho, hne]

end PseudoFut

/-- every state of MPIFuture<void> is the projection of a state of MPIFuture<T> -/
def liftMpi (f : MpiVoid) : MpiFut := { valid := f.valid, req := f.req, buf := [], incoming := [] }
theorem erase_liftMpi (f : MpiVoid) : eraseMpi (liftMpi f) = f := rfl

def liftPseudo (f : PseudoVoid) : PseudoFut := { valid := f.valid, data := [] }
theorem erase_liftPseudo (f : PseudoVoid) : erasePseudo (liftPseudo f) = f := rfl

/-! ### `Dune::Future<T>` -/

theorem erased_some {σ : Type} (inner : σ → FOp → FObs × σ) (f : σ) (h : List FOp) :
    trace (erasedStep inner) (some f) h = trace inner f h ∧
      final (erasedStep inner) (some f) h = some (final inner f h) := by
  induction h generalizing f with
  | nil => exact ⟨rfl, rfl⟩
  | cons o os ih =>
    rw [trace_cons, trace_cons, final_cons, final_cons]
    exact ⟨by simp [erasedStep, (ih _).1], by simp [erasedStep, (ih _).2]⟩

theorem erased_null_step {σ : Type} (inner : σ → FOp → FObs × σ) (o : FOp) :
    (erasedStep inner none o).2 = none ∧ dataOf [(erasedStep inner none o).1] = [] ∧
      ((o = .get ∨ o = .wait) → (erasedStep inner none o).1 = .errInvalid) ∧
      (o = .valid → (erasedStep inner none o).1 = .bool false) := by
  cases o <;> simp [erasedStep, dataOf]

theorem erased_null {σ : Type} (inner : σ → FOp → FObs × σ) (h : List FOp) :
    MisuseReported h (trace (erasedStep inner) none h) ∧ dataOf (trace (erasedStep inner) none h) = [] ∧
      succGets h (trace (erasedStep inner) none h) = 0 ∧ final (erasedStep inner) none h = none := by
  induction h with
  | nil => exact ⟨trivial, rfl, rfl, rfl⟩
  | cons o os ih =>
    have hs := erased_null_step inner o
    rw [trace_cons, final_cons, hs.1]
    refine ⟨⟨hs.2.2.1, ih.1⟩, ?_, ?_, ih.2.2.2⟩
    · rw [MpiFut.dataOf_cons, hs.2.1, ih.2.1]; rfl
    · simp only [succGets, ih.2.2.1]
      by_cases ho : o = .get
      · have he := hs.2.2.1 (Or.inl ho)
        subst ho
        simp [he]
      · simp [ho]

theorem voidCast_trace {σ : Type} (inner : σ → FOp → FObs × σ) (f : σ) (h : List FOp) :
    trace (voidCastStep inner) f h = (trace inner f h).map eraseObs ∧
      final (voidCastStep inner) f h = final inner f h := by
  induction h generalizing f with
  | nil => exact ⟨rfl, rfl⟩
  | cons o os ih =>
    rw [trace_cons, trace_cons, final_cons, final_cons]
    exact ⟨by simp [voidCastStep, (ih _).1], by simp [voidCastStep, (ih _).2]⟩

end DV.C19
