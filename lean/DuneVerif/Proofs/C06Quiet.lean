import DuneVerif.Proofs.C06Rank
import DuneVerif.Proofs.C06Fix
/-!
C06 — what a rank leaves behind when `forward`/`backward` returns (round three).

Consecutive calls on one communicator object use the same communicator and the same tags.  The rank-level invariants
of round two already imply that a rank which has returned is *quiet* on every link it takes part in: nothing it sent is
still in the FIFO, none of its requests is open, and its peer has no receive posted that one of its later messages
could be matched with.  Together with "a returned rank stays returned" this holds for the rest of the call, whatever
the other ranks still do — which is what makes a following call on the same object independent of this one.
-/
namespace DV.C06
variable {α : Type}

/-! ### the half-started data machines -/

theorem startSend_closed {σ : Type} (B : Nat) (p : PairSpec α) (x : Pair α σ) (h : (startSend B p x).sendOpen = false) :
    (startSend B p x).sreq = .null ∧ (startSend B p x).chan = [] := by
  simp only [startSend] at h ⊢
  cases hm : (setupSend p.h (Tracker.mk' 0 p.sendIdx p.f) (MessageBuffer.new B)).message with
  | none => simp
  | some m => rw [hm] at h; simp at h

theorem startSend_rreq {σ : Type} (B : Nat) (p : PairSpec α) (x : Pair α σ) : (startSend B p x).rreq = x.rreq := rfl

theorem startRecv_closed (B : Nat) (p : PairSpec α) (sizes : List Nat) (x : Pair α (List (Call α)))
    (h : (startRecv B p sizes x).recvOpen = false) : (startRecv B p sizes x).rreq = .null := by
  simp only [startRecv] at h ⊢
  simp [h]

theorem startRecv_chan (B : Nat) (p : PairSpec α) (sizes : List Nat) (x : Pair α (List (Call α))) :
    (startRecv B p sizes x).chan = x.chan := rfl

theorem startRecv_sreq (B : Nat) (p : PairSpec α) (sizes : List Nat) (x : Pair α (List (Call α))) :
    (startRecv B p sizes x).sreq = x.sreq := rfl

/-! ### variable size -/

/-- the sender of link `l` has returned: both machines of the link are closed on its side, the FIFO is empty, and no
    receive is posted on the other side -/
theorem linkInv_src_returned {B n : Nat} {ph : List Nat} {l : LinkSpec α} {x : LinkSt α} (hI : LinkInv B n ph l x)
    (h2 : ph.getD l.src 3 = 2) :
    x.sz.sreq = .null ∧ x.dt.sreq = .null ∧ x.sz.chan = [] ∧ x.dt.chan = [] ∧
      x.sz.rreq.isPosted = false ∧ x.dt.rreq.isPosted = false := by
  have hs : x.sStarted = true := by rw [hI.sph, h2]; rfl
  obtain ⟨a1, a2, a3⟩ := pinv_sendClosed x.sz hI.sz.2.2 (hI.sclosed hs)
  have hdc := hI.sret h2
  cases hr : x.rStarted with
  | true =>
    obtain ⟨b1, b2, b3⟩ := pinv_sendClosed x.dt (hI.dt11 hs hr).2.2.2 hdc
    exact ⟨a1, b1, a2, b2, a3, b3⟩
  | false =>
    have hdt := hI.dt10 hs hr
    rw [hdt] at hdc ⊢
    obtain ⟨b1, b2⟩ := startSend_closed B l.pair (Pair.blank []) hdc
    exact ⟨a1, b1, a2, b2, a3, by rw [startSend_rreq]; rfl⟩

/-- the receiver of link `l` has returned: no receive request of it is left, and the FIFO is empty -/
theorem linkInv_dst_returned {B n : Nat} {ph : List Nat} {l : LinkSpec α} {x : LinkSt α} (hI : LinkInv B n ph l x)
    (h2 : ph.getD l.dst 3 = 2) :
    x.sz.rreq = .null ∧ x.dt.rreq = .null ∧ x.sz.chan = [] ∧ x.dt.chan = [] := by
  have hr : x.rStarted = true := by rw [hI.rph, h2]; rfl
  obtain ⟨a1, a2, _⟩ := pinv_recvClosed x.sz hI.sz.2.2 (hI.rclosed hr)
  have hdc := hI.rret h2
  cases hs : x.sStarted with
  | true =>
    obtain ⟨b1, b2, _⟩ := pinv_recvClosed x.dt (hI.dt11 hs hr).2.2.2 hdc
    exact ⟨a1, b1, a2, b2⟩
  | false =>
    have hdt := hI.dt01 hs hr
    rw [hdt] at hdc ⊢
    exact ⟨a1, startRecv_closed B l.pair _ _ hdc, a2, by rw [startRecv_chan]; rfl⟩

theorem varStep_returned (B : Nat) (specs : List (LinkSpec α)) (g g' : VarSys α) (a : GAct)
    (hs : varStep B specs g a = some g') (p : Nat) (h2 : g.phase.getD p 3 = 2) : g'.phase.getD p 3 = 2 := by
  cases a with
  | size i a =>
    simp only [varStep] at hs
    split at hs
    · cases a <;> simp only [] at hs
      · simp only [Option.map_eq_some_iff] at hs; obtain ⟨_, _, rfl⟩ := hs; exact h2
      · split at hs
        · simp only [Option.map_eq_some_iff] at hs; obtain ⟨_, _, rfl⟩ := hs; exact h2
        · cases hs
      · split at hs
        · simp only [Option.map_eq_some_iff] at hs; obtain ⟨_, _, rfl⟩ := hs; exact h2
        · cases hs
    · cases hs
  | data i a =>
    simp only [varStep] at hs
    split at hs
    · cases a <;> simp only [] at hs
      · split at hs
        · simp only [Option.map_eq_some_iff] at hs; obtain ⟨_, _, rfl⟩ := hs; exact h2
        · cases hs
      · split at hs
        · simp only [Option.map_eq_some_iff] at hs; obtain ⟨_, _, rfl⟩ := hs; exact h2
        · cases hs
      · split at hs
        · simp only [Option.map_eq_some_iff] at hs; obtain ⟨_, _, rfl⟩ := hs; exact h2
        · cases hs
    · cases hs
  | advance q =>
    simp only [varStep] at hs
    split at hs
    · rename_i hc
      cases hs
      have hne : q ≠ p := by intro e; subst e; rw [hc.2.1] at h2; cases h2
      simp only []
      rw [getD_set_phase _ _ _ _ hc.1, if_neg (Ne.symm hne)]
      exact h2
    · cases hs
  | ret q =>
    simp only [varStep] at hs
    split at hs
    · rename_i hc
      cases hs
      have hne : q ≠ p := by intro e; subst e; rw [hc.2.1] at h2; cases h2
      simp only []
      rw [getD_set_phase _ _ _ _ hc.1, if_neg (Ne.symm hne)]
      exact h2
    · cases hs

theorem varExec_returned (B : Nat) (specs : List (LinkSpec α)) : ∀ (sched : List GAct) (g g' : VarSys α),
    varExec B specs g sched = some g' → ∀ p, g.phase.getD p 3 = 2 → g'.phase.getD p 3 = 2 := by
  intro sched
  induction sched with
  | nil => intro g g' he p h2; simp [varExec] at he; subst he; exact h2
  | cons a as ih =>
    intro g g' he p h2
    simp only [varExec] at he
    cases hstep : varStep B specs g a with
    | none => simp [hstep] at he
    | some g1 =>
      simp only [hstep, Option.bind_some] at he
      exact ih g1 g' he p (varStep_returned B specs g g1 a hstep p h2)

/-! ### fixed size -/

theorem flinkInv_src_returned {B n : Nat} {ph : List Nat} {l : FLinkSpec α} {x : FLinkSt α} (hI : FLinkInv B n ph l x)
    (h1 : ph.getD l.src 3 = 1) :
    x.sc ≠ .pending ∧ x.dt.sreq = .null ∧ x.dt.chan = [] ∧ x.dt.rreq.isPosted = false := by
  obtain ⟨hsc, hdc⟩ := hI.sret h1
  by_cases hseen : x.sc = .seen
  · obtain ⟨b1, b2, b3⟩ := pinv_sendClosed x.dt (hI.post hseen).2.2.2 hdc
    exact ⟨hsc, b1, b2, b3⟩
  · have hdt := hI.pre hseen
    rw [hdt] at hdc ⊢
    simp only [fixInitDt] at hdc ⊢
    obtain ⟨b1, b2⟩ := startSend_closed B l.pair _ hdc
    exact ⟨hsc, b1, b2, by rw [startSend_rreq]; rfl⟩

theorem flinkInv_dst_returned {B n : Nat} {ph : List Nat} {l : FLinkSpec α} {x : FLinkSt α} (hI : FLinkInv B n ph l x)
    (h1 : ph.getD l.dst 3 = 1) :
    x.sc = .seen ∧ x.dt.rreq = .null ∧ x.dt.chan = [] := by
  obtain ⟨hsc, hdc⟩ := hI.rret h1
  obtain ⟨b1, b2, _⟩ := pinv_recvClosed x.dt (hI.post hsc).2.2.2 hdc
  exact ⟨hsc, b1, b2⟩

theorem fixStep_returned (B : Nat) (specs : List (FLinkSpec α)) (g g' : FixSys α) (a : FAct)
    (hs : fixStep B specs g a = some g') (p : Nat) (h1 : g.phase.getD p 3 = 1) : g'.phase.getD p 3 = 1 := by
  cases a with
  | scalar i =>
    simp only [fixStep] at hs
    split at hs
    · split at hs
      · cases hs; exact h1
      · cases hs
    · cases hs
  | seen i =>
    simp only [fixStep] at hs
    split at hs
    · split at hs
      · cases hs; exact h1
      · cases hs
    · cases hs
  | data i a =>
    simp only [fixStep] at hs
    split at hs
    · cases a <;> simp only [] at hs
      · simp only [Option.map_eq_some_iff] at hs; obtain ⟨_, _, rfl⟩ := hs; exact h1
      · split at hs
        · simp only [Option.map_eq_some_iff] at hs; obtain ⟨_, _, rfl⟩ := hs; exact h1
        · cases hs
      · split at hs
        · simp only [Option.map_eq_some_iff] at hs; obtain ⟨_, _, rfl⟩ := hs; exact h1
        · cases hs
    · cases hs
  | ret q =>
    simp only [fixStep] at hs
    split at hs
    · rename_i hc
      cases hs
      have hne : q ≠ p := by intro e; subst e; rw [hc.2.1] at h1; cases h1
      simp only []
      rw [getD_set_phase _ _ _ _ hc.1, if_neg (Ne.symm hne)]
      exact h1
    · cases hs

theorem fixExec_returned (B : Nat) (specs : List (FLinkSpec α)) : ∀ (sched : List FAct) (g g' : FixSys α),
    fixExec B specs g sched = some g' → ∀ p, g.phase.getD p 3 = 1 → g'.phase.getD p 3 = 1 := by
  intro sched
  induction sched with
  | nil => intro g g' he p h1; simp [fixExec] at he; subst he; exact h1
  | cons a as ih =>
    intro g g' he p h1
    simp only [fixExec] at he
    cases hstep : fixStep B specs g a with
    | none => simp [hstep] at he
    | some g1 =>
      simp only [hstep, Option.bind_some] at he
      exact ih g1 g' he p (fixStep_returned B specs g g1 a hstep p h1)

end DV.C06
