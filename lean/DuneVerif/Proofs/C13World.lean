import DuneVerif.Proofs.C13Recv
/-! C13, level 3: the collective operation on all ranks. Core Lean only. -/
namespace DV.C13

/-- every rank's state is a partial view of the decomposition `D` (see `RankInv`) -/
def PartialView (D : Decomp) (w : World) : Prop :=
  ∀ q st, w[q]? = some st → RankInv D w.length q st

/-! ### lists with distinct keys -/

theorem lookup_of_mem_pairwise {κ β : Type} [BEq κ] [LawfulBEq κ] (R : κ → κ → Prop) (irr : ∀ a, ¬ R a a)
    (k : κ) (v : β) : ∀ l : List (κ × β), l.Pairwise (fun a b => R a.1 b.1) → (k, v) ∈ l → l.lookup k = some v
  | [], _, h => by simp at h
  | (k', v') :: t, hp, h => by
    rw [List.pairwise_cons] at hp
    simp only [List.mem_cons, Prod.mk.injEq] at h
    rw [List.lookup_cons]
    rcases h with ⟨rfl, rfl⟩ | h
    · simp
    · have hR : R k' k := hp.1 (k, v) h
      have hne : (k == k') = false := by
        cases hh : k == k'
        · rfl
        · have := eq_of_beq hh
          subst this
          exact absurd hR (irr k)
      simp [hne, lookup_of_mem_pairwise R irr k v t hp.2 h]

theorem lookup_mem' {κ β : Type} [BEq κ] [LawfulBEq κ] (k : κ) (v : β) :
    ∀ l : List (κ × β), l.lookup k = some v → (k, v) ∈ l
  | [], h => by simp [List.lookup] at h
  | (k', v') :: t, h => by
    rw [List.lookup_cons] at h
    cases hk : k == k'
    · simp [hk] at h
      simp [lookup_mem' k v t h]
    · simp [hk] at h
      have := eq_of_beq hk
      subst this; subst h
      simp

theorem find_of_mem_sorted (en : RemEntry) : ∀ l : List RemEntry, l.Pairwise (fun a b => a.g < b.g) → en ∈ l →
    l.find? (fun x => x.g == en.g) = some en
  | [], _, h => by simp at h
  | a :: t, hp, h => by
    rw [List.pairwise_cons] at hp
    simp only [List.mem_cons] at h
    rw [List.find?_cons]
    rcases h with rfl | h
    · simp
    · have : a.g < en.g := hp.1 en h
      have hne : (a.g == en.g) = false := by
        have : a.g ≠ en.g := by omega
        simpa using this
      simp [hne, find_of_mem_sorted en t hp.2 h]

/-! ### what is packed -/

theorem mem_holders (remote : List (Nat × List RemEntry)) (g : Int) (r ra : Nat) :
    (r, ra) ∈ holders remote g ↔ ∃ l en, (r, l) ∈ remote ∧ l.find? (fun x => x.g == g) = some en ∧ en.rem = ra := by
  simp only [holders, List.mem_filterMap, Option.map_eq_some_iff, Prod.mk.injEq]
  constructor
  · rintro ⟨⟨y, l⟩, h1, en, h2, h3, h4⟩
    simp only at h2 h3
    subst h3
    exact ⟨l, en, h1, h2, h4⟩
  · rintro ⟨l, en, h1, h2, h3⟩
    exact ⟨(r, l), h1, en, h2, rfl, h3⟩

theorem holders_sorted (remote : List (Nat × List RemEntry)) (g : Int)
    (hs : remote.Pairwise (fun a b => a.1 < b.1)) : (holders remote g).Pairwise (fun a b => a.1 < b.1) := by
  unfold holders
  apply List.Pairwise.filterMap _ _ hs
  intro a a' haa b hb b' hb'
  simp only [Option.map_eq_some_iff] at hb hb'
  obtain ⟨_, _, rfl⟩ := hb
  obtain ⟨_, _, rfl⟩ := hb'
  exact haa

theorem mem_holders_of_mem {D : Decomp} {P q : Nat} {idx : List IdxEntry} {remote : List (Nat × List RemEntry)}
    (h : RemInv D P q idx remote) (r : Nat) (en : RemEntry) (hen : en ∈ listOf remote r) :
    (r, en.rem) ∈ holders remote en.g := by
  obtain ⟨l, hl, hen'⟩ := mem_of_mem_listOf remote r en hen
  rw [mem_holders]
  exact ⟨l, en, hl, find_of_mem_sorted en l (h.nbOk _ hl).2.2 hen', rfl⟩

theorem mem_itemsFor (st : RankState) (q : Nat) (it : Item) :
    it ∈ itemsFor st q ↔ ∃ e ∈ st.idx, it = ⟨e.g, e.attr, holders st.remote e.g⟩ ∧
      (holders st.remote e.g).any (fun h => h.1 == q) = true := by
  simp only [itemsFor, List.mem_filterMap]
  constructor
  · rintro ⟨e, he, h⟩
    split at h
    · rename_i hany
      simp at h
      exact ⟨e, he, h.symm, hany⟩
    · simp at h
  · rintro ⟨e, he, h1, h2⟩
    exact ⟨e, he, by simp [h2, h1]⟩

theorem mem_inbox (w : World) (q : Nat) (m : Nat × List Item) :
    m ∈ inbox w q ↔ ∃ st, w[m.1]? = some st ∧ isNeighbour st.remote q = true ∧ m.2 = itemsFor st q := by
  simp only [inbox, List.mem_filterMap, List.mem_range]
  constructor
  · rintro ⟨p, hp, h⟩
    split at h
    · rename_i st hst
      split at h
      · rename_i hn
        simp at h
        subst h
        exact ⟨st, hst, hn, rfl⟩
      · simp at h
    · simp at h
  · rintro ⟨st, h1, h2, h3⟩
    refine ⟨m.1, ?_, ?_⟩
    · have := List.getElem?_eq_some_iff.1 h1
      exact this.1
    · simp only [h1, h2, if_true]
      rw [← h3]

/-- everything a process of a partial view publishes agrees with the decomposition -/
theorem trueItem_of_view {D : Decomp} {P p q : Nat} {sp : RankState} (h : RankInv D P p sp)
    (hq : isNeighbour sp.remote q = true) (hp : p < P) (it : Item) (hit : it ∈ itemsFor sp q) : TrueItem D P q p it := by
  obtain ⟨e, he, rfl, _⟩ := (mem_itemsFor sp q it).1 hit
  obtain ⟨l, hl⟩ := (isNeighbour_iff sp.remote q).1 hq
  refine ⟨h.idxTrue e he, fun hc => (h.rem.nbOk _ hl).1 hc.symm, hp, ?_⟩
  intro ⟨r, ra⟩ hpr
  obtain ⟨lr, en, h1, h2, h3⟩ := (mem_holders sp.remote e.g r ra).1 hpr
  have hen := List.mem_of_find?_eq_some h2
  have hg : en.g = e.g := by have := List.find?_some h2; simpa using this
  have := (h.rem.remTrue _ h1 en hen).1
  simp only at this
  rw [hg, h3] at this
  exact ⟨this, (h.rem.nbOk _ h1).2.1⟩

theorem trueItems_inbox {D : Decomp} {w : World} (hw : PartialView D w) (q : Nat) :
    ∀ x ∈ flatMsgs (inbox w q), TrueItem D w.length q x.1 x.2 := by
  intro x hx
  obtain ⟨m, hm, h1, h2⟩ := (mem_flatMsgs _ x).1 hx
  obtain ⟨st, hst, hn, hit⟩ := (mem_inbox w q m).1 hm
  have hlt : m.1 < w.length := (List.getElem?_eq_some_iff.1 hst).1
  rw [← h1]
  rw [hit] at h2
  exact trueItem_of_view (hw _ _ hst) hn hlt x.2 h2

/-! ### the state of one rank after the sync -/

theorem sync_getElem? (num : Int → Nat) (w : World) (q : Nat) :
    (sync num w)[q]? = (w[q]?).map (fun st => syncRank num w q st) := by
  simp [sync, List.getElem?_mapIdx]

theorem syncOrd_getElem? (ord : Nat → List (Nat × List Item) → List (Nat × List Item)) (num : Int → Nat) (w : World)
    (q : Nat) : (syncOrd ord num w)[q]? = (w[q]?).map (fun st => finish (recvAll num q st (ord q (inbox w q)))) := by
  simp [syncOrd, List.getElem?_mapIdx]

theorem syncRank_idx (num : Int → Nat) (w : World) (q : Nat) (st : RankState) :
    (syncRank num w q st).idx = (recvFlat num q st (flatMsgs (inbox w q))).idx ∧
    (syncRank num w q st).remote = (recvFlat num q st (flatMsgs (inbox w q))).remote := by
  simp [syncRank, finish, recvAll_eq_flat]

theorem RankInv.finish {D : Decomp} {P q : Nat} {st : RankState} (h : RankInv D P q st) : RankInv D P q (finish st) :=
  ⟨h.idxSorted, h.idxTrue, h.rem⟩

theorem partialView_sync {D : Decomp} {w : World} (num : Int → Nat) (hw : PartialView D w) :
    PartialView D (sync num w) := by
  intro q st' hst'
  rw [sync_getElem?] at hst'
  simp only [Option.map_eq_some_iff] at hst'
  obtain ⟨st, hst, rfl⟩ := hst'
  have hlen : (sync num w).length = w.length := by simp [sync]
  rw [hlen]
  unfold syncRank
  rw [recvAll_eq_flat]
  exact (RankInv.recvFlat num _ st (hw q st hst) (trueItems_inbox hw q)).finish

/-- the message of `p` to its neighbour `q` contains, for every remote index `en` of `p`'s list for `q`, the item for
`en.g` -/
theorem item_in_inbox {D : Decomp} {w : World} (hw : PartialView D w) (p q : Nat) (sp : RankState)
    (hp : w[p]? = some sp) (en : RemEntry) (hen : en ∈ listOf sp.remote q) :
    (p, (⟨en.g, en.own, holders sp.remote en.g⟩ : Item)) ∈ flatMsgs (inbox w q) ∧
      (holders sp.remote en.g).lookup q = some en.rem := by
  have hI := hw p sp hp
  obtain ⟨l, hl, hen'⟩ := mem_of_mem_listOf sp.remote q en hen
  have hnb : isNeighbour sp.remote q = true := (isNeighbour_iff _ _).2 ⟨l, hl⟩
  have hhold : (q, en.rem) ∈ holders sp.remote en.g := mem_holders_of_mem hI.rem q en hen
  have hlook : (holders sp.remote en.g).lookup q = some en.rem :=
    lookup_of_mem_pairwise (fun a b : Nat => a < b) (fun a => Nat.lt_irrefl a) q en.rem _
      (holders_sorted _ _ hI.rem.nbSorted) hhold
  refine ⟨?_, hlook⟩
  rw [mem_flatMsgs]
  refine ⟨(p, itemsFor sp q), (mem_inbox w q _).2 ⟨sp, hp, hnb, rfl⟩, rfl, ?_⟩
  rw [mem_itemsFor]
  obtain ⟨e, he, h1, h2⟩ := (hasKey_iff _ _ _).1 (hI.rem.remTrue _ hl en hen').2
  refine ⟨e, he, ?_, ?_⟩
  · rw [h1, h2]
  · rw [h1, List.any_eq_true]
    exact ⟨(q, en.rem), hhold, by simp⟩

/-- states reached from the same state by receiving the same *set* of true items are equal -/
theorem recvFlat_ext {D : Decomp} {P me : Nat} (num : Int → Nat) (st : RankState) (hI : RankInv D P me st)
    (xs ys : List (Nat × Item)) (hx : ∀ x ∈ xs, TrueItem D P me x.1 x.2) (hxy : ∀ x, x ∈ xs ↔ x ∈ ys) :
    recvFlat num me st xs = recvFlat num me st ys := by
  have hy : ∀ x ∈ ys, TrueItem D P me x.1 x.2 := fun x h => hx x ((hxy x).2 h)
  have h1 := RankInv.recvFlat num xs st hI hx
  have h2 := RankInv.recvFlat num ys st hI hy
  have hex : ∀ (Q : Nat × Item → Prop), (∃ x ∈ xs, Q x) ↔ (∃ x ∈ ys, Q x) := by
    intro Q
    constructor
    · rintro ⟨x, h, hq⟩; exact ⟨x, (hxy x).1 h, hq⟩
    · rintro ⟨x, h, hq⟩; exact ⟨x, (hxy x).2 h, hq⟩
  have hidx : (recvFlat num me st xs).idx = (recvFlat num me st ys).idx := by
    apply pairwise_ext (fun a b : IdxEntry => a.g < b.g) (fun a => Int.lt_irrefl _)
      (fun a b h => Int.lt_asymm h) _ _ h1.idxSorted h2.idxSorted
    intro e
    rw [mem_idx_recvFlat, mem_idx_recvFlat, hex]
  have hrem : (recvFlat num me st xs).remote = (recvFlat num me st ys).remote := by
    apply remote_ext _ _ h1.rem.nbSorted h2.rem.nbSorted
    · intro y
      rw [isNeighbour_recvFlat, isNeighbour_recvFlat, hex]
    · intro y
      apply pairwise_ext (fun a b : RemEntry => a.g < b.g) (fun a => Int.lt_irrefl _)
        (fun a b h => Int.lt_asymm h) _ _ (h1.rem.listOf_pairwise y) (h2.rem.listOf_pairwise y)
      intro en
      rw [mem_listOf_recvFlat _ _ _ _ _ _ hI.rem.nbSorted, mem_listOf_recvFlat _ _ _ _ _ _ hI.rem.nbSorted, hex]
  have hs1 := recvFlat_seq num me xs st
  have hs2 := recvFlat_seq num me ys st
  cases hA : recvFlat num me st xs
  cases hB : recvFlat num me st ys
  rw [hA] at hidx hrem hs1
  rw [hB] at hidx hrem hs2
  simp only at hidx hrem hs1 hs2
  rw [hidx, hrem, hs1.1, hs1.2, hs2.1, hs2.2]

theorem resolve_of_hasKey (idx : List IdxEntry) (en : RemEntry) (h : hasKey idx en.g en.own = true) :
    ∃ k e, resolve idx en = some k ∧ idx[k]? = some e ∧ e.g = en.g ∧ e.attr = en.own := by
  unfold resolve
  cases hf : idx.findIdx? (fun e => e.g == en.g && e.attr == en.own) with
  | none =>
    rw [List.findIdx?_eq_none_iff] at hf
    obtain ⟨e, he, h1, h2⟩ := (hasKey_iff _ _ _).1 h
    have := hf e he
    simp [h1, h2] at this
  | some k =>
    obtain ⟨hk, hp, _⟩ := List.findIdx?_eq_some_iff_getElem.1 hf
    refine ⟨k, idx[k], rfl, by simp [hk], ?_⟩
    simpa using hp

end DV.C13
