import DuneVerif.Model.C20
/-! helper lemmas for C20 (core Lean only) -/
namespace DV.C20

/-! ### construction -/

theorem constructLoop_aux (n : Nat) (xs : List Int) (m : Nat) (hmn : m ≤ n) (hml : m ≤ xs.length) :
    (List.range m).foldl (fun acc i => acc.set i (xs.getD i 0)) (List.replicate n 0)
      = xs.take m ++ List.replicate (n - m) 0 := by
  induction m with
  | zero => simp
  | succ m ih =>
    have ih' := ih (by omega) (by omega)
    rw [List.range_succ, List.foldl_append, ih']
    simp only [List.foldl_cons, List.foldl_nil]
    have hlen : (xs.take m).length = m := by simp; omega
    rw [List.set_append_right _ _ (by omega), hlen, Nat.sub_self]
    have hrep : List.replicate (n - m) (0 : Int) = 0 :: List.replicate (n - (m + 1)) 0 := by
      have : n - m = (n - (m + 1)) + 1 := by omega
      rw [this, List.replicate_succ]
    rw [hrep, List.set_cons_zero, List.take_add_one]
    have hx : xs[m]? = some (xs.getD m 0) := by
      have hm : m < xs.length := by omega
      simp [List.getD_eq_getElem?_getD, List.getElem?_eq_getElem hm]
    rw [hx]
    simp

theorem constructLoop_eq (n : Nat) (xs : List Int) : constructLoop n xs = construct n xs := by
  unfold constructLoop construct
  rw [constructLoop_aux n xs (min n xs.length) (Nat.min_le_left _ _) (Nat.min_le_right _ _)]
  rw [List.take_append, List.take_replicate]
  by_cases h : n ≤ xs.length
  · have h1 : min n xs.length = n := Nat.min_eq_left h
    have h2 : n - xs.length = 0 := by omega
    simp [h1, h2]
  · have h1 : min n xs.length = xs.length := Nat.min_eq_right (by omega)
    have h3 : min (n - xs.length) n = n - xs.length := Nat.min_eq_left (by omega)
    rw [h1, h3, List.take_of_length_le (Nat.le_refl _), List.take_of_length_le (by omega)]

theorem construct_length (n : Nat) (xs : List Int) : (construct n xs).length = n := by
  simp [construct]

theorem construct_getElem? (n : Nat) (xs : List Int) (i : Nat) (hi : i < n) :
    (construct n xs)[i]? = some (if i < xs.length then xs.getD i 0 else 0) := by
  unfold construct
  rw [List.getElem?_take]
  simp only [hi, if_true]
  by_cases h : i < xs.length
  · rw [List.getElem?_append_left h]
    simp [h, List.getD_eq_getElem?_getD]
  · rw [List.getElem?_append_right (by omega), List.getElem?_replicate]
    have : i - xs.length < n := by omega
    simp [h, this]

/-- filling a zero vector entry by entry -/
theorem fill_aux (n : Nat) (f : Nat → Int) (m : Nat) (hmn : m ≤ n) :
    (List.range m).foldl (fun acc i => acc.set i (f i)) (List.replicate n 0)
      = (List.range m).map f ++ List.replicate (n - m) 0 := by
  induction m with
  | zero => simp
  | succ m ih =>
    have ih' := ih (by omega)
    rw [List.range_succ, List.foldl_append, ih']
    simp only [List.foldl_cons, List.foldl_nil, List.map_append, List.map_cons, List.map_nil]
    have hlen : ((List.range m).map f).length = m := by simp
    rw [List.set_append_right _ _ (by omega), hlen, Nat.sub_self]
    have hrep : List.replicate (n - m) (0 : Int) = 0 :: List.replicate (n - (m + 1)) 0 := by
      have : n - m = (n - (m + 1)) + 1 := by omega
      rw [this, List.replicate_succ]
    rw [hrep, List.set_cons_zero]
    simp

/-! ### byte addresses -/

/-- Byte addressing finds the cell: the byte address `ptr + j*stride` of entry `j` of a buffer that shows the cells
    `off, off+step, …` of an object with records of any size `rsz > 0` is where cell `off + j*step` starts. -/
theorem cellAt_entryAddr (m : MemLay) (hr : 0 < m.rsz) (off step : Int) (len j : Nat) :
    m.cellAt (entryAddr (bufInfo m off step len) j) = some (off + (j : Int) * step) := by
  have hne : (m.rsz : Int) ≠ 0 := by omega
  have hz : m.rsz ≠ 0 := by omega
  have ha : entryAddr (bufInfo m off step len) j - (m.fo : Int) = (m.rsz : Int) * (off + (j : Int) * step) := by
    simp only [entryAddr, bufInfo, MemLay.addr]
    rw [Int.mul_add, ← Int.mul_assoc, Int.mul_comm (j : Int) (m.rsz : Int), Int.mul_assoc]
    omega
  unfold MemLay.cellAt
  rw [if_neg hz, ha, Int.mul_emod_right, if_pos rfl, Int.mul_ediv_cancel_left _ hne]

/-- Addressing in whole items of `w` bytes (`ptr[i * (stride / w)]`, truncating division) is the byte address
    `ptr + i*stride` exactly when `i = 0` or the stride is a multiple of the item size. -/
theorem elemAddr_eq_iff (w : Nat) (hw : 0 < w) (b : BufInfo) (i : Nat) :
    elemAddr w b i = entryAddr b i ↔ (i = 0 ∨ (w : Int) ∣ b.stride) := by
  have hwne : (w : Int) ≠ 0 := by omega
  unfold elemAddr entryAddr
  constructor
  · intro h
    by_cases hi : i = 0
    · exact Or.inl hi
    · right
      have h1 : (w : Int) * ((i : Int) * b.stride.tdiv (w : Int)) = (i : Int) * b.stride := by omega
      have h2 : (i : Int) * ((w : Int) * b.stride.tdiv (w : Int)) = (i : Int) * b.stride := by
        rw [← h1, ← Int.mul_assoc, ← Int.mul_assoc, Int.mul_comm (i : Int) (w : Int)]
      have hi' : (i : Int) ≠ 0 := by omega
      have h3 := Int.eq_of_mul_eq_mul_left hi' h2
      exact ⟨b.stride.tdiv (w : Int), h3.symm⟩
  · intro h
    cases h with
    | inl h0 => subst h0; simp
    | inr hd =>
      have h1 : (w : Int) * b.stride.tdiv (w : Int) = b.stride := Int.mul_tdiv_cancel' hd
      have h2 : (w : Int) * ((i : Int) * b.stride.tdiv (w : Int)) = (i : Int) * b.stride := by
        rw [← Int.mul_assoc, Int.mul_comm (w : Int) (i : Int), Int.mul_assoc, h1]
      omega

/-- what the buffer constructor reads for entry `i` of an accepted (aligned) buffer is the buffer's entry `i` -/
theorem load_elemAddr (mem : List Int) (m : MemLay) (hr : 0 < m.rsz) (off step : Int) (shape i : Nat)
    (hal : i = 0 ∨ (8 : Int) ∣ (m.rsz : Int) * step) :
    m.load mem (elemAddr 8 (bufInfo m off step shape) i) = bufEntry mem off step i := by
  have h := (elemAddr_eq_iff 8 (by omega) (bufInfo m off step shape) i).2 hal
  unfold MemLay.load
  rw [h, cellAt_entryAddr m hr]
  rfl

/-- NumPy's alignment flag implies what the buffer constructor needs: at most one entry, or a byte stride that is a
    multiple of the item size -/
theorem aligned_stride (m : MemLay) (off step : Int) (shape : Nat) (h : (bufInfo m off step shape).aligned 8 = true) :
    shape ≤ 1 ∨ (8 : Int) ∣ (m.rsz : Int) * step := by
  simp only [BufInfo.aligned, bufInfo, Bool.or_eq_true, Bool.and_eq_true, beq_iff_eq] at h
  rcases h with h0 | ⟨_, h1 | h8⟩
  · left; omega
  · left; exact of_decide_eq_true h1
  · right; exact Int.dvd_of_emod_eq_zero h8

theorem constructBuf_fill (n : Nat) (mem : List Int) (m : MemLay) (b : BufInfo) :
    constructBuf n mem m b
      = (List.range (min n b.shape)).map (fun i => m.load mem (elemAddr 8 b i)) ++ List.replicate (n - min n b.shape) 0 := by
  unfold constructBuf
  exact fill_aux n _ (min n b.shape) (Nat.min_le_left _ _)

theorem constructBuf_eq (n : Nat) (mem : List Int) (m : MemLay) (hr : 0 < m.rsz) (off step : Int) (shape : Nat)
    (hal : shape ≤ 1 ∨ (8 : Int) ∣ (m.rsz : Int) * step) :
    constructBuf n mem m (bufInfo m off step shape) = construct n ((List.range shape).map (bufEntry mem off step)) := by
  rw [constructBuf_fill]
  have hmap : (List.range (min n (bufInfo m off step shape).shape)).map
        (fun i => m.load mem (elemAddr 8 (bufInfo m off step shape) i))
      = (List.range (min n shape)).map (bufEntry mem off step) := by
    apply List.map_congr_left
    intro i hi
    have hi' : i < min n shape := by simpa [bufInfo] using hi
    apply load_elemAddr mem m hr
    cases hal with
    | inl h1 => left; omega
    | inr h8 => right; exact h8
  rw [hmap]
  unfold construct
  rw [List.take_append, List.take_replicate, ← List.map_take, List.take_range]
  simp only [List.length_map, List.length_range, bufInfo]
  congr 1
  · congr 1
    omega

theorem constructBuf_length (n : Nat) (mem : List Int) (m : MemLay) (b : BufInfo) :
    (constructBuf n mem m b).length = n := by
  rw [constructBuf_fill]
  simp
  omega

theorem constructLoop_length (n : Nat) (xs : List Int) : (constructLoop n xs).length = n := by
  rw [constructLoop_eq]; exact construct_length _ _

theorem map_getD_range (l : List Int) : (List.range l.length).map (fun j => l.getD j 0) = l := by
  apply List.ext_getElem
  · simp
  · intro i h1 h2
    simp [List.getD_eq_getElem?_getD, List.getElem?_eq_getElem h2]

theorem dynConstructLoop_eq (xs : List Int) : dynConstructLoop xs = xs := by
  unfold dynConstructLoop
  rw [fill_aux xs.length (fun i => xs.getD i 0) xs.length (Nat.le_refl _), map_getD_range]
  simp

/-! ### index normalisation -/

theorem normIndex_nonneg (n : Nat) (i : Int) (h0 : 0 ≤ i) (h1 : i < n) : normIndex n i = some i.toNat := by
  unfold normIndex
  simp only []
  rw [if_neg (by omega : ¬ i < 0), if_neg (by omega)]

theorem normIndex_neg (n : Nat) (i : Int) (h0 : -(n : Int) ≤ i) (h1 : i < 0) :
    normIndex n i = some (i + n).toNat := by
  unfold normIndex
  simp only []
  rw [if_pos h1, if_neg (by omega)]

theorem normIndex_out (n : Nat) (i : Int) (h : i < -(n : Int) ∨ (n : Int) ≤ i) : normIndex n i = none := by
  unfold normIndex
  simp only []
  by_cases hi : i < 0
  · rw [if_pos hi, if_pos (by omega)]
  · rw [if_neg hi, if_pos (by omega)]

theorem normIndex_lt (n : Nat) (i : Int) (p : Nat) (h : normIndex n i = some p) : p < n := by
  unfold normIndex at h
  simp only [] at h
  by_cases hi : i < 0
  · rw [if_pos hi] at h
    by_cases hc : (i + (n : Int) < 0 ∨ i + (n : Int) ≥ (n : Int))
    · rw [if_pos hc] at h; cases h
    · rw [if_neg hc] at h
      have := Option.some.inj h
      omega
  · rw [if_neg hi] at h
    by_cases hc : (i < 0 ∨ i ≥ (n : Int))
    · rw [if_pos hc] at h; cases h
    · rw [if_neg hc] at h
      have := Option.some.inj h
      omega

/-- in range, the normalised index is `i mod n` -/
theorem normIndex_eq_mod (n : Nat) (i : Int) (h0 : -(n : Int) ≤ i) (h1 : i < n) :
    normIndex n i = some (i % (n : Int)).toNat := by
  by_cases hi : 0 ≤ i
  · rw [normIndex_nonneg n i hi h1, Int.emod_eq_of_lt hi h1]
  · have hneg : i < 0 := by omega
    rw [normIndex_neg n i h0 hneg]
    have h2 : (i + (n : Int)) % (n : Int) = i % (n : Int) := by
      rw [Int.add_emod_right]
    rw [← h2, Int.emod_eq_of_lt (by omega) (by omega)]

/-! ### store -/

theorem read_write_same (s : State) (b : Nat) (v : List Int) (hb : b < s.blocks.length) :
    (s.write b v).read b = v := by
  simp [State.read, State.write, List.getD_eq_getElem?_getD, hb]

theorem read_write_other (s : State) (b c : Nat) (v : List Int) (h : b ≠ c) :
    (s.write b v).read c = s.read c := by
  simp [State.read, State.write, List.getD_eq_getElem?_getD, h]

theorem write_blocks_length (s : State) (b : Nat) (v : List Int) :
    (s.write b v).blocks.length = s.blocks.length := by
  simp [State.write]

theorem read_alloc_new (s : State) (v : List Int) : (s.alloc v).1.read (s.alloc v).2 = v := by
  simp [State.read, State.alloc, List.getD_eq_getElem?_getD]

theorem read_alloc_old (s : State) (v : List Int) (b : Nat) (hb : b < s.blocks.length) :
    (s.alloc v).1.read b = s.read b := by
  simp [State.read, State.alloc, List.getD_eq_getElem?_getD, List.getElem?_append_left hb]

theorem alloc_fresh (s : State) (v : List Int) : (s.alloc v).2 = s.blocks.length := rfl

theorem alloc_blocks_length (s : State) (v : List Int) : (s.alloc v).1.blocks.length = s.blocks.length + 1 := by
  simp [State.alloc]

/-- the position of entry `j` of a view, found through its byte address, is cell `off + j*step` -/
theorem View.pos_eq (v : View) (hr : 0 < v.lay.rsz) (j : Nat) : v.pos j = (v.off + (j : Int) * v.step).toNat := by
  unfold View.pos View.info
  rw [cellAt_entryAddr v.lay hr]

/-- … in particular for the views of vectors and plain arrays (8 bytes per cell) -/
theorem View.pos_plain (b : Nat) (off step : Int) (len dt j : Nat) :
    View.pos { blk := b, off := off, step := step, len := len, dt := dt } j = (off + (j : Int) * step).toNat :=
  View.pos_eq _ (by show 0 < 8; omega) j

theorem fullView_pos (b n p : Nat) : (fullView b n).pos p = p := by
  unfold fullView
  rw [View.pos_plain]
  simp

theorem viewVals_fullView (s : State) (b : Nat) :
    s.viewVals (fullView b (s.read b).length) = s.read b := by
  unfold State.viewVals
  simp only [fullView_pos]
  exact map_getD_range (s.read b)

end DV.C20
