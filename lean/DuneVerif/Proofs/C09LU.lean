import DuneVerif.Model.C09LU
import DuneVerif.Proofs.C09
/-!
# C09 — the dense-matrix algorithms commute with taking a lane (core Lean only)

For every *lawful* `SimdLike` (each primitive is lane-wise, the reductions are ∃/∀ over the lanes) the generic
`luDecomp`/`determinant`/`solve`/`invert` return in lane `l` what the same functions return at the scalar
instance on lane `l` of the data.
-/
namespace DV.C09
open Gen

/-- the laws the dense algorithms rely on: exactly the lane-wise specification of the abstraction layer -/
structure SimdLike.Lawful {V : Type → Type} {L : Nat} (X : SimdLike V L) : Prop where
  lane_setLane : ∀ {α : Type} (l l' : Fin L) (x : α) (v : V α),
    X.lane l' (X.setLane l x v) = if l = l' then x else X.lane l' v
  lane_bcast : ∀ {α : Type} (l : Fin L) (x : α), X.lane l (X.bcast x) = x
  lane_map : ∀ {α β : Type} (l : Fin L) (f : α → β) (v : V α), X.lane l (X.map f v) = f (X.lane l v)
  lane_map2 : ∀ {α β γ : Type} (l : Fin L) (f : α → β → γ) (a : V α) (b : V β),
    X.lane l (X.map2 f a b) = f (X.lane l a) (X.lane l b)
  lane_cond : ∀ {α : Type} (l : Fin L) (m : V Bool) (a b : V α),
    X.lane l (X.cond m a b) = if X.lane l m = true then X.lane l a else X.lane l b
  anyTrue_iff : ∀ (m : V Bool), X.anyTrue m = true ↔ ∃ l, X.lane l m = true
  allTrue_iff : ∀ (m : V Bool), X.allTrue m = true ↔ ∀ l, X.lane l m = true

theorem scalar_lawful : SimdLike.scalar.Lawful where
  lane_setLane := by
    intro α l l' x v
    have : l = l' := Subsingleton.elim _ _
    simp [SimdLike.scalar, this]
  lane_bcast := by intros; rfl
  lane_map := by intros; rfl
  lane_map2 := by intros; rfl
  lane_cond := by intro α l m a b; cases m <;> rfl
  anyTrue_iff := by
    intro m
    simp only [SimdLike.scalar, scalarReduce]
    constructor
    · intro h; exact ⟨⟨0, by decide⟩, h⟩
    · rintro ⟨_, h⟩; exact h
  allTrue_iff := by
    intro m
    simp only [SimdLike.scalar, scalarReduce]
    constructor
    · intro h _; exact h
    · intro h; exact h ⟨0, by decide⟩

private theorem foldl_or_eq (l : List Bool) (init : Bool) :
    l.foldl (fun out e => out || e) init = (init || l.any id) := by
  induction l generalizing init with
  | nil => simp
  | cons x xs ih => simp [ih, Bool.or_assoc]

private theorem foldl_and_eq (l : List Bool) (init : Bool) :
    l.foldl (fun out e => out && e) init = (init && l.all id) := by
  induction l generalizing init with
  | nil => simp
  | cons x xs ih => simp [ih, Bool.and_assoc]

theorem loop_lawful (S : Nat) : (SimdLike.loop S).Lawful where
  lane_setLane := by
    intro α l l' x v
    simp only [SimdLike.loop, Fin.getElem_fin]
    rw [Vector.getElem_set]
    by_cases h : l = l'
    · subst h; simp
    · have : (l : Nat) ≠ l' := fun e => h (Fin.ext e)
      simp [h, this]
  lane_bcast := by intro α l x; simp [SimdLike.loop]
  lane_map := by intro α β l f v; simp [SimdLike.loop]
  lane_map2 := by intro α β γ l f a b; simp [SimdLike.loop]
  lane_cond := by intro α l m a b; simp [SimdLike.loop, Vector.getElem_ofFn]
  anyTrue_iff := by
    intro m
    simp only [SimdLike.loop, scalarReduce]
    rw [foldl_or_eq]
    simp only [Bool.false_or, List.any_eq_true, id]
    constructor
    · rintro ⟨x, hx, hxt⟩
      obtain ⟨i, hi, rfl⟩ := List.getElem_of_mem hx
      have hi' : i < S := by simpa using hi
      exact ⟨⟨i, hi'⟩, by simpa using hxt⟩
    · rintro ⟨l, hl⟩
      refine ⟨m[l], ?_, hl⟩
      simp
  allTrue_iff := by
    intro m
    simp only [SimdLike.loop, scalarReduce]
    rw [foldl_and_eq]
    simp only [Bool.true_and, List.all_eq_true, id]
    constructor
    · intro h l
      apply h
      simp
    · intro h x hx
      obtain ⟨i, hi, rfl⟩ := List.getElem_of_mem hx
      have hi' : i < S := by simpa using hi
      simpa using h ⟨i, hi'⟩

-- ------------------------------------------------------------------------------------------------
-- generic fold lemmas
-- ------------------------------------------------------------------------------------------------

theorem foldl_hom' {σ τ ι : Type} (p : σ → τ) (g : σ → ι → σ) (gs : τ → ι → τ)
    (h : ∀ s x, p (g s x) = gs (p s) x) (l : List ι) (s : σ) : p (l.foldl g s) = l.foldl gs (p s) := by
  induction l generalizing s with
  | nil => rfl
  | cons x xs ih => simp only [List.foldl_cons]; rw [ih, h]

/-- a loop over all lanes, seen through the projection to one lane `l`: only the iteration for `l` counts -/
theorem foldl_proj_single {σ τ ι : Type} [DecidableEq ι] (p : σ → τ) (g : σ → ι → σ) (h : τ → τ) (l : ι)
    (hne : ∀ s l', l' ≠ l → p (g s l') = p s) (heq : ∀ s, p (g s l) = h (p s)) :
    ∀ (ls : List ι), ls.Nodup → ∀ s, p (ls.foldl g s) = if l ∈ ls then h (p s) else p s := by
  intro ls
  induction ls with
  | nil => intro _ s; simp
  | cons x xs ih =>
    intro hnd s
    have hnd' := List.nodup_cons.mp hnd
    simp only [List.foldl_cons]
    rw [ih hnd'.2]
    by_cases hx : x = l
    · subst hx
      have : x ∉ xs := hnd'.1
      simp [this, heq]
    · have hx' : l ≠ x := fun e => hx e.symm
      simp only [List.mem_cons, hx', false_or]
      rw [hne s x hx]

theorem foldl_finRange_single {σ τ : Type} {L : Nat} (p : σ → τ) (g : σ → Fin L → σ) (h : τ → τ) (l : Fin L)
    (hne : ∀ s l', l' ≠ l → p (g s l') = p s) (heq : ∀ s, p (g s l) = h (p s)) (s : σ) :
    p ((List.finRange L).foldl g s) = h (p s) := by
  rw [foldl_proj_single p g h l hne heq _ (List.nodup_finRange L)]
  simp [List.mem_finRange]

theorem finRange_one : List.finRange 1 = [(0 : Fin 1)] := by decide

-- ------------------------------------------------------------------------------------------------
-- matrices
-- ------------------------------------------------------------------------------------------------
namespace Mat
variable {α β : Type} {n : Nat}

theorem get_map (f : α → β) (A : Mat α n) (i j : Fin n) : (Mat.map f A).get i j = f (A.get i j) := by
  simp [Mat.map, Mat.get]

theorem map_set (f : α → β) (A : Mat α n) (i j : Fin n) (x : α) :
    Mat.map f (A.set i j x) = (Mat.map f A).set i j (f x) := by
  simp [Mat.map, Mat.set, Vector.map_set]

theorem get_set (A : Mat α n) (i j i' j' : Fin n) (x : α) :
    (A.set i j x).get i' j' = if i = i' ∧ j = j' then x else A.get i' j' := by
  unfold Mat.get Mat.set
  simp only [Fin.getElem_fin, Vector.getElem_set]
  by_cases hi : i = i'
  · subst hi
    by_cases hj : j = j'
    · subst hj; simp
    · have : (j : Nat) ≠ j' := fun e => hj (Fin.ext e)
      simp [hj, this]
  · have : (i : Nat) ≠ i' := fun e => hi (Fin.ext e)
    simp [hi, this]

theorem get_ofFn (f : Fin n → Fin n → α) (i j : Fin n) :
    Mat.get (Vector.ofFn fun i => Vector.ofFn fun j => f i j) i j = f i j := by
  simp [Mat.get, Vector.getElem_ofFn]

theorem ext {A B : Mat α n} (h : ∀ i j, A.get i j = B.get i j) : A = B := by
  apply Vector.ext
  intro i hi
  apply Vector.ext
  intro j hj
  exact h ⟨i, hi⟩ ⟨j, hj⟩

end Mat

section Hom
variable {V : Type → Type} {L : Nat} (X : SimdLike V L) (hX : X.Lawful) {K : Type} (R : Arith K) {n : Nat} (l : Fin L)

/-- the scalar instance, with its type constructor spelled out -/
abbrev Xs : SimdLike (fun α => α) 1 := SimdLike.scalar

theorem laneMat_get (A : Mat (V K) n) (i j : Fin n) : (laneMat X l A).get i j = X.lane l (A.get i j) :=
  Mat.get_map _ A i j
theorem laneMat_set (A : Mat (V K) n) (i j : Fin n) (x : V K) :
    laneMat X l (A.set i j x) = (laneMat X l A).set i j (X.lane l x) :=
  Mat.map_set _ A i j x
theorem laneVec_get (v : Vector (V K) n) (i : Nat) (h : i < n) : (laneVec X l v)[i] = X.lane l v[i] := by
  simp [laneVec]
theorem laneVec_set (v : Vector (V K) n) (i : Nat) (h : i < n) (x : V K) :
    laneVec X l (v.set i x h) = (laneVec X l v).set i (X.lane l x) h := by
  simp [laneVec, Vector.map_set]

include hX in
theorem lane_vsub (a b : V K) : X.lane l (vsub X R a b) = vsub (V := fun α => α) Xs R (X.lane l a) (X.lane l b) := by
  simp [vsub, hX.lane_map2, SimdLike.scalar]
include hX in
theorem lane_vmul (a b : V K) : X.lane l (vmul X R a b) = vmul (V := fun α => α) Xs R (X.lane l a) (X.lane l b) := by
  simp [vmul, hX.lane_map2, SimdLike.scalar]
include hX in
theorem lane_vdiv (a b : V K) : X.lane l (vdiv X R a b) = vdiv (V := fun α => α) Xs R (X.lane l a) (X.lane l b) := by
  simp [vdiv, hX.lane_map2, SimdLike.scalar]
include hX in
theorem lane_vadd (a b : V K) : X.lane l (vadd X R a b) = vadd (V := fun α => α) Xs R (X.lane l a) (X.lane l b) := by
  simp [vadd, hX.lane_map2, SimdLike.scalar]
include hX in
theorem lane_vneg (a : V K) : X.lane l (vneg X R a) = vneg (V := fun α => α) Xs R (X.lane l a) := by
  simp [vneg, hX.lane_map, SimdLike.scalar]
include hX in
theorem lane_vabs (a : V K) : X.lane l (vabs X R a) = vabs (V := fun α => α) Xs R (X.lane l a) := by
  simp [vabs, hX.lane_map, SimdLike.scalar]
include hX in
theorem lane_vgt (a b : V K) : X.lane l (vgt X R a b) = vgt (V := fun α => α) Xs R (X.lane l a) (X.lane l b) := by
  simp [vgt, hX.lane_map2, SimdLike.scalar]
include hX in
theorem lane_vne (a b : V K) : X.lane l (vne X R a b) = vne (V := fun α => α) Xs R (X.lane l a) (X.lane l b) := by
  simp [vne, hX.lane_map2, SimdLike.scalar]
include hX in
theorem lane_vand (a b : V Bool) : X.lane l (vand X a b) = vand (V := fun α => α) Xs (X.lane l a) (X.lane l b) := by
  simp [vand, hX.lane_map2, SimdLike.scalar]
include hX in
theorem lane_vmax (a b : V K) : X.lane l (vmax X R a b) = vmax (V := fun α => α) Xs R (X.lane l a) (X.lane l b) := by
  simp [vmax, hX.lane_map2, SimdLike.scalar]
include hX in
theorem lane_cond' {α : Type} (m : V Bool) (a b : V α) :
    X.lane l (X.cond m a b) = Xs.cond (X.lane l m) (X.lane l a) (X.lane l b) := by
  rw [hX.lane_cond]
  cases X.lane l m <;> rfl
include hX in
theorem lane_bcast' {α : Type} (x : α) : X.lane l (X.bcast x) = Xs.bcast x := hX.lane_bcast l x

-- pivot search ---------------------------------------------------------------------------------------

include hX in
theorem lane_pivotSearch (A : Mat (V K) n) (i : Fin n) :
    (X.lane l (pivotSearch X R A i).1, X.lane l (pivotSearch X R A i).2) =
      pivotSearch (V := fun α => α) Xs R (laneMat X l A) i := by
  unfold pivotSearch
  have key := foldl_hom' (fun (p : V K × V (Fin n)) => (X.lane l p.1, X.lane l p.2))
    (fun (p : V K × V (Fin n)) k =>
      if i < k then
        let abs := vabs X R (A.get k i)
        let mask := vgt X R abs p.1
        (X.cond mask abs p.1, X.cond mask (X.bcast k) p.2)
      else p)
    (fun (p : K × Fin n) k =>
      if i < k then
        let abs := vabs (V := fun α => α) Xs R ((laneMat X l A).get k i)
        let mask := vgt (V := fun α => α) Xs R abs p.1
        (Xs.cond mask abs p.1, Xs.cond mask (Xs.bcast k) p.2)
      else p)
    (by
      intro p k
      by_cases hik : i < k
      · simp only [hik, if_true]
        simp only [lane_cond' X hX, lane_vgt X hX R, lane_vabs X hX R, lane_bcast' X hX, laneMat_get]
      · simp only [hik, if_false])
    (List.finRange n) (vabs X R (A.get i i), X.bcast i)
  simp only at key
  rw [key]
  simp only [lane_vabs X hX R, lane_bcast' X hX, laneMat_get]

-- lane-wise swaps ---------------------------------------------------------------------------------------

include hX in
theorem laneMat_swapLaneEntries_ne (A : Mat (V K) n) (i₁ j₁ i₂ j₂ : Fin n) (l' : Fin L) (h : l' ≠ l) :
    laneMat X l (swapLaneEntries X A i₁ j₁ i₂ j₂ l') = laneMat X l A := by
  apply Mat.ext
  intro a b
  simp only [swapLaneEntries, laneMat_get, Mat.get_set]
  by_cases h1 : i₂ = a ∧ j₂ = b
  · simp only [h1, and_self, if_true]
    obtain ⟨rfl, rfl⟩ := h1
    rw [hX.lane_setLane]
    simp only [h, if_false]
    by_cases h2 : i₁ = i₂ ∧ j₁ = j₂
    · simp only [h2, and_self, if_true]
      rw [hX.lane_setLane]
      simp [h]
    · simp [h2]
  · simp only [h1, if_false]
    by_cases h2 : i₁ = a ∧ j₁ = b
    · simp only [h2, and_self, if_true]
      rw [hX.lane_setLane]
      simp [h]
    · simp [h2]

include hX in
theorem laneMat_swapLaneEntries_eq (A : Mat (V K) n) (i₁ j₁ i₂ j₂ : Fin n) :
    laneMat X l (swapLaneEntries X A i₁ j₁ i₂ j₂ l) =
      swapLaneEntries (V := fun α => α) Xs (laneMat X l A) i₁ j₁ i₂ j₂ 0 := by
  apply Mat.ext
  intro a b
  simp only [swapLaneEntries, laneMat_get, Mat.get_set, SimdLike.scalar]
  by_cases h1 : i₂ = a ∧ j₂ = b
  · simp only [h1, and_self, if_true]
    obtain ⟨rfl, rfl⟩ := h1
    rw [hX.lane_setLane]
    simp
  · simp only [h1, if_false]
    by_cases h2 : i₁ = a ∧ j₁ = b
    · simp only [h2, and_self, if_true]
      rw [hX.lane_setLane]
      simp
    · simp [h2]

include hX in
theorem laneMat_swapLaneMat_ne (A : Mat (V K) n) (i r j : Fin n) (l' : Fin L) (h : l' ≠ l) :
    laneMat X l (swapLaneMat X A i r j l') = laneMat X l A :=
  laneMat_swapLaneEntries_ne X hX l A i j r j l' h

include hX in
theorem laneMat_swapLaneMat_eq (A : Mat (V K) n) (i r j : Fin n) :
    laneMat X l (swapLaneMat X A i r j l) = swapLaneMat (V := fun α => α) Xs (laneMat X l A) i r j 0 :=
  laneMat_swapLaneEntries_eq X hX l A i j r j

include hX in
theorem laneMat_swapRows (A : Mat (V K) n) (i : Fin n) (imax : V (Fin n)) :
    laneMat X l (swapRows X A i imax) = swapRows (V := fun α => α) Xs (laneMat X l A) i (X.lane l imax) := by
  unfold swapRows
  apply foldl_hom' (laneMat X l)
  intro A j
  rw [finRange_one]
  simp only [List.foldl_cons, List.foldl_nil]
  rw [foldl_finRange_single (laneMat X l) (fun A l' => swapLaneMat X A i (X.lane l' imax) j l')
    (fun B => swapLaneMat (V := fun α => α) Xs B i (X.lane l imax) j 0) l]
  · rfl
  · intro s l' h
    exact laneMat_swapLaneMat_ne X hX l s i _ j l' h
  · intro s
    exact laneMat_swapLaneMat_eq X hX l s i _ j

include hX in
theorem laneVec_swapLaneVec_ne (v : Vector (V K) n) (i r : Fin n) (l' : Fin L) (h : l' ≠ l) :
    laneVec X l (swapLaneVec X v i r l') = laneVec X l v := by
  apply Vector.ext
  intro a ha
  simp only [swapLaneVec, laneVec, Vector.getElem_map, Fin.getElem_fin, Vector.getElem_set]
  by_cases h1 : (r : Nat) = a
  · simp only [h1, if_true]
    rw [hX.lane_setLane]
    simp only [h, if_false]
    by_cases h2 : (i : Nat) = a
    · simp only [h2, if_true]
      rw [hX.lane_setLane]
      simp [h]
    · simp [h2]
  · simp only [h1, if_false]
    by_cases h2 : (i : Nat) = a
    · simp only [h2, if_true]
      rw [hX.lane_setLane]
      simp [h]
    · simp [h2]

include hX in
theorem laneVec_swapLaneVec_eq (v : Vector (V K) n) (i r : Fin n) :
    laneVec X l (swapLaneVec X v i r l) = swapLaneVec (V := fun α => α) Xs (laneVec X l v) i r 0 := by
  apply Vector.ext
  intro a ha
  simp only [swapLaneVec, laneVec, Vector.getElem_map, Fin.getElem_fin, Vector.getElem_set, SimdLike.scalar]
  by_cases h1 : (r : Nat) = a
  · simp only [h1, if_true]
    rw [hX.lane_setLane]
    simp
  · simp only [h1, if_false]
    by_cases h2 : (i : Nat) = a
    · simp only [h2, if_true]
      rw [hX.lane_setLane]
      simp
    · simp [h2]

-- the functor --------------------------------------------------------------------------------------------

/-- the functor of the SIMD run and the functor of the scalar run correspond through the projection `pa`
    of their states to lane `l` -/
structure ElimHom {Aux AuxS : Type} (F : ElimFunc (V := V) (K := K) (n := n) Aux)
    (Fs : ElimFunc (V := fun α => α) (K := K) (n := n) AuxS) (pa : Aux → AuxS) : Prop where
  swap : ∀ (i : Fin n) (j : V (Fin n)) (aux : Aux), pa (F.swap i j aux) = Fs.swap i (X.lane l j) (pa aux)
  elim : ∀ (f : V K) (k i : Fin n) (aux : Aux), pa (F.elim f k i aux) = Fs.elim (X.lane l f) k i (pa aux)

variable {Aux AuxS : Type} (F : ElimFunc (V := V) (K := K) (n := n) Aux)
  (Fs : ElimFunc (V := fun α => α) (K := K) (n := n) AuxS) (pa : Aux → AuxS)

/-- lane `l` of a decomposition state -/
def projState (st : LUState (V := V) (K := K) (n := n) Aux) : LUState (V := fun α => α) (K := K) (n := n) AuxS :=
  { A := laneMat X l st.A, aux := pa st.aux, ns := X.lane l st.ns }

include hX in
theorem lane_eliminate (hF : ElimHom X l F Fs pa) (A : Mat (V K) n) (aux : Aux) (i : Fin n) :
    (laneMat X l (eliminate X R F A aux i).1, pa (eliminate X R F A aux i).2) =
      eliminate (V := fun α => α) Xs R Fs (laneMat X l A) (pa aux) i := by
  unfold eliminate
  apply foldl_hom' (fun (st : Mat (V K) n × Aux) => (laneMat X l st.1, pa st.2))
  intro st k
  by_cases hik : i < k
  · simp only [hik, if_true]
    congr 1
    · apply foldl_hom' (laneMat X l)
        (fun A j => if i < j then A.set k j (vsub X R (A.get k j)
          (vmul X R (vdiv X R (st.1.get k i) (st.1.get i i)) (A.get i j))) else A)
        (fun A j => if i < j then A.set k j (vsub (V := fun α => α) Xs R (A.get k j)
          (vmul (V := fun α => α) Xs R (vdiv (V := fun α => α) Xs R ((laneMat X l st.1).get k i) ((laneMat X l st.1).get i i)) (A.get i j))) else A)
        ?_ (List.finRange n) (st.1.set k i (vdiv X R (st.1.get k i) (st.1.get i i))) |>.trans
      · simp only [laneMat_set, lane_vdiv X hX R, laneMat_get]
      · intro B j
        by_cases hij : i < j
        · simp only [hij, if_true, laneMat_set, lane_vsub X hX R, lane_vmul X hX R, lane_vdiv X hX R, laneMat_get]
        · simp only [hij, if_false]
    · simp only [hF.elim, lane_vdiv X hX R, laneMat_get]
  · simp only [hik, if_false]

include hX in
theorem proj_luPre (hF : ElimHom X l F Fs pa) (piv : Bool) (st : LUState (V := V) (K := K) (n := n) Aux) (i : Fin n) :
    projState X l pa (luPre X R F piv st i) = luPre (V := fun α => α) Xs R Fs piv (projState X l pa st) i := by
  have hp := lane_pivotSearch X hX R l st.A i
  cases piv with
  | false =>
    simp only [luPre, projState, Bool.false_eq_true, if_false, lane_vand X hX, lane_vne X hX R, lane_vabs X hX R,
      lane_bcast' X hX, laneMat_get]
  | true =>
    simp only [luPre, projState, if_true, lane_vand X hX, lane_vne X hX R, lane_bcast' X hX,
      laneMat_swapRows X hX, hF.swap]
    have h1 := congrArg Prod.fst hp
    have h2 := congrArg Prod.snd hp
    simp only at h1 h2
    rw [h1, h2]

include hX in
theorem proj_luElim (hF : ElimHom X l F Fs pa) (st : LUState (V := V) (K := K) (n := n) Aux) (i : Fin n) :
    projState X l pa (luElim X R F st i) = luElim (V := fun α => α) Xs R Fs (projState X l pa st) i := by
  have he := lane_eliminate X hX R l F Fs pa hF st.A st.aux i
  have h1 := congrArg Prod.fst he
  have h2 := congrArg Prod.snd he
  simp only at h1 h2
  simp only [luElim, projState, h1, h2]

include hX in
theorem lane_luPre_ns_mono (piv : Bool) (st : LUState (V := V) (K := K) (n := n) Aux) (i : Fin n)
    (h : X.lane l st.ns = false) : X.lane l (luPre X R F piv st i).ns = false := by
  simp only [luPre, vand, hX.lane_map2, h, Bool.false_and]

include hX in
/-- without `throwEarly` the decomposition always returns; a lane that is already marked singular stays so -/
theorem luLoop_dead (piv : Bool) : ∀ (is : List (Fin n)) (st : LUState (V := V) (K := K) (n := n) Aux),
    X.lane l st.ns = false → ∃ st', luLoop X R F false piv is st = some st' ∧ X.lane l st'.ns = false := by
  intro is
  induction is with
  | nil => intro st h; exact ⟨st, rfl, h⟩
  | cons i is ih =>
    intro st h
    have h1 := lane_luPre_ns_mono X hX R l F piv st i h
    simp only [luLoop, Bool.false_and, Bool.false_eq_true, if_false, Bool.not_false, Bool.true_and]
    by_cases ha : X.anyTrue (luPre X R F piv st i).ns = true
    · simp only [ha, Bool.not_true, Bool.false_eq_true, if_false]
      exact ih _ (by simpa [luElim] using h1)
    · simp only [ha, Bool.not_false, if_true]
      exact ⟨_, rfl, h1⟩

include hX in
/-- **decomposition without `throwEarly`, lane by lane**: both runs return; lane `l` of the final mask is the
    scalar run's flag, and if lane `l` is nonsingular, lane `l` of the decomposed matrix and of the functor
    state are the scalar run's -/
theorem luLoop_noThrow (hF : ElimHom X l F Fs pa) (piv : Bool) :
    ∀ (is : List (Fin n)) (st : LUState (V := V) (K := K) (n := n) Aux),
    ∃ st' sts', luLoop X R F false piv is st = some st' ∧
      luLoop (V := fun α => α) Xs R Fs false piv is (projState X l pa st) = some sts' ∧
      X.lane l st'.ns = sts'.ns ∧
      (sts'.ns = true → laneMat X l st'.A = sts'.A ∧ pa st'.aux = sts'.aux) := by
  intro is
  induction is with
  | nil =>
    intro st
    exact ⟨st, projState X l pa st, rfl, rfl, rfl, fun _ => ⟨rfl, rfl⟩⟩
  | cons i is ih =>
    intro st
    have hpre := proj_luPre X hX R l F Fs pa hF piv st i
    simp only [luLoop, Bool.false_and, Bool.false_eq_true, if_false, Bool.not_false, Bool.true_and]
    rw [← hpre]
    -- the scalar run tests its own flag
    have hs : Xs.anyTrue (projState X l pa (luPre X R F piv st i)).ns = X.lane l (luPre X R F piv st i).ns := rfl
    rw [hs]
    cases hl : X.lane l (luPre X R F piv st i).ns with
    | true =>
      have ha : X.anyTrue (luPre X R F piv st i).ns = true := (hX.anyTrue_iff _).mpr ⟨l, hl⟩
      simp only [ha, Bool.not_true, Bool.false_eq_true, if_false]
      rw [← proj_luElim X hX R l F Fs pa hF]
      exact ih _
    | false =>
      simp only [Bool.not_false, if_true]
      by_cases ha : X.anyTrue (luPre X R F piv st i).ns = true
      · simp only [ha, Bool.not_true, Bool.false_eq_true, if_false]
        obtain ⟨st', h1, h2⟩ := luLoop_dead X hX R l F piv is (luElim X R F (luPre X R F piv st i) i)
          (by simpa [luElim] using hl)
        refine ⟨st', _, h1, rfl, ?_, ?_⟩
        · simp [projState, h2, hl]
        · intro h; simp [projState, hl] at h
      · simp only [ha, Bool.not_false, if_true]
        refine ⟨_, _, rfl, rfl, rfl, ?_⟩
        intro h; simp [projState, hl] at h

end Hom

section Throw
variable {V : Type → Type} {L : Nat} (X : SimdLike V L) (hX : X.Lawful) {K : Type} (R : Arith K) {n : Nat}
variable {Aux AuxS : Type} (F : ElimFunc (V := V) (K := K) (n := n) Aux)
  (Fs : ElimFunc (V := fun α => α) (K := K) (n := n) AuxS) (pa : Fin L → Aux → AuxS)

include hX in
/-- **decomposition with `throwEarly`**: if the SIMD run succeeds, the scalar run succeeds in every lane and
    returns that lane of the SIMD result -/
theorem luLoop_throw_some (hF : ∀ l, ElimHom X l F Fs (pa l)) (piv : Bool) :
    ∀ (is : List (Fin n)) (st st' : LUState (V := V) (K := K) (n := n) Aux),
    luLoop X R F true piv is st = some st' →
    ∀ l, luLoop (V := fun α => α) Xs R Fs true piv is (projState X l (pa l) st) = some (projState X l (pa l) st') := by
  intro is
  induction is with
  | nil =>
    intro st st' h l
    simp only [luLoop] at h ⊢
    rw [Option.some.inj h]
  | cons i is ih =>
    intro st st' h l
    simp only [luLoop, Bool.true_and, Bool.not_true, Bool.false_and, Bool.false_eq_true, if_false] at h ⊢
    rw [← proj_luPre X hX R l F Fs (pa l) (hF l)]
    have hs : Xs.allTrue (projState X l (pa l) (luPre X R F piv st i)).ns = X.lane l (luPre X R F piv st i).ns := rfl
    rw [hs]
    by_cases ha : X.allTrue (luPre X R F piv st i).ns = true
    · have hl : X.lane l (luPre X R F piv st i).ns = true := (hX.allTrue_iff _).mp ha l
      simp only [ha, Bool.not_true, Bool.false_eq_true, if_false] at h
      simp only [hl, Bool.not_true, Bool.false_eq_true, if_false]
      rw [← proj_luElim X hX R l F Fs (pa l) (hF l)]
      exact ih _ _ h l
    · simp [ha] at h

include hX in
/-- … and if the SIMD run throws `FMatrixError`, the scalar run throws for at least one lane -/
theorem luLoop_throw_none (hF : ∀ l, ElimHom X l F Fs (pa l)) (piv : Bool) :
    ∀ (is : List (Fin n)) (st : LUState (V := V) (K := K) (n := n) Aux),
    luLoop X R F true piv is st = none →
    ∃ l, luLoop (V := fun α => α) Xs R Fs true piv is (projState X l (pa l) st) = none := by
  intro is
  induction is with
  | nil => intro st h; simp [luLoop] at h
  | cons i is ih =>
    intro st h
    simp only [luLoop, Bool.true_and, Bool.not_true, Bool.false_and, Bool.false_eq_true, if_false] at h
    by_cases ha : X.allTrue (luPre X R F piv st i).ns = true
    · simp only [ha, Bool.not_true, Bool.false_eq_true, if_false] at h
      obtain ⟨l, hl⟩ := ih _ h
      refine ⟨l, ?_⟩
      simp only [luLoop, Bool.true_and, Bool.not_true, Bool.false_and, Bool.false_eq_true, if_false]
      rw [← proj_luPre X hX R l F Fs (pa l) (hF l)]
      have hs : Xs.allTrue (projState X l (pa l) (luPre X R F piv st i)).ns = X.lane l (luPre X R F piv st i).ns := rfl
      rw [hs]
      have hlt : X.lane l (luPre X R F piv st i).ns = true := (hX.allTrue_iff _).mp ha l
      simp only [hlt, Bool.not_true, Bool.false_eq_true, if_false]
      rw [← proj_luElim X hX R l F Fs (pa l) (hF l)]
      exact hl
    · -- some lane is singular: the scalar run of that lane throws at this very step
      have hex : ∃ l, X.lane l (luPre X R F piv st i).ns = false := by
        false_or_by_contra
        rename_i hne
        apply ha
        rw [hX.allTrue_iff]
        intro l
        cases hv : X.lane l (luPre X R F piv st i).ns with
        | true => rfl
        | false => exact absurd ⟨l, hv⟩ hne
      obtain ⟨l, hl⟩ := hex
      refine ⟨l, ?_⟩
      simp only [luLoop, Bool.true_and, Bool.not_true, Bool.false_and, Bool.false_eq_true, if_false]
      rw [← proj_luPre X hX R l F Fs (pa l) (hF l)]
      have hs : Xs.allTrue (projState X l (pa l) (luPre X R F piv st i)).ns = X.lane l (luPre X R F piv st i).ns := rfl
      rw [hs]
      simp [hl]

end Throw

section Algorithms
variable {V : Type → Type} {L : Nat} (X : SimdLike V L) (hX : X.Lawful) {K : Type} (R : Arith K) {n : Nat}

include hX in
theorem elimDet_hom (l : Fin L) :
    ElimHom X l (elimDet X R (n := n)) (elimDet (V := fun α => α) Xs R (n := n)) (X.lane l) where
  swap := by
    intro i j sign
    simp only [elimDet, lane_vmul X hX R, lane_cond' X hX, hX.lane_map2, lane_bcast' X hX]
    rfl
  elim := by intro f k i aux; rfl

include hX in
theorem elimRhs_hom (l : Fin L) :
    ElimHom X l (elimRhs X R (n := n)) (elimRhs (V := fun α => α) Xs R (n := n)) (laneVec X l) where
  swap := by
    intro i j rhs
    simp only [elimRhs]
    rw [finRange_one]
    simp only [List.foldl_cons, List.foldl_nil]
    rw [foldl_finRange_single (laneVec X l) (fun rhs l' => swapLaneVec X rhs i (X.lane l' j) l')
      (fun v => swapLaneVec (V := fun α => α) Xs v i (X.lane l j) 0) l]
    · rfl
    · intro s l' h
      exact laneVec_swapLaneVec_ne X hX l s i _ l' h
    · intro s
      exact laneVec_swapLaneVec_eq X hX l s i _
  elim := by
    intro f k i rhs
    simp only [elimRhs, laneVec_set, lane_vsub X hX R, lane_vmul X hX R, laneVec_get, Fin.getElem_fin]

include hX in
theorem elimPivot_hom (l : Fin L) :
    ElimHom X l (elimPivot X (K := K) (n := n)) (elimPivot (V := fun α => α) Xs (K := K) (n := n))
      (fun p => p.map (X.lane l)) where
  swap := by
    intro i j pivot
    simp only [elimPivot, Vector.map_set, lane_cond' X hX, hX.lane_map2, lane_bcast' X hX]
    simp [SimdLike.scalar]
  elim := by intro f k i aux; rfl

include hX in
/-- **lu_lanewise**: every lane of the SIMD determinant — regular or singular, whatever the other lanes are —
    is the determinant the scalar algorithm computes for that lane's matrix -/
theorem determinant_lanewise (piv : Bool) (A : Mat (V K) n) (l : Fin L) :
    X.lane l (determinant X R piv A) = determinant (V := fun α => α) Xs R piv (laneMat X l A) := by
  unfold determinant
  by_cases h1 : n = 1
  · subst h1
    simp only [dite_true, laneMat_get]
  · by_cases h2 : n = 2
    · subst h2
      simp only [(by decide : ¬ ((2 : Nat) = 1)), dite_true, dite_false, lane_vsub X hX R, lane_vmul X hX R, laneMat_get]
    · by_cases h3 : n = 3
      · subst h3
        simp only [(by decide : ¬ ((3 : Nat) = 1)), (by decide : ¬ ((3 : Nat) = 2)), dite_true, dite_false, det3,
          lane_vsub X hX R, lane_vmul X hX R, lane_vadd X hX R, laneMat_get]
      · simp only [h1, h2, h3, dite_false]
        obtain ⟨st', sts', e1, e2, hns, hrest⟩ :=
          luLoop_noThrow X hX R l (elimDet X R) (elimDet (V := fun α => α) Xs R) (X.lane l) (elimDet_hom X hX R l) piv
            (List.finRange n) { A := A, aux := X.bcast R.one, ns := X.bcast true }
        have hinit : projState X l (X.lane l) ({ A := A, aux := X.bcast R.one, ns := X.bcast true } : LUState (V := V) (K := K) (n := n) (V K))
            = { A := laneMat X l A, aux := Xs.bcast R.one, ns := Xs.bcast true } := by
          simp only [projState, lane_bcast' X hX]
        rw [hinit] at e2
        simp only [luDecomp, e1, e2]
        rw [lane_cond' X hX, hns, lane_bcast' X hX]
        cases hs : sts'.ns with
        | false => rfl
        | true =>
          obtain ⟨hA, haux⟩ := hrest hs
          have hd : X.lane l ((List.finRange n).foldl (fun d i => vmul X R d (st'.A.get i i)) st'.aux) =
              (List.finRange n).foldl (fun d i => vmul (V := fun α => α) Xs R d (sts'.A.get i i)) sts'.aux := by
            rw [← haux, ← hA]
            apply foldl_hom' (X.lane l)
            intro d i
            simp only [lane_vmul X hX R, laneMat_get]
          rw [hd]

-- solve ---------------------------------------------------------------------------------------------------

include hX in
theorem laneVec_backsolve (A : Mat (V K) n) (rhs : Vector (V K) n) (l : Fin L) :
    laneVec X l (backsolve X R A rhs) = backsolve (V := fun α => α) Xs R (laneMat X l A) (laneVec X l rhs) := by
  unfold backsolve
  apply foldl_hom' (laneVec X l)
  intro x i
  simp only [laneVec_set, lane_vdiv X hX R, laneMat_get, Fin.getElem_fin, laneVec_get]
  congr 2
  apply foldl_hom' (X.lane l)
  intro acc j
  by_cases hij : i < j
  · simp only [hij, if_true, lane_vsub X hX R, lane_vmul X hX R]
  · simp only [hij, if_false]

private theorem projState_init_rhs (A : Mat (V K) n) (b : Vector (V K) n) (l : Fin L) (hX : X.Lawful) :
    projState X l (laneVec X l) ({ A := A, aux := b, ns := X.bcast true } : LUState (V := V) (K := K) (n := n) (Vector (V K) n))
      = { A := laneMat X l A, aux := laneVec X l b, ns := Xs.bcast true } := by
  simp only [projState, lane_bcast' X hX]

include hX in
/-- **solve_lanewise** (success): if the SIMD solve returns, the scalar solve returns for every lane, with that
    lane of the SIMD solution -/
theorem solve_lanewise_some (piv : Bool) (A : Mat (V K) n) (b x : Vector (V K) n)
    (h : solve X R piv A b = some x) (l : Fin L) :
    solve (V := fun α => α) Xs R piv (laneMat X l A) (laneVec X l b) = some (laneVec X l x) := by
  unfold solve at h ⊢
  by_cases h1 : n = 1
  · subst h1
    simp only [dite_true] at h ⊢
    rw [← Option.some.inj h]
    simp only [laneVec_set, laneVec_get, lane_vdiv X hX R, laneMat_get, Fin.getElem_fin]
  · by_cases h2 : n = 2
    · subst h2
      simp only [(by decide : ¬ ((2 : Nat) = 1)), dite_true, dite_false] at h ⊢
      rw [← Option.some.inj h]
      simp only [laneVec_set, laneVec_get, lane_vdiv X hX R, lane_vmul X hX R, lane_vsub X hX R, lane_bcast' X hX,
        laneMat_get, Fin.getElem_fin]
    · by_cases h3 : n = 3
      · subst h3
        simp only [(by decide : ¬ ((3 : Nat) = 1)), (by decide : ¬ ((3 : Nat) = 2)), dite_true, dite_false] at h ⊢
        rw [← Option.some.inj h]
        simp only [laneVec_set, laneVec_get, det3, lane_vdiv X hX R, lane_vmul X hX R, lane_vsub X hX R,
          lane_vadd X hX R, laneMat_get, Fin.getElem_fin]
      · simp only [h1, h2, h3, dite_false] at h ⊢
        simp only [luDecomp] at h ⊢
        cases hr : luLoop X R (elimRhs X R) true piv (List.finRange n) { A := A, aux := b, ns := X.bcast true } with
        | none => simp [hr] at h
        | some st =>
          simp only [hr] at h
          have hs := luLoop_throw_some X hX R (elimRhs X R) (elimRhs (V := fun α => α) Xs R) (fun l => laneVec X l)
            (fun l => elimRhs_hom X hX R l) piv _ _ _ hr l
          rw [projState_init_rhs X A b l hX] at hs
          simp only [hs]
          rw [← Option.some.inj h, laneVec_backsolve X hX R]
          rfl

include hX in
/-- **solve_lanewise** (failure): if the SIMD solve throws `FMatrixError`, the scalar solve throws for some lane -/
theorem solve_lanewise_none (piv : Bool) (A : Mat (V K) n) (b : Vector (V K) n)
    (h : solve X R piv A b = none) :
    ∃ l, solve (V := fun α => α) Xs R piv (laneMat X l A) (laneVec X l b) = none := by
  unfold solve at h
  by_cases h1 : n = 1
  · subst h1; simp at h
  · by_cases h2 : n = 2
    · subst h2; simp at h
    · by_cases h3 : n = 3
      · subst h3; simp at h
      · simp only [h1, h2, h3, dite_false] at h
        simp only [luDecomp] at h
        cases hr : luLoop X R (elimRhs X R) true piv (List.finRange n) { A := A, aux := b, ns := X.bcast true } with
        | some st => simp [hr] at h
        | none =>
          obtain ⟨l, hl⟩ := luLoop_throw_none X hX R (elimRhs X R) (elimRhs (V := fun α => α) Xs R) (fun l => laneVec X l)
            (fun l => elimRhs_hom X hX R l) piv _ _ hr
          refine ⟨l, ?_⟩
          rw [projState_init_rhs X A b l hX] at hl
          unfold solve
          simp only [h1, h2, h3, dite_false, luDecomp, hl]

-- invert --------------------------------------------------------------------------------------------------

theorem lane_get (B : Mat (V K) n) (i j : Fin n) (l : Fin L) : X.lane l (B.get i j) = (laneMat X l B).get i j :=
  (laneMat_get X l B i j).symm

include hX in
theorem laneMat_identity (l : Fin L) : laneMat X l (identity X R (n := n)) = identity (V := fun α => α) Xs R := by
  apply Mat.ext
  intro i j
  rw [laneMat_get]
  simp only [identity, Mat.get, Fin.getElem_fin, Vector.getElem_ofFn, Fin.eta]
  by_cases h : i = j
  · simp only [h, if_true]
    exact hX.lane_bcast l _
  · simp only [h, if_false]
    exact hX.lane_bcast l _

include hX in
theorem laneMat_invForward (LU Y : Mat (V K) n) (l : Fin L) :
    laneMat X l (invForward X R LU Y) = invForward (V := fun α => α) Xs R (laneMat X l LU) (laneMat X l Y) := by
  unfold invForward
  apply foldl_hom' (laneMat X l)
  intro Y i
  apply foldl_hom' (laneMat X l)
  intro Y j
  by_cases hji : j < i
  · simp only [hji, if_true]
    apply foldl_hom' (laneMat X l)
    intro Y k
    simp only [laneMat_set, lane_vsub X hX R, lane_vmul X hX R, laneMat_get]
  · simp only [hji, if_false]

include hX in
theorem laneMat_invBackward (LU Z : Mat (V K) n) (l : Fin L) :
    laneMat X l (invBackward X R LU Z) = invBackward (V := fun α => α) Xs R (laneMat X l LU) (laneMat X l Z) := by
  unfold invBackward
  apply foldl_hom' (laneMat X l)
  intro Z i
  apply foldl_hom' (laneMat X l)
  intro Z k
  have hin : laneMat X l ((List.finRange n).foldl (fun Z j =>
      if i < j then Z.set i k (vsub X R (Z.get i k) (vmul X R (LU.get i j) (Z.get j k))) else Z) Z) =
      (List.finRange n).foldl (fun Z j =>
      if i < j then Z.set i k (vsub (V := fun α => α) Xs R (Z.get i k) (vmul (V := fun α => α) Xs R ((laneMat X l LU).get i j) (Z.get j k))) else Z)
        (laneMat X l Z) := by
    apply foldl_hom' (laneMat X l)
    intro Z j
    by_cases hij : i < j
    · simp only [hij, if_true, laneMat_set, lane_vsub X hX R, lane_vmul X hX R, laneMat_get]
    · simp only [hij, if_false]
  simp only [laneMat_set, lane_vdiv X hX R, lane_get, hin]

include hX in
theorem laneMat_invUnpermute (pivot : Vector (V (Fin n)) n) (Z : Mat (V K) n) (l : Fin L) :
    laneMat X l (invUnpermute X pivot Z) =
      invUnpermute (V := fun α => α) Xs (pivot.map (X.lane l)) (laneMat X l Z) := by
  unfold invUnpermute
  apply foldl_hom' (laneMat X l)
  intro Z i
  rw [finRange_one]
  simp only [List.foldl_cons, List.foldl_nil]
  rw [foldl_finRange_single (laneMat X l)
    (fun Z l' => if i ≠ X.lane l' pivot[i] then
        (List.finRange n).foldl (fun Z j => swapLaneEntries X Z j (X.lane l' pivot[i]) j i l') Z else Z)
    (fun B => if i ≠ X.lane l pivot[i] then
        (List.finRange n).foldl (fun B j => swapLaneEntries (V := fun α => α) Xs B j (X.lane l pivot[i]) j i 0) B else B) l]
  · simp only [Fin.getElem_fin, Vector.getElem_map]
    rfl
  · intro s l' h
    split
    · have := foldl_hom' (laneMat X l) (fun Z j => swapLaneEntries X Z j (X.lane l' pivot[i]) j i l') (fun B _ => B)
        (fun Z j => laneMat_swapLaneEntries_ne X hX l Z j _ j i l' h) (List.finRange n) s
      rw [this]
      clear this
      induction (List.finRange n) with
      | nil => rfl
      | cons x xs ih => simpa using ih
    · rfl
  · intro s
    split
    · apply foldl_hom' (laneMat X l)
      intro Z j
      exact laneMat_swapLaneEntries_eq X hX l Z j _ j i
    · rfl

private theorem projState_init_pivot (A : Mat (V K) n) (l : Fin L) (hX : X.Lawful) :
    projState X l (fun p => p.map (X.lane l))
      ({ A := A, aux := Vector.ofFn fun i => X.bcast i, ns := X.bcast true } : LUState (V := V) (K := K) (n := n) (Vector (V (Fin n)) n))
      = { A := laneMat X l A, aux := Vector.ofFn fun i => Xs.bcast i, ns := Xs.bcast true } := by
  simp only [projState, lane_bcast' X hX]
  congr 1
  apply Vector.ext
  intro i hi
  simp [Vector.getElem_ofFn, hX.lane_bcast, SimdLike.scalar]

include hX in
/-- **invert_lanewise** (success) -/
theorem invert_lanewise_some (piv : Bool) (A B : Mat (V K) n) (h : invert X R piv A = some B) (l : Fin L) :
    invert (V := fun α => α) Xs R piv (laneMat X l A) = some (laneMat X l B) := by
  unfold invert at h ⊢
  by_cases h1 : n = 1
  · subst h1
    simp only [dite_true] at h ⊢
    rw [← Option.some.inj h]
    simp only [laneMat_set, lane_vdiv X hX R, lane_bcast' X hX, lane_get]
  · by_cases h2 : n = 2
    · subst h2
      simp only [(by decide : ¬ ((2 : Nat) = 1)), dite_true, dite_false] at h ⊢
      rw [← Option.some.inj h]
      simp only [laneMat_set, lane_vdiv X hX R, lane_vmul X hX R, lane_vsub X hX R, lane_vneg X hX R, lane_bcast' X hX, lane_get]
    · by_cases h3 : n = 3
      · subst h3
        simp only [(by decide : ¬ ((3 : Nat) = 1)), (by decide : ¬ ((3 : Nat) = 2)), dite_true, dite_false] at h ⊢
        rw [← Option.some.inj h]
        simp only [laneMat_set, lane_vdiv X hX R, lane_vmul X hX R, lane_vsub X hX R, lane_vadd X hX R, lane_vneg X hX R,
          lane_bcast' X hX, lane_get]
      · simp only [h1, h2, h3, dite_false] at h ⊢
        simp only [luDecomp] at h ⊢
        cases hr : luLoop X R (elimPivot X (K := K)) true piv (List.finRange n)
            { A := A, aux := Vector.ofFn fun i => X.bcast i, ns := X.bcast true } with
        | none => simp [hr] at h
        | some st =>
          simp only [hr] at h
          have hs := luLoop_throw_some X hX R (elimPivot X (K := K)) (elimPivot (V := fun α => α) Xs (K := K))
            (fun l p => p.map (X.lane l)) (fun l => elimPivot_hom X hX l) piv _ _ _ hr l
          rw [projState_init_pivot X A l hX] at hs
          simp only [hs]
          rw [← Option.some.inj h, laneMat_invUnpermute X hX, laneMat_invBackward X hX R, laneMat_invForward X hX R,
            laneMat_identity X hX R]
          rfl

include hX in
/-- **invert_lanewise** (failure) -/
theorem invert_lanewise_none (piv : Bool) (A : Mat (V K) n) (h : invert X R piv A = none) :
    ∃ l, invert (V := fun α => α) Xs R piv (laneMat X l A) = none := by
  unfold invert at h
  by_cases h1 : n = 1
  · subst h1; simp at h
  · by_cases h2 : n = 2
    · subst h2; simp at h
    · by_cases h3 : n = 3
      · subst h3; simp at h
      · simp only [h1, h2, h3, dite_false] at h
        simp only [luDecomp] at h
        cases hr : luLoop X R (elimPivot X (K := K)) true piv (List.finRange n)
            { A := A, aux := Vector.ofFn fun i => X.bcast i, ns := X.bcast true } with
        | some st => simp [hr] at h
        | none =>
          obtain ⟨l, hl⟩ := luLoop_throw_none X hX R (elimPivot X (K := K)) (elimPivot (V := fun α => α) Xs (K := K))
            (fun l p => p.map (X.lane l)) (fun l => elimPivot_hom X hX l) piv _ _ hr
          refine ⟨l, ?_⟩
          rw [projState_init_pivot X A l hX] at hl
          unfold invert
          simp only [h1, h2, h3, dite_false, luDecomp, hl]

-- products and norms ------------------------------------------------------------------------------------------

include hX in
theorem mv_lanewise (A : Mat (V K) n) (x : Vector (V K) n) (l : Fin L) :
    laneVec X l (mv X R A x) = mv (V := fun α => α) Xs R (laneMat X l A) (laneVec X l x) := by
  apply Vector.ext
  intro i hi
  rw [laneVec_get X l _ i hi]
  unfold mv
  rw [Vector.getElem_ofFn, Vector.getElem_ofFn]
  have := foldl_hom' (X.lane l) (fun acc j => vadd X R acc (vmul X R (A.get ⟨i, hi⟩ j) x[j]))
    (fun acc j => vadd (V := fun α => α) Xs R acc (vmul (V := fun α => α) Xs R ((laneMat X l A).get ⟨i, hi⟩ j) (laneVec X l x)[j]))
    (by intro acc j; simp only [lane_vadd X hX R, lane_vmul X hX R, laneMat_get, Fin.getElem_fin, laneVec_get])
    (List.finRange n) (X.bcast R.zero)
  rw [this, lane_bcast' X hX]

include hX in
theorem rightmultiply_lanewise (A M : Mat (V K) n) (l : Fin L) :
    laneMat X l (rightmultiply X R A M) = rightmultiply (V := fun α => α) Xs R (laneMat X l A) (laneMat X l M) := by
  unfold rightmultiply
  by_cases h1 : n = 1
  · subst h1
    simp only [dite_true, laneMat_set, lane_vmul X hX R, laneMat_get]
  · simp only [h1, dite_false]
    apply Mat.ext
    intro i j
    rw [laneMat_get, Mat.get_ofFn, Mat.get_ofFn]
    have := foldl_hom' (X.lane l) (fun acc k => vadd X R acc (vmul X R (A.get i k) (M.get k j)))
      (fun acc k => vadd (V := fun α => α) Xs R acc (vmul (V := fun α => α) Xs R ((laneMat X l A).get i k) ((laneMat X l M).get k j)))
      (by intro acc k; simp only [lane_vadd X hX R, lane_vmul X hX R, laneMat_get])
      (List.finRange n) (X.bcast R.zero)
    rw [this, lane_bcast' X hX]

include hX in
theorem frobeniusNorm2_lanewise (A : Mat (V K) n) (l : Fin L) :
    X.lane l (frobeniusNorm2 X R A) = frobeniusNorm2 (V := fun α => α) Xs R (laneMat X l A) := by
  unfold frobeniusNorm2
  have h0 : X.lane l (X.bcast R.zero) = Xs.bcast R.zero := lane_bcast' X hX l _
  rw [← h0]
  apply foldl_hom' (X.lane l)
  intro sum i
  rw [lane_vadd X hX R]
  congr 1
  apply foldl_hom' (X.lane l)
  intro r j
  simp only [lane_vadd X hX R, lane_vmul X hX R, laneMat_get]

include hX in
theorem infinityNorm_lanewise (A : Mat (V K) n) (l : Fin L) :
    X.lane l (infinityNorm X R A) = infinityNorm (V := fun α => α) Xs R (laneMat X l A) := by
  unfold infinityNorm
  have key := foldl_hom' (fun (p : V K × V K) => (X.lane l p.1, X.lane l p.2))
    (fun (p : V K × V K) i =>
      let a := (List.finRange n).foldl (fun r j => vadd X R r (vabs X R (A.get i j))) (X.bcast R.zero)
      (vmax X R a p.1, vadd X R p.2 a))
    (fun (p : K × K) i =>
      let a := (List.finRange n).foldl (fun r j => vadd (V := fun α => α) Xs R r (vabs (V := fun α => α) Xs R ((laneMat X l A).get i j))) (Xs.bcast R.zero)
      (vmax (V := fun α => α) Xs R a p.1, vadd (V := fun α => α) Xs R p.2 a))
    (by
      intro p i
      have ha : X.lane l ((List.finRange n).foldl (fun r j => vadd X R r (vabs X R (A.get i j))) (X.bcast R.zero)) =
          (List.finRange n).foldl (fun r j => vadd (V := fun α => α) Xs R r (vabs (V := fun α => α) Xs R ((laneMat X l A).get i j))) (Xs.bcast R.zero) := by
        have h0 : X.lane l (X.bcast R.zero) = Xs.bcast R.zero := lane_bcast' X hX l _
        rw [← h0]
        apply foldl_hom' (X.lane l)
        intro r j
        simp only [lane_vadd X hX R, lane_vabs X hX R, laneMat_get]
      simp only [lane_vmax X hX R, lane_vadd X hX R, ha])
    (List.finRange n) (X.bcast R.zero, X.bcast R.one)
  simp only at key
  have h1 := congrArg Prod.fst key
  have h2 := congrArg Prod.snd key
  simp only [lane_bcast' X hX] at h1 h2
  rw [lane_vmul X hX R, lane_vdiv X hX R, h1, h2]

end Algorithms

end DV.C09
