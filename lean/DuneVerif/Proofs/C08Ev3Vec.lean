import DuneVerif.Proofs.C08Ev3Spec
/-!
# C08 — the eigenvectors of the 3x3 closed form: `orthoComp`, `eig1`, the cross product for the third vector, the
sort of the pairs, and their assembly `trigVectors` (exact arithmetic over ℝ)

Everything is elementary vector algebra in ℝ³ on the structures of the model:
* `orthoComp_spec`  : for a unit vector `e`, `(u, v) = orthoComp e` is orthonormal, orthogonal to `e`, `v = e × u`;
* `orth_zero`       : a vector orthogonal to `e`, `u` and `e × u` (of length one) vanishes;
* `eig1Coeffs_spec` : the branch structure of `eig1` returns a unit kernel vector of the singular reduced matrix `M`;
* `detM_factor`     : `det (A - t I) = (l - t) det M(t)` for a unit eigenvector `e` of `l` (change of basis to `{u, v, e}`);
* `eig1_spec`       : `eig1` returns a unit eigenvector for `ev1`, orthogonal to `e`;
* `cross_eigen`     : the cross product of eigenvectors for `l₁, l₂` of a symmetric matrix is an eigenvector for
                      `tr A - l₁ - l₂`;
* `rank2_of_simple` : for a simple root of the characteristic polynomial two rows of `A - l I` are independent;
* `trigVectors_spec`: the assembly.
-/
namespace DV.C08

/-! ## vector algebra on `V3 ℝ` -/

theorem dot3_eq (u w : V3 ℝ) : dot3 u w = u.x * w.x + u.y * w.y + u.z * w.z := rfl

theorem dotv3_eq (u w : V3 ℝ) : dotv3 u w = dot3 u w := by
  unfold dotv3 dot3 zero
  simp only [Nat.cast_zero, zero_add]

theorem mv3_eq (A : M3 ℝ) (x : V3 ℝ) : mv3 A x = mulVec3 A x := by
  unfold mv3 mulVec3 dot3 zero
  simp only [Nat.cast_zero, zero_add]

theorem norm2_3_dot (v : V3 ℝ) : norm2_3 v = dot3 v v := by rw [norm2_3_eq, dot3_eq]

theorem V3_zero_of_norm {w : V3 ℝ} (h : norm2_3 w = 0) : w = ⟨0, 0, 0⟩ := by
  rw [norm2_3_eq] at h
  have hx : w.x = 0 := by nlinarith [mul_self_nonneg w.x, mul_self_nonneg w.y, mul_self_nonneg w.z]
  have hy : w.y = 0 := by nlinarith [mul_self_nonneg w.x, mul_self_nonneg w.y, mul_self_nonneg w.z]
  have hz : w.z = 0 := by nlinarith [mul_self_nonneg w.x, mul_self_nonneg w.y, mul_self_nonneg w.z]
  cases w
  simp only at hx hy hz
  simp only [V3.mk.injEq]
  exact ⟨hx, hy, hz⟩

/-- Lagrange: `|e × u|² = |e|² |u|² - (e·u)²` -/
theorem norm2_3_cross (e u : V3 ℝ) :
    norm2_3 (cross e u) = norm2_3 e * norm2_3 u - dot3 e u * dot3 e u := by
  rw [cross_eq, norm2_3_eq, norm2_3_eq, norm2_3_eq, dot3_eq]
  ring

theorem dot3_cross_left (e u : V3 ℝ) : dot3 (cross e u) e = 0 := by
  rw [cross_eq, dot3_eq]; ring

theorem dot3_cross_right (e u : V3 ℝ) : dot3 (cross e u) u = 0 := by
  rw [cross_eq, dot3_eq]; ring

theorem dot3_comm (u w : V3 ℝ) : dot3 u w = dot3 w u := by
  rw [dot3_eq, dot3_eq]; ring

/-- a vector orthogonal to `e`, `u` and `e × u`, where `e × u` has length one, vanishes -/
theorem orth_zero (e u w : V3 ℝ) (hc : norm2_3 (cross e u) = 1) (he : dot3 w e = 0) (hu : dot3 w u = 0)
    (hv : dot3 w (cross e u) = 0) : w = ⟨0, 0, 0⟩ := by
  apply V3_zero_of_norm
  have key : norm2_3 w * norm2_3 (cross e u) =
      dot3 w (cross e u) * dot3 w (cross e u)
        + norm2_3 ⟨e.x * dot3 w u - u.x * dot3 w e, e.y * dot3 w u - u.y * dot3 w e, e.z * dot3 w u - u.z * dot3 w e⟩ := by
    rw [cross_eq]
    simp only [norm2_3_eq, dot3_eq]
    ring
  rw [hc, he, hu, hv] at key
  simp only [norm2_3_eq, mul_zero, sub_zero, mul_one, add_zero] at key
  rw [norm2_3_eq]
  exact key

/-! ## `orthoComp` -/

theorem unit_of_scaled (a b s : ℝ) (hs : s ≠ 0) (hss : s * s = a * a + b * b) :
    (1 / s * a) * (1 / s * a) + (1 / s * b) * (1 / s * b) = 1 := by
  have h : (1 / s * a) * (1 / s * a) + (1 / s * b) * (1 / s * b) = (a * a + b * b) / (s * s) := by
    field_simp
  rw [h, ← hss, div_self (mul_ne_zero hs hs)]

theorem orthoComp_spec (e : V3 ℝ) (he : norm2_3 e = 1) :
    norm2_3 (orthoComp Real.sqrt e).1 = 1 ∧ dot3 (orthoComp Real.sqrt e).1 e = 0 ∧
      (orthoComp Real.sqrt e).2 = cross e (orthoComp Real.sqrt e).1 := by
  have he' : e.x * e.x + e.y * e.y + e.z * e.z = 1 := by rw [← norm2_3_eq]; exact he
  unfold orthoComp
  simp only [zero, one, Nat.cast_zero, Nat.cast_one, zero_add, absK_eq, mul_zero]
  split_ifs with h
  · -- |e.y| < |e.x| : normalise (e.x, e.z)
    have hx : e.x ≠ 0 := by
      intro h0
      rw [h0, abs_zero] at h
      exact absurd h (not_lt.mpr (abs_nonneg _))
    have hpos : 0 < e.x * e.x + e.z * e.z := by
      have := mul_self_pos.mpr hx
      nlinarith [mul_self_nonneg e.z]
    have hs : Real.sqrt (e.x * e.x + e.z * e.z) ≠ 0 := (Real.sqrt_pos.mpr hpos).ne'
    have hss : Real.sqrt (e.x * e.x + e.z * e.z) * Real.sqrt (e.x * e.x + e.z * e.z) = e.x * e.x + e.z * e.z :=
      Real.mul_self_sqrt hpos.le
    refine ⟨?_, ?_, ?_⟩
    · rw [norm2_3_eq]
      simp only
      have := unit_of_scaled (-e.z) e.x _ hs (by rw [hss]; ring)
      linarith
    · rw [dot3_eq]
      simp only
      ring
    · first | rfl | trivial
  · -- |e.x| ≤ |e.y| : normalise (e.y, e.z)
    have hpos : 0 < e.y * e.y + e.z * e.z := by
      rcases (lt_or_eq_of_le (by nlinarith [mul_self_nonneg e.y, mul_self_nonneg e.z] :
          0 ≤ e.y * e.y + e.z * e.z)) with hp | hz
      · exact hp
      · exfalso
        have hy : e.y = 0 := by nlinarith [mul_self_nonneg e.y, mul_self_nonneg e.z]
        have hx : e.x = 0 := by
          rw [hy, abs_zero] at h
          exact abs_eq_zero.mp (le_antisymm (not_lt.mp h) (abs_nonneg _))
        have hzz : e.z * e.z = 0 := by nlinarith [mul_self_nonneg e.z]
        rw [hx, hy] at he'
        nlinarith
    have hs : Real.sqrt (e.y * e.y + e.z * e.z) ≠ 0 := (Real.sqrt_pos.mpr hpos).ne'
    have hss : Real.sqrt (e.y * e.y + e.z * e.z) * Real.sqrt (e.y * e.y + e.z * e.z) = e.y * e.y + e.z * e.z :=
      Real.mul_self_sqrt hpos.le
    refine ⟨?_, ?_, ?_⟩
    · rw [norm2_3_eq]
      simp only
      have := unit_of_scaled e.z (-e.y) _ hs (by rw [hss]; ring)
      linarith
    · rw [dot3_eq]
      simp only
      ring
    · first | rfl | trivial

/-- the complete orthonormal frame produced by `orthoComp` for a unit vector -/
theorem orthoComp_frame (e : V3 ℝ) (he : norm2_3 e = 1) :
    let u := (orthoComp Real.sqrt e).1
    let v := (orthoComp Real.sqrt e).2
    norm2_3 u = 1 ∧ norm2_3 v = 1 ∧ dot3 u e = 0 ∧ dot3 v e = 0 ∧ dot3 u v = 0 ∧ v = cross e u := by
  obtain ⟨hu, hue, hv⟩ := orthoComp_spec e he
  simp only
  refine ⟨hu, ?_, hue, ?_, ?_, hv⟩
  · rw [hv, norm2_3_cross, he, hu, dot3_comm e, hue]; ring
  · rw [hv]; exact dot3_cross_left _ _
  · rw [hv, dot3_comm]; exact dot3_cross_right _ _

/-! ## the branch structure of `eig1` on the reduced 2x2 matrix -/

theorem inv_sqrt_unit (t : ℝ) :
    (1 / Real.sqrt (1 + t * t)) * (1 / Real.sqrt (1 + t * t)) * (1 + t * t) = 1 := by
  have hpos : 0 < 1 + t * t := by nlinarith [mul_self_nonneg t]
  have hs : Real.sqrt (1 + t * t) ≠ 0 := (Real.sqrt_pos.mpr hpos).ne'
  have hss : Real.sqrt (1 + t * t) * Real.sqrt (1 + t * t) = 1 + t * t := Real.mul_self_sqrt hpos.le
  have h : (1 / Real.sqrt (1 + t * t)) * (1 / Real.sqrt (1 + t * t)) * (1 + t * t)
      = (1 + t * t) / (Real.sqrt (1 + t * t) * Real.sqrt (1 + t * t)) := by
    field_simp
  rw [h, hss, div_self hpos.ne']

/-- `eig1Coeffs = none` only for the zero matrix -/
theorem eig1Coeffs_none (m00 m01 m11 : ℝ) (h : eig1Coeffs Real.sqrt m00 m01 m11 = none) :
    m00 = 0 ∧ m01 = 0 ∧ m11 = 0 := by
  unfold eig1Coeffs at h
  simp only [zero, one, Nat.cast_zero, Nat.cast_one, absK_eq, maxK_eq] at h
  split_ifs at h with h1 h2 h3 h4 h5
  · -- |m11| ≤ |m00|, max |m00| |m01| ≤ 0
    have hm := not_lt.mp h2
    have a0 : |m00| ≤ 0 := le_trans (le_max_left _ _) hm
    have a1 : |m01| ≤ 0 := le_trans (le_max_right _ _) hm
    have a2 : |m11| ≤ 0 := le_trans h1 a0
    exact ⟨abs_eq_zero.mp (le_antisymm a0 (abs_nonneg _)), abs_eq_zero.mp (le_antisymm a1 (abs_nonneg _)),
      abs_eq_zero.mp (le_antisymm a2 (abs_nonneg _))⟩
  · -- |m00| < |m11| but max |m11| |m01| ≤ 0 : impossible
    exfalso
    have hm := not_lt.mp h4
    have a2 : |m11| ≤ 0 := le_trans (le_max_left _ _) hm
    have : |m00| < 0 := lt_of_lt_of_le (not_le.mp h1) a2
    exact absurd this (not_lt.mpr (abs_nonneg _))

/-- in every other case the returned pair `(a, b)` (meaning `a*u - b*v`) has `a² + b² = 1` and `(a, -b)` lies in the
kernel of the singular symmetric matrix `[[m00, m01], [m01, m11]]` -/
theorem eig1Coeffs_some (m00 m01 m11 a b : ℝ) (hdet : m00 * m11 - m01 * m01 = 0)
    (h : eig1Coeffs Real.sqrt m00 m01 m11 = some (a, b)) :
    a * a + b * b = 1 ∧ m00 * a - m01 * b = 0 ∧ m01 * a - m11 * b = 0 := by
  unfold eig1Coeffs at h
  simp only [zero, one, Nat.cast_zero, Nat.cast_one, absK_eq, maxK_eq] at h
  split_ifs at h with h1 h2 h3 h4 h5
  · -- row (m00, m01), |m01| ≤ |m00| : a = t c, b = c, t = m01 / m00
    have hne : m00 ≠ 0 := by
      intro h0
      rw [h0, abs_zero] at h3 h2
      have : |m01| = 0 := le_antisymm h3 (abs_nonneg _)
      rw [this, max_self] at h2
      exact lt_irrefl _ h2
    simp only [Option.some.injEq, Prod.mk.injEq] at h
    obtain ⟨ha, hb⟩ := h
    have hu := inv_sqrt_unit (m01 / m00)
    subst ha hb
    refine ⟨?_, ?_, ?_⟩
    · linear_combination hu
    · field_simp
      ring
    · have : m01 * (m01 / m00 * (1 / Real.sqrt (1 + m01 / m00 * (m01 / m00)))) - m11 * (1 / Real.sqrt (1 + m01 / m00 * (m01 / m00)))
          = -(1 / Real.sqrt (1 + m01 / m00 * (m01 / m00)) / m00) * (m00 * m11 - m01 * m01) := by
        field_simp
        ring
      rw [this, hdet, mul_zero]
  · -- row (m00, m01), |m00| < |m01| : a = c, b = t c, t = m00 / m01
    have hne : m01 ≠ 0 := by
      intro h0
      rw [h0, abs_zero] at h3
      exact h3 (abs_nonneg _)
    simp only [Option.some.injEq, Prod.mk.injEq] at h
    obtain ⟨ha, hb⟩ := h
    have hu := inv_sqrt_unit (m00 / m01)
    subst ha hb
    refine ⟨?_, ?_, ?_⟩
    · linear_combination hu
    · field_simp
      ring
    · have : m01 * (1 / Real.sqrt (1 + m00 / m01 * (m00 / m01))) - m11 * (m00 / m01 * (1 / Real.sqrt (1 + m00 / m01 * (m00 / m01))))
          = -(1 / Real.sqrt (1 + m00 / m01 * (m00 / m01)) / m01) * (m00 * m11 - m01 * m01) := by
        field_simp
        ring
      rw [this, hdet, mul_zero]
  · -- row (m01, m11), |m01| ≤ |m11| : a = c, b = t c, t = m01 / m11
    have hne : m11 ≠ 0 := by
      intro h0
      rw [h0, abs_zero] at h1
      exact h1 (abs_nonneg _)
    simp only [Option.some.injEq, Prod.mk.injEq] at h
    obtain ⟨ha, hb⟩ := h
    have hu := inv_sqrt_unit (m01 / m11)
    subst ha hb
    refine ⟨?_, ?_, ?_⟩
    · linear_combination hu
    · have : m00 * (1 / Real.sqrt (1 + m01 / m11 * (m01 / m11))) - m01 * (m01 / m11 * (1 / Real.sqrt (1 + m01 / m11 * (m01 / m11))))
          = (1 / Real.sqrt (1 + m01 / m11 * (m01 / m11)) / m11) * (m00 * m11 - m01 * m01) := by
        field_simp
      rw [this, hdet, mul_zero]
    · field_simp
      ring
  · -- row (m01, m11), |m11| < |m01| : a = t c, b = c, t = m11 / m01
    have hne : m01 ≠ 0 := by
      intro h0
      rw [h0, abs_zero] at h5
      exact h5 (abs_nonneg _)
    simp only [Option.some.injEq, Prod.mk.injEq] at h
    obtain ⟨ha, hb⟩ := h
    have hu := inv_sqrt_unit (m11 / m01)
    subst ha hb
    refine ⟨?_, ?_, ?_⟩
    · linear_combination hu
    · have : m00 * (m11 / m01 * (1 / Real.sqrt (1 + m11 / m01 * (m11 / m01)))) - m01 * (1 / Real.sqrt (1 + m11 / m01 * (m11 / m01)))
          = (1 / Real.sqrt (1 + m11 / m01 * (m11 / m01)) / m01) * (m00 * m11 - m01 * m01) := by
        field_simp
      rw [this, hdet, mul_zero]
    · field_simp
      ring

/-! ## bilinear form, change of basis -/

/-- `uᵀ A w` -/
def bil (A : M3 ℝ) (u w : V3 ℝ) : ℝ := dot3 u (mulVec3 A w)

theorem bil_eq (A : M3 ℝ) (u w : V3 ℝ) :
    bil A u w = u.x * (A.a00 * w.x + A.a01 * w.y + A.a02 * w.z) + u.y * (A.a10 * w.x + A.a11 * w.y + A.a12 * w.z)
      + u.z * (A.a20 * w.x + A.a21 * w.y + A.a22 * w.z) := rfl

theorem bil_sym (A : M3 ℝ) (hs : Sym3 A) (u w : V3 ℝ) : bil A u w = bil A w u := by
  obtain ⟨h1, h2, h3⟩ := hs
  rw [bil_eq, bil_eq, h1, h2, h3]
  ring

theorem shift3_sym (A : M3 ℝ) (t : ℝ) (hs : Sym3 A) : Sym3 (shift3 A t) := hs

theorem bil_shift (A : M3 ℝ) (t : ℝ) (a b : V3 ℝ) : bil (shift3 A t) a b = bil A a b - t * dot3 a b := by
  rw [bil_eq, bil_eq, dot3_eq]
  unfold shift3
  simp only
  ring

theorem bil_comb_right (X : M3 ℝ) (c u v : V3 ℝ) (a b : ℝ) :
    bil X c (comb3 a u b v) = a * bil X c u - b * bil X c v := by
  rw [bil_eq, bil_eq, bil_eq]
  unfold comb3
  simp only
  ring

theorem dot3_comb_left (c u v : V3 ℝ) (a b : ℝ) : dot3 (comb3 a u b v) c = a * dot3 u c - b * dot3 v c := by
  rw [dot3_eq, dot3_eq, dot3_eq]
  unfold comb3
  simp only
  ring

theorem dot3_mulVec3 (X : M3 ℝ) (w c : V3 ℝ) : dot3 (mulVec3 X w) c = bil X c w := by
  unfold bil
  exact dot3_comm _ _

/-- `cᵀ (A - t I) e` for an eigenvector `e` of `l` -/
theorem bil_kernel (A : M3 ℝ) (l t : ℝ) (c e : V3 ℝ) (hk : mulVec3 (shift3 A l) e = ⟨0, 0, 0⟩) :
    bil (shift3 A t) c e = (l - t) * dot3 c e := by
  have h : bil (shift3 A t) c e = dot3 c (mulVec3 (shift3 A l) e) + (l - t) * dot3 c e := by
    unfold bil mulVec3 shift3
    simp only [dot3_eq]
    ring
  rw [h, hk, dot3_eq]
  simp only [mul_zero, add_zero, zero_add]

def ofCols (a b c : V3 ℝ) : M3 ℝ := ⟨a.x, b.x, c.x, a.y, b.y, c.y, a.z, b.z, c.z⟩

def transpose3 (A : M3 ℝ) : M3 ℝ := ⟨A.a00, A.a10, A.a20, A.a01, A.a11, A.a21, A.a02, A.a12, A.a22⟩

def mul3 (A B : M3 ℝ) : M3 ℝ :=
  ⟨A.a00 * B.a00 + A.a01 * B.a10 + A.a02 * B.a20, A.a00 * B.a01 + A.a01 * B.a11 + A.a02 * B.a21,
   A.a00 * B.a02 + A.a01 * B.a12 + A.a02 * B.a22,
   A.a10 * B.a00 + A.a11 * B.a10 + A.a12 * B.a20, A.a10 * B.a01 + A.a11 * B.a11 + A.a12 * B.a21,
   A.a10 * B.a02 + A.a11 * B.a12 + A.a12 * B.a22,
   A.a20 * B.a00 + A.a21 * B.a10 + A.a22 * B.a20, A.a20 * B.a01 + A.a21 * B.a11 + A.a22 * B.a21,
   A.a20 * B.a02 + A.a21 * B.a12 + A.a22 * B.a22⟩

theorem det3_mul3 (A B : M3 ℝ) : det3 (mul3 A B) = det3 A * det3 B := by
  unfold det3 mul3
  simp only
  ring

theorem det3_transpose3 (A : M3 ℝ) : det3 (transpose3 A) = det3 A := by
  unfold det3 transpose3
  simp only
  ring

theorem gram3 (a b c : V3 ℝ) :
    mul3 (transpose3 (ofCols a b c)) (ofCols a b c)
      = ⟨dot3 a a, dot3 a b, dot3 a c, dot3 b a, dot3 b b, dot3 b c, dot3 c a, dot3 c b, dot3 c c⟩ := by
  unfold mul3 transpose3 ofCols
  simp only [dot3_eq]

theorem conj3 (X : M3 ℝ) (a b c : V3 ℝ) :
    mul3 (transpose3 (ofCols a b c)) (mul3 X (ofCols a b c))
      = ⟨bil X a a, bil X a b, bil X a c, bil X b a, bil X b b, bil X b c, bil X c a, bil X c b, bil X c c⟩ := by
  unfold mul3 transpose3 ofCols
  simp only [bil_eq]

/-- an orthonormal frame `{u, v, e}` -/
structure Frame (e u v : V3 ℝ) : Prop where
  ee : norm2_3 e = 1
  uu : norm2_3 u = 1
  vv : norm2_3 v = 1
  ue : dot3 u e = 0
  ve : dot3 v e = 0
  uv : dot3 u v = 0
  vdef : v = cross e u

theorem frame_of_orthoComp (e : V3 ℝ) (he : norm2_3 e = 1) :
    Frame e (orthoComp Real.sqrt e).1 (orthoComp Real.sqrt e).2 := by
  obtain ⟨h1, h2, h3, h4, h5, h6⟩ := orthoComp_frame e he
  exact ⟨he, h1, h2, h3, h4, h5, h6⟩

/-- in an orthonormal frame the determinant of a matrix is the determinant of its matrix of bilinear values -/
theorem det3_in_frame (X : M3 ℝ) (e u v : V3 ℝ) (F : Frame e u v) :
    det3 X = det3 ⟨bil X u u, bil X u v, bil X u e, bil X v u, bil X v v, bil X v e, bil X e u, bil X e v, bil X e e⟩ := by
  have hg := gram3 u v e
  rw [← norm2_3_dot, ← norm2_3_dot, ← norm2_3_dot, F.uu, F.vv, F.ee, F.uv, F.ue, F.ve, dot3_comm v u, F.uv, dot3_comm e u,
    F.ue, dot3_comm e v, F.ve] at hg
  have hd : det3 (ofCols u v e) * det3 (ofCols u v e) = 1 := by
    have := congrArg det3 hg
    rw [det3_mul3, det3_transpose3] at this
    rw [this]
    unfold det3
    simp only
    ring
  rw [← conj3 X u v e, det3_mul3, det3_mul3, det3_transpose3]
  linear_combination (-det3 X) * hd

/-- **change of basis.** For a symmetric matrix `A` with unit eigenvector `e` for `l` and an orthonormal frame `{u, v, e}`:
`det (A - t I) = (l - t) · det M(t)` with the reduced matrix `M(t) = [[uᵀAu - t, uᵀAv], [uᵀAv, vᵀAv - t]]` of `eig1`. -/
theorem detM_factor (A : M3 ℝ) (hs : Sym3 A) (e u v : V3 ℝ) (F : Frame e u v) (l t : ℝ)
    (hk : mulVec3 (shift3 A l) e = ⟨0, 0, 0⟩) :
    det3 (shift3 A t) = (l - t) * ((bil A u u - t) * (bil A v v - t) - bil A u v * bil A u v) := by
  have hX := shift3_sym A t hs
  rw [det3_in_frame (shift3 A t) e u v F]
  rw [bil_kernel A l t u e hk, bil_kernel A l t v e hk, bil_kernel A l t e e hk,
    bil_sym _ hX e u, bil_sym _ hX e v, bil_kernel A l t u e hk, bil_kernel A l t v e hk,
    bil_sym _ hX v u, bil_shift, bil_shift, bil_shift]
  rw [← norm2_3_dot, ← norm2_3_dot, ← norm2_3_dot, F.ue, F.ve, F.uv, F.uu, F.vv, F.ee]
  unfold det3
  simp only
  ring

/-! ## `eig1` -/

/-- a unit kernel vector `(a, -b)` of the reduced matrix gives the unit eigenvector `a u - b v`, orthogonal to `e` -/
theorem kernel_of_reduced (A : M3 ℝ) (hs : Sym3 A) (e u v : V3 ℝ) (F : Frame e u v) (l t : ℝ)
    (hk : mulVec3 (shift3 A l) e = ⟨0, 0, 0⟩) (a b : ℝ) (hab : a * a + b * b = 1)
    (h1 : (bil A u u - t) * a - bil A u v * b = 0) (h2 : bil A u v * a - (bil A v v - t) * b = 0) :
    norm2_3 (comb3 a u b v) = 1 ∧ dot3 (comb3 a u b v) e = 0 ∧
      mulVec3 (shift3 A t) (comb3 a u b v) = ⟨0, 0, 0⟩ := by
  have hX := shift3_sym A t hs
  have hwe : dot3 (comb3 a u b v) e = 0 := by
    rw [dot3_comb_left, F.ue, F.ve]; ring
  refine ⟨?_, hwe, ?_⟩
  · rw [norm2_3_dot, dot3_comb_left, dot3_comm u, dot3_comm v, dot3_comb_left, dot3_comb_left,
      ← norm2_3_dot, ← norm2_3_dot, F.uu, F.vv, dot3_comm v u, F.uv]
    linear_combination hab
  · apply orth_zero e u _ (by rw [← F.vdef]; exact F.vv)
    · -- component along e
      rw [dot3_mulVec3, bil_sym _ hX, bil_kernel A l t _ e hk, hwe, mul_zero]
    · -- component along u
      rw [dot3_mulVec3, bil_comb_right, bil_shift, bil_shift, ← norm2_3_dot, F.uu, F.uv]
      linear_combination h1
    · -- component along v = e × u
      rw [← F.vdef, dot3_mulVec3, bil_comb_right, bil_shift, bil_shift, ← norm2_3_dot, F.vv, dot3_comm v u, F.uv,
        bil_sym A hs v u]
      linear_combination h2

/-- **eig1_spec.** For a symmetric matrix `A`, a unit eigenvector `e` of `l`, and a value `t` at which the reduced
matrix is singular, `eig1` returns a unit vector orthogonal to `e` in the kernel of `A - t I`. -/
theorem eig1_spec (A : M3 ℝ) (hs : Sym3 A) (e : V3 ℝ) (he : norm2_3 e = 1) (l t : ℝ)
    (hk : mulVec3 (shift3 A l) e = ⟨0, 0, 0⟩)
    (hdet : (bil A (orthoComp Real.sqrt e).1 (orthoComp Real.sqrt e).1 - t)
        * (bil A (orthoComp Real.sqrt e).2 (orthoComp Real.sqrt e).2 - t)
      - bil A (orthoComp Real.sqrt e).1 (orthoComp Real.sqrt e).2
        * bil A (orthoComp Real.sqrt e).1 (orthoComp Real.sqrt e).2 = 0) :
    norm2_3 (eig1 Real.sqrt A e t) = 1 ∧ dot3 (eig1 Real.sqrt A e t) e = 0 ∧
      mulVec3 (shift3 A t) (eig1 Real.sqrt A e t) = ⟨0, 0, 0⟩ := by
  have F := frame_of_orthoComp e he
  unfold eig1
  simp only [mv3_eq, dotv3_eq]
  generalize hc : eig1Coeffs Real.sqrt
        (dot3 (orthoComp Real.sqrt e).1 (mulVec3 A (orthoComp Real.sqrt e).1) - t)
        (dot3 (orthoComp Real.sqrt e).1 (mulVec3 A (orthoComp Real.sqrt e).2))
        (dot3 (orthoComp Real.sqrt e).2 (mulVec3 A (orthoComp Real.sqrt e).2) - t) = c
  match c, hc with
  | none, hc =>
    obtain ⟨z0, z1, z2⟩ := eig1Coeffs_none _ _ _ hc
    have z0' : bil A (orthoComp Real.sqrt e).1 (orthoComp Real.sqrt e).1 - t = 0 := z0
    have z1' : bil A (orthoComp Real.sqrt e).1 (orthoComp Real.sqrt e).2 = 0 := z1
    have z2' : bil A (orthoComp Real.sqrt e).2 (orthoComp Real.sqrt e).2 - t = 0 := z2
    have h := kernel_of_reduced A hs e _ _ F l t hk 1 0 (by ring) (by rw [z0', z1']; ring) (by rw [z1', z2']; ring)
    have hu : comb3 1 (orthoComp Real.sqrt e).1 0 (orthoComp Real.sqrt e).2 = (orthoComp Real.sqrt e).1 := by
      unfold comb3
      simp only [one_mul, zero_mul, sub_zero]
    rw [hu] at h
    exact h
  | some (a, b), hc =>
    obtain ⟨hab, k1, k2⟩ := eig1Coeffs_some _ _ _ a b hdet hc
    exact kernel_of_reduced A hs e _ _ F l t hk a b hab k1 k2

/-! ## the third vector, rank of `A - l I` at a simple eigenvalue, the sort of the pairs -/

/-- `(A a) × b + a × (A b) = (tr A · I - Aᵀ)(a × b)`: the cross product of eigenvectors for `l₁`, `l₂` of a symmetric
matrix is an eigenvector for `tr A - l₁ - l₂` -/
theorem cross_eigen (A : M3 ℝ) (hs : Sym3 A) (a b : V3 ℝ) (l1 l2 : ℝ)
    (ha : mulVec3 (shift3 A l1) a = ⟨0, 0, 0⟩) (hb : mulVec3 (shift3 A l2) b = ⟨0, 0, 0⟩) :
    mulVec3 (shift3 A (trace3 A - l1 - l2)) (cross a b) = ⟨0, 0, 0⟩ := by
  obtain ⟨s1, s2, s3⟩ := hs
  unfold mulVec3 dot3 shift3 at ha hb
  simp only [V3.mk.injEq] at ha hb
  obtain ⟨hax, hay, haz⟩ := ha
  obtain ⟨hbx, hby, hbz⟩ := hb
  rw [s1] at hay hby
  rw [s2, s3] at haz hbz
  rw [cross_eq]
  unfold mulVec3 dot3 shift3 trace3
  simp only [V3.mk.injEq]
  rw [s1, s2, s3]
  refine ⟨?_, ?_, ?_⟩
  · linear_combination (-b.z) * hay + b.y * haz + (-a.y) * hbz + a.z * hby
  · linear_combination (-b.x) * haz + b.z * hax + (-a.z) * hbx + a.x * hbz
  · linear_combination (-b.y) * hax + b.x * hay + (-a.x) * hby + a.y * hbx

/-- at a simple root `a` of the characteristic polynomial two rows of `A - a I` are linearly independent: the sum of
the three diagonal cofactors of `A - a I` is `(b - a)(c - a) ≠ 0` -/
theorem rank2_of_simple (S : M3 ℝ) (a b c : ℝ) (hf : ∀ t, charPoly3 S t = (t - a) * (t - b) * (t - c))
    (hb : b ≠ a) (hc : c ≠ a) :
    0 < norm2_3 (cross (row0 (shift3 S a)) (row1 (shift3 S a)))
      ∨ 0 < norm2_3 (cross (row0 (shift3 S a)) (row2 (shift3 S a)))
      ∨ 0 < norm2_3 (cross (row1 (shift3 S a)) (row2 (shift3 S a))) := by
  obtain ⟨v1, v2, _⟩ := vieta3_of_factor S a b c hf
  by_contra hcon
  simp only [not_or, not_lt] at hcon
  obtain ⟨n01, n02, n12⟩ := hcon
  have z01 := V3_zero_of_norm (le_antisymm n01 (norm2_3_nonneg _))
  have z02 := V3_zero_of_norm (le_antisymm n02 (norm2_3_nonneg _))
  have z12 := V3_zero_of_norm (le_antisymm n12 (norm2_3_nonneg _))
  rw [cross_eq] at z01 z02 z12
  simp only [row0, row1, row2, shift3, V3.mk.injEq] at z01 z02 z12
  have key : (b - a) * (c - a) = 0 := by
    linear_combination z12.1 - z02.2.1 + z01.2.2 + v2 - 2 * a * v1
  rcases mul_eq_zero.mp key with h | h
  · exact hb (by linarith)
  · exact hc (by linarith)

theorem sortPairs3_sorted (a b c : ℝ × V3 ℝ) (hab : a.1 ≤ b.1) (hbc : b.1 ≤ c.1) : sortPairs3 a b c = (a, b, c) := by
  unfold sortPairs3
  rw [if_neg (not_lt.mpr hab)]
  simp only
  rw [if_neg (not_lt.mpr hbc)]

theorem det3_zero_of_root (S : M3 ℝ) (a b c : ℝ) (hf : ∀ t, charPoly3 S t = (t - a) * (t - b) * (t - c)) :
    det3 (shift3 S a) = 0 ∧ det3 (shift3 S b) = 0 ∧ det3 (shift3 S c) = 0 := by
  have ha := hf a
  have hb := hf b
  have hc := hf c
  unfold charPoly3 at ha hb hc
  refine ⟨?_, ?_, ?_⟩
  · linear_combination (-1 : ℝ) * ha
  · linear_combination (-1 : ℝ) * hb
  · linear_combination (-1 : ℝ) * hc

/-- three (value, vector) pairs form an orthonormal eigen-decomposition of `S` -/
structure EigTriple (S : M3 ℝ) (l0 l1 l2 : ℝ) (v0 v1 v2 : V3 ℝ) : Prop where
  n0 : norm2_3 v0 = 1
  n1 : norm2_3 v1 = 1
  n2 : norm2_3 v2 = 1
  o01 : dot3 v0 v1 = 0
  o02 : dot3 v0 v2 = 0
  o12 : dot3 v1 v2 = 0
  k0 : mulVec3 (shift3 S l0) v0 = ⟨0, 0, 0⟩
  k1 : mulVec3 (shift3 S l1) v1 = ⟨0, 0, 0⟩
  k2 : mulVec3 (shift3 S l2) v2 = ⟨0, 0, 0⟩

/-- **trigVectors_spec.** If `l₀ ≤ l₁ ≤ l₂` are the roots of the characteristic polynomial of the symmetric matrix `S`
(with multiplicity) and the sign of `r` points to a simple extreme root, the trigonometric branch of the eigenvector
code returns the values unchanged together with an orthonormal set of eigenvectors. -/
theorem trigVectors_spec (S : M3 ℝ) (hs : Sym3 S) (l0 l1 l2 r : ℝ) (h01 : l0 ≤ l1) (h12 : l1 ≤ l2)
    (hf : ∀ t, charPoly3 S t = (t - l0) * (t - l1) * (t - l2))
    (hr : (¬ r < 0 → l1 < l2) ∧ (r < 0 → l0 < l1)) :
    (trigVectors Real.sqrt S (l0, l1, l2) r).1.1 = l0 ∧ (trigVectors Real.sqrt S (l0, l1, l2) r).2.1.1 = l1 ∧
      (trigVectors Real.sqrt S (l0, l1, l2) r).2.2.1 = l2 ∧
      EigTriple S l0 l1 l2 (trigVectors Real.sqrt S (l0, l1, l2) r).1.2 (trigVectors Real.sqrt S (l0, l1, l2) r).2.1.2
        (trigVectors Real.sqrt S (l0, l1, l2) r).2.2.2 := by
  obtain ⟨d0, d1, d2⟩ := det3_zero_of_root S l0 l1 l2 hf
  obtain ⟨vsum, _, _⟩ := vieta3_of_factor S l0 l1 l2 hf
  unfold trigVectors
  simp only [zero, Nat.cast_zero]
  by_cases hneg : r < 0
  · -- r < 0 : the smallest eigenvalue is simple
    have hlt := hr.2 hneg
    rw [if_pos hneg]
    rw [sortPairs3_sorted _ _ _ h01 h12]
    have hrank := rank2_of_simple S l0 l1 l2 hf (ne_of_gt hlt) (ne_of_gt (lt_of_lt_of_le hlt h12))
    obtain ⟨k0, n0⟩ := eig0_correct S l0 d0 hrank
    have F := frame_of_orthoComp _ n0
    have hM := detM_factor S hs _ _ _ F l0 l1 k0
    rw [d1] at hM
    have hM0 := (mul_eq_zero.mp hM.symm).resolve_left (sub_ne_zero.mpr (ne_of_lt hlt))
    obtain ⟨n1, o10, k1⟩ := eig1_spec S hs _ n0 l0 l1 k0 hM0
    have k2 := cross_eigen S hs _ _ l0 l1 k0 k1
    have htr : trace3 S - l0 - l1 = l2 := by unfold trace3; linarith
    rw [htr] at k2
    have o01 : dot3 (eig0 Real.sqrt S l0) (eig1 Real.sqrt S (eig0 Real.sqrt S l0) l1) = 0 := by
      rw [dot3_comm]; exact o10
    refine ⟨rfl, rfl, rfl, ⟨n0, n1, ?_, o01, ?_, ?_, k0, k1, k2⟩⟩
    · rw [norm2_3_cross, n0, n1, o01]; ring
    · rw [dot3_comm]; exact dot3_cross_left _ _
    · rw [dot3_comm]; exact dot3_cross_right _ _
  · -- r ≥ 0 : the largest eigenvalue is simple
    have hlt := hr.1 hneg
    rw [if_neg hneg]
    rw [sortPairs3_sorted _ _ _ h01 h12]
    have hf' : ∀ t, charPoly3 S t = (t - l2) * (t - l1) * (t - l0) := fun t => by rw [hf t]; ring
    have hrank := rank2_of_simple S l2 l1 l0 hf' (ne_of_lt hlt) (ne_of_lt (lt_of_le_of_lt h01 hlt))
    obtain ⟨k2, n2⟩ := eig0_correct S l2 d2 hrank
    have F := frame_of_orthoComp _ n2
    have hM := detM_factor S hs _ _ _ F l2 l1 k2
    rw [d1] at hM
    have hM0 := (mul_eq_zero.mp hM.symm).resolve_left (sub_ne_zero.mpr (ne_of_gt hlt))
    obtain ⟨n1, o12, k1⟩ := eig1_spec S hs _ n2 l2 l1 k2 hM0
    have k0 := cross_eigen S hs _ _ l1 l2 k1 k2
    have htr : trace3 S - l1 - l2 = l0 := by unfold trace3; linarith
    rw [htr] at k0
    refine ⟨rfl, rfl, rfl, ⟨?_, n1, n2, ?_, ?_, o12, k0, k1, k2⟩⟩
    · rw [norm2_3_cross, n1, n2, o12]; ring
    · exact dot3_cross_left _ _
    · exact dot3_cross_right _ _

end DV.C08
