/-
C10 helper lemmas, part 9: operation histories (`Model/C10Prog.lean`) refine the machine over natural numbers
modulo W; canonical hex form; constructor overloads.  Core Lean only.
-/
import DuneVerif.Model.C10Prog
import DuneVerif.Proofs.C10Arith
import DuneVerif.Proofs.C10Cmp
import DuneVerif.Proofs.C10Bit
import DuneVerif.Proofs.C10Shift
import DuneVerif.Proofs.C10Mul
import DuneVerif.Proofs.C10Div
import DuneVerif.Proofs.C10Conv

namespace DV.C10
open DV.C10.Gen

/-- both variables hold well-formed `n`-digit values -/
def WfRegs (n : Nat) (r : Regs) : Prop := Wf n r.a ∧ Wf n r.b

instance (n : Nat) (r : Regs) : Decidable (WfRegs n r) := by unfold WfRegs; exact inferInstance

theorem WfRegs.get {n : Nat} {r : Regs} (h : WfRegs n r) (d : Reg) : Wf n (r.get d) := by
  cases d
  · exact h.1
  · exact h.2

theorem WfRegs.set {n : Nat} {r : Regs} (h : WfRegs n r) (d : Reg) {v : List Nat} (hv : Wf n v) :
    WfRegs n (r.set d v) := by
  cases d
  · exact ⟨hv, h.2⟩
  · exact ⟨h.1, hv⟩

theorem abs_get (r : Regs) (d : Reg) : r.abs.get d = val (r.get d) := by cases d <;> rfl

theorem abs_set (r : Regs) (d : Reg) (v : List Nat) : (r.set d v).abs = r.abs.set d (val v) := by
  cases d <;> rfl

/-- a model result matches a spec result: same abstraction, and a value result is well-formed -/
def ResOk (n : Nat) (res : Res) (spec : Option Nat) : Prop :=
  res.abs = spec ∧ ∀ v, res = .ok v → Wf n v

theorem resOk_ok {n : Nat} {v : List Nat} {s : Nat} (hv : Wf n v) (hs : val v = s) : ResOk n (.ok v) (some s) :=
  ⟨by simp [Res.abs, hs], fun w hw => by cases hw; exact hv⟩

theorem applyBin_spec {k : Nat} (o : BinOp) {a x : List Nat} (ha : Wf (ndigits k) a) (hx : Wf (ndigits k) x) :
    ResOk (ndigits k) (applyBin k o a x) (specBin (2 ^ (bits * ndigits k)) o (val a) (val x)) := by
  rw [← W_eq]
  cases o
  · exact resOk_ok (add_wf ha hx) (add_val' ha hx)
  · exact resOk_ok (sub_wf ha hx) (sub_val' ha hx)
  · exact resOk_ok (mul_spec ha hx).1 (mul_spec ha hx).2
  · by_cases h : val x = 0
    · simp only [applyBin, specBin, div_zero' hx h, h, if_true]
      exact ⟨rfl, fun v hv => by cases hv⟩
    · obtain ⟨q, hq, hwf, hval⟩ := div_spec ha hx h
      simp only [applyBin, specBin, hq, h, if_false]
      exact resOk_ok hwf hval
  · by_cases h : val x = 0
    · simp only [applyBin, specBin, mod_zero' hx h, h, if_true]
      exact ⟨rfl, fun v hv => by cases hv⟩
    · obtain ⟨q, hq, hwf, hval⟩ := mod_spec ha hx h
      simp only [applyBin, specBin, hq, h, if_false]
      exact resOk_ok hwf hval
  · exact resOk_ok ⟨by rw [band_length a x (by rw [ha.1, hx.1]), ha.1], band_digs a x ha.2 hx.2⟩
      (band_val'' a x (by rw [ha.1, hx.1]) ha.2 hx.2)
  · exact resOk_ok ⟨by rw [bor_length a x (by rw [ha.1, hx.1]), ha.1], bor_digs a x ha.2 hx.2⟩
      (bor_val'' a x (by rw [ha.1, hx.1]) ha.2 hx.2)
  · exact resOk_ok ⟨by rw [bxor_length a x (by rw [ha.1, hx.1]), ha.1], bxor_digs a x ha.2 hx.2⟩
      (bxor_val'' a x (by rw [ha.1, hx.1]) ha.2 hx.2)

theorem commit_spec {n : Nat} {r : Regs} (hr : WfRegs n r) (d : Reg) {res : Res} {spec : Option Nat}
    (h : ResOk n res spec) :
    ((commit r d res).1.abs, (commit r d res).2.abs) = scommit r.abs d spec ∧ WfRegs n (commit r d res).1 := by
  obtain ⟨h1, h2⟩ := h
  cases res with
  | ok v =>
    have : spec = some (val v) := by rw [← h1]; rfl
    subst this
    exact ⟨by simp [commit, scommit, abs_set, Res.abs], hr.set d (h2 v rfl)⟩
  | mathError =>
    have : spec = none := by rw [← h1]; rfl
    subst this
    exact ⟨by simp [commit, scommit, Res.abs], hr⟩

/-- one statement: the model step abstracts to the spec step, and keeps the variables well-formed -/
theorem step_refines {k : Nat} {r : Regs} (hr : WfRegs (ndigits k) r) (op : POp) :
    (step k r op).map (fun p => (p.1.abs, p.2.abs)) = specStep (ndigits k) r.abs op ∧
    ∀ r' o, step k r op = some (r', o) → WfRegs (ndigits k) r' := by
  unfold step specStep
  by_cases hv : op.valid (ndigits k) = true
  · simp only [hv, Bool.not_true, Bool.false_eq_true, if_false]
    have key : ∀ (d : Reg) (res : Res) (spec : Option Nat), ResOk (ndigits k) res spec →
        (Option.map (fun p : Regs × Res => (p.1.abs, p.2.abs)) (some (commit r d res)) =
          some (scommit r.abs d spec)) ∧
        ∀ r' o, some (commit r d res) = some (r', o) → WfRegs (ndigits k) r' := by
      intro d res spec h
      obtain ⟨e, w⟩ := commit_spec hr d h
      refine ⟨by simp only [Option.map_some, e], fun r' o he => ?_⟩
      have e2 : commit r d res = (r', o) := Option.some.inj he
      rw [e2] at w
      exact w
    cases op with
    | bin o d s =>
      simp only [abs_get]
      exact key d _ _ (applyBin_spec o (hr.get d) (hr.get s))
    | binU o d y =>
      have hy : y < 2 ^ 64 := by simpa [POp.valid] using hv
      simp only [abs_get]
      have h := applyBin_spec (k := k) o (hr.get d) (assign_wf' (ndigits k) y)
      rw [assign_val' _ hy, W_eq] at h
      exact key d _ _ h
    | incr d =>
      simp only [abs_get]
      exact key d _ _ (resOk_ok (incr_wf (hr.get d)) (by rw [incr_val' (hr.get d), W_eq]))
    | bnot d =>
      simp only [abs_get]
      have hd := hr.get d
      exact key d _ _ (resOk_ok ⟨by rw [bnot_length, hd.1], bnot_digs _⟩
        (by rw [bnot_val'' _ hd.2, hd.1, W_eq]))
    | shl d s =>
      have hs : s < bits * ndigits k := by simpa [POp.valid] using hv
      simp only [abs_get]
      exact key d _ _ (resOk_ok (shl_spec (hr.get d) hs).1 (by rw [(shl_spec (hr.get d) hs).2, W_eq]))
    | shr d s =>
      simp only [abs_get]
      exact key d _ _ (resOk_ok (shr_spec (hr.get d) s).1 (shr_spec (hr.get d) s).2)
    | copy d s =>
      simp only [abs_get]
      exact key d _ _ (resOk_ok (hr.get s) rfl)
  · simp only [hv, Bool.not_false, if_true, Option.map_none]
    exact ⟨trivial, fun r' o h => by cases h⟩

/-- all histories: induction over the program -/
theorem run_refines {k : Nat} : ∀ (p : List POp) (r : Regs), WfRegs (ndigits k) r →
    (run k r p).map (fun q => (q.1.map Res.abs, q.2.abs)) = specRun (ndigits k) r.abs p ∧
    ∀ os r', run k r p = some (os, r') → WfRegs (ndigits k) r'
  | [], r, hr => ⟨rfl, fun os r' h => by cases h; exact hr⟩
  | op :: ops, r, hr => by
    obtain ⟨h1, h2⟩ := step_refines hr op
    unfold run specRun
    rw [← h1]
    cases hs : step k r op with
    | none => exact ⟨rfl, fun os r' h => by cases h⟩
    | some p =>
      obtain ⟨r1, o1⟩ := p
      have hr1 := h2 r1 o1 hs
      obtain ⟨i1, i2⟩ := run_refines ops r1 hr1
      simp only [Option.map_some]
      rw [← i1]
      cases hq : run k r1 ops with
      | none => exact ⟨rfl, fun os r' h => by cases h⟩
      | some q =>
        obtain ⟨os, r2⟩ := q
        refine ⟨rfl, fun os' r' h => ?_⟩
        cases h
        exact i2 os r2 hq

/-! ### canonical hex form -/

theorem parseFrom_zero_cons (cs : List Char) : parseFrom 0 ('0' :: cs) = parseFrom 0 cs := by
  show (List.foldlM _ 0 ('0' :: cs)) = _
  rw [List.foldlM_cons]
  rfl

theorem parseFrom_dropZeros : ∀ (cs : List Char), parseFrom 0 (cs.dropWhile (· == '0')) = parseFrom 0 cs
  | [] => rfl
  | c :: cs => by
    by_cases hc : c = '0'
    · subst hc
      rw [List.dropWhile_cons_of_pos (by rfl), parseFrom_dropZeros cs, parseFrom_zero_cons]
    · rw [List.dropWhile_cons_of_neg (by simpa using hc)]

theorem parseFrom_stripZeros (cs : List Char) : parseFrom 0 (stripZeros cs) = parseFrom 0 cs := by
  unfold stripZeros
  have hd := parseFrom_dropZeros cs
  split
  · rename_i hnil
    rw [hnil] at hd
    rw [← hd]
    rfl
  · rename_i l hne
    exact hd

/-! ### constructor overloads -/

theorem construct_signed_neg (n : Nat) (t : IntTy) (y : Int) (hs : t.signed = true) (hy : y < 0) :
    construct n t y = .negative := by
  simp [construct, hs, ofSigned, hy]

theorem construct_nonneg (n : Nat) (t : IntTy) (y : Int) (h0 : 0 ≤ y) :
    construct n t y = .ok (assign n y.toNat) := by
  unfold construct ofSigned
  split
  · simp [Int.not_lt.2 h0]
  · rfl

end DV.C10
