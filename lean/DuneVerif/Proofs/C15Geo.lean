/-
C15 — lemmas about the generated slot geometry of Dune::Pool (Gen/C15.lean) and about slot addresses.
Core Lean only.
-/
import DuneVerif.Model.C15

namespace DV.C15
open DV.C15.Gen

/-- the rounding idiom of poolallocator.hh: `(x % a == 0) ? x : (x / a + 1) * a` -/
def roundUp (x a : Nat) : Nat := if x % a = 0 then x else (x / a + 1) * a

theorem roundUp_dvd (x a : Nat) : a ∣ roundUp x a := by
  unfold roundUp
  split
  · exact Nat.dvd_of_mod_eq_zero ‹_›
  · exact Nat.dvd_mul_left _ _

theorem le_roundUp (x : Nat) {a : Nat} (ha : 0 < a) : x ≤ roundUp x a := by
  unfold roundUp
  split
  · exact Nat.le_refl _
  · have h1 := Nat.div_add_mod' x a
    have h2 := Nat.mod_lt x ha
    rw [Nat.add_mul, Nat.one_mul]
    omega

theorem roundUp_lt (x : Nat) {a : Nat} (ha : 0 < a) : roundUp x a < x + a := by
  unfold roundUp
  split
  · omega
  · have h1 := Nat.div_add_mod' x a
    have h2 : 0 < x % a := Nat.pos_of_ne_zero ‹_›
    rw [Nat.add_mul, Nat.one_mul]
    omega

/-- `roundUp x a` is the least multiple of `a` that is `≥ x` -/
theorem roundUp_le_of_dvd {x a m : Nat} (_ha : 0 < a) (hm : a ∣ m) (hx : x ≤ m) : roundUp x a ≤ m := by
  unfold roundUp
  split
  · exact hx
  · rename_i hne
    obtain ⟨k, rfl⟩ := hm
    have hlt : x < a * k := by
      rcases Nat.lt_or_eq_of_le hx with h | h
      · exact h
      · exact absurd (by rw [h]; exact Nat.mul_mod_right a k) hne
    have : x / a < k := Nat.div_lt_of_lt_mul hlt
    calc (x / a + 1) * a ≤ k * a := Nat.mul_le_mul_right a this
      _ = a * k := Nat.mul_comm _ _

theorem roundUp_mono {x y a : Nat} (ha : 0 < a) (h : x ≤ y) : roundUp x a ≤ roundUp y a :=
  roundUp_le_of_dvd ha (roundUp_dvd y a) (Nat.le_trans h (le_roundUp y ha))

/-! ### the generated definitions in terms of `roundUp` -/

theorem alignedSize_eq (sz al s : Nat) : alignedSize sz al s = roundUp (unionSize sz al s) (alignment sz al s) := rfl
theorem chunkSize_eq (sz al s : Nat) : chunkSize sz al s = roundUp (size sz al s) (alignment sz al s) := rfl
theorem elements_eq (sz al s : Nat) : elements sz al s = chunkSize sz al s / alignedSize sz al s := rfl

theorem alignment_pos {al : Nat} (sz s : Nat) (hal : 0 < al) : 0 < alignment sz al s := by
  unfold alignment; exact Nat.lcm_pos hal (by decide)

theorem le_unionSize (sz al s : Nat) : sz ≤ unionSize sz al s ∧ refSize ≤ unionSize sz al s := by
  unfold unionSize; split <;> simp [refSize] at * <;> omega

theorem unionSize_le_size (sz al s : Nat) : unionSize sz al s ≤ size sz al s := by
  unfold size
  split
  · rename_i h
    unfold unionSize; split <;> omega
  · exact Nat.le_refl _

theorem alignedSize_le_chunkSize {al : Nat} (sz s : Nat) (hal : 0 < al) : alignedSize sz al s ≤ chunkSize sz al s := by
  rw [alignedSize_eq, chunkSize_eq]
  exact roundUp_mono (alignment_pos sz s hal) (unionSize_le_size sz al s)

theorem alignedSize_pos {al : Nat} (sz s : Nat) (hal : 0 < al) : 0 < alignedSize sz al s := by
  have h1 := (le_unionSize sz al s).2
  have h2 := le_roundUp (unionSize sz al s) (alignment_pos sz s hal)
  rw [alignedSize_eq]
  have : 0 < refSize := by decide
  omega

/-- for a power-of-two `alignof(T)` the slot alignment `lcm(alignof T, alignof(void*))` is the larger of the two -/
theorem alignment_pow2 (sz k s : Nat) : alignment sz (2 ^ k) s = max (2 ^ k) refAlign := by
  unfold alignment
  have h8 : refAlign = 2 ^ 3 := by decide
  rw [h8]
  rcases Nat.le_total k 3 with h | h
  · have hd : 2 ^ k ∣ 2 ^ 3 := Nat.pow_dvd_pow 2 h
    rw [Nat.lcm_comm, Nat.lcm_eq_left hd]
    have : 2 ^ k ≤ 2 ^ 3 := Nat.le_of_dvd (by decide) hd
    omega
  · have hd : 2 ^ 3 ∣ 2 ^ k := Nat.pow_dvd_pow 2 h
    rw [Nat.lcm_eq_left hd]
    have : 2 ^ 3 ≤ 2 ^ k := Nat.le_of_dvd (Nat.pow_pos (by decide)) hd
    omega

/-! ### slot addresses -/

theorem slot_inside {g : Geo} (hfit : g.elements * g.alignedSize ≤ g.chunkSize) {i : Nat} (hi : i < g.elements) :
    i * g.alignedSize + g.alignedSize ≤ g.chunkSize := by
  have : (i + 1) * g.alignedSize ≤ g.elements * g.alignedSize := Nat.mul_le_mul_right _ hi
  rw [Nat.add_mul, Nat.one_mul] at this
  omega

theorem slots_apart {a i j : Nat} (h : i < j) : i * a + a ≤ j * a := by
  have : (i + 1) * a ≤ j * a := Nat.mul_le_mul_right _ h
  rw [Nat.add_mul, Nat.one_mul] at this
  exact this

end DV.C15
