import Mathlib.Analysis.Matrix.Spectrum
import Mathlib.LinearAlgebra.Matrix.Notation
import Mathlib.Tactic.FinCases
import Mathlib.Tactic.Positivity
import DuneVerif.Proofs.C08Ev3Roots
/-!
# C08 — the 3x3 path: real spectrum of a symmetric matrix, `|r| ≤ 1`, the trigonometric values are the
whole spectrum (with multiplicity), and the sign of `r` tells which extreme eigenvalue is simple
-/
namespace DV.C08

/-! ## 1. a real symmetric 3x3 matrix has a real spectrum (Mathlib's spectral theorem) -/

/-- the model matrix as a Mathlib matrix -/
def toMat (A : M3 ℝ) : Matrix (Fin 3) (Fin 3) ℝ :=
  !![A.a00, A.a01, A.a02; A.a10, A.a11, A.a12; A.a20, A.a21, A.a22]

theorem toMat_isHermitian (A : M3 ℝ) (hs : Sym3 A) : (toMat A).IsHermitian := by
  obtain ⟨h1, h2, h3⟩ := hs
  unfold Matrix.IsHermitian toMat
  rw [h1, h2, h3]
  ext i j
  fin_cases i <;> fin_cases j <;> simp [Matrix.conjTranspose_apply]

theorem charPoly3_eq_eval (A : M3 ℝ) (t : ℝ) : charPoly3 A t = (toMat A).charpoly.eval t := by
  rw [Matrix.eval_charpoly, Matrix.det_fin_three]
  unfold charPoly3 det3 shift3 toMat
  simp [Matrix.scalar_apply, Matrix.diagonal]
  ring

theorem sym3_real_spectrum (A : M3 ℝ) (hs : Sym3 A) :
    ∃ x y z : ℝ, ∀ t : ℝ, charPoly3 A t = (t - x) * (t - y) * (t - z) := by
  have hA := toMat_isHermitian A hs
  refine ⟨hA.eigenvalues 0, hA.eigenvalues 1, hA.eigenvalues 2, ?_⟩
  intro t
  rw [charPoly3_eq_eval, hA.charpoly_eq, Polynomial.eval_prod, Fin.prod_univ_three]
  simp

/-! ## 2. Vieta -/

theorem vieta3_of_factor (A : M3 ℝ) (x y z : ℝ)
    (h : ∀ t, charPoly3 A t = (t - x) * (t - y) * (t - z)) :
    x + y + z = A.a00 + A.a11 + A.a22 ∧
    x * y + x * z + y * z = (A.a00 * A.a11 - A.a01 * A.a10) + (A.a00 * A.a22 - A.a02 * A.a20)
      + (A.a11 * A.a22 - A.a12 * A.a21) ∧
    x * y * z = det3 A := by
  have h0 := h 0
  have h1 := h 1
  have h2 := h (-1)
  unfold charPoly3 det3 shift3 at h0 h1 h2
  simp only at h0 h1 h2
  refine ⟨?_, ?_, ?_⟩
  · linear_combination (1 / 2) * h1 + (1 / 2) * h2 - h0
  · linear_combination (-1 / 2) * h1 + (1 / 2) * h2
  · unfold det3
    linear_combination h0

/-- Vieta for a monic cubic given by its coefficients -/
theorem cubic_vieta (a b c u v w : ℝ)
    (h : ∀ t : ℝ, (t - a) * (t - b) * (t - c) = t ^ 3 - u * t ^ 2 + v * t - w) :
    a + b + c = u ∧ a * b + a * c + b * c = v ∧ a * b * c = w := by
  have h0 := h 0
  have h1 := h 1
  have h2 := h (-1)
  refine ⟨?_, ?_, ?_⟩
  · linear_combination (-1 / 2) * h1 + (-1 / 2) * h2 + h0
  · linear_combination (1 / 2) * h1 - (1 / 2) * h2
  · linear_combination (-1 : ℝ) * h0

/-! ## 3. `|r| ≤ 1` before clamping -/

/-- the discriminant of a depressed cubic with three real roots is non-negative -/
theorem disc_nonneg (a b c e2 e3 : ℝ) (h1 : a + b + c = 0) (h2 : a * b + a * c + b * c = e2)
    (h3 : a * b * c = e3) : 0 ≤ -4 * e2 ^ 3 - 27 * e3 ^ 2 := by
  have hc : c = -a - b := by linarith
  have key : -4 * e2 ^ 3 - 27 * e3 ^ 2 = ((a - b) * (b - c) * (c - a)) ^ 2 := by
    rw [← h2, ← h3, hc]
    ring
  rw [key]
  exact sq_nonneg _

theorem p1Of_eq (S : M3 ℝ) : p1Of S = S.a01 * S.a01 + S.a02 * S.a02 + S.a12 * S.a12 := by
  unfold p1Of Gen.ev3_p1
  ring

/-- the quantities of the trigonometric branch -/
theorem trig_setup (S : M3 ℝ) (hp1pos : 0 < p1Of S) :
    qOf S = (S.a00 + S.a11 + S.a22) / 3 ∧ 0 < pOf S ∧
    6 * pOf S ^ 2 = (S.a00 - qOf S) * (S.a00 - qOf S) + (S.a11 - qOf S) * (S.a11 - qOf S)
      + (S.a22 - qOf S) * (S.a22 - qOf S) + 2 * (S.a01 * S.a01 + S.a02 * S.a02 + S.a12 * S.a12) ∧
    det3 (shift3 S (qOf S)) = 2 * rawR S * pOf S ^ 3 := by
  have hq : qOf S = (S.a00 + S.a11 + S.a22) / 3 := gen_q3 _ _ _
  have hp1 := p1Of_eq S
  have hp2 : p2Of S = (S.a00 - qOf S) * (S.a00 - qOf S) + (S.a11 - qOf S) * (S.a11 - qOf S)
      + (S.a22 - qOf S) * (S.a22 - qOf S) + 2 * (S.a01 * S.a01 + S.a02 * S.a02 + S.a12 * S.a12) := by
    unfold p2Of Gen.ev3_p2
    rw [hp1]
    push_cast
    ring
  have hp2pos : 0 < p2Of S := by
    rw [hp2, ← hp1]
    nlinarith [mul_self_nonneg (S.a00 - qOf S), mul_self_nonneg (S.a11 - qOf S), mul_self_nonneg (S.a22 - qOf S)]
  have hpdef : pOf S = Real.sqrt (p2Of S / 6) := by
    unfold pOf Gen.ev3_p
    push_cast
    rfl
  have hppos : 0 < pOf S := by
    rw [hpdef]
    exact Real.sqrt_pos.mpr (by positivity)
  have hpsq : 6 * pOf S ^ 2 = p2Of S := by
    rw [hpdef, Real.sq_sqrt (by positivity)]
    ring
  have hdet : 2 * rawR S = (1 / pOf S) ^ 3 * det3 (shift3 S (qOf S)) := by
    rw [← det3_smul3]
    unfold rawR Gen.ev3_r Gen.ev3_Bscale
    push_cast
    ring
  have hp3 : pOf S ^ 3 * (1 / pOf S) ^ 3 = 1 := by
    have := hppos.ne'
    field_simp
  refine ⟨hq, hppos, by rw [hpsq, hp2], ?_⟩
  linear_combination (-(pOf S ^ 3)) * hdet - det3 (shift3 S (qOf S)) * hp3

/-- for a symmetric matrix with `q = tr/3` and `6 p² = ‖A - qI‖_F²`, the characteristic polynomial in the shifted
variable is the depressed cubic `s³ - 3 p² s - det (A - qI)` -/
theorem charPoly3_shift_cubic (A : M3 ℝ) (hs : Sym3 A) (q p s : ℝ)
    (hq : q = (A.a00 + A.a11 + A.a22) / 3)
    (hp : 6 * p ^ 2 = (A.a00 - q) * (A.a00 - q) + (A.a11 - q) * (A.a11 - q) + (A.a22 - q) * (A.a22 - q)
      + 2 * (A.a01 * A.a01 + A.a02 * A.a02 + A.a12 * A.a12)) :
    charPoly3 A (q + s) = s ^ 3 - 3 * p ^ 2 * s - det3 (shift3 A q) := by
  obtain ⟨s10, s20, s21⟩ := hs
  unfold charPoly3 det3 shift3
  simp only
  rw [s10, s20, s21]
  subst hq
  linear_combination (s / 2) * hp

theorem rawR_abs_le_one (S : M3 ℝ) (hs : Sym3 S) (hp1 : 0 < p1Of S) : -1 ≤ rawR S ∧ rawR S ≤ 1 := by
  obtain ⟨hq, hppos, hpsq, hD⟩ := trig_setup S hp1
  obtain ⟨x, y, z, hf⟩ := sym3_real_spectrum S hs
  have hc : ∀ s : ℝ, (s - (x - qOf S)) * (s - (y - qOf S)) * (s - (z - qOf S))
      = s ^ 3 - 0 * s ^ 2 + (-(3 * pOf S ^ 2)) * s - 2 * rawR S * pOf S ^ 3 := by
    intro s
    have h1 := hf (qOf S + s)
    rw [charPoly3_shift_cubic S hs (qOf S) (pOf S) s hq hpsq, hD] at h1
    linear_combination (-1 : ℝ) * h1
  obtain ⟨v1, v2, v3⟩ := cubic_vieta _ _ _ _ _ _ hc
  have hdisc := disc_nonneg _ _ _ _ _ v1 v2 v3
  have h6 : 0 < 108 * pOf S ^ 6 := by positivity
  have hmul : 0 ≤ 108 * pOf S ^ 6 * (1 - rawR S ^ 2) := by
    have e : 108 * pOf S ^ 6 * (1 - rawR S ^ 2)
        = -4 * (-(3 * pOf S ^ 2)) ^ 3 - 27 * (2 * rawR S * pOf S ^ 3) ^ 2 := by ring
    rw [e]
    exact hdisc
  have hr2 : rawR S ^ 2 ≤ 1 := by
    have := nonneg_of_mul_nonneg_right hmul h6
    linarith
  exact abs_le.mp ((sq_le_one_iff_abs_le_one _).mp hr2)

/-! ## 4. the returned values are the whole spectrum, with multiplicity -/

theorem cswap_prod (t : ℝ) (p : ℝ × ℝ) : (t - (cswap p).1) * (t - (cswap p).2) = (t - p.1) * (t - p.2) := by
  unfold cswap
  split_ifs with h
  · ring
  · rfl

theorem sort3_prod (t a b c : ℝ) :
    (t - (sort3 a b c).1) * (t - (sort3 a b c).2.1) * (t - (sort3 a b c).2.2) = (t - a) * (t - b) * (t - c) := by
  unfold sort3
  simp only
  have h1 := cswap_prod t ((cswap (a, b)).1, (cswap ((cswap (a, b)).2, c)).1)
  have h2 := cswap_prod t ((cswap (a, b)).2, c)
  have h3 := cswap_prod t (a, b)
  simp only at h1 h2 h3
  rw [h1, mul_assoc, h2, ← mul_assoc, h3]

theorem sin_two_pi_div_three_sq : Real.sin (2 * Real.pi / 3) ^ 2 = 3 / 4 := by
  have h := Real.sin_sq_add_cos_sq (2 * Real.pi / 3)
  rw [cos_two_pi_div_three] at h
  linear_combination h

/-- the elementary symmetric functions of `2 cos φ`, `2 cos (φ ± 2π/3)` -/
theorem trig_sym_funcs (φ : ℝ) :
    (2 * Real.cos φ) * (2 * Real.cos (φ + 2 * Real.pi / 3)) + (2 * Real.cos φ) * (2 * Real.cos (φ - 2 * Real.pi / 3))
      + (2 * Real.cos (φ + 2 * Real.pi / 3)) * (2 * Real.cos (φ - 2 * Real.pi / 3)) = -3 ∧
    (2 * Real.cos φ) * (2 * Real.cos (φ + 2 * Real.pi / 3)) * (2 * Real.cos (φ - 2 * Real.pi / 3))
      = 2 * Real.cos (3 * φ) := by
  have hσ := sin_two_pi_div_three_sq
  have hs := Real.sin_sq_add_cos_sq φ
  rw [Real.cos_add, Real.cos_sub, cos_two_pi_div_three, Real.cos_three_mul]
  constructor
  · linear_combination (-4 * Real.sin φ ^ 2) * hσ + (-3 : ℝ) * hs
  · linear_combination (-8 * Real.cos φ * Real.sin φ ^ 2) * hσ + (-6 * Real.cos φ) * hs

theorem p1Of_pos_of_not_diag (eps : ℝ) (he : 0 ≤ eps) (S : M3 ℝ) (hb : ¬ DiagBranch eps S) : 0 < p1Of S := by
  unfold DiagBranch Gen.ev3_diagThreshold at hb
  linarith [not_le.mp hb]

theorem impl_trig_r (eps : ℝ) (S : M3 ℝ) (hb : ¬ DiagBranch eps S) :
    (eigenValues3dImpl Real.sqrt Real.arccos Real.cos Real.pi eps S).2 =
      clampK (rawR S) Gen.ev3_clampLo Gen.ev3_clampHi := by
  unfold DiagBranch p1Of at hb
  unfold eigenValues3dImpl
  simp only [if_neg hb, det3m_eq]
  rfl

theorem clamp_rawR (S : M3 ℝ) (hr : -1 ≤ rawR S ∧ rawR S ≤ 1) :
    clampK (rawR S) Gen.ev3_clampLo Gen.ev3_clampHi = rawR S := by
  apply clampK_id
  · unfold Gen.ev3_clampLo; push_cast; exact hr.1
  · unfold Gen.ev3_clampHi; push_cast; exact hr.2

/-- the three trigonometric values, before sorting, as `q + p (2 cos θ)` -/
theorem trig_values (S : M3 ℝ) :
    Gen.ev3_lam0 Real.cos (qOf S) (pOf S) (phiOf S) Real.pi
      = qOf S + pOf S * (2 * Real.cos (phiOf S + 2 * Real.pi / 3)) ∧
    Gen.ev3_lam1 (qOf S) (Gen.ev3_lam0 Real.cos (qOf S) (pOf S) (phiOf S) Real.pi)
      (Gen.ev3_lam2 Real.cos (qOf S) (pOf S) (phiOf S) Real.pi)
      = qOf S + pOf S * (2 * Real.cos (phiOf S - 2 * Real.pi / 3)) ∧
    Gen.ev3_lam2 Real.cos (qOf S) (pOf S) (phiOf S) Real.pi = qOf S + pOf S * (2 * Real.cos (phiOf S)) := by
  have e2 : Gen.ev3_lam2 Real.cos (qOf S) (pOf S) (phiOf S) Real.pi = qOf S + pOf S * (2 * Real.cos (phiOf S)) := by
    unfold Gen.ev3_lam2; push_cast; ring
  have e0 : Gen.ev3_lam0 Real.cos (qOf S) (pOf S) (phiOf S) Real.pi
      = qOf S + pOf S * (2 * Real.cos (phiOf S + 2 * Real.pi / 3)) := by
    unfold Gen.ev3_lam0; push_cast; ring
  refine ⟨e0, ?_, e2⟩
  rw [e0, e2]
  unfold Gen.ev3_lam1
  push_cast
  linear_combination (-2 * pOf S) * cos_sum_three (phiOf S)

/-- In the trigonometric branch the three returned values are all the roots of the characteristic polynomial,
with multiplicity — no hypothesis on `r`. -/
theorem trig_factor (eps : ℝ) (he : 0 ≤ eps) (S : M3 ℝ) (hs : Sym3 S) (hb : ¬ DiagBranch eps S) :
    ∀ t : ℝ, charPoly3 S t =
      (t - (eigenValues3dImpl Real.sqrt Real.arccos Real.cos Real.pi eps S).1.1)
        * (t - (eigenValues3dImpl Real.sqrt Real.arccos Real.cos Real.pi eps S).1.2.1)
        * (t - (eigenValues3dImpl Real.sqrt Real.arccos Real.cos Real.pi eps S).1.2.2) := by
  have hp1pos := p1Of_pos_of_not_diag eps he S hb
  obtain ⟨hq, hppos, hpsq, hD⟩ := trig_setup S hp1pos
  have hr := rawR_abs_le_one S hs hp1pos
  have hphi : 3 * phiOf S = Real.arccos (rawR S) := by
    unfold phiOf Gen.ev3_phi
    rw [clamp_rawR S hr]
    push_cast
    ring
  have hcos3 : Real.cos (3 * phiOf S) = rawR S := by
    rw [hphi, Real.cos_arccos hr.1 hr.2]
  obtain ⟨e0, e1, e2⟩ := trig_values S
  obtain ⟨hs2, hs3⟩ := trig_sym_funcs (phiOf S)
  rw [hcos3] at hs3
  have hs1 := cos_sum_three (phiOf S)
  intro t
  rw [impl_trig eps S hb, sort3_prod, e1, e0, e2]
  have h1 := charPoly3_shift_cubic S hs (qOf S) (pOf S) (t - qOf S) hq hpsq
  rw [show qOf S + (t - qOf S) = t by ring, hD] at h1
  rw [h1]
  linear_combination (2 * pOf S * (t - qOf S) ^ 2) * hs1 - (pOf S ^ 2 * (t - qOf S)) * hs2 + (pOf S ^ 3) * hs3

/-- the same for an exactly diagonal matrix (any `sqrt`, `acos`, `cos`, `pi`) -/
theorem diag_factor (sqrt acos cos : ℝ → ℝ) (pi eps : ℝ) (he : 0 ≤ eps) (S : M3 ℝ)
    (hd : S.a01 = 0 ∧ S.a02 = 0 ∧ S.a12 = 0 ∧ S.a10 = 0 ∧ S.a20 = 0 ∧ S.a21 = 0) :
    ∀ t : ℝ, charPoly3 S t =
      (t - (eigenValues3dImpl sqrt acos cos pi eps S).1.1)
        * (t - (eigenValues3dImpl sqrt acos cos pi eps S).1.2.1)
        * (t - (eigenValues3dImpl sqrt acos cos pi eps S).1.2.2) := by
  obtain ⟨h01, h02, h12, h10, h20, h21⟩ := hd
  have hb : DiagBranch eps S := by
    unfold DiagBranch p1Of Gen.ev3_p1 Gen.ev3_diagThreshold
    rw [h01, h02, h12]
    simpa using he
  intro t
  rw [impl_diag sqrt acos cos pi eps S hb, sort3_prod]
  unfold charPoly3 det3 shift3
  simp only
  rw [h01, h02, h12, h10, h20, h21]
  ring

/-! ## 5. the sign of `r` tells which extreme eigenvalue is simple -/

theorem double_root_top (a c p r : ℝ) (hp : 0 < p) (hac : a ≤ c) (h1 : a + c + c = 0)
    (h2 : a * c + a * c + c * c = -(3 * p ^ 2)) (h3 : a * c * c = 2 * r * p ^ 3) : r = -1 := by
  have ha : a = -2 * c := by linarith
  have hsq : c ^ 2 = p ^ 2 := by linear_combination (-1 / 3 : ℝ) * h2 + (2 * c / 3) * h1
  have hc0 : 0 ≤ c := by linarith
  have hcp : c = p := by
    have h : (c - p) * (c + p) = 0 := by linear_combination hsq
    rcases mul_eq_zero.mp h with h | h
    · linarith
    · linarith
  rw [ha, hcp] at h3
  have h : (r + 1) * p ^ 3 = 0 := by linear_combination (-1 / 2 : ℝ) * h3
  rcases mul_eq_zero.mp h with h | h
  · linarith
  · exact absurd h (pow_ne_zero 3 hp.ne')

theorem double_root_bot (a c p r : ℝ) (hp : 0 < p) (hac : a ≤ c) (h1 : a + a + c = 0)
    (h2 : a * a + a * c + a * c = -(3 * p ^ 2)) (h3 : a * a * c = 2 * r * p ^ 3) : r = 1 := by
  have hc : c = -2 * a := by linarith
  have hsq : a ^ 2 = p ^ 2 := by linear_combination (-1 / 3 : ℝ) * h2 + (2 * a / 3) * h1
  have ha0 : a ≤ 0 := by linarith
  have hap : a = -p := by
    have h : (a - p) * (a + p) = 0 := by linear_combination hsq
    rcases mul_eq_zero.mp h with h | h
    · linarith
    · linarith
  rw [hc, hap] at h3
  have h : (r - 1) * p ^ 3 = 0 := by linear_combination (-1 / 2 : ℝ) * h3
  rcases mul_eq_zero.mp h with h | h
  · linarith
  · exact absurd h (pow_ne_zero 3 hp.ne')

theorem simple_extreme (a b c p r : ℝ) (hp : 0 < p) (hab : a ≤ b) (hbc : b ≤ c)
    (h1 : a + b + c = 0) (h2 : a * b + a * c + b * c = -(3 * p ^ 2)) (h3 : a * b * c = 2 * r * p ^ 3) :
    (¬ r < 0 → b < c) ∧ (r < 0 → a < b) := by
  constructor
  · intro hr
    by_contra hn
    have e : c = b := le_antisymm (not_lt.mp hn) hbc
    rw [e] at h1 h2 h3
    have := double_root_top a b p r hp hab h1 h2 h3
    exact hr (by linarith)
  · intro hr
    by_contra hn
    have e : b = a := le_antisymm (not_lt.mp hn) hab
    rw [e] at h1 h2 h3
    have := double_root_bot a c p r hp (le_trans hab hbc) h1 h2 h3
    linarith

/-- In the trigonometric branch: if the returned `r` is not negative the largest returned eigenvalue is simple,
if it is negative the smallest one is. -/
theorem trig_r_sign (eps : ℝ) (he : 0 ≤ eps) (S : M3 ℝ) (hs : Sym3 S) (hb : ¬ DiagBranch eps S) :
    (¬ ((eigenValues3dImpl Real.sqrt Real.arccos Real.cos Real.pi eps S).2 < 0) →
        (eigenValues3dImpl Real.sqrt Real.arccos Real.cos Real.pi eps S).1.2.1
          < (eigenValues3dImpl Real.sqrt Real.arccos Real.cos Real.pi eps S).1.2.2) ∧
    ((eigenValues3dImpl Real.sqrt Real.arccos Real.cos Real.pi eps S).2 < 0 →
        (eigenValues3dImpl Real.sqrt Real.arccos Real.cos Real.pi eps S).1.1
          < (eigenValues3dImpl Real.sqrt Real.arccos Real.cos Real.pi eps S).1.2.1) := by
  have hp1pos := p1Of_pos_of_not_diag eps he S hb
  obtain ⟨hq, hppos, hpsq, hD⟩ := trig_setup S hp1pos
  have hr := rawR_abs_le_one S hs hp1pos
  have hf := trig_factor eps he S hs hb
  have hasc := impl_asc Real.sqrt Real.arccos Real.cos Real.pi eps S
  simp only at hasc
  rw [impl_trig_r eps S hb, clamp_rawR S hr]
  generalize (eigenValues3dImpl Real.sqrt Real.arccos Real.cos Real.pi eps S).1.1 = l0 at hf hasc ⊢
  generalize (eigenValues3dImpl Real.sqrt Real.arccos Real.cos Real.pi eps S).1.2.1 = l1 at hf hasc ⊢
  generalize (eigenValues3dImpl Real.sqrt Real.arccos Real.cos Real.pi eps S).1.2.2 = l2 at hf hasc ⊢
  have hc : ∀ s : ℝ, (s - (l0 - qOf S)) * (s - (l1 - qOf S)) * (s - (l2 - qOf S))
      = s ^ 3 - 0 * s ^ 2 + (-(3 * pOf S ^ 2)) * s - 2 * rawR S * pOf S ^ 3 := by
    intro s
    have h1 := hf (qOf S + s)
    rw [charPoly3_shift_cubic S hs (qOf S) (pOf S) s hq hpsq, hD] at h1
    linear_combination (-1 : ℝ) * h1
  obtain ⟨v1, v2, v3⟩ := cubic_vieta _ _ _ _ _ _ hc
  obtain ⟨g1, g2⟩ := simple_extreme (l0 - qOf S) (l1 - qOf S) (l2 - qOf S) (pOf S) (rawR S) hppos
    (by linarith [hasc.1]) (by linarith [hasc.2]) v1 v2 v3
  exact ⟨fun h => by linarith [g1 h], fun h => by linarith [g2 h]⟩

end DV.C08
