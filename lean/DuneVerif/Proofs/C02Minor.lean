import DuneVerif.Proofs.C02Run
/-! C02: without pivoting the elimination runs through exactly when all leading principal minors are nonzero. -/
namespace DV.C02
open Matrix
set_option linter.unusedSectionVars false

variable {n : Nat} {K Q S : Type} [Field K] [LinearOrder Q] [Zero Q]

/-- the leading principal minor of order `k+1` -/
noncomputable def leadingMinor (A : Mat n K) (k : Fin n) : K :=
  (toSquareBlockProp (toMatrix A) (fun j : Fin n => j.1 ≤ k.1)).det

/-- with the identity permutation, the leading block of `A₀ = L·W` is the product of the leading blocks, hence
the minor is the product of the pivots -/
theorem leadingMinor_eq_prod {A₀ A : Mat n K} {m : Nat} (h : AInv A₀ m A 1) (k : Fin n) (hk : k.1 ≤ m) :
    leadingMinor A₀ k = ∏ j : {j : Fin n // j.1 ≤ k.1}, A.f j.1 j.1 := by
  have hfact : toMatrix A₀ = Lview m A * Wview m A := by
    rw [h.fact]; ext r c; simp
  have hblock : toSquareBlockProp (toMatrix A₀) (fun j : Fin n => j.1 ≤ k.1) =
      toSquareBlockProp (Lview m A) (fun j : Fin n => j.1 ≤ k.1) *
        toSquareBlockProp (Wview m A) (fun j : Fin n => j.1 ≤ k.1) := by
    ext r c
    rw [hfact]
    simp only [toSquareBlockProp_def, Matrix.of_apply, Matrix.mul_apply]
    rw [← Fintype.sum_subtype_add_sum_subtype (fun j : Fin n => j.1 ≤ k.1)
      (fun j => Lview m A r.1 j * Wview m A j c.1)]
    have hz : ∑ j : {j : Fin n // ¬ j.1 ≤ k.1}, Lview m A r.1 j.1 * Wview m A j.1 c.1 = 0 := by
      apply Finset.sum_eq_zero
      intro j _
      have hr := r.2
      have hj := j.2
      have h1 : ¬ (j.1 < r.1) := by simp only [Fin.lt_def]; omega
      have h2 : r.1 ≠ j.1 := fun h => by rw [h] at hr; exact hj hr
      simp [Lview, h1, h2]
    rw [hz, add_zero]
  unfold leadingMinor
  rw [hblock, Matrix.det_mul]
  have hL : (toSquareBlockProp (Lview m A) (fun j : Fin n => j.1 ≤ k.1)).det = 1 := by
    rw [det_of_isLowerTriangular]
    · apply Finset.prod_eq_one
      intro j _
      simp [toSquareBlockProp_def, Lview]
    · intro r c hrc
      have hlt : r < c := by simpa using hrc
      have hlt' : r.1 < c.1 := hlt
      have h1 : ¬ (c < r) := not_lt.mpr (le_of_lt hlt)
      have h2 : r.1 ≠ c.1 := ne_of_lt hlt'
      simp [toSquareBlockProp_def, Lview, h1, h2]
  have hW : (toSquareBlockProp (Wview m A) (fun j : Fin n => j.1 ≤ k.1)).det =
      ∏ j : {j : Fin n // j.1 ≤ k.1}, A.f j.1 j.1 := by
    rw [det_of_isUpperTriangular]
    · apply Finset.prod_congr rfl
      intro j _
      simp [toSquareBlockProp_def, Wview]
    · intro r c hrc
      have hlt : c < r := by simpa using hrc
      have hlt' : c.1 < r.1 := hlt
      have h1 : c.1.1 < m := by
        have := r.2
        simp only [Fin.lt_def] at hlt'
        omega
      have h2 : ¬ (r ≤ c) := not_le.mpr hlt
      simp [toSquareBlockProp_def, Wview, h1, h2]
  rw [hL, hW, one_mul]

/-- **Without pivoting the decomposition succeeds iff every leading principal minor is nonzero**
("the unpivoted elimination is defined"), for any functor. -/
theorem nopivot_ok_iff_minors {absval : K → Q} (habs : AbsLike absval) (F : Func n K S) (A₀ : Mat n K) (s₀ : S) :
    (luDecomp false absval F A₀ s₀).ok = true ↔ ∀ k : Fin n, leadingMinor A₀ k ≠ 0 := by
  constructor
  · intro hok k
    obtain ⟨σ, hA, hσ⟩ := (lu_invariant false habs F A₀ s₀ (fun _ σ _ _ => σ = 1) rfl (by
      intro i p σ A s _ hp _ hσ _
      rw [hσ, hp rfl, Equiv.swap_self]; rfl)).1 hok
    subst hσ
    rw [leadingMinor_eq_prod hA k (le_of_lt k.2)]
    exact Finset.prod_ne_zero_iff.mpr fun j _ => hA.diag j.1 j.1.2
  · intro hmin
    have : (luDecomp false absval F A₀ s₀).ok = true ∧ AInv A₀ n (luDecomp false absval F A₀ s₀).A 1 := by
      unfold luDecomp
      apply forUp_ind (⟨A₀, s₀, true⟩ : LUState n K S) (luStep false absval F)
        (fun m st => st.ok = true ∧ AInv A₀ m st.A 1)
      · exact ⟨rfl, AInv_zero A₀⟩
      · intro i st ⟨hok, hA⟩
        rw [luStep_eq false absval F i st hok]
        have hp : pivRow false absval st.A i = i := by simp [pivRow]
        have hne : st.A.f i i ≠ 0 := by
          intro h0
          apply hmin i
          rw [leadingMinor_eq_prod hA i (le_refl _)]
          exact Finset.prod_eq_zero (Finset.mem_univ ⟨i, le_refl _⟩) h0
        have hz : pivVal false absval st.A i ≠ 0 := by
          simp only [pivVal, Bool.false_eq_true, if_false]
          exact fun h => hne ((habs.zero_iff _).mp h)
        simp only [hz, if_false, hp]
        refine ⟨trivial, ?_⟩
        have := AInv_step (le_refl i) hA (by rw [swapRows_self]; exact hne)
        rw [Equiv.swap_self] at this
        exact this
    exact this.1

end DV.C02
