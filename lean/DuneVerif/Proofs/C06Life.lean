import DuneVerif.Model.C06Life
/-!
C06 — object histories: the invariant behind `object_histories` (Props/C06.lean).

`CommInv slots live users next`: the communicator handles held by the live objects are exactly the live handles of the
MPI table, pairwise different, none of them is a user communicator (`< users`), and all are older than the next fresh
handle.
-/
namespace DV.C06

theorem setSlot_same {β : Type} (f : Nat → Option β) (s : Nat) (v : Option β) : setSlot f s v s = v := by
  simp [setSlot]

theorem setSlot_other {β : Type} (f : Nat → Option β) (s i : Nat) (v : Option β) (h : i ≠ s) : setSlot f s v i = f i := by
  simp [setSlot, h]

theorem setSlot_setSlot {β : Type} (f : Nat → Option β) (s : Nat) (a b : Option β) :
    setSlot (setSlot f s a) s b = setSlot f s b := by
  funext i
  by_cases h : i = s <;> simp [setSlot, h]

structure CommInv (slots : Nat → Option VscObj) (live : List Nat) (users next : Nat) : Prop where
  alive : ∀ s o, slots s = some o → o.comm ∈ live
  priv : ∀ s t o o', slots s = some o → slots t = some o' → o.comm = o'.comm → s = t
  noleak : ∀ c ∈ live, ∃ s o, slots s = some o ∧ o.comm = c
  nodup : live.Nodup
  fresh : ∀ c ∈ live, users ≤ c ∧ c < next
  le : users ≤ next

theorem CommInv.init (users : Nat) : CommInv (fun _ => none) [] users users :=
  ⟨(by intro s o h; cases h), (by intro s t o o' h; cases h), (by intro c h; cases h), List.nodup_nil,
    (by intro c h; cases h), Nat.le_refl _⟩

/-- the destructor's part: the object of slot `s` goes, its communicator is freed -/
theorem CommInv.release {slots : Nat → Option VscObj} {live : List Nat} {users next : Nat}
    (h : CommInv slots live users next) (s : Nat) (me : VscObj) (hs : slots s = some me) :
    CommInv (setSlot slots s none) (live.erase me.comm) users next := by
  refine ⟨?_, ?_, ?_, ?_, ?_, h.le⟩
  · intro i o hi
    by_cases his : i = s
    · subst his; simp [setSlot] at hi
    · rw [setSlot_other _ _ _ _ his] at hi
      have hne : o.comm ≠ me.comm := fun e => his (h.priv i s o me hi hs e)
      exact (List.mem_erase_of_ne hne).2 (h.alive i o hi)
  · intro i j o o' hi hj e
    by_cases his : i = s
    · subst his; simp [setSlot] at hi
    · by_cases hjs : j = s
      · subst hjs; simp [setSlot] at hj
      · rw [setSlot_other _ _ _ _ his] at hi
        rw [setSlot_other _ _ _ _ hjs] at hj
        exact h.priv i j o o' hi hj e
  · intro c hc
    have hc' := (List.Nodup.mem_erase_iff h.nodup).1 hc
    obtain ⟨i, o, hi, ho⟩ := h.noleak c hc'.2
    have his : i ≠ s := by
      intro e
      subst e
      rw [hs] at hi
      cases hi
      exact hc'.1 ho.symm
    exact ⟨i, o, by rw [setSlot_other _ _ _ _ his]; exact hi, ho⟩
  · exact h.nodup.erase _
  · intro c hc
    exact h.fresh c (List.mem_of_mem_erase hc)

/-- the `MPI_Comm_dup` part of a constructor: a new object with the fresh handle appears in the empty slot `s` -/
theorem CommInv.acquire {slots : Nat → Option VscObj} {live : List Nat} {users next : Nat}
    (h : CommInv slots live users next) (s : Nat) (hs : slots s = none) (b m : Nat) :
    CommInv (setSlot slots s (some ⟨b, m, next⟩)) (next :: live) users (next + 1) := by
  have hnew : next ∉ live := fun hm => Nat.lt_irrefl _ (h.fresh next hm).2
  refine ⟨?_, ?_, ?_, ?_, ?_, Nat.le_succ_of_le h.le⟩
  · intro i o hi
    by_cases his : i = s
    · subst his
      rw [setSlot_same] at hi
      cases hi
      exact List.mem_cons_self
    · rw [setSlot_other _ _ _ _ his] at hi
      exact List.mem_cons_of_mem _ (h.alive i o hi)
  · intro i j o o' hi hj e
    by_cases his : i = s <;> by_cases hjs : j = s
    · rw [his, hjs]
    · subst his
      rw [setSlot_same] at hi
      rw [setSlot_other _ _ _ _ hjs] at hj
      cases hi
      have hm := h.alive j o' hj
      have e' : next = o'.comm := e
      rw [← e'] at hm
      exact absurd hm hnew
    · subst hjs
      rw [setSlot_same] at hj
      rw [setSlot_other _ _ _ _ his] at hi
      cases hj
      have hm := h.alive i o hi
      have e' : o.comm = next := e
      rw [e'] at hm
      exact absurd hm hnew
    · rw [setSlot_other _ _ _ _ his] at hi
      rw [setSlot_other _ _ _ _ hjs] at hj
      exact h.priv i j o o' hi hj e
  · intro c hc
    rcases List.mem_cons.1 hc with e | hc
    · exact ⟨s, _, setSlot_same _ _ _, e.symm⟩
    · obtain ⟨i, o, hi, ho⟩ := h.noleak c hc
      have his : i ≠ s := by
        intro e
        subst e
        rw [hs] at hi
        cases hi
      exact ⟨i, o, by rw [setSlot_other _ _ _ _ his]; exact hi, ho⟩
  · exact List.nodup_cons.2 ⟨hnew, h.nodup⟩
  · intro c hc
    rcases List.mem_cons.1 hc with e | hc
    · subst e
      exact ⟨h.le, Nat.lt_succ_self _⟩
    · exact ⟨(h.fresh c hc).1, Nat.lt_succ_of_lt (h.fresh c hc).2⟩

/-- the whole invariant: configuration = value semantics, no MPI call on a dead handle so far, `CommInv`, and the user
    communicators are their own origin -/
structure LifeInv (w : World) (σ : SpecWorld) : Prop where
  cfg : ∀ s, (w.slots s).map (objCfg w.origin) = σ s
  nofault : w.fault = false
  comm : CommInv w.slots w.liveComms w.users w.nextComm
  userOrigin : ∀ u, u < w.users → w.origin u = u

theorem LifeInv.init (users : Nat) : LifeInv (World.init users) (fun _ => none) :=
  ⟨fun _ => rfl, rfl, CommInv.init users, fun _ _ => rfl⟩

theorem LifeInv.none_iff {w : World} {σ : SpecWorld} (h : LifeInv w σ) (s : Nat) : w.slots s = none ↔ σ s = none := by
  rw [← h.cfg s]
  cases w.slots s <;> simp

theorem LifeInv.some_of {w : World} {σ : SpecWorld} (h : LifeInv w σ) {s : Nat} {o : VscObj} (hs : w.slots s = some o) :
    σ s = some (objCfg w.origin o) := by
  rw [← h.cfg s, hs]
  rfl

theorem valid_of_mem (w : World) (c : Nat) (h : c ∈ w.liveComms) : w.valid c = true := by
  simp [World.valid, h]

theorem valid_of_user (w : World) (c : Nat) (h : c < w.users) : w.valid c = true := by
  simp [World.valid, h]

/-- the origin table after `MPI_Comm_dup(c, &next)` -/
abbrev dupOrigin (origin : Nat → Nat) (next c : Nat) : Nat → Nat := fun d => if d = next then origin c else origin d

/-- configuration part of placing the duplicate of `c` into slot `s`: the objects that exist keep their configuration
    (their handles are older than the fresh one), the new one has the origin of `c` -/
theorem cfg_place {slots : Nat → Option VscObj} {live : List Nat} {users next : Nat} {origin : Nat → Nat} {σ : SpecWorld}
    (hc : CommInv slots live users next) (h : ∀ s, (slots s).map (objCfg origin) = σ s) (s b m c : Nat) :
    ∀ i, (setSlot slots s (some ⟨b, m, next⟩) i).map (objCfg (dupOrigin origin next c)) =
      setSlot σ s (some (b, m, origin c)) i := by
  intro i
  by_cases his : i = s
  · subst his; simp [setSlot, objCfg, dupOrigin]
  · rw [setSlot_other _ _ _ _ his, setSlot_other _ _ _ _ his, ← h i]
    cases hi : slots i with
    | none => rfl
    | some o =>
      have hlt := (hc.fresh _ (hc.alive i o hi)).2
      have hne : o.comm ≠ next := Nat.ne_of_lt hlt
      simp [objCfg, dupOrigin, hne]

theorem cfg_setSlot_none {slots : Nat → Option VscObj} {origin : Nat → Nat} {σ : SpecWorld}
    (h : ∀ s, (slots s).map (objCfg origin) = σ s) (s : Nat) :
    ∀ i, (setSlot slots s none i).map (objCfg origin) = setSlot σ s none i := by
  intro i
  by_cases his : i = s
  · subst his; simp [setSlot]
  · simp [setSlot, his, h i]

theorem userOrigin_dup {origin : Nat → Nat} {users next : Nat} (h : ∀ u, u < users → origin u = u) (hle : users ≤ next)
    (c : Nat) : ∀ u, u < users → dupOrigin origin next c u = u := by
  intro u hu
  have : u ≠ next := Nat.ne_of_lt (Nat.lt_of_lt_of_le hu hle)
  simp [dupOrigin, this, h u hu]

/-- **one statement.**  Code level and value semantics accept the same statements, and the invariant is kept. -/
theorem lifeStep_inv (dflt : Nat) (w : World) (σ : SpecWorld) (h : LifeInv w σ) (op : LifeOp) :
    match lifeStep dflt w op, specStep w.users dflt σ op with
    | some w', some σ' => LifeInv w' σ' ∧ w'.users = w.users
    | none, none => True
    | _, _ => False := by
  cases op with
  | construct s size iface user =>
    cases hs : w.slots s with
    | some o => simp [lifeStep, specStep, hs, h.some_of hs]
    | none =>
      have hσ := (h.none_iff s).1 hs
      by_cases hu : user < w.users
      · simp only [lifeStep, specStep, hs, hσ, World.dup, if_pos hu]
        refine ⟨⟨?_, ?_, ?_, ?_⟩, trivial⟩
        · have := cfg_place h.comm h.cfg s (size.getD dflt) iface user
          rw [h.userOrigin user hu] at this
          exact this
        · simp [h.nofault, valid_of_user w user hu]
        · exact h.comm.acquire s hs _ _
        · exact userOrigin_dup h.userOrigin h.comm.le user
      · simp [lifeStep, specStep, hs, hσ, hu]
  | copy s t =>
    cases hs : w.slots s with
    | some o =>
      have := h.some_of hs
      simp [lifeStep, specStep, hs, this]
    | none =>
      have hσ := (h.none_iff s).1 hs
      cases ht : w.slots t with
      | none =>
        have hσt := (h.none_iff t).1 ht
        simp [lifeStep, specStep, hs, ht, hσ, hσt]
      | some o =>
        have hσt := h.some_of ht
        simp only [lifeStep, specStep, hs, ht, hσ, hσt, World.dup]
        refine ⟨⟨?_, ?_, ?_, ?_⟩, trivial⟩
        · exact cfg_place h.comm h.cfg s o.maxBufferSize o.interface o.comm
        · simp [h.nofault, valid_of_mem w _ (h.comm.alive t o ht)]
        · exact h.comm.acquire s hs _ _
        · exact userOrigin_dup h.userOrigin h.comm.le o.comm
  | assign s t =>
    cases hs : w.slots s with
    | none =>
      have hσ := (h.none_iff s).1 hs
      simp [lifeStep, specStep, hs, hσ]
    | some me =>
      have hσ := h.some_of hs
      cases ht : w.slots t with
      | none =>
        have hσt := (h.none_iff t).1 ht
        simp [lifeStep, specStep, hs, ht, hσ, hσt]
      | some o =>
        have hσt := h.some_of ht
        by_cases hst : s = t
        · subst hst
          simp only [lifeStep, specStep, hs, hσ, if_true]
          refine ⟨⟨?_, h.nofault, h.comm, h.userOrigin⟩, trivial⟩
          intro i
          by_cases his : i = s
          · subst his; simp [setSlot, hs]
          · simp [setSlot, his, h.cfg i]
        · simp only [lifeStep, specStep, hs, ht, hσ, hσt, if_neg hst, World.dup, World.free]
          have hne : o.comm ≠ me.comm := fun e => hst (h.comm.priv t s o me ht hs e).symm
          have hrel := h.comm.release s me hs
          have hacq := hrel.acquire s (setSlot_same _ _ _) o.maxBufferSize o.interface
          rw [setSlot_setSlot] at hacq
          refine ⟨⟨?_, ?_, hacq, ?_⟩, trivial⟩
          · have hplace := cfg_place hrel (cfg_setSlot_none h.cfg s) s o.maxBufferSize o.interface o.comm
            intro i
            have := hplace i
            rw [setSlot_setSlot, setSlot_setSlot] at this
            exact this
          · have h1 : me.comm ∈ w.liveComms := h.comm.alive s me hs
            have h2 : o.comm ∈ w.liveComms.erase me.comm := (List.mem_erase_of_ne hne).2 (h.comm.alive t o ht)
            simp [h.nofault, h1, World.valid, h2]
          · exact userOrigin_dup h.userOrigin h.comm.le o.comm
  | destroy s =>
    cases hs : w.slots s with
    | none =>
      have hσ := (h.none_iff s).1 hs
      simp [lifeStep, specStep, hs, hσ]
    | some me =>
      have hσ := h.some_of hs
      simp only [lifeStep, specStep, hs, hσ, World.free]
      refine ⟨⟨?_, ?_, h.comm.release s me hs, h.userOrigin⟩, trivial⟩
      · exact cfg_setSlot_none h.cfg s
      · have h1 : me.comm ∈ w.liveComms := h.comm.alive s me hs
        simp [h.nofault, h1]
  | use s =>
    cases hs : w.slots s with
    | none =>
      have hσ := (h.none_iff s).1 hs
      simp [lifeStep, specStep, hs, hσ]
    | some me =>
      have hσ := h.some_of hs
      simp only [lifeStep, specStep, hs, hσ]
      refine ⟨⟨h.cfg, ?_, h.comm, h.userOrigin⟩, trivial⟩
      simp [h.nofault, valid_of_mem w _ (h.comm.alive s me hs)]

/-- **whole programs.** -/
theorem lifeExec_inv (dflt : Nat) : ∀ (prog : List LifeOp) (w : World) (σ : SpecWorld), LifeInv w σ →
    match lifeExec dflt w prog, specExec w.users dflt σ prog with
    | some w', some σ' => LifeInv w' σ' ∧ w'.users = w.users
    | none, none => True
    | _, _ => False := by
  intro prog
  induction prog with
  | nil => intro w σ h; simpa [lifeExec, specExec] using h
  | cons op ops ih =>
    intro w σ h
    have hstep := lifeStep_inv dflt w σ h op
    simp only [lifeExec, specExec]
    cases h1 : lifeStep dflt w op <;> cases h2 : specStep w.users dflt σ op <;> rw [h1, h2] at hstep
    · simp
    · exact hstep.elim
    · exact hstep.elim
    · rename_i w1 σ1
      have := ih w1 σ1 hstep.1
      rw [hstep.2] at this
      simp only [Option.bind_some]
      cases h3 : lifeExec dflt w1 ops <;> cases h4 : specExec w.users dflt σ1 ops <;> rw [h3, h4] at this
      · trivial
      · exact this
      · exact this
      · exact this

end DV.C06
