import DuneVerif.Proofs.C13Restore
/-! C13, level 6: message matching (every receive a rank posts has exactly one matching send). Core Lean only. -/
namespace DV.C13

/-- the neighbour relation is symmetric -/
def NbSym (w : World) : Prop :=
  ∀ p q sp sq, w[p]? = some sp → w[q]? = some sq →
    (isNeighbour sp.remote q = true ↔ isNeighbour sq.remote p = true)

theorem inbox_sources_sorted (w : World) (q : Nat) : ((inbox w q).map (fun m => m.1)).Pairwise (fun a b => a < b) := by
  rw [List.pairwise_map]
  unfold inbox
  apply List.Pairwise.filterMap _ _ List.pairwise_lt_range
  intro a a' haa b hb b' hb'
  split at hb
  · split at hb
    · split at hb'
      · split at hb'
        · simp only [Option.some.injEq] at hb hb'
          subst hb; subst hb'
          exact haa
        · simp at hb'
      · simp at hb'
    · simp at hb
  · simp at hb

theorem message_matching {D : Decomp} {w : World} (hw : PartialView D w) (hs : NbSym w)
    (q : Nat) (sq : RankState) (hq : w[q]? = some sq) :
    (inbox w q).map (fun m => m.1) = sq.remote.map (fun x => x.1) := by
  have hI := hw q sq hq
  apply pairwise_ext (fun a b : Nat => a < b) (fun a => Nat.lt_irrefl a) (fun a b h => Nat.lt_asymm h)
    _ _ (inbox_sources_sorted w q) (List.pairwise_map.2 hI.rem.nbSorted)
  intro p
  simp only [List.mem_map]
  constructor
  · rintro ⟨m, hm, rfl⟩
    obtain ⟨sp, hsp, hn, _⟩ := (mem_inbox w q m).1 hm
    have := (hs m.1 q sp sq hsp hq).1 hn
    obtain ⟨l, hl⟩ := (isNeighbour_iff _ _).1 this
    exact ⟨(m.1, l), hl, rfl⟩
  · rintro ⟨⟨p', l⟩, hx, rfl⟩
    have hp : p' < w.length := (hI.rem.nbOk _ hx).2.1
    have hsp : w[p']? = some w[p'] := List.getElem?_eq_getElem hp
    have hn : isNeighbour w[p'].remote q = true :=
      (hs p' q _ sq hsp hq).2 ((isNeighbour_iff _ _).2 ⟨l, hx⟩)
    exact ⟨(p', itemsFor w[p'] q), (mem_inbox w q _).2 ⟨_, hsp, hn, rfl⟩, rfl⟩

/-! ### the consistent state minus deleted copies has a symmetric neighbour relation -/

theorem interList_ne_nil_iff {D : Decomp} (hD : DecompWF D) (p q : Nat) :
    interList (D.slice p) (D.slice q) ≠ [] ↔ ∃ g a b, D.attrOf p g = some a ∧ D.attrOf q g = some b := by
  constructor
  · intro h
    cases hl : interList (D.slice p) (D.slice q) with
    | nil => exact absurd hl h
    | cons en t =>
      have : en ∈ interList (D.slice p) (D.slice q) := by rw [hl]; simp
      obtain ⟨h1, h2⟩ := (mem_interList _ _ en).1 this
      exact ⟨en.g, en.own, en.rem, (attrOf_iff hD p _ _).2 h1, h2⟩
  · rintro ⟨g, a, b, h1, h2⟩ hc
    have : (⟨g, a, b⟩ : RemEntry) ∈ interList (D.slice p) (D.slice q) :=
      (mem_interList _ _ _).2 ⟨(attrOf_iff hD p g a).1 h1, h2⟩
    rw [hc] at this
    simp at this

theorem isNeighbour_consistentRank {D : Decomp} (hD : DecompWF D) (p q : Nat) :
    isNeighbour (consistentRank D p (D.slice p)).remote q = true ↔
      q < D.length ∧ q ≠ p ∧ ∃ g a b, D.attrOf p g = some a ∧ D.attrOf q g = some b := by
  rw [isNeighbour_iff]
  constructor
  · rintro ⟨l, hl⟩
    obtain ⟨h1, h2, h3, h4⟩ := (mem_remote_consistentRank D p _ q l).1 hl
    rw [h3] at h4
    exact ⟨h1, h2, (interList_ne_nil_iff hD p q).1 h4⟩
  · rintro ⟨h1, h2, h3⟩
    exact ⟨_, (mem_remote_consistentRank D p _ q _).2 ⟨h1, h2, rfl, (interList_ne_nil_iff hD p q).2 h3⟩⟩

theorem nbSym_deleted {D : Decomp} (hD : DecompWF D) (del : Nat → Int → Bool) :
    NbSym (deleteCopies del (consistent D)) := by
  intro p q sp sq hp hq
  rw [deleteCopies_getElem?, consistent_getElem?] at hp hq
  simp only [Option.map_map, Option.map_eq_some_iff] at hp hq
  obtain ⟨mp, hmp, rfl⟩ := hp
  obtain ⟨mq, hmq, rfl⟩ := hq
  have hpl : p < D.length := (List.getElem?_eq_some_iff.1 hmp).1
  have hql : q < D.length := (List.getElem?_eq_some_iff.1 hmq).1
  have e1 : mp = D.slice p := by have := slice_eq_of_lt D p hpl; rw [hmp] at this; simpa using this
  have e2 : mq = D.slice q := by have := slice_eq_of_lt D q hql; rw [hmq] at this; simpa using this
  subst e1; subst e2
  simp only [Function.comp]
  rw [isNeighbour_deleteRank, isNeighbour_deleteRank, isNeighbour_consistentRank hD, isNeighbour_consistentRank hD]
  constructor
  · rintro ⟨_, h2, g, a, b, h3, h4⟩
    exact ⟨hpl, Ne.symm h2, g, b, a, h4, h3⟩
  · rintro ⟨_, h2, g, a, b, h3, h4⟩
    exact ⟨hql, Ne.symm h2, g, b, a, h4, h3⟩

/-! ### symmetry is preserved by the sync (newly discovered neighbours discover each other) -/

theorem isNeighbour_sync_of {D : Decomp} {w : World} (num : Int → Nat) (hw : PartialView D w) (hs : NbSym w)
    (p q : Nat) (sp sq : RankState) (hp : w[p]? = some sp) (hq : w[q]? = some sq)
    (h : isNeighbour (syncRank num w p sp).remote q = true) : isNeighbour (syncRank num w q sq).remote p = true := by
  rw [(syncRank_idx num w p sp).2, isNeighbour_recvFlat] at h
  rw [(syncRank_idx num w q sq).2, isNeighbour_recvFlat]
  rcases h with h | ⟨x, hx, ⟨b, hb⟩, h⟩
  · left; exact (hs p q sp sq hp hq).1 h
  · obtain ⟨m, hm, h1, h2⟩ := (mem_flatMsgs _ x).1 hx
    obtain ⟨ss, hss, hn, hit⟩ := (mem_inbox w p m).1 hm
    rw [h1] at hss
    rw [hit] at h2
    have hIs := hw _ ss hss
    rcases h with h | ⟨hqp, xa, hxa⟩
    · -- the sender itself: it had p as a neighbour already
      left
      subst h
      rw [hss] at hq
      simp only [Option.some.injEq] at hq
      subst hq
      exact hn
    · -- a third party named in the item: the sender publishes the same item to it
      right
      obtain ⟨e, he, hx2, _⟩ := (mem_itemsFor ss p x.2).1 h2
      have hxa' : (q, xa) ∈ holders ss.remote e.g := by rw [hx2] at hxa; exact hxa
      obtain ⟨l, er, hl, _, _⟩ := (mem_holders ss.remote e.g q xa).1 hxa'
      have hnq : isNeighbour ss.remote q = true := (isNeighbour_iff _ _).2 ⟨l, hl⟩
      have hitq : x.2 ∈ itemsFor ss q := by
        rw [mem_itemsFor]
        refine ⟨e, he, hx2, ?_⟩
        rw [List.any_eq_true]
        exact ⟨(q, xa), hxa', by simp⟩
      refine ⟨x, (mem_flatMsgs _ x).2 ⟨(x.1, itemsFor ss q), (mem_inbox w q _).2 ⟨ss, hss, hnq, rfl⟩, rfl, hitq⟩, ?_, ?_⟩
      · refine ⟨xa, ?_⟩
        rw [hx2]
        exact lookup_of_mem_pairwise (fun a b : Nat => a < b) (fun a => Nat.lt_irrefl a) q xa _
          (holders_sorted _ _ hIs.rem.nbSorted) hxa'
      · right
        exact ⟨Ne.symm hqp, b, lookup_mem p b _ hb⟩

theorem nbSym_sync {D : Decomp} {w : World} (num : Int → Nat) (hw : PartialView D w) (hs : NbSym w) :
    NbSym (sync num w) := by
  intro p q sp' sq' hp' hq'
  rw [sync_getElem?] at hp' hq'
  simp only [Option.map_eq_some_iff] at hp' hq'
  obtain ⟨sp, hp, rfl⟩ := hp'
  obtain ⟨sq, hq, rfl⟩ := hq'
  exact ⟨isNeighbour_sync_of num hw hs p q sp sq hp hq, isNeighbour_sync_of num hw hs q p sq sp hq hp⟩

end DV.C13
