import DuneVerif.Proofs.C20Basic
/-! Python slices `range(n)[i:j:st]`: the positions a slice view enumerates (core Lean only) -/
namespace DV.C20

theorem adjust_pos_bounds (N : Int) (hN : 0 ≤ N) (v : Option Int) (d : Int) (hd : 0 ≤ d ∧ d ≤ N) :
    0 ≤ adjust N false v d ∧ adjust N false v d ≤ N := by
  unfold adjust
  cases v with
  | none => exact hd
  | some v =>
    simp only [Bool.false_eq_true, if_false]
    by_cases h1 : v < 0
    · rw [if_pos h1]
      by_cases h2 : v + N < 0
      · rw [if_pos h2]; omega
      · rw [if_neg h2]; omega
    · rw [if_neg h1]
      by_cases h2 : v ≥ N
      · rw [if_pos h2]; omega
      · rw [if_neg h2]; omega

theorem adjust_neg_bounds (N : Int) (hN : 0 ≤ N) (v : Option Int) (d : Int) (hd : -1 ≤ d ∧ d ≤ N - 1) :
    -1 ≤ adjust N true v d ∧ adjust N true v d ≤ N - 1 := by
  unfold adjust
  cases v with
  | none => exact hd
  | some v =>
    simp only [if_true]
    by_cases h1 : v < 0
    · rw [if_pos h1]
      by_cases h2 : v + N < 0
      · rw [if_pos h2]; omega
      · rw [if_neg h2]; omega
    · rw [if_neg h1]
      by_cases h2 : v ≥ N
      · rw [if_pos h2]; omega
      · rw [if_neg h2]; omega

/-- lower clamped bound of a slice with positive step -/
def sliceLo (n : Nat) (i : Option Int) : Int := adjust n false i 0
/-- upper clamped bound (exclusive) of a slice with positive step -/
def sliceHi (n : Nat) (j : Option Int) : Int := adjust n false j n
/-- first position of a slice with negative step -/
def sliceLoNeg (n : Nat) (i : Option Int) : Int := adjust n true i ((n : Int) - 1)
/-- last position (exclusive, may be -1) of a slice with negative step -/
def sliceHiNeg (n : Nat) (j : Option Int) : Int := adjust n true j (-1)

theorem sliceIdx_pos (n : Nat) (i j : Option Int) (st : Int) (hst : 0 < st) :
    sliceIdx n i j st = (sliceLo n i,
      if sliceLo n i < sliceHi n j then ((sliceHi n j - sliceLo n i - 1) / st + 1).toNat else 0) := by
  have hd : decide (st < 0) = false := by simp; omega
  unfold sliceIdx sliceLo sliceHi
  simp only [hd, Bool.false_eq_true, if_false]

theorem sliceIdx_neg (n : Nat) (i j : Option Int) (st : Int) (hst : st < 0) :
    sliceIdx n i j st = (sliceLoNeg n i,
      if sliceHiNeg n j < sliceLoNeg n i then ((sliceLoNeg n i - sliceHiNeg n j - 1) / (-st) + 1).toNat else 0) := by
  have hd : decide (st < 0) = true := by simp; omega
  unfold sliceIdx sliceLoNeg sliceHiNeg
  simp only [hd, if_true]

/-- exact membership for positive steps: entry `k` exists iff `lo + k*st` is still below the stop -/
theorem slice_exact_pos (n : Nat) (i j : Option Int) (st : Int) (hst : 0 < st) (k : Nat) :
    k < (sliceIdx n i j st).2 ↔ sliceLo n i + (k : Int) * st < sliceHi n j := by
  rw [sliceIdx_pos n i j st hst]
  simp only []
  have hk : 0 ≤ (k : Int) * st := Int.mul_nonneg (by omega) (by omega)
  by_cases hlt : sliceLo n i < sliceHi n j
  · rw [if_pos hlt]
    have hq : 0 ≤ (sliceHi n j - sliceLo n i - 1) / st := Int.ediv_nonneg (by omega) (by omega)
    have hiff := Int.le_ediv_iff_mul_le (a := (k : Int)) (b := sliceHi n j - sliceLo n i - 1) hst
    constructor
    · intro h
      have h1 : (k : Int) ≤ (sliceHi n j - sliceLo n i - 1) / st := by omega
      have h2 := hiff.mp h1
      omega
    · intro h
      have h2 : (k : Int) * st ≤ sliceHi n j - sliceLo n i - 1 := by omega
      have h1 := hiff.mpr h2
      omega
  · rw [if_neg hlt]
    constructor
    · intro h; omega
    · intro h; omega

/-- exact membership for negative steps -/
theorem slice_exact_neg (n : Nat) (i j : Option Int) (st : Int) (hst : st < 0) (k : Nat) :
    k < (sliceIdx n i j st).2 ↔ sliceHiNeg n j < sliceLoNeg n i + (k : Int) * st := by
  rw [sliceIdx_neg n i j st hst]
  simp only []
  have hm : 0 < -st := by omega
  have hk : 0 ≤ (k : Int) * (-st) := Int.mul_nonneg (by omega) (by omega)
  have hneg : (k : Int) * st = -((k : Int) * (-st)) := by rw [Int.mul_neg, Int.neg_neg]
  rw [hneg]
  by_cases hlt : sliceHiNeg n j < sliceLoNeg n i
  · rw [if_pos hlt]
    have hq : 0 ≤ (sliceLoNeg n i - sliceHiNeg n j - 1) / (-st) := Int.ediv_nonneg (by omega) (by omega)
    have hiff := Int.le_ediv_iff_mul_le (a := (k : Int)) (b := sliceLoNeg n i - sliceHiNeg n j - 1) hm
    constructor
    · intro h
      have h1 : (k : Int) ≤ (sliceLoNeg n i - sliceHiNeg n j - 1) / (-st) := by omega
      have h2 := hiff.mp h1
      omega
    · intro h
      have h2 : (k : Int) * (-st) ≤ sliceLoNeg n i - sliceHiNeg n j - 1 := by omega
      have h1 := hiff.mpr h2
      omega
  · rw [if_neg hlt]
    constructor
    · intro h; omega
    · intro h; omega

theorem sliceIdx_fst_pos (n : Nat) (i j : Option Int) (st : Int) (hst : 0 < st) :
    (sliceIdx n i j st).1 = sliceLo n i := by rw [sliceIdx_pos n i j st hst]

theorem sliceIdx_fst_neg (n : Nat) (i j : Option Int) (st : Int) (hst : st < 0) :
    (sliceIdx n i j st).1 = sliceLoNeg n i := by rw [sliceIdx_neg n i j st hst]

/-- every entry of a slice is a position of the vector -/
theorem slice_in_bounds (n : Nat) (i j : Option Int) (st : Int) (hst : st ≠ 0) (k : Nat)
    (hk : k < (sliceIdx n i j st).2) :
    0 ≤ (sliceIdx n i j st).1 + (k : Int) * st ∧ (sliceIdx n i j st).1 + (k : Int) * st < (n : Int) := by
  have hN : (0 : Int) ≤ (n : Int) := by omega
  by_cases hneg : st < 0
  · have hex := (slice_exact_neg n i j st hneg k).mp hk
    rw [sliceIdx_fst_neg n i j st hneg]
    have hb1 := adjust_neg_bounds n hN i ((n : Int) - 1) (by omega)
    have hb2 := adjust_neg_bounds n hN j (-1) (by omega)
    have hkm : 0 ≤ (k : Int) * (-st) := Int.mul_nonneg (by omega) (by omega)
    have hn : (k : Int) * st = -((k : Int) * (-st)) := by rw [Int.mul_neg, Int.neg_neg]
    unfold sliceLoNeg sliceHiNeg at *
    omega
  · have hpos : 0 < st := by omega
    have hex := (slice_exact_pos n i j st hpos k).mp hk
    rw [sliceIdx_fst_pos n i j st hpos]
    have hb1 := adjust_pos_bounds n hN i 0 (by omega)
    have hb2 := adjust_pos_bounds n hN j n (by omega)
    have hkm : 0 ≤ (k : Int) * st := Int.mul_nonneg (by omega) (by omega)
    unfold sliceLo sliceHi at *
    omega

theorem slice_full (n : Nat) : sliceIdx n none none 1 = (0, n) := by
  rw [sliceIdx_pos n none none 1 (by omega)]
  have h1 : sliceLo n none = 0 := rfl
  have h2 : sliceHi n none = (n : Int) := rfl
  rw [h1, h2]
  refine Prod.ext rfl ?_
  simp only []
  by_cases h : (0 : Int) < (n : Int)
  · rw [if_pos h]; simp
  · rw [if_neg h]; omega

theorem slice_reverse (n : Nat) : sliceIdx n none none (-1) = ((n : Int) - 1, n) := by
  rw [sliceIdx_neg n none none (-1) (by omega)]
  have h1 : sliceLoNeg n none = (n : Int) - 1 := rfl
  have h2 : sliceHiNeg n none = -1 := rfl
  rw [h1, h2]
  refine Prod.ext rfl ?_
  simp only []
  by_cases h : (-1 : Int) < (n : Int) - 1
  · rw [if_pos h]; simp
  · rw [if_neg h]; omega

/-! ### what a slice shows of a list -/

/-- the values a view with offset `off`, stride `st` and `len` entries shows of the cells `l` -/
def cellsOf (l : List Int) (off st : Int) (len : Nat) : List Int :=
  (List.range len).map fun (j : Nat) => l.getD (off + (j : Int) * st).toNat 0

theorem cellsOf_step_one (l : List Int) (lo len : Nat) (h : lo + len ≤ l.length) :
    cellsOf l (lo : Int) 1 len = (l.drop lo).take len := by
  unfold cellsOf
  apply List.ext_getElem
  · simp; omega
  · intro k h1 h2
    simp only [List.length_map, List.length_range] at h1
    have hpos : ((lo : Int) + (k : Int) * 1).toNat = lo + k := by omega
    simp only [List.getElem_map, List.getElem_range, hpos, List.getElem_take, List.getElem_drop]
    simp [List.getD_eq_getElem?_getD, List.getElem?_eq_getElem (show lo + k < l.length by omega)]

theorem cellsOf_full (l : List Int) : cellsOf l 0 1 l.length = l := by
  have := cellsOf_step_one l 0 l.length (by omega)
  simpa using this

theorem cellsOf_reverse (l : List Int) : cellsOf l ((l.length : Int) - 1) (-1) l.length = l.reverse := by
  unfold cellsOf
  apply List.ext_getElem
  · simp
  · intro k h1 h2
    simp only [List.length_map, List.length_range] at h1
    have hpos : ((l.length : Int) - 1 + (k : Int) * (-1)).toNat = l.length - 1 - k := by omega
    simp only [List.getElem_map, List.getElem_range, hpos, List.getElem_reverse]
    simp [List.getD_eq_getElem?_getD, List.getElem?_eq_getElem (show l.length - 1 - k < l.length by omega)]

end DV.C20
