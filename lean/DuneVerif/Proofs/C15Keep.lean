/-
C15 — DebugMemory::AllocationManager in the compile-time configuration `DEBUG_ALLOCATOR_KEEP`: released entries stay in
the list (marked `not_free = false`) and stay mapped, so that the lookup by page address keeps finding the right entry.
The facts about what the `#if DEBUG_ALLOCATOR_KEEP` branch does are the generated constants of Gen/C15.lean; the three
`rfl` lemmas below are where a change of that branch breaks the proofs.  Core Lean only.
-/
import DuneVerif.Proofs.C15Raw

namespace DV.C15
open DV.C15.Gen

/-- the KEEP branch of `deallocate` neither erases the entry … -/
theorem keepErases_eq : dbgKeepFreeErases = false := rfl
/-- … nor gives the mapping back (it stays mapped, inaccessible) … -/
theorem keepUnmaps_eq : dbgKeepFreeUnmaps = false := rfl
theorem keepProtects_eq : dbgKeepProtects = true := rfl
/-- … and `deallocate` asserts `not_free` -/
theorem checksNotFree_eq : dbgChecksNotFree = true := rfl

/-- the recorded entries without their flags -/
def infos (l : List KInfo) : List AInfo := l.map (·.info)

/-- the entry whose mapping starts at `pp` marked as released -/
def kMark (pp : Nat) (l : List KInfo) : List KInfo :=
  l.map fun x => if x.info.pagePtr = pp then { x with notFree := false } else x

theorem infos_kMark (pp : Nat) (l : List KInfo) : infos (kMark pp l) = infos l := by
  unfold infos kMark
  rw [List.map_map]
  apply List.map_congr_left
  intro x _
  simp only [Function.comp]
  split <;> rfl

theorem kMark_of_ne {pp : Nat} {l : List KInfo} (h : ∀ x ∈ l, x.info.pagePtr ≠ pp) : kMark pp l = l := by
  unfold kMark
  conv => rhs; rw [← List.map_id l]
  apply List.map_congr_left
  intro x hx
  simp [h x hx]

theorem kMark_cons_eq {pp : Nat} (x : KInfo) (l : List KInfo) (h : x.info.pagePtr = pp) :
    kMark pp (x :: l) = { x with notFree := false } :: kMark pp l := by
  unfold kMark; rw [List.map_cons, if_pos h]

theorem kMark_cons_ne {pp : Nat} (x : KInfo) (l : List KInfo) (h : x.info.pagePtr ≠ pp) :
    kMark pp (x :: l) = x :: kMark pp l := by
  unfold kMark; rw [List.map_cons, if_neg h]

/-- an entry in use stays in use when another entry is marked, and the marked one is released -/
theorem mem_kMark {pp : Nat} {l : List KInfo} {y : KInfo} (h : y ∈ kMark pp l) :
    ∃ x ∈ l, y.info = x.info ∧ (y.notFree = true → x.notFree = true ∧ x.info.pagePtr ≠ pp) := by
  unfold kMark at h
  obtain ⟨x, hx, rfl⟩ := List.mem_map.1 h
  refine ⟨x, hx, ?_, ?_⟩
  · split <;> rfl
  · split
    · intro hc; simp at hc
    · rename_i hne; intro hc; exact ⟨hc, hne⟩

theorem kAllocate_ok {sz page n : Nat} {mmap : Nat → Option Nat} {l l' : List KInfo} {ai : AInfo}
    (h : kAllocate sz page n mmap l = .ok (ai, l')) :
    (∃ l0, dbgAllocate sz page n mmap [] = .ok (ai, l0)) ∧ l' = l ++ [{ info := ai, notFree := true }] := by
  unfold kAllocate at h
  cases hres : dbgAllocate sz page n mmap [] with
  | error e => rw [hres] at h; simp at h
  | ok r =>
    rw [hres] at h
    simp only [Except.ok.injEq, Prod.mk.injEq] at h
    obtain ⟨h1, h2⟩ := h
    subst h1
    exact ⟨⟨r.2, rfl⟩, h2.symm⟩

/-- lookup in the KEEP configuration: as long as the page addresses of **all** recorded entries (released ones
    included) are different, `deallocate` of a block in use finds its own entry, passes the three assertions and marks
    exactly that entry -/
theorem kDeallocate_finds {page : Nat} : ∀ {l : List KInfo},
    (∀ it ∈ l, dbgLookupKey it.info.ptr page = it.info.pagePtr) →
    (infos l).Pairwise (fun a b => a.pagePtr ≠ b.pagePtr) → ∀ it ∈ l, it.notFree = true →
    ∀ n, (n = 0 ∨ n = it.info.size) →
    kDeallocate page l it.info.ptr n = some (it.info, kMark it.info.pagePtr l)
  | [], _, _, it, hm, _, _, _ => by simp at hm
  | hd :: rest, hk, hd', it, hm, hnf, n, hn => by
    have hkey := hk it hm
    have hsz := (dbgSizeOk_iff n it.info.size).2 hn
    simp only [infos, List.map_cons, List.pairwise_cons] at hd'
    by_cases heq : hd = it
    · subst heq
      have hrest : kMark hd.info.pagePtr rest = rest :=
        kMark_of_ne (fun x hx => (hd'.1 x.info (List.mem_map_of_mem hx)).symm)
      rw [kMark_cons_eq hd rest rfl, hrest]
      unfold kDeallocate
      rw [if_pos hkey.symm, if_pos ⟨hsz, rfl, fun _ => hnf⟩]
      simp [keepErases_eq]
    · have hin : it ∈ rest := by
        rcases List.mem_cons.1 hm with h | h
        · exact absurd h.symm heq
        · exact h
      have hne : hd.info.pagePtr ≠ it.info.pagePtr := hd'.1 it.info (List.mem_map_of_mem hin)
      have ih := kDeallocate_finds (fun x hx => hk x (List.mem_cons_of_mem _ hx)) hd'.2 it hin hnf n hn
      rw [kMark_cons_ne hd rest hne]
      unfold kDeallocate
      rw [if_neg (by rw [hkey]; exact hne), ih]
      rfl

/-- a stale entry in front of a live one with the same page address (what would happen if the KEEP branch gave the
    mapping back while keeping the entry, and `mmap` handed the range out again): the legal `deallocate` aborts -/
theorem kDeallocate_stale_aborts {page : Nat} (stale : KInfo) (rest : List KInfo) (ptr n : Nat)
    (hkey : stale.info.pagePtr = dbgLookupKey ptr page) (hfree : stale.notFree = false) :
    kDeallocate page (stale :: rest) ptr n = none := by
  unfold kDeallocate
  rw [if_pos hkey, if_neg]
  intro h
  have := h.2.2 checksNotFree_eq
  rw [hfree] at this
  exact absurd this (by simp)

/-- invariant of the KEEP list: the invariant of the default configuration on all entries, released ones included -/
abbrev KInvG (page : Nat) (R : AInfo → AInfo → Prop) (l : List KInfo) : Prop := DInvG page R (infos l)

theorem kinv_nil (page : Nat) (R : AInfo → AInfo → Prop) : KInvG page R [] := dinv_nil page R

/-- one step of a valid history in the KEEP configuration: no abort, invariant kept, history stays valid; the step
    unmaps nothing and the recorded mappings grow exactly by what was mapped -/
theorem kinv_step {sz page : Nat} {R : AInfo → AInfo → Prop} (hR : Separates R)
    (hsz : 0 < sz) (hp : 0 < page) (hp2 : 2 * page ≤ sizeMax) {l : List KInfo}
    (hi : KInvG page R l) (o : DOp) (os : List DOp) (hv : KValidG sz page R l (o :: os)) :
    ∃ st, kStep sz page l o = some st ∧ KInvG page R st.1 ∧ KValidG sz page R st.1 os ∧
      unmaps st.2 = [] ∧ (infos st.1).map (AInfo.rng page) = (infos l).map (AInfo.rng page) ++ maps st.2 := by
  cases o with
  | alloc n mm =>
    obtain ⟨hfresh, hnext⟩ := hv
    cases hres : kAllocate sz page n (fun _ => mm) l with
    | error e =>
      have hs : kStep sz page l (.alloc n mm) = some (l, []) := by simp [kStep, hres]
      exact ⟨(l, []), hs, hi, hnext _ hs, rfl, by simp [maps]⟩
    | ok r =>
      obtain ⟨ai, l'⟩ := r
      have hs : kStep sz page l (.alloc n mm) = some (l', [.map ai.pagePtr (dbgMapLen ai.cap page)]) := by
        simp [kStep, hres]
      obtain ⟨⟨l0, hd0⟩, hl'⟩ := kAllocate_ok hres
      obtain ⟨hf, _, _, _⟩ := dbg_facts hsz hp hp2 hd0
      have hfr := hfresh ai l' hres
      have he := entryOK_of_alloc hsz hp hp2 hd0 hfr.1
      have hinf : infos l' = infos l ++ [ai] := by rw [hl']; simp [infos]
      refine ⟨_, hs, ?_, hnext _ hs, rfl, ?_⟩
      · show DInvG page R (infos l')
        rw [hinf]
        refine dinv_append hi he (fun it hit => ?_)
        obtain ⟨x, hx, rfl⟩ := List.mem_map.1 hit
        exact hfr.2 x hx
      · show (infos l').map (AInfo.rng page) = _
        rw [hinf, List.map_append]
        simp only [maps, List.map_cons, List.map_nil, AInfo.rng, hf.maplen]
  | free ptr n =>
    obtain ⟨⟨it, hit, hnf, hptr, hn⟩, hnext⟩ := hv
    have hkeys : ∀ x ∈ l, dbgLookupKey x.info.ptr page = x.info.pagePtr :=
      fun x hx => (hi.entry x.info (List.mem_map_of_mem hx)).key
    have hfind := kDeallocate_finds hkeys (distinct_of_rel hR hi) it hit hnf n hn
    rw [hptr] at hfind
    have hs : kStep sz page l (.free ptr n) = some (kMark it.info.pagePtr l, []) := by
      simp [kStep, hfind, keepUnmaps_eq]
    refine ⟨_, hs, ?_, hnext _ hs, rfl, ?_⟩
    · show DInvG page R (infos (kMark it.info.pagePtr l))
      rw [infos_kMark]; exact hi
    · show (infos (kMark it.info.pagePtr l)).map (AInfo.rng page) = _
      rw [infos_kMark]; simp [maps]

theorem kRun_ok {sz page : Nat} {R : AInfo → AInfo → Prop} (hR : Separates R)
    (hsz : 0 < sz) (hp : 0 < page) (hp2 : 2 * page ≤ sizeMax) :
    ∀ (ops : List DOp) (l : List KInfo), KInvG page R l → KValidG sz page R l ops →
    ∃ st, kRun sz page l ops = some st ∧ KInvG page R st.1 ∧ unmaps st.2 = [] ∧
      (infos st.1).map (AInfo.rng page) = (infos l).map (AInfo.rng page) ++ maps st.2
  | [], l, hi, _ => ⟨(l, []), rfl, hi, rfl, by simp [maps]⟩
  | o :: os, l, hi, hv => by
    obtain ⟨st1, hs, hi1, hv1, hu1, hm1⟩ := kinv_step hR hsz hp hp2 hi o os hv
    obtain ⟨st2, hr, hi2, hu2, hm2⟩ := kRun_ok hR hsz hp hp2 os st1.1 hi1 hv1
    refine ⟨(st2.1, st1.2 ++ st2.2), by simp only [kRun, hs, hr], hi2, ?_, ?_⟩
    · rw [unmaps_append, hu1, hu2]; rfl
    · rw [maps_append, hm2, hm1, List.append_assoc]

/-- the destructor's `munmap` calls, entry by entry -/
theorem unmaps_kDestroy {page : Nat} {l : List KInfo} (h : ∀ it ∈ infos l, EntryOK page it) :
    unmaps (kDestroy page l).1 = (infos l).map (AInfo.rng page) := by
  unfold kDestroy infos
  simp only
  induction l with
  | nil => rfl
  | cons x xs ih =>
    have hx := dbgDtorUnmapLen_eq (h x.info (by simp [infos]))
    simp only [List.map_cons, unmaps, AInfo.rng, hx]
    rw [ih (fun it hit => h it (by simp only [infos, List.map_cons, List.mem_cons]; exact Or.inr hit))]

/-! ways to establish validity of a concrete KEEP history (used by the non-vacuity examples) -/

theorem kvalid_alloc_ok {sz page : Nat} {R : AInfo → AInfo → Prop} {l l' : List KInfo} {n : Nat} {mm : Option Nat}
    {ai : AInfo} {os : List DOp} (hres : kAllocate sz page n (fun _ => mm) l = .ok (ai, l'))
    (h1 : page ∣ ai.pagePtr) (h2 : ∀ it ∈ l, R it.info ai) (hnext : KValidG sz page R l' os) :
    KValidG sz page R l (.alloc n mm :: os) := by
  refine ⟨fun ai' l'' h => ?_, fun st hs => ?_⟩
  · rw [hres] at h
    simp only [Except.ok.injEq, Prod.mk.injEq] at h
    rw [← h.1]; exact ⟨h1, h2⟩
  · simp only [kStep, hres, Option.some.injEq] at hs
    rw [← hs]; exact hnext

theorem kvalid_free {sz page : Nat} {R : AInfo → AInfo → Prop} {l l' : List KInfo} {ptr n : Nat} {it : KInfo} {a : AInfo}
    {os : List DOp} (hfind : kDeallocate page l ptr n = some (a, l')) (hit : it ∈ l) (hnf : it.notFree = true)
    (hptr : it.info.ptr = ptr) (hn : n = 0 ∨ n = it.info.size) (hnext : KValidG sz page R l' os) :
    KValidG sz page R l (.free ptr n :: os) := by
  refine ⟨⟨it, hit, hnf, hptr, hn⟩, fun st hs => ?_⟩
  simp only [kStep, hfind, Option.some.injEq] at hs
  rw [← hs]; exact hnext

end DV.C15
