/-
C10 helper lemmas, part 6: `operator*=` (per right-digit single products summed in a double-width temporary,
result truncated to n digits).
-/
import DuneVerif.Proofs.C10Arith
import Mathlib.Tactic.Ring

namespace DV.C10
open DV.C10.Gen

/-! ### congruences modulo `N`, written with `%` -/

theorem meq_add {N a b c d : Nat} (h1 : a % N = b % N) (h2 : c % N = d % N) : (a + c) % N = (b + d) % N := by
  rw [Nat.add_mod, h1, h2, ← Nat.add_mod]

theorem meq_mul_left {N b c : Nat} (a : Nat) (h : b % N = c % N) : (a * b) % N = (a * c) % N := by
  rw [Nat.mul_mod, h, ← Nat.mul_mod]

/-! ### inner loop: one digit of the right factor -/

theorem mulDigitLoop_length : ∀ (a : List Nat) (xm c : Nat), (mulDigitLoop a xm c).length = a.length
  | [], _, _ => rfl
  | a :: as, xm, c => by simp only [mulDigitLoop, List.length_cons]; rw [mulDigitLoop_length as]

theorem mulDigitLoop_digs : ∀ (a : List Nat) (xm c : Nat), Digs (mulDigitLoop a xm c)
  | [], _, _ => by simp [mulDigitLoop]
  | a :: as, xm, c => by
    simp only [mulDigitLoop, digs_cons, and_bitmask]
    exact ⟨Nat.mod_lt _ B_pos, mulDigitLoop_digs as _ _⟩

/-- the carry `(digitproduct >> bits) & bitmask` loses nothing because `digitproduct < B*B` -/
theorem mul_carry {a xm c : Nat} (ha : a < B) (hx : xm < B) (hc : c < B) :
    (a * xm + c) / B % B = (a * xm + c) / B ∧ (a * xm + c) / B < B := by
  have h : a * xm ≤ 65535 * 65535 := Nat.mul_le_mul (by rw [B_eq] at ha; omega) (by rw [B_eq] at hx; omega)
  rw [B_eq] at *
  generalize a * xm = t at *
  omega

theorem mulDigitLoop_val : ∀ (a : List Nat) (xm c : Nat), Digs a → xm < B → c < B →
    val (mulDigitLoop a xm c) = (val a * xm + c) % W a.length
  | [], _, _, _, _, _ => by simp [mulDigitLoop, W, Nat.mod_one]
  | a :: as, xm, c, ha, hx, hc => by
    rw [digs_cons] at ha
    obtain ⟨h1, h2⟩ := mul_carry ha.1 hx hc
    simp only [mulDigitLoop, and_bitmask, shr_bits, val_cons, List.length_cons, W_succ]
    rw [h1, mulDigitLoop_val as xm _ ha.2 hx h2]
    have e : (a + B * val as) * xm + c = (a * xm + c) + B * (val as * xm) := by ring
    rw [e, digit_step, Nat.add_comm (val as * xm)]

/-! ### `fit`: a value placed into the double-width temporary -/

theorem fit_wf (w : Nat) {l : List Nat} (hl : Digs l) : Wf w (fit w l) := by
  refine ⟨?_, digs_take (digs_append.2 ⟨hl, digs_zeros w⟩) w⟩
  simp only [fit, List.length_take, List.length_append, zeros, List.length_replicate]
  omega

theorem fit_val (w : Nat) {l : List Nat} (hl : Digs l) : val (fit w l) = val l % W w := by
  rw [fit, val_take (digs_append.2 ⟨hl, digs_zeros w⟩)
    (by simp only [List.length_append, zeros, List.length_replicate]; omega),
    val_append, val_zeros, Nat.mul_zero, Nat.add_zero]

/-! ### outer loop -/

theorem mulOuter_spec {w n : Nat} (hnw : n ≤ w) {a : List Nat} (ha : Wf n a) :
    ∀ (xs : List Nat) (m : Nat) (acc : List Nat), Digs xs → Wf w acc →
      Wf w (mulOuter w a xs m acc) ∧
      val (mulOuter w a xs m acc) % W n = (val acc + W m * (val a * val xs)) % W n
  | [], m, acc, _, hacc => by simp [mulOuter, hacc]
  | xm :: xs, m, acc, hxs, hacc => by
    rw [digs_cons] at hxs
    have hsd : Digs (zeros m ++ mulDigitLoop a xm 0) := digs_append.2 ⟨digs_zeros m, mulDigitLoop_digs _ _ _⟩
    have hswf := fit_wf w hsd
    have hsv : val (fit w (zeros m ++ mulDigitLoop a xm 0)) = (W m * ((val a * xm) % W n)) % W w := by
      rw [fit_val w hsd, val_append, val_zeros, Nat.zero_add,
        mulDigitLoop_val a xm 0 ha.2 hxs.1 B_pos, ha.1, Nat.add_zero]
      simp only [zeros, List.length_replicate]
    have hacc' := add_wf hacc hswf
    obtain ⟨ih1, ih2⟩ := mulOuter_spec hnw ha xs (m + 1) _ hxs.2 hacc'
    simp only [mulOuter]
    refine ⟨ih1, ?_⟩
    rw [ih2]
    have hdvd : W n ∣ W w := W_dvd hnw
    -- the accumulator after adding this single product, modulo W n
    have h1 : val (add acc (fit w (zeros m ++ mulDigitLoop a xm 0))) % W n
        = (val acc + W m * (val a * xm)) % W n := by
      rw [add_val' hacc hswf, Nat.mod_mod_of_dvd _ hdvd, hsv]
      apply meq_add rfl
      rw [Nat.mod_mod_of_dvd _ hdvd]
      exact meq_mul_left _ (Nat.mod_mod _ _)
    have h2 := meq_add h1 (rfl : (W (m + 1) * (val a * val xs)) % W n = _)
    rw [h2, W_succ, val_cons]
    congr 1
    ring

theorem mul_spec {k : Nat} {a x : List Nat} (ha : Wf (ndigits k) a) (hx : Wf (ndigits k) x) :
    Wf (ndigits k) (mul k a x) ∧ val (mul k a x) = (val a * val x) % W (ndigits k) := by
  have hnw := (ndigits_double k).2
  obtain ⟨h1, h2⟩ := mulOuter_spec hnw ha x 0 (zeros (ndigits (2 * k))) hx.2 (wf_zeros _)
  simp only [mul, ha.1]
  refine ⟨⟨?_, digs_take h1.2 _⟩, ?_⟩
  · rw [List.length_take, h1.1]; omega
  · rw [val_take h1.2 (by rw [h1.1]; exact hnw), h2, val_zeros, Nat.zero_add, W_zero, Nat.one_mul]

end DV.C10
