import DuneVerif.Model.C07
/-!
# C07 — helper definitions and lemmas for `Props/C07.lean` (core Lean only)
-/
namespace DV.C07.Proofs
open DV.C07 TMap

/-! ## definitions used in the statements -/

/-- exclusive prefix sums `[0, l0, l0+l1, …]` (same length as the input) -/
def prefixSumsFrom : Nat → List Nat → List Nat
  | _, [] => []
  | s, l :: ls => s :: prefixSumsFrom (s + l) ls
def prefixSums (ls : List Nat) : List Nat := prefixSumsFrom 0 ls

/-- a reduction tree -/
inductive Tree (β : Type)
  | leaf (x : β)
  | node (l r : Tree β)

def Tree.eval {β} (op : β → β → β) : Tree β → β
  | .leaf x => x
  | .node l r => op (l.eval op) (r.eval op)
def Tree.leaves {β} : Tree β → List β
  | .leaf x => [x]
  | .node l r => l.leaves ++ r.leaves

def Item.wf {α β} : Item α β → Prop
  | .stat tm n cells => tm.wf ∧ cells.length = n * tm.extent
  | .dyn tm n cells => tm.wf ∧ cells.length = n * tm.extent
  | .raw _ => True

/-- destination `d` has the kind (and datatype, static count) of item `it` -/
def compatible {α β} : Item α β → Dest α β → Prop
  | .stat tm n _, .stat tm' n' _ => tm = tm' ∧ n = n'
  | .dyn tm _ _, .dyn tm' _ _ => tm = tm'
  | .raw _, .raw _ => True
  | _, _ => False

/-- what the reader holds after a direct MPI transfer of `it` into `d` -/
def received {α β} : Item α β → Dest α β → Dest α β
  | .stat tm n cells, .stat _ _ dcells => .stat tm n (transferN tm n cells 0 dcells 0)
  | .dyn tm n cells, .dyn _ dflt dcells =>
      .dyn tm dflt (transferN tm n cells 0 (resizeCells tm.extent dflt dcells n) 0)
  | .raw bytes, .raw _ => .raw bytes
  | _, d => d

/-! ## copyCells / transfer -/

theorem copyCells_length {α} (src : List α) (soff : Nat) (dst : List α) (doff len : Nat) :
    (copyCells src soff dst doff len).length = dst.length := by
  sorry

theorem copyCells_getElem? {α} (src : List α) (soff : Nat) (dst : List α) (doff len i : Nat) :
    (copyCells src soff dst doff len)[i]? =
      if doff ≤ i ∧ i < doff + len then ovw src[soff + (i - doff)]? dst[i]? else dst[i]? := by
  sorry

theorem transfer_length {α} (tm : TMap) (src : List α) (soff : Nat) (dst : List α) (doff : Nat) :
    (transfer tm src soff dst doff).length = dst.length := by
  sorry

theorem transfer_getElem? {α} (tm : TMap) (src : List α) (soff : Nat) (dst : List α) (doff i : Nat) :
    (transfer tm src soff dst doff)[i]? =
      if doff ≤ i ∧ tm.covers (i - doff) = true then ovw src[soff + (i - doff)]? dst[i]? else dst[i]? := by
  sorry

theorem transferN_length {α} (tm : TMap) (n : Nat) (src : List α) (soff : Nat) (dst : List α) (doff : Nat) :
    (transferN tm n src soff dst doff).length = dst.length := by
  sorry

theorem transferN_getElem? {α} (tm : TMap) (hwf : tm.wf) (hpos : 0 < tm.extent) (n : Nat)
    (src : List α) (soff : Nat) (dst : List α) (doff i : Nat) :
    (transferN tm n src soff dst doff)[i]? =
      if doff ≤ i ∧ (i - doff) / tm.extent < n ∧ tm.covers ((i - doff) % tm.extent) = true
      then ovw src[soff + (i - doff)]? dst[i]? else dst[i]? := by
  sorry

theorem unpack_pack_elem {α} (tm : TMap) (src : List α) (soff : Nat) (dst : List α) (doff : Nat)
    (hsrc : ∀ b ∈ tm.blocks, soff + b.1 + b.2 ≤ src.length) :
    unpackElem tm (packElem tm src soff) dst doff = transfer tm src soff dst doff := by
  sorry

theorem fieldVector_covers (d n w j : Nat) :
    (Types.fieldVector d n (basic w)).covers j = true ↔ d ≤ j ∧ j < d + n * w := by
  sorry

/-! ## gatherv / scatterv -/

theorem gathervAt_prefix {α} (tm : TMap) (hwf : tm.wf) (parts : List (List α × Nat))
    (hl : ∀ p ∈ parts, p.1.length = p.2 * tm.extent) (out : List α) :
    Spec.gathervAt tm (parts.map (·.1)) (parts.map (·.2)) (prefixSums (parts.map (·.2))) out
      = transferN tm (parts.map (·.2)).sum (parts.map (·.1)).flatten 0 out 0 := by
  sorry

theorem gathervAt_prefix_full {α} (e : Nat) (parts : List (List α × Nat))
    (hl : ∀ p ∈ parts, p.1.length = p.2 * e) (out : List α)
    (hout : out.length = (parts.map (·.2)).sum * e) :
    Spec.gathervAt (full e) (parts.map (·.1)) (parts.map (·.2)) (prefixSums (parts.map (·.2))) out
      = (parts.map (·.1)).flatten := by
  sorry

theorem gatherAt_concat {α} (tm : TMap) (hwf : tm.wf) (n : Nat) (ins : List (List α))
    (hl : ∀ inp ∈ ins, inp.length = n * tm.extent) (out : List α) :
    Spec.gatherAt tm n ins out = transferN tm (ins.length * n) ins.flatten 0 out 0 := by
  sorry

theorem scattervAt_flatten {α} (tm : TMap) (hwf : tm.wf) (parts : List (List α × Nat))
    (hl : ∀ p ∈ parts, p.1.length = p.2 * tm.extent) (r : Nat) (hr : r < parts.length)
    (rcv : List α) :
    Spec.scattervAt tm (parts.map (·.1)).flatten (parts[r].2) ((prefixSums (parts.map (·.2))).getD r 0) rcv
      = transferN tm (parts[r].2) (parts[r].1) 0 rcv 0 := by
  sorry

theorem scatterv_gatherv_full {α} (e : Nat) (parts : List (List α × Nat))
    (hl : ∀ p ∈ parts, p.1.length = p.2 * e) (out : List α) (hout : out.length = (parts.map (·.2)).sum * e)
    (r : Nat) (hr : r < parts.length) (rcv : List α) (hrcv : rcv.length = parts[r].2 * e) :
    Spec.scattervAt (full e)
      (Spec.gathervAt (full e) (parts.map (·.1)) (parts.map (·.2)) (prefixSums (parts.map (·.2))) out)
      (parts[r].2) ((prefixSums (parts.map (·.2))).getD r 0) rcv = parts[r].1 := by
  sorry

/-! ## reductions -/

theorem tree_eval_eq_foldRanks {β : Type} (op : β → β → β) (hassoc : ∀ a b c, op (op a b) c = op a (op b c))
    (hcomm : ∀ a b, op a b = op b a) (t : Tree β) (xs : List β) (hp : t.leaves.Perm xs) :
    some (t.eval op) = Spec.foldRanks op xs := by
  sorry

/-! ## sequential stand-in -/

theorem seq_reduceScalar {α} (e : Nat) (op : List α → List α → List α) (x : List α) (hx : x.length = e) :
    Spec.allreduceVal e 1 op [x] = Seq.reduceScalar x := by
  sorry

theorem seq_reduceInplace {α} (e len : Nat) (op : List α → List α → List α) (inout : List α)
    (h : len * e ≤ inout.length) :
    Spec.allreduce e len op [inout] [inout] = [Seq.reduceInplace inout len] := by
  sorry

theorem seq_allreduceInOut {α} (e len : Nat) (op : List α → List α → List α) (inp out : List α)
    (h : len * e ≤ inp.length) :
    Spec.allreduce e len op [inp] [out] = [Seq.allreduceInOut e inp out len] := by
  sorry

theorem seq_iallreduceInOut {α} (e n : Nat) (op : List α → List α → List α) (dataIn dataOut : List α)
    (hi : dataIn.length = n * e) (ho : dataOut.length = n * e) :
    Spec.allreduce e n op [dataIn] [dataOut] = [Seq.iallreduceInOut dataIn dataOut] := by
  sorry

theorem seq_iallreduceInplace {α} (e n : Nat) (op : List α → List α → List α) (data : List α)
    (h : data.length = n * e) :
    Spec.allreduce e n op [data] [data] = [Seq.iallreduceInplace data] := by
  sorry

theorem seq_gather {α} (e : Nat) (inp out : List α) (len root : Nat) :
    Spec.gather (full e) len 0 [inp] [out] = [Seq.gather e inp out len root] := by
  sorry

theorem seq_igather {α} (e : Nat) (dataIn dataOut : List α) (root : Nat) :
    Spec.gather (full e) 1 0 [dataIn] [dataOut] = [Seq.igather e dataIn dataOut root] := by
  sorry

theorem seq_gatherv {α} (e : Nat) (inp : List α) (sendLen : Nat) (out : List α) (displ root : Nat) :
    Spec.gatherv (full e) 0 [inp] [sendLen] [displ] [out] = [Seq.gatherv e inp sendLen out sendLen displ root] := by
  sorry

theorem seq_scatter {α} (e : Nat) (send recv : List α) (len root : Nat) :
    Spec.scatter (full e) len 0 [send] [recv] = [Seq.scatter e send recv len root] := by
  sorry

theorem seq_iscatter {α} (e : Nat) (dataIn dataOut : List α) (root : Nat) :
    Spec.scatter (full e) 1 0 [dataIn] [dataOut] = [Seq.iscatter e dataIn dataOut root] := by
  sorry

theorem seq_scatterv {α} (e : Nat) (send : List α) (sendLen displ : Nat) (recv : List α) (root : Nat) :
    Spec.scatterv (full e) 0 [send] [sendLen] [displ] [recv] = [Seq.scatterv e send sendLen displ recv sendLen root] := by
  sorry

theorem seq_allgather {α} (e : Nat) (sbuf : List α) (count : Nat) (rbuf : List α) :
    Spec.allgather (full e) count [sbuf] [rbuf] = [Seq.allgather e sbuf count rbuf] := by
  sorry

theorem seq_iallgather {α} (e : Nat) (dataIn dataOut : List α) :
    Spec.allgather (full e) 1 [dataIn] [dataOut] = [Seq.iallgather e dataIn dataOut] := by
  sorry

theorem seq_allgatherv {α} (e : Nat) (inp : List α) (sendLen : Nat) (out : List α) (displ : Nat) :
    Spec.allgatherv (full e) [inp] [sendLen] [displ] [out] = [Seq.allgatherv e inp sendLen out sendLen displ] := by
  sorry

/-! ## MPIPack -/

theorem packItem_spec {α β} (C : Codec α β) (ofNat : Nat → α) (bound : Nat → Nat) (hb : ∀ k, k ≤ bound k)
    (zero : β) (st : PState β) (hpos : st.pos ≤ st.buf.length) (it : DV.C07.Item α β) :
    let st' := packItem C ofNat bound zero st it
    st'.pos ≤ st'.buf.length ∧ st'.pos = st.pos + (it.wire C ofNat).length ∧
      st'.buf.take st'.pos = st.buf.take st.pos ++ it.wire C ofNat := by
  sorry

theorem roundtrip {α β} (C : Codec α β) (ofNat : Nat → α) (toNat : α → Nat)
    (hnat : ∀ n, toNat (ofNat n) = n) (bound : Nat → Nat) (hb : ∀ k, k ≤ bound k) (zero : β)
    (st : PState β) (hpos : st.pos ≤ st.buf.length) (pairs : List (DV.C07.Item α β × Dest α β))
    (hwf : ∀ p ∈ pairs, Item.wf p.1 ∧ compatible p.1 p.2) :
    let st' := packAll C ofNat bound zero st (pairs.map (·.1))
    unpackAll C toNat zero ⟨st'.buf, st.pos⟩ (pairs.map (·.2))
      = (pairs.map (fun p => received p.1 p.2), ⟨st'.buf, st'.pos⟩) := by
  sorry

theorem received_full_stat {α β} (e n : Nat) (cells dcells : List α) (hc : cells.length = n * e)
    (hd : dcells.length = n * e) :
    received (β := β) (.stat (full e) n cells) (.stat (full e) n dcells) = .stat (full e) n cells := by
  sorry

theorem received_full_dyn {α β} (e n m : Nat) (he : 0 < e) (cells dflt dcells : List α) (hc : cells.length = n * e)
    (hdf : dflt.length = e) (hd : dcells.length = m * e) :
    received (β := β) (.dyn (full e) n cells) (.dyn (full e) dflt dcells) = .dyn (full e) dflt cells := by
  sorry

end DV.C07.Proofs
