import DuneVerif.Model.C07
/-!
# C07 — helper definitions and lemmas for `Props/C07.lean` (core Lean only)
-/
namespace DV.C07.Proofs
open DV.C07 TMap
set_option linter.unusedSimpArgs false

/-! ## definitions used in the statements -/

/-- exclusive prefix sums `[0, l0, l0+l1, …]` (same length as the input) -/
def prefixSumsFrom : Nat → List Nat → List Nat
  | _, [] => []
  | s, l :: ls => s :: prefixSumsFrom (s + l) ls
def prefixSums (ls : List Nat) : List Nat := prefixSumsFrom 0 ls

/-- a reduction tree -/
inductive Tree (β : Type)
  | leaf (x : β)
  | node (l r : Tree β)

def Tree.eval {β} (op : β → β → β) : Tree β → β
  | .leaf x => x
  | .node l r => op (l.eval op) (r.eval op)
def Tree.leaves {β} : Tree β → List β
  | .leaf x => [x]
  | .node l r => l.leaves ++ r.leaves

def Item.wf {α β} : Item α β → Prop
  | .stat tm n cells => tm.wf ∧ cells.length = n * tm.extent
  | .dyn tm n cells => tm.wf ∧ cells.length = n * tm.extent
  | .raw _ => True

/-- destination `d` has the kind (and datatype, static count) of item `it` -/
def compatible {α β} : Item α β → Dest α β → Prop
  | .stat tm n _, .stat tm' n' _ => tm = tm' ∧ n = n'
  | .dyn tm _ _, .dyn tm' _ _ => tm = tm'
  | .raw _, .raw _ => True
  | _, _ => False

/-- what the reader holds after a direct MPI transfer of `it` into `d` -/
def received {α β} : Item α β → Dest α β → Dest α β
  | .stat tm n cells, .stat _ _ dcells => .stat tm n (transferN tm n cells 0 dcells 0)
  | .dyn tm n cells, .dyn _ dflt dcells =>
      .dyn tm dflt (transferN tm n cells 0 (resizeCells tm.extent dflt dcells n) 0)
  | .raw bytes, .raw _ => .raw bytes
  | _, d => d

/-! ## copyCells / transfer -/

theorem copyCells_length {α} (src : List α) (soff : Nat) (dst : List α) (doff len : Nat) :
    (copyCells src soff dst doff len).length = dst.length := by
  induction len generalizing soff dst doff with
  | zero => simp [copyCells]
  | succ n ih =>
    unfold copyCells
    split
    · rw [ih]; simp
    · rw [ih]

theorem ovw_none {α} (d : Option α) : ovw none d = d := rfl

theorem copyCells_getElem? {α} (src : List α) (soff : Nat) (dst : List α) (doff len i : Nat) :
    (copyCells src soff dst doff len)[i]? =
      if doff ≤ i ∧ i < doff + len then ovw src[soff + (i - doff)]? dst[i]? else dst[i]? := by
  induction len generalizing soff dst doff with
  | zero => simp [copyCells]; omega
  | succ n ih =>
    unfold copyCells
    split
    next x hx =>
      rw [ih]
      by_cases h1 : doff + 1 ≤ i ∧ i < doff + 1 + n
      · have h2 : doff ≤ i ∧ i < doff + (n + 1) := by omega
        have h3 : soff + 1 + (i - (doff + 1)) = soff + (i - doff) := by omega
        have h4 : doff ≠ i := by omega
        simp [h1, h2, h3, List.getElem?_set, h4]
      · by_cases h5 : i = doff
        · subst h5
          have h6 : i ≤ i ∧ i < i + (n + 1) := by omega
          simp [h1, h6, hx, List.getElem?_set, ovw]
          by_cases h7 : i < dst.length <;> simp [h7]
        · have h2 : ¬ (doff ≤ i ∧ i < doff + (n + 1)) := by omega
          have h4 : doff ≠ i := by omega
          simp [h1, h2, List.getElem?_set, h4]
    next hx =>
      rw [ih]
      by_cases h1 : doff + 1 ≤ i ∧ i < doff + 1 + n
      · have h2 : doff ≤ i ∧ i < doff + (n + 1) := by omega
        have h3 : soff + 1 + (i - (doff + 1)) = soff + (i - doff) := by omega
        simp [h1, h2, h3]
      · by_cases h5 : i = doff
        · subst h5
          have h6 : i ≤ i ∧ i < i + (n + 1) := by omega
          simp [h1, h6, hx, ovw]
        · have h2 : ¬ (doff ≤ i ∧ i < doff + (n + 1)) := by omega
          simp [h1, h2]
/-- blocks version of `covers` -/
def coversL (bs : List (Nat × Nat)) (j : Nat) : Bool := bs.any (fun b => decide (b.1 ≤ j) && decide (j < b.1 + b.2))

theorem ovw_ovw {α} (s d : Option α) : ovw s (ovw s d) = ovw s d := by
  cases s <;> cases d <;> simp [ovw]

def transferL {α} (bs : List (Nat × Nat)) (src : List α) (soff : Nat) (dst : List α) (doff : Nat) : List α :=
  bs.foldl (fun acc b => copyCells src (soff + b.1) acc (doff + b.1) b.2) dst

theorem transferL_length {α} (bs : List (Nat × Nat)) (src : List α) (soff : Nat) (dst : List α) (doff : Nat) :
    (transferL bs src soff dst doff).length = dst.length := by
  induction bs generalizing dst with
  | nil => rfl
  | cons b bs ih => simp only [transferL, List.foldl_cons] at ih ⊢; rw [ih, copyCells_length]

theorem transferL_getElem? {α} (bs : List (Nat × Nat)) (src : List α) (soff : Nat) (dst : List α) (doff i : Nat) :
    (transferL bs src soff dst doff)[i]? =
      if doff ≤ i ∧ coversL bs (i - doff) = true then ovw src[soff + (i - doff)]? dst[i]? else dst[i]? := by
  induction bs generalizing dst with
  | nil => simp [transferL, coversL]
  | cons b bs ih =>
    simp only [transferL, List.foldl_cons] at ih ⊢
    rw [ih, copyCells_getElem?]
    simp only [coversL, List.any_cons, Bool.or_eq_true, Bool.and_eq_true, decide_eq_true_eq]
    by_cases hcb : (bs.any fun b => decide (b.1 ≤ i - doff) && decide (i - doff < b.1 + b.2)) = true
    all_goals by_cases hd : doff ≤ i
    all_goals by_cases hb : doff + b.1 ≤ i ∧ i < doff + b.1 + b.2
    all_goals first
      | (exfalso; omega)
      | (have hb' : (b.1 ≤ i - doff ∧ i - doff < b.1 + b.2) := by omega
         have h3 : soff + b.1 + (i - (doff + b.1)) = soff + (i - doff) := by omega
         simp only [hcb, hd, hb, hb', h3, ovw_ovw, and_self, true_and, or_true, true_or, if_true, or_false, if_false, false_and, and_false, Bool.false_eq_true])
      | (have hb' : ¬ (b.1 ≤ i - doff ∧ i - doff < b.1 + b.2) := by omega
         simp only [hcb, hd, hb, hb', ovw_ovw, and_self, true_and, or_true, true_or, if_true, or_false, false_or, if_false, false_and, and_false, Bool.false_eq_true])
      | (simp only [hd, hb, false_and, if_false])

theorem transfer_length {α} (tm : TMap) (src : List α) (soff : Nat) (dst : List α) (doff : Nat) :
    (transfer tm src soff dst doff).length = dst.length :=
  transferL_length tm.blocks src soff dst doff

theorem transfer_getElem? {α} (tm : TMap) (src : List α) (soff : Nat) (dst : List α) (doff i : Nat) :
    (transfer tm src soff dst doff)[i]? =
      if doff ≤ i ∧ tm.covers (i - doff) = true then ovw src[soff + (i - doff)]? dst[i]? else dst[i]? :=
  transferL_getElem? tm.blocks src soff dst doff i

theorem transferN_succ {α} (tm : TMap) (n : Nat) (src : List α) (soff : Nat) (dst : List α) (doff : Nat) :
    transferN tm (n + 1) src soff dst doff =
      transfer tm src (soff + n * tm.extent) (transferN tm n src soff dst doff) (doff + n * tm.extent) := by
  simp [transferN, List.range_succ, List.foldl_append]

theorem transferN_zero {α} (tm : TMap) (src : List α) (soff : Nat) (dst : List α) (doff : Nat) :
    transferN tm 0 src soff dst doff = dst := by simp [transferN]

theorem transferN_length {α} (tm : TMap) (n : Nat) (src : List α) (soff : Nat) (dst : List α) (doff : Nat) :
    (transferN tm n src soff dst doff).length = dst.length := by
  induction n with
  | zero => simp [transferN_zero]
  | succ n ih => rw [transferN_succ, transfer_length, ih]

theorem covers_lt (tm : TMap) (hwf : tm.wf) (j : Nat) (h : tm.covers j = true) : j < tm.extent := by
  simp only [covers, List.any_eq_true, Bool.and_eq_true, decide_eq_true_eq] at h
  obtain ⟨b, hb, h1, h2⟩ := h
  have := hwf b hb
  omega

theorem transferN_getElem? {α} (tm : TMap) (hwf : tm.wf) (hpos : 0 < tm.extent) (n : Nat)
    (src : List α) (soff : Nat) (dst : List α) (doff i : Nat) :
    (transferN tm n src soff dst doff)[i]? =
      if doff ≤ i ∧ (i - doff) / tm.extent < n ∧ tm.covers ((i - doff) % tm.extent) = true
      then ovw src[soff + (i - doff)]? dst[i]? else dst[i]? := by
  induction n with
  | zero => simp [transferN_zero]
  | succ n ih =>
    rw [transferN_succ, transfer_getElem?, ih]
    have hdm := Nat.div_add_mod (i - doff) tm.extent
    have hml := Nat.mod_lt (i - doff) hpos
    generalize hq : (i - doff) / tm.extent = q at *
    generalize hr : (i - doff) % tm.extent = r at *
    by_cases hA : doff + n * tm.extent ≤ i ∧ tm.covers (i - (doff + n * tm.extent)) = true
    · have hj := covers_lt tm hwf _ hA.2
      have hqn : q = n := by
        have h1 : i - doff = tm.extent * n + (i - (doff + n * tm.extent)) := by
          rw [Nat.mul_comm]; omega
        have h2 : (i - doff) / tm.extent = n := by
          rw [h1, Nat.mul_add_div hpos, Nat.div_eq_of_lt hj, Nat.add_zero]
        omega
      have hrj : r = i - (doff + n * tm.extent) := by
        subst hqn
        have : tm.extent * q = q * tm.extent := Nat.mul_comm _ _
        omega
      have hidx : soff + n * tm.extent + (i - (doff + n * tm.extent)) = soff + (i - doff) := by omega
      have hd : doff ≤ i := by omega
      rw [if_pos hA, hidx]
      have hc : tm.covers r = true := by rw [hrj]; exact hA.2
      have h1 : ¬ (doff ≤ i ∧ q < n ∧ tm.covers r = true) := by omega
      have h2 : (doff ≤ i ∧ q < n + 1 ∧ tm.covers r = true) := ⟨hd, by omega, hc⟩
      rw [if_neg h1, if_pos h2]
    · rw [if_neg hA]
      have : (doff ≤ i ∧ q < n + 1 ∧ tm.covers r = true) ↔ (doff ≤ i ∧ q < n ∧ tm.covers r = true) := by
        constructor
        · rintro ⟨hd, hq', hc⟩
          refine ⟨hd, ?_, hc⟩
          by_cases hqn : q = n
          · exfalso
            apply hA
            subst hqn
            have : tm.extent * q = q * tm.extent := Nat.mul_comm _ _
            have h3 : i - (doff + q * tm.extent) = r := by omega
            exact ⟨by omega, by rw [h3]; exact hc⟩
          · omega
        · rintro ⟨hd, hq', hc⟩
          exact ⟨hd, by omega, hc⟩
      by_cases h : (doff ≤ i ∧ q < n ∧ tm.covers r = true)
      · rw [if_pos h, if_pos (this.mpr h)]
      · rw [if_neg h, if_neg (fun h' => h (this.mp h'))]
/-- source congruence -/
theorem copyCells_src_congr {α} (src1 src2 : List α) (s1 s2 : Nat) (dst : List α) (d len : Nat)
    (h : ∀ j, j < len → src1[s1 + j]? = src2[s2 + j]?) :
    copyCells src1 s1 dst d len = copyCells src2 s2 dst d len := by
  induction len generalizing s1 s2 dst d with
  | zero => rfl
  | succ n ih =>
    have h0 := h 0 (by omega)
    simp only [Nat.add_zero] at h0
    have hrest : ∀ j, j < n → src1[s1 + 1 + j]? = src2[s2 + 1 + j]? := by
      intro j hj
      have := h (j + 1) (by omega)
      rw [show s1 + 1 + j = s1 + (j + 1) by omega, show s2 + 1 + j = s2 + (j + 1) by omega]
      exact this
    unfold copyCells
    rw [h0]
    split
    · exact ih _ _ _ _ hrest
    · exact ih _ _ _ _ hrest

theorem transfer_src_congr {α} (tm : TMap) (hwf : tm.wf) (src1 src2 : List α) (s1 s2 : Nat) (dst : List α) (d : Nat)
    (h : ∀ j, j < tm.extent → src1[s1 + j]? = src2[s2 + j]?) :
    transfer tm src1 s1 dst d = transfer tm src2 s2 dst d := by
  unfold transfer
  have hwf' : ∀ b ∈ tm.blocks, b.1 + b.2 ≤ tm.extent := hwf
  generalize tm.blocks = bs at hwf' ⊢
  induction bs generalizing dst with
  | nil => rfl
  | cons b bs ih =>
    simp only [List.foldl_cons]
    have hb := hwf' b (by simp)
    rw [copyCells_src_congr src1 src2 (s1 + b.1) (s2 + b.1) dst (d + b.1) b.2
      (by intro j hj; rw [Nat.add_assoc, Nat.add_assoc]; exact h _ (by omega))]
    exact ih _ (fun b' hb' => hwf' b' (by simp [hb']))

theorem transferN_src_congr {α} (tm : TMap) (hwf : tm.wf) (n : Nat) (src1 src2 : List α) (s1 s2 : Nat) (dst : List α)
    (d : Nat) (h : ∀ j, j < n * tm.extent → src1[s1 + j]? = src2[s2 + j]?) :
    transferN tm n src1 s1 dst d = transferN tm n src2 s2 dst d := by
  induction n with
  | zero => simp [transferN_zero]
  | succ n ih =>
    rw [transferN_succ, transferN_succ, ih (fun j hj => h j (by rw [Nat.add_mul]; omega))]
    apply transfer_src_congr tm hwf
    intro j hj
    rw [Nat.add_assoc, Nat.add_assoc]
    exact h _ (by rw [Nat.add_mul]; omega)

theorem transferN_add {α} (tm : TMap) (a b : Nat) (src : List α) (s : Nat) (dst : List α) (d : Nat) :
    transferN tm (a + b) src s dst d =
      transferN tm b src (s + a * tm.extent) (transferN tm a src s dst d) (d + a * tm.extent) := by
  induction b with
  | zero => simp [transferN_zero]
  | succ b ih =>
    rw [← Nat.add_assoc, transferN_succ, transferN_succ, ih, Nat.add_mul]
    simp only [Nat.add_assoc]

theorem copyCells_succ_some {α} (src : List α) (s : Nat) (dst : List α) (d n : Nat) (x : α) (h : src[s]? = some x) :
    copyCells src s dst d (n + 1) = copyCells src (s + 1) (dst.set d x) (d + 1) n := by
  rw [copyCells]; simp [h]
theorem copyCells_succ_none {α} (src : List α) (s : Nat) (dst : List α) (d n : Nat) (h : src[s]? = none) :
    copyCells src s dst d (n + 1) = copyCells src (s + 1) dst (d + 1) n := by
  rw [copyCells]; simp [h]

theorem copyCells_add {α} (src : List α) (s : Nat) (dst : List α) (d a b : Nat) :
    copyCells src s dst d (a + b) = copyCells src (s + a) (copyCells src s dst d a) (d + a) b := by
  induction a generalizing s dst d with
  | zero => simp [copyCells]
  | succ a ih =>
    rw [show a + 1 + b = (a + b) + 1 by omega]
    cases h : src[s]? with
    | some x =>
      rw [copyCells_succ_some _ _ _ _ _ _ h, copyCells_succ_some _ _ _ _ _ _ h, ih]
      simp only [Nat.add_assoc, Nat.add_comm 1 a]
    | none =>
      rw [copyCells_succ_none _ _ _ _ _ h, copyCells_succ_none _ _ _ _ _ h, ih]
      simp only [Nat.add_assoc, Nat.add_comm 1 a]

theorem transfer_full {α} (e : Nat) (src : List α) (s : Nat) (dst : List α) (d : Nat) :
    transfer (full e) src s dst d = copyCells src s dst d e := by
  simp [transfer, full]

theorem transferN_full {α} (e n : Nat) (src : List α) (s : Nat) (dst : List α) (d : Nat) :
    transferN (full e) n src s dst d = copyCells src s dst d (n * e) := by
  induction n with
  | zero => simp [transferN_zero, copyCells]
  | succ n ih =>
    rw [transferN_succ, ih, transfer_full, Nat.add_mul, Nat.one_mul, copyCells_add]
    rfl

theorem copyCells_all {α} (src dst : List α) (len : Nat) (hs : src.length = len) (hd : dst.length = len) :
    copyCells src 0 dst 0 len = src := by
  apply List.ext_getElem?
  intro i
  rw [copyCells_getElem?]
  by_cases h : i < len
  · have h1 : src[i]? = some src[i] := List.getElem?_eq_getElem (by omega)
    have h2 : dst[i]? = some dst[i] := List.getElem?_eq_getElem (by omega)
    simp [h, h1, h2, ovw]
  · have h1 : src[i]? = none := List.getElem?_eq_none (by omega)
    have h2 : dst[i]? = none := List.getElem?_eq_none (by omega)
    simp [h, h1, h2]

theorem encCells_length {α β} (C : Codec α β) (xs : List α) : (encCells C xs).length = xs.length * C.w := by
  induction xs with
  | nil => simp [encCells]
  | cons x xs ih =>
    simp only [encCells, List.flatMap_cons, List.length_append, C.enc_len, List.length_cons] at ih ⊢
    rw [ih, Nat.add_mul]; omega

theorem decCells_encCells {α β} (C : Codec α β) (xs : List α) (rest : List β) :
    decCells C xs.length (encCells C xs ++ rest) = xs := by
  induction xs with
  | nil => simp [decCells]
  | cons x xs ih =>
    simp only [encCells, List.flatMap_cons, List.length_cons, decCells, List.append_assoc] at ih ⊢
    rw [List.take_left' (C.enc_len x), List.drop_left' (C.enc_len x), C.dec_enc, ih]

def blockCells {α} (src : List α) (soff : Nat) (b : Nat × Nat) : List α := (src.drop (soff + b.1)).take b.2

theorem blockCells_length {α} (src : List α) (soff : Nat) (b : Nat × Nat) (h : soff + b.1 + b.2 ≤ src.length) :
    (blockCells src soff b).length = b.2 := by
  simp [blockCells]; omega

theorem packElem_length {α} (tm : TMap) (src : List α) (soff : Nat)
    (hsrc : ∀ b ∈ tm.blocks, soff + b.1 + b.2 ≤ src.length) : (packElem tm src soff).length = tm.size := by
  unfold packElem TMap.size
  generalize tm.blocks = bs at hsrc
  induction bs with
  | nil => simp
  | cons b bs ih =>
    simp only [List.flatMap_cons, List.length_append, List.map_cons, List.sum_cons]
    rw [ih (fun b' hb' => hsrc b' (by simp [hb']))]
    have := blockCells_length src soff b (hsrc b (by simp))
    simp only [blockCells] at this
    rw [this]

/-- unpacking a stream that continues with the packed blocks `bs` reproduces the block-wise transfer -/
theorem unpack_blocks_gen {α} (bs : List (Nat × Nat)) (src : List α) (soff : Nat) (doff : Nat) (stream : List α)
    (hsrc : ∀ b ∈ bs, soff + b.1 + b.2 ≤ src.length) (dst : List α) (c : Nat) (suf : List α)
    (hs : stream.drop c = bs.flatMap (blockCells src soff) ++ suf) :
    bs.foldl (fun (acc : List α × Nat) b => (copyCells stream acc.2 acc.1 (doff + b.1) b.2, acc.2 + b.2)) (dst, c)
      = (transferL bs src soff dst doff, c + (bs.map (·.2)).sum) := by
  induction bs generalizing dst c with
  | nil => simp [transferL]
  | cons b bs ih =>
    have hb := hsrc b (by simp)
    have hbl := blockCells_length src soff b hb
    simp only [List.foldl_cons, List.flatMap_cons, List.append_assoc] at hs ⊢
    have hcopy : copyCells stream c dst (doff + b.1) b.2 = copyCells src (soff + b.1) dst (doff + b.1) b.2 := by
      apply copyCells_src_congr
      intro j hj
      have h1 : stream[c + j]? = (stream.drop c)[j]? := by rw [List.getElem?_drop]
      rw [h1, hs, List.getElem?_append_left (by omega)]
      simp only [blockCells, List.getElem?_take, List.getElem?_drop, hj, if_true]
    rw [hcopy]
    have hs' : stream.drop (c + b.2) = bs.flatMap (blockCells src soff) ++ suf := by
      rw [← List.drop_drop, hs, List.drop_left' hbl]
    rw [ih (fun b' hb' => hsrc b' (by simp [hb'])) _ _ hs']
    simp only [transferL, List.foldl_cons, List.map_cons, List.sum_cons, Nat.add_assoc]

theorem unpackElem_stream {α} (tm : TMap) (src : List α) (soff : Nat) (dst : List α) (doff : Nat) (suf : List α)
    (hsrc : ∀ b ∈ tm.blocks, soff + b.1 + b.2 ≤ src.length) :
    unpackElem tm (packElem tm src soff ++ suf) dst doff = transfer tm src soff dst doff := by
  unfold unpackElem
  rw [unpack_blocks_gen tm.blocks src soff doff (packElem tm src soff ++ suf) hsrc dst 0 suf (by simp only [List.drop_zero]; rfl)]
  rfl

theorem unpack_pack_elem {α} (tm : TMap) (src : List α) (soff : Nat) (dst : List α) (doff : Nat)
    (hsrc : ∀ b ∈ tm.blocks, soff + b.1 + b.2 ≤ src.length) :
    unpackElem tm (packElem tm src soff) dst doff = transfer tm src soff dst doff := by
  have := unpackElem_stream tm src soff dst doff [] hsrc
  simpa using this

theorem packN_succ {α} (tm : TMap) (n : Nat) (src : List α) :
    packN tm (n + 1) src = packN tm n src ++ packElem tm src (n * tm.extent) := by
  simp [packN, List.range_succ, List.flatMap_append]

theorem elem_in_range (tm : TMap) (hwf : tm.wf) (n k : Nat) (hk : k < n) (len : Nat) (hlen : len = n * tm.extent) :
    ∀ b ∈ tm.blocks, k * tm.extent + b.1 + b.2 ≤ len := by
  intro b hb
  have h1 := hwf b hb
  have h2 : (k + 1) * tm.extent ≤ n * tm.extent := Nat.mul_le_mul_right _ hk
  rw [Nat.add_mul, Nat.one_mul] at h2
  omega

theorem packN_length {α} (tm : TMap) (hwf : tm.wf) (n m : Nat) (hnm : n ≤ m) (src : List α)
    (hlen : src.length = m * tm.extent) : (packN tm n src).length = n * tm.size := by
  induction n with
  | zero => simp [packN]
  | succ n ih =>
    rw [packN_succ, List.length_append, ih (by omega),
      packElem_length tm src _ (elem_in_range tm hwf m n (by omega) _ hlen), Nat.add_mul, Nat.one_mul]

theorem packN_prefix {α} (tm : TMap) (n k : Nat) (src : List α) :
    ∃ suf, packN tm (n + k) src = packN tm n src ++ suf := by
  induction k with
  | zero => exact ⟨[], by simp⟩
  | succ k ih =>
    obtain ⟨suf, h⟩ := ih
    exact ⟨suf ++ packElem tm src ((n + k) * tm.extent), by rw [← Nat.add_assoc, packN_succ, h, List.append_assoc]⟩

/-- `unpackN ∘ packN` is the strided transfer (the stream may continue after the `n` packed elements) -/
theorem unpackN_packN {α} (tm : TMap) (hwf : tm.wf) (n m : Nat) (hnm : n ≤ m) (src : List α)
    (hlen : src.length = m * tm.extent) (dst : List α) :
    unpackN tm n (packN tm m src) dst = transferN tm n src 0 dst 0 := by
  induction n with
  | zero => simp [unpackN, transferN_zero]
  | succ n ih =>
    rw [transferN_succ, ← ih (by omega)]
    simp only [unpackN, List.range_succ, List.foldl_append, List.foldl_cons, List.foldl_nil, Nat.zero_add]
    obtain ⟨suf, hsuf⟩ := packN_prefix tm (n + 1) (m - (n + 1)) src
    rw [show n + 1 + (m - (n + 1)) = m by omega, packN_succ, List.append_assoc] at hsuf
    have hl := packN_length tm hwf n m (by omega) src hlen
    have hdrop : (packN tm m src).drop (n * tm.size) = packElem tm src (n * tm.extent) ++ suf := by
      rw [hsuf, List.drop_left' hl]
    rw [hdrop]
    exact unpackElem_stream tm src _ _ _ suf (elem_in_range tm hwf m n (by omega) _ hlen)

theorem fv_blocks (d n w : Nat) :
    (Types.fieldVector d n (basic w)).blocks = (List.range n).map (fun k => (d + k * w, w)) := by
  simp only [Types.fieldVector, struct, contiguous, basic, List.flatMap_cons, List.flatMap_nil, List.append_nil,
    List.range_one, List.map_cons, List.map_nil, Nat.zero_mul]
  generalize List.range n = ks
  induction ks with
  | nil => rfl
  | cons k ks ih =>
    simp only [List.flatMap_cons, List.map_append, List.map_cons, List.map_nil, List.cons_append, List.nil_append] at ih ⊢
    rw [ih]
    simp [shift]

theorem fieldVector_covers (d n w j : Nat) :
    (Types.fieldVector d n (basic w)).covers j = true ↔ d ≤ j ∧ j < d + n * w := by
  simp only [covers, fv_blocks, List.any_map, List.any_eq_true, List.mem_range, Function.comp, Bool.and_eq_true,
    decide_eq_true_eq]
  constructor
  · rintro ⟨k, hk, h1, h2⟩
    have : (k + 1) * w ≤ n * w := Nat.mul_le_mul_right _ hk
    rw [Nat.add_mul, Nat.one_mul] at this
    omega
  · rintro ⟨h1, h2⟩
    have hw : 0 < w := by
      rcases Nat.eq_zero_or_pos w with h | h
      · subst h; omega
      · exact h
    refine ⟨(j - d) / w, (Nat.div_lt_iff_lt_mul hw).mpr (by omega), ?_, ?_⟩
    · have := Nat.div_mul_le_self (j - d) w; omega
    · have := Nat.div_add_mod (j - d) w
      have := Nat.mod_lt (j - d) hw
      have : w * ((j - d) / w) = (j - d) / w * w := Nat.mul_comm _ _
      omega

/-! ## gatherv / scatterv -/

theorem flatten_length_parts {α} (e : Nat) (parts : List (List α × Nat)) (hl : ∀ p ∈ parts, p.1.length = p.2 * e) :
    (parts.map (·.1)).flatten.length = (parts.map (·.2)).sum * e := by
  induction parts with
  | nil => simp
  | cons p ps ih =>
    simp only [List.map_cons, List.flatten_cons, List.length_append, List.sum_cons, Nat.add_mul]
    rw [ih (fun q hq => hl q (by simp [hq])), hl p (by simp)]

theorem gathervAt_prefix_gen {α} (tm : TMap) (hwf : tm.wf) (parts : List (List α × Nat))
    (hl : ∀ p ∈ parts, p.1.length = p.2 * tm.extent) (s : Nat) (out : List α) :
    Spec.gathervAt tm (parts.map (·.1)) (parts.map (·.2)) (prefixSumsFrom s (parts.map (·.2))) out
      = transferN tm (parts.map (·.2)).sum (parts.map (·.1)).flatten 0 out (s * tm.extent) := by
  induction parts generalizing s out with
  | nil => simp [Spec.gathervAt, prefixSumsFrom, transferN_zero]
  | cons p ps ih =>
    have hp := hl p (by simp)
    have ih' := ih (fun q hq => hl q (by simp [hq])) (s + p.2) (transferN tm p.2 p.1 0 out (s * tm.extent))
    simp only [Spec.gathervAt, List.map_cons, prefixSumsFrom, List.zip_cons_cons, List.foldl_cons] at ih' ⊢
    rw [ih']
    simp only [List.flatten_cons, List.sum_cons]
    rw [transferN_add, Nat.add_mul]
    have h1 : transferN tm p.2 (p.1 ++ (ps.map (·.1)).flatten) 0 out (s * tm.extent)
        = transferN tm p.2 p.1 0 out (s * tm.extent) := by
      apply transferN_src_congr tm hwf
      intro j hj
      simp only [Nat.zero_add]
      exact List.getElem?_append_left (by omega)
    rw [h1]
    apply transferN_src_congr tm hwf
    intro j hj
    simp only [Nat.zero_add]
    rw [List.getElem?_append_right (by omega)]
    congr 1
    omega

theorem gathervAt_prefix {α} (tm : TMap) (hwf : tm.wf) (parts : List (List α × Nat))
    (hl : ∀ p ∈ parts, p.1.length = p.2 * tm.extent) (out : List α) :
    Spec.gathervAt tm (parts.map (·.1)) (parts.map (·.2)) (prefixSums (parts.map (·.2))) out
      = transferN tm (parts.map (·.2)).sum (parts.map (·.1)).flatten 0 out 0 := by
  have := gathervAt_prefix_gen tm hwf parts hl 0 out
  simpa [prefixSums] using this

theorem full_wf (e : Nat) : (full e).wf := by
  intro b hb
  simp [full] at hb
  subst hb
  simp [full]

theorem gathervAt_prefix_full {α} (e : Nat) (parts : List (List α × Nat))
    (hl : ∀ p ∈ parts, p.1.length = p.2 * e) (out : List α)
    (hout : out.length = (parts.map (·.2)).sum * e) :
    Spec.gathervAt (full e) (parts.map (·.1)) (parts.map (·.2)) (prefixSums (parts.map (·.2))) out
      = (parts.map (·.1)).flatten := by
  rw [gathervAt_prefix (full e) (full_wf e) parts hl out, transferN_full]
  exact copyCells_all _ _ _ (flatten_length_parts e parts hl) hout

theorem gatherAt_concat_gen {α} (tm : TMap) (hwf : tm.wf) (n : Nat) (ins : List (List α))
    (hl : ∀ inp ∈ ins, inp.length = n * tm.extent) (k : Nat) (out : List α) :
    (ins.zipIdx k).foldl (fun acc p => transferN tm n p.1 0 acc (p.2 * n * tm.extent)) out
      = transferN tm (ins.length * n) ins.flatten 0 out (k * n * tm.extent) := by
  induction ins generalizing k out with
  | nil => simp [transferN_zero]
  | cons x xs ih =>
    have hx := hl x (by simp)
    simp only [List.zipIdx_cons, List.foldl_cons, List.length_cons, List.flatten_cons]
    rw [ih (fun q hq => hl q (by simp [hq])), show (xs.length + 1) * n = n + xs.length * n by rw [Nat.add_mul]; omega,
      transferN_add]
    have h1 : transferN tm n (x ++ xs.flatten) 0 out (k * n * tm.extent) = transferN tm n x 0 out (k * n * tm.extent) := by
      apply transferN_src_congr tm hwf
      intro j hj
      simp only [Nat.zero_add]
      exact List.getElem?_append_left (by omega)
    rw [h1, show (k + 1) * n * tm.extent = k * n * tm.extent + n * tm.extent by rw [Nat.add_mul, Nat.add_mul, Nat.one_mul]]
    apply transferN_src_congr tm hwf
    intro j hj
    simp only [Nat.zero_add]
    rw [List.getElem?_append_right (by omega)]
    congr 1
    omega

theorem gatherAt_concat {α} (tm : TMap) (hwf : tm.wf) (n : Nat) (ins : List (List α))
    (hl : ∀ inp ∈ ins, inp.length = n * tm.extent) (out : List α) :
    Spec.gatherAt tm n ins out = transferN tm (ins.length * n) ins.flatten 0 out 0 := by
  have := gatherAt_concat_gen tm hwf n ins hl 0 out
  simpa [Spec.gatherAt] using this

theorem prefixSumsFrom_getD (s : Nat) (ls : List Nat) (r : Nat) (hr : r < ls.length) :
    (prefixSumsFrom s ls).getD r 0 = s + (ls.take r).sum := by
  induction ls generalizing s r with
  | nil => simp at hr
  | cons l ls ih =>
    cases r with
    | zero => simp [prefixSumsFrom]
    | succ r =>
      simp only [prefixSumsFrom, List.getD_cons_succ, List.take_succ_cons, List.sum_cons]
      rw [ih (s + l) r (by simpa using hr)]
      omega

theorem flatten_getElem?_part {α} (e : Nat) (parts : List (List α × Nat)) (hl : ∀ p ∈ parts, p.1.length = p.2 * e)
    (r : Nat) (hr : r < parts.length) (j : Nat) (hj : j < parts[r].2 * e) :
    (parts.map (·.1)).flatten[((parts.map (·.2)).take r).sum * e + j]? = (parts[r].1)[j]? := by
  induction parts generalizing r with
  | nil => simp at hr
  | cons p ps ih =>
    have hp := hl p (by simp)
    cases r with
    | zero =>
      simp only [List.map_cons, List.flatten_cons, List.take_zero, List.sum_nil, Nat.zero_mul, Nat.zero_add,
        List.getElem_cons_zero] at hj ⊢
      exact List.getElem?_append_left (by omega)
    | succ r =>
      simp only [List.map_cons, List.flatten_cons, List.take_succ_cons, List.sum_cons, List.getElem_cons_succ] at hj ⊢
      rw [List.getElem?_append_right (by rw [hp, Nat.add_mul]; omega)]
      have := ih (fun q hq => hl q (by simp [hq])) r (by simpa using hr) hj
      rw [← this]
      congr 1
      rw [hp, Nat.add_mul]
      omega

theorem scattervAt_flatten {α} (tm : TMap) (hwf : tm.wf) (parts : List (List α × Nat))
    (hl : ∀ p ∈ parts, p.1.length = p.2 * tm.extent) (r : Nat) (hr : r < parts.length)
    (rcv : List α) :
    Spec.scattervAt tm (parts.map (·.1)).flatten (parts[r].2) ((prefixSums (parts.map (·.2))).getD r 0) rcv
      = transferN tm (parts[r].2) (parts[r].1) 0 rcv 0 := by
  unfold Spec.scattervAt prefixSums
  rw [prefixSumsFrom_getD 0 _ r (by simpa using hr)]
  apply transferN_src_congr tm hwf
  intro j hj
  simp only [Nat.zero_add]
  exact flatten_getElem?_part tm.extent parts hl r hr j hj

theorem scatterv_gatherv_full {α} (e : Nat) (parts : List (List α × Nat))
    (hl : ∀ p ∈ parts, p.1.length = p.2 * e) (out : List α) (hout : out.length = (parts.map (·.2)).sum * e)
    (r : Nat) (hr : r < parts.length) (rcv : List α) (hrcv : rcv.length = parts[r].2 * e) :
    Spec.scattervAt (full e)
      (Spec.gathervAt (full e) (parts.map (·.1)) (parts.map (·.2)) (prefixSums (parts.map (·.2))) out)
      (parts[r].2) ((prefixSums (parts.map (·.2))).getD r 0) rcv = parts[r].1 := by
  rw [gathervAt_prefix_full e parts hl out hout]
  have hl' : ∀ p ∈ parts, p.1.length = p.2 * (full e).extent := hl
  rw [scattervAt_flatten (full e) (full_wf e) parts hl' r hr rcv, transferN_full]
  exact copyCells_all _ _ _ (hl _ (List.getElem_mem hr)) hrcv

/-! ## reductions -/

theorem op_foldl {β} (op : β → β → β) (hassoc : ∀ a b c, op (op a b) c = op a (op b c)) (a b : β) (xs : List β) :
    op a (xs.foldl op b) = xs.foldl op (op a b) := by
  induction xs generalizing b with
  | nil => rfl
  | cons x xs ih => simp only [List.foldl_cons]; rw [ih, hassoc]

theorem leaves_ne_nil {β} (t : Tree β) : t.leaves ≠ [] := by
  induction t with
  | leaf x => simp [Tree.leaves]
  | node l r ihl ihr => simp [Tree.leaves, ihl]

theorem tree_eval_leaves {β} (op : β → β → β) (hassoc : ∀ a b c, op (op a b) c = op a (op b c)) (t : Tree β) :
    some (t.eval op) = Spec.foldRanks op t.leaves := by
  induction t with
  | leaf x => simp [Tree.eval, Tree.leaves, Spec.foldRanks]
  | node l r ihl ihr =>
    simp only [Tree.eval, Tree.leaves]
    cases hl : l.leaves with
    | nil => exact absurd hl (leaves_ne_nil l)
    | cons a as =>
      cases hr : r.leaves with
      | nil => exact absurd hr (leaves_ne_nil r)
      | cons b bs =>
        rw [hl] at ihl; rw [hr] at ihr
        simp only [Spec.foldRanks, Option.some.injEq] at ihl ihr
        simp only [List.cons_append, Spec.foldRanks, List.foldl_append, List.foldl_cons, Option.some.injEq]
        rw [ihl, ihr, op_foldl op hassoc]

theorem foldRanks_perm {β} (op : β → β → β) (hassoc : ∀ a b c, op (op a b) c = op a (op b c))
    (hcomm : ∀ a b, op a b = op b a) (xs ys : List β) (hp : xs.Perm ys) :
    Spec.foldRanks op xs = Spec.foldRanks op ys := by
  have rc : ∀ a b c, op (op a b) c = op (op a c) b := by
    intro a b c; rw [hassoc, hcomm b c, ← hassoc]
  induction hp with
  | nil => rfl
  | cons x _ ih =>
    rename_i l1 l2 hp'
    simp only [Spec.foldRanks, Option.some.injEq]
    exact List.Perm.foldl_eq' hp' (fun a _ b _ c => rc c a b) x
  | swap x y l =>
    simp only [Spec.foldRanks, List.foldl_cons, Option.some.injEq]
    rw [hcomm]
  | trans _ _ ih1 ih2 => rw [ih1, ih2]

theorem tree_eval_eq_foldRanks {β : Type} (op : β → β → β) (hassoc : ∀ a b c, op (op a b) c = op a (op b c))
    (hcomm : ∀ a b, op a b = op b a) (t : Tree β) (xs : List β) (hp : t.leaves.Perm xs) :
    some (t.eval op) = Spec.foldRanks op xs := by
  rw [tree_eval_leaves op hassoc t]
  exact foldRanks_perm op hassoc hcomm _ _ hp

/-! ## sequential stand-in -/

theorem copyLoop_eq {α} (e : Nat) (src : List α) (io : Nat) (dst : List α) (oo len : Nat) :
    Seq.copyLoop e src io dst oo len = transferN (full e) len src (io * e) dst (oo * e) := by
  induction len with
  | zero => simp [Seq.copyLoop, transferN_zero]
  | succ n ih =>
    rw [transferN_succ, ← ih, transfer_full]
    simp only [Seq.copyLoop, List.range_succ, List.foldl_append, List.foldl_cons, List.foldl_nil, Seq.assignElem,
      Nat.add_mul, full]

theorem assignElem_eq {α} (e : Nat) (src dst : List α) :
    Seq.assignElem e src 0 dst 0 = transferN (full e) 1 src 0 dst 0 := by
  rw [transferN_full]; simp [Seq.assignElem]

theorem seq_gather {α} (e : Nat) (inp out : List α) (len root : Nat) :
    Spec.gather (full e) len 0 [inp] [out] = [Seq.gather e inp out len root] := by
  simp [Spec.gather, Spec.gatherAt, Seq.gather, copyLoop_eq, List.zipIdx, List.mapIdx_cons, List.mapIdx_nil]

theorem seq_igather {α} (e : Nat) (dataIn dataOut : List α) (root : Nat) :
    Spec.gather (full e) 1 0 [dataIn] [dataOut] = [Seq.igather e dataIn dataOut root] := by
  simp [Spec.gather, Spec.gatherAt, Seq.igather, assignElem_eq, List.zipIdx, List.mapIdx_cons, List.mapIdx_nil]

theorem seq_gatherv {α} (e : Nat) (inp : List α) (sendLen : Nat) (out : List α) (displ root : Nat) :
    Spec.gatherv (full e) 0 [inp] [sendLen] [displ] [out] = [Seq.gatherv e inp sendLen out sendLen displ root] := by
  simp [Spec.gatherv, Spec.gathervAt, Seq.gatherv, copyLoop_eq, List.mapIdx_cons, List.mapIdx_nil, full]

theorem seq_scatter {α} (e : Nat) (send recv : List α) (len root : Nat) :
    Spec.scatter (full e) len 0 [send] [recv] = [Seq.scatter e send recv len root] := by
  simp [Spec.scatter, Spec.scatterAt, Seq.scatter, copyLoop_eq, List.mapIdx_cons, List.mapIdx_nil]

theorem seq_iscatter {α} (e : Nat) (dataIn dataOut : List α) (root : Nat) :
    Spec.scatter (full e) 1 0 [dataIn] [dataOut] = [Seq.iscatter e dataIn dataOut root] := by
  simp [Spec.scatter, Spec.scatterAt, Seq.iscatter, assignElem_eq, List.mapIdx_cons, List.mapIdx_nil]

theorem seq_scatterv {α} (e : Nat) (send : List α) (sendLen displ : Nat) (recv : List α) (root : Nat) :
    Spec.scatterv (full e) 0 [send] [sendLen] [displ] [recv] = [Seq.scatterv e send sendLen displ recv sendLen root] := by
  simp [Spec.scatterv, Spec.scattervAt, Seq.scatterv, copyLoop_eq, List.mapIdx_cons, List.mapIdx_nil, full]

theorem seq_allgather {α} (e : Nat) (sbuf : List α) (count : Nat) (rbuf : List α) :
    Spec.allgather (full e) count [sbuf] [rbuf] = [Seq.allgather e sbuf count rbuf] := by
  simp [Spec.allgather, Spec.gatherAt, Seq.allgather, copyLoop_eq, List.zipIdx]

theorem seq_iallgather {α} (e : Nat) (dataIn dataOut : List α) :
    Spec.allgather (full e) 1 [dataIn] [dataOut] = [Seq.iallgather e dataIn dataOut] := by
  simp [Spec.allgather, Spec.gatherAt, Seq.iallgather, assignElem_eq, List.zipIdx]

theorem seq_allgatherv {α} (e : Nat) (inp : List α) (sendLen : Nat) (out : List α) (displ : Nat) :
    Spec.allgatherv (full e) [inp] [sendLen] [displ] [out] = [Seq.allgatherv e inp sendLen out sendLen displ] := by
  simp [Spec.allgatherv, Spec.gathervAt, Seq.allgatherv, copyLoop_eq, full]

/-- the elements of one rank's buffer, concatenated, are its prefix -/
theorem elems_flat {α} (e n : Nat) (x : List α) (h : n * e ≤ x.length) :
    (List.range n).flatMap (fun j => Spec.elem e j x) = x.take (n * e) := by
  induction n with
  | zero => simp
  | succ n ih =>
    have h' : n * e ≤ x.length := by rw [Nat.add_mul] at h; omega
    rw [List.range_succ, List.flatMap_append, ih h']
    simp only [List.flatMap_cons, List.flatMap_nil, List.append_nil, Spec.elem]
    rw [Nat.add_mul, Nat.one_mul, List.take_add]

theorem allreduceVal_one {α} (e n : Nat) (op : List α → List α → List α) (x : List α) (h : n * e ≤ x.length) :
    Spec.allreduceVal e n op [x] = x.take (n * e) := by
  rw [← elems_flat e n x h]
  simp [Spec.allreduceVal, Spec.foldRanks]

theorem copyCells_take {α} (x dst : List α) (s d len k : Nat) (hk : s + len ≤ k) :
    copyCells (x.take k) s dst d len = copyCells x s dst d len := by
  apply copyCells_src_congr
  intro j hj
  rw [List.getElem?_take]
  simp [show s + j < k by omega]

theorem seq_reduceScalar {α} (e : Nat) (op : List α → List α → List α) (x : List α) (hx : x.length = e) :
    Spec.allreduceVal e 1 op [x] = Seq.reduceScalar x := by
  rw [allreduceVal_one e 1 op x (by omega)]
  rw [Nat.one_mul, List.take_of_length_le (by omega)]
  rfl

theorem seq_allreduceInOut {α} (e len : Nat) (op : List α → List α → List α) (inp out : List α)
    (h : len * e ≤ inp.length) :
    Spec.allreduce e len op [inp] [out] = [Seq.allreduceInOut e inp out len] := by
  simp only [Spec.allreduce, List.map_cons, List.map_nil, Seq.allreduceInOut, copyLoop_eq, Nat.zero_mul]
  rw [allreduceVal_one e len op inp h, transferN_full, transferN_full, copyCells_take _ _ _ _ _ _ (by omega)]

theorem copyCells_self {α} (x : List α) (len : Nat) : copyCells x 0 x 0 len = x := by
  apply List.ext_getElem?
  intro i
  rw [copyCells_getElem?]
  split
  · simp only [Nat.zero_add, Nat.sub_zero]
    cases x[i]? <;> rfl
  · rfl

theorem seq_reduceInplace {α} (e len : Nat) (op : List α → List α → List α) (inout : List α)
    (h : len * e ≤ inout.length) :
    Spec.allreduce e len op [inout] [inout] = [Seq.reduceInplace inout len] := by
  simp only [Spec.allreduce, List.map_cons, List.map_nil, Seq.reduceInplace]
  rw [allreduceVal_one e len op inout h, transferN_full, copyCells_take _ _ _ _ _ _ (by omega), copyCells_self]

theorem seq_iallreduceInOut {α} (e n : Nat) (op : List α → List α → List α) (dataIn dataOut : List α)
    (hi : dataIn.length = n * e) (ho : dataOut.length = n * e) :
    Spec.allreduce e n op [dataIn] [dataOut] = [Seq.iallreduceInOut dataIn dataOut] := by
  simp only [Spec.allreduce, List.map_cons, List.map_nil, Seq.iallreduceInOut]
  rw [allreduceVal_one e n op dataIn (by omega), transferN_full, copyCells_take _ _ _ _ _ _ (by omega),
    copyCells_all _ _ _ hi ho]

theorem seq_iallreduceInplace {α} (e n : Nat) (op : List α → List α → List α) (data : List α)
    (h : data.length = n * e) :
    Spec.allreduce e n op [data] [data] = [Seq.iallreduceInplace data] :=
  seq_iallreduceInOut e n op data data h h

/-! ## MPIPack -/

theorem copyCells_take_write {α} (bs buf : List α) (pos : Nat) (h : pos + bs.length ≤ buf.length) :
    (copyCells bs 0 buf pos bs.length).take (pos + bs.length) = buf.take pos ++ bs := by
  apply List.ext_getElem?
  intro i
  rw [List.getElem?_take, copyCells_getElem?, List.getElem?_append]
  simp only [List.length_take, Nat.zero_add]
  have hm : min pos buf.length = pos := by omega
  rw [hm]
  by_cases h1 : i < pos
  · have h2 : ¬ (pos ≤ i ∧ i < pos + bs.length) := by omega
    have h3 : i < pos + bs.length := by omega
    have h2' : ¬ pos ≤ i := by omega
    simp [h1, h2', h3, List.getElem?_take]
  · by_cases h3 : i < pos + bs.length
    · have h2 : (pos ≤ i ∧ i < pos + bs.length) := by omega
      have h4 : buf[i]? = some buf[i] := List.getElem?_eq_getElem (by omega)
      have h5 : bs[i - pos]? = some bs[i - pos] := List.getElem?_eq_getElem (by omega)
      simp [h1, h2, h3, h4, h5, ovw]
    · have h5 : bs[i - pos]? = none := List.getElem?_eq_none (by omega)
      simp [h1, h3, h5]

theorem writeBytes_spec {β} (st : PState β) (bs : List β) (h : st.pos + bs.length ≤ st.buf.length) :
    (writeBytes st bs).buf.length = st.buf.length ∧ (writeBytes st bs).pos = st.pos + bs.length ∧
      (writeBytes st bs).buf.take (st.pos + bs.length) = st.buf.take st.pos ++ bs := by
  refine ⟨?_, rfl, ?_⟩
  · simp [writeBytes, copyCells_length]
  · exact copyCells_take_write bs st.buf st.pos h

theorem wire_length {α β} (C : Codec α β) (ofNat : Nat → α) (it : DV.C07.Item α β) :
    (it.wire C ofNat).length = (if it.isDynamic then C.w else 0) + (it.payload C).length := by
  unfold Item.wire
  split <;> simp [C.enc_len]

/-- the growth step of `MPIPack::pack` -/
def grow {β} (zero : β) (st : PState β) (size : Nat) : List β :=
  if st.pos + size > st.buf.length then st.buf ++ List.replicate (st.pos + size - st.buf.length) zero else st.buf

theorem grow_length {β} (zero : β) (st : PState β) (size : Nat) : st.pos + size ≤ (grow zero st size).length := by
  unfold grow
  split
  · simp; omega
  · omega

theorem grow_take {β} (zero : β) (st : PState β) (size : Nat) (hpos : st.pos ≤ st.buf.length) :
    (grow zero st size).take st.pos = st.buf.take st.pos := by
  unfold grow
  split
  · exact List.take_append_of_le_length hpos
  · rfl

theorem packItem_static {α β} (C : Codec α β) (ofNat : Nat → α) (bound : Nat → Nat) (zero : β) (st : PState β)
    (it : DV.C07.Item α β) (h : it.isDynamic = false) :
    packItem C ofNat bound zero st it
      = writeBytes ⟨grow zero st (bound (it.payload C).length + 0), st.pos⟩ (it.payload C) := by
  simp only [packItem, h, Bool.false_eq_true, if_false, grow]

theorem packItem_dynamic {α β} (C : Codec α β) (ofNat : Nat → α) (bound : Nat → Nat) (zero : β) (st : PState β)
    (it : DV.C07.Item α β) (h : it.isDynamic = true) :
    packItem C ofNat bound zero st it
      = writeBytes (writeBytes ⟨grow zero st (bound (it.payload C).length + bound C.w), st.pos⟩
          (C.enc (ofNat it.count))) (it.payload C) := by
  simp only [packItem, h, if_true, grow]

theorem packItem_spec {α β} (C : Codec α β) (ofNat : Nat → α) (bound : Nat → Nat) (hb : ∀ k, k ≤ bound k)
    (zero : β) (st : PState β) (hpos : st.pos ≤ st.buf.length) (it : DV.C07.Item α β) :
    let st' := packItem C ofNat bound zero st it
    st'.pos ≤ st'.buf.length ∧ st'.pos = st.pos + (it.wire C ofNat).length ∧
      st'.buf.take st'.pos = st.buf.take st.pos ++ it.wire C ofNat := by
  intro st'
  have hp1 := hb (it.payload C).length
  have hp2 := hb C.w
  cases hdyn : it.isDynamic with
  | false =>
    have hst' : st' = _ := packItem_static C ofNat bound zero st it hdyn
    have hw : it.wire C ofNat = it.payload C := by simp [Item.wire, hdyn]
    have hl := grow_length zero st (bound (it.payload C).length + 0)
    obtain ⟨h1, h2, h3⟩ := writeBytes_spec ⟨grow zero st (bound (it.payload C).length + 0), st.pos⟩ (it.payload C)
      (by simp only; omega)
    rw [hst', hw]
    simp only at h1 h2 h3
    refine ⟨by rw [h1, h2]; omega, h2, ?_⟩
    rw [h2, h3, grow_take zero st _ hpos]
  | true =>
    have hst' : st' = _ := packItem_dynamic C ofNat bound zero st it hdyn
    have hw : it.wire C ofNat = C.enc (ofNat it.count) ++ it.payload C := by simp [Item.wire, hdyn]
    have hel := C.enc_len (ofNat it.count)
    have hl := grow_length zero st (bound (it.payload C).length + bound C.w)
    obtain ⟨h1, h2, h3⟩ := writeBytes_spec ⟨grow zero st (bound (it.payload C).length + bound C.w), st.pos⟩
      (C.enc (ofNat it.count)) (by simp only; omega)
    simp only at h1 h2 h3
    obtain ⟨g1, g2, g3⟩ := writeBytes_spec (writeBytes ⟨grow zero st (bound (it.payload C).length + bound C.w), st.pos⟩
      (C.enc (ofNat it.count))) (it.payload C) (by rw [h1, h2]; omega)
    rw [hst', hw]
    refine ⟨by rw [g1, g2, h1, h2]; omega, by rw [g2, h2, List.length_append]; omega, ?_⟩
    rw [g2, g3, h2, h3, grow_take zero st _ hpos, List.append_assoc]

theorem take_wire {β} (xs rest : List β) (k : Nat) (h : xs.length = k) : (xs ++ rest).take k = xs :=
  List.take_left' h

theorem resizeBytes_length {β} (zero : β) (bytes : List β) (n : Nat) : (resizeBytes zero bytes n).length = n := by
  unfold resizeBytes
  split
  · simp; omega
  · simp; omega

/-- reading one item back from a stream that starts with its wire format -/
theorem unpackItem_wire {α β} (C : Codec α β) (ofNat : Nat → α) (toNat : α → Nat) (hnat : ∀ n, toNat (ofNat n) = n)
    (zero : β) (buf : List β) (pos : Nat) (it : DV.C07.Item α β) (d : Dest α β) (rest : List β)
    (hwf : Item.wf it) (hc : compatible it d) (hs : buf.drop pos = it.wire C ofNat ++ rest) :
    unpackItem C toNat zero ⟨buf, pos⟩ d = (received it d, ⟨buf, pos + (it.wire C ofNat).length⟩) := by
  cases it with
  | stat tm n cells =>
    cases d with
    | stat tm' n' dcells =>
      obtain ⟨rfl, rfl⟩ := hc
      obtain ⟨hwf1, hlen⟩ := hwf
      have hpl := packN_length tm hwf1 n n (Nat.le_refl _) cells hlen
      have hel := encCells_length C (packN tm n cells)
      simp only [Item.wire, Item.isDynamic, Bool.false_eq_true, if_false, List.nil_append, Item.payload] at hs ⊢
      simp only [unpackItem, received, hs]
      rw [take_wire _ _ _ (by rw [hel, hpl])]
      have hd := decCells_encCells C (packN tm n cells) []
      rw [List.append_nil, hpl] at hd
      rw [hd, unpackN_packN tm hwf1 n n (Nat.le_refl _) cells hlen, hel, hpl]
    | dyn _ _ _ => exact absurd hc (by simp [compatible])
    | raw _ => exact absurd hc (by simp [compatible])
  | dyn tm n cells =>
    cases d with
    | stat _ _ _ => exact absurd hc (by simp [compatible])
    | dyn tm' dflt dcells =>
      have htm : tm = tm' := hc
      subst htm
      obtain ⟨hwf1, hlen⟩ := hwf
      have hpl := packN_length tm hwf1 n n (Nat.le_refl _) cells hlen
      have hel := encCells_length C (packN tm n cells)
      have henc := C.enc_len (ofNat n)
      simp only [Item.wire, Item.isDynamic, if_true, Item.payload, Item.count, List.append_assoc] at hs ⊢
      have hs2 : buf.drop (pos + C.w) = encCells C (packN tm n cells) ++ rest := by
        rw [← List.drop_drop, hs, List.drop_left' henc]
      simp only [unpackItem, received, hs]
      rw [take_wire _ _ _ henc, C.dec_enc, hnat, hs2, take_wire _ _ _ (by rw [hel, hpl])]
      have hd := decCells_encCells C (packN tm n cells) []
      rw [List.append_nil, hpl] at hd
      rw [hd, unpackN_packN tm hwf1 n n (Nat.le_refl _) cells hlen, List.length_append, henc, hel, hpl, Nat.add_assoc]
    | raw _ => exact absurd hc (by simp [compatible])
  | raw bytes =>
    cases d with
    | stat _ _ _ => exact absurd hc (by simp [compatible])
    | dyn _ _ _ => exact absurd hc (by simp [compatible])
    | raw old =>
      have henc := C.enc_len (ofNat bytes.length)
      simp only [Item.wire, Item.isDynamic, if_true, Item.payload, Item.count, List.append_assoc] at hs ⊢
      have hs2 : buf.drop (pos + C.w) = bytes ++ rest := by
        rw [← List.drop_drop, hs, List.drop_left' henc]
      simp only [unpackItem, received, hs]
      rw [take_wire _ _ _ henc, C.dec_enc, hnat, hs2, take_wire _ _ _ rfl,
        copyCells_all _ _ _ rfl (resizeBytes_length zero old bytes.length), List.length_append, henc, Nat.add_assoc]

def wires {α β} (C : Codec α β) (ofNat : Nat → α) (its : List (DV.C07.Item α β)) : List β :=
  its.flatMap (fun it => it.wire C ofNat)

theorem unpackAll_wires {α β} (C : Codec α β) (ofNat : Nat → α) (toNat : α → Nat) (hnat : ∀ n, toNat (ofNat n) = n)
    (zero : β) (buf : List β) (pairs : List (DV.C07.Item α β × Dest α β))
    (hwf : ∀ p ∈ pairs, Item.wf p.1 ∧ compatible p.1 p.2) (pos : Nat) (rest : List β)
    (hs : buf.drop pos = wires C ofNat (pairs.map (·.1)) ++ rest) :
    unpackAll C toNat zero ⟨buf, pos⟩ (pairs.map (·.2))
      = (pairs.map (fun p => received p.1 p.2), ⟨buf, pos + (wires C ofNat (pairs.map (·.1))).length⟩) := by
  induction pairs generalizing pos with
  | nil => simp [unpackAll, wires]
  | cons p ps ih =>
    obtain ⟨hw, hc⟩ := hwf p (by simp)
    simp only [List.map_cons, wires, List.flatMap_cons, List.append_assoc] at hs ⊢
    have h1 := unpackItem_wire C ofNat toNat hnat zero buf pos p.1 p.2 _ hw hc hs
    have hs' : buf.drop (pos + (p.1.wire C ofNat).length) = wires C ofNat (ps.map (·.1)) ++ rest := by
      rw [← List.drop_drop, hs, List.drop_left' rfl]; rfl
    have h2 := ih (fun q hq => hwf q (by simp [hq])) _ hs'
    simp only [unpackAll, h1, h2, List.length_append, Nat.add_assoc]
    rfl

theorem packAll_spec {α β} (C : Codec α β) (ofNat : Nat → α) (bound : Nat → Nat) (hb : ∀ k, k ≤ bound k) (zero : β)
    (its : List (DV.C07.Item α β)) (st : PState β) (hpos : st.pos ≤ st.buf.length) :
    let st' := packAll C ofNat bound zero st its
    st'.pos ≤ st'.buf.length ∧ st'.pos = st.pos + (wires C ofNat its).length ∧
      st'.buf.take st'.pos = st.buf.take st.pos ++ wires C ofNat its := by
  induction its generalizing st with
  | nil => simp [packAll, wires, hpos]
  | cons it its ih =>
    obtain ⟨h1, h2, h3⟩ := packItem_spec C ofNat bound hb zero st hpos it
    obtain ⟨g1, g2, g3⟩ := ih (packItem C ofNat bound zero st it) h1
    simp only [packAll, List.foldl_cons, wires, List.flatMap_cons, List.length_append] at g1 g2 g3 ⊢
    refine ⟨g1, by rw [g2, h2]; omega, ?_⟩
    rw [g3, h3, List.append_assoc]

theorem drop_of_take_eq {β} {l A W : List β} {p q : Nat} (h : l.take q = A ++ W) (hA : A.length = p) :
    l.drop p = W ++ l.drop q := by
  calc l.drop p = (l.take q ++ l.drop q).drop p := by rw [List.take_append_drop]
    _ = (A ++ (W ++ l.drop q)).drop p := by rw [h, List.append_assoc]
    _ = W ++ l.drop q := List.drop_left' hA

theorem roundtrip {α β} (C : Codec α β) (ofNat : Nat → α) (toNat : α → Nat)
    (hnat : ∀ n, toNat (ofNat n) = n) (bound : Nat → Nat) (hb : ∀ k, k ≤ bound k) (zero : β)
    (st : PState β) (hpos : st.pos ≤ st.buf.length) (pairs : List (DV.C07.Item α β × Dest α β))
    (hwf : ∀ p ∈ pairs, Item.wf p.1 ∧ compatible p.1 p.2) :
    let st' := packAll C ofNat bound zero st (pairs.map (·.1))
    unpackAll C toNat zero ⟨st'.buf, st.pos⟩ (pairs.map (·.2))
      = (pairs.map (fun p => received p.1 p.2), ⟨st'.buf, st'.pos⟩) := by
  intro st'
  obtain ⟨h1, h2, h3⟩ := packAll_spec C ofNat bound hb zero (pairs.map (·.1)) st hpos
  have h1' : st'.pos ≤ st'.buf.length := h1
  have h2' : st'.pos = st.pos + (wires C ofNat (pairs.map (·.1))).length := h2
  have h3' : st'.buf.take st'.pos = st.buf.take st.pos ++ wires C ofNat (pairs.map (·.1)) := h3
  have hdrop : st'.buf.drop st.pos = wires C ofNat (pairs.map (·.1)) ++ st'.buf.drop st'.pos :=
    drop_of_take_eq h3' (by simp; omega)
  rw [unpackAll_wires C ofNat toNat hnat zero st'.buf pairs hwf st.pos _ hdrop, ← h2']

theorem received_full_stat {α β} (e n : Nat) (cells dcells : List α) (hc : cells.length = n * e)
    (hd : dcells.length = n * e) :
    received (β := β) (.stat (full e) n cells) (.stat (full e) n dcells) = .stat (full e) n cells := by
  simp only [received, transferN_full]
  rw [copyCells_all _ _ _ hc hd]

theorem resizeCells_length {α} (e : Nat) (he : 0 < e) (dflt cells : List α) (m n : Nat) (hdf : dflt.length = e)
    (hd : cells.length = m * e) : (resizeCells e dflt cells n).length = n * e := by
  have hne : e ≠ 0 := by omega
  have hdiv : cells.length / e = m := by rw [hd]; exact Nat.mul_div_cancel _ he
  unfold resizeCells
  simp only [hne, if_false, hdiv]
  split
  · next h => rw [List.length_take]; have := Nat.mul_le_mul_right e h; omega
  · next h =>
    have hfl : ((List.replicate (n - m) dflt).flatten).length = (n - m) * e := by
      simp [List.length_flatten, hdf]
    rw [List.length_append, List.length_take, hfl, hd, Nat.min_self, ← Nat.add_mul]
    congr 1; omega

theorem received_full_dyn {α β} (e n m : Nat) (he : 0 < e) (cells dflt dcells : List α) (hc : cells.length = n * e)
    (hdf : dflt.length = e) (hd : dcells.length = m * e) :
    received (β := β) (.dyn (full e) n cells) (.dyn (full e) dflt dcells) = .dyn (full e) dflt cells := by
  simp only [received, transferN_full]
  have hext : (full e).extent = e := rfl
  rw [hext, copyCells_all _ _ _ hc (resizeCells_length e he dflt dcells m n hdf hd)]

theorem full_covers (e j : Nat) : (full e).covers j = true ↔ j < e := by
  simp [full, covers]

/-- whole-element copies and transfers with a datatype of the same extent agree on every communicated cell -/
theorem transferN_full_agree {α} (tm : TMap) (hwf : tm.wf) (hpos : 0 < tm.extent) (n : Nat) (src : List α) (s : Nat)
    (dst : List α) (d i : Nat) (hc : tm.covers ((i - d) % tm.extent) = true) :
    (transferN (full tm.extent) n src s dst d)[i]? = (transferN tm n src s dst d)[i]? := by
  have hpos' : 0 < (full tm.extent).extent := hpos
  rw [transferN_getElem? tm hwf hpos, transferN_getElem? (full tm.extent) (full_wf _) hpos']
  have hfull : (full tm.extent).covers ((i - d) % (full tm.extent).extent) = true :=
    (full_covers _ _).mpr (Nat.mod_lt _ hpos)
  have he : (full tm.extent).extent = tm.extent := rfl
  rw [he] at hfull
  simp only [hc, hfull, he, and_true]

theorem seq_copy_agrees {α} (tm : TMap) (hwf : tm.wf) (hpos : 0 < tm.extent) (src : List α) (io : Nat) (dst : List α)
    (oo len i : Nat) (hc : tm.covers ((i - oo * tm.extent) % tm.extent) = true) :
    (Seq.copyLoop tm.extent src io dst oo len)[i]? = (transferN tm len src (io * tm.extent) dst (oo * tm.extent))[i]? := by
  rw [copyLoop_eq]
  exact transferN_full_agree tm hwf hpos len src _ dst _ i hc

end DV.C07.Proofs
