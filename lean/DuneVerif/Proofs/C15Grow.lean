/-
C15 — the loop of `Pool::grow` with the bounds regenerated from the source visits exactly the slots 1 … elements-1.
Core Lean only.
-/
import DuneVerif.Model.C15

namespace DV.C15
open DV.C15.Gen

/-- `for (e = a; e < E*a; e += a)` visits `1*a, 2*a, …, (E-1)*a` -/
theorem growLoop_canonical (a E : Nat) (ha : 0 < a) (hE : 1 ≤ E) :
    growLoopOffsets a a (E * a) = (List.range' 1 (E - 1)).map (fun i => i * a) := by
  obtain ⟨e, rfl⟩ : ∃ e, E = e + 1 := ⟨E - 1, by omega⟩
  have hcount : ((e + 1) * a - a + a - 1) / a = e := by
    rw [Nat.add_mul, Nat.one_mul]
    have h1 : e * a + a - a + a - 1 = a * e + (a - 1) := by rw [Nat.mul_comm e a]; omega
    rw [h1, Nat.mul_add_div ha, Nat.div_eq_of_lt (by omega)]
    rfl
  unfold growLoopOffsets
  rw [hcount]
  simp only [Nat.add_sub_cancel]
  rw [List.range'_eq_map_range, List.map_map]
  apply List.map_congr_left
  intro k _
  simp only [Function.comp]
  rw [Nat.add_mul, Nat.one_mul]

end DV.C15
