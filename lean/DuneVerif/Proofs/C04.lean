import DuneVerif.Model.C04
/-!
Helper lemmas for C04 (core Lean only).
Part 1: the merge-joins `unpackLoop` / `unpackBoth` against `join`.
Part 2: `unpackCreateRemote` / `fromRank` against `join`.
Part 3: the map `RMap` (insert / find / extensionality / folds).
Part 4: ring order.
-/
namespace DV.C04

/-! ## Part 1 -/

theorem join_nil_rem (fs : Bool) (loc : List Pair) : join fs loc [] = [] := by
  induction loc with
  | nil => rfl
  | cons p ps ih => simp [join, joinOne]

theorem join_nil_loc (fs : Bool) (rem : List Wire) : join fs [] rem = [] := rfl

theorem joinOne_none_of_nomatch {fs : Bool} {rem : List Wire} {p : Pair}
    (h : ∀ r ∈ rem, r.g ≠ p.g) : joinOne fs rem p = none := by
  have : rem.find? (fun r => r.g == p.g) = none := by
    rw [List.find?_eq_none]
    intro r hr
    simpa using h r hr
  simp [joinOne, this]

theorem join_cons_loc (fs : Bool) (p : Pair) (ps : List Pair) (rem : List Wire) :
    join fs (p :: ps) rem = (joinOne fs rem p).toList ++ join fs ps rem := by
  simp only [join, List.filterMap_cons]
  cases joinOne fs rem p <;> simp

/-- a remote entry whose global index no local pair has can be removed -/
theorem join_cons_rem_nomatch {fs : Bool} {loc : List Pair} {r : Wire} {rs : List Wire}
    (h : ∀ x ∈ loc, x.g ≠ r.g) : join fs loc (r :: rs) = join fs loc rs := by
  induction loc with
  | nil => rfl
  | cons p ps ih =>
    have hp : r.g ≠ p.g := fun e => h p (by simp) e.symm
    have ih' := ih (fun x hx => h x (by simp [hx]))
    rw [join_cons_loc, join_cons_loc, ih']
    have : joinOne fs (r :: rs) p = joinOne fs rs p := by
      simp [joinOne, List.find?_cons, hp]
    rw [this]

/-- local pairs below every remote global index can be skipped -/
theorem join_dropWhile {fs : Bool} {rem : List Wire} {g0 : Int} (h : ∀ r ∈ rem, g0 ≤ r.g) (loc : List Pair) :
    join fs (loc.dropWhile (fun p => p.g < g0)) rem = join fs loc rem := by
  induction loc with
  | nil => rfl
  | cons p ps ih =>
    by_cases hp : p.g < g0
    · have hnone : joinOne fs rem p = none :=
        joinOne_none_of_nomatch (fun r hr e => by have := h r hr; omega)
      rw [List.dropWhile_cons_of_pos (by simpa using hp), ih, join_cons_loc, hnone]
      rfl
    · rw [List.dropWhile_cons_of_neg (by simpa using hp)]

theorem strictG_dropWhile {loc : List Pair} (h : StrictG loc) (f : Pair → Bool) : StrictG (loc.dropWhile f) :=
  List.Pairwise.sublist (List.dropWhile_sublist f) h

theorem sortedG_dropWhile {loc : List Pair} (h : SortedG loc) (f : Pair → Bool) : SortedG (loc.dropWhile f) :=
  List.Pairwise.sublist (List.dropWhile_sublist f) h

theorem head_dropWhile_ge {loc : List Pair} {g0 : Int} {p : Pair} {ps : List Pair}
    (h : loc.dropWhile (fun p => p.g < g0) = p :: ps) : g0 ≤ p.g := by
  induction loc with
  | nil => simp at h
  | cons x xs ih =>
    by_cases hx : x.g < g0
    · rw [List.dropWhile_cons_of_pos (by simpa using hx)] at h
      exact ih h
    · rw [List.dropWhile_cons_of_neg (by simpa using hx)] at h
      have : x = p := (List.cons.inj h).1
      subst this
      omega

theorem takeSame_of_lt (fs : Bool) (r : Wire) {ps : List Pair} (h : ∀ x ∈ ps, r.g < x.g) :
    takeSame fs r ps = ([], ps) := by
  cases ps with
  | nil => rfl
  | cons x xs =>
    have : x.g ≠ r.g := by have := h x (by simp); omega
    simp [takeSame, this]

theorem rewinds_false_of_lt (r : Wire) {rs : List Wire} (h : ∀ r' ∈ rs, r.g < r'.g) : rewinds r rs = false := by
  cases rs with
  | nil => rfl
  | cons r' rs' =>
    have : r'.g ≠ r.g := by have := h r' (by simp); omega
    simp [rewinds, this]

/-- `unpack_spec_strict` in its working form -/
theorem unpackLoop_eq_join (fs : Bool) : ∀ (rem : List Wire) (loc : List Pair), StrictW rem → StrictG loc →
    unpackLoop fs rem loc = join fs loc rem
  | [], loc, _, _ => by simp [unpackLoop, join_nil_rem]
  | r :: rs, loc, hrem, hloc => by
    have hr : ∀ r' ∈ rs, r.g < r'.g := (List.pairwise_cons.mp hrem).1
    have hrs : StrictW rs := (List.pairwise_cons.mp hrem).2
    have hge : ∀ r' ∈ r :: rs, r.g ≤ r'.g := by
      intro r' h'
      rcases List.mem_cons.mp h' with e | e
      · subst e; omega
      · have := hr r' e; omega
    rw [← join_dropWhile hge loc]
    have hs1 := strictG_dropWhile hloc (fun p => decide (p.g < r.g))
    unfold unpackLoop
    generalize hl1 : loc.dropWhile (fun p => decide (p.g < r.g)) = loc1 at hs1
    cases loc1 with
    | nil => simp [join_nil_loc]
    | cons p ps =>
      have hpge : r.g ≤ p.g := head_dropWhile_ge hl1
      have hps : ∀ x ∈ ps, p.g < x.g := (List.pairwise_cons.mp hs1).1
      have hsps : StrictG ps := (List.pairwise_cons.mp hs1).2
      by_cases hpe : p.g = r.g
      · have hts : takeSame fs r (p :: ps) = (if !fs || r.a != p.a then [⟨r.a, p⟩] else [], ps) := by
          have := takeSame_of_lt fs r (ps := ps) (fun x hx => by have := hps x hx; omega)
          simp [takeSame, hpe, this]
        have hrw := rewinds_false_of_lt r hr
        have ih := unpackLoop_eq_join fs rs ps hrs hsps
        simp only [hpe, if_true, hts, hrw, ih]
        rw [join_cons_loc]
        have hj1 : (joinOne fs (r :: rs) p).toList = (if !fs || r.a != p.a then [⟨r.a, p⟩] else []) := by
          simp [joinOne, List.find?_cons, hpe]
          cases fs <;> by_cases ha : r.a = p.a <;> simp [ha]
        have hj2 : join fs ps (r :: rs) = join fs ps rs :=
          join_cons_rem_nomatch (fun x hx e => by have := hps x hx; omega)
        rw [hj1, hj2]
        simp [ih]
      · have ih := unpackLoop_eq_join fs rs (p :: ps) hrs hs1
        have hj : join fs (p :: ps) (r :: rs) = join fs (p :: ps) rs :=
          join_cons_rem_nomatch (fun x hx e => by
            rcases List.mem_cons.mp hx with e' | e'
            · subst e'; exact hpe e
            · have := hps x e'; omega)
        simp only [hpe, if_false, ih, hj]

/-! two-list version -/

/-- one side of `unpackBoth` (without the common early exit) -/
def scan : List Wire → List Pair → List RIdx
  | [], _ => []
  | r :: rs, l =>
    let l1 := l.dropWhile (fun p => p.g < r.g)
    headMatch r l1 ++ scan rs l1

theorem scan_nil_loc : ∀ rem : List Wire, scan rem [] = []
  | [] => rfl
  | r :: rs => by simp [scan, headMatch, scan_nil_loc rs]

theorem unpackBoth_eq_scan : ∀ (rem : List Wire) (ls ld : List Pair),
    unpackBoth rem ls ld = (scan rem ls, scan rem ld)
  | [], _, _ => rfl
  | r :: rs, ls, ld => by
    unfold unpackBoth
    by_cases h : (ls.isEmpty && ld.isEmpty) = true
    · simp only [Bool.and_eq_true, List.isEmpty_iff] at h
      simp [h.1, h.2, scan_nil_loc]
    · simp only [h, Bool.false_eq_true, if_false, unpackBoth_eq_scan rs, scan]

theorem scan_eq_join : ∀ (rem : List Wire) (loc : List Pair), StrictW rem → StrictG loc →
    scan rem loc = join false loc rem
  | [], loc, _, _ => by simp [scan, join_nil_rem]
  | r :: rs, loc, hrem, hloc => by
    have hr : ∀ r' ∈ rs, r.g < r'.g := (List.pairwise_cons.mp hrem).1
    have hrs : StrictW rs := (List.pairwise_cons.mp hrem).2
    have hge : ∀ r' ∈ r :: rs, r.g ≤ r'.g := by
      intro r' h'
      rcases List.mem_cons.mp h' with e | e
      · subst e; omega
      · have := hr r' e; omega
    rw [← join_dropWhile hge loc]
    have hs1 := strictG_dropWhile hloc (fun p => decide (p.g < r.g))
    unfold scan
    generalize hl1 : loc.dropWhile (fun p => decide (p.g < r.g)) = loc1 at hs1
    have ih := scan_eq_join rs loc1 hrs hs1
    simp only [ih]
    cases loc1 with
    | nil => simp [headMatch, join_nil_loc]
    | cons p ps =>
      have hps : ∀ x ∈ ps, p.g < x.g := (List.pairwise_cons.mp hs1).1
      by_cases hpe : p.g = r.g
      · rw [join_cons_loc, join_cons_loc]
        have hj1 : (joinOne false (r :: rs) p).toList = [⟨r.a, p⟩] := by
          simp [joinOne, hpe]
        have hj2 : join false ps (r :: rs) = join false ps rs :=
          join_cons_rem_nomatch (fun x hx e => by have := hps x hx; omega)
        have hj3 : joinOne false rs p = none :=
          joinOne_none_of_nomatch (fun r' hr' e => by have := hr r' hr'; omega)
        simp [headMatch, hpe, hj1, hj2, hj3]
      · have hj : join false (p :: ps) (r :: rs) = join false (p :: ps) rs :=
          join_cons_rem_nomatch (fun x hx e => by
            have hpge : r.g ≤ p.g := head_dropWhile_ge hl1
            rcases List.mem_cons.mp hx with e' | e'
            · subst e'; exact hpe e
            · have := hps x e'; omega)
        simp [headMatch, hpe, hj]

/-! ## Part 2: messages -/

theorem strictG_published {s : List Pair} (h : StrictG s) (ign : Bool) : StrictG (published ign s) :=
  List.Pairwise.sublist List.filter_sublist h

theorem strictW_wire {s : List Pair} (h : StrictG s) : StrictW (wire s) := by
  unfold StrictW wire
  rw [List.pairwise_map]
  exact h

theorem wire_length (s : List Pair) : (wire s).length = s.length := by simp [wire]

theorem unpackIndices_eq (fs : Bool) (a b : List Wire) (loc : List Pair) (ha : StrictW a) (hl : StrictG loc) :
    unpackIndices fs (a ++ b) a.length loc = (join fs loc a, b) := by
  unfold unpackIndices
  by_cases h0 : a.length = 0
  · have : a = [] := List.length_eq_zero_iff.mp h0
    subst this
    simp [join_nil_rem]
  · simp [h0, unpackLoop_eq_join fs a loc ha hl]

theorem unpackCreateRemote_spec (fs ign : Bool) (me other : RankData)
    (hms : StrictG me.src) (hmt : StrictG me.tgt) (hos : StrictG other.src) (hot : StrictG other.tgt)
    (hfs : fs = true → me.two = other.two) :
    unpackCreateRemote (mkMsg ign other) (me.srcPairs ign) (me.dstPairs ign) me.two fs
      = optLists (specLists fs ign me other) := by
  have hS := strictG_published hms ign
  have hOS := strictW_wire (strictG_published hos ign)
  have hOT := strictW_wire (strictG_published hot ign)
  have hD : StrictG (me.dstPairs ign) := by
    unfold RankData.dstPairs RankData.tgtOf
    split
    · exact strictG_published hmt ign
    · exact hS
  unfold unpackCreateRemote optLists specLists
  cases hot2 : other.two with
  | false =>
    have hmsg : mkMsg ign other = ⟨false, (wire (published ign other.src)).length, 0, wire (published ign other.src) ++ []⟩ := by
      simp [mkMsg, hot2, wire]
    have hdst : other.dstPairs ign = published ign other.src := by simp [RankData.dstPairs, RankData.tgtOf, hot2]
    rw [hmsg, hdst]
    simp only [RankData.srcPairs, Bool.not_false, if_true]
    cases hm2 : me.two with
    | false =>
      have hmd : me.dstPairs ign = published ign me.src := by simp [RankData.dstPairs, RankData.tgtOf, hm2]
      rw [hmd]
      simp only [Bool.false_eq_true, if_false]
      rw [unpackIndices_eq fs _ [] _ hOS hS]
      rfl
    | true =>
      have hfs' : fs = false := by
        cases fs with
        | false => rfl
        | true => have := hfs rfl; rw [hm2, hot2] at this; cases this
      subst hfs'
      simp only [if_true, List.append_nil, List.take_length]
      rw [unpackBoth_eq_scan, scan_eq_join _ _ hOS hS, scan_eq_join _ _ hOS hD]
      rfl
  | true =>
    have hmsg : mkMsg ign other = ⟨true, (wire (published ign other.src)).length, (wire (published ign other.tgt)).length,
        wire (published ign other.src) ++ wire (published ign other.tgt)⟩ := by
      simp [mkMsg, hot2, wire]
    have hdst : other.dstPairs ign = published ign other.tgt := by simp [RankData.dstPairs, RankData.tgtOf, hot2]
    rw [hmsg, hdst]
    simp only [RankData.srcPairs, Bool.not_true, Bool.false_eq_true, if_false]
    rw [unpackIndices_eq fs _ _ _ hOS hD]
    have := unpackIndices_eq fs (wire (published ign other.tgt)) [] (published ign me.src) hOT hS
    rw [List.append_nil] at this
    simp only [this]
    rfl

/-! ## Part 3: the map -/

theorem RMap.find_none_of_lt {m : RMap} {k : Nat} (h : ∀ e ∈ m, k < e.1) : m.find k = none := by
  induction m with
  | nil => rfl
  | cons e rest ih =>
    obtain ⟨k', v'⟩ := e
    have h1 : k < k' := h (k', v') (by simp)
    have : k ≠ k' := by omega
    simp [RMap.find, this, ih (fun e he => h e (by simp [he]))]

theorem RMap.mem_insert {k : Nat} {v : Lists} {e : Nat × Lists} : ∀ (m : RMap), e ∈ RMap.insert m k v → e ∈ m ∨ e = (k, v)
  | [], he => by simp [RMap.insert] at he; right; exact he
  | (kx, vx) :: xs, he => by
    unfold RMap.insert at he
    by_cases c1 : k < kx
    · rw [if_pos c1] at he
      rcases List.mem_cons.mp he with e' | e'
      · right; exact e'
      · left; exact e'
    · rw [if_neg c1] at he
      by_cases c2 : k = kx
      · rw [if_pos c2] at he
        left; exact he
      · rw [if_neg c2] at he
        rcases List.mem_cons.mp he with e' | e'
        · left; simp [e']
        · rcases RMap.mem_insert xs e' with h | h
          · left; simp [h]
          · right; exact h

theorem RMap.sorted_insert {m : RMap} (hm : m.SortedKeys) (k : Nat) (v : Lists) : (m.insert k v).SortedKeys := by
  induction m with
  | nil => simp [RMap.insert, RMap.SortedKeys]
  | cons e rest ih =>
    obtain ⟨k', v'⟩ := e
    have hh := List.pairwise_cons.mp hm
    unfold RMap.insert
    by_cases h1 : k < k'
    · rw [if_pos h1]
      refine List.pairwise_cons.mpr ⟨?_, hm⟩
      intro e he
      rcases List.mem_cons.mp he with e' | e'
      · subst e'; exact h1
      · have := hh.1 e e'; simp at this; omega
    · rw [if_neg h1]
      by_cases h2 : k = k'
      · rw [if_pos h2]
        exact hm
      · rw [if_neg h2]
        refine List.pairwise_cons.mpr ⟨?_, ih hh.2⟩
        intro e he
        rcases RMap.mem_insert rest he with h | h
        · exact hh.1 e h
        · subst h; simp; omega

theorem RMap.find_insert {m : RMap} (hm : m.SortedKeys) (k : Nat) (v : Lists) (k' : Nat) :
    (m.insert k v).find k' = if k' = k then (match m.find k with | some v' => some v' | none => some v) else m.find k' := by
  induction m with
  | nil =>
    by_cases h : k' = k <;> simp [RMap.insert, RMap.find, h]
  | cons e rest ih =>
    obtain ⟨k0, v0⟩ := e
    have hh := List.pairwise_cons.mp hm
    unfold RMap.insert
    by_cases h1 : k < k0
    · have hnone : RMap.find ((k0, v0) :: rest) k = none :=
        RMap.find_none_of_lt (by
          intro e he
          rcases List.mem_cons.mp he with e' | e'
          · subst e'; exact h1
          · have := hh.1 e e'; simp at this; omega)
      rw [if_pos h1]
      by_cases h : k' = k
      · subst h; rw [hnone]; simp [RMap.find]
      · simp [RMap.find, h]
    · rw [if_neg h1]
      by_cases h2 : k = k0
      · rw [if_pos h2]
        subst h2
        by_cases h : k' = k
        · subst h; simp [RMap.find]
        · simp [h]
      · rw [if_neg h2]
        have ih' := ih hh.2
        by_cases h : k' = k
        · subst h
          simp only [RMap.find, h2, if_false, if_true] at ih' ⊢
          exact ih'
        · simp only [h, if_false] at ih' ⊢
          simp only [RMap.find, ih']

theorem RMap.sorted_add {m : RMap} (hm : m.SortedKeys) (k : Nat) (o : Option Lists) : (m.add k o).SortedKeys := by
  cases o with
  | none => exact hm
  | some v => exact RMap.sorted_insert hm k v

theorem RMap.find_add {m : RMap} (hm : m.SortedKeys) (k : Nat) (o : Option Lists) (k' : Nat) :
    (m.add k o).find k' = match m.find k' with
      | some v' => some v'
      | none => if k' = k then o else none := by
  cases o with
  | none =>
    simp only [RMap.add]
    cases m.find k' <;> simp
  | some v =>
    simp only [RMap.add, RMap.find_insert hm]
    by_cases h : k' = k
    · subst h; simp
    · simp only [h, if_false]; cases m.find k' <;> simp

/-- processing the messages of the ranks `qs`: lookup characterisation -/
theorem foldAdd_spec (f : Nat → Option Lists) : ∀ (qs : List Nat) (m : RMap), m.SortedKeys →
    (qs.foldl (fun m q => m.add q (f q)) m).SortedKeys ∧
    ∀ k, (qs.foldl (fun m q => m.add q (f q)) m).find k = match m.find k with
      | some v => some v
      | none => if k ∈ qs then f k else none
  | [], m, hm => by
    refine ⟨hm, fun k => ?_⟩
    simp only [List.foldl_nil]
    cases h : m.find k <;> simp
  | q :: qs, m, hm => by
    have hm' := RMap.sorted_add hm q (f q)
    obtain ⟨hs, hf⟩ := foldAdd_spec f qs (m.add q (f q)) hm'
    refine ⟨by simpa [List.foldl_cons] using hs, fun k => ?_⟩
    rw [List.foldl_cons, hf k, RMap.find_add hm]
    cases hfk : m.find k with
    | some v => simp
    | none =>
      by_cases hk : k = q
      · subst hk
        cases hfq : f k <;> simp [hfq]
      · simp [hk]

/-- two maps with ascending keys and the same lookups are equal -/
theorem RMap.ext : ∀ {m₁ m₂ : RMap}, m₁.SortedKeys → m₂.SortedKeys → (∀ k, m₁.find k = m₂.find k) → m₁ = m₂
  | [], [], _, _, _ => rfl
  | [], (k, v) :: r, _, _, h => by have := h k; simp [RMap.find] at this
  | (k, v) :: r, [], _, _, h => by have := h k; simp [RMap.find] at this
  | (k1, v1) :: r1, (k2, v2) :: r2, h1, h2, h => by
    have hh1 := List.pairwise_cons.mp h1
    have hh2 := List.pairwise_cons.mp h2
    have n1 : ∀ k, k ≤ k1 → RMap.find r1 k = none := fun k hk =>
      RMap.find_none_of_lt (fun e he => by have := hh1.1 e he; simp at this; omega)
    have n2 : ∀ k, k ≤ k2 → RMap.find r2 k = none := fun k hk =>
      RMap.find_none_of_lt (fun e he => by have := hh2.1 e he; simp at this; omega)
    have hk : k1 = k2 := by
      rcases Nat.lt_trichotomy k1 k2 with c | c | c
      · have := h k1
        have ne : k1 ≠ k2 := by omega
        simp [RMap.find, ne, n2 k1 (by omega)] at this
      · exact c
      · have := h k2
        have ne : k2 ≠ k1 := by omega
        simp [RMap.find, ne, n1 k2 (by omega)] at this
    subst hk
    have hv : v1 = v2 := by have := h k1; simpa [RMap.find] using this
    subst hv
    have : r1 = r2 := RMap.ext hh1.2 hh2.2 (fun k => by
      by_cases c : k = k1
      · subst c; rw [n1 k (Nat.le_refl _), n2 k (Nat.le_refl _)]
      · have := h k; simpa [RMap.find, c] using this)
    rw [this]

/-- every entry of the map was there before or was produced by `f` for one of the processed ranks -/
theorem foldAdd_mem (f : Nat → Option Lists) : ∀ (qs : List Nat) (m : RMap) (e : Nat × Lists),
    e ∈ qs.foldl (fun m q => m.add q (f q)) m → e ∈ m ∨ (e.1 ∈ qs ∧ f e.1 = some e.2)
  | [], _, _, h => Or.inl h
  | q :: qs, m, e, h => by
    rcases foldAdd_mem f qs (m.add q (f q)) e h with h' | h'
    · cases hf : f q with
      | none => left; simpa [RMap.add, hf] using h'
      | some v =>
        simp only [RMap.add, hf] at h'
        rcases RMap.mem_insert m h' with h'' | h''
        · left; exact h''
        · right; subst h''; exact ⟨by simp, hf⟩
    · right; exact ⟨by simp [h'.1], h'.2⟩

/-! ## Part 4: ring order and neighbour ids -/

theorem mem_ringOrder {P p : Nat} (hp : p < P) (q : Nat) : q ∈ ringOrder P p ↔ q < P ∧ q ≠ p := by
  unfold ringOrder
  simp only [List.mem_map, List.mem_range'_1]
  constructor
  · rintro ⟨k, ⟨hk1, hk2⟩, rfl⟩
    have hP : 0 < P := by omega
    refine ⟨Nat.mod_lt _ hP, ?_⟩
    by_cases hkp : k ≤ p
    · have e : p + P - k = (p - k) + P := by omega
      rw [e, Nat.add_mod_right, Nat.mod_eq_of_lt (by omega)]
      omega
    · rw [Nat.mod_eq_of_lt (by omega)]
      omega
  · rintro ⟨hq, hne⟩
    by_cases hqp : q < p
    · refine ⟨p - q, ⟨by omega, by omega⟩, ?_⟩
      have e : p + P - (p - q) = q + P := by omega
      rw [e, Nat.add_mod_right, Nat.mod_eq_of_lt hq]
    · refine ⟨p + P - q, ⟨by omega, by omega⟩, ?_⟩
      have e : p + P - (p + P - q) = q := by omega
      rw [e, Nat.mod_eq_of_lt hq]

theorem mem_insertSet (k x : Nat) : ∀ l : List Nat, x ∈ insertSet k l ↔ x = k ∨ x ∈ l
  | [] => by simp [insertSet]
  | y :: ys => by
    unfold insertSet
    by_cases h1 : k < y
    · rw [if_pos h1]; simp
    · rw [if_neg h1]
      by_cases h2 : k = y
      · rw [if_pos h2]; subst h2; simp
      · rw [if_neg h2]
        simp only [List.mem_cons, mem_insertSet k x ys]
        constructor
        · rintro (h | h | h)
          · right; left; exact h
          · left; exact h
          · right; right; exact h
        · rintro (h | h | h)
          · right; left; exact h
          · left; exact h
          · right; right; exact h

theorem mem_foldl_insertSet (x : Nat) : ∀ (l acc : List Nat),
    x ∈ l.foldl (fun s k => insertSet k s) acc ↔ x ∈ l ∨ x ∈ acc
  | [], acc => by simp
  | k :: ks, acc => by
    rw [List.foldl_cons, mem_foldl_insertSet x ks, mem_insertSet]
    simp only [List.mem_cons]
    constructor
    · rintro (h | h | h)
      · left; right; exact h
      · left; left; exact h
      · right; exact h
    · rintro ((h | h) | h)
      · right; left; exact h
      · left; exact h
      · right; right; exact h

theorem mem_nbIds (d : RankData) (p x : Nat) : x ∈ nbIds d p ↔ x ∈ d.hints ∧ x ≠ p := by
  unfold nbIds
  rw [mem_foldl_insertSet]
  simp

theorem sorted_nil : RMap.SortedKeys [] := List.Pairwise.nil

/-! ## Part 5: `buildRemote` -/

theorem find_selfPart (ign : Bool) (sys : System) (p k : Nat) :
    (selfPart ign sys p).find k =
      if ((sys.rank p).two || (sys.rank p).incl) = true ∧ k = p then fromRank ign sys p p (sys.rank p).incl else none := by
  unfold selfPart
  by_cases h : ((sys.rank p).two || (sys.rank p).incl) = true
  · simp only [h, if_true, true_and]
    rw [RMap.find_add sorted_nil]
    simp [RMap.find]
  · simp [h, RMap.find]

theorem sorted_selfPart (ign : Bool) (sys : System) (p : Nat) : (selfPart ign sys p).SortedKeys := by
  unfold selfPart
  by_cases h : ((sys.rank p).two || (sys.rank p).incl) = true
  · simp only [h, if_true]
    exact RMap.sorted_add sorted_nil _ _
  · simp only [h]
    exact sorted_nil

theorem buildRemote_eq (ign : Bool) (sys : System) (p : Nat) (order : List Nat) :
    buildRemote ign sys p order =
      if (sys.P == 1 && !((sys.rank p).two || (sys.rank p).incl)) = true then []
      else receiveAll ign sys p (selfPart ign sys p) (sources sys p order) := by
  unfold buildRemote sources
  simp only []
  by_cases h1 : (sys.P == 1 && !((sys.rank p).two || (sys.rank p).incl)) = true
  · rw [if_pos h1, if_pos h1]
  · rw [if_neg h1, if_neg h1]
    by_cases h2 : (nbIds (sys.rank p) p).isEmpty = true
    · rw [if_pos h2, if_pos h2]
    · rw [if_neg h2, if_neg h2]

theorem sorted_buildRemote (ign : Bool) (sys : System) (p : Nat) (order : List Nat) :
    (buildRemote ign sys p order).SortedKeys := by
  rw [buildRemote_eq]
  split
  · exact sorted_nil
  · exact (foldAdd_spec (fun q => fromRank ign sys p q false) _ _ (sorted_selfPart ign sys p)).1

theorem validSources_ring {sys : System} {p : Nat} (hp : p < sys.P) (order : List Nat)
    (h : nbIds (sys.rank p) p = []) : ValidSources sys p order := by
  intro q hq
  simp only [sources, h, List.isEmpty_nil, if_true] at hq
  exact (mem_ringOrder hp q).mp hq

theorem validSources_nb {sys : System} {p : Nat} {order : List Nat}
    (hperm : order.Perm (nbIds (sys.rank p) p)) (hlt : ∀ q ∈ nbIds (sys.rank p) p, q < sys.P) (hp : p < sys.P) :
    ValidSources sys p order := by
  intro q hq
  unfold sources at hq
  split at hq
  · exact (mem_ringOrder hp q).mp hq
  · have hq' := hperm.mem_iff.mp hq
    exact ⟨hlt q hq', ((mem_nbIds _ _ _).mp hq').2⟩

theorem find_buildRemote (ign : Bool) (sys : System) (p : Nat) (order : List Nat)
    (hv : ValidSources sys p order) (hp : p < sys.P) (k : Nat) :
    (buildRemote ign sys p order).find k =
      if k = p then
        (if ((sys.rank p).two || (sys.rank p).incl) = true then fromRank ign sys p p (sys.rank p).incl else none)
      else if k ∈ sources sys p order then fromRank ign sys p k false else none := by
  rw [buildRemote_eq]
  have hpn : p ∉ sources sys p order := fun h => (hv p h).2 rfl
  by_cases h1 : (sys.P == 1 && !((sys.rank p).two || (sys.rank p).incl)) = true
  · simp only [h1, if_true, RMap.find]
    simp only [Bool.and_eq_true, beq_iff_eq, Bool.not_eq_true', Bool.or_eq_false_iff] at h1
    by_cases hk : k = p
    · simp [hk, h1.2.1, h1.2.2]
    · have : k ∉ sources sys p order := fun h => by
        have := hv k h
        omega
      simp [hk, this]
  · simp only [h1, Bool.false_eq_true, if_false]
    have hf := (foldAdd_spec (fun q => fromRank ign sys p q false) (sources sys p order) _
      (sorted_selfPart ign sys p)).2 k
    unfold receiveAll
    rw [hf, find_selfPart]
    by_cases hk : k = p
    · subst hk
      by_cases h2 : ((sys.rank k).two || (sys.rank k).incl) = true
      · simp only [h2, and_self, if_true]
        cases fromRank ign sys k k (sys.rank k).incl <;> simp [hpn]
      · simp [h2, hpn]
    · simp [hk]

/-- the result does not depend on the order in which the neighbours' messages are processed -/
theorem buildRemote_perm (ign : Bool) (sys : System) (p : Nat) (o₁ o₂ : List Nat) (h : o₁.Perm o₂) :
    buildRemote ign sys p o₁ = buildRemote ign sys p o₂ := by
  rw [buildRemote_eq, buildRemote_eq]
  split
  · rfl
  · unfold receiveAll
    have s1 := foldAdd_spec (fun q => fromRank ign sys p q false) (sources sys p o₁) _ (sorted_selfPart ign sys p)
    have s2 := foldAdd_spec (fun q => fromRank ign sys p q false) (sources sys p o₂) _ (sorted_selfPart ign sys p)
    apply RMap.ext s1.1 s2.1
    intro k
    rw [s1.2 k, s2.2 k]
    have : k ∈ sources sys p o₁ ↔ k ∈ sources sys p o₂ := by
      unfold sources
      split
      · exact Iff.rfl
      · exact h.mem_iff
    simp only [this]

/-! ## Part 6: further facts -/

theorem strictG_inj {S : List Pair} (h : StrictG S) {x y : Pair} (hx : x ∈ S) (hy : y ∈ S) (e : x.g = y.g) : x = y := by
  induction S with
  | nil => simp at hx
  | cons z zs ih =>
    have hh := List.pairwise_cons.mp h
    rcases List.mem_cons.mp hx with hx' | hx' <;> rcases List.mem_cons.mp hy with hy' | hy'
    · rw [hx', hy']
    · subst hx'; have := hh.1 y hy'; omega
    · subst hy'; have := hh.1 x hx'; omega
    · exact ih hh.2 hx' hy'

/-- one index set against itself with the `fromOurSelf` rule: nothing, when globals are not repeated -/
theorem join_self_fromSelf {S : List Pair} (h : StrictG S) : join true S (wire S) = [] := by
  unfold join
  rw [List.filterMap_eq_nil_iff]
  intro p hp
  unfold joinOne
  cases hf : (wire S).find? (fun r => r.g == p.g) with
  | none => rfl
  | some r =>
    have hr := List.find?_some hf
    have hm := List.mem_of_find?_eq_some hf
    simp only [wire, List.mem_map] at hm
    obtain ⟨x, hx, rfl⟩ := hm
    simp only [Pair.wire, beq_iff_eq] at hr
    have : x = p := strictG_inj h hx hp hr
    subst this
    simp [Pair.wire]

theorem join_locs_sublist (fs : Bool) (loc : List Pair) (rem : List Wire) :
    ((join fs loc rem).map (·.loc)).Sublist loc := by
  induction loc with
  | nil => simp [join]
  | cons p ps ih =>
    rw [join_cons_loc]
    cases h : joinOne fs rem p with
    | none => simpa using List.Sublist.cons p ih
    | some x =>
      have : x.loc = p := by
        unfold joinOne at h
        split at h
        · split at h
          · cases h
          · cases h; rfl
        · cases h
      simpa [this] using ih

theorem strictR_join {loc : List Pair} (h : StrictG loc) (fs : Bool) (rem : List Wire) : StrictR (join fs loc rem) := by
  have := List.Pairwise.sublist (join_locs_sublist fs loc rem) h
  unfold StrictR
  rw [List.pairwise_map] at this
  exact this

theorem some_nonempty_aux (sr l : Lists)
    (h : (if (sr.2.isEmpty && sr.1.isEmpty) = true then none else some sr) = some l) : l.1 ≠ [] ∨ l.2 ≠ [] := by
  by_cases c : (sr.2.isEmpty && sr.1.isEmpty) = true
  · rw [if_pos c] at h; cases h
  · rw [if_neg c] at h
    cases h
    simp only [Bool.and_eq_true, List.isEmpty_iff, not_and] at c
    by_cases h2 : sr.2 = []
    · left; exact c h2
    · right; exact h2

theorem unpackCreateRemote_some_nonempty {m : Msg} {srcP dstP : List Pair} {sendTwo fs : Bool} {l : Lists}
    (h : unpackCreateRemote m srcP dstP sendTwo fs = some l) : l.1 ≠ [] ∨ l.2 ≠ [] := by
  unfold unpackCreateRemote at h
  exact some_nonempty_aux _ l h

theorem optLists_some {l v : Lists} (h : optLists l = some v) : v = l := by
  unfold optLists at h
  split at h
  · cases h
  · cases h; rfl

theorem optLists_send (l : Lists) : ((optLists l).map (·.1)).getD [] = l.1 := by
  unfold optLists
  split
  · rename_i h
    simp only [Bool.and_eq_true, List.isEmpty_iff] at h
    simp [h.2]
  · rfl

theorem optLists_recv (l : Lists) : ((optLists l).map (·.2)).getD [] = l.2 := by
  unfold optLists
  split
  · rename_i h
    simp only [Bool.and_eq_true, List.isEmpty_iff] at h
    simp [h.1]
  · rfl

theorem optLists_none_iff (l : Lists) : optLists l = none ↔ l.1 = [] ∧ l.2 = [] := by
  unfold optLists
  split
  · rename_i h
    simp only [Bool.and_eq_true, List.isEmpty_iff] at h
    simp [h.1, h.2]
  · rename_i h
    simp only [Bool.and_eq_true, List.isEmpty_iff, not_and] at h
    simp only [reduceCtorEq, false_iff, not_and]
    intro h1 h2
    exact h h2 h1

theorem fromRank_ring (ign : Bool) (sys : System) (p q : Nat) (fs : Bool) :
    fromRank ign sys.ring p q fs = fromRank ign sys p q fs := rfl

theorem fromRank_spec (ign : Bool) (sys : System) (hs : sys.Strict) {p q : Nat} (hp : p < sys.P) (hq : q < sys.P)
    (fs : Bool) (hfs : fs = true → (sys.rank p).two = (sys.rank q).two) :
    fromRank ign sys p q fs = optLists (specLists fs ign (sys.rank p) (sys.rank q)) :=
  unpackCreateRemote_spec fs ign (sys.rank p) (sys.rank q) (hs p hp).1 (hs p hp).2 (hs q hq).1 (hs q hq).2 hfs

/-! sequence numbers -/

theorem Seqs.apply_mono (two : Bool) (s : Seqs) (e : Resize) :
    s.src ≤ (s.apply two e).src ∧ s.dst ≤ (s.apply two e).dst := by
  cases e <;> cases two <;> simp [Seqs.apply]

theorem Seqs.applyAll_mono (two : Bool) : ∀ (evs : List Resize) (s : Seqs),
    s.src ≤ (s.applyAll two evs).src ∧ s.dst ≤ (s.applyAll two evs).dst
  | [], s => by simp [Seqs.applyAll]
  | e :: es, s => by
    have h1 := Seqs.apply_mono two s e
    have h2 := Seqs.applyAll_mono two es (s.apply two e)
    simp only [Seqs.applyAll, List.foldl_cons] at h2 ⊢
    omega

theorem Seqs.applyAll_eq_iff (two : Bool) : ∀ (evs : List Resize) (s : Seqs),
    ((s.applyAll two evs).src = s.src ∧ (s.applyAll two evs).dst = s.dst) ↔ ∀ e ∈ evs, e = Resize.other
  | [], s => by simp [Seqs.applyAll]
  | e :: es, s => by
    have hm := Seqs.applyAll_mono two es (s.apply two e)
    have h1 := Seqs.apply_mono two s e
    have ih := Seqs.applyAll_eq_iff two es (s.apply two e)
    simp only [Seqs.applyAll, List.foldl_cons] at hm ih ⊢
    constructor
    · intro h
      have he : e = Resize.other := by
        cases e with
        | other => rfl
        | source =>
          cases two <;> simp only [Seqs.apply, Bool.false_eq_true, if_false, if_true] at hm h1 h <;> omega
        | target =>
          cases two <;> simp only [Seqs.apply, Bool.false_eq_true, if_false, if_true] at hm h1 h <;> omega
      subst he
      intro e' he'
      rcases List.mem_cons.mp he' with c | c
      · exact c
      · exact ih.mp (by simpa [Seqs.apply] using h) e' c
    · intro h
      have he : e = Resize.other := h e (by simp)
      subst he
      have := ih.mpr (fun e' he' => h e' (by simp [he']))
      simpa [Seqs.apply] using this

theorem rebuild_seqs (st : RIState) (ign : Bool) (s : Seqs) (build : Unit → RMap) :
    (st.rebuild ign s.src s.dst build).sourceSeqNo = (s.src : Int) ∧
    (st.rebuild ign s.src s.dst build).destSeqNo = (s.dst : Int) := by
  unfold RIState.rebuild
  split
  · simp
  · rename_i h
    simp only [Bool.or_eq_true, Bool.not_eq_true', not_or, Bool.not_eq_false] at h
    have := h.2
    simp only [RIState.isSynced, Bool.and_eq_true, beq_iff_eq] at this
    exact this

/-! ## Part 7: the merge-join with repeated global indices (Tier B) -/

/-- the remote indices the remote entry `r` creates with the local list `loc` -/
def matchesOf (fs : Bool) (r : Wire) (loc : List Pair) : List RIdx :=
  loc.filterMap fun p => if p.g = r.g ∧ (!fs || r.a != p.a) then some ⟨r.a, p⟩ else none

theorem joinAll_cons (fs : Bool) (loc : List Pair) (r : Wire) (rs : List Wire) :
    joinAll fs loc (r :: rs) = matchesOf fs r loc ++ joinAll fs loc rs := by
  simp [joinAll, matchesOf]

theorem matchesOf_nil_of_ne {fs : Bool} {r : Wire} {loc : List Pair} (h : ∀ x ∈ loc, x.g ≠ r.g) :
    matchesOf fs r loc = [] := by
  unfold matchesOf
  rw [List.filterMap_eq_nil_iff]
  intro x hx
  simp [h x hx]

theorem matchesOf_dropWhile (fs : Bool) (r : Wire) {g0 : Int} (h : g0 ≤ r.g) (loc : List Pair) :
    matchesOf fs r (loc.dropWhile (fun p => p.g < g0)) = matchesOf fs r loc := by
  induction loc with
  | nil => rfl
  | cons p ps ih =>
    by_cases hp : p.g < g0
    · rw [List.dropWhile_cons_of_pos (by simpa using hp), ih]
      have : p.g ≠ r.g := by omega
      simp [matchesOf, this]
    · rw [List.dropWhile_cons_of_neg (by simpa using hp)]

theorem takeSame_matches (fs : Bool) (r : Wire) : ∀ loc : List Pair,
    matchesOf fs r loc = (takeSame fs r loc).1 ++ matchesOf fs r (takeSame fs r loc).2
  | [] => rfl
  | p :: ps => by
    unfold takeSame
    by_cases hp : p.g = r.g
    · have ih := takeSame_matches fs r ps
      simp only [hp, if_true]
      have hcons : matchesOf fs r (p :: ps) =
          (if (!fs || r.a != p.a) = true then [⟨r.a, p⟩] else []) ++ matchesOf fs r ps := by
        unfold matchesOf
        rw [List.filterMap_cons]
        by_cases hc : (!fs || r.a != p.a) = true
        · simp only [hp, hc, and_self, if_true]; rfl
        · simp only [hp, hc, and_false, if_false]; rfl
      rw [hcons, ih]
      by_cases hc : (!fs || r.a != p.a) = true
      · rw [if_pos hc, if_pos hc]; rfl
      · rw [if_neg hc, if_neg hc]; rfl
    · simp [hp]

theorem takeSame_other (fs : Bool) (r r' : Wire) (h : r'.g ≠ r.g) : ∀ loc : List Pair,
    matchesOf fs r' (takeSame fs r loc).2 = matchesOf fs r' loc
  | [] => rfl
  | p :: ps => by
    unfold takeSame
    by_cases hp : p.g = r.g
    · simp only [hp, if_true]
      rw [takeSame_other fs r r' h ps]
      have : p.g ≠ r'.g := by rw [hp]; exact fun e => h e.symm
      simp [matchesOf, this]
    · simp [hp]

theorem takeSame_rest_gt (fs : Bool) (r : Wire) : ∀ loc : List Pair, SortedG loc → (∀ x ∈ loc, r.g ≤ x.g) →
    ∀ x ∈ (takeSame fs r loc).2, r.g < x.g
  | [], _, _ => by simp [takeSame]
  | p :: ps, hs, hge => by
    have hh := List.pairwise_cons.mp hs
    unfold takeSame
    by_cases hp : p.g = r.g
    · simp only [hp, if_true]
      exact takeSame_rest_gt fs r ps hh.2 (fun x hx => hge x (by simp [hx]))
    · simp only [hp, if_false]
      intro x hx
      have hpg : r.g ≤ p.g := hge p (by simp)
      rcases List.mem_cons.mp hx with e | e
      · subst e; omega
      · have := hh.1 x e; omega

theorem takeSame_sorted (fs : Bool) (r : Wire) : ∀ loc : List Pair, SortedG loc → SortedG (takeSame fs r loc).2
  | [], h => by simpa [takeSame] using h
  | p :: ps, hs => by
    have hh := List.pairwise_cons.mp hs
    unfold takeSame
    by_cases hp : p.g = r.g
    · simp only [hp, if_true]
      exact takeSame_sorted fs r ps hh.2
    · simp only [hp, if_false]
      exact hs

theorem joinAll_congr (fs : Bool) (loc loc' : List Pair) : ∀ rs : List Wire,
    (∀ r' ∈ rs, matchesOf fs r' loc' = matchesOf fs r' loc) → joinAll fs loc' rs = joinAll fs loc rs
  | [], _ => rfl
  | r :: rs, h => by
    rw [joinAll_cons, joinAll_cons, h r (by simp), joinAll_congr fs loc loc' rs (fun r' hr' => h r' (by simp [hr']))]

theorem joinAll_nil_of_lt (fs : Bool) (loc : List Pair) : ∀ rs : List Wire,
    (∀ r' ∈ rs, ∀ x ∈ loc, x.g ≠ r'.g) → joinAll fs loc rs = []
  | [], _ => rfl
  | r :: rs, h => by
    rw [joinAll_cons, matchesOf_nil_of_ne (h r (by simp)),
      joinAll_nil_of_lt fs loc rs (fun r' hr' => h r' (by simp [hr']))]
    rfl

theorem dropWhile_all_ge {loc : List Pair} (hs : SortedG loc) (g0 : Int) :
    ∀ x ∈ loc.dropWhile (fun p => p.g < g0), g0 ≤ x.g := by
  intro x hx
  generalize hl : loc.dropWhile (fun p => decide (p.g < g0)) = l1 at hx
  cases l1 with
  | nil => simp at hx
  | cons p ps =>
    have hp := head_dropWhile_ge hl
    have hs1 : SortedG (p :: ps) := by rw [← hl]; exact sortedG_dropWhile hs _
    rcases List.mem_cons.mp hx with e | e
    · subst e; exact hp
    · have := (List.pairwise_cons.mp hs1).1 x e; omega

theorem dropWhile_all_lt (loc : List Pair) (g0 : Int) (x : Pair) (hx : x ∈ loc)
    (hn : x ∉ loc.dropWhile (fun p => p.g < g0)) (hs : SortedG loc) : x.g < g0 := by
  induction loc with
  | nil => simp at hx
  | cons p ps ih =>
    by_cases hp : p.g < g0
    · rw [List.dropWhile_cons_of_pos (by simpa using hp)] at hn
      rcases List.mem_cons.mp hx with e | e
      · subst e; exact hp
      · exact ih e hn (List.pairwise_cons.mp hs).2
    · rw [List.dropWhile_cons_of_neg (by simpa using hp)] at hn
      exact absurd hx hn

/-- `unpack_spec` in its working form: sorted inputs, repeated globals allowed -/
theorem unpackLoop_eq_joinAll (fs : Bool) : ∀ (rem : List Wire) (loc : List Pair), SortedW rem → SortedG loc →
    unpackLoop fs rem loc = joinAll fs loc rem
  | [], loc, _, _ => by simp [unpackLoop, joinAll]
  | r :: rs, loc, hrem, hloc => by
    have hr : ∀ r' ∈ rs, r.g ≤ r'.g := (List.pairwise_cons.mp hrem).1
    have hrs : SortedW rs := (List.pairwise_cons.mp hrem).2
    have hs1 := sortedG_dropWhile hloc (fun p => decide (p.g < r.g))
    have hge1 := dropWhile_all_ge hloc r.g
    -- skipping the smaller local entries changes nothing for r and for the later remote entries
    have hskip : joinAll fs (loc.dropWhile (fun p => decide (p.g < r.g))) (r :: rs) = joinAll fs loc (r :: rs) :=
      joinAll_congr fs loc _ (r :: rs) (fun r' hr' => by
        apply matchesOf_dropWhile
        rcases List.mem_cons.mp hr' with e | e
        · subst e; omega
        · exact hr r' e)
    rw [← hskip]
    unfold unpackLoop
    generalize hl1 : loc.dropWhile (fun p => decide (p.g < r.g)) = loc1 at hs1 hge1
    cases loc1 with
    | nil =>
      simp only []
      symm
      exact joinAll_nil_of_lt fs [] (r :: rs) (fun _ _ x hx => by simp at hx)
    | cons p ps =>
      simp only []
      by_cases hpe : p.g = r.g
      · simp only [hpe, if_true]
        rw [joinAll_cons, takeSame_matches fs r (p :: ps)]
        have hgt := takeSame_rest_gt fs r (p :: ps) hs1 hge1
        have hrest : matchesOf fs r (takeSame fs r (p :: ps)).2 = [] :=
          matchesOf_nil_of_ne (fun x hx e => by have := hgt x hx; omega)
        rw [hrest, List.append_nil]
        congr 1
        by_cases hrw : rewinds r rs = true
        · rw [if_pos hrw]
          exact unpackLoop_eq_joinAll fs rs (p :: ps) hrs hs1
        · rw [if_neg hrw]
          rw [unpackLoop_eq_joinAll fs rs _ hrs (takeSame_sorted fs r (p :: ps) hs1)]
          apply joinAll_congr
          intro r' hr'
          apply takeSame_other
          -- the next remote entry has a different, hence larger global index; so have all later ones
          cases rs with
          | nil => simp at hr'
          | cons r1 rs1 =>
            have h1 : r1.g ≠ r.g := by simpa [rewinds] using hrw
            have h2 : r.g ≤ r1.g := hr r1 (by simp)
            rcases List.mem_cons.mp hr' with e | e
            · subst e; exact h1
            · have := (List.pairwise_cons.mp hrs).1 r' e; omega
      · simp only [hpe, if_false]
        rw [joinAll_cons, unpackLoop_eq_joinAll fs rs (p :: ps) hrs hs1]
        have : matchesOf fs r (p :: ps) = [] :=
          matchesOf_nil_of_ne (fun x hx e => by
            have hpg := hge1 p (by simp)
            rcases List.mem_cons.mp hx with e' | e'
            · subst e'; exact hpe e
            · have := (List.pairwise_cons.mp hs1).1 x e'; omega)
        rw [this]
        rfl

theorem sortedG_published {s : List Pair} (h : SortedG s) (ign : Bool) : SortedG (published ign s) :=
  List.Pairwise.sublist List.filter_sublist h

theorem sortedW_wire {s : List Pair} (h : SortedG s) : SortedW (wire s) := by
  unfold SortedW wire
  rw [List.pairwise_map]
  exact h

theorem unpackIndices_eq_all (fs : Bool) (a b : List Wire) (loc : List Pair) (ha : SortedW a) (hl : SortedG loc) :
    unpackIndices fs (a ++ b) a.length loc = (joinAll fs loc a, b) := by
  unfold unpackIndices
  by_cases h0 : a.length = 0
  · have : a = [] := List.length_eq_zero_iff.mp h0
    subst this
    simp [joinAll]
  · simp [h0, unpackLoop_eq_joinAll fs a loc ha hl]

/-- one index set on both sides, repeated globals allowed -/
theorem fromRank_oneset (ign : Bool) (sys : System) {p q : Nat}
    (hp2 : (sys.rank p).two = false) (hq2 : (sys.rank q).two = false)
    (hps : SortedG (sys.rank p).src) (hqs : SortedG (sys.rank q).src) (fs : Bool) :
    fromRank ign sys p q fs =
      optLists (joinAll fs ((sys.rank p).srcPairs ign) (wire ((sys.rank q).srcPairs ign)),
                joinAll fs ((sys.rank p).srcPairs ign) (wire ((sys.rank q).srcPairs ign))) := by
  unfold fromRank unpackCreateRemote optLists
  have hmsg : mkMsg ign (sys.rank q) = ⟨false, (wire (published ign (sys.rank q).src)).length, 0,
      wire (published ign (sys.rank q).src) ++ []⟩ := by
    simp [mkMsg, hq2, wire]
  rw [hmsg]
  simp only [RankData.srcPairs, Bool.not_false, if_true, hp2, Bool.false_eq_true, if_false]
  rw [unpackIndices_eq_all fs _ [] _ (sortedW_wire (sortedG_published hqs ign)) (sortedG_published hps ign)]
  rfl

end DV.C04
